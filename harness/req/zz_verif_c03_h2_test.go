//go:build verif

package req

// C03 — HTTP/2: the real client (forced HTTP/2 over cleartext TCP) against a frame-script peer
// built on x/net/http2.Framer + hpack: the response stream is ended early by RST_STREAM,
// GOAWAY, TCP close (at a frame boundary or mid-frame) or END_STREAM before the declared
// content-length, or carries more DATA than declared.

import (
	"bytes"
	"fmt"
	"io"
	"net"
	"strconv"
	"strings"
	"sync"
	"testing"
	"time"

	"github.com/imroc/req/v3/internal/verifh"
	xhttp2 "golang.org/x/net/http2"
	"golang.org/x/net/http2/hpack"
)

type c03H2Scenario struct {
	name     string
	declared int    // content-length header value, -1 = none
	body     string // the body the origin means to send
	send     int    // DATA bytes actually sent before the ending
	extra    int    // DATA bytes sent beyond the body (over-long)
	ending   string // end-stream | end-stream-then-rst | rst | goaway | close | midframe | close-before-headers
	frames   int    // number of DATA frames the sent bytes are split into
	complete bool   // the exchange is a complete, consistent response
	status   int    // response status (0 = 200)
	head     bool   // the client sends HEAD
	code     uint32 // error code of RST_STREAM / GOAWAY
	lastAt   bool   // GOAWAY last-stream-id = this stream (else 0, below it)
	finish   bool   // after GOAWAY(last = this stream): still send the rest with END_STREAM
	retryOK  bool   // the client may legitimately have replayed the request (no response frame was sent)
	interim  int    // informational (103) HEADERS in front of the final response
	late     bool   // the surplus bytes go out in a later DATA frame, after the client drained the body
	noHead   bool   // the fault (rst / goaway) hits before any response frame
	trailers bool   // END_STREAM is carried by a trailers HEADERS frame instead of the last DATA frame
	afterES  int    // DATA bytes sent after END_STREAM (not part of the response)
	headES   bool   // END_STREAM on the HEADERS frame although a length > 0 is declared
	closeAt  int    // >= 0: the (streaming) caller reads this many bytes, then closes the body; the peer leaves the stream open
	enc      string // Content-Encoding of the response ("" = none): the body is the ENCODED byte string
	surplus  []byte // the bytes sent beyond the body (len = extra); nil = extra times 'X'
	extraHdr [][2]string // further response header fields (prelude exchanges: challenge, location)
}

// c03H2Prelude is the complete, body-less exchange in front of the scripted one (see c03Positions):
// it takes stream 1, the scripted response answers stream 3 of the same connection.
func c03H2Prelude(pos string) c03H2Scenario {
	sc := c03H2Scenario{name: "prelude-" + pos, declared: 0, frames: 1, ending: "end-stream", complete: true, closeAt: -1}
	switch pos {
	case "digest":
		sc.status, sc.extraHdr = 401, [][2]string{{"www-authenticate", `Digest realm="c03", nonce="5f1c0a77c03", qop="auth", algorithm=MD5`}}
	case "retried":
		sc.status = 503
	case "redirect":
		sc.status, sc.extraHdr = 302, [][2]string{{"location", "/after-redirect"}}
	}
	return sc
}

func c03Extra(surplus []byte, extra int) []byte {
	if surplus != nil {
		return surplus
	}
	return bytes.Repeat([]byte("X"), extra)
}

// c03H2Fr is one step of the peer's script for a stream. The SAME plan drives the peer (what is
// written to the wire) and the model (the event list of lane c03h2).
type c03H2Fr struct {
	kind      string // H | D | R | G | X (close the TCP connection) | P (cut DATA frame, then X follows) | S (sleep)
	es        bool
	fields    [][2]string
	data      []byte
	code      uint32
	lastAt    bool
	ms        int
	announced int // P: the payload length the frame header announces
}

func c03H2Plan(sc c03H2Scenario) []c03H2Fr {
	var fr []c03H2Fr
	if sc.ending == "close-before-headers" {
		return []c03H2Fr{{kind: "X"}}
	}
	if sc.noHead {
		switch sc.ending {
		case "rst":
			fr = append(fr, c03H2Fr{kind: "R", code: sc.code})
		case "goaway":
			fr = append(fr, c03H2Fr{kind: "G", code: sc.code, lastAt: sc.lastAt}, c03H2Fr{kind: "S", ms: 20}, c03H2Fr{kind: "X"})
		}
		return fr
	}
	for j := 0; j < sc.interim; j++ {
		fr = append(fr, c03H2Fr{kind: "H", fields: [][2]string{{":status", "103"}, {"link", "</s.css>; rel=preload"}}})
	}
	st := sc.status
	if st == 0 {
		st = 200
	}
	fields := [][2]string{{":status", strconv.Itoa(st)}, {"content-type", "application/octet-stream"}}
	if sc.declared >= 0 {
		fields = append(fields, [2]string{"content-length", strconv.Itoa(sc.declared)})
	}
	if sc.enc != "" {
		fields = append(fields, [2]string{"content-encoding", sc.enc})
	}
	fields = append(fields, sc.extraHdr...)
	endsByFlag := sc.ending == "end-stream" || sc.ending == "end-stream-then-rst"
	fr = append(fr, c03H2Fr{kind: "H", fields: fields, es: sc.headES || (endsByFlag && sc.send+sc.extra == 0 && !sc.trailers)})
	payload := []byte(sc.body)[:sc.send]
	if !sc.late {
		payload = append(payload, c03Extra(sc.surplus, sc.extra)...)
	}
	n := sc.frames
	if n < 1 {
		n = 1
	}
	for i := 0; i < n && len(payload) > 0; i++ {
		k := len(payload) / (n - i)
		if k == 0 {
			k = len(payload)
		}
		last := i == n-1 || k == len(payload)
		if sc.ending == "midframe" && last {
			// a DATA frame header announcing k bytes, then only half of them, then TCP close
			return append(fr, c03H2Fr{kind: "P", announced: k, data: payload[:k/2]}, c03H2Fr{kind: "X"})
		}
		fr = append(fr, c03H2Fr{kind: "D", es: endsByFlag && last && !sc.late && !sc.trailers, data: payload[:k]})
		payload = payload[k:]
	}
	if sc.late {
		// let the client consume exactly the declared bytes first
		fr = append(fr, c03H2Fr{kind: "S", ms: 40}, c03H2Fr{kind: "D", es: !sc.trailers, data: c03Extra(sc.surplus, sc.extra)})
	}
	if sc.trailers && endsByFlag {
		fr = append(fr, c03H2Fr{kind: "H", es: true, fields: [][2]string{{"x-trailer", "v"}}})
	}
	if sc.afterES > 0 {
		fr = append(fr, c03H2Fr{kind: "D", data: bytes.Repeat([]byte("Y"), sc.afterES)})
	}
	switch sc.ending {
	case "rst", "end-stream-then-rst":
		fr = append(fr, c03H2Fr{kind: "R", code: sc.code})
	case "goaway":
		fr = append(fr, c03H2Fr{kind: "G", code: sc.code, lastAt: sc.lastAt})
		if sc.finish {
			fr = append(fr, c03H2Fr{kind: "D", es: true, data: []byte(sc.body)[sc.send:]})
		} else {
			fr = append(fr, c03H2Fr{kind: "S", ms: 20}, c03H2Fr{kind: "X"})
		}
	case "close":
		fr = append(fr, c03H2Fr{kind: "X"})
	}
	return fr
}

// c03H2Events renders the plan as the event list of lane c03h2 for stream `id`.
func c03H2Events(plan []c03H2Fr, id uint32) string {
	var evs []string
	b01 := map[bool]string{false: "0", true: "1"}
	for _, f := range plan {
		switch f.kind {
		case "H":
			var kv []string
			for _, p := range f.fields {
				kv = append(kv, verifh.Hex(p[0])+":"+verifh.Hex(p[1]))
			}
			evs = append(evs, "H;"+b01[f.es]+";"+strings.Join(kv, ","))
		case "D":
			evs = append(evs, "D;"+b01[f.es]+";0;"+verifh.Hex(string(f.data)))
		case "R":
			evs = append(evs, "R;"+strconv.Itoa(int(f.code)))
		case "G":
			last := uint32(0)
			if f.lastAt {
				last = id
			}
			evs = append(evs, "G;"+strconv.Itoa(int(last))+";"+strconv.Itoa(int(f.code)))
		case "X":
			evs = append(evs, "X")
		}
	}
	if len(evs) == 0 {
		return "none"
	}
	return strings.Join(evs, "/")
}

type c03H2Peer struct {
	ln    net.Listener
	mu    sync.Mutex
	queue []c03H2Scenario
	conns int
	live  []net.Conn
}

func newC03H2Peer(t testing.TB) *c03H2Peer {
	ln, err := net.Listen("tcp", "127.0.0.1:0")
	if err != nil {
		t.Fatalf("listen: %v", err)
	}
	p := &c03H2Peer{ln: ln}
	go func() {
		for {
			c, err := ln.Accept()
			if err != nil {
				return
			}
			p.mu.Lock()
			p.conns++
			p.live = append(p.live, c)
			p.mu.Unlock()
			go p.serve(c)
		}
	}()
	return p
}

func (p *c03H2Peer) nextScenario() c03H2Scenario {
	p.mu.Lock()
	defer p.mu.Unlock()
	if len(p.queue) == 0 {
		return c03H2Scenario{name: "second", declared: len(c03Second), body: c03Second, send: len(c03Second), ending: "end-stream", frames: 1, complete: true}
	}
	sc := p.queue[0]
	p.queue = p.queue[1:]
	return sc
}

func (p *c03H2Peer) reset(q []c03H2Scenario) {
	p.mu.Lock()
	for _, c := range p.live {
		c.Close()
	}
	p.live = nil
	p.conns = 0
	p.queue = q
	p.mu.Unlock()
}

func (p *c03H2Peer) dials() int {
	p.mu.Lock()
	defer p.mu.Unlock()
	return p.conns
}

func (p *c03H2Peer) serve(c net.Conn) {
	defer c.Close()
	c.SetDeadline(time.Now().Add(15 * time.Second))
	preface := make([]byte, len(xhttp2.ClientPreface))
	if _, err := io.ReadFull(c, preface); err != nil || string(preface) != xhttp2.ClientPreface {
		return
	}
	fr := xhttp2.NewFramer(c, c)
	fr.WriteSettings()
	var hbuf bytes.Buffer
	enc := hpack.NewEncoder(&hbuf)
	for {
		f, err := fr.ReadFrame()
		if err != nil {
			return
		}
		switch f := f.(type) {
		case *xhttp2.SettingsFrame:
			if !f.IsAck() {
				fr.WriteSettingsAck()
			}
		case *xhttp2.PingFrame:
			if !f.IsAck() {
				fr.WritePing(true, f.Data)
			}
		case *xhttp2.HeadersFrame:
			if !f.HeadersEnded() {
				return // the client's GET fits one frame
			}
			id := f.StreamID
			for _, st := range c03H2Plan(p.nextScenario()) {
				switch st.kind {
				case "H":
					hbuf.Reset()
					for _, kv := range st.fields {
						enc.WriteField(hpack.HeaderField{Name: kv[0], Value: kv[1]})
					}
					fr.WriteHeaders(xhttp2.HeadersFrameParam{StreamID: id, BlockFragment: hbuf.Bytes(), EndHeaders: true, EndStream: st.es})
				case "D":
					fr.WriteData(id, st.es, st.data)
				case "R":
					fr.WriteRSTStream(id, xhttp2.ErrCode(st.code))
				case "G":
					last := uint32(0)
					if st.lastAt {
						last = id
					}
					fr.WriteGoAway(last, xhttp2.ErrCode(st.code), nil)
				case "P":
					k := st.announced
					c.Write([]byte{byte(k >> 16), byte(k >> 8), byte(k), 0, 0, byte(id >> 24), byte(id >> 16), byte(id >> 8), byte(id)})
					c.Write(st.data)
				case "S":
					time.Sleep(time.Duration(st.ms) * time.Millisecond)
				case "X":
					return
				}
			}
		}
	}
}

func TestVerif_C03_h2cut(t *testing.T) {
	s := verifh.New(t, "C03", "h2cut",
		"real client forced to HTTP/2 (cleartext, prior knowledge) against a frame-script peer whose script is ALSO the event list given to the Lean model (lane c03h2): response HEADERS with/without content-length, 0-2 informational HEADERS in front, the body split into 1-4 DATA frames, "+
			"ended before any response frame, right after HEADERS or after a strict prefix of the body by RST_STREAM with every error code 0..13 / GOAWAY (NO_ERROR or error, last-stream-id below or at the stream) / TCP close at a frame boundary / TCP close inside a DATA frame / END_STREAM (on DATA, on HEADERS, on a trailers HEADERS) before the declared length, "+
			"or with more DATA than declared (same frame, later frame after the caller drained, at the read-buffer boundary, declared 0), DATA after END_STREAM; controls: complete responses (also with trailers, HEAD with length), graceful GOAWAY(NO_ERROR) after which the response completes, RST_STREAM(NO_ERROR) after END_STREAM; "+
			"first request under a caller mode (auto, streaming with the delivered byte count, body transformer, SetOutput, SetOutputFile, download callback, dump, non-matching retry); then a second request on the same client. "+
			"MODEL-judged: fail / fail-call / fail-body delivered=<bytes> / retry (replayed) / ok status body, and dials after the second request (1 iff the model's connection can take a new request and is in the pool). "+
			"Second opinion (Go oracle): success implies a complete consistent response and the true body; the second request succeeds. non-trivial = fault injected")
	r := s.Rand()
	rp := c03PosRand(3) // the round-6 dimensions draw from their own stream
	peer := newC03H2Peer(t)
	defer func() { peer.ln.Close(); peer.reset(nil) }()
	url := "http://" + peer.ln.Addr().String() + "/x"
	n := verifh.N(350, 3500)
	reached := map[string]int{}
	failures := 0
	tmpDir := t.TempDir()
	rstSeq, goSeq, overSeq, preRst, preGo, zstdSeq := 0, 0, 0, 0, 0, 0
	perName := map[string]int{}
	for i := 0; i < n && failures < 12; i++ {
		plain := verifh.RandBytes(r, 1+r.Intn(300), "abcdefghijklmnopqrstuvwxyz")
		kind := r.Intn(23)
		// the content-encoding dimension: two cases in five carry an ENCODED body (kinds 20..22 always: gzip,
		// several members); everything below — every ending, every cut point, every surplus — applies to it as it is
		var ze *c03EncBody
		if kind >= 20 || r.Intn(5) < 2 {
			ze = c03PickEnc(r, plain, kind >= 20)
		}
		if kind == 20 {
			// every third "fault before the first byte" case is zstd cut within the first four bytes of its frame
			// (offset 0 included) by an ending the framing layer reports as io.ErrUnexpectedEOF: must be an ERROR
			if zstdSeq%3 == 0 {
				ze = c03MakeEnc(r, plain, "zstd", "auto", 1)
			}
			zstdSeq++
		}
		body := plain
		if ze != nil {
			body = string(ze.wire)
		}
		sc := c03H2Scenario{body: body, declared: len(body), send: len(body), frames: 1 + r.Intn(4), ending: "end-stream", complete: true, closeAt: -1}
		if r.Intn(3) == 0 {
			sc.declared = -1
		}
		// where the fault hits: right after HEADERS (no DATA yet) or after a strict prefix of the body
		cutAt := func() int {
			if ze != nil && len(ze.bounds) > 0 && r.Intn(3) == 0 {
				return ze.bounds[r.Intn(len(ze.bounds))] // exactly between two gzip members
			}
			switch r.Intn(4) {
			case 0:
				return 0 // right after HEADERS
			case 1:
				return len(body) - 1 // exactly one byte short of the whole body
			}
			return r.Intn(len(body))
		}
		allCodes := []uint32{0, 1, 2, 3, 4, 5, 6, 7, 8, 9, 10, 11, 12, 13}
		switch kind {
		case 0, 1: // control
			sc.name = "complete"
			// controls without a body although a length is declared: HEAD, 204, 304
			if r.Intn(4) == 0 {
				sc.name, sc.head, sc.declared, sc.send = "complete-head-with-length", true, len(body), 0
				ze = nil
			}
			// (no 304-with-length control on HTTP/2: like x/net/http2 the fork installs a
			// "missing body" for END_STREAM on HEADERS with Content-Length > 0, so reading it
			// yields unexpected EOF — over-strict, not a truncation reported as success)
		case 2, 3, 4: // RST_STREAM with EVERY error code, incl. NO_ERROR, mid-body or after headers only
			sc.ending, sc.send, sc.complete, sc.code = "rst", cutAt(), false, allCodes[rstSeq%len(allCodes)]
			rstSeq++
			if rstSeq%3 == 0 {
				sc.code = 0
			}
			sc.name = "rst-code-" + strconv.Itoa(int(sc.code))
		case 5: // GOAWAY (NO_ERROR or an error) with last-stream-id below / at the stream, then TCP close
			sc.ending, sc.send, sc.complete = "goaway", cutAt(), false
			sc.code = []uint32{0, 0, 2, 11}[goSeq%4]
			sc.lastAt = (goSeq/4)%2 == 0
			goSeq++
			sc.name = "goaway-code-" + strconv.Itoa(int(sc.code)) + map[bool]string{true: "-last-at", false: "-last-below"}[sc.lastAt]
		case 6: // graceful shutdown: GOAWAY(NO_ERROR, last = this stream), the response still completes
			sc.name, sc.ending, sc.send, sc.code, sc.lastAt, sc.finish = "goaway-graceful-complete", "goaway", cutAt(), 0, true, true
		case 7:
			sc.name, sc.ending, sc.send, sc.complete = "tcp-close", "close", cutAt(), false
		case 8:
			sc.name, sc.ending, sc.send, sc.complete = "midframe", "midframe", 2+r.Intn(len(body)), false
			if sc.send > len(body) {
				sc.send = len(body)
			}
		case 9: // END_STREAM before the declared length
			sc.name, sc.declared, sc.send, sc.complete = "short-end-stream", len(body), cutAt(), false
		case 10: // more DATA than declared
			sc.name, sc.declared, sc.extra, sc.complete = "overlong", len(body), verifh.Pick(r, []int{1, 1, 1 + r.Intn(20), 2 + r.Intn(19)}), false
			switch overSeq % 4 {
			case 1: // the surplus arrives in a later DATA frame, after the declared bytes were consumed
				sc.name, sc.late = "overlong-late-frame", true
			case 2: // declared length = the first read buffer of io.ReadAll (512), surplus in the same frame
				if ze != nil {
					break
				}
				body = verifh.RandBytes(r, verifh.Pick(r, []int{512, 512, 1024}), "abcdefghijklmnopqrstuvwxyz")
				sc.name, sc.body, sc.declared, sc.send, sc.frames = "overlong-at-read-buffer", body, len(body), len(body), 1
			case 3: // content-length: 0, HEADERS without END_STREAM, then DATA
				sc.name, sc.declared, sc.send, sc.late = "overlong-zero-length", 0, 0, r.Intn(2) == 0
			}
			overSeq++
		case 11:
			sc.name, sc.ending, sc.complete = "close-before-headers", "close-before-headers", false
		case 12: // complete body but the stream is reset (any code) instead of END_STREAM
			sc.name, sc.ending, sc.complete, sc.code = "rst-after-full-body", "rst", false, verifh.Pick(r, []uint32{0, 0, 2, 8})
		case 13: // control: END_STREAM, THEN RST_STREAM(NO_ERROR) (RFC 9113 8.1: "stop uploading")
			sc.name, sc.ending, sc.code = "rst-noerror-after-end-stream", "end-stream-then-rst", 0
		case 14: // the stream is reset before any response frame: REFUSED_STREAM and PROTOCOL_ERROR are replayed
			sc.ending, sc.noHead, sc.complete, sc.retryOK = "rst", true, false, true
			sc.code = []uint32{7, 1, 0, 8, 2, 11, 5}[preRst%7]
			preRst++
			sc.name = "rst-before-headers-code-" + strconv.Itoa(int(sc.code))
		case 15: // GOAWAY before any response frame: a stream above last-stream-id is replayed unless the code is an error
			sc.ending, sc.noHead, sc.complete, sc.retryOK = "goaway", true, false, true
			sc.code = []uint32{0, 2, 0, 11}[preGo%4]
			sc.lastAt = (preGo/4)%2 == 1
			preGo++
			sc.name = "goaway-before-headers-code-" + strconv.Itoa(int(sc.code)) + map[bool]string{true: "-last-at", false: "-last-below"}[sc.lastAt]
		case 16: // END_STREAM carried by a trailers HEADERS frame: complete, or before the declared length
			sc.trailers = true
			if r.Intn(2) == 0 {
				sc.name = "complete-with-trailers"
			} else {
				sc.name, sc.declared, sc.send, sc.complete = "short-with-trailers", len(body), cutAt(), false
			}
		case 17: // control: DATA after END_STREAM is not part of the response
			sc.name, sc.afterES = "data-after-end-stream", 1+r.Intn(20)
		case 18: // END_STREAM on HEADERS although a length > 0 is declared
			sc.name, sc.declared, sc.send, sc.headES, sc.complete = "headers-end-stream-with-length", len(body), 0, true, false
		case 19: // the caller gives up: it reads part of what arrived and closes the body while the peer keeps the stream open
			sc.name, sc.ending, sc.send = "caller-closes-early", "open", 1+r.Intn(len(body))
			sc.closeAt = r.Intn(sc.send + 1)
			ze = nil // (the bytes are then just a binary body)
		case 20: // encoded body, the fault hits BEFORE its first byte: reset (any code) / GOAWAY / TCP close / END_STREAM with a declared length
			sc.send, sc.complete = 0, false
			sub := r.Intn(4)
			if ze.enc == "zstd" {
				sc.send, sub = r.Intn(4), 2+r.Intn(2)
				reached["zstd-frame-start-cut"]++
			}
			switch sub {
			case 0:
				sc.ending, sc.code = "rst", allCodes[r.Intn(len(allCodes))]
			case 1:
				sc.ending, sc.code, sc.lastAt = "goaway", []uint32{0, 2}[r.Intn(2)], true
			case 2:
				sc.ending = "close"
			case 3:
				sc.declared, sc.trailers = len(body), r.Intn(2) == 0 || ze.enc == "zstd"
			}
			sc.name = "enc-fault-before-first-byte"
		case 21: // END_STREAM exactly between two gzip members, short of the declared length
			sc.name, sc.declared, sc.send, sc.complete, sc.trailers = "enc-short-at-member-boundary", len(body), ze.bounds[r.Intn(len(ze.bounds))], false, r.Intn(3) == 0
		case 22: // more DATA than declared, the surplus being a further valid gzip member (or junk)
			sc.name, sc.declared, sc.complete, sc.late = "enc-overlong-member", len(body), false, r.Intn(2) == 0
			sc.surplus = ze.surplus(r)
			sc.extra = len(sc.surplus)
		}
		if ze != nil && sc.extra > 0 && sc.surplus == nil && r.Intn(2) == 0 {
			sc.surplus = ze.surplus(r)
			sc.extra = len(sc.surplus)
		}
		// deflate / br / zstd decoders stop at their own end-of-stream mark and never look at what the
		// framing layer says after it (C14: "trailing bytes go unnoticed"): for them only the faults that cut
		// the ENCODED stream short are C03 matter; the rest of the matrix runs under gzip (whose reader
		// reads its source to the end) and identity. Such a case keeps its bytes as a plain binary body.
		if ze != nil && ze.enc != "gzip" && !sc.complete && !(sc.send < len(body) && sc.extra == 0) {
			ze = nil
		}
		if ze != nil {
			sc.enc = ze.enc
			s.Count("enc:" + ze.tag())
			reached["enc:"+ze.tag()]++
			if !sc.complete {
				reached["enc-fault:"+ze.enc]++
			}
		}
		perName[sc.name]++
		if perName[sc.name]%4 == 1 && !sc.noHead && sc.ending != "close-before-headers" {
			sc.interim = 1 + r.Intn(2)
			s.Count("interim-1xx")
		}
		peer.reset([]c03H2Scenario{sc})
		c := C().EnableForceHTTP2().EnableH2C().SetTimeout(10 * time.Second)
		stream := r.Intn(4) == 0 || sc.closeAt >= 0
		cc := &c03Caller{mode: c03PickMode(r, "", "", 0), dir: tmpDir}
		if stream {
			c.DisableAutoReadResponse().DisableAutoDecode()
		} else {
			cc.prepClient(c)
		}
		ze.prep(c)
		// exchange position: the scripted response answers the LAST exchange of the call (stream 3),
		// a complete body-less prelude (401 challenge / 503 / 302) takes stream 1
		sid := 1
		if cc.pos = c03PickPos(rp, cc.mode, true); cc.pos != "" {
			c03ApplyPos(c, cc.pos)
			peer.reset([]c03H2Scenario{c03H2Prelude(cc.pos), sc})
			sid = 3
			s.Count("pos:" + cc.pos)
			reached["pos:"+cc.pos]++
			if !sc.complete {
				reached["pos-cut:"+cc.pos]++
			}
		}
		method := "GET"
		if sc.head {
			method = "HEAD"
		}
		want := body
		if ze != nil {
			want = plain
		}
		if sc.head || sc.status == 304 {
			want = ""
		}
		var fx c03First
		closedThen := ""
		if sc.closeAt >= 0 {
			// read exactly closeAt bytes, close, and read once more
			resp, err := c.R().Get(url)
			if err != nil || resp == nil || resp.Response == nil {
				fx.callFailed = true
				if err != nil {
					fx.err = err.Error()
				}
			} else {
				fx.status = resp.StatusCode
				buf := make([]byte, sc.closeAt)
				n, _ := io.ReadFull(resp.Body, buf)
				fx.body = buf[:n]
				resp.Body.Close()
				if _, rerr := resp.Body.Read(make([]byte, 1)); rerr != nil && rerr != io.EOF {
					closedThen = "closed"
				} else {
					closedThen = "not-closed"
				}
				fx.ok = true
			}
		} else {
			fx = c03DoFirstX(c, method, url, stream, cc)
		}
		first, ferr := fx.render()
		callerName := cc.name()
		if stream {
			callerName = "stream"
		}
		if sc.closeAt >= 0 {
			callerName = "stream-close"
		}
		s.Count("caller:" + callerName)
		second, err2 := c.R().Get(url)
		secondOK := err2 == nil && second != nil && second.Response != nil
		if secondOK {
			if stream {
				b, rerr := io.ReadAll(second.Body)
				second.Body.Close()
				secondOK = rerr == nil && string(b) == c03Second
			} else {
				secondOK = second.String() == c03Second
			}
		}
		dials := peer.dials()
		c.GetTransport().CloseIdleConnections()
		// the implementation's answer in the model's vocabulary
		mode := map[bool]string{true: "s", false: "a"}[stream]
		impl := "fail"
		switch {
		case sc.closeAt >= 0 && fx.ok:
			mode = "c" + strconv.Itoa(sc.closeAt)
			impl = "closed delivered=" + verifh.Hex(string(fx.body)) + " then=" + closedThen
		case sc.closeAt >= 0:
			mode = "c" + strconv.Itoa(sc.closeAt)
			impl = "fail-call"
		case fx.ok && string(fx.body) == c03Second:
			impl = "retry" // what came back is the peer's NEXT response: the request was replayed
			s.Count("replayed")
		case fx.ok:
			impl = "ok status=" + strconv.Itoa(fx.status) + " body=" + verifh.Hex(string(fx.body))
		case stream && fx.callFailed:
			impl = "fail-call"
		case stream && ze != nil:
			impl = "fail-body" // (how much a decoder hands out before it reports the error of its source is its own business)
		case stream:
			impl = "fail-body delivered=" + verifh.Hex(string(fx.body))
		}
		impl += " dials=" + strconv.Itoa(dials)
		lane := "c03h2 "
		if ze != nil {
			lane = "c03h2z " + ze.enc + " "
		}
		line := lane + map[bool]string{true: "1", false: "0"}[sc.head] + " " + strconv.Itoa(sid) + " " + c03H2Events(c03H2Plan(sc), uint32(sid)) + " " + mode
		// second opinion: the Go-side property oracle
		ok, why := true, ""
		if sc.closeAt >= 0 {
			// the caller gave up on purpose: nothing to judge but the bytes it was handed and the next request
			if !fx.ok || string(fx.body) != body[:sc.closeAt] {
				ok, why = false, "the bytes read before Close are not the first bytes of the body"
			}
			reached["ok"]++
		} else if strings.HasPrefix(first, "ok") {
			if sc.retryOK && first == "ok body="+c03Second {
				// the unprocessed request was replayed on a new connection: a complete response
				s.Count("replayed-unprocessed")
			} else if !sc.complete {
				ok, why = false, "incomplete/inconsistent HTTP/2 response reported as success: "+c04Short(first)
			} else if first != "ok body="+want {
				ok, why = false, "body differs from the true body"
			}
			reached["ok"]++
		} else {
			if sc.complete {
				ok, why = false, "complete response reported as failure: "+ferr
			}
			reached["fail"]++
		}
		if ze != nil && !fx.ok && !strings.HasPrefix(plain, string(fx.body)) {
			ok, why = false, "the bytes handed out before the failure are not a prefix of the decoded body"
		}
		if !secondOK {
			msg := ""
			if err2 != nil {
				msg = err2.Error()
			}
			ok, why = false, "second request on the same client failed: "+msg
		}
		if !ok {
			failures++
		}
		reached[sc.name]++
		s.Count("scenario:" + sc.name)
		s.Count("dials:" + strconv.Itoa(dials))
		human := fmt.Sprintf("h2 %s enc=%s declared=%d body=%d sent=%d extra=%d frames=%d interim=%d caller=%s pos=%s -> %s (%s) second-ok=%v dials=%d",
			sc.name, ze.tag(), sc.declared, len(body), sc.send, sc.extra, sc.frames, sc.interim, callerName, cc.pos, c04Short(first), ferr, secondOK, dials)
		if why != "" {
			human += " ORACLE: " + why
		}
		if ze != nil && !ze.modelled {
			// br / zstd: no container model — judged by the oracle alone
			zclass := ""
			if !ok && fx.ok && ze.enc == "zstd" && sc.send <= 3 {
				zclass = c03ZstdClass
				failures--
			}
			s.Observe(fmt.Sprintf("h2z/%d/%s/%s", i, sc.name, ze.tag()), ok, zclass, !sc.complete, human, why)
			continue
		}
		s.Case(line, impl, ok, "", !sc.complete, human)
	}
	s.Finish()
	if failures >= 12 {
		return
	}
	for _, need := range []string{"ok", "fail", "complete", "complete-head-with-length", "rst-code-0", "rst-code-8", "goaway-code-0-last-at", "goaway-code-0-last-below", "goaway-graceful-complete", "rst-noerror-after-end-stream", "tcp-close", "midframe", "short-end-stream", "overlong", "overlong-late-frame", "overlong-at-read-buffer", "overlong-zero-length", "close-before-headers",
		"rst-before-headers-code-7", "rst-before-headers-code-1", "rst-before-headers-code-0", "goaway-before-headers-code-0-last-below", "goaway-before-headers-code-2-last-below", "complete-with-trailers", "short-with-trailers", "data-after-end-stream", "headers-end-stream-with-length", "caller-closes-early",
		"enc-fault-before-first-byte", "enc-short-at-member-boundary", "enc-overlong-member", "enc:gzip-transparent", "enc:gzip-auto", "enc:deflate-auto", "enc:br-auto", "enc:zstd-auto",
		"enc-fault:gzip", "enc-fault:deflate", "enc-fault:br", "enc-fault:zstd", "zstd-frame-start-cut",
		"pos:digest", "pos:retried", "pos:redirect", "pos-cut:digest", "pos-cut:retried", "pos-cut:redirect"} {
		if reached[need] == 0 {
			t.Errorf("C03/h2cut never reached %q", need)
		}
	}
}
