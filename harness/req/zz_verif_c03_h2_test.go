//go:build verif

package req

// C03 — HTTP/2: the real client (forced HTTP/2 over cleartext TCP) against a frame-script peer
// built on x/net/http2.Framer + hpack: the response stream is ended early by RST_STREAM,
// GOAWAY, TCP close (at a frame boundary or mid-frame) or END_STREAM before the declared
// content-length, or carries more DATA than declared.

import (
	"bytes"
	"fmt"
	"io"
	"net"
	"strconv"
	"strings"
	"sync"
	"testing"
	"time"

	"github.com/imroc/req/v3/internal/verifh"
	xhttp2 "golang.org/x/net/http2"
	"golang.org/x/net/http2/hpack"
)

type c03H2Scenario struct {
	name     string
	declared int    // content-length header value, -1 = none
	body     string // the body the origin means to send
	send     int    // DATA bytes actually sent before the ending
	extra    int    // DATA bytes sent beyond the body (over-long)
	ending   string // end-stream | rst | goaway | close | midframe | none-then-close-before-headers
	frames   int    // number of DATA frames the sent bytes are split into
	complete bool   // the exchange is a complete, consistent response
}

type c03H2Peer struct {
	ln    net.Listener
	mu    sync.Mutex
	queue []c03H2Scenario
	conns int
	live  []net.Conn
}

func newC03H2Peer(t testing.TB) *c03H2Peer {
	ln, err := net.Listen("tcp", "127.0.0.1:0")
	if err != nil {
		t.Fatalf("listen: %v", err)
	}
	p := &c03H2Peer{ln: ln}
	go func() {
		for {
			c, err := ln.Accept()
			if err != nil {
				return
			}
			p.mu.Lock()
			p.conns++
			p.live = append(p.live, c)
			p.mu.Unlock()
			go p.serve(c)
		}
	}()
	return p
}

func (p *c03H2Peer) nextScenario() c03H2Scenario {
	p.mu.Lock()
	defer p.mu.Unlock()
	if len(p.queue) == 0 {
		return c03H2Scenario{name: "second", declared: len(c03Second), body: c03Second, send: len(c03Second), ending: "end-stream", frames: 1, complete: true}
	}
	sc := p.queue[0]
	p.queue = p.queue[1:]
	return sc
}

func (p *c03H2Peer) reset(q []c03H2Scenario) {
	p.mu.Lock()
	for _, c := range p.live {
		c.Close()
	}
	p.live = nil
	p.conns = 0
	p.queue = q
	p.mu.Unlock()
}

func (p *c03H2Peer) dials() int {
	p.mu.Lock()
	defer p.mu.Unlock()
	return p.conns
}

func (p *c03H2Peer) serve(c net.Conn) {
	defer c.Close()
	c.SetDeadline(time.Now().Add(15 * time.Second))
	preface := make([]byte, len(xhttp2.ClientPreface))
	if _, err := io.ReadFull(c, preface); err != nil || string(preface) != xhttp2.ClientPreface {
		return
	}
	var wmu sync.Mutex
	fr := xhttp2.NewFramer(c, c)
	fr.WriteSettings()
	var hbuf bytes.Buffer
	enc := hpack.NewEncoder(&hbuf)
	for {
		f, err := fr.ReadFrame()
		if err != nil {
			return
		}
		switch f := f.(type) {
		case *xhttp2.SettingsFrame:
			if !f.IsAck() {
				wmu.Lock()
				fr.WriteSettingsAck()
				wmu.Unlock()
			}
		case *xhttp2.PingFrame:
			if !f.IsAck() {
				wmu.Lock()
				fr.WritePing(true, f.Data)
				wmu.Unlock()
			}
		case *xhttp2.HeadersFrame:
			if !f.HeadersEnded() {
				return // the client's GET fits one frame
			}
			sc := p.nextScenario()
			id := f.StreamID
			wmu.Lock()
			if sc.ending == "close-before-headers" {
				wmu.Unlock()
				return
			}
			hbuf.Reset()
			enc.WriteField(hpack.HeaderField{Name: ":status", Value: "200"})
			enc.WriteField(hpack.HeaderField{Name: "content-type", Value: "application/octet-stream"})
			if sc.declared >= 0 {
				enc.WriteField(hpack.HeaderField{Name: "content-length", Value: strconv.Itoa(sc.declared)})
			}
			fr.WriteHeaders(xhttp2.HeadersFrameParam{StreamID: id, BlockFragment: hbuf.Bytes(), EndHeaders: true,
				EndStream: sc.ending == "end-stream" && sc.send+sc.extra == 0})
			payload := []byte(sc.body)[:sc.send]
			payload = append(payload, bytes.Repeat([]byte("X"), sc.extra)...)
			n := sc.frames
			if n < 1 {
				n = 1
			}
			for i := 0; i < n && len(payload) > 0; i++ {
				k := len(payload) / (n - i)
				if k == 0 {
					k = len(payload)
				}
				last := i == n-1 || k == len(payload)
				if sc.ending == "midframe" && last {
					// a DATA frame header announcing k bytes, then only half of them, then TCP close
					hdr := []byte{byte(k >> 16), byte(k >> 8), byte(k), 0, 0, byte(id >> 24), byte(id >> 16), byte(id >> 8), byte(id)}
					c.Write(hdr)
					c.Write(payload[:k/2])
					wmu.Unlock()
					return
				}
				fr.WriteData(id, sc.ending == "end-stream" && last, payload[:k])
				payload = payload[k:]
			}
			switch sc.ending {
			case "rst":
				fr.WriteRSTStream(id, xhttp2.ErrCodeInternal)
			case "goaway":
				fr.WriteGoAway(0, xhttp2.ErrCodeInternal, nil)
				wmu.Unlock()
				time.Sleep(20 * time.Millisecond)
				return
			case "close", "midframe":
				wmu.Unlock()
				return
			}
			wmu.Unlock()
		}
	}
}

func TestVerif_C03_h2cut(t *testing.T) {
	s := verifh.New(t, "C03", "h2cut",
		"real client forced to HTTP/2 (cleartext, prior knowledge) against a frame-script peer: response HEADERS with/without content-length, the body split into 1-4 DATA frames, "+
			"ended after a strict prefix of the body by RST_STREAM / GOAWAY / TCP close at a frame boundary / TCP close inside a DATA frame / END_STREAM before the declared length, "+
			"or with more DATA than declared, or closed before HEADERS; complete responses as controls; then a second request on the same client. "+
			"Oracle: success implies a complete consistent response and the true body; the second request succeeds. non-trivial = fault injected")
	r := s.Rand()
	peer := newC03H2Peer(t)
	defer func() { peer.ln.Close(); peer.reset(nil) }()
	url := "http://" + peer.ln.Addr().String() + "/x"
	n := verifh.N(250, 2500)
	reached := map[string]int{}
	failures := 0
	for i := 0; i < n && failures < 12; i++ {
		body := verifh.RandBytes(r, 1+r.Intn(300), "abcdefghijklmnopqrstuvwxyz")
		sc := c03H2Scenario{body: body, declared: len(body), send: len(body), frames: 1 + r.Intn(4), ending: "end-stream", complete: true}
		if r.Intn(3) == 0 {
			sc.declared = -1
		}
		kind := r.Intn(10)
		switch kind {
		case 0, 1: // control
			sc.name = "complete"
		case 2:
			sc.name, sc.ending, sc.send, sc.complete = "rst", "rst", r.Intn(len(body)), false
		case 3:
			sc.name, sc.ending, sc.send, sc.complete = "goaway", "goaway", r.Intn(len(body)), false
		case 4:
			sc.name, sc.ending, sc.send, sc.complete = "tcp-close", "close", r.Intn(len(body)), false
		case 5:
			sc.name, sc.ending, sc.send, sc.complete = "midframe", "midframe", 2+r.Intn(len(body)), false
			if sc.send > len(body) {
				sc.send = len(body)
			}
		case 6: // END_STREAM before the declared length
			sc.name, sc.declared, sc.send, sc.complete = "short-end-stream", len(body), r.Intn(len(body)), false
		case 7: // more DATA than declared
			sc.name, sc.declared, sc.extra, sc.complete = "overlong", len(body), 1+r.Intn(20), false
		case 8:
			sc.name, sc.ending, sc.complete = "close-before-headers", "close-before-headers", false
		case 9: // complete body but the stream is reset instead of END_STREAM
			sc.name, sc.ending, sc.complete = "rst-after-full-body", "rst", false
		}
		peer.reset([]c03H2Scenario{sc})
		c := C().EnableForceHTTP2().EnableH2C().DisableAutoDecode().SetTimeout(10 * time.Second)
		stream := r.Intn(3) == 0
		if stream {
			c.DisableAutoReadResponse()
		}
		first, ferr := "fail", ""
		resp, err := c.R().Get(url)
		if err == nil && resp != nil && resp.Response != nil {
			if stream {
				b, rerr := io.ReadAll(resp.Body)
				resp.Body.Close()
				if rerr == nil {
					first = "ok body=" + string(b)
				} else {
					ferr = "body read: " + rerr.Error()
				}
			} else if resp.Err == nil {
				first = "ok body=" + string(resp.Bytes())
			} else {
				ferr = resp.Err.Error()
			}
		} else if err != nil {
			ferr = err.Error()
		}
		second, err2 := c.R().Get(url)
		secondOK := err2 == nil && second != nil && second.Response != nil
		if secondOK {
			if stream {
				b, rerr := io.ReadAll(second.Body)
				second.Body.Close()
				secondOK = rerr == nil && string(b) == c03Second
			} else {
				secondOK = second.String() == c03Second
			}
		}
		c.GetTransport().CloseIdleConnections()
		ok, why := true, ""
		if strings.HasPrefix(first, "ok") {
			if !sc.complete {
				ok, why = false, "incomplete/inconsistent HTTP/2 response reported as success: "+c04Short(first)
			} else if first != "ok body="+body {
				ok, why = false, "body differs from the true body"
			}
			reached["ok"]++
		} else {
			if sc.complete {
				ok, why = false, "complete response reported as failure: "+ferr
			}
			reached["fail"]++
		}
		if !secondOK {
			msg := ""
			if err2 != nil {
				msg = err2.Error()
			}
			ok, why = false, "second request on the same client failed: "+msg
		}
		if !ok {
			failures++
		}
		reached[sc.name]++
		s.Count("scenario:" + sc.name)
		human := fmt.Sprintf("h2 %s declared=%d body=%d sent=%d extra=%d frames=%d stream-caller=%v -> %s (%s) second-ok=%v dials=%d",
			sc.name, sc.declared, len(body), sc.send, sc.extra, sc.frames, stream, c04Short(first), ferr, secondOK, peer.dials())
		if why != "" {
			human += " ORACLE: " + why
		}
		s.Observe(fmt.Sprintf("h2cut/%d/%s/%d/%d/%d", i, sc.name, sc.declared, sc.send, sc.frames), ok, "", !sc.complete, human, why)
	}
	s.Finish()
	if failures >= 12 {
		return
	}
	for _, need := range []string{"ok", "fail", "complete", "rst", "goaway", "tcp-close", "midframe", "short-end-stream", "overlong", "close-before-headers"} {
		if reached[need] == 0 {
			t.Errorf("C03/h2cut never reached %q", need)
		}
	}
}
