//go:build verif

package req

import (
	"context"
	"crypto/tls"
	"fmt"
	"net/http"
	"testing"
	"time"

	"github.com/imroc/req/v3/internal/verifc14"
	"github.com/imroc/req/v3/internal/verifh"
	"github.com/quic-go/quic-go"
)

// TestVerif_C14_close_e2e: closing a DECODED Response.Body before its end must let go of the
// exchange underneath, whatever decoder sits on top: the origin (which has sent half of a large
// body and is waiting) must see its request cancelled - the HTTP/1.1 connection closed, the
// HTTP/2 / HTTP/3 stream reset. The clients have NO timeout and the request context is never
// cancelled (a client timeout would cancel the request on Close and hide a wrapper that does not
// pass Close on), both at Transport.RoundTrip level and through the Client.
func TestVerif_C14_close_e2e(t *testing.T) {
	s := verifh.New(t, "C14", "close_e2e",
		"{h1, h2, h3} x decoder {transport-requested gzip, AutoDecompress gzip / deflate / br / zstd, none} x {Transport.RoundTrip, Client API} with clients WITHOUT timeout: the origin streams the first half of a 0.3-1 MiB body and waits; the caller reads 0..5000 bytes (generated sizes), closes the body (once or twice); oracle: Close returns at once and the origin's request context is cancelled within 3 s (normally milliseconds): the connection / stream behind a closed decoded body is released; non-trivial = the body was decoded")
	e := c14NewEnv(t, "h1", "h2", "h3")
	defer e.close()
	r := s.Rand()
	hist := map[string]int{}
	count := func(k string) { s.Count(k); hist[k]++ }
	clients := map[string]*Client{}
	client := func(proto string, auto bool) *Client {
		key := fmt.Sprintf("%s/%v", proto, auto)
		if c, ok := clients[key]; ok {
			return c
		}
		c := C().SetTimeout(0).DisableAutoReadResponse()
		if auto {
			c.EnableAutoDecompress()
		}
		switch proto {
		case "h1":
			c.EnableForceHTTP1()
		case "h2":
			c.EnableForceHTTP2().EnableInsecureSkipVerify()
		case "h3":
			c.EnableForceHTTP3()
			tc := e.tlsCli
			c.Transport.t3.Dial = func(ctx context.Context, addr string, _ *tls.Config, cfg *quic.Config) (quic.EarlyConnection, error) {
				return quic.DialAddrEarly(ctx, addr, tc.Clone(), cfg)
			}
		}
		clients[key] = c
		return c
	}
	defer func() {
		for _, c := range clients {
			c.GetTransport().CloseIdleConnections()
			if c.Transport.t3 != nil {
				c.Transport.t3.Close()
			}
		}
	}()
	type variant struct {
		name string
		auto bool
		alg  string // "" = not encoded
	}
	variants := []variant{{"transport-gzip", false, "gzip"}, {"auto-gzip", true, "gzip"}, {"auto-deflate", true, "deflate"}, {"auto-br", true, "br"}, {"auto-zstd", true, "zstd"}, {"plain", false, ""}}
	i := 0
	for round, rounds := 0, verifh.N(1, 12); round < rounds; round++ {
		for _, proto := range []string{"h1", "h2", "h3"} {
			for _, v := range variants {
				i++
				payload := make([]byte, 300000+r.Intn(700000))
				r.Read(payload) // incompressible: the wire is about as long as the payload
				wire := payload
				var ce []string
				if v.alg != "" {
					wire = verifc14.Compress(v.alg, payload)
					ce = []string{v.alg}
				}
				c := &c14Case{id: fmt.Sprintf("close-%d-%s-%s", i, proto, v.name), proto: proto, auto: v.auto, method: "GET", ce: ce,
					ctype: "application/octet-stream", payload: payload, wire: wire, stream: "valid", alg: v.alg, framing: "stream",
					slow: true, released: make(chan string, 1)}
				e.origin.add(c)
				via := verifh.Pick(r, []string{"transport", "client"})
				readN := verifh.Pick(r, []int{0, 1, 10, 700, 5000})
				closes := 1 + r.Intn(2)
				cl := client(proto, v.auto)
				var unc bool
				var closeTook time.Duration
				infra := ""
				// the request context is cancelled only AFTER the verdict (a Close does not cancel it):
				// what a defective wrapper leaves behind is released then and cannot pile up - leaked
				// HTTP/3 streams would use up the connection's flow-control window and wedge later cases
				ctx, cancel := context.WithTimeout(context.Background(), 60*time.Second)
				ptext, panicked := verifh.Safely(func() {
					var hr *http.Response
					if via == "transport" {
						hreq, _ := http.NewRequestWithContext(ctx, "GET", e.base[proto]+"/", nil)
						hreq.Header.Set("X-C14-Case", c.id)
						resp, err := cl.GetTransport().RoundTrip(hreq)
						if err != nil {
							infra = err.Error()
							return
						}
						hr = resp
					} else {
						resp, err := cl.R().SetContext(ctx).SetHeader("X-C14-Case", c.id).Get(e.base[proto] + "/")
						if err != nil {
							infra = err.Error()
							return
						}
						hr = resp.Response
					}
					unc = hr.Uncompressed
					for got := 0; got < readN; {
						n, err := hr.Body.Read(make([]byte, readN-got))
						got += n
						if err != nil {
							break
						}
					}
					t0 := time.Now()
					for k := 0; k < closes; k++ {
						hr.Body.Close()
					}
					closeTook = time.Since(t0)
				})
				human := fmt.Sprintf("%s %s via %s: read %d bytes of %d, Close x%d", proto, v.name, via, readN, len(payload), closes)
				if panicked {
					cancel()
					s.Crash(c.id, human, ptext, "")
					continue
				}
				if infra != "" {
					cancel()
					t.Fatalf("infra: %s (%s)", infra, human)
				}
				var outcome string
				select {
				case outcome = <-c.released:
				case <-time.After(c14ReleaseWait + 5*time.Second):
					outcome = "origin-silent"
				}
				cancel()
				ok := outcome == "released" && closeTook < c14ReleaseWait-500*time.Millisecond
				class := ""
				switch {
				case v.alg == "deflate" && readN > 0:
					class = "deflate-close-leaves-body-open" // repaired in /repo by 1ae1001
				case v.alg == "zstd" && readN > 0:
					class = "zstd-close-waits-for-body" // fixes/C14-6
				}
				if outcome != "released" {
					human += " :: the origin's request was still alive " + c14ReleaseWait.String() + " after the body was closed (" + outcome + ")"
				}
				if closeTook >= c14ReleaseWait-500*time.Millisecond {
					human += fmt.Sprintf(" :: Close returned only after %.1f s (when the origin gave up)", closeTook.Seconds())
				}
				count(proto)
				count(v.name)
				count("via:" + via)
				if unc {
					count("decoded")
				}
				if (v.alg != "") != unc {
					s.Observe(c.id, false, "", true, human+" :: Uncompressed does not match the variant", "routing")
					continue
				}
				s.Observe(c.id, ok, class, unc, human, outcome)
			}
		}
	}
	for _, k := range []string{"h1", "h2", "h3", "decoded", "via:transport", "via:client", "auto-deflate", "auto-br", "auto-zstd", "auto-gzip", "transport-gzip", "plain"} {
		if hist[k] == 0 {
			t.Errorf("bucket %s not reached", k)
		}
	}
	s.Finish()
}
