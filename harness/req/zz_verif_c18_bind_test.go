//go:build verif

package req

import (
	"context"
	"encoding/json"
	"encoding/xml"
	"errors"
	"fmt"
	"io"
	"net/http"
	"reflect"
	"strconv"
	"strings"
	"testing"

	"github.com/imroc/req/v3/internal/verifh"
)

// ---------------------------------------------------------------------------------------
// shared pieces of the C18 lanes

type c18T struct {
	A   string `json:"a" xml:"a"`
	N   int    `json:"n" xml:"n"`
	Msg string `json:"msg" xml:"msg"`
}

// c18E is the request-level error target type, c18C the client-level common error type.
type c18E struct {
	A   string `json:"a" xml:"a"`
	N   int    `json:"n" xml:"n"`
	Msg string `json:"msg" xml:"msg"`
}
type c18C struct {
	A   string `json:"a" xml:"a"`
	N   int    `json:"n" xml:"n"`
	Msg string `json:"msg" xml:"msg"`
}

// c18UnmErr marks an error that came out of the (wrapped) unmarshaller.
type c18UnmErr struct{ err error }

func (e *c18UnmErr) Error() string { return "unmarshal: " + e.err.Error() }
func (e *c18UnmErr) Unwrap() error { return e.err }

var c18ErrRead = errors.New("c18 body read failure")

// c18Sentinels are the errors scripted stages raise; compared by identity (errors.Is).
var c18Sentinels = func() []error {
	l := make([]error, c18CtxCanceled+1)
	for i := range l {
		l[i] = fmt.Errorf("c18 stage error #%d", i)
	}
	// an error that wraps context.Canceled, as a transport interrupted by a cancelled context returns
	// (the context of the request is NOT cancelled: do() looks at the error only)
	l[c18CtxCanceled] = fmt.Errorf("c18 transport: %w", context.Canceled)
	return l
}()

// c18CtxCanceled is the index of the sentinel that wraps context.Canceled (model: Err.ctxCanceled).
const c18CtxCanceled = 100

var c18ErrOutput = errors.New("c18 output write failure")

// c18ErrName maps an error to the small enum shared with the model.
func c18ErrName(err error) string {
	if err == nil {
		return "-"
	}
	if err == context.Canceled || err == context.DeadlineExceeded {
		return "ctxdone" // r.Context().Err() itself, assigned by do()'s wait
	}
	for i, s := range c18Sentinels {
		if errors.Is(err, s) {
			if i == c18CtxCanceled {
				return "ctxcanceled"
			}
			return "s" + strconv.Itoa(i)
		}
	}
	if errors.Is(err, c18ErrOutput) {
		return "output"
	}
	var u *c18UnmErr
	if errors.As(err, &u) {
		return "unm"
	}
	if errors.Is(err, c18ErrRead) {
		return "read"
	}
	return "other(" + fmt.Sprintf("%T", err) + ")"
}

type c18FailReader struct {
	r      io.Reader
	err    error
	onFail func()
}

func (f *c18FailReader) Read(p []byte) (int, error) {
	n, err := f.r.Read(p)
	if err == io.EOF {
		if f.onFail != nil {
			f.onFail()
		}
		return n, f.err
	}
	return n, err
}
func (f *c18FailReader) Close() error { return nil }

// c18Body returns a body reader: complete, or failing with c18ErrRead after the content.
func c18Body(s string, readOK bool) io.ReadCloser {
	if readOK {
		return io.NopCloser(strings.NewReader(s))
	}
	return &c18FailReader{r: strings.NewReader(s), err: c18ErrRead}
}

var c18Bodies = []string{
	`{"a":"x","n":3,"msg":"m"}`,
	`{"a":"only"}`,
	` {"n": 7 } `,
	`{"a":"x"`,
	`{"n":"notanumber"}`,
	`[1,2]`,
	`null`,
	`"str"`,
	``,
	`<r><a>x</a><n>3</n><msg>m</msg></r>`,
	`<?xml version="1.0"?><doc><a>y</a></doc>`,
	`<r><a>x</a>`,
	`<r><n>zz</n></r>`,
	`plain text`,
	"\x00\xff\xfe",
}

var c18ContentTypes = []string{
	"", "application/json", "application/json; charset=utf-8", "application/vnd.api+json",
	"application/problem+json", "text/xml", "application/xml", "application/xhtml+xml",
	"application/soap+xml; charset=utf-8", "text/plain", "text/html", "application/JSON",
	"application/XML", "xml/json", "application/jsonxml", "xmljson", "x", "application/octet-stream",
	"js on", "xm", "jso", "image/svg+xml",
	// letter case (media types are case-insensitive, RFC 9110 8.3.1; /repo f13c292)
	"application/Json", "Application/JSON; Charset=UTF-8", "TEXT/XML", "text/Xml", "application/XML+JSON", "APPLICATION/SOAP+XML",
	"application/jSoN", "X", "XM", "JSO", "image/SVG+XML",
}

// c18ContentTypesExotic: non-ASCII and invalid UTF-8 around / inside the tokens (in-package lanes
// only: these do not travel over a real connection). strings.ToLower works rune by rune: the
// Kelvin sign lower-cases to an ASCII 'k', the dotted capital I to an ASCII 'i', other letters
// to non-ASCII letters, invalid bytes become U+FFFD.
var c18ContentTypesExotic = []string{
	"application/\u212Ajson", "application/JS\u212AON", "text/X\u0130ML", "\u0130xml", "ÄPPLICATION/XML", "application/ÅJSON",
	"text/xml\xff", "\xffJSON\xfe", "js\xc3on", "X\xe2\x84ML", "ΧML", "ЈSON", "application/xmŁ", "jſon", "JſON", "ｘｍｌ", "ＪＳＯＮ",
	"application/XML\u212A", "x\u0130ml+JSON",
}

// c18CtClass is the oracle's own reading of "content types {json, xml, other, none}".
func c18CtClass(ct string) string {
	lc := strings.ToLower(ct) // media types are case-insensitive
	switch {
	case ct == "":
		return "none"
	case strings.Contains(lc, "json"):
		return "json"
	case strings.Contains(lc, "xml"):
		return "xml"
	}
	return "other"
}

// c18Decode runs the reference decoders on a fresh object of the same type as proto.
func c18Decode(body string, useXML bool, proto interface{}) (interface{}, bool) {
	v := reflect.New(reflect.TypeOf(proto).Elem()).Interface()
	var err error
	if useXML {
		err = xml.Unmarshal([]byte(body), v)
	} else {
		err = json.Unmarshal([]byte(body), v)
	}
	return v, err == nil
}

type c18Checker struct {
	name string
	fn   func(*Response) ResultState
}

var c18Checkers = []c18Checker{
	{"default", nil},
	{"allS", func(*Response) ResultState { return SuccessState }},
	{"allE", func(*Response) ResultState { return ErrorState }},
	{"allU", func(*Response) ResultState { return UnknownState }},
	{"inv", func(r *Response) ResultState {
		switch {
		case r.StatusCode >= 200 && r.StatusCode <= 299:
			return ErrorState
		case r.StatusCode >= 400:
			return SuccessState
		}
		return UnknownState
	}},
	{"hdr", func(r *Response) ResultState {
		switch r.Header.Get("X-State") {
		case "S":
			return SuccessState
		case "E":
			return ErrorState
		}
		return UnknownState
	}},
	{"lt300", func(r *Response) ResultState {
		if r.StatusCode < 300 {
			return SuccessState
		}
		return ErrorState
	}},
	{"oor", func(r *Response) ResultState { // out-of-range values for some statuses
		switch {
		case r.StatusCode%5 == 0:
			return ResultState(7)
		case r.StatusCode%7 == 0:
			return ResultState(-1)
		case r.StatusCode >= 200 && r.StatusCode <= 299:
			return SuccessState
		case r.StatusCode >= 400:
			return ErrorState
		}
		return UnknownState
	}},
}

func c18StateName(s ResultState) string {
	switch s {
	case SuccessState:
		return "S"
	case ErrorState:
		return "E"
	case UnknownState:
		return "U"
	}
	// a custom checker may return a value outside the three constants: the library treats it like
	// UnknownState (neither predicate holds, no switch arm binds) — the lanes check exactly that
	return "U"
}

func c18b(b bool) string {
	if b {
		return "1"
	}
	return "0"
}

// c18Hist mirrors the session histogram so a lane can insist on the buckets it must reach.
type c18Hist struct {
	s *verifh.Session
	m map[string]int
}

func newC18Hist(s *verifh.Session) *c18Hist { return &c18Hist{s, map[string]int{}} }
func (h *c18Hist) Count(k string)           { h.s.Count(k); h.m[k]++ }

// need fails the lane as BROKEN (not as a violation) when a declared bucket was not reached:
// bin/check classifies a failed lane whose output says "no tests to run" as infrastructure.
func (h *c18Hist) need(t *testing.T, buckets ...string) {
	for _, b := range buckets {
		if h.m[b] == 0 {
			t.Fatalf("vacuous lane: bucket %q not reached -- treat as: no tests to run", b)
		}
	}
}

var c18Statuses = []int{100, 101, 102, 150, 199, 200, 201, 203, 204, 205, 206, 299, 300, 301, 304, 399, 400, 401, 404, 418, 499, 500, 503, 599}

func c18PickStatus(r interface{ Intn(int) int }) int {
	if r.Intn(3) == 0 {
		return 100 + r.Intn(500)
	}
	return c18Statuses[r.Intn(len(c18Statuses))]
}

// ---------------------------------------------------------------------------------------

// TestVerif_C18_classify: (*Response).ResultState / IsSuccessState / IsErrorState on EVERY
// status in -3..700 x {no http response, default checker, each custom checker}.
func TestVerif_C18_classify(t *testing.T) {
	s := verifh.New(t, "C18", "classify",
		"exhaustive: every status -3..700 x {nil http response, default checker, 6 custom checkers incl. header-driven}; answer = ResultState, IsSuccessState, IsErrorState; oracle = the three bands of the property text written independently; non-trivial = every case with an http response")
	for _, ck := range c18Checkers {
		for _, hasHTTP := range []bool{true, false} {
			for code := -3; code <= 700; code++ {
				c := C()
				if ck.fn != nil {
					c.SetResultStateCheckFunc(ck.fn)
				}
				resp := &Response{Request: c.R()}
				if hasHTTP {
					resp.Response = &http.Response{StatusCode: code, Header: http.Header{"X-State": {[]string{"S", "E", "U"}[(code+3)%3]}}}
				}
				custom := "-"
				if ck.fn != nil && hasHTTP {
					custom = c18StateName(ck.fn(resp))
				} else if ck.fn != nil {
					custom = "S" // verdict irrelevant without an http response; the model must ignore it
				}
				var st ResultState
				var isS, isE bool
				if txt, p := verifh.Safely(func() {
					st = resp.ResultState()
					isS = resp.IsSuccessState()
					isE = resp.IsErrorState()
				}); p {
					s.Crash(fmt.Sprintf("classify/%s/%v/%d", ck.name, hasHTTP, code), "ResultState panicked", txt, "")
					continue
				}
				// oracle
				want := "U"
				if hasHTTP {
					if ck.fn != nil {
						want = custom
					} else if code >= 200 && code <= 299 {
						want = "S"
					} else if code >= 400 {
						want = "E"
					}
				}
				got := c18StateName(st)
				ok := got == want && isS == (want == "S") && isE == (want == "E") && !(isS && isE)
				s.Count("state=" + got)
				s.Count("checker=" + ck.name)
				s.Case(fmt.Sprintf("c18classify %s %s %d", c18b(hasHTTP), custom, code),
					got+" "+c18b(isS)+" "+c18b(isE)+" "+c18b(code > 199), // last column: model's auto-read guard, tied behaviourally by the call lane
					ok, "", hasHTTP,
					fmt.Sprintf("checker=%s http=%v status=%d -> %s", ck.name, hasHTTP, code, got))
			}
		}
	}
	s.Finish()
}

// TestVerif_C18_bind: the real parseResponseBody (+ unmarshalBody, ToBytes) on constructed
// responses vs the model's binding decision.
func TestVerif_C18_bind(t *testing.T) {
	s := verifh.New(t, "C18", "bind",
		"parseResponseBody in-package on constructed responses: status (boundary set + uniform 100..599) x content type pool (json/xml/other/none, case and substring variants) x body pool (well/ill-formed json and xml, empty, null, type errors, binary) x targets {success, error, common error type} x 7 state checkers x prior resp.Err x body cached/unread x read failure x scripted unmarshaller outcome; observed: result/error slots, which object, returned error class, resp.Err, which unmarshaller ran, target contents vs reference decode; non-trivial = a target was selected")
	r := s.Rand()
	hist := newC18Hist(s)
	n := verifh.N(20000, 300000)
	for k := 0; k < n; k++ {
		ck := c18Checkers[0]
		if r.Intn(3) == 0 {
			ck = verifh.Pick(r, c18Checkers)
		}
		hasHTTP := r.Intn(12) != 0
		code := c18PickStatus(r)
		sT, eT, cE := r.Intn(3) != 0, r.Intn(2) == 0, r.Intn(2) == 0
		var preErr error
		if r.Intn(8) == 0 {
			preErr = c18Sentinels[r.Intn(5)]
		}
		cached := r.Intn(2) == 0
		readOK := r.Intn(6) != 0
		ct := verifh.Pick(r, c18ContentTypes)
		if x := r.Intn(10); x == 0 {
			ct = verifh.RandBytes(r, r.Intn(12), "jsonxmlJSONXML/+; -")
		} else if x == 1 {
			ct = verifh.Pick(r, c18ContentTypesExotic)
		}
		body := verifh.Pick(r, c18Bodies)
		// scripted unmarshaller outcome (the model's "outcome as a parameter", literally):
		// 0 = real decoders, 1 = both forced to fail, 2 = both forced to succeed
		script := 0
		if x := r.Intn(10); x == 0 {
			script = 1
		} else if x == 1 {
			script = 2
		}

		// response-body transformer (consulted by ToBytes when it really reads): "-" none installed,
		// "k" accepts, "n<i>" fails with sentinel i returning nil, "b<i>" fails returning the body
		xf := "-"
		if r.Intn(4) == 0 {
			switch x := r.Intn(10); {
			case x < 4:
				xf = "k"
			case x < 7:
				xf = "n" + strconv.Itoa(5+r.Intn(5))
			default:
				xf = "b" + strconv.Itoa(5+r.Intn(5))
			}
		}
		c := C()
		if ck.fn != nil {
			c.SetResultStateCheckFunc(ck.fn)
		}
		if cE {
			c.SetCommonErrorResult(&c18C{})
		}
		xfCalls := 0
		if xf != "-" {
			c.SetResponseBodyTransformer(func(raw []byte, _ *Request, _ *Response) ([]byte, error) {
				xfCalls++
				out := append([]byte{}, raw...)
				if len(xf) < 2 {
					return out, nil
				}
				i, _ := strconv.Atoi(xf[1:])
				if xf[0] == 'n' {
					return nil, c18Sentinels[i]
				}
				return out, c18Sentinels[i]
			})
		}
		var codecLog []string
		c.SetJsonUnmarshal(func(b []byte, v interface{}) error {
			codecLog = append(codecLog, "json")
			switch script {
			case 1:
				return &c18UnmErr{errors.New("scripted")}
			case 2:
				return nil
			}
			if err := json.Unmarshal(b, v); err != nil {
				return &c18UnmErr{err}
			}
			return nil
		})
		c.SetXmlUnmarshal(func(b []byte, v interface{}) error {
			codecLog = append(codecLog, "xml")
			switch script {
			case 1:
				return &c18UnmErr{errors.New("scripted")}
			case 2:
				return nil
			}
			if err := xml.Unmarshal(b, v); err != nil {
				return &c18UnmErr{err}
			}
			return nil
		})
		req := c.R()
		var okT c18T
		var erT c18E
		if sT {
			req.SetSuccessResult(&okT)
		}
		if eT {
			req.SetErrorResult(&erT)
		}
		resp := &Response{Request: req, Err: preErr}
		if hasHTTP {
			h := http.Header{}
			if ct != "" {
				h.Set("Content-Type", ct)
			}
			h.Set("X-State", []string{"S", "E", "U"}[k%3])
			resp.Response = &http.Response{StatusCode: code, Header: h, Body: c18Body(body, readOK)}
		}
		if cached {
			resp.SetBody([]byte(body)) // public setter of the cached body
		}
		custom := "-"
		if ck.fn != nil {
			custom = "S"
			if hasHTTP {
				custom = c18StateName(ck.fn(resp))
			}
		}
		var err error
		if txt, p := verifh.Safely(func() { err = parseResponseBody(c, resp) }); p {
			s.Crash(fmt.Sprintf("bind/%d", k), "parseResponseBody panicked", txt, "")
			continue
		}
		// what the reference decoders say about this body for each codec
		jsonOK, xmlOK := script == 2, script == 2
		if script == 0 {
			_, jsonOK = c18Decode(body, false, &c18T{})
			_, xmlOK = c18Decode(body, true, &c18T{})
		}
		// observed
		res := resp.SuccessResult() != nil
		errSlot := "-"
		if e := resp.ErrorResult(); e != nil {
			switch v := e.(type) {
			case *c18E:
				if v == &erT {
					errSlot = "R"
				} else {
					errSlot = "?foreignE"
				}
			case *c18C:
				errSlot = "C"
			default:
				errSlot = "?" + fmt.Sprintf("%T", e)
			}
		}
		if res && resp.SuccessResult() != interface{}(&okT) {
			errSlot += "?foreignT"
		}
		codec := "-"
		if len(codecLog) == 1 {
			codec = codecLog[0]
		} else if len(codecLog) > 1 {
			codec = "many:" + strings.Join(codecLog, "+")
		}
		impl := "res=" + c18b(res) + " err=" + errSlot + " ret=" + c18ErrName(err) + " respErr=" + c18ErrName(resp.Err) +
			" cached=" + c18b(resp.Bytes() != nil) + " codec=" + codec

		// independent oracle for the contract clauses
		state := "U"
		if hasHTTP {
			if ck.fn != nil {
				state = custom
			} else if code >= 200 && code <= 299 {
				state = "S"
			} else if code >= 400 {
				state = "E"
			}
		}
		useXML := c18CtClass(ct) == "xml"
		unmOK := jsonOK
		if useXML {
			unmOK = xmlOK
		}
		xfFails := len(xf) > 1
		content := hasHTTP && code != 204 && preErr == nil && (cached || (readOK && !xfFails))
		wantRes := sT && state == "S" && content && unmOK
		wantErr := "-"
		if state == "E" && content && unmOK {
			if eT {
				wantErr = "R"
			} else if cE {
				wantErr = "C"
			}
		}
		ok := res == wantRes && errSlot == wantErr && !(res && errSlot != "-")
		// an unmarshalling failure must surface
		selected := hasHTTP && code != 204 && ((state == "S" && sT) || (state == "E" && (eT || cE)))
		if selected && preErr == nil && (cached || (readOK && !xfFails)) && !unmOK && c18ErrName(err) != "unm" {
			ok = false
		}
		if !selected && err != nil {
			ok = false
		}
		// target contents: a bound object equals the reference decode of the body
		if script == 0 && ok {
			if res {
				want, _ := c18Decode(body, useXML, &c18T{})
				if !reflect.DeepEqual(want, &okT) {
					ok = false
				}
			}
			if errSlot == "R" {
				want, _ := c18Decode(body, useXML, &c18E{})
				if !reflect.DeepEqual(want, &erT) {
					ok = false
				}
			}
			if errSlot == "C" {
				want, _ := c18Decode(body, useXML, &c18C{})
				if !reflect.DeepEqual(want, resp.ErrorResult()) {
					ok = false
				}
			}
		}
		hist.Count("state=" + state)
		hist.Count("ct=" + c18CtClass(ct))
		if selected {
			hist.Count("selected")
		}
		// buckets the lane insists on come from the oracle's expectation, not from the implementation
		if wantRes {
			hist.Count("bound=success")
		}
		if wantErr != "-" {
			hist.Count("bound=error" + wantErr)
		}
		wantRet := "-"
		switch {
		case !selected:
		case preErr != nil:
			wantRet = c18ErrName(preErr)
		case !(cached || readOK):
			wantRet = "read"
		case !cached && xfFails:
			wantRet = "s" + xf[1:]
			hist.Count("ret=transformer")
		case !unmOK:
			wantRet = "unm"
		}
		hist.Count("ret=" + wantRet)
		if c18ErrName(err) != wantRet {
			ok = false
		}
		if hasHTTP && code == 204 {
			hist.Count("204")
		}
		// the transformer runs exactly when ToBytes really reads and the read succeeds
		wantXfCalls := 0
		if selected && preErr == nil && !cached && readOK && xf != "-" {
			wantXfCalls = 1
		}
		if xfCalls != wantXfCalls {
			ok = false
		}
		xfEnc := xf
		if len(xf) > 1 {
			xfEnc = xf[:1] + "s" + xf[1:]
		}
		line := fmt.Sprintf("c18bind %s %d %s %s %s %s %s %s %s %s %s %s %s", c18b(hasHTTP), code, custom, c18b(sT), c18b(eT), c18b(cE),
			c18ErrName(preErr), c18b(cached), c18b(readOK), verifh.Hex(ct), c18b(jsonOK), c18b(xmlOK), xfEnc)
		s.Case(line, impl, ok, "", selected,
			fmt.Sprintf("status=%d checker=%s ct=%q body=%q targets(s=%v e=%v c=%v) preErr=%s cached=%v readOK=%v script=%d transformer=%s -> %s",
				code, ck.name, ct, body, sT, eT, cE, c18ErrName(preErr), cached, readOK, script, xf, impl))
	}
	// content-type → unmarshaller choice, on its own, over a wider random alphabet
	for k := 0; k < verifh.N(3000, 50000); k++ {
		ct := verifh.RandBytes(r, r.Intn(14), "jsonxmlJSONXML/+;= ")
		switch r.Intn(6) {
		case 0:
			ct = verifh.Pick(r, c18ContentTypes)
		case 1:
			ct = verifh.Pick(r, c18ContentTypesExotic)
		case 2: // random runes: ASCII letters of both cases, the two runes that lower-case into ASCII, others, invalid bytes
			ct = ""
			for i, n := 0, r.Intn(10); i < n; i++ {
				ct += verifh.Pick(r, []string{"j", "s", "o", "n", "x", "m", "l", "J", "S", "O", "N", "X", "M", "L", "\u212A", "\u0130", "Å", "ſ", "\xff", "\xc3", "/", "+"})
			}
		}
		if ct != strings.ToLower(ct) {
			hist.Count("ctlane=mixed-case")
		}
		for i := 0; i < len(ct); i++ {
			if ct[i] >= 0x80 {
				hist.Count("ctlane=non-ascii")
				break
			}
		}
		c := C()
		var got string
		c.SetJsonUnmarshal(func([]byte, interface{}) error { got += "json"; return nil })
		c.SetXmlUnmarshal(func([]byte, interface{}) error { got += "xml"; return nil })
		resp := &Response{Request: c.R(), Response: &http.Response{StatusCode: 200, Header: http.Header{"Content-Type": {ct}}}}
		resp.SetBody([]byte("x"))
		unmarshalBody(c, resp, &c18T{})
		want := "json"
		if c18CtClass(ct) == "xml" {
			want = "xml"
		}
		hist.Count("ctlane=" + want)
		s.Case("c18ct "+verifh.Hex(ct), got, got == want, "", true, fmt.Sprintf("ct=%q -> %s", ct, got))
	}
	s.Finish()
	hist.need(t, "bound=success", "bound=errorR", "bound=errorC", "ret=unm", "ret=read", "ret=s0", "ret=transformer", "204", "state=S", "state=E", "state=U", "ct=json", "ct=xml", "ct=other", "ct=none", "ctlane=xml", "ctlane=json", "ctlane=mixed-case", "ctlane=non-ascii")
}
