//go:build verif

package req

// C03 — HTTP/3: the real client (forced HTTP/3) against a frame-script peer on raw quic-go
// streams (QPACK via github.com/quic-go/qpack): the response stream ends by FIN, stream reset
// or connection close before the declared content-length / inside a DATA frame, or carries
// more DATA than declared.

import (
	"bufio"
	"bytes"
	"context"
	"crypto/ecdsa"
	"crypto/elliptic"
	crand "crypto/rand"
	"crypto/tls"
	"crypto/x509"
	"crypto/x509/pkix"
	"fmt"
	"io"
	"math/big"
	"net"
	"strconv"
	"strings"
	"sync"
	"testing"
	"time"

	"github.com/imroc/req/v3/internal/verifh"
	"github.com/quic-go/qpack"
	"github.com/quic-go/quic-go"
	"github.com/quic-go/quic-go/quicvarint"
)

func c03SelfSigned(t testing.TB) tls.Certificate {
	key, err := ecdsa.GenerateKey(elliptic.P256(), crand.Reader)
	if err != nil {
		t.Fatal(err)
	}
	tmpl := &x509.Certificate{
		SerialNumber: big.NewInt(3), Subject: pkix.Name{CommonName: "c03"},
		NotBefore: time.Now().Add(-time.Hour), NotAfter: time.Now().Add(24 * time.Hour),
		KeyUsage: x509.KeyUsageDigitalSignature, ExtKeyUsage: []x509.ExtKeyUsage{x509.ExtKeyUsageServerAuth},
		IPAddresses: []net.IP{net.ParseIP("127.0.0.1")}, DNSNames: []string{"localhost"},
	}
	der, err := x509.CreateCertificate(crand.Reader, tmpl, tmpl, &key.PublicKey, key)
	if err != nil {
		t.Fatal(err)
	}
	return tls.Certificate{Certificate: [][]byte{der}, PrivateKey: key}
}

type c03H3Scenario struct {
	name     string
	declared int // content-length field, -1 = none
	body     string
	send     int    // body bytes sent
	extra    int    // bytes beyond the body
	frames   int    // DATA frames
	ending   string // fin | reset | conn-close | midframe-fin | midframe-reset | close-before-headers
	complete bool
	code     uint64 // stream reset / connection close error code
	status   int    // response status (0 = 200)
	head     bool   // the client sends HEAD
	interim  int    // informational (103/100/102) HEADERS frames in front of the final response
	late     bool   // the surplus bytes go out later, after the client drained the declared body
	tail     []byte // raw bytes appended after the last complete frame (a cut frame header / a cut unknown frame)
	unknown  bool   // unknown-type (GREASE) frames are interleaved with the DATA frames
	trailers bool   // a trailers HEADERS frame follows the DATA frames
	enc      string // Content-Encoding of the response ("" = none): the body is the ENCODED byte string
	surplus  []byte // the bytes sent beyond the body (len = extra); nil = extra times 'X'
	extraHdr [][2]string // further response header fields (prelude exchanges: challenge, location)
}

// c03H3Prelude is the complete, body-less exchange in front of the scripted one (see c03Positions).
func c03H3Prelude(pos string) c03H3Scenario {
	sc := c03H3Scenario{name: "prelude-" + pos, declared: 0, frames: 1, ending: "fin", complete: true}
	switch pos {
	case "digest":
		sc.status, sc.extraHdr = 401, [][2]string{{"www-authenticate", `Digest realm="c03", nonce="5f1c0a77c03", qop="auth", algorithm=MD5`}}
	case "retried":
		sc.status = 503
	case "redirect":
		sc.status, sc.extraHdr = 302, [][2]string{{"location", "/after-redirect"}}
	}
	return sc
}

// c03H3Wire is what the peer writes for a scenario: the first burst, an optional later burst, and
// the decoded field list of every HEADERS frame in order (QPACK is external to the model).
type c03H3Wire struct {
	first, later []byte
	fieldLists   [][][2]string
}

func c03H3Block(fields [][2]string) []byte {
	var hb bytes.Buffer
	enc := qpack.NewEncoder(&hb)
	for _, kv := range fields {
		enc.WriteField(qpack.HeaderField{Name: kv[0], Value: kv[1]})
	}
	return hb.Bytes()
}

func c03H3Plan(sc c03H3Scenario) (w c03H3Wire) {
	if sc.ending == "close-before-headers" {
		return w
	}
	for j := 0; j < sc.interim; j++ {
		f := [][2]string{{":status", []string{"103", "100", "102"}[j%3]}, {"link", "</s.css>; rel=preload"}}
		w.fieldLists = append(w.fieldLists, f)
		w.first = append(w.first, c03H3Frame(0x1, c03H3Block(f))...)
	}
	st := sc.status
	if st == 0 {
		st = 200
	}
	f := [][2]string{{":status", strconv.Itoa(st)}, {"content-type", "application/octet-stream"}}
	if sc.declared >= 0 {
		f = append(f, [2]string{"content-length", strconv.Itoa(sc.declared)})
	}
	if sc.enc != "" {
		f = append(f, [2]string{"content-encoding", sc.enc})
	}
	f = append(f, sc.extraHdr...)
	w.fieldLists = append(w.fieldLists, f)
	w.first = append(w.first, c03H3Frame(0x1, c03H3Block(f))...)
	payload := []byte(sc.body)[:sc.send]
	if !sc.late {
		payload = append(payload, c03Extra(sc.surplus, sc.extra)...)
	}
	n := sc.frames
	if n < 1 {
		n = 1
	}
	for i := 0; i < n && len(payload) > 0; i++ {
		k := len(payload) / (n - i)
		if k == 0 {
			k = len(payload)
		}
		last := i == n-1 || k == len(payload)
		if sc.unknown {
			// a frame of a reserved-for-greasing type (0x1f*N+0x21) must be skipped
			w.first = append(w.first, c03H3Frame(0x21+0x1f*uint64(i), []byte("grease"))...)
		}
		if last && strings.HasPrefix(sc.ending, "midframe") {
			// a DATA frame header announcing k bytes followed by only half of them
			b := quicvarint.Append(nil, 0x0)
			b = quicvarint.Append(b, uint64(k))
			w.first = append(w.first, b...)
			w.first = append(w.first, payload[:k/2]...)
			payload = nil
			break
		}
		w.first = append(w.first, c03H3Frame(0x0, payload[:k])...)
		payload = payload[k:]
	}
	if sc.late {
		w.later = c03H3Frame(0x0, c03Extra(sc.surplus, sc.extra))
	}
	if sc.trailers {
		tf := [][2]string{{"x-trailer", "v"}}
		w.fieldLists = append(w.fieldLists, tf)
		if sc.late {
			w.later = append(w.later, c03H3Frame(0x1, c03H3Block(tf))...)
		} else {
			w.first = append(w.first, c03H3Frame(0x1, c03H3Block(tf))...)
		}
	}
	if sc.late {
		w.later = append(w.later, sc.tail...)
	} else {
		w.first = append(w.first, sc.tail...)
	}
	return w
}

type c03H3Peer struct {
	ln    *quic.Listener
	mu    sync.Mutex
	queue []c03H3Scenario
	conns int
}

func newC03H3Peer(t testing.TB) *c03H3Peer {
	tlsConf := &tls.Config{Certificates: []tls.Certificate{c03SelfSigned(t)}, NextProtos: []string{"h3"}}
	ln, err := quic.ListenAddr("127.0.0.1:0", tlsConf, &quic.Config{MaxIncomingStreams: 1000, MaxIncomingUniStreams: 1000})
	if err != nil {
		t.Fatalf("quic listen: %v", err)
	}
	p := &c03H3Peer{ln: ln}
	go func() {
		for {
			conn, err := ln.Accept(context.Background())
			if err != nil {
				return
			}
			p.mu.Lock()
			p.conns++
			p.mu.Unlock()
			go p.serveConn(conn)
		}
	}()
	return p
}

func (p *c03H3Peer) next() c03H3Scenario {
	p.mu.Lock()
	defer p.mu.Unlock()
	if len(p.queue) == 0 {
		return c03H3Scenario{name: "second", declared: len(c03Second), body: c03Second, send: len(c03Second), frames: 1, ending: "fin", complete: true}
	}
	sc := p.queue[0]
	p.queue = p.queue[1:]
	return sc
}

func (p *c03H3Peer) serveConn(conn quic.Connection) {
	if ctrl, err := conn.OpenUniStream(); err == nil {
		ctrl.Write([]byte{0x00, 0x04, 0x00}) // control stream, empty SETTINGS
	}
	go func() {
		for {
			us, err := conn.AcceptUniStream(context.Background())
			if err != nil {
				return
			}
			go io.Copy(io.Discard, us)
		}
	}()
	for {
		str, err := conn.AcceptStream(context.Background())
		if err != nil {
			return
		}
		go p.serveStream(conn, str)
	}
}

func c03H3Frame(typ uint64, payload []byte) []byte {
	b := quicvarint.Append(nil, typ)
	b = quicvarint.Append(b, uint64(len(payload)))
	return append(b, payload...)
}

func (p *c03H3Peer) serveStream(conn quic.Connection, str quic.Stream) {
	br := bufio.NewReader(str)
	got := false
	for {
		typ, err := quicvarint.Read(br)
		if err != nil {
			break
		}
		n, err := quicvarint.Read(br)
		if err != nil {
			return
		}
		if _, err := io.CopyN(io.Discard, br, int64(n)); err != nil {
			return
		}
		if typ == 0x1 {
			got = true
		}
	}
	if !got {
		return
	}
	sc := p.next()
	if sc.code == 0 {
		sc.code = 0x102
	}
	if sc.ending == "close-before-headers" {
		str.CancelWrite(quic.StreamErrorCode(sc.code))
		return
	}
	w := c03H3Plan(sc)
	str.Write(w.first)
	if sc.late {
		time.Sleep(40 * time.Millisecond)
		str.Write(w.later)
	}
	switch sc.ending {
	case "fin", "midframe-fin":
		str.Close()
	case "reset", "midframe-reset":
		time.Sleep(5 * time.Millisecond) // let the bytes go out before the reset overtakes them
		str.CancelWrite(quic.StreamErrorCode(sc.code))
	case "conn-close":
		time.Sleep(5 * time.Millisecond)
		conn.CloseWithError(quic.ApplicationErrorCode(sc.code), "scripted close")
	}
}

// c03NextKind: one kind of follow-up request. model = <safe><hasBody><idemKey> for `h3Next`.
type c03NextKind struct {
	name, model string
	do          func(c *Client, url string) (*Response, error)
}

var c03NextKinds = []c03NextKind{
	{"get", "100", func(c *Client, url string) (*Response, error) { return c.R().Get(url) }},
	{"post-bytes", "010", func(c *Client, url string) (*Response, error) { return c.R().SetBodyString("ping").Post(url) }},
	{"post-reader", "010", func(c *Client, url string) (*Response, error) {
		return c.R().SetBody(io.NopCloser(strings.NewReader("ping-from-a-reader"))).Post(url)
	}},
	{"put-bytes", "010", func(c *Client, url string) (*Response, error) { return c.R().SetBodyBytes([]byte("ping")).Put(url) }},
	{"post-empty", "000", func(c *Client, url string) (*Response, error) { return c.R().Post(url) }},
	{"delete", "000", func(c *Client, url string) (*Response, error) { return c.R().Delete(url) }},
	{"post-idem-key", "001", func(c *Client, url string) (*Response, error) {
		return c.R().SetHeader("Idempotency-Key", "c03-1").Post(url)
	}},
}

// c03NextAfterClose: the order in which follow-up kinds are used after a connection close.
var c03NextAfterClose = []int{1, 4, 2, 5, 3, 6, 0}

func TestVerif_C03_h3cut(t *testing.T) {
	s := verifh.New(t, "C03", "h3cut",
		"real client forced to HTTP/3 against a frame-script peer on raw quic-go streams: response HEADERS with/without content-length, body in 1-4 DATA frames, ended after a strict prefix of the body "+
			"(or right after HEADERS) by stream FIN / stream reset with every code 0x100..0x110 (incl. H3_NO_ERROR, request rejected/cancelled) / connection close (H3_NO_ERROR or error), or inside a DATA frame (FIN or reset), or with more DATA than declared, or reset before HEADERS; complete responses as controls; "+
			"first request under a caller mode (auto, streaming, body transformer, SetOutput, SetOutputFile, download callback, dump, non-matching retry); then a second request on the same client. Oracle: success implies a complete consistent response and the true body; the second request succeeds. "+
			"classes (known findings): h3-fin-truncated = clean FIN before the declared length or inside a DATA frame reported as success; "+
			"h3-closed-conn-reuse = the request after a connection close fails on the dead cached connection. non-trivial = fault injected")
	r := s.Rand()
	rp := c03PosRand(4) // the round-6 dimensions draw from their own stream
	closeSeq := 0
	peer := newC03H3Peer(t)
	defer peer.ln.Close()
	url := "https://" + peer.ln.Addr().String() + "/x"
	mk := func() *Client {
		c := C().EnableForceHTTP3().EnableInsecureSkipVerify().DisableAutoDecode().SetTimeout(8 * time.Second)
		if c.t3 == nil {
			t.Fatalf("HTTP/3 not available on this toolchain")
		}
		return c
	}
	n := verifh.N(330, 2600)
	reached := map[string]int{}
	knownSeen := map[string]int{}
	failures := 0
	rstSeq, overSeq, tailSeq, zstdSeq := 0, 0, 0, 0
	perName := map[string]int{}
	tmpDir := t.TempDir()
	for i := 0; i < n && failures < 12; i++ {
		plain := verifh.RandBytes(r, 1+r.Intn(300), "abcdefghijklmnopqrstuvwxyz")
		kind := r.Intn(19)
		// the content-encoding dimension (see zz_verif_c03_enc_test.go): two cases in five carry an ENCODED body
		// (kinds 16..18 always: gzip, several members); every ending / cut point / surplus below applies to it
		var ze *c03EncBody
		if kind >= 16 || r.Intn(5) < 2 {
			ze = c03PickEnc(r, plain, kind >= 16)
		}
		if kind == 16 {
			// every third "fault before the first byte" case is zstd, FINished within the first four bytes of its
			// frame (offset 0 included) short of the declared length (io.ErrUnexpectedEOF): must be an ERROR
			if zstdSeq%3 == 0 {
				ze = c03MakeEnc(r, plain, "zstd", "auto", 1)
			}
			zstdSeq++
		}
		body := plain
		if ze != nil {
			body = string(ze.wire)
		}
		sc := c03H3Scenario{body: body, declared: len(body), send: len(body), frames: 1 + r.Intn(4), ending: "fin", complete: true}
		if r.Intn(3) == 0 {
			sc.declared = -1
		}
		class := ""
		cutAt := func() int {
			if ze != nil && len(ze.bounds) > 0 && r.Intn(3) == 0 {
				return ze.bounds[r.Intn(len(ze.bounds))] // exactly between two gzip members
			}
			switch r.Intn(4) {
			case 0:
				return 0 // right after HEADERS
			case 1:
				return len(body) - 1 // exactly one byte short of the whole body
			}
			return r.Intn(len(body))
		}
		// H3_NO_ERROR 0x100 … H3_VERSION_FALLBACK 0x110 (0x10b request rejected, 0x10c request cancelled)
		h3Codes := []uint64{0x100, 0x101, 0x102, 0x103, 0x104, 0x105, 0x106, 0x107, 0x108, 0x109, 0x10a, 0x10b, 0x10c, 0x10d, 0x10e, 0x10f, 0x110}
		switch kind {
		case 0, 1:
			sc.name = "complete"
			// controls without a body although a length is declared: HEAD, 204, 304
			switch r.Intn(4) {
			case 0:
				sc.name, sc.head, sc.declared, sc.send = "complete-head-with-length", true, len(body), 0
				ze = nil
			case 1:
				sc.name, sc.status, sc.declared, sc.send = "complete-304-with-length", 304, len(body), 0
				ze = nil
			}
		case 2: // FIN before the declared length
			sc.name, sc.declared, sc.send, sc.complete = "short-fin", len(body), cutAt(), false
		case 3, 4, 5: // stream reset with every HTTP/3 error code, incl. H3_NO_ERROR, mid-body or after HEADERS only
			sc.ending, sc.send, sc.complete, sc.code = "reset", cutAt(), false, h3Codes[rstSeq%len(h3Codes)]
			rstSeq++
			if rstSeq%3 == 0 {
				sc.code = 0x100
			}
			sc.name = fmt.Sprintf("reset-code-%x", sc.code)
		case 6: // connection close, H3_NO_ERROR or an error
			sc.ending, sc.send, sc.complete, sc.code = "conn-close", cutAt(), false, []uint64{0x100, 0x102}[rstSeq%2]
			sc.name = fmt.Sprintf("conn-close-code-%x", sc.code)
		case 7:
			sc.name, sc.ending, sc.complete = "midframe-fin", "midframe-fin", false
			if len(body) < 2 {
				sc.name, sc.ending, sc.complete = "complete", "fin", true
			}
		case 8:
			sc.name, sc.ending, sc.complete, sc.code = "midframe-reset", "midframe-reset", false, []uint64{0x100, 0x10c}[rstSeq%2]
			if len(body) < 2 {
				sc.name, sc.ending, sc.complete = "complete", "fin", true
			}
		case 9:
			sc.name, sc.declared, sc.extra, sc.complete = "overlong", len(body), verifh.Pick(r, []int{1, 1, 1 + r.Intn(20), 2 + r.Intn(19)}), false
			switch overSeq % 4 {
			case 1:
				sc.name, sc.late = "overlong-late-frame", true
			case 2:
				if ze != nil {
					break
				}
				body = verifh.RandBytes(r, verifh.Pick(r, []int{512, 512, 1024}), "abcdefghijklmnopqrstuvwxyz")
				sc.name, sc.body, sc.declared, sc.send, sc.frames = "overlong-at-read-buffer", body, len(body), len(body), 1
			case 3:
				sc.name, sc.declared, sc.send, sc.late = "overlong-zero-length", 0, 0, r.Intn(2) == 0
			}
			overSeq++
		case 10:
			sc.name, sc.ending, sc.complete, sc.code = "close-before-headers", "close-before-headers", false, []uint64{0x100, 0x10b, 0x10c}[rstSeq%3]
		case 11: // full body, but the stream is reset (also with H3_NO_ERROR) instead of finished
			sc.name, sc.ending, sc.complete, sc.code = "reset-after-full-body", "reset", false, []uint64{0x100, 0x102}[rstSeq%2]
		case 12: // FIN inside a frame HEADER: after the type, inside the length varint, inside the type varint
			sc.send, sc.complete = cutAt(), false
			sc.tail = [][]byte{{0x00}, {0x00, 0x40}, {0x40}, {0x01}, {0x00, 0x80, 0x00}}[tailSeq%5]
			tailSeq++
			sc.name = "fin-in-frame-header"
		case 13: // FIN inside the payload of a frame the client skips (unknown type)
			sc.send, sc.complete = cutAt(), false
			switch tailSeq % 3 {
			case 0: // a frame of a reserved-for-greasing type, 3 of 9 payload bytes
				sc.tail = append(quicvarint.Append(quicvarint.Append(nil, 0x21+0x1f*7), 9), []byte("gre")...)
				sc.name = "fin-in-skipped-frame"
			case 1: // a SETTINGS frame (refused on a request stream, but its payload is read first), 1 of 5 bytes
				sc.tail = []byte{0x04, 0x05, 0x01}
				sc.name = "fin-in-settings-frame"
			case 2: // a trailers HEADERS frame header announcing 5 bytes, and nothing of them
				sc.tail = []byte{0x01, 0x05}
				sc.name = "fin-in-trailer-frame"
			}
			tailSeq++
		case 14: // control: unknown-type frames between the DATA frames are skipped
			sc.name, sc.unknown = "complete-with-unknown-frames", true
		case 15: // a trailers HEADERS frame after the DATA frames: complete, or before the declared length
			sc.trailers = true
			if r.Intn(2) == 0 {
				sc.name = "complete-with-trailers"
			} else {
				sc.name, sc.declared, sc.send, sc.complete = "short-with-trailers", len(body), cutAt(), false
			}
		case 16: // encoded body, the fault hits BEFORE its first byte: reset (any code) / connection close / FIN with a declared length
			sc.send, sc.complete = 0, false
			sub := r.Intn(3)
			if ze.enc == "zstd" {
				sc.send, sub = r.Intn(4), 2
				reached["zstd-frame-start-cut"]++
			}
			switch sub {
			case 0:
				sc.ending, sc.code = "reset", h3Codes[r.Intn(len(h3Codes))]
			case 1:
				sc.ending, sc.code = "conn-close", []uint64{0x100, 0x102}[r.Intn(2)]
			case 2:
				sc.declared, sc.trailers = len(body), r.Intn(3) == 0
			}
			sc.name = "enc-fault-before-first-byte"
		case 17: // FIN exactly between two gzip members, short of the declared length
			sc.name, sc.declared, sc.send, sc.complete, sc.trailers = "enc-short-at-member-boundary", len(body), ze.bounds[r.Intn(len(ze.bounds))], false, r.Intn(3) == 0
		case 18: // more DATA than declared, the surplus being a further valid gzip member (or junk)
			sc.name, sc.declared, sc.complete, sc.late = "enc-overlong-member", len(body), false, r.Intn(2) == 0
			sc.surplus = ze.surplus(r)
			sc.extra = len(sc.surplus)
		}
		if ze != nil && sc.extra > 0 && sc.surplus == nil && r.Intn(2) == 0 {
			sc.surplus = ze.surplus(r)
			sc.extra = len(sc.surplus)
		}
		// (deflate / br / zstd: only faults that cut the ENCODED stream short — see h2cut)
		if ze != nil && ze.enc != "gzip" && !sc.complete && !(sc.send < len(body) && sc.extra == 0 && len(sc.tail) == 0 && !strings.HasPrefix(sc.ending, "midframe")) {
			ze = nil
		}
		if ze != nil {
			sc.enc = ze.enc
			s.Count("enc:" + ze.tag())
			reached["enc:"+ze.tag()]++
			if !sc.complete {
				reached["enc-fault:"+ze.enc]++
			}
		}
		// a multi-step sequence on the request stream: informational responses, then the final one
		perName[sc.name]++
		if perName[sc.name]%3 == 1 { // deterministic: every scenario kind gets its share
			sc.interim = 1 + r.Intn(3)
			s.Count("interim-1xx")
			reached["interim-1xx:"+sc.name]++
		}
		peer.mu.Lock()
		peer.queue = []c03H3Scenario{sc}
		peer.mu.Unlock()
		method := "GET"
		if sc.head {
			method = "HEAD"
		}
		want := body
		if ze != nil {
			want = plain
		}
		if sc.head || sc.status == 304 {
			want = ""
		}
		c := mk()
		ze.prep(c)
		stream := r.Intn(4) == 0
		cc := &c03Caller{mode: c03PickMode(r, "", "", 0), dir: tmpDir}
		if stream {
			c.DisableAutoReadResponse()
		} else {
			cc.prepClient(c)
		}
		// exchange position (digest re-send / last attempt of a retried call / after a redirect): the
		// scripted response answers the LAST exchange of the call; the peer serves a complete
		// body-less prelude first. Not with a connection close: a reused connection that dies before
		// the response head makes RoundTripOpt replay the GET on a fresh connection.
		cc.pos = c03PickPos(rp, cc.mode, sc.ending != "conn-close")
		if cc.pos != "" {
			c03ApplyPos(c, cc.pos)
			peer.mu.Lock()
			peer.queue = []c03H3Scenario{c03H3Prelude(cc.pos), sc}
			peer.mu.Unlock()
			s.Count("pos:" + cc.pos)
			reached["pos:"+cc.pos]++
			if !sc.complete {
				reached["pos-cut:"+cc.pos]++
			}
		}
		callerName := cc.name()
		if stream {
			callerName = "stream"
		}
		s.Count("caller:" + callerName)
		// the NEXT request: every method / body kind. RoundTripOpt replays only requests without a
		// body that are safe or carry an idempotency key; the model (h3Next) says the cache never
		// hands out a dead connection, so every kind is served. After a SUCCESSFUL first exchange the
		// follow-up stays a GET (a connection close still on its way then races with it, as in any pool).
		nextKind := verifh.Pick(rp, c03NextKinds)
		retries := cc.pos == "retried" || (!stream && cc.mode == "retry")
		if sc.ending == "conn-close" {
			// the cases the dimension is about get every kind in turn (non-replayable ones first)
			nextKind = c03NextKinds[c03NextAfterClose[closeSeq%len(c03NextAfterClose)]]
			if nextKind.name != "post-reader" || !retries {
				closeSeq++
			}
		}
		if nextKind.name == "post-reader" && retries {
			nextKind = c03NextKinds[1] // (req refuses a reader body on a client with retries configured)
		}
		type out struct {
			fx          c03First
			first, ferr string
			secondOK    bool
			serr        string
			nextKind    c03NextKind
		}
		peer.mu.Lock()
		connsBefore := peer.conns
		peer.mu.Unlock()
		ch := make(chan out, 1)
		go func() {
			var o out
			o.fx = c03DoFirstX(c, method, url, stream, cc)
			o.first, o.ferr = o.fx.render()
			if o.fx.ok {
				nextKind = c03NextKinds[0]
			} else if sc.ending == "conn-close" {
				// quic-go fails the streams first and cancels the connection's context a moment later:
				// let the close finish, so that the request is not sent into it
				time.Sleep(30 * time.Millisecond)
			}
			o.nextKind = nextKind
			second, err2 := nextKind.do(c, url)
			if err2 == nil && second != nil && second.Response != nil {
				if stream {
					b, rerr := io.ReadAll(second.Body)
					second.Body.Close()
					o.secondOK = rerr == nil && string(b) == c03Second
				} else {
					o.secondOK = second.String() == c03Second
				}
			} else if err2 != nil {
				o.serr = err2.Error()
			}
			ch <- o
		}()
		var o out
		select {
		case o = <-ch:
		case <-time.After(30 * time.Second):
			o = out{first: "hang", ferr: "no result within 30s"}
		}
		peer.mu.Lock()
		dials := peer.conns - connsBefore
		peer.mu.Unlock()
		if c.t3 != nil {
			c.t3.Close()
		}
		// the model line: the bytes of the stream, how it ends, the field lists
		w := c03H3Plan(sc)
		endKind := map[string]string{"fin": "fin", "midframe-fin": "fin", "reset": "reset", "midframe-reset": "reset", "close-before-headers": "reset", "conn-close": "close"}[sc.ending]
		headSeen := o.fx.status != 0
		segs := []string{}
		if endKind == "fin" || headSeen {
			// a reset / connection close discards what is still in flight: the lane cannot know how much of the
			// body got through (the answer does not depend on it), only whether the response head did
			if len(w.first) > 0 {
				segs = append(segs, string(w.first))
			}
			if len(w.later) > 0 {
				segs = append(segs, string(w.later))
			}
		}
		var fls []string
		for _, fl := range w.fieldLists {
			var kv []string
			for _, p := range fl {
				kv = append(kv, verifh.Hex(p[0])+":"+verifh.Hex(p[1]))
			}
			fls = append(fls, strings.Join(kv, ","))
		}
		flArg := "none"
		if len(fls) > 0 {
			flArg = strings.Join(fls, "/")
		}
		mode := map[bool]string{true: "s", false: "a"}[stream]
		lane := "c03h3 "
		if ze != nil {
			lane = "c03h3z " + ze.enc + " "
		}
		if o.nextKind.name == "" {
			o.nextKind = c03NextKinds[0]
		}
		s.Count("next:" + o.nextKind.name)
		reached["next:"+o.nextKind.name]++
		if endKind == "close" && !o.fx.ok {
			reached["next-after-conn-close:"+o.nextKind.name]++
		}
		line := lane + map[bool]string{true: "1", false: "0"}[sc.head] + " " + verifh.HexList(segs) + " " + endKind + " " + flArg + " " + mode + " " + o.nextKind.model
		impl := "fail"
		switch {
		case o.first == "hang":
			impl = "hang"
		case o.fx.ok:
			impl = "ok status=" + strconv.Itoa(o.fx.status) + " body=" + verifh.Hex(string(o.fx.body))
		case stream && !headSeen:
			impl = "fail-call"
		case stream && endKind == "fin" && ze == nil:
			impl = "fail-body delivered=" + verifh.Hex(string(o.fx.body))
		case stream:
			impl = "fail-body"
		}
		if o.first != "hang" {
			impl += " next=" + map[bool]string{true: "ok", false: "fail"}[o.secondOK]
		}
		impl += " dials=" + strconv.Itoa(dials)
		// second opinion: the Go-side property oracle
		ok, why := true, ""
		switch {
		case o.first == "hang":
			ok, why = false, "caller wedged"
		case strings.HasPrefix(o.first, "ok"):
			if !sc.complete {
				ok, why = false, "incomplete/inconsistent HTTP/3 response reported as success: "+c04Short(o.first)
			} else if o.first != "ok body="+want {
				ok, why = false, "body differs from the true body"
			}
			reached["ok"]++
		default:
			if sc.complete {
				ok, why = false, "complete response reported as failure: "+o.ferr
			}
			reached["fail"]++
		}
		if ze != nil && !o.fx.ok && !strings.HasPrefix(plain, string(o.fx.body)) {
			ok, why = false, "the bytes handed out before the failure are not a prefix of the decoded body"
		}
		if !ok && strings.HasPrefix(o.first, "ok") && (sc.name == "short-fin" || sc.name == "midframe-fin") {
			class = "h3-fin-truncated"
		}
		if !ok && strings.HasPrefix(o.first, "ok") && strings.HasPrefix(sc.name, "fin-in-") {
			// the stream was finished inside a frame header / a skipped frame / right after a trailer frame header
			class = "h3-fin-in-frame"
		}
		if ok && !o.secondOK {
			ok, why = false, "second request on the same client failed: "+o.serr
			if strings.HasPrefix(sc.name, "conn-close") {
				class = "h3-closed-conn-reuse"
			}
		}
		if !ok && class == "" {
			failures++
		}
		reached[sc.name]++
		s.Count("scenario:" + sc.name)
		s.Count("dials:" + strconv.Itoa(dials))
		human := fmt.Sprintf("h3 %s enc="+ze.tag()+" declared=%d body=%d sent=%d extra=%d frames=%d interim=%d tail=%x caller=%s pos=%s -> %s (%s) next=%s second-ok=%v dials=%d",
			sc.name, sc.declared, len(body), sc.send, sc.extra, sc.frames, sc.interim, sc.tail, callerName, cc.pos, c04Short(o.first), o.ferr, o.nextKind.name, o.secondOK, dials)
		if why != "" {
			human += " ORACLE: " + why
		}
		if !ok && class != "" {
			// report a known finding a few times only, so that it cannot crowd out an unknown one
			knownSeen[class]++
		}
		if ze != nil && !ze.modelled {
			// br / zstd: no container model — judged by the oracle alone
			if !ok && o.fx.ok && ze.enc == "zstd" && sc.send <= 3 {
				if class == "" {
					failures--
				}
				class = c03ZstdClass
			}
			s.Observe(fmt.Sprintf("h3z/%d/%s/%s", i, sc.name, ze.tag()), ok, class, !sc.complete, human, why)
			continue
		}
		s.Case(line, impl, ok, class, !sc.complete, human)
	}
	s.Finish()
	if failures >= 12 {
		return
	}
	for _, need := range []string{"ok", "fail", "complete", "complete-head-with-length", "complete-304-with-length", "short-fin", "reset-code-100", "reset-code-10b", "reset-code-10c", "conn-close-code-100", "conn-close-code-102", "midframe-fin", "overlong", "overlong-late-frame", "overlong-at-read-buffer", "overlong-zero-length", "interim-1xx:short-fin", "interim-1xx:overlong", "interim-1xx:complete", "close-before-headers", "reset-after-full-body",
		"fin-in-frame-header", "fin-in-skipped-frame", "fin-in-settings-frame", "fin-in-trailer-frame", "complete-with-unknown-frames", "complete-with-trailers", "short-with-trailers",
		"enc-fault-before-first-byte", "enc-short-at-member-boundary", "enc-overlong-member", "enc:gzip-transparent", "enc:gzip-auto", "enc:deflate-auto", "enc:br-auto", "enc:zstd-auto",
		"enc-fault:gzip", "enc-fault:deflate", "enc-fault:br", "enc-fault:zstd", "zstd-frame-start-cut",
		"pos:digest", "pos:retried", "pos:redirect", "pos-cut:digest", "pos-cut:retried", "pos-cut:redirect",
		"next:get", "next:post-bytes", "next:post-reader", "next:put-bytes", "next:post-empty", "next:delete", "next:post-idem-key",
		"next-after-conn-close:post-bytes", "next-after-conn-close:post-reader", "next-after-conn-close:post-empty"} {
		if reached[need] == 0 {
			t.Errorf("C03/h3cut never reached %q", need)
		}
	}
}
