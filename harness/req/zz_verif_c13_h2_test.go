//go:build verif

package req

import (
	"bytes"
	"fmt"
	"io"
	"net"
	"net/http"
	"sort"
	"strconv"
	"strings"
	"sync"
	"testing"
	"time"

	"github.com/imroc/req/v3/internal/verifh"
	"golang.org/x/net/http2"
	"golang.org/x/net/http2/hpack"
)

// ================================================================= protocol-neutral scenarios (HTTP/2, HTTP/3)

type c13Field struct{ name, value string }

// c13GResp is a scripted response as field lists and payloads.
type c13GResp struct {
	interim  [][]c13Field // 1xx header blocks sent before the final one
	fields   []c13Field   // final header block, ":status" first
	wire     string       // DATA payload
	decoded  string       // what the caller is expected to read
	trailers []c13Field
	pieces   int // DATA frames
}

// c13GAttempt is what the peer received for one request.
type c13GAttempt struct {
	fields  []c13Field // request header block in wire order
	payload string     // concatenated DATA payloads
	frames  []string   // the non-empty DATA payloads, frame by frame (HTTP/2 peer only)
	trailer []c13Field // request trailer block (HTTP/2 peer only)
	live    *c13Live   // pacing of an interactive exchange (lane live), nil otherwise
}

type c13GScenario struct {
	name    string
	method  string
	path    string
	query   string
	headers [][2]string
	body    string
	bodyVia string
	scripts map[string][]c13GResp
	order   []string
	retry   bool
	class   string
}

func c13Lines(block []c13Field) string {
	var b strings.Builder
	for _, f := range block {
		b.WriteString(f.name + ": " + f.value + "\r\n")
	}
	b.WriteString("\r\n")
	return b.String()
}

// headDump is what the stacks hand to DumpResponseHeader for this response: every decoded field
// as "name: value\r\n", a blank line after each block (interim, final, trailers).
func (r c13GResp) headDump(withTrailers bool) string {
	var b strings.Builder
	for _, blk := range r.interim {
		b.WriteString(c13Lines(blk))
	}
	b.WriteString(c13Lines(r.fields))
	if withTrailers && len(r.trailers) > 0 {
		b.WriteString(c13Lines(r.trailers))
	}
	return b.String()
}

func c13GenGResp(s *verifh.Session, status int, feature, bodyKind string, maxBody int) c13GResp {
	r := s.Rand()
	var size int
	switch r.Intn(5) {
	case 0:
		size = 0
	case 1:
		size = 1 + r.Intn(50)
	case 2:
		size = 16000 + r.Intn(1000)
	case 3:
		size = 20000 + r.Intn(maxBody-20000)
	default:
		size = r.Intn(3000)
	}
	plain := verifh.RandBytes(r, size, "abcdefghij KLMNOP\n<>/=\"0123456789")
	resp := c13GResp{pieces: 1 + r.Intn(4)}
	resp.fields = append(resp.fields, c13Field{":status", strconv.Itoa(status)}, c13Field{"x-verif", "c13"})
	switch feature {
	case "1xx":
		resp.interim = append(resp.interim, []c13Field{{":status", "103"}, {"link", "</style.css>; rel=preload"}})
	case "long":
		resp.fields = append(resp.fields, c13Field{"x-long", verifh.RandBytes(r, 17000+r.Intn(20000), "abcdefgh ,;=") + "z"})
	case "many":
		for i := 0; i < 60+r.Intn(80); i++ {
			resp.fields = append(resp.fields, c13Field{"x-h" + strconv.Itoa(i%40), verifh.RandBytes(r, r.Intn(40), "abcdef0123") + "."})
		}
	case "trailer":
		resp.trailers = []c13Field{{"x-sum", "42"}, {"x-more", "trailing"}}
		resp.fields = append(resp.fields, c13Field{"trailer", "X-Sum, X-More"})
	case "empty-value":
		resp.fields = append(resp.fields, c13Field{"x-empty", ""}, c13Field{"x-colon", "a: b"})
	}
	noBody := status == 204 || status == 304
	wire, decoded := plain, plain
	if noBody {
		wire, decoded = "", ""
	}
	switch bodyKind {
	case "gzip":
		if !noBody {
			wire = c13Gzip(plain)
			resp.fields = append(resp.fields, c13Field{"content-encoding", "gzip"})
		}
	case "gbk":
		if !noBody {
			n := 1 + size/8
			wire = strings.Repeat("\xd6\xd0\xce\xc4 ok\n", n)
			decoded = strings.Repeat("中文 ok\n", n)
			resp.fields = append(resp.fields, c13Field{"content-type", "text/html; charset=gbk"})
		}
	case "text":
		resp.fields = append(resp.fields, c13Field{"content-type", "text/plain; charset=utf-8"})
	}
	if !noBody && r.Intn(2) == 0 {
		resp.fields = append(resp.fields, c13Field{"content-length", strconv.Itoa(len(wire))})
	}
	resp.wire, resp.decoded = wire, decoded
	return resp
}

var c13GSeq int

func c13GenGScenario(s *verifh.Session, flow, feature string, maxBody int) *c13GScenario {
	r := s.Rand()
	c13GSeq++
	sc := &c13GScenario{name: flow + "/" + feature, method: "GET", path: fmt.Sprintf("/c13g/%d", c13GSeq), scripts: map[string][]c13GResp{}}
	if r.Intn(3) == 0 {
		sc.query = "a=1&b=" + verifh.RandBytes(r, r.Intn(20), "abc123")
	}
	for i, n := 0, r.Intn(4); i < n; i++ {
		sc.headers = append(sc.headers, [2]string{"X-Req-" + strconv.Itoa(i), verifh.RandBytes(r, r.Intn(30), "abcdef123") + "."})
	}
	switch r.Intn(6) {
	case 0:
		sc.headers = append(sc.headers, [2]string{"X-Big", verifh.RandBytes(r, 17000+r.Intn(9000), "abcdefgh")})
	case 1:
		for i := 0; i < 40; i++ {
			sc.headers = append(sc.headers, [2]string{"X-Many-" + strconv.Itoa(i), "v" + strconv.Itoa(i)})
		}
	case 2:
		sc.headers = append(sc.headers, [2]string{"Cookie", "a=1; b=2"})
	}
	if r.Intn(2) == 0 {
		sc.method = verifh.Pick(r, []string{"POST", "PUT", "PATCH"})
		var n int
		switch r.Intn(4) {
		case 0:
			n = 1 + r.Intn(40)
		case 1:
			n = 16000 + r.Intn(1000)
		case 2:
			n = 30000 + r.Intn(maxBody)
		default:
			n = r.Intn(3)
		}
		sc.body = verifh.RandBytes(r, n, "abcdefgh\r\n{}:\"0123456789")
		sc.bodyVia = verifh.Pick(r, []string{"bytes", "bytes", "reader", "multipart"})
		if sc.bodyVia == "multipart" {
			sc.method = "POST"
		}
	}
	bodyKind := verifh.Pick(r, []string{"plain", "plain", "gzip", "gbk", "text"})
	final := 200
	if r.Intn(8) == 0 {
		final = verifh.Pick(r, []int{201, 204, 404})
	}
	switch flow {
	case "head":
		// HEAD: a content-length and no DATA (END_STREAM on the header block)
		sc.method, sc.body, sc.bodyVia = "HEAD", "", ""
		fields := []c13Field{{":status", strconv.Itoa(final)}, {"x-verif", "c13"}, {"content-type", "text/plain"}, {"content-length", strconv.Itoa(1 + r.Intn(100000))}}
		if feature == "many" {
			for i := 0; i < 60+r.Intn(60); i++ {
				fields = append(fields, c13Field{"x-h" + strconv.Itoa(i%30), verifh.RandBytes(r, r.Intn(40), "abcdef0123")})
			}
		}
		sc.scripts[sc.path] = []c13GResp{{fields: fields, pieces: 1}}
		sc.order = []string{sc.path}
	case "single":
		sc.scripts[sc.path] = []c13GResp{c13GenGResp(s, final, feature, bodyKind, maxBody)}
		sc.order = []string{sc.path}
	case "retry":
		sc.retry = true
		sc.scripts[sc.path] = []c13GResp{c13GenGResp(s, verifh.Pick(r, []int{500, 503}), "", "plain", maxBody), c13GenGResp(s, final, feature, bodyKind, maxBody)}
		sc.order = []string{sc.path, sc.path}
	case "redirect":
		target := sc.path + "/target"
		body := verifh.RandBytes(r, r.Intn(200), "redirect body")
		sc.scripts[sc.path] = []c13GResp{{fields: []c13Field{{":status", strconv.Itoa(verifh.Pick(r, []int{301, 302, 307, 308}))}, {"location", target}}, wire: body, decoded: body, pieces: 1}}
		sc.scripts[target] = []c13GResp{c13GenGResp(s, final, feature, bodyKind, maxBody)}
		sc.order = []string{sc.path, target}
	}
	return sc
}

// c13GScripts is the script table shared by the HTTP/2 and HTTP/3 peers.
type c13GScripts struct {
	mu       sync.Mutex
	scripts  map[string][]c13GResp
	hits     map[string]int
	captured []c13GAttempt
	lives    map[string]*c13Live
}

func (p *c13GScripts) liveFor(fields []c13Field) *c13Live {
	p.mu.Lock()
	defer p.mu.Unlock()
	for _, f := range fields {
		if f.name == ":path" {
			path := f.value
			if i := strings.IndexByte(path, '?'); i >= 0 {
				path = path[:i]
			}
			return p.lives[path]
		}
	}
	return nil
}

func (p *c13GScripts) install(sc *c13GScenario) {
	p.mu.Lock()
	defer p.mu.Unlock()
	if p.scripts == nil {
		p.scripts = map[string][]c13GResp{}
	}
	for k, v := range sc.scripts {
		p.scripts[k] = v
	}
}

func (p *c13GScripts) reset() []c13GAttempt {
	p.mu.Lock()
	defer p.mu.Unlock()
	c := p.captured
	p.captured = nil
	p.hits = map[string]int{}
	return c
}

func (p *c13GScripts) record(att c13GAttempt) (c13GResp, bool) {
	path := ""
	for _, f := range att.fields {
		if f.name == ":path" {
			path = f.value
			if i := strings.IndexByte(path, '?'); i >= 0 {
				path = path[:i]
			}
		}
	}
	p.mu.Lock()
	defer p.mu.Unlock()
	p.captured = append(p.captured, att)
	l := p.scripts[path]
	if len(l) == 0 {
		return c13GResp{fields: []c13Field{{":status", "599"}}}, false
	}
	i := p.hits[path]
	p.hits[path]++
	if i >= len(l) {
		i = len(l) - 1
	}
	return l[i], true
}

func c13GAttemptsEqual(a, b []c13GAttempt) string {
	if len(a) != len(b) {
		return fmt.Sprintf("%d requests received vs %d", len(a), len(b))
	}
	// Regular fields are enumerated from a Go map: their relative order is not fixed by
	// anything (C16 is about requested orders). Compare them sorted by name, same-name fields
	// in wire order.
	canon := func(l []c13Field) string {
		c := append([]c13Field{}, l...)
		sort.SliceStable(c, func(i, j int) bool { return c[i].name < c[j].name })
		return fmt.Sprint(c)
	}
	for i := range a {
		if canon(a[i].fields) != canon(b[i].fields) {
			return fmt.Sprintf("request %d: header fields differ: %q vs %q", i, c13Clip(fmt.Sprint(a[i].fields), 300), c13Clip(fmt.Sprint(b[i].fields), 300))
		}
		if a[i].payload != b[i].payload {
			return fmt.Sprintf("request %d: DATA payload differs (%d vs %d bytes)", i, len(a[i].payload), len(b[i].payload))
		}
	}
	return ""
}

// ================================================================= HTTP/2 frame peer (prior knowledge, plain TCP)

type c13H2Peer struct {
	c13GScripts
	ln    net.Listener
	cmu   sync.Mutex
	conns []net.Conn
	// flow control offered to the next connections: 0 = generous (the client never waits for
	// credit); otherwise SETTINGS_INITIAL_WINDOW_SIZE = window and every received DATA frame is
	// acknowledged with WINDOW_UPDATEs in `parts` pieces, so that uploads are cut by flow control
	window, parts int
}

func (p *c13H2Peer) setFlow(window, parts int) {
	p.cmu.Lock()
	p.window, p.parts = window, parts
	p.cmu.Unlock()
}

func c13NewH2Peer(t testing.TB) *c13H2Peer {
	ln, err := net.Listen("tcp", "127.0.0.1:0")
	if err != nil {
		t.Fatalf("listen: %v", err)
	}
	p := &c13H2Peer{ln: ln}
	go func() {
		for {
			c, err := ln.Accept()
			if err != nil {
				return
			}
			p.cmu.Lock()
			p.conns = append(p.conns, c)
			p.cmu.Unlock()
			go p.serve(c)
		}
	}()
	return p
}

func (p *c13H2Peer) close() {
	p.ln.Close()
	p.cmu.Lock()
	for _, c := range p.conns {
		c.Close()
	}
	p.cmu.Unlock()
}

func (p *c13H2Peer) serve(c net.Conn) {
	defer c.Close()
	preface := make([]byte, len(http2.ClientPreface))
	if _, err := io.ReadFull(c, preface); err != nil || string(preface) != http2.ClientPreface {
		return
	}
	fr := http2.NewFramer(c, c)
	fr.ReadMetaHeaders = hpack.NewDecoder(4096, nil)
	fr.MaxHeaderListSize = 1 << 24
	fr.SetMaxReadFrameSize(1 << 20)
	p.cmu.Lock()
	window, parts := p.window, p.parts
	p.cmu.Unlock()
	if window == 0 {
		// generous windows: the client must never wait for flow-control credit
		fr.WriteSettings(http2.Setting{ID: http2.SettingInitialWindowSize, Val: 1 << 28}, http2.Setting{ID: http2.SettingMaxHeaderListSize, Val: 1 << 24})
		fr.WriteWindowUpdate(0, 1<<28)
	} else {
		fr.WriteSettings(http2.Setting{ID: http2.SettingInitialWindowSize, Val: uint32(window)}, http2.Setting{ID: http2.SettingMaxHeaderListSize, Val: 1 << 24})
	}
	var hbuf bytes.Buffer
	enc := hpack.NewEncoder(&hbuf)
	open := map[uint32]*c13GAttempt{}
	writeBlock := func(id uint32, block []c13Field, end bool) {
		hbuf.Reset()
		for _, f := range block {
			enc.WriteField(hpack.HeaderField{Name: f.name, Value: f.value})
		}
		frag := hbuf.Bytes()
		first := true
		for first || len(frag) > 0 {
			n := len(frag)
			if n > 16384 {
				n = 16384
			}
			if first {
				fr.WriteHeaders(http2.HeadersFrameParam{StreamID: id, BlockFragment: frag[:n], EndStream: end, EndHeaders: n == len(frag)})
				first = false
			} else {
				fr.WriteContinuation(id, n == len(frag), frag[:n])
			}
			frag = frag[n:]
		}
	}
	respond := func(id uint32) {
		att := open[id]
		delete(open, id)
		resp, _ := p.record(*att)
		for _, blk := range resp.interim {
			writeBlock(id, blk, false)
		}
		hasTrailers := len(resp.trailers) > 0
		if resp.wire == "" && !hasTrailers && att.live == nil {
			writeBlock(id, resp.fields, true)
			return
		}
		if att.live != nil {
			// interactive download: one DATA frame per piece, the next one only after the caller
			// has read the previous one
			writeBlock(id, resp.fields, false)
			for j, piece := range att.live.down {
				fr.WriteData(id, false, []byte(piece))
				att.live.waitRead(j)
			}
			fr.WriteData(id, true, nil)
			return
		}
		writeBlock(id, resp.fields, false)
		data := resp.wire
		n := resp.pieces
		if n < 1 {
			n = 1
		}
		per := len(data)/n + 1
		if per > 16384 {
			per = 16384
		}
		for len(data) > 0 {
			k := per
			if k > len(data) {
				k = len(data)
			}
			fr.WriteData(id, !hasTrailers && k == len(data), []byte(data[:k]))
			data = data[k:]
		}
		if hasTrailers {
			writeBlock(id, resp.trailers, true)
		} else if resp.wire == "" {
			fr.WriteData(id, true, nil)
		}
	}
	for {
		f, err := fr.ReadFrame()
		if err != nil {
			return
		}
		switch f := f.(type) {
		case *http2.SettingsFrame:
			if !f.IsAck() {
				fr.WriteSettingsAck()
			}
		case *http2.PingFrame:
			if !f.IsAck() {
				fr.WritePing(true, f.Data)
			}
		case *http2.MetaHeadersFrame:
			att := open[f.StreamID]
			if att == nil {
				att = &c13GAttempt{}
				open[f.StreamID] = att
				for _, hf := range f.Fields {
					att.fields = append(att.fields, c13Field{hf.Name, hf.Value})
				}
				att.live = p.liveFor(att.fields)
			} else {
				for _, hf := range f.Fields {
					att.trailer = append(att.trailer, c13Field{hf.Name, hf.Value})
				}
			}
			if f.StreamEnded() {
				respond(f.StreamID)
			}
		case *http2.DataFrame:
			if att := open[f.StreamID]; att != nil {
				att.payload += string(f.Data())
				if len(f.Data()) > 0 {
					att.frames = append(att.frames, string(f.Data()))
				}
				if window != 0 && len(f.Data()) > 0 && !f.StreamEnded() {
					// hand the credit back in `parts` uneven pieces
					left := len(f.Data())
					for i := parts; i >= 1 && left > 0; i-- {
						k := left
						if i > 1 {
							k = (left + 2) / 3
						}
						fr.WriteWindowUpdate(f.StreamID, uint32(k))
						fr.WriteWindowUpdate(0, uint32(k))
						left -= k
					}
				}
				if att.live != nil {
					att.live.gotUpload(len(f.Data()))
				}
				if f.StreamEnded() {
					respond(f.StreamID)
				}
			}
		case *http2.GoAwayFrame:
			return
		}
	}
}

// ================================================================= shared run / judge for HTTP/2 and HTTP/3

type c13GRunOut struct {
	cl       *Client
	res      c13Result
	attempts []c13GAttempt
	log      *c13Log
}

func c13RunG(scripts *c13GScripts, mkClient func() *Client, baseURL string, sc *c13GScenario, cfg *c13DumpCfg, viaSet bool, timeout time.Duration, clone bool) c13GRunOut {
	scripts.install(sc)
	scripts.reset()
	cl := mkClient().SetTimeout(timeout)
	if sc.retry {
		cl.SetCommonRetryCount(2).SetCommonRetryFixedInterval(time.Millisecond).
			SetCommonRetryCondition(func(resp *Response, err error) bool {
				return err != nil || (resp != nil && resp.Response != nil && resp.StatusCode >= 500)
			})
	}
	out := c13GRunOut{log: &c13Log{}}
	if cfg != nil {
		cl = cfg.applyClient(cl, out.log, viaSet)
	} else if clone {
		cl = cl.Clone()
	}
	rq := cl.R()
	for _, h := range sc.headers {
		rq.SetHeader(h[0], h[1])
	}
	switch sc.bodyVia {
	case "bytes":
		rq.SetBodyBytes([]byte(sc.body))
	case "reader":
		body := sc.body
		rq.SetBody(func() (io.ReadCloser, error) { return io.NopCloser(strings.NewReader(body)), nil })
	case "multipart":
		c13Multipart(cl, rq, sc.body)
	}
	if cfg != nil {
		cfg.applyRequest(rq, out.log)
	}
	url := baseURL + sc.path
	if sc.query != "" {
		url += "?" + sc.query
	}
	resp, err := rq.Send(sc.method, url)
	out.res = c13ResultOf(resp, err)
	if cfg != nil && cfg.eachReq > 0 && resp != nil {
		d := resp.Dump()
		out.log.mu.Lock()
		out.log.events = append(out.log.events, c13Event{30, d})
		out.log.mu.Unlock()
	}
	if cfg != nil {
		cfg.readBack(out.log)
	}
	out.cl = cl
	cl.CloseIdleConnections()
	if cl.t3 != nil {
		cl.t3.Close()
	}
	out.attempts = scripts.reset()
	return out
}

// c13GPending builds the model query for one H2/H3 pair.
func c13GPending(id, human string, sc *c13GScenario, cfg c13DumpCfg, off, on c13GRunOut, withTrailers bool) *c13Pending {
	p := &c13Pending{id: id, human: human, class: sc.class, log: on.log, cl: on.cl, tokens: map[string]string{}, seqOf: map[string]int{}, nontrivial: true}
	if d := c13GAttemptsEqual(off.attempts, on.attempts); d != "" {
		p.why = append(p.why, "request as received by the peer differs: "+d)
	}
	if off.res != on.res {
		p.why = append(p.why, fmt.Sprintf("caller-visible result differs: off {%s} on {%s}", c13Clip(off.res.String(), 300), c13Clip(on.res.String(), 300)))
	}
	var parts []string
	for i, at := range on.attempts {
		var resp c13GResp
		if i < len(sc.order) {
			l := sc.scripts[sc.order[i]]
			k := 0
			for j := 0; j < i; j++ {
				if sc.order[j] == sc.order[i] {
					k++
				}
			}
			if k >= len(l) {
				k = len(l) - 1
			}
			resp = l[k]
		}
		body := resp.decoded
		if i == len(on.attempts)-1 {
			body = off.res.body
		}
		for j, content := range []string{c13Lines(at.fields), at.payload, resp.headDump(withTrailers), body} {
			tk := ""
			if content != "" {
				tk = fmt.Sprintf("%c%c%c", 'A'+i, "hbHB"[j], '.')
				p.tokens[tk] = content
				p.seqOf[tk] = []int{0, 0, 1, 2}[j]
			}
			parts = append(parts, tk)
		}
	}
	p.modelLine = c13ExpLine(&cfg, sc.retry, len(on.attempts), parts)
	return p
}

// c13GFlat: every 8th pair of the HTTP/2 and HTTP/3 lanes reads its dump back as one string
// (Response.Dump() after EnableDumpEachRequest…, or a dump file), retries and redirects included.
func c13GFlat(t testing.TB, s *verifh.Session, cnt c13Counter, c int, seq *int, fileBudget *int, cfg *c13DumpCfg, sc *c13GScenario) {
	if c%8 != 3 || sc.class != "" || strings.HasSuffix(sc.name, "/trailer") {
		// (response trailers are dumped by the read loop while the caller's goroutine dumps the
		// body: in a flat read-back their writes interleave, there is no single expected string)
		return
	}
	*seq++
	c13FlatVariant(t, cfg, *seq, fileBudget, func(k string) { cnt.add(s, k) })
	if len(sc.body) > 1500 {
		sc.body = sc.body[:1500]
	}
	if sc.bodyVia == "reader" || sc.bodyVia == "multipart" {
		sc.bodyVia = "bytes"
	}
	if sc.retry {
		cnt.add(s, "flat-dump-after-retry")
	}
}

// c13GenCfg draws the dump configuration of pair number c.
func c13GenCfg(s *verifh.Session, c int, allowReqAsync *int, sc *c13GScenario) (c13DumpCfg, string, int) {
	r := s.Rand()
	subset := (c*7 + r.Intn(16)) % 16
	if c < 32 {
		subset = c % 16
	}
	var cfg c13DumpCfg
	level := []string{"client", "request", "both"}[c%3]
	async := r.Intn(2) == 0
	if level != "request" {
		cfg.cl = c13GenDumper(s, 10, subset, async)
	}
	if level != "client" {
		rqAsync := false
		if sc.class == "" && *allowReqAsync > 0 && r.Intn(8) == 0 {
			rqAsync = true
			*allowReqAsync--
			sc.class = "request-level-async-not-delivered"
		}
		sub2 := subset
		if level == "both" {
			sub2 = r.Intn(16)
		}
		cfg.rq = c13GenDumper(s, 20, sub2, rqAsync)
	}
	if cfg.cl != nil && r.Intn(5) == 0 {
		cfg.clone = true
	}
	return cfg, level, subset
}

// TestVerif_C13_e2eh2: paired runs over HTTP/2 (prior knowledge over loopback TCP) against a
// frame-level peer built on x/net/http2.Framer + hpack.
func TestVerif_C13_e2eh2(t *testing.T) {
	s := verifh.New(t, "C13", "e2eh2",
		"HTTP/2 paired runs (dump off / on, fresh client and connection each) against a frame-script peer (x/net Framer + hpack) that records the request header block in wire order and the DATA payload: flows single / retry after 5xx / redirect; request bodies 0..130 KB (known length or reader), request header blocks > 16 KiB (CONTINUATION) and 40+ fields; responses 0..60 KB in 1-4+ DATA frames, gzip, GBK auto-decoded, 204, 103 interim block, trailers, header block > 16 KiB, 60-140 fields, empty values; dump config as in e2eh1; oracle: peer-received request and caller-visible result equal in the pair; each writer's writes = interleaving of the model's expectedDump per dumping goroutine, where request/response header parts are the `name: value CRLF` lines of the blocks the peer received / sent; non-trivial = every pair")
	r := s.Rand()
	cnt := c13Counter{}
	peer := c13NewH2Peer(t)
	defer peer.close()
	mk := func() *Client { return C().EnableForceHTTP2().EnableH2C() }
	base := "http://" + peer.ln.Addr().String()
	flows := []string{"single", "single", "single", "retry", "redirect", "single", "head"}
	features := []string{"", "", "", "1xx", "long", "many", "trailer", "empty-value"}
	n := verifh.N(160, 4000)
	reqAsync := verifh.N(2, 40)
	flatSeq, fileBudget := 0, verifh.N(6, 80)
	var pend []*c13Pending
	for c := 0; c < n; c++ {
		flow := flows[c%len(flows)]
		feature := verifh.Pick(r, features)
		sc := c13GenGScenario(s, flow, feature, 100000)
		cfg, level, subset := c13GenCfg(s, c, &reqAsync, sc)
		cfg.clone = false // Client.Clone() does not carry the h2c dial setup of this lane (clone fidelity is C19's subject)
		c13GFlat(t, s, cnt, c, &flatSeq, &fileBudget, &cfg, sc)
		timeout := 5 * time.Second
		margin := 3 * time.Second
		if cfg.rq != nil && cfg.rq.async {
			timeout, margin = 700*time.Millisecond, 800*time.Millisecond
		}
		viaSet := r.Intn(2) == 0
		// flow control: a third of the uploads meet a peer with a small stream window that hands
		// credit back in uneven pieces, so that body reads are cut into several DATA frames
		window, parts := 0, 1
		if sc.body != "" && c%3 == 1 {
			window = verifh.Pick(r, []int{1, 7, 100, 1000, 5000, 16384, 40000})
			if min := len(sc.body)/50 + 1; window < min {
				window = min
			}
			parts = 1 + r.Intn(3)
			cnt.add(s, "tight-flow-control")
			// the request body goes to a writer of its own, so that its writes can be counted
			if d := cfg.cl; d != nil && d.base == 10 {
				d.routing, d.flags[1] = 1, true
			} else if d := cfg.rq; d != nil && d.base == 20 {
				d.routing, d.flags[1] = 1, true
			}
		}
		peer.setFlow(window, parts)
		off, _ := c13GuardG(timeout+margin, func() c13GRunOut { return c13RunG(&peer.c13GScripts, mk, base, sc, nil, false, timeout, cfg.clone) })
		on, hung := c13GuardG(timeout+margin, func() c13GRunOut { return c13RunG(&peer.c13GScripts, mk, base, sc, &cfg, viaSet, timeout, cfg.clone) })
		peer.setFlow(0, 1)
		p := c13GPending(fmt.Sprintf("h2 #%d %s %s %s", c, sc.name, cfg.String(), sc.method),
			fmt.Sprintf("%s %s body=%dB via %q window=%d/%d; %s; result %s", sc.method, sc.name, len(sc.body), sc.bodyVia, window, parts, cfg.String(), c13Clip(off.res.String(), 160)),
			sc, cfg, off, on, true)
		if hung {
			p.why = append(p.why, "the call with dump on never returned")
		}
		c13FrameExtras(p, &cfg, on.attempts, func() { cnt.add(s, "frame-granularity-checked") }, func() { cnt.add(s, "upload-split-into-frames") })
		cnt.add(s, "flow="+flow)
		cnt.add(s, "feature="+feature)
		cnt.add(s, "level="+level)
		cnt.add(s, fmt.Sprintf("subset=%d", subset))
		if off.res.err == "-" && off.res.proto == "HTTP/2.0" {
			cnt.add(s, "baseline-ok-h2")
		} else {
			cnt.add(s, "baseline-error")
			p.why = append(p.why, "harness: baseline run failed: "+off.res.String())
		}
		if sc.body != "" {
			cnt.add(s, "req-body-via-"+sc.bodyVia)
		}
		pend = append(pend, p)
		if len(pend) >= 200 { // judge in batches: the recorded dumps are large
			c13Finish(t, s, pend)
			pend = nil
		}
	}
	c13Finish(t, s, pend)
	for _, must := range []string{"flow=retry", "flow=redirect", "feature=long", "feature=trailer", "feature=many", "feature=1xx", "level=both", "req-body-via-reader", "req-body-via-multipart", "flow=head", "baseline-ok-h2", "via-each-request", "via-dump-all-to-file", "via-dump-to-file", "flat-dump-after-retry", "tight-flow-control", "frame-granularity-checked", "upload-split-into-frames"} {
		if cnt[must] == 0 {
			t.Errorf("generator never reached bucket %q", must)
		}
	}
	s.Finish()
}

// c13FrameExtras adds the frame-level check of the HTTP/2 request-body dump: the Lean model
// (dataDump over the upload and the flow-control schedule the peer observed) gives the DATA
// payloads; the peer must have received exactly those frames, and a dumper with a writer of its
// own for the request body must have been handed exactly one write per frame with that payload
// (DumpRequestBody(data) once per WriteData), over all attempts in order.
func c13FrameExtras(p *c13Pending, cfg *c13DumpCfg, attempts []c13GAttempt, counted, split func()) {
	var model []string
	for _, at := range attempts {
		at := at
		if at.payload == "" {
			continue
		}
		sizes := make([]int, len(at.frames))
		for i, f := range at.frames {
			sizes[i] = len(f)
		}
		if len(at.frames) > 1 {
			split()
		}
		p.extra = append(p.extra, c13Extra{
			line: fmt.Sprintf("c13gdata 16384 %s %s", verifh.Hex(at.payload), verifh.IntList(sizes)),
			check: func(ans string) string {
				fr := verifh.UnHexList(ans)
				model = append(model, fr...)
				if fmt.Sprint(fr) != fmt.Sprint(at.frames) {
					return fmt.Sprintf("DATA frames received %v are not the model's cut %v of the %d-byte upload", c13Lens(at.frames), c13Lens(fr), len(at.payload))
				}
				return ""
			},
		})
	}
	if len(p.extra) == 0 {
		return
	}
	for _, d := range []*c13DumperCfg{cfg.cl, cfg.rq} {
		d := d
		if d == nil || d.routing != 1 || !d.flags[1] || (d.base != 10 && d.base != 20) {
			continue
		}
		counted()
		p.extra = append(p.extra, c13Extra{
			line: "c13gdata 16384 - -",
			check: func(string) string {
				got := p.log.of(d.base + 4)
				if fmt.Sprint(got) != fmt.Sprint(model) {
					return fmt.Sprintf("request-body writer %d was handed %d writes of %v bytes, the DATA frames sent were %v: not one dump call per frame with that frame's payload", d.base+4, len(got), c13Lens(got), c13Lens(model))
				}
				return ""
			},
		})
	}
}

func c13GuardG(d time.Duration, f func() c13GRunOut) (c13GRunOut, bool) {
	ch := make(chan c13GRunOut, 1)
	go func() { ch <- f() }()
	select {
	case o := <-ch:
		return o, false
	case <-time.After(d):
		return c13GRunOut{res: c13Result{err: "hung"}, log: &c13Log{}}, true
	}
}

var _ = http.StatusOK
