//go:build verif

package req

import (
	"bytes"
	"context"
	"errors"
	"fmt"
	"io"
	"net/http"
	"os"
	"strconv"
	"strings"
	"testing"
	"time"

	"github.com/imroc/req/v3/internal/dump"
	"github.com/imroc/req/v3/internal/verifh"
)

// c13WriterID names a resolved writer the way the Lean model does.
func c13WriterID(w io.Writer) int {
	switch v := w.(type) {
	case *c13LogWriter:
		return v.id
	case *os.File:
		if v == os.Stdout {
			return 1000
		}
		if v == os.Stderr {
			return 1001
		}
	}
	return -1
}

func c13RandOpts(s *verifh.Session, base int) (*DumpOptions, string) {
	r := s.Rand()
	log := &c13Log{}
	ids := make([]int, 7)
	mk := func(i int) io.Writer {
		if r.Intn(2) == 0 {
			return nil
		}
		ids[i] = base + i
		return &c13LogWriter{id: base + i, log: log}
	}
	o := &DumpOptions{
		Output: mk(0), RequestOutput: mk(1), ResponseOutput: mk(2), RequestHeaderOutput: mk(3),
		RequestBodyOutput: mk(4), ResponseHeaderOutput: mk(5), ResponseBodyOutput: mk(6),
		RequestHeader: r.Intn(2) == 0, RequestBody: r.Intn(2) == 0, ResponseHeader: r.Intn(2) == 0, ResponseBody: r.Intn(2) == 0,
		Async: r.Intn(2) == 0,
	}
	l := append([]int{}, ids...)
	l = append(l, c13B2i(o.RequestHeader), c13B2i(o.RequestBody), c13B2i(o.ResponseHeader), c13B2i(o.ResponseBody), c13B2i(o.Async))
	return o, verifh.IntList(l)
}

// TestVerif_C13_route: the real option resolution (dumpOptions methods behind dump.Options,
// newDumper's nil-Output rule, dump.GetDumpers, dump.GetResponseHeaderDumpers) against the model.
func TestVerif_C13_route(t *testing.T) {
	s := verifh.New(t, "C13", "route",
		"random DumpOptions: each of the 7 writer fields nil or a tagged writer, 4 part flags, Async; resolved through newDumper (nil Output -> stderr) and through the bare dumpOptions accessor (nil Output -> stdout); GetDumpers / GetResponseHeaderDumpers with a client-level dumper and/or a request-level dumper in the context, nil context, nil dumper; non-trivial = at least one writer field set and one nil")
	r := s.Rand()
	cnt := c13Counter{}
	n := verifh.N(1500, 40000)
	for c := 0; c < n; c++ {
		o, arg := c13RandOpts(s, 10)
		nontriv := strings.Contains(arg, "0,") && (o.Output != nil || o.RequestOutput != nil || o.RequestHeaderOutput != nil)
		mode := verifh.Pick(r, []string{"n", "r"})
		var d dump.Options
		if mode == "n" {
			d = newDumper(o).Options
		} else {
			d = dumpOptions{o}
		}
		ans := fmt.Sprintf("%d:%d %d:%d %d:%d %d:%d out=%d",
			c13B2i(d.RequestHeader()), c13WriterID(d.RequestHeaderOutput()),
			c13B2i(d.RequestBody()), c13WriterID(d.RequestBodyOutput()),
			c13B2i(d.ResponseHeader()), c13WriterID(d.ResponseHeaderOutput()),
			c13B2i(d.ResponseBody()), c13WriterID(d.ResponseBodyOutput()),
			c13WriterID(d.Output()))
		cnt.add(s, "route-mode="+mode)
		s.Case("c13route "+mode+" "+arg, ans, true, "", nontriv, "route "+mode+" "+arg)

		// GetDumpers / GetResponseHeaderDumpers
		oc, argc := c13RandOpts(s, 10)
		or, argr := c13RandOpts(s, 20)
		var dc, dr *dump.Dumper
		var ctx context.Context = context.Background()
		switch r.Intn(5) {
		case 0:
			ctx = nil
		}
		if r.Intn(3) > 0 {
			dc = newDumper(oc)
		} else {
			argc = "-"
		}
		if r.Intn(3) > 0 && ctx != nil {
			dr = newDumper(or)
			ctx = context.WithValue(ctx, dump.DumperKey, dr)
		} else {
			argr = "-"
		}
		name := func(l []*dump.Dumper) string {
			var out []string
			for _, d := range l {
				switch d {
				case dc:
					out = append(out, "c")
				case dr:
					out = append(out, "r")
				default:
					out = append(out, "?")
				}
			}
			if len(out) == 0 {
				return "-"
			}
			return strings.Join(out, ",")
		}
		s.Case("c13dumpers "+argc+" "+argr+" all", name(dump.GetDumpers(ctx, dc)), true, "", dc != nil && dr != nil, "GetDumpers c="+argc+" r="+argr)
		s.Case("c13dumpers "+argc+" "+argr+" 2", name(dump.GetResponseHeaderDumpers(ctx, dc)), true, "", dc != nil && dr != nil, "GetResponseHeaderDumpers c="+argc+" r="+argr)
		if dc != nil && dr != nil {
			cnt.add(s, "both-levels")
		}
	}
	for _, must := range []string{"route-mode=n", "route-mode=r", "both-levels"} {
		if cnt[must] == 0 {
			t.Errorf("generator never reached bucket %q", must)
		}
	}
	s.Finish()
}

// c13LimitedWriter is the model's `limitedWriter`: accepts `limit` more bytes, then fails.
type c13LimitedWriter struct {
	limit  int
	got    bytes.Buffer
	closed int
}

func (w *c13LimitedWriter) Write(p []byte) (int, error) {
	if len(p) <= w.limit {
		w.limit -= len(p)
		w.got.Write(p)
		return len(p), nil
	}
	n := w.limit
	w.got.Write(p[:n])
	w.limit = 0
	return n, io.ErrShortWrite
}

func (w *c13LimitedWriter) Close() error { w.closed++; return nil }

// c13FailingSink is the model's `failingSink`: a dump writer that records what it is offered
// and fails every write after the first k.
type c13FailingSink struct {
	k    int
	seen []string
}

func (w *c13FailingSink) Write(p []byte) (int, error) {
	w.seen = append(w.seen, string(p))
	if len(w.seen) > w.k {
		return 0, errors.New("dump writer: disk full")
	}
	return len(p), nil
}

// c13BytesReader is the model's `bytesReader`.
type c13BytesReader struct {
	rest        []byte
	eofWithData bool
	closed      int
}

func (r *c13BytesReader) Read(p []byte) (int, error) {
	n := copy(p, r.rest)
	r.rest = r.rest[n:]
	if len(r.rest) == 0 && (r.eofWithData || n == 0) {
		return n, io.EOF
	}
	return n, nil
}

func (r *c13BytesReader) Close() error { r.closed++; return nil }

// TestVerif_C13_wrap: the real pass-through wrappers on scripted writers / readers.
func TestVerif_C13_wrap(t *testing.T) {
	s := verifh.New(t, "C13", "wrap",
		"WrapRequestHeaderWriter / WrapRequestBodyWriter / WrapRequestBodyWriteCloser (1 or 2 nested dumpers) over a writer that accepts a random number of bytes and then returns short writes; WrapResponseBodyReadCloser (via WrapResponseBodyIfNeeded with 0..2 enabled dumpers) over a byte reader with EOF delivered with or after the data, read with random buffer sizes incl. 0 and reads after EOF; the caller's (n, err) sequence, the bytes that reached the inner object, each dumper's bytes and the number of separators are compared with the model; non-trivial = a short write or a multi-read body")
	r := s.Rand()
	cnt := c13Counter{}
	n := verifh.N(1500, 40000)
	for c := 0; c < n; c++ {
		// ---- writers
		kind := r.Intn(3)
		depth := 1 + r.Intn(2)
		var writes []string
		total := 0
		for i, k := 0, r.Intn(6); i < k; i++ {
			w := verifh.RandBytes(r, r.Intn(40), "")
			writes = append(writes, w)
			total += len(w)
		}
		limit := r.Intn(total + 10)
		inner := &c13LimitedWriter{limit: limit}
		var bufs []*bytes.Buffer
		var w io.Writer = inner
		var wc io.WriteCloser = inner
		for i := 0; i < depth; i++ {
			b := new(bytes.Buffer)
			bufs = append(bufs, b)
			d := newDumper(&DumpOptions{Output: io.Discard, RequestHeaderOutput: b, RequestBodyOutput: b, RequestHeader: true, RequestBody: true})
			switch kind {
			case 0:
				w = d.WrapRequestHeaderWriter(w)
			case 1:
				w = d.WrapRequestBodyWriter(w)
			default:
				wc = d.WrapRequestBodyWriteCloser(wc)
				w = wc
			}
		}
		var res []string
		for _, p := range writes {
			buf := []byte(p)
			n, err := w.Write(buf)
			for i := range buf { // the caller may reuse its buffer
				buf[i] = 0xEE
			}
			code := 0
			if err == io.ErrShortWrite {
				code = 2
			} else if err != nil {
				code = 9
			}
			res = append(res, fmt.Sprintf("%d:%d", n, code))
		}
		ok := true
		if kind == 2 {
			wc.Close()
			ok = inner.closed == 1 // Close passes through exactly once
		}
		ans := "-"
		if len(res) > 0 {
			ans = strings.Join(res, ",")
		}
		ans += " got=" + verifh.Hex(inner.got.String())
		for _, b := range bufs {
			ans += " d=" + verifh.Hex(b.String())
		}
		cnt.add(s, fmt.Sprintf("writer-kind=%d", kind))
		if limit < total {
			cnt.add(s, "short-write")
		}
		s.Case(fmt.Sprintf("c13wrapw %d %s %d", limit, verifh.HexList(writes), depth), ans, ok, "", limit < total && len(writes) > 1,
			fmt.Sprintf("writer kind=%d depth=%d limit=%d writes=%v", kind, depth, limit, c13Lens(writes)))

		// ---- the same wrappers over a dump writer that fails: from its (k+1)-th write on it
		// reports an error and a zero count; nothing of that may reach the caller or the
		// connection writer, and it is still offered every accepted piece exactly once
		{
			k := r.Intn(4)
			sink := &c13FailingSink{k: k}
			inner2 := &c13LimitedWriter{limit: limit}
			d := newDumper(&DumpOptions{Output: io.Discard, RequestHeaderOutput: sink, RequestBodyOutput: sink, RequestHeader: true, RequestBody: true})
			var w2 io.Writer
			switch kind {
			case 0:
				w2 = d.WrapRequestHeaderWriter(inner2)
			case 1:
				w2 = d.WrapRequestBodyWriter(inner2)
			default:
				w2 = d.WrapRequestBodyWriteCloser(inner2)
			}
			var res2 []string
			for _, p := range writes {
				buf := []byte(p)
				n, err := w2.Write(buf)
				for i := range buf {
					buf[i] = 0xEE
				}
				code := 0
				if err == io.ErrShortWrite {
					code = 2
				} else if err != nil {
					code = 9
				}
				res2 = append(res2, fmt.Sprintf("%d:%d", n, code))
			}
			ans2 := "-"
			if len(res2) > 0 {
				ans2 = strings.Join(res2, ",")
			}
			ans2 += " got=" + verifh.Hex(inner2.got.String()) + " seen=" + verifh.HexList(sink.seen)
			if len(sink.seen) > k {
				cnt.add(s, "failing-sink-failed")
			}
			s.Case(fmt.Sprintf("c13wraps %d %s %d", limit, verifh.HexList(writes), k), ans2, true, "", len(sink.seen) > k,
				fmt.Sprintf("writer kind=%d limit=%d writes=%v over a dump writer failing after %d writes", kind, limit, c13Lens(writes), k))
		}

		// ---- response body reader
		data := verifh.RandBytes(r, verifh.Pick(r, []int{0, 1, 7, 100, 600}), "")
		ewd := r.Intn(2) == 0
		src := &c13BytesReader{rest: []byte(data), eofWithData: ewd}
		nd := r.Intn(3)
		var bodyBufs, outBufs []*bytes.Buffer
		ctx := context.Background()
		var cl *dump.Dumper
		for i := 0; i < 2; i++ {
			bb, ob := new(bytes.Buffer), new(bytes.Buffer)
			on := i < nd
			d := newDumper(&DumpOptions{Output: ob, ResponseBodyOutput: bb, ResponseBody: on})
			if i == 0 {
				cl = d
			} else {
				ctx = context.WithValue(ctx, dump.DumperKey, d)
			}
			if on {
				bodyBufs, outBufs = append(bodyBufs, bb), append(outBufs, ob)
			} else if i == 0 && nd == 0 {
				bodyBufs, outBufs = append(bodyBufs, bb), append(outBufs, ob) // must stay empty
			}
		}
		hreq, _ := http.NewRequestWithContext(ctx, "GET", "http://example.invalid/", nil)
		hres := &http.Response{Body: src}
		dump.WrapResponseBodyIfNeeded(hres, hreq, cl)
		var caps []int
		var outs []string
		for i, k := 0, 1+r.Intn(6); i < k; i++ {
			capn := verifh.Pick(r, []int{0, 1, 3, 64, 1000})
			caps = append(caps, capn)
			p := make([]byte, capn)
			n, err := hres.Body.Read(p)
			code := 0
			if err == io.EOF {
				code = 1
			} else if err != nil {
				code = 9
			}
			outs = append(outs, verifh.Hex(string(p[:n]))+":"+strconv.Itoa(code))
		}
		hres.Body.Close()
		rans := strings.Join(outs, ",")
		rok := src.closed == 1
		if nd == 0 {
			// no enabled dumper: nothing dumped anywhere; compare only the pass-through part
			rok = rok && bodyBufs[0].Len() == 0 && outBufs[0].Len() == 0
			// model line still checks the data/err sequence through one wrapper (transparent)
			body := ""
			seps := 0
			for _, o := range outs {
				h, code, _ := strings.Cut(o, ":")
				body += verifh.UnHex(h)
				if code == "1" {
					seps++
				}
			}
			rans += " d=" + verifh.Hex(body) + " seps=" + strconv.Itoa(seps)
		} else {
			rans += " d=" + verifh.Hex(bodyBufs[0].String()) + " seps=" + strconv.Itoa(strings.Count(outBufs[0].String(), "\r\n"))
			for i := 1; i < nd; i++ {
				if bodyBufs[i].String() != bodyBufs[0].String() || outBufs[i].String() != outBufs[0].String() {
					rok = false
				}
			}
		}
		cnt.add(s, fmt.Sprintf("reader-dumpers=%d", nd))
		s.Case(fmt.Sprintf("c13wrapr %s %d %s", verifh.Hex(data), c13B2i(ewd), verifh.IntList(caps)), rans, rok, "", len(data) > 64,
			fmt.Sprintf("reader %dB eofWithData=%v dumpers=%d caps=%v", len(data), ewd, nd, caps))
	}
	for _, must := range []string{"writer-kind=0", "writer-kind=1", "writer-kind=2", "short-write", "reader-dumpers=0", "reader-dumpers=2", "failing-sink-failed"} {
		if cnt[must] == 0 {
			t.Errorf("generator never reached bucket %q", must)
		}
	}
	s.Finish()
}

// TestVerif_C13_chan: the real Dumper.DumpTo / Start pair (async) and the synchronous path.
func TestVerif_C13_chan(t *testing.T) {
	s := verifh.New(t, "C13", "chan",
		"0..60 DumpTo calls (empty slices, several writers, the caller overwrites its buffer right after each call) on a started async dumper, flushed with a sentinel task, and on a synchronous dumper; the sequence of writes that reached the writers is compared with the model channel run to completion (capacity 20); plus an async dumper nobody started: <= 20 tasks are accepted and never written (model: unstarted channel); non-trivial = more events than the channel capacity")
	r := s.Rand()
	cnt := c13Counter{}
	n := verifh.N(300, 6000)
	flushTimeouts := 0
	for c := 0; c < n; c++ {
		k := r.Intn(8)
		if r.Intn(3) == 0 {
			k = 15 + r.Intn(46)
		}
		mode := verifh.Pick(r, []string{"async", "async", "sync", "unstarted"})
		if mode == "unstarted" && k > 20 {
			k = r.Intn(21) // a 21st DumpTo would block for ever (that is the model's claim too)
		}
		log := &c13Log{}
		d := newDumper(&DumpOptions{Output: io.Discard, Async: mode != "sync"})
		if mode == "async" {
			go d.Start()
		}
		var ws []int
		var ds []string
		for i := 0; i < k; i++ {
			w := 1 + r.Intn(3)
			data := verifh.RandBytes(r, r.Intn(5), "")
			ws, ds = append(ws, w), append(ds, data)
			buf := []byte(data)
			d.DumpTo(buf, &c13LogWriter{id: w, log: log})
			for j := range buf {
				buf[j] = 0xEE
			}
		}
		sched := "U"
		if mode != "unstarted" {
			sched = "S" + strings.Repeat("sr", k)
		} else {
			sched += strings.Repeat("sr", k)
		}
		if mode == "async" {
			done := make(chan struct{})
			d.DumpTo([]byte("x"), c13SignalWriter{done})
			wait := time.Second
			if flushTimeouts >= 3 { // delivery is broken: do not spend a second on every case
				wait = 10 * time.Millisecond
			}
			select {
			case <-done:
			case <-time.After(wait):
				flushTimeouts++
			}
			d.Stop()
		} else if mode == "unstarted" {
			time.Sleep(time.Millisecond)
		}
		var written []string
		log.mu.Lock()
		for _, e := range log.events {
			written = append(written, strconv.Itoa(e.w)+":"+verifh.Hex(e.data))
		}
		log.mu.Unlock()
		nonEmpty := 0
		for _, x := range ds {
			if x != "" {
				nonEmpty++
			}
		}
		ans := "written=-"
		if len(written) > 0 {
			ans = "written=" + strings.Join(written, ",")
		}
		if mode == "unstarted" {
			ans += fmt.Sprintf(" queued=%d unsent=0", nonEmpty)
		} else {
			ans += " queued=0 unsent=0"
		}
		capArg := "20"
		cnt.add(s, "chan-mode="+mode)
		if nonEmpty > 20 {
			cnt.add(s, "more-than-capacity")
		}
		s.Case(fmt.Sprintf("c13chan %s %s %s %s", capArg, verifh.IntList(ws), verifh.HexList(ds), sched), ans, true, "", nonEmpty > 20,
			fmt.Sprintf("chan mode=%s events=%d", mode, k))
	}
	for _, must := range []string{"chan-mode=async", "chan-mode=sync", "chan-mode=unstarted", "more-than-capacity"} {
		if cnt[must] == 0 {
			t.Errorf("generator never reached bucket %q", must)
		}
	}
	s.Finish()
}

// TestVerif_C13_preset: the convenience setters (Client.EnableDumpAll…, Request.EnableDump…),
// in random sequences, against the model's preset table: which parts end up enabled, Async,
// and the default writer.
func TestVerif_C13_preset(t *testing.T) {
	s := verifh.New(t, "C13", "preset",
		"sequences of 1..4 convenience setters on a fresh client (EnableDumpAll, …WithoutRequestBody, …WithoutResponseBody, …WithoutResponse, …WithoutRequest, …WithoutHeader, …WithoutBody, EnableDumpAllAsync, EnableDumpAllTo) or a fresh request (EnableDump, EnableDumpWithout…, EnableDumpTo); the flags / Async / Output() of the resulting dumper are compared with the model's presets folded over the default options; non-trivial = at least two setters")
	r := s.Rand()
	cnt := c13Counter{}
	log := &c13Log{}
	n := verifh.N(600, 20000)
	for c := 0; c < n; c++ {
		level := verifh.Pick(r, []string{"c", "r"})
		var seq []int
		for i, k := 0, 1+r.Intn(4); i < k; i++ {
			p := r.Intn(9)
			if p == 8 {
				p = 100 + r.Intn(5)
			}
			if level == "r" && p == 7 {
				p = 0 // no request-level async setter
			}
			seq = append(seq, p)
		}
		var d *dump.Dumper
		var defOut int
		var stop func()
		if level == "c" {
			cl := C()
			for _, p := range seq {
				switch p {
				case 0:
					cl.EnableDumpAll()
				case 1:
					cl.EnableDumpAllWithoutRequestBody()
				case 2:
					cl.EnableDumpAllWithoutResponseBody()
				case 3:
					cl.EnableDumpAllWithoutResponse()
				case 4:
					cl.EnableDumpAllWithoutRequest()
				case 5:
					cl.EnableDumpAllWithoutHeader()
				case 6:
					cl.EnableDumpAllWithoutBody()
				case 7:
					cl.EnableDumpAllAsync()
				default:
					cl.EnableDumpAllTo(&c13LogWriter{id: p, log: log})
				}
			}
			d, defOut = cl.Dump, 1000
			stop = func() { cl.DisableDumpAll() }
		} else {
			rq := C().R()
			for _, p := range seq {
				switch p {
				case 0:
					rq.EnableDump()
				case 1:
					rq.EnableDumpWithoutRequestBody()
				case 2:
					rq.EnableDumpWithoutResponseBody()
				case 3:
					rq.EnableDumpWithoutResponse()
				case 4:
					rq.EnableDumpWithoutRequest()
				case 5:
					rq.EnableDumpWithoutHeader()
				case 6:
					rq.EnableDumpWithoutBody()
				default:
					rq.EnableDumpTo(&c13LogWriter{id: p, log: log})
				}
			}
			d, _ = rq.Context().Value(dump.DumperKey).(*dump.Dumper)
			defOut = 30
			stop = func() {}
		}
		ans := "no-dumper"
		if d != nil {
			out := c13WriterID(d.Output())
			if b, ok := d.Output().(*bytes.Buffer); ok && b != nil {
				out = 30 // the request's own dump buffer
			}
			ans = fmt.Sprintf("%d %d %d %d async=%d out=%d", c13B2i(d.RequestHeader()), c13B2i(d.RequestBody()), c13B2i(d.ResponseHeader()), c13B2i(d.ResponseBody()), c13B2i(d.Async()), out)
		}
		stop()
		cnt.add(s, "preset-level="+level)
		s.Case(fmt.Sprintf("c13preset %d %s", defOut, verifh.IntList(seq)), ans, true, "", len(seq) > 1, fmt.Sprintf("level=%s setters=%v", level, seq))
	}
	for _, must := range []string{"preset-level=c", "preset-level=r"} {
		if cnt[must] == 0 {
			t.Errorf("generator never reached bucket %q", must)
		}
	}
	s.Finish()
}

// TestVerif_C13_life: the life cycle of the client-level dumper. Random sequences of the calls a
// user can make between requests — configure (sync / async), EnableDumpAllAsync, DisableDumpAll,
// Client.Clone — and then: does the live dumper still deliver what DumpTo is given?
func TestVerif_C13_life(t *testing.T) {
	s := verifh.New(t, "C13", "life",
		"sequences of 1..7 calls on a client, each result the client for the next call: SetCommonDumpOptions{Async false|true}+EnableDumpAll, EnableDumpAllAsync, DisableDumpAll, Client.Clone(); afterwards 30 DumpTo calls (more than the 20-slot queue) go to the live dumper from a goroutine and must all reach the writer, in order; compared with the model's life cycle (lifeRun: every live dumper has a running Start loop, theorem lifecycle_always_started); the first sequences are the fixed shapes [sync, Clone, async], [sync, Clone, EnableDumpAllAsync], [async, Clone, sync, async]; non-trivial = a Clone followed by a change of Async")
	r := s.Rand()
	cnt := c13Counter{}
	fixed := [][]int{{0, 4, 1}, {0, 4, 2}, {1, 4, 0, 1}, {0, 4, 4, 2}, {0, 3, 2, 4, 0, 1}}
	stuck := 0
	n := verifh.N(250, 5000)
	for c := 0; c < n; c++ {
		var ops []int
		if c < len(fixed) {
			ops = fixed[c]
		} else {
			for i, k := 0, 1+r.Intn(7); i < k; i++ {
				ops = append(ops, verifh.Pick(r, []int{0, 1, 2, 3, 4, 4}))
			}
		}
		cl := C()
		all := []*Client{cl}
		sink := &c13Log{}
		for _, op := range ops {
			switch op {
			case 0, 1:
				cl.SetCommonDumpOptions(&DumpOptions{Output: &c13LogWriter{id: 1, log: sink}, RequestHeader: true, Async: op == 1})
				cl.EnableDumpAll()
			case 2:
				if cl.Dump == nil {
					// keep stdout clean: give the client options with a writer first
					cl.SetCommonDumpOptions(&DumpOptions{Output: &c13LogWriter{id: 1, log: sink}, RequestHeader: true})
				}
				cl.EnableDumpAllAsync()
			case 3:
				cl.DisableDumpAll()
			case 4:
				cl = cl.Clone()
				all = append(all, cl)
			}
		}
		ans := "none"
		afterClone, changed := false, false
		for _, op := range ops {
			if op == 4 {
				afterClone = true
			} else if afterClone && (op == 1 || op == 2) {
				changed = true
			}
		}
		if d := cl.Dump; d != nil {
			log := &c13Log{}
			done := make(chan struct{})
			go func() { // blocks for ever if nobody drains a full queue
				for i := 0; i < 30; i++ {
					d.DumpTo([]byte{byte('a' + i%26)}, &c13LogWriter{id: 2, log: log})
				}
				d.DumpTo([]byte("!"), c13SignalWriter{done})
			}()
			wait := time.Second
			if stuck >= 3 {
				wait = 20 * time.Millisecond
			}
			delivered := 0
			select {
			case <-done:
				got := strings.Join(log.of(2), "")
				want := ""
				for i := 0; i < 30; i++ {
					want += string(rune('a' + i%26))
				}
				if got == want {
					delivered = 1
				}
			case <-time.After(wait):
				stuck++
			}
			ans = fmt.Sprintf("async=%d delivers=%d", c13B2i(d.Async()), delivered)
			cnt.add(s, fmt.Sprintf("async=%d", c13B2i(d.Async())))
		} else {
			cnt.add(s, "no-dumper")
		}
		for _, x := range all {
			c13StopDump(x)
		}
		if changed {
			cnt.add(s, "async-changed-after-clone")
		}
		s.Case("c13life "+verifh.IntList(ops), ans, true, "", changed, fmt.Sprintf("life ops=%v (0 sync, 1 async, 2 EnableDumpAllAsync, 3 DisableDumpAll, 4 Clone)", ops))
	}
	for _, must := range []string{"async=1", "async=0", "no-dumper", "async-changed-after-clone"} {
		if cnt[must] == 0 {
			t.Errorf("generator never reached bucket %q", must)
		}
	}
	s.Finish()
}
