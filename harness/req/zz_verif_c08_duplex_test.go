//go:build verif

package req

import (
	"context"
	"fmt"
	"io"
	"net/http"
	"net/http/httptest"
	"strings"
	"sync/atomic"
	"testing"
	"time"

	"github.com/imroc/req/v3/internal/verifh"
)

// c08Flood is an upload source that never runs dry and never blocks.
type c08Flood struct {
	reads  int64
	closes int32
}

func (f *c08Flood) Read(p []byte) (int, error) {
	if atomic.LoadInt32(&f.closes) > 0 {
		return 0, io.ErrClosedPipe
	}
	atomic.AddInt64(&f.reads, 1)
	for i := range p {
		p[i] = 'x'
	}
	return len(p), nil
}
func (f *c08Flood) Close() error { atomic.AddInt32(&f.closes, 1); return nil }

// TestVerif_C08_duplex_h2: an HTTP/2 exchange the lifecycle model does not cover (oracle only):
// the origin answers 200 before it has read the request body, RoundTrip returns, the upload
// goes on until the peer's flow-control window is exhausted and then waits for tokens. The
// context is cancelled (or its deadline passes) in that state, while the caller is reading the
// response body: the pending read has to return promptly with the context's error, the upload
// has to stop and the request body has to be closed.
func TestVerif_C08_duplex_h2(t *testing.T) {
	c08Mu.Lock()
	defer c08Mu.Unlock()
	s := verifh.New(t, "C08", "duplex_h2",
		"HTTP/2 full-duplex exchange against net/http's h2 server: the handler answers 200 at once and never reads the (endless) request body; once the upload source has not been asked for data for 200 ms (writer waiting for flow-control tokens) the context is cancelled / the event-driven deadline passes / Client.SetTimeout expires while the caller reads the response body; observed: error class of the pending read, time to return (bound 2 s), Close on the request body, reads after Close, follow-up request, library goroutines left; oracle only (the lifecycle model has no early response); non-trivial = the stalled state was reached")
	cnt := map[string]int{}
	count := func(k string) { cnt[k]++; s.Count(k) }
	kinds := []string{"canceled", "client-timeout"}
	if verifh.Thorough() {
		kinds = []string{"canceled", "deadline", "client-timeout"}
	}
	rounds := verifh.N(1, 4)
	for round := 0; round < rounds; round++ {
		for _, kind := range kinds {
			id := fmt.Sprintf("h2/duplex-stalled-upload/%s/%d", kind, round)
			base := len(c08Census())
			release := make(chan struct{})
			srv := httptest.NewUnstartedServer(http.HandlerFunc(func(w http.ResponseWriter, r *http.Request) {
				if strings.HasPrefix(r.URL.Path, "/plain") {
					io.WriteString(w, "ok")
					return
				}
				w.WriteHeader(200)
				w.(http.Flusher).Flush()
				select {
				case <-release:
				case <-r.Context().Done():
				}
			}))
			srv.EnableHTTP2 = true
			srv.Config.ErrorLog = nil
			srv.StartTLS()
			c := C().EnableInsecureSkipVerify().DisableAutoReadResponse()
			var ctx context.Context
			var inject func()
			clientTimeout := 1000 * time.Millisecond
			switch kind {
			case "canceled":
				cctx, cancel := context.WithCancel(context.Background())
				ctx, inject = cctx, cancel
			case "deadline":
				d := newC08DeadlineCtx()
				child, stop := context.WithCancel(d)
				defer stop()
				ctx, inject = child, func() { d.expire(); <-child.Done() }
			default:
				ctx, inject = context.Background(), nil
				c.SetTimeout(clientTimeout)
			}
			body := &c08Flood{}
			started := time.Now()
			resp, err := c.R().SetContext(ctx).SetBody(GetContentFunc(func() (io.ReadCloser, error) { return body, nil })).Post(srv.URL + "/duplex")
			if err != nil || resp.StatusCode != 200 || resp.Proto != "HTTP/2.0" {
				close(release)
				srv.Close()
				s.Observe(id, false, "", true, id, fmt.Sprintf("the full-duplex exchange did not get its early response: err=%v", err))
				continue
			}
			// the writer is waiting for flow control once the source is not asked for data any more
			last, stable := int64(-1), 0
			for stable < 10 && time.Since(started) < 900*time.Millisecond {
				time.Sleep(20 * time.Millisecond)
				n := atomic.LoadInt64(&body.reads)
				if n == last {
					stable++
				} else {
					stable = 0
				}
				last = n
			}
			if stable < 10 {
				count("stall-not-reached")
				close(release)
				resp.Body.Close()
				srv.CloseClientConnections()
				srv.Close()
				continue
			}
			count("stalled")
			var firedAt time.Time
			if inject != nil {
				firedAt = time.Now()
				inject()
			} else {
				firedAt = started.Add(clientTimeout)
			}
			done := make(chan error, 1)
			go func() {
				_, err := resp.Body.Read(make([]byte, 16))
				done <- err
			}()
			var rerr error
			var elapsed time.Duration
			pending := false
			limit := c08Bound + 300*time.Millisecond
			if inject == nil {
				limit += clientTimeout
			}
			select {
			case rerr = <-done:
				elapsed = time.Since(firedAt)
			case <-time.After(limit):
				pending = true
				elapsed = time.Since(firedAt)
			}
			res := c08Class(rerr)
			readsAtReturn := atomic.LoadInt64(&body.reads)
			// wind down (also frees a still pending read)
			resp.Body.Close()
			if pending {
				<-done
			}
			c08WaitFor(c08Bound/2, func() bool { return atomic.LoadInt32(&body.closes) > 0 })
			time.Sleep(20 * time.Millisecond)
			closes := int(atomic.LoadInt32(&body.closes))
			readsAfter := atomic.LoadInt64(&body.reads) - readsAtReturn
			fresp, ferr := c.R().Get(srv.URL + "/plain")
			if ferr == nil {
				io.Copy(io.Discard, fresp.Body)
				fresp.Body.Close()
			}
			close(release)
			c.GetTransport().CloseIdleConnections()
			leak := c08Settle(base, c08Bound+time.Second)
			srv.CloseClientConnections()
			srv.Close()

			want := kind
			if kind == "client-timeout" {
				want = "deadline"
			}
			var failed []string
			if pending {
				failed = append(failed, fmt.Sprintf("body-read-still-pending(%v)", elapsed.Round(time.Millisecond)))
			} else {
				if res != want {
					failed = append(failed, "error-class="+res)
				}
				if elapsed > c08Bound {
					failed = append(failed, fmt.Sprintf("not-prompt(%v)", elapsed.Round(time.Millisecond)))
				}
			}
			if closes == 0 {
				failed = append(failed, "request-body-not-closed")
			}
			if !pending && readsAfter > 2 {
				failed = append(failed, fmt.Sprintf("upload-went-on(%d reads)", readsAfter))
			}
			if ferr != nil {
				failed = append(failed, "follow-up-failed:"+c08Class(ferr))
			}
			if len(leak) > 0 {
				failed = append(failed, "goroutines-left:"+c08TopFrames(leak))
			}
			class := ""
			if pending {
				// recorded defect: nobody wakes the flow-control wait when the context ends
				// after RoundTrip has returned — and the symptoms that come with the stuck writer
				class = "h2-cancel-unnoticed-while-upload-waits-for-flow-control"
			}
			count("res=" + res)
			human := fmt.Sprintf("h2 early 200, upload stalled on flow control after %d reads, %s while reading the body -> read returned %s after %v, body closes=%d",
				last, kind, res, elapsed.Round(time.Millisecond), closes)
			if len(failed) > 0 {
				human += " FAILED: " + strings.Join(failed, ", ")
			}
			s.Observe(id, len(failed) == 0, class, true, human, strings.Join(failed, ", "))
		}
	}
	if cnt["stalled"] == 0 {
		t.Errorf("the stalled-upload state was never reached")
	}
	s.Finish()
}
