//go:build verif

package req

// Lane c12proxy (loopback e2e, sequential): the real client with a proxy configured
// (SetProxyURL: in-process HTTP proxy — CONNECT tunnels and absolute-form forwarding — or the
// SOCKS5 stub; proxy up / down / refusing the tunnel) against the loopback origins of the
// C12 world. Each request is compared with Dispatch.routeP + viaProxy (driver lane c12proxy)
// and judged by the oracle of lane c12e2e (forced => that version; unacceptable => never
// accepted; acceptable => never TLS-rejected; ...), plus: a plain request through an HTTP
// proxy arrives there in absolute-form; an un-forced / forced-h1 request with a working
// proxy goes THROUGH it.

import (
	"context"
	"fmt"
	"net"
	"strings"
	"sync/atomic"
	"testing"

	"github.com/imroc/req/v3/internal/verifh"
)

type c12PxCell struct {
	cell  c12Cell
	px    string // http | socks5 | https (the HTTP proxy behind TLS: two TLS hops per connection)
	state string // ok | down | refuse
}

func (p c12PxCell) String() string {
	return fmt.Sprintf("proxy=%s(%s) %s", p.px, p.state, p.cell.String())
}

func c12ProxyCells() []c12PxCell {
	var out []c12PxCell
	tlsByName := map[string]c12TLS{}
	for _, tc := range c12TLSCells {
		tlsByName[tc.name] = tc
	}
	for _, px := range []string{"http", "socks5", "https"} {
		for _, force := range []string{"-", "1", "2", "3"} {
			h3ons := []bool{false}
			if force == "-" {
				h3ons = []bool{false, true}
			}
			for _, h3on := range h3ons {
				for _, offer := range []string{"h1", "h2h1", "all", "alt", "mtls"} {
					for _, tn := range []string{"private-root", "servername-mismatch", "servername-override", "wrong-root", "insecure", "mtls-cert", "mtls-no-cert"} {
						tc := tlsByName[tn]
						if tc.mtls != (offer == "mtls") {
							continue
						}
						for _, custom := range []string{"none", "fp"} {
							if custom == "fp" && tn == "mtls-no-cert" {
								// under TLS 1.3 the origin's rejection of a missing client certificate arrives after
								// the handshake function has returned: its reported outcome (an input of the route
								// model) says nothing then; the built-in handshake covers this cell
								continue
							}
							for _, kind := range []string{"fresh", "clone"} {
								for _, state := range []string{"ok", "down", "refuse"} {
									if state != "ok" && (tc.mtls || custom != "none" || kind != "fresh") {
										continue
									}
									if px == "https" && (state != "ok" || custom != "none") {
										// class "two TLS hops on one connection" (round 7): every force x offer x TLS cell x
										// {fresh, clone} with the built-in handshake and the proxy up
										continue
									}
									cell := c12Cell{force: force, h3on: h3on, offer: offer, tls: tc, how: "helpers-string", kind: kind, custom: custom, scheme: "https"}
									if custom == "fp" {
										cell.cTrust, cell.cProtos = "-", "-"
									}
									out = append(out, c12PxCell{cell, px, state})
								}
							}
						}
					}
				}
			}
			if px == "https" {
				continue // plain http through the https proxy: the TLS cell would govern the hop to the proxy only
			}
			// plain http
			for _, offer := range []string{"plain", "h2c"} {
				for _, h2c := range []bool{false, true} {
					for _, state := range []string{"ok", "down"} {
						if px == "http" && offer == "h2c" && (force == "-" || force == "1") {
							continue // an HTTP proxy forwards HTTP/1.1: an h2c-only origin behind it is no meaningful cell
						}
						cell := c12Cell{force: force, offer: offer, tls: c12TLSCells[0], how: "helpers-string", kind: "fresh", custom: "none", scheme: "http", h2c: h2c}
						out = append(out, c12PxCell{cell, px, state})
					}
				}
			}
		}
	}
	return out
}

func TestVerif_C12_proxy(t *testing.T) {
	s := verifh.New(t, "C12", "c12proxy",
		"matrix {HTTP proxy (CONNECT / absolute-form), SOCKS5} x proxy {up, down, refusing the tunnel} x {force h1,h2,h3,none (+EnableHTTP3)} x origin {h1-only TLS, h2+h1, h2+h1+h3, +Alt-Svc (second request after the upgrade was learned), client-cert-requiring, clear-text h1, h2c} x TLS {private root, wrong name, ServerName override, untrusted root, InsecureSkipVerify, client cert ok / missing} x {built-in handshake, SetTLSFingerprintChrome} x {fresh, clone}; per request: Response.Proto, protocol/SNI/client certificate seen by the origin, error kind, and whether the proxy was contacted; quick = a seeded sample that covers every (proxy, state, force), every (TLS cell, handshake) and every (offer, force); non-trivial = every request")
	w, err := c12StartWorld()
	if err != nil {
		t.Fatalf("infrastructure: %v", err)
	}
	defer w.close()
	hp, err := c12StartHTTPProxy()
	if err != nil {
		t.Fatalf("infrastructure: %v", err)
	}
	defer hp.close()
	hpRefuse, err := c12StartHTTPProxy()
	if err != nil {
		t.Fatalf("infrastructure: %v", err)
	}
	defer hpRefuse.close()
	hpRefuse.refuse.Store(true)
	hps, err := c12StartHTTPSProxy()
	if err != nil {
		t.Fatalf("infrastructure: %v", err)
	}
	defer hps.close()
	sp, err := c12StartSocks()
	if err != nil {
		t.Fatalf("infrastructure: %v", err)
	}
	defer sp.close()
	spRefuse, err := c12StartSocks()
	if err != nil {
		t.Fatalf("infrastructure: %v", err)
	}
	defer spRefuse.close()
	spRefuse.refuse.Store(true)
	// a port nobody listens on
	dl, err := net.Listen("tcp", "127.0.0.1:0")
	if err != nil {
		t.Fatalf("infrastructure: %v", err)
	}
	downAddr := dl.Addr().String()
	dl.Close()
	dir := t.TempDir()
	c12WriteCAFiles(dir)

	all := c12ProxyCells()
	cells := all
	if !verifh.Thorough() {
		r := s.Rand()
		idx := r.Perm(len(all))
		covered := map[string]bool{}
		var picked []c12PxCell
		for _, i := range idx {
			c := all[i]
			keys := []string{
				"a:" + c.px + "/" + c.state + "/" + c.cell.force + fmt.Sprint(c.cell.h3on),
				"b:" + c.cell.tls.name + "/" + c.cell.custom + "/" + c.px,
				"c:" + c.cell.offer + "/" + c.cell.force,
				"d:" + c.cell.kind + "/" + c.cell.custom + "/" + c.cell.force,
				"e:" + c.cell.scheme + "/" + c.px + "/" + c.cell.force + fmt.Sprint(c.cell.h2c),
				"f:" + c.cell.offer + "/" + fmt.Sprint(c.cell.h3on) + "/" + c.state + "/" + c.px,
			}
			nw := false
			for _, k := range keys {
				if !covered[k] {
					nw = true
				}
			}
			if nw {
				for _, k := range keys {
					covered[k] = true
				}
				picked = append(picked, c)
			}
		}
		used := map[string]bool{}
		for _, c := range picked {
			used[c.String()] = true
		}
		for _, i := range idx {
			if len(picked) >= 170 {
				break
			}
			if !used[all[i].String()] {
				picked = append(picked, all[i])
			}
		}
		cells = picked
	}
	c12Count(s, fmt.Sprintf("cells-total-%d", len(all)))
	var steps []*c12Step
	var fpAlt []string // per step: the TLS cell when the fingerprint handshake governs the connection, else ""
	for _, pc := range cells {
		cell := pc.cell
		id := c12CellSeq.Add(1)
		var tcpDials atomic.Int64
		rec := &c12CustomRec{}
		mk := func() *Client {
			c := C()
			c.SetDial(func(ctx context.Context, network, addr string) (net.Conn, error) {
				tcpDials.Add(1)
				var d net.Dialer
				return d.DialContext(ctx, network, addr)
			})
			if cell.h2c {
				c.EnableH2C()
			}
			if cell.h3on {
				c.EnableHTTP3()
			}
			c12ForceApply(c, cell.force)
			c12ApplyTLS(c, cell.tls, cell.how, dir)
			if cell.custom != "none" {
				c12InstallCustom(c, cell, rec)
			}
			addr := ""
			switch pc.px + "/" + pc.state {
			case "http/ok":
				addr = "http://" + hp.addr
			case "http/refuse":
				addr = "http://" + hpRefuse.addr
			case "http/down":
				addr = "http://" + downAddr
			case "https/ok":
				addr = "https://" + hps.addr
			case "socks5/ok":
				addr = "socks5://" + sp.addr
			case "socks5/refuse":
				addr = "socks5://" + spRefuse.addr
			case "socks5/down":
				addr = "socks5://" + downAddr
			}
			c.SetProxyURL(addr)
			return c
		}
		c := mk()
		if cell.kind == "clone" {
			c = c.Clone()
		}
		c12WrapHandshake(c, rec)
		contacted := func() int64 {
			return hp.connects.Load() + hp.forwards.Load() + hpRefuse.connects.Load() + hpRefuse.forwards.Load() + sp.connects.Load() + spRefuse.connects.Load() + hps.accepts.Load()
		}
		// the model's proxy kinds are {http, socks5}: an https proxy is the HTTP (CONNECT) proxy reached over
		// TLS; the driver reads "https" as that kind (the hop to the proxy is governed by the same settings
		// and the proxy's certificate is acceptable under exactly the cells the origin's is)
		pxTok := fmt.Sprintf("%s:%s:%s", pc.px, c12B(pc.state != "down"), c12B(pc.state == "ok"))
		h3 := cell.h3on || cell.force == "3"
		o := w.origins[cell.offer][int(id)%2]
		do := func(st c12ReqState, tag string) *c12Step {
			before := contacted()
			fwBefore := hp.forwards.Load()
			step := c12Request(c, o, cell, cell.force, h3, cell.tls, c12HowProtos(cell.how), rec, st, fmt.Sprintf("/x%d/%s", id, tag), &tcpDials)
			via := "0"
			if contacted() != before {
				via = "1"
			}
			if pc.state == "down" {
				via = "-"
			}
			if pc.state != "ok" && strings.HasPrefix(step.why, "plain http request failed") {
				// c12e2e's oracle does not know about the proxy: with the proxy down the failure is right
				step.propOK, step.why = true, ""
			}
			step.line = "c12proxy " + pxTok + " " + strings.Join(step.args, " ")
			step.impl += " via=" + via
			step.human = pc.String() + " ; request " + tag + " to " + o.offer.String()
			// oracle additions
			complain := func(f string, a ...interface{}) {
				step.propOK = false
				if step.why == "" {
					step.why = fmt.Sprintf(f, a...)
				}
			}
			if cell.scheme == "http" && pc.px == "http" && pc.state == "ok" && (cell.force == "-" || cell.force == "1") {
				if !strings.HasPrefix(step.impl, "ok:h1") {
					complain("plain http through a working HTTP proxy must be answered over HTTP/1.1, got %s", step.impl)
				} else if hp.forwards.Load() == fwBefore {
					complain("plain http with an HTTP proxy configured did not reach the proxy")
				} else if !hp.sawTarget("GET http://") {
					complain("the HTTP proxy did not receive the request in absolute-form")
				}
			}
			if pc.state == "ok" && (cell.force == "-" || cell.force == "1") && !st.alt && !st.cachedH2 && !st.cachedH3 && strings.HasPrefix(step.impl, "ok:") && via != "1" {
				complain("a proxy is configured and working, the request needed a new connection on the HTTP/1.1 dial path, yet it did not go through the proxy")
			}
			if pc.state != "ok" && (cell.force == "-" || cell.force == "1") && !st.alt && strings.HasPrefix(step.impl, "ok:") {
				complain("the proxy is %s, yet the request succeeded (%s): it was silently sent directly", pc.state, step.impl)
			}
			c12Count(s, "via="+via)
			c12Count(s, "impl:"+strings.SplitN(step.impl, " ", 2)[0])
			steps = append(steps, &step)
			alt := ""
			if cell.custom == "fp" && cell.scheme == "https" && cell.force != "3" && !(st.alt && h3) {
				alt = cell.tls.name // the fingerprint handshake governs this connection
			}
			fpAlt = append(fpAlt, alt)
			return &step
		}
		s0 := do(c12ReqState{}, "s0")
		if cell.h3on && cell.force == "-" && o.offer.altSvc && strings.HasPrefix(s0.impl, "ok:") && pc.state == "ok" {
			st := c12ReqState{cachedH2: strings.HasPrefix(s0.impl, "ok:h2")}
			st.alt = c12WaitAlt(c.GetTransport(), o.url(cell.scheme, "/"))
			do(st, "s1")
			c12Count(s, "second-request-after-altsvc")
		}
		c12Count(s, "proxy="+pc.px+"/"+pc.state)
		c12Count(s, "force="+cell.force)
		c12Count(s, "custom="+cell.custom)
		c12Count(s, "tls="+cell.tls.name)
		if tr := c.GetTransport(); tr != nil {
			tr.CloseIdleConnections()
			if tr.t3 != nil {
				tr.t3.Close()
			}
		}
	}
	for i, st := range steps {
		human := st.human
		if st.why != "" {
			human += " ; ORACLE: " + st.why
		}
		if st.panicTx != "" {
			s.Crash(st.line, human, st.panicTx, "")
			continue
		}
		class := ""
		if fpAlt[i] != "" && c12FpKnown(fpAlt[i], st) {
			class = "fingerprint-ignores-servername-certs"
			c12Count(s, "known:fingerprint-ignores-servername-certs")
		}
		s.Case(st.line, st.impl, st.propOK, class, true, human)
	}
	for _, must := range []string{"proxy=http/ok", "proxy=http/down", "proxy=http/refuse", "proxy=socks5/ok", "proxy=socks5/down", "proxy=socks5/refuse", "proxy=https/ok",
		"force=-", "force=1", "force=2", "force=3", "custom=fp", "via=0", "via=1", "via=-", "impl:ok:h1", "impl:ok:h2", "impl:err:tls", "impl:err:other",
		"tls=servername-mismatch", "tls=wrong-root", "tls=insecure", "tls=mtls-cert", "tls=mtls-no-cert", "second-request-after-altsvc"} {
		if c12Hist[s][must] == 0 {
			t.Errorf("matrix never reached bucket %q", must)
		}
	}
	s.Finish()
}

// c12FpKnown: the oracle's complaint is exactly what the un-repaired fingerprint closure
// (Req.Pool.TLS.fpCopiedUnpatched: ServerName taken from the dialled host, no client
// certificate handed to uTLS) produces for this TLS cell — and nothing else:
//   ServerName override  -> verified against 127.0.0.1 (an IP SAN of the origin): accepted, SNI not the override
//   wrong ServerName     -> accepted although the name cannot match
//   client cert required -> no certificate sent: rejected although acceptable
func c12FpKnown(tlsName string, st *c12Step) bool {
	ok := strings.HasPrefix(st.impl, "ok:")
	switch tlsName {
	case "servername-override":
		return ok && strings.Contains(st.why, "ServerName override")
	case "servername-mismatch":
		return ok && strings.Contains(st.why, "unacceptable under the settings in force, yet accepted")
	case "mtls-cert":
		// the origin's rejection surfaces as a TLS alert, a reset or an EOF depending on the stack
		return !ok && st.impl != "crash" && !strings.HasPrefix(st.impl, "hang")
	}
	return false
}
