//go:build verif

package req

import (
	"bufio"
	"bytes"
	"context"
	"crypto/tls"
	"encoding/json"
	"fmt"
	"io"
	"math"
	"mime"
	"net"
	"net/http"
	"net/http/httptest"
	"net/url"
	"strconv"
	"strings"
	"sync"
	"testing"
	"time"

	"github.com/quic-go/quic-go"
	qhttp3 "github.com/quic-go/quic-go/http3"
	xhttp2 "golang.org/x/net/http2"
	"golang.org/x/net/http2/hpack"

	"github.com/imroc/req/v3/internal/verifh"
)

// ---- origins that answer EARLY: before the upload has finished ---------------------------------
//
// One case = one request on a fresh client and connection. The origin reads `at` bytes of the
// request body, sends the EARLY part of its response (interim 1xx responses, the final status
// line / HEADERS with or without a declared length, none / part / all of the response body,
// possibly the end of the response, possibly a request to stop sending), waits `pause` — during
// which the client cannot make progress with the upload because the origin's flow-control window
// (HTTP/2: SETTINGS_INITIAL_WINDOW_SIZE, HTTP/3: QUIC stream window, HTTP/1.1: a byte gate inside
// the client's connection standing in for a full TCP window) is exhausted — then opens the window
// and reads on until the request body ends, the client resets / closes, or nothing arrives for
// `stall`. Finally it sends whatever was still missing from the response.

type c17EarlyCase struct {
	proto   string
	at      int    // request-body bytes read before answering
	interim []int  // 1xx responses sent first
	status  int    // final status sent early (0: only the interim responses are early)
	declare string // "none" | "zero" | "len": Content-Length of the response
	resp    []byte // complete response body
	early   string // "interim" | "headers" | "partial" | "complete"
	release string // after a complete early response: "" | "noerror" | "cancel" (h2 RST_STREAM) | "close" (h1: the origin closes)
	window  int
	pause   time.Duration
	stall   time.Duration

	mu        sync.Mutex
	gate      *c17GateConn
	got       []byte // request body bytes that arrived
	ended     bool   // the request body ended cleanly (END_STREAM / FIN / last chunk / declared length reached)
	stalled   bool
	clientRST string
	readErr   string
	ctype     string
	clen      string
	done      chan struct{}
}

func (k *c17EarlyCase) earlyBody() []byte {
	switch k.early {
	case "partial":
		return k.resp[:len(k.resp)/2]
	case "complete":
		return k.resp
	}
	return nil
}

func (k *c17EarlyCase) finish() {
	select {
	case <-k.done:
	default:
		close(k.done)
	}
}

// c17GateConn: the client side of an HTTP/1.1 connection whose Write blocks once `allowed` bytes
// have been written, until the gate is opened (a deterministic stand-in for a full TCP window).
type c17GateConn struct {
	net.Conn
	mu      sync.Mutex
	cond    *sync.Cond
	allowed int64
	written int64
	closed  bool
}

func c17NewGate(c net.Conn, allowed int64) *c17GateConn {
	g := &c17GateConn{Conn: c, allowed: allowed}
	g.cond = sync.NewCond(&g.mu)
	return g
}

func (g *c17GateConn) Write(p []byte) (int, error) {
	total := 0
	for len(p) > 0 {
		g.mu.Lock()
		for g.written >= g.allowed && !g.closed {
			g.cond.Wait()
		}
		if g.closed {
			g.mu.Unlock()
			return total, net.ErrClosed
		}
		n := int64(len(p))
		if room := g.allowed - g.written; n > room {
			n = room
		}
		g.mu.Unlock()
		m, err := g.Conn.Write(p[:n])
		g.mu.Lock()
		g.written += int64(m)
		g.mu.Unlock()
		total += m
		p = p[m:]
		if err != nil {
			return total, err
		}
	}
	return total, nil
}

func (g *c17GateConn) open() {
	g.mu.Lock()
	g.allowed = math.MaxInt64
	g.cond.Broadcast()
	g.mu.Unlock()
}

func (g *c17GateConn) Close() error {
	g.mu.Lock()
	g.closed = true
	g.cond.Broadcast()
	g.mu.Unlock()
	return g.Conn.Close()
}

// c17EarlyOrigins: one listener per protocol; the case to play is armed before each request.
type c17EarlyOrigins struct {
	mu    sync.Mutex
	cur   *c17EarlyCase
	h1ln  net.Listener
	h2ln  net.Listener
	h3    *qhttp3.Server
	h3pc  net.PacketConn
	h3tls *httptest.Server
}

func (o *c17EarlyOrigins) arm(k *c17EarlyCase) {
	o.mu.Lock()
	o.cur = k
	o.mu.Unlock()
}

func (o *c17EarlyOrigins) current() *c17EarlyCase {
	o.mu.Lock()
	defer o.mu.Unlock()
	return o.cur
}

const c17EarlyH3Window = 16384

func c17NewEarlyOrigins() *c17EarlyOrigins {
	o := &c17EarlyOrigins{}
	var err error
	if o.h1ln, err = net.Listen("tcp", "127.0.0.1:0"); err != nil {
		panic(err)
	}
	if o.h2ln, err = net.Listen("tcp", "127.0.0.1:0"); err != nil {
		panic(err)
	}
	accept := func(ln net.Listener, serve func(net.Conn, *c17EarlyCase)) {
		for {
			conn, err := ln.Accept()
			if err != nil {
				return
			}
			go func() {
				defer conn.Close()
				if k := o.current(); k != nil {
					serve(conn, k)
				}
			}()
		}
	}
	go accept(o.h1ln, c17EarlyServeH1)
	go accept(o.h2ln, c17EarlyServeH2)
	o.h3tls = httptest.NewUnstartedServer(http.NotFoundHandler())
	o.h3tls.StartTLS() // only to borrow its certificate
	if o.h3pc, err = net.ListenPacket("udp", "127.0.0.1:0"); err != nil {
		panic(err)
	}
	o.h3 = &qhttp3.Server{
		Handler: http.HandlerFunc(func(w http.ResponseWriter, r *http.Request) {
			if k := o.current(); k != nil && strings.HasPrefix(r.URL.Path, "/early") {
				c17EarlyServeH3(w, r, k)
			}
		}),
		TLSConfig: qhttp3.ConfigureTLSConfig(&tls.Config{Certificates: o.h3tls.TLS.Certificates}),
		QUICConfig: &quic.Config{InitialStreamReceiveWindow: c17EarlyH3Window, MaxStreamReceiveWindow: c17EarlyH3Window,
			InitialConnectionReceiveWindow: 2 * c17EarlyH3Window, MaxConnectionReceiveWindow: 2 * c17EarlyH3Window},
	}
	go o.h3.Serve(o.h3pc)
	return o
}

func (o *c17EarlyOrigins) stop() {
	o.h1ln.Close()
	o.h2ln.Close()
	o.h3.Close()
	o.h3pc.Close()
	o.h3tls.Close()
}

func (o *c17EarlyOrigins) base(proto string) string {
	switch proto {
	case "h1":
		return "http://" + o.h1ln.Addr().String()
	case "h2":
		return "http://" + o.h2ln.Addr().String()
	}
	return "https://" + o.h3pc.LocalAddr().String()
}

func c17StatusText(code int) string {
	if t := http.StatusText(code); t != "" {
		return t
	}
	return "Status"
}

// HTTP/1.1: raw TCP peer; the request is parsed by net/http's own server-side reader.
func c17EarlyServeH1(conn net.Conn, k *c17EarlyCase) {
	defer k.finish()
	conn.SetDeadline(time.Now().Add(40 * time.Second))
	br := bufio.NewReader(conn)
	req, err := http.ReadRequest(br)
	if err != nil {
		k.readErr = "head: " + err.Error()
		return
	}
	k.ctype, k.clen = req.Header.Get("Content-Type"), req.Header.Get("Content-Length")
	first := make([]byte, k.at)
	n, err := io.ReadFull(req.Body, first)
	k.got = append(k.got, first[:n]...)
	if err != nil {
		k.readErr = "before answering: " + err.Error()
		return
	}
	var out bytes.Buffer
	for _, code := range k.interim {
		fmt.Fprintf(&out, "HTTP/1.1 %d %s\r\n", code, c17StatusText(code))
		if code == 103 {
			out.WriteString("Link: </style.css>; rel=preload\r\n")
		}
		out.WriteString("\r\n")
	}
	chunked := false
	writeHead := func(w *bytes.Buffer, status int) {
		fmt.Fprintf(w, "HTTP/1.1 %d %s\r\n", status, c17StatusText(status))
		switch {
		case status == 204 || status == 304:
		case k.declare == "none":
			chunked = true
			w.WriteString("Transfer-Encoding: chunked\r\n")
		default:
			fmt.Fprintf(w, "Content-Length: %d\r\n", len(k.resp))
		}
		if k.release == "close" {
			w.WriteString("Connection: close\r\n")
		}
		w.WriteString("\r\n")
	}
	writeBody := func(w *bytes.Buffer, b []byte, last bool) {
		if !chunked {
			w.Write(b)
			return
		}
		if len(b) > 0 {
			fmt.Fprintf(w, "%x\r\n%s\r\n", len(b), b)
		}
		if last {
			w.WriteString("0\r\n\r\n")
		}
	}
	if k.status != 0 {
		writeHead(&out, k.status)
		writeBody(&out, k.earlyBody(), k.early == "complete")
	}
	conn.Write(out.Bytes())
	if k.release == "close" {
		// the origin is done with this exchange: it closes (its side of) the connection
		if tc, ok := conn.(*net.TCPConn); ok {
			tc.CloseWrite()
		}
	}
	time.Sleep(k.pause)
	k.mu.Lock()
	g := k.gate
	k.mu.Unlock()
	if g != nil {
		g.open()
	}
	buf := make([]byte, 64<<10)
	for {
		conn.SetReadDeadline(time.Now().Add(k.stall))
		n, err := req.Body.Read(buf)
		k.got = append(k.got, buf[:n]...)
		if err == io.EOF {
			k.ended = true
			break
		}
		if err != nil {
			if ne, ok := err.(net.Error); ok && ne.Timeout() {
				k.stalled = true
			} else {
				k.readErr = err.Error()
			}
			break
		}
	}
	conn.SetDeadline(time.Now().Add(10 * time.Second))
	if k.release == "close" {
		return
	}
	out.Reset()
	if k.status == 0 {
		writeHead(&out, 200)
		writeBody(&out, k.resp, true)
	} else if k.early != "complete" {
		writeBody(&out, k.resp[len(k.earlyBody()):], true)
	}
	conn.Write(out.Bytes())
	k.finish()
	io.Copy(io.Discard, conn) // until the client lets go of the connection
}

// HTTP/2: prior-knowledge frame peer on x/net/http2.Framer.
func c17EarlyServeH2(conn net.Conn, k *c17EarlyCase) {
	defer k.finish()
	conn.SetDeadline(time.Now().Add(40 * time.Second))
	preface := make([]byte, len(xhttp2.ClientPreface))
	if _, err := io.ReadFull(conn, preface); err != nil {
		k.readErr = "preface: " + err.Error()
		return
	}
	fr := xhttp2.NewFramer(conn, conn)
	fr.ReadMetaHeaders = hpack.NewDecoder(4096, nil)
	fr.WriteSettings(xhttp2.Setting{ID: xhttp2.SettingInitialWindowSize, Val: uint32(k.window)})
	fr.WriteWindowUpdate(0, 1<<30)
	var hbuf bytes.Buffer
	enc := hpack.NewEncoder(&hbuf)
	headers := func(id uint32, end bool, kv ...string) {
		hbuf.Reset()
		for i := 0; i+1 < len(kv); i += 2 {
			enc.WriteField(hpack.HeaderField{Name: kv[i], Value: kv[i+1]})
		}
		fr.WriteHeaders(xhttp2.HeadersFrameParam{StreamID: id, BlockFragment: hbuf.Bytes(), EndHeaders: true, EndStream: end})
	}
	finalHeaders := func(id uint32, status int, end bool) {
		kv := []string{":status", strconv.Itoa(status)}
		if k.declare != "none" && status != 204 && status != 304 {
			kv = append(kv, "content-length", strconv.Itoa(len(k.resp)))
		}
		headers(id, end, kv...)
	}
	var id uint32
	fired, respEnded := false, false
	fire := func() {
		fired = true
		for _, code := range k.interim {
			if code == 103 {
				headers(id, false, ":status", "103", "link", "</style.css>; rel=preload")
			} else {
				headers(id, false, ":status", strconv.Itoa(code))
			}
		}
		if k.status != 0 {
			eb := k.earlyBody()
			complete := k.early == "complete"
			finalHeaders(id, k.status, complete && len(eb) == 0)
			if len(eb) > 0 {
				fr.WriteData(id, complete, eb)
			}
			respEnded = complete
			switch k.release {
			case "noerror":
				fr.WriteRSTStream(id, xhttp2.ErrCodeNo)
			case "cancel":
				fr.WriteRSTStream(id, xhttp2.ErrCodeCancel)
			}
		}
		time.Sleep(k.pause)
		fr.WriteWindowUpdate(id, 1<<30)
	}
loop:
	for {
		if fired {
			conn.SetReadDeadline(time.Now().Add(k.stall))
		}
		f, err := fr.ReadFrame()
		if err != nil {
			if ne, ok := err.(net.Error); ok && ne.Timeout() {
				k.stalled = true
			} else {
				k.readErr = err.Error()
			}
			break
		}
		switch f := f.(type) {
		case *xhttp2.SettingsFrame:
			if !f.IsAck() {
				fr.WriteSettingsAck()
			}
		case *xhttp2.PingFrame:
			if !f.IsAck() {
				fr.WritePing(true, f.Data)
			}
		case *xhttp2.MetaHeadersFrame:
			id = f.StreamID
			for _, hf := range f.Fields {
				switch hf.Name {
				case "content-type":
					k.ctype = hf.Value
				case "content-length":
					k.clen = hf.Value
				}
			}
			if f.StreamEnded() {
				k.ended = true
				break loop
			}
			if k.at == 0 {
				fire()
			}
		case *xhttp2.DataFrame:
			k.got = append(k.got, f.Data()...)
			if f.StreamEnded() {
				k.ended = true
				break loop
			}
			if !fired && len(k.got) >= k.at {
				fire()
			}
		case *xhttp2.RSTStreamFrame:
			k.clientRST = f.ErrCode.String()
			break loop
		}
	}
	conn.SetDeadline(time.Now().Add(10 * time.Second))
	if k.release == "" && !respEnded && k.readErr == "" {
		if !fired || k.status == 0 {
			finalHeaders(id, 200, len(k.resp) == 0)
			if len(k.resp) > 0 {
				fr.WriteData(id, true, k.resp)
			}
		} else {
			fr.WriteData(id, true, k.resp[len(k.earlyBody()):])
		}
	}
	if k.clientRST == "" && !k.ended {
		// what does the client say once the response is complete?
		conn.SetReadDeadline(time.Now().Add(300 * time.Millisecond))
		for {
			f, err := fr.ReadFrame()
			if err != nil {
				break
			}
			if r, ok := f.(*xhttp2.RSTStreamFrame); ok {
				k.clientRST = r.ErrCode.String()
				break
			}
		}
		conn.SetDeadline(time.Now().Add(10 * time.Second))
	}
	k.finish()
	io.Copy(io.Discard, conn)
}

// HTTP/3: quic-go's server with 16 KiB stream windows.
func c17EarlyServeH3(w http.ResponseWriter, r *http.Request, k *c17EarlyCase) {
	defer k.finish()
	k.ctype, k.clen = r.Header.Get("Content-Type"), r.Header.Get("Content-Length")
	first := make([]byte, k.at)
	n, err := io.ReadFull(r.Body, first)
	k.got = append(k.got, first[:n]...)
	if err != nil {
		k.readErr = "before answering: " + err.Error()
		return
	}
	for _, code := range k.interim {
		if code == 103 {
			w.Header().Set("Link", "</style.css>; rel=preload")
		}
		w.WriteHeader(code)
		w.Header().Del("Link")
	}
	fl, _ := w.(http.Flusher)
	if k.status != 0 {
		if k.declare != "none" && k.status != 204 && k.status != 304 {
			w.Header().Set("Content-Length", strconv.Itoa(len(k.resp)))
		}
		w.WriteHeader(k.status)
		if eb := k.earlyBody(); len(eb) > 0 {
			w.Write(eb)
		}
		if k.early == "complete" {
			return // quic-go: FIN on the response, then STOP_SENDING(H3_NO_ERROR) for the unread request body
		}
		fl.Flush()
	}
	time.Sleep(k.pause)
	buf := make([]byte, 64<<10)
	var mu sync.Mutex
	var timer *time.Timer
	rearm := func() {
		mu.Lock()
		if timer != nil {
			timer.Stop()
		}
		timer = time.AfterFunc(k.stall, func() {
			mu.Lock()
			k.stalled = true
			mu.Unlock()
			r.Body.Close()
		})
		mu.Unlock()
	}
	for {
		rearm()
		n, err := r.Body.Read(buf)
		k.got = append(k.got, buf[:n]...)
		if err != nil {
			mu.Lock()
			timer.Stop()
			if err == io.EOF {
				k.ended = true
			} else if !k.stalled {
				k.readErr = err.Error()
			}
			mu.Unlock()
			break
		}
	}
	if k.status == 0 {
		if k.declare != "none" {
			w.Header().Set("Content-Length", strconv.Itoa(len(k.resp)))
		}
		w.WriteHeader(200)
		w.Write(k.resp)
	} else {
		w.Write(k.resp[len(k.earlyBody()):])
	}
}

// ---- the lane ------------------------------------------------------------------------------

// c17EarlyMayStop is the lane's own (Go-side) statement of which early answers release the client
// from finishing the upload; the Lean model `Req.Client.EarlyResponse` is asked independently.
//   - a COMPLETE response ends the exchange: nothing the origin still reads can change it
//     (HTTP/2, HTTP/3: END_STREAM / FIN received; HTTP/1.1: complete by message framing — a
//     status that has no body, Content-Length reached, last chunk);
//   - an explicit request to stop (RST_STREAM, STOP_SENDING, the origin closing the connection)
//     — RFC 9113 section 8.1: NO_ERROR after a complete response;
//   - HTTP/2 only: a final status above 299 (the transport's documented heuristic, inherited
//     from net/http: "the server doesn't care about our request body").
//
// Everything else — interim responses, a 2xx header block whose stream stays open (declared
// empty or not), part of a response body — leaves the obligation in place: every byte arrives.
func c17EarlyMayStop(k *c17EarlyCase) bool {
	if k.status == 0 {
		return false
	}
	if k.release != "" {
		return true
	}
	if k.proto == "h2" && k.status > 299 {
		return true
	}
	if k.proto == "h1" {
		if k.status == 204 || k.status == 304 {
			return true
		}
		if k.declare != "none" {
			return len(k.earlyBody()) >= len(k.resp)
		}
	}
	return k.early == "complete"
}

// c17PrefixOK: is what arrived a prefix of the body the request describes? (may-stop cases: the
// upload may end anywhere, but never with bytes that are not the body's.)
func c17PrefixOK(kind string, got []byte, ctype, field string, data, wantRaw []byte) bool {
	switch kind {
	case "multipart", "mpstream":
		_, params, _ := mime.ParseMediaType(ctype)
		b := params["boundary"]
		if b == "" {
			return false
		}
		i := bytes.Index(got, []byte(`filename="big.bin"`))
		if i < 0 {
			return len(got) < 2048 && (len(got) < len(b)+2 || bytes.HasPrefix(got, []byte("--"+b)))
		}
		j := bytes.Index(got[i:], []byte("\r\n\r\n"))
		if j < 0 {
			return len(got) < 4096
		}
		head, rest := got[:i+j+4], got[i+j+4:]
		if !bytes.HasPrefix(head, []byte("--"+b+"\r\n")) || !bytes.Contains(head, []byte("name=\"k\"\r\n\r\n"+field+"\r\n--"+b+"\r\n")) {
			return false
		}
		full := append(append([]byte(nil), data...), []byte("\r\n--"+b+"--\r\n")...)
		return bytes.HasPrefix(full, rest)
	case "form":
		return bytes.HasPrefix([]byte(url.Values{"k": {field}, "big": {string(data)}}.Encode()), got)
	}
	return bytes.HasPrefix(wantRaw, got)
}

type c17EarlyShape struct {
	proto   string
	interim []int
	status  int
	declare string
	early   string
	release string
}

// TestVerif_C17_e2eearly: origins that answer EARLY. Judged by the Lean model
// (Req.Client.EarlyResponse: `mayStop` + `judge`, theorems in Req.Props.C17Early) with the Go
// rule c17EarlyMayStop as second opinion.
func TestVerif_C17_e2eearly(t *testing.T) {
	s := verifh.New(t, "C17", "e2eearly",
		"uploads that are still in flight when the origin answers: known-length multipart / streamed (chunked) multipart / urlencoded form / JSON / bytes, 64 KiB … 1 MiB, always larger than the window the origin has open (HTTP/2: frame peer with SETTINGS_INITIAL_WINDOW_SIZE 16384 / 65535 that withholds WINDOW_UPDATE; HTTP/3: quic-go server with 16 KiB stream windows; HTTP/1.1: raw TCP peer + a byte gate in the client's connection standing in for a full TCP window). After 0 / 1 / 4096 / half a window / a full window of body bytes the origin sends 0..5 interim responses (100, 102, 103) and/or a final status from every class (200 201 202 204 206 299 | 300 304 | 400 404 413 | 500 503) with Content-Length absent / 0 / n, then nothing more / half of the response body / all of it + end of the response, and after a complete response optionally RST_STREAM(NO_ERROR | CANCEL) (HTTP/2), STOP_SENDING(H3_NO_ERROR) (HTTP/3, implied by quic-go) or a close (HTTP/1.1); it pauses 20 / 70 ms with the window shut, opens it, reads to the end of the request body and completes its response. The model decides whether the early answer may end the upload (complete response, explicit stop, HTTP/2 status > 299) and judges the observation: must-complete ⇒ every byte arrived (parsed back into the supplied field/file/values) under the declared length; always: what arrived is a prefix of the body, and the call returns the origin's status and response body. The first 22 cases walk a fixed table of the classes; non-trivial = the early answer arrived while body bytes were still unsent")
	r := s.Rand()
	o := c17NewEarlyOrigins()
	defer o.stop()
	table := []c17EarlyShape{
		{"h2", nil, 200, "zero", "headers", ""}, // declared empty, stream open
		{"h3", nil, 200, "zero", "headers", ""},
		{"h1", nil, 200, "len", "headers", ""},
		{"h2", []int{103}, 200, "none", "partial", ""},
		{"h2", nil, 299, "len", "headers", ""},
		{"h2", nil, 300, "zero", "headers", ""},
		{"h2", nil, 404, "none", "headers", ""},
		{"h2", nil, 200, "zero", "complete", "noerror"},
		{"h2", nil, 200, "len", "complete", ""},
		{"h2", []int{100, 103}, 0, "len", "interim", ""},
		{"h2", nil, 204, "zero", "headers", ""},
		{"h3", nil, 500, "len", "partial", ""},
		{"h3", nil, 200, "len", "complete", ""},
		{"h3", []int{103}, 0, "none", "interim", ""},
		{"h1", nil, 200, "none", "partial", ""},
		{"h1", nil, 200, "zero", "headers", ""}, // complete by framing
		{"h1", nil, 204, "zero", "headers", ""},
		{"h1", nil, 200, "len", "complete", "close"},
		{"h1", []int{103, 103}, 0, "len", "interim", ""},
		{"h1", nil, 503, "len", "partial", ""},
		{"h2", []int{103, 100, 102, 103, 103}, 201, "zero", "headers", ""},
		{"h3", nil, 404, "zero", "headers", ""},
	}
	n := verifh.N(72, 2000)
	for i := 0; i < n; i++ {
		k := &c17EarlyCase{done: make(chan struct{})}
		if i < len(table) {
			sh := table[i]
			k.proto, k.interim, k.status, k.declare, k.early, k.release = sh.proto, sh.interim, sh.status, sh.declare, sh.early, sh.release
		} else {
			k.proto = verifh.Pick(r, []string{"h1", "h2", "h2", "h3"})
			for j := verifh.Pick(r, []int{0, 0, 1, 1, 2, 5}); j > 0; j-- {
				k.interim = append(k.interim, verifh.Pick(r, []int{100, 102, 103, 103}))
			}
			k.status = verifh.Pick(r, []int{0, 200, 200, 200, 201, 202, 204, 206, 299, 300, 304, 400, 404, 413, 500, 503})
			if k.status == 0 && len(k.interim) == 0 {
				k.interim = []int{103}
			}
			k.declare = verifh.Pick(r, []string{"none", "zero", "zero", "len"})
			k.early = verifh.Pick(r, []string{"headers", "headers", "partial", "complete"})
		}
		k.window = verifh.Pick(r, []int{16384, 65535})
		if k.proto == "h3" {
			k.window = c17EarlyH3Window
		}
		k.at = verifh.Pick(r, []int{0, 0, 1, 4096, k.window / 2, k.window})
		if k.proto == "h3" && k.at > 8192 {
			k.at = 8192
		}
		if k.declare != "zero" && k.status != 204 && k.status != 304 {
			k.resp = c17Pattern(verifh.Pick(r, []int{2, 100, 5000}), i)
		}
		if len(k.resp) == 0 {
			k.declare = "zero"
		}
		if k.status == 0 {
			k.early = "interim"
		} else if len(k.resp) < 2 && k.early == "partial" {
			k.early = "headers"
		}
		if k.early == "complete" && i >= len(table) {
			switch k.proto {
			case "h1":
				k.release = verifh.Pick(r, []string{"", "close"})
			case "h2":
				k.release = verifh.Pick(r, []string{"", "noerror", "noerror", "cancel"})
			}
		}
		k.pause = verifh.Pick(r, []time.Duration{20 * time.Millisecond, 70 * time.Millisecond})
		mayStop := c17EarlyMayStop(k)
		k.stall = 4 * time.Second
		if mayStop {
			k.stall = 150 * time.Millisecond
		}
		size := verifh.Pick(r, []int{65536 + 8192 + 1, 131071, 300000, 1<<20 + 17})
		kind := verifh.Pick(r, []string{"multipart", "multipart", "mpstream", "form", "json", "bytes"})
		o.arm(k)
		var c *Client
		switch k.proto {
		case "h1":
			c = C().EnableForceHTTP1().SetTimeout(30 * time.Second)
			c.SetDial(func(ctx context.Context, network, addr string) (net.Conn, error) {
				var d net.Dialer
				conn, err := d.DialContext(ctx, network, addr)
				if err != nil {
					return nil, err
				}
				g := c17NewGate(conn, int64(k.window)+8192)
				k.mu.Lock()
				k.gate = g
				k.mu.Unlock()
				return g, nil
			})
		case "h2":
			c = C().EnableH2C().EnableForceHTTP2().SetTimeout(30 * time.Second)
		default:
			c = c17Client("h3")
		}
		data := c17Pattern(size, i)
		field := "v " + strconv.Itoa(i)
		req := c.R()
		var wantRaw []byte
		switch kind {
		case "multipart":
			req.SetFormData(map[string]string{"k": field}).SetFileBytes("file", "big.bin", data)
		case "mpstream":
			req.SetFormData(map[string]string{"k": field}).SetFileBytes("file", "big.bin", data).EnableForceChunkedEncoding()
		case "form":
			req.SetFormData(map[string]string{"k": field, "big": string(data)})
		case "json":
			v := &c17Blob{ID: i, Data: string(data)}
			req.SetBody(v)
			wantRaw, _ = json.Marshal(v)
		default:
			req.SetBodyBytes(data)
			wantRaw = data
		}
		id := fmt.Sprintf("early-%d-%s", i, k.proto)
		s.Begin(id, fmt.Sprintf("%s status=%d declare=%s early=%s release=%q %s size=%d", k.proto, k.status, k.declare, k.early, k.release, kind, size))
		resp, err := req.Post(o.base(k.proto) + "/early")
		select {
		case <-k.done:
		case <-time.After(20 * time.Second):
		}
		// the upload is complete when the request body ended cleanly, under the declared length,
		// and parses back into exactly what was supplied
		complete := k.ended
		detail := ""
		if complete && k.clen != "" && k.clen != strconv.Itoa(len(k.got)) {
			complete = false
			detail = fmt.Sprintf("declared Content-Length %s, %d bytes arrived", k.clen, len(k.got))
		}
		if complete {
			switch kind {
			case "multipart", "mpstream":
				_, params, _ := mime.ParseMediaType(k.ctype)
				items, ierr := c17ServerItems(params["boundary"], k.got)
				if ierr != nil || len(items) != 2 || items[0].file || items[0].name != "k" || items[0].value != field ||
					!items[1].file || items[1].name != "file" || items[1].filename != "big.bin" || items[1].content != string(data) {
					complete = false
					detail = fmt.Sprintf("multipart: err=%v items=%d", ierr, len(items))
				}
			case "form":
				vals, perr := url.ParseQuery(string(k.got))
				if perr != nil || len(vals) != 2 || vals.Get("k") != field || vals.Get("big") != string(data) {
					complete = false
					detail = fmt.Sprintf("form: err=%v big=%d of %d bytes", perr, len(vals.Get("big")), len(data))
				}
			default:
				if !bytes.Equal(k.got, wantRaw) {
					complete = false
					detail = fmt.Sprintf("%d bytes arrived, %d supplied, first difference at %d", len(k.got), len(wantRaw), c17FirstDiff(k.got, wantRaw))
				}
			}
		}
		prefixOK := complete || c17PrefixOK(kind, k.got, k.ctype, field, data, wantRaw)
		wantStatus := k.status
		if wantStatus == 0 {
			wantStatus = 200
		}
		obsStatus := 0
		if err == nil && resp != nil && resp.Response != nil {
			obsStatus = resp.StatusCode
			if !bytes.Equal(resp.Bytes(), k.resp) {
				obsStatus = 0
				detail += fmt.Sprintf(" response body: %d bytes delivered, %d sent", len(resp.Bytes()), len(k.resp))
			}
		}
		// the early answer as the model's summary
		decl := "-"
		if k.declare != "none" && k.status != 0 && k.status != 204 && k.status != 304 {
			decl = strconv.Itoa(len(k.resp))
		}
		fin := k.early == "complete" && (k.proto != "h1" || decl == "-")
		b2i := func(b bool) string {
			if b {
				return "1"
			}
			return "0"
		}
		line := fmt.Sprintf("c17early %s %s %d %s %d %s %s 200 %s %s %d", k.proto, verifh.IntList(k.interim), k.status, decl,
			len(k.earlyBody()), b2i(fin), b2i(k.release != ""), b2i(complete), b2i(prefixOK), obsStatus)
		propOK := prefixOK && (mayStop || complete) && obsStatus == wantStatus
		implAnswer := map[bool]string{true: "may-stop", false: "must-complete"}[mayStop] + " ok"
		human := fmt.Sprintf("%s: after %d body bytes the origin sends interim=%v status=%d content-length=%s + %d of %d response bytes, end-of-response=%v, stop=%q; window %d shut for %v; upload %s %d B -> arrived %d B ended=%v stalled=%v client-RST=%q read-error=%q; call: err=%v status=%d %s",
			k.proto, k.at, k.interim, k.status, decl, len(k.earlyBody()), len(k.resp), k.early == "complete", k.release, k.window, k.pause,
			kind, size, len(k.got), k.ended, k.stalled, k.clientRST, k.readErr, err, obsStatus, detail)
		s.Case(line, implAnswer, propOK, "", true, human)
		s.Count(k.proto + ":" + map[bool]string{true: "may-stop", false: "must-complete"}[mayStop])
		s.Count("early:" + k.early)
		s.Count(kind)
		switch {
		case k.status == 0:
			s.Count("status:interim-only")
		default:
			s.Count(fmt.Sprintf("status:%dxx", k.status/100))
		}
		if !mayStop && k.status != 0 && decl == "0" {
			s.Count("declared-empty-open-stream")
		}
		if mayStop && complete {
			s.Count("may-stop:completed-anyway")
		} else if mayStop {
			s.Count("may-stop:stopped")
		}
		if k.release != "" {
			s.Count("release:" + k.release)
		}
		c17Done(c)
	}
	s.Finish()
}
