//go:build verif

package req

import (
	"bytes"
	"encoding/json"
	"encoding/xml"
	"fmt"
	"io"
	"mime"
	"net/url"
	"strconv"
	"testing"

	"github.com/imroc/req/v3/internal/verifh"
)

type c17Blob struct {
	XMLName xml.Name `json:"-" xml:"blob"`
	ID      int      `json:"id" xml:"id,attr"`
	Data    string   `json:"data" xml:"data"`
}

// c17Pattern: size bytes that differ at every offset modulo a large period (so that a cut,
// a repetition or a shifted piece changes the content), printable so that JSON/XML/form carry
// them without growth surprises.
func c17Pattern(size int, salt int) []byte {
	b := make([]byte, size)
	const alpha = "abcdefghijklmnopqrstuvwxyzABCDEFGHIJKLMNOPQRSTUVWXYZ0123456789"
	for i := range b {
		b[i] = alpha[(i*31+i/61+i/3721+salt)%len(alpha)]
	}
	return b
}

// TestVerif_C17_e2ewindow: known-length request bodies LARGER than the receive window the
// origin advertises (HTTP/2 SETTINGS_INITIAL_WINDOW_SIZE of 4 KiB … 64 KiB from a
// golang.org/x/net/http2 server, the stock 1 MiB window of net/http with a handler that is slow
// to start reading, a quic-go HTTP/3 server with small stream windows), so that the last chunk
// of the body has to be split and wait for WINDOW_UPDATEs. Oracle: the origin receives exactly
// the bytes / fields / files that were supplied, under the declared length.
func TestVerif_C17_e2ewindow(t *testing.T) {
	s := verifh.New(t, "C17", "e2ewindow",
		"uploads with known length — buffered multipart (field + file by bytes), urlencoded form, marshalled JSON, marshalled XML, raw bytes — of sizes w-1, w, w+1, 2w+1, 5w+7 around the peer's stream window w in {4096, 16384, 65535} (x/net/http2 server with MaxUploadBufferPerStream = w, after a warm-up request so that the peer's SETTINGS are known), 65535±1 and 1 MiB±1 / 1 MiB + 300 KiB against the stock net/http HTTP/2 server with a handler that starts reading 0 / 120 ms late, and 20 KiB … 600 KiB against a quic-go HTTP/3 server with 16 KiB stream windows; HTTP/1.1 as control; dumping on in 1/4; oracle: status 200, no body read error at the origin, Content-Length = bytes received = bytes sent, parsed fields/files/values byte-identical; non-trivial = body larger than the peer's window")
	r := s.Rand()
	type originSpec struct {
		name   string
		window int
	}
	specs := []originSpec{{"h2win:4096", 4096}, {"h2win:16384", 16384}, {"h2win:65535", 65535}, {"h2", 1 << 20}, {"h3win:16384", 16384}, {"h1", 0}}
	origins := map[string]*c17Origin{}
	for _, sp := range specs {
		origins[sp.name] = c17NewOrigin(sp.name)
		defer origins[sp.name].stop()
	}
	n := verifh.N(70, 1200)
	for i := 0; i < n; i++ {
		sp := specs[r.Intn(len(specs))]
		if i < 2*len(specs) { // every origin at least twice, also in the quick tier
			sp = specs[i%len(specs)]
		}
		o := origins[sp.name]
		var size, delay int
		switch {
		case sp.name == "h2":
			// stock 1 MiB window: the tail only waits for flow control when the handler is late
			size = verifh.Pick(r, []int{65534, 65535, 65536, 1<<20 - 1, 1 << 20, 1<<20 + 1, 1<<20 + 300*1024})
			if !verifh.Thorough() && i >= 2*len(specs) && r.Intn(2) == 0 {
				size = verifh.Pick(r, []int{65534, 65535, 65536})
			}
			delay = verifh.Pick(r, []int{0, 120})
			if size > 1<<20 {
				delay = 120
			}
		case sp.name == "h3win:16384":
			size = verifh.Pick(r, []int{20000, 32768, 32769, 100000, 600000})
			delay = verifh.Pick(r, []int{0, 50})
		case sp.name == "h1":
			size = verifh.Pick(r, []int{65535, 65536, 300000})
		default:
			w := sp.window
			size = verifh.Pick(r, []int{w - 1, w, w + 1, 2*w + 1, 5*w + 7, 65535, 65536, 65537})
		}
		kind := verifh.Pick(r, []string{"multipart", "multipart", "form", "json", "xml", "bytes"})
		c := c17Client(sp.name)
		dump := r.Intn(4) == 0
		if dump {
			c.EnableDumpAllTo(io.Discard)
			s.Count("dump")
		}
		// warm-up: the connection exists and the peer's SETTINGS have been processed
		if wr, werr := c.R().SetBodyString("warm-up").Post(o.base + "/warm"); werr != nil || wr.StatusCode != 200 {
			s.Observe(fmt.Sprintf("warm-%d", i), false, "", false, "warm-up request to "+sp.name+" failed", fmt.Sprint(werr))
			c17Done(c)
			continue
		}
		o.take()
		data := c17Pattern(size, i)
		req := c.R()
		var wantRaw []byte // exact bytes expected on the wire (nil: judged after parsing)
		field := "v" + strconv.Itoa(i)
		switch kind {
		case "multipart":
			req.SetFormData(map[string]string{"k": field}).SetFileBytes("file", "blob.bin", data)
		case "form":
			req.SetFormData(map[string]string{"k": field, "big": string(data)})
		case "json":
			v := &c17Blob{ID: i, Data: string(data)}
			req.SetBody(v)
			wantRaw, _ = json.Marshal(v)
		case "xml":
			v := &c17Blob{ID: i, Data: string(data)}
			req.SetContentType("text/xml").SetBody(v)
			wantRaw, _ = xml.Marshal(v)
		default:
			req.SetBodyBytes(data)
			wantRaw = data
		}
		u := o.base + "/w"
		if delay > 0 {
			u += "?delay=" + strconv.Itoa(delay)
		}
		resp, err := req.Post(u)
		seen := o.take()
		ok := err == nil && resp != nil && resp.StatusCode == 200 && len(seen) == 1
		detail := ""
		if !ok {
			detail = fmt.Sprintf("err=%v seen=%d", err, len(seen))
			if resp != nil && resp.Response != nil {
				detail += " status=" + strconv.Itoa(resp.StatusCode)
			}
		} else {
			got := seen[0]
			if got.BodyErr != nil {
				ok = false
				detail = "origin read error: " + got.BodyErr.Error()
			}
			if cl := got.Header.Get("Content-Length"); ok && cl != "" && cl != strconv.Itoa(len(got.Body)) {
				ok = false
				detail = fmt.Sprintf("Content-Length %s but %d bytes arrived", cl, len(got.Body))
			}
			if ok && got.CL >= 0 && got.CL != int64(len(got.Body)) {
				ok = false
				detail = fmt.Sprintf("declared length %d but %d bytes arrived", got.CL, len(got.Body))
			}
			if ok {
				switch kind {
				case "multipart":
					_, params, _ := mime.ParseMediaType(got.Header.Get("Content-Type"))
					items, ierr := c17ServerItems(params["boundary"], got.Body)
					if ierr != nil || len(items) != 2 || items[0].file || items[0].name != "k" || items[0].value != field ||
						!items[1].file || items[1].name != "file" || items[1].filename != "blob.bin" || items[1].content != string(data) {
						ok = false
						detail = fmt.Sprintf("multipart parse: err=%v items=%d", ierr, len(items))
						if len(items) == 2 {
							detail += fmt.Sprintf(" file bytes %d of %d", len(items[1].content), len(data))
						}
					}
				case "form":
					vals, perr := url.ParseQuery(string(got.Body))
					if perr != nil || vals.Get("k") != field || vals.Get("big") != string(data) || len(vals) != 2 {
						ok = false
						detail = fmt.Sprintf("form parse: err=%v big=%d of %d bytes", perr, len(vals.Get("big")), len(data))
					}
				default:
					if !bytes.Equal(got.Body, wantRaw) {
						ok = false
						detail = fmt.Sprintf("%d bytes arrived, %d sent (first difference at %d)", len(got.Body), len(wantRaw), c17FirstDiff(got.Body, wantRaw))
					}
				}
			}
		}
		s.Count(sp.name)
		s.Count(kind)
		big := sp.window > 0 && size > sp.window
		if big {
			s.Count("larger-than-window")
		}
		s.Observe(fmt.Sprintf("%s-%s-%d-%d-%d", sp.name, kind, size, delay, i), ok, "", big,
			fmt.Sprintf("%s %s size=%d window=%d delay=%dms dump=%v -> ok=%v %s", sp.name, kind, size, sp.window, delay, dump, ok, detail), detail)
		c17Done(c)
	}
	s.Finish()
}

func c17FirstDiff(a, b []byte) int {
	n := len(a)
	if len(b) < n {
		n = len(b)
	}
	for i := 0; i < n; i++ {
		if a[i] != b[i] {
			return i
		}
	}
	return n
}
