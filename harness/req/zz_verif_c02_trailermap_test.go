//go:build verif

package req

import (
	"crypto/tls"
	"fmt"
	"net"
	"net/http"
	"net/http/httptest"
	"sort"
	"strconv"
	"strings"
	"sync"
	"testing"
	"time"

	"github.com/imroc/req/v3/internal/verifh"
	qhttp3 "github.com/quic-go/quic-go/http3"
)

// ---------------------------------------------------------------------------------------
// C02 round 5, lane "trailermap": Response.Trailer as the MAP the caller sees, nil-valued keys
// included, in the three protocols.  HTTP/1.1 and HTTP/2 merge the received trailer fields into
// the keys announced by the Trailer header (announced-but-unsent keys stay, with a nil value);
// HTTP/3 replaces the map when the trailer section arrives.  Judged by
// Req.C02.trailerMapMerged / trailerMapH3 (theorems trailer_map_merged, trailer_map_h3,
// trailer_values_cross_protocol).
// ---------------------------------------------------------------------------------------

type c02TMSpec struct {
	announce []string // Trailer header lines as the origin writes them
	trailers []c02Field
	body     string
}

type c02TMOrigin struct {
	mu    sync.Mutex
	cases map[string]*c02TMSpec
}

func (o *c02TMOrigin) ServeHTTP(w http.ResponseWriter, r *http.Request) {
	o.mu.Lock()
	sp := o.cases[r.URL.Path]
	o.mu.Unlock()
	if sp == nil {
		w.WriteHeader(599)
		return
	}
	h := w.Header()
	for _, a := range sp.announce {
		h.Add("Trailer", a)
	}
	h["Content-Type"] = nil
	w.WriteHeader(200)
	w.Write([]byte(sp.body))
	if fl, ok := w.(http.Flusher); ok {
		fl.Flush()
	}
	for _, t := range sp.trailers {
		h.Add(http.TrailerPrefix+t.k, t.v)
	}
}

// c02TrailerDump renders a trailer map with its nil-valued keys, sorted by key.
func c02TrailerDump(tr http.Header) string {
	if len(tr) == 0 {
		return "-"
	}
	var keys []string
	for k := range tr {
		keys = append(keys, k)
	}
	sort.Strings(keys)
	var out []string
	for _, k := range keys {
		if len(tr[k]) == 0 {
			out = append(out, verifh.Hex(k)+"=nil")
			continue
		}
		var vs []string
		for _, v := range tr[k] {
			vs = append(vs, verifh.Hex(v))
		}
		out = append(out, verifh.Hex(k)+"="+strings.Join(vs, "|"))
	}
	return strings.Join(out, ",")
}

func TestVerif_C02_trailermap(t *testing.T) {
	s := verifh.New(t, "C02", "trailermap",
		"real client over HTTP/1.1 (raw TCP peer, chunked), HTTP/2 (Go h2 server over TLS), HTTP/3 (quic-go server): 0..2 Trailer header lines announcing 0..4 keys (mixed case on the HTTP/1.1 wire, keys that are sent, keys that are never sent), a trailer section of 0..4 fields (announced or not, repeated names), body 0..5000 bytes; the caller's resp.Trailer dumped with its nil-valued keys and compared with Req.C02.trailerMapMerged (h1, h2) / trailerMapH3 (h3); non-trivial = an announced key was never sent or an unannounced key was sent")
	r := s.Rand()
	bk := &c02Buckets{s, map[string]int{}}
	// HTTP/1.1 peer
	peer := c02NewH1Peer(t)
	defer peer.ln.Close()
	// HTTP/2 origin
	origin := &c02TMOrigin{cases: map[string]*c02TMSpec{}}
	srv2 := httptest.NewUnstartedServer(origin)
	srv2.EnableHTTP2 = true
	srv2.StartTLS()
	// HTTP/3 origin (certificate borrowed from httptest)
	cert := srv2.TLS.Certificates[0]
	udp, err := net.ListenPacket("udp", "127.0.0.1:0")
	if err != nil {
		t.Fatalf("listen udp: %v", err)
	}
	srv3 := &qhttp3.Server{Handler: origin, TLSConfig: qhttp3.ConfigureTLSConfig(&tls.Config{Certificates: []tls.Certificate{cert}})}
	go srv3.Serve(udp)
	defer func() {
		done := make(chan struct{})
		go func() {
			srv2.CloseClientConnections()
			srv2.Close()
			srv3.Close()
			close(done)
		}()
		select {
		case <-done:
		case <-time.After(5 * time.Second):
		}
	}()
	cl1 := C().SetTimeout(10 * time.Second)
	cl2 := C().SetTimeout(10 * time.Second).EnableInsecureSkipVerify().EnableForceHTTP2()
	cl3 := C().SetTimeout(10 * time.Second).EnableInsecureSkipVerify()
	cl3.EnableForceHTTP3()
	if c02H3(cl3) == nil {
		t.Fatalf("HTTP/3 not enabled (needs go1.22/1.23)")
	}
	defer func() {
		cl1.GetTransport().CloseIdleConnections()
		cl2.GetTransport().CloseIdleConnections()
		if t3 := c02H3(cl3); t3 != nil {
			t3.Close()
		}
	}()
	for _, c := range []*Client{cl1, cl2, cl3} {
		c.GetTransport().DisableAutoDecode()
	}
	names := []string{"X-T", "X-Trail-Sum", "Grpc-Status", "X-Unsent", "X-Other"}
	n := verifh.N(150, 3000)
	fails := 0
	for c := 0; c < n && fails < 8; c++ {
		proto := verifh.Pick(r, []string{"1", "2", "3"})
		sp := &c02TMSpec{body: verifh.RandBytes(r, verifh.Pick(r, []int{0, 1, 100, 5000}), "")}
		var declKeys []string
		for i := r.Intn(3); i > 0; i-- {
			var ks []string
			for j := 1 + r.Intn(2); j > 0; j-- {
				k := verifh.Pick(r, names)
				if proto == "1" {
					switch r.Intn(3) {
					case 0:
						k = strings.ToLower(k)
					case 1:
						k = strings.ToUpper(k)
					}
				}
				ks = append(ks, k)
				declKeys = append(declKeys, k)
			}
			sp.announce = append(sp.announce, strings.Join(ks, verifh.Pick(r, []string{", ", ",", " , "})))
		}
		for i := r.Intn(5); i > 0; i-- {
			sp.trailers = append(sp.trailers, c02Field{verifh.Pick(r, names), verifh.RandBytes(r, 1+r.Intn(8), "abcXYZ019-_")})
		}
		path := "/tm" + strconv.Itoa(c)
		var url string
		var cl *Client
		switch proto {
		case "1":
			var sb strings.Builder
			sb.WriteString("HTTP/1.1 200 OK\r\n")
			for _, a := range sp.announce {
				sb.WriteString(verifh.Pick(r, []string{"Trailer", "trailer"}) + ": " + a + "\r\n")
			}
			sb.WriteString("Transfer-Encoding: chunked\r\n\r\n")
			var writes []string
			if len(sp.body) > 0 {
				writes = []string{sp.body}
			}
			sb.WriteString(c02EncodeChunked(s, writes, sp.trailers, false))
			peer.mu.Lock()
			peer.cases[path] = &c02H1Wire{segs: c02Split(s, sb.String())}
			peer.mu.Unlock()
			url, cl = "http://"+peer.ln.Addr().String()+path, cl1
		case "2":
			origin.mu.Lock()
			origin.cases[path] = sp
			origin.mu.Unlock()
			url, cl = srv2.URL+path, cl2
		default:
			origin.mu.Lock()
			origin.cases[path] = sp
			origin.mu.Unlock()
			url, cl = "https://"+udp.LocalAddr().String()+path, cl3
		}
		human := fmt.Sprintf("h%s announce=%q trailers=%v body=%d", proto, sp.announce, sp.trailers, len(sp.body))
		s.Begin(path, human)
		impl := ""
		bodyOK := true
		ptxt, panicked := verifh.Safely(func() {
			resp, err := cl.R().Get(url)
			if err != nil {
				impl = "error:" + err.Error()
				return
			}
			bodyOK = string(resp.Bytes()) == sp.body
			impl = c02TrailerDump(resp.Trailer)
		})
		peer.mu.Lock()
		delete(peer.cases, path)
		peer.mu.Unlock()
		origin.mu.Lock()
		delete(origin.cases, path)
		origin.mu.Unlock()
		if panicked {
			s.Crash(human, human, ptxt, "")
			fails++
			continue
		}
		// oracle (second opinion): every sent value is there, in order, under its key
		want := http.Header{}
		for _, f := range sp.trailers {
			want.Add(f.k, f.v)
		}
		ok := bodyOK && !strings.HasPrefix(impl, "error:")
		sent := map[string]bool{}
		for _, f := range sp.trailers {
			sent[http.CanonicalHeaderKey(f.k)] = true
		}
		unsentAnnounced, unannouncedSent := false, false
		ann := map[string]bool{}
		for _, k := range declKeys {
			ck := http.CanonicalHeaderKey(k)
			ann[ck] = true
			if !sent[ck] {
				unsentAnnounced = true
			}
		}
		for k := range sent {
			if !ann[k] {
				unannouncedSent = true
			}
		}
		if !ok {
			fails++
		}
		bk.count("proto:h" + proto)
		if unsentAnnounced {
			bk.count("announced-key-never-sent:h" + proto)
		}
		if unannouncedSent {
			bk.count("unannounced-key-sent")
		}
		if len(sp.trailers) == 0 {
			bk.count("no-trailer-section")
		}
		got := "0"
		if len(sp.trailers) > 0 {
			got = "1"
		}
		var recv []string
		for _, f := range sp.trailers {
			recv = append(recv, verifh.Hex(f.k)+":"+verifh.Hex(f.v))
		}
		recvS := "-"
		if len(recv) > 0 {
			recvS = strings.Join(recv, ",")
		}
		s.Case(fmt.Sprintf("c02trailermap %s %s %s %s", proto, verifh.HexList(declKeys), got, recvS), impl, ok, "", unsentAnnounced || unannouncedSent, human)
	}
	s.Finish()
	if fails < 8 {
		bk.require(t, "trailermap", "proto:h1", "proto:h2", "proto:h3", "announced-key-never-sent:h1", "announced-key-never-sent:h2", "announced-key-never-sent:h3", "unannounced-key-sent", "no-trailer-section")
	}
}
