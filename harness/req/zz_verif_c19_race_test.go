//go:build verif

package req

// C19 lane `conc` (TestVerifRace_C19_conc; run with -race in the thorough tier): the concurrency
// flavour of clone isolation. Worker goroutines execute requests on the ORIGINAL client all the time
// (plain HTTP/1.1, HTTP/2 over TLS); meanwhile the main goroutine calls Clone again and again, and on
// every copy (and on a copy of the copy) calls setters of every family that mutates in place (header,
// query, form, path parameter, cookie, middleware, wrappers, retry, dump, certificate, root) and
// executes requests. Anything a copy still has in common with the original is then read by the
// workers while the main goroutine writes it: the race detector reports it (the lane process dies,
// bin/check reports a crash), and without -race the functional oracle still checks that every
// request carried exactly its own client's settings. Clone itself only reads the original — as the
// executing requests do — so the unchanged code is silent.

import (
	"crypto/tls"
	"fmt"
	"net/http"
	"net/http/httptest"
	"strings"
	"sync"
	"sync/atomic"
	"testing"
	"time"

	"github.com/imroc/req/v3/internal/verifh"
)

func TestVerifRace_C19_conc(t *testing.T) {
	s := verifh.New(t, "C19", "conc",
		"workers execute requests on the original (HTTP/1.1 and HTTP/2 over TLS) while the main goroutine clones it repeatedly and, on each copy and copy of copy, calls in-place-mutating setters of every family and executes requests; with -race (thorough tier) any object still common to original and copy shows as a data race; the functional oracle checks that every request carried exactly its own client's settings")
	var bad atomic.Int32
	var firstBad atomic.Value
	note := func(format string, a ...interface{}) {
		if bad.Add(1) == 1 {
			firstBad.Store(fmt.Sprintf(format, a...))
		}
	}
	h := http.HandlerFunc(func(rw http.ResponseWriter, r *http.Request) {
		who := r.Header.Get("X-Who")
		// the original's requests carry X-Orig and none of the copies' marks; a copy's carry X-Orig and its own mark
		if r.Header.Get("X-Orig") != "1" {
			note("request of %q arrived without the original's common header", who)
		}
		mark := r.Header.Get("X-Copy")
		q := r.URL.Query().Get("qc")
		r.ParseForm()
		f := r.PostForm.Get("QQfc")
		switch {
		case who == "orig" && (mark != "" || q != "" || f != ""):
			note("a request of the ORIGINAL carried a copy's settings: header %q query %q form %q", mark, q, f)
		case strings.HasPrefix(who, "copy") && (mark != who || q != who):
			note("a request of %s carried header %q query %q", who, mark, q)
		}
		rw.Write([]byte("ok"))
	})
	h1 := httptest.NewServer(h)
	defer h1.Close()
	h2 := httptest.NewUnstartedServer(h)
	h2.EnableHTTP2 = true
	h2.StartTLS()
	defer h2.Close()

	w := c19NewWorld()
	defer w.close()
	b0 := &c19LockedBuf{}
	c := C()
	c.SetLogger(nil)
	c.SetTimeout(20 * time.Second)
	c.EnableInsecureSkipVerify()
	c.SetCommonHeader("X-Orig", "1").SetCommonHeader("X-Who", "orig").SetCommonHeaderNonCanonical("x-n7", "v1")
	c.AddCommonQueryParam("q1", "w1").SetCommonFormData(map[string]string{"QQf1": "QQg1"}).SetCommonPathParam("p1", "y1")
	c.SetCommonCookies(&http.Cookie{Name: "ck101", Value: "1"})
	c.OnBeforeRequest(func(*Client, *Request) error { return nil }).OnAfterResponse(func(*Client, *Response) error { return nil })
	c.WrapRoundTripFunc(func(rt RoundTripper) RoundTripFunc {
		return func(r *Request) (*Response, error) { return rt.RoundTrip(r) }
	})
	c.GetTransport().WrapRoundTripFunc(func(rt http.RoundTripper) HttpRoundTripFunc {
		return func(r *http.Request) (*http.Response, error) { return rt.RoundTrip(r) }
	})
	c.SetCommonRetryCount(1).AddCommonRetryCondition(func(resp *Response, err error) bool { return false }).AddCommonRetryHook(func(*Response, error) {})
	c.SetCommonDumpOptions(&DumpOptions{Output: b0, RequestHeader: true, Async: true}).EnableDumpAll()
	c.SetCerts(c19TLSCert(1), c19TLSCert(2), c19TLSCert(3)).SetRootCertFromString(w.rootPEM[1])

	workers, perWorker, clones := 4, verifh.N(25, 120), verifh.N(12, 60)
	var wg sync.WaitGroup
	stop := make(chan struct{})
	var sent, nClones atomic.Int32
	for i := 0; i < workers; i++ {
		wg.Add(1)
		go func(i int) {
			defer wg.Done()
			for k := 0; k < perWorker; k++ {
				select {
				case <-stop:
					return
				default:
				}
				url := h1.URL
				if (i+k)%2 == 1 {
					url = h2.URL
				}
				var err error
				if k%2 == 0 {
					_, err = c.R().Get(url + "/s1/{p1}")
				} else {
					_, err = c.R().SetFormData(map[string]string{"QQf2": "QQg2"}).Post(url + "/s1/{p1}")
				}
				if err != nil {
					note("request of the original failed: %v", err)
				}
				sent.Add(1)
			}
		}(i)
	}
	// everything below runs under a watchdog: a request blocked on a dump queue nobody reads never returns
	var ptxt string
	var panicked bool
	mainDone := make(chan struct{})
	go func() {
		defer close(mainDone)
		ptxt, panicked = verifh.Safely(func() {
			for n := 0; n < clones; n++ {
				cc := c.Clone()
				if n%3 == 2 {
					cc = cc.Clone()
				}
				who := fmt.Sprintf("copy%d", n)
				bn := &c19LockedBuf{}
				cc.SetCommonHeader("X-Who", who).SetCommonHeader("X-Copy", who).SetCommonHeaderNonCanonical("x-n7", "v2")
				cc.AddCommonQueryParam("qc", who).AddCommonQueryParam("q1", "w2").SetCommonFormData(map[string]string{"QQfc": who}).SetCommonPathParam("p1", "y2")
				cc.SetCommonCookies(&http.Cookie{Name: "ck102", Value: "1"})
				cc.OnBeforeRequest(func(*Client, *Request) error { return nil }).OnAfterResponse(func(*Client, *Response) error { return nil })
				cc.WrapRoundTripFunc(func(rt RoundTripper) RoundTripFunc {
					return func(r *Request) (*Response, error) { return rt.RoundTrip(r) }
				})
				cc.GetTransport().WrapRoundTripFunc(func(rt http.RoundTripper) HttpRoundTripFunc {
					return func(r *http.Request) (*http.Response, error) { return rt.RoundTrip(r) }
				})
				cc.SetCommonRetryCount(0).AddCommonRetryCondition(func(resp *Response, err error) bool { return false }).AddCommonRetryHook(func(*Response, error) {})
				cc.EnableDumpAllTo(bn).EnableDumpAllWithoutResponseBody()
				cc.SetCerts(c19TLSCert(4)).SetRootCertFromString(w.rootPEM[2])
				cc.SetTLSClientConfig(&tls.Config{InsecureSkipVerify: true, NextProtos: []string{"h2", "http/1.1"}})
				for _, url := range []string{h1.URL, h2.URL} {
					if _, err := cc.R().Post(url + "/s1/{p1}"); err != nil {
						note("request of %s failed: %v", who, err)
					}
				}
				if n%4 == 3 {
					c19DisableDump(cc)
				}
				cc.Transport.CloseIdleConnections()
				nClones.Add(1)
			}
		})
	}()
	hung := ""
	select {
	case <-mainDone:
	case <-time.After(90 * time.Second):
		hung = "the main goroutine (Clone, setters and requests on the copies) did not finish within 90 s"
	}
	close(stop)
	workersDone := make(chan struct{})
	go func() { wg.Wait(); close(workersDone) }()
	select {
	case <-workersDone:
	case <-time.After(30 * time.Second):
		hung += " the requests of the original did not return within 30 s"
	}
	for i := int32(0); i < nClones.Load(); i++ {
		s.Count("clone")
	}
	if hung != "" {
		s.Observe("conc/nothing-hangs", false, "", true, "clones with setters and requests while requests of the original are in flight", hung)
		s.Finish()
		return
	}
	c19DisableDump(c)
	c.Transport.CloseIdleConnections()
	if panicked {
		s.Crash("conc", "clone + setters on copies while the original executes requests", ptxt, "")
	}
	detail := ""
	if v := firstBad.Load(); v != nil {
		detail = v.(string)
	}
	s.Observe("conc/own-settings-only", bad.Load() == 0, "", true,
		fmt.Sprintf("%d clones with setters and requests while %d requests of the original were in flight", clones, sent.Load()),
		fmt.Sprintf("%d requests arrived with wrong settings or failed; first: %s", bad.Load(), detail))
	s.Count("requests-of-original-in-flight")
	s.Finish()
}
