//go:build verif

package req

import (
	"fmt"
	"net/http"
	"net/url"
	"strings"
	"testing"

	"github.com/imroc/req/v3/internal/header"
	"github.com/imroc/req/v3/internal/verifh"
)

// c17RunBodyMiddleware runs the real request pipeline part that builds the body
// (parseRequestHeader, then parseRequestBody) and reports (error?, body, request content type).
func c17RunBodyMiddleware(c *Client, r *Request) (failed bool, body []byte, ct string) {
	if r.Headers == nil {
		r.Headers = make(http.Header)
	}
	if err := parseRequestHeader(c, r); err != nil {
		return true, nil, ""
	}
	if err := parseRequestBody(c, r); err != nil {
		return true, nil, ""
	}
	return false, r.Body, r.Headers.Get(header.ContentType)
}

// c17OrderedOracle: the independent reading of an ordered form body — split at '&', cut at
// '=', QueryUnescape — must give exactly the supplied pairs, in order.
func c17OrderedOracle(body string, pairs [][2]string) bool {
	if len(pairs) == 0 {
		return body == ""
	}
	segs := strings.Split(body, "&")
	if len(segs) != len(pairs) {
		return false
	}
	for i, sg := range segs {
		k, v, ok := strings.Cut(sg, "=")
		if !ok {
			return false
		}
		ku, e1 := url.QueryUnescape(k)
		vu, e2 := url.QueryUnescape(v)
		if e1 != nil || e2 != nil || ku != pairs[i][0] || vu != pairs[i][1] {
			return false
		}
	}
	return true
}

// TestVerif_C17_form: real parseRequestBody on plain form data (request-level merged with
// client-level) vs the Lean model `encode (mergeForm req client)`; oracle: url.ParseQuery of
// the produced body is exactly the supplied multimap and the content type is the form type.
func TestVerif_C17_form(t *testing.T) {
	s := verifh.New(t, "C17", "form",
		"request-level url.Values (0..6 keys, 1..4 values each; strings: empty, plain, reserved, non-ASCII, raw bytes, controls, percent/plus look-alikes) merged with client-level values (shared keys with probability 1/3), a Content-Type preset at either level in 1/4 of the cases; real parseRequestHeader+parseRequestBody; non-trivial = at least 2 pairs and one byte needing escape")
	r := s.Rand()
	n := verifh.N(1500, 60000)
	for i := 0; i < n; i++ {
		rq := c17GenValues(r, 6, nil)
		var cl c17KV
		if r.Intn(2) == 0 {
			cl = c17GenValues(r, 4, rq.keys)
		}
		want := c17Merged(rq, cl)
		if len(want) == 0 {
			s.Count("empty-skipped")
			continue
		}
		c := C()
		if len(cl.keys) > 0 {
			c.SetCommonFormDataFromValues(cl.values())
			s.Count("client-level")
		}
		req := c.R()
		req.Method = verifh.Pick(r, []string{"POST", "PUT", "PATCH", "DELETE"})
		if len(rq.keys) > 0 {
			req.SetFormDataFromValues(rq.values())
		}
		switch r.Intn(8) {
		case 0:
			c.SetCommonContentType("text/plain")
			s.Count("preset-ct")
		case 1:
			req.SetContentType("application/json")
			s.Count("preset-ct")
		}
		failed, body, ct := c17RunBodyMiddleware(c, req)
		impl := "err"
		ok := false
		if !failed {
			impl = verifh.Hex(string(body))
			got, err := url.ParseQuery(string(body))
			ok = err == nil && c17SameMultimap(map[string][]string(got), want) && ct == "application/x-www-form-urlencoded"
		}
		np := 0
		for _, v := range want {
			np += len(v)
		}
		nontriv := np >= 2 && strings.ContainsAny(string(body), "%+")
		if len(cl.keys) > 0 && len(rq.keys) > 0 {
			s.Count("merged")
		}
		s.Case("c17form "+rq.line()+" "+cl.line(), impl, ok, "", nontriv,
			fmt.Sprintf("req=%q client=%q -> %q ct=%q", rq.values(), cl.values(), body, ct))
	}
	s.Finish()
}

// TestVerif_C17_ordered: real parseRequestBody on ordered form data vs the model
// `encodeOrdered`; odd argument counts must be refused.
func TestVerif_C17_ordered(t *testing.T) {
	s := verifh.New(t, "C17", "ordered",
		"SetOrderedFormData with 1..13 strings (same string classes as the form lane, repeated keys frequent), odd counts in 1/6 of the cases; real parseRequestHeader+parseRequestBody; oracle: splitting the body at & and = and unescaping gives the supplied pairs in order, odd counts give an error and no request body; non-trivial = >= 2 pairs")
	r := s.Rand()
	n := verifh.N(1500, 60000)
	for i := 0; i < n; i++ {
		np := 1 + r.Intn(6)
		var args []string
		var pairs [][2]string
		pool := []string{"k", "a b", "", "ключ"}
		for j := 0; j < np; j++ {
			k := c17Str(r, 10)
			if r.Intn(3) == 0 {
				k = verifh.Pick(r, pool)
			}
			v := c17Str(r, 16)
			args = append(args, k, v)
			pairs = append(pairs, [2]string{k, v})
		}
		odd := r.Intn(6) == 0
		if odd {
			args = append(args, c17Str(r, 5))
			s.Count("odd")
		} else {
			s.Count("even")
		}
		c := C()
		req := c.R()
		req.Method = verifh.Pick(r, []string{"POST", "PUT", "PATCH"})
		req.SetOrderedFormData(args...)
		failed, body, ct := c17RunBodyMiddleware(c, req)
		impl := "err"
		ok := false
		class := ""
		if odd {
			// the caller must learn about the bad argument list from this very call
			ok = failed
			class = "c17-ordered-odd"
		} else if !failed {
			ok = c17OrderedOracle(string(body), pairs) && ct == "application/x-www-form-urlencoded"
		}
		if !failed {
			impl = verifh.Hex(string(body))
		}
		s.Case("c17ordered "+verifh.HexList(args), impl, ok, class, !odd && np >= 2,
			fmt.Sprintf("args=%q -> failed=%v body=%q ct=%q", args, failed, body, ct))
	}
	s.Finish()
}

// TestVerif_C17_parseq ties the Lean SERVER model of url.ParseQuery to Go's: encoded bodies
// (valid stream) and mutated ones (bad escapes, semicolons, stray separators).
func TestVerif_C17_parseq(t *testing.T) {
	s := verifh.New(t, "C17", "parseq",
		"query strings: url.Values.Encode / ordered encodings of generated data (valid stream, 1/2) and byte-level mutations of them or strings over the alphabet %+&=;0-9a-fA-FgG (malformed stream); Go url.ParseQuery vs the Lean parseForm; non-trivial = at least one pair parsed")
	r := s.Rand()
	n := verifh.N(2500, 100000)
	for i := 0; i < n; i++ {
		var q string
		switch r.Intn(4) {
		case 0, 1:
			q = c17GenValues(r, 5, nil).values().Encode()
			if r.Intn(2) == 0 && len(q) > 0 { // mutate
				b := []byte(q)
				for m := 0; m <= r.Intn(3); m++ {
					p := r.Intn(len(b))
					switch r.Intn(4) {
					case 0:
						b[p] = "%&=;+"[r.Intn(5)]
					case 1:
						b = append(b[:p], b[p+1:]...)
					case 2:
						b = append(b[:p], append([]byte{"%&=;+gG"[r.Intn(7)]}, b[p:]...)...)
					default:
						b[p] = byte(r.Intn(256))
					}
					if len(b) == 0 {
						break
					}
				}
				q = string(b)
				s.Count("mutated")
			} else {
				s.Count("valid")
			}
		case 2:
			q = verifh.RandBytes(r, r.Intn(24), "%+&=;0123456789abcdefABCDEFgG x")
			s.Count("alphabet")
		default:
			q = c17Str(r, 30)
			s.Count("free")
		}
		if strings.ContainsAny(q, "\n") {
			// the line protocol is hex, so any byte is fine; nothing to exclude
		}
		got, err := url.ParseQuery(q)
		var ks, vs []string
		for _, k := range c17SortedKeys(got) {
			for _, v := range got[k] {
				ks = append(ks, k)
				vs = append(vs, v)
			}
		}
		st := "ok"
		if err != nil {
			st = "err"
			s.Count("err")
		}
		s.Case("c17parseq "+verifh.Hex(q), verifh.HexList(ks)+" "+verifh.HexList(vs)+" "+st, true, "", len(ks) > 0,
			fmt.Sprintf("%q -> %q err=%v", q, got, err))
	}
	s.Finish()
}
