//go:build verif

package req

// Shared pieces of the C20 lanes: the tagged hex-identity "hash" installed into hashFuncs,
// the injected entropy source, an RFC 7616 verifier written independently of digest.go (the
// e2e origin and the oracle of the unit lanes), and the grammar-directed challenge generator.

import (
	"crypto/md5"
	crand "crypto/rand"
	"crypto/sha256"
	"crypto/sha512"
	"encoding/hex"
	"errors"
	"fmt"
	"hash"
	"io"
	"math/rand"
	"sort"
	"strings"

	"github.com/imroc/req/v3/internal/verifh"
)

// ---------------------------------------------------------------- identity hash

// c20idHash: Sum = tag byte ++ everything written. With it the `response` parameter is the
// hex of its own pre-image, so it can be compared with the Lean model instantiated at the
// same function (Req.Driver.L.C20.idH).
type c20idHash struct {
	tag byte
	buf []byte
}

func (h *c20idHash) Write(p []byte) (int, error) { h.buf = append(h.buf, p...); return len(p), nil }
func (h *c20idHash) Sum(b []byte) []byte         { return append(append(b, h.tag), h.buf...) }
func (h *c20idHash) Reset()                      { h.buf = nil }
func (h *c20idHash) Size() int                   { return 0 }
func (h *c20idHash) BlockSize() int              { return 1 }

// c20Probe identifies a real constructor by a known-answer probe: 'm' md5, '2' sha256,
// '5' sha512/256, 'x' sha512, '?' anything else.
func c20Probe(ctor func() hash.Hash) byte {
	var out string
	if _, p := verifh.Safely(func() {
		h := ctor()
		h.Write([]byte("abc"))
		out = hex.EncodeToString(h.Sum(nil))
	}); p {
		return '?'
	}
	m := md5.Sum([]byte("abc"))
	s2 := sha256.Sum256([]byte("abc"))
	s5 := sha512.Sum512_256([]byte("abc"))
	sx := sha512.Sum512([]byte("abc"))
	switch out {
	case hex.EncodeToString(m[:]):
		return 'm'
	case hex.EncodeToString(s2[:]):
		return '2'
	case hex.EncodeToString(s5[:]):
		return '5'
	case hex.EncodeToString(sx[:]):
		return 'x'
	}
	return '?'
}

// c20SpecTag is the oracle's own table (RFC 7616 section 6.1): algorithm name -> tag.
func c20SpecTag(name string) (byte, bool) {
	switch strings.TrimSuffix(name, "-sess") {
	case "", "MD5":
		if name == "-sess" {
			return 0, false
		}
		return 'm', true
	case "SHA-256":
		return '2', true
	case "SHA-512-256":
		return '5', true
	}
	return 0, false
}

// c20InstallIdentity replaces every constructor of hashFuncs by the identity hash tagged
// with what the REAL constructor is (probed). row13 lists the names whose real constructor
// is plain SHA-512 where SHA-512/256 is required (known finding, fixes/C20-1): for those the
// tag is normalised to '5' so that the rest of authorize stays comparable with the model.
func c20InstallIdentity() (restore func(), row13 []string) {
	saved := map[string]func() hash.Hash{}
	for k, v := range hashFuncs {
		saved[k] = v
	}
	for k, v := range saved {
		tag := c20Probe(v)
		if want, ok := c20SpecTag(k); ok && want == '5' && tag == 'x' {
			row13 = append(row13, k)
			tag = '5'
		}
		t := tag
		hashFuncs[k] = func() hash.Hash { return &c20idHash{tag: t} }
	}
	sort.Strings(row13)
	return func() {
		for k := range hashFuncs {
			delete(hashFuncs, k)
		}
		for k, v := range saved {
			hashFuncs[k] = v
		}
	}, row13
}

func c20IdH(tag byte, data string) string { return hex.EncodeToString(append([]byte{tag}, data...)) }

// ---------------------------------------------------------------- entropy injection

// c20Reader serves the same 16 bytes to every Read (so other consumers of crypto/rand, e.g.
// multipart boundaries, cannot shift what resp() sees); fail makes every Read fail.
type c20Reader struct {
	b    []byte
	fail bool
}

func (r *c20Reader) Read(p []byte) (int, error) {
	if r.fail {
		return 0, errors.New("verif: entropy source failed")
	}
	for i := range p {
		p[i] = r.b[i%len(r.b)]
	}
	return len(p), nil
}

func c20InjectRand(b []byte, fail bool) (restore func()) {
	old := crand.Reader
	crand.Reader = &c20Reader{b: b, fail: fail}
	return func() { crand.Reader = old }
}

var _ io.Reader = (*c20Reader)(nil)

// ---------------------------------------------------------------- error enum

func c20ErrName(err error) string {
	switch {
	case err == nil:
		return "nil"
	case errors.Is(err, errDigestBadChallenge):
		return "bad-challenge"
	case errors.Is(err, errDigestCharset):
		return "charset"
	case errors.Is(err, errDigestAlgNotSupported):
		return "alg"
	case errors.Is(err, errDigestQopNotSupported):
		return "qop"
	case strings.Contains(err.Error(), "verif: entropy source failed"):
		return "rand"
	case strings.Contains(err.Error(), "unreplayable"):
		return "unreplayable-body"
	case strings.Contains(err.Error(), "invalid header field value"):
		return "invalid-header" // the transport refuses a field value with a control byte; nothing is sent
	}
	return "other"
}

// ---------------------------------------------------------------- independent RFC 7616 verifier (Go)

type c20Issued struct {
	realm, nonce string
	opaque       *string
	algorithm    *string  // nil = parameter not sent (MD5)
	qops         []string // nil = no qop parameter
	userhash     bool
}

type c20Ctx struct {
	is                      c20Issued
	method, uri, user, pass string
	body                    []byte
}

func c20IsTchar(c byte) bool {
	if c >= '0' && c <= '9' || c >= 'a' && c <= 'z' || c >= 'A' && c <= 'Z' {
		return true
	}
	return strings.IndexByte("!#$%&'*+-.^_`|~", c) >= 0
}

func c20IsText(c byte) bool { return c == '\t' || (c >= 32 && c != 127) }

// c20ParseCredentials: credentials = "Digest" SP #auth-param, RFC 7235 section 2.1 with the
// quoted-string of RFC 7230 section 3.2.6. Names are lower-cased; a repeated name, an empty
// list, an empty token, an unterminated string or junk between parameters is an error.
func c20ParseCredentials(hdr string) (map[string]string, error) {
	if len(hdr) < 7 || !strings.EqualFold(hdr[:7], "digest ") {
		return nil, errors.New("not a Digest credential")
	}
	s := hdr[7:]
	i := 0
	ows := func() {
		for i < len(s) && (s[i] == ' ' || s[i] == '\t') {
			i++
		}
	}
	out := map[string]string{}
	for {
		ows()
		st := i
		for i < len(s) && c20IsTchar(s[i]) {
			i++
		}
		if i == st {
			return nil, fmt.Errorf("parameter name expected at %d", st)
		}
		name := strings.ToLower(s[st:i])
		ows()
		if i >= len(s) || s[i] != '=' {
			return nil, fmt.Errorf("'=' expected at %d", i)
		}
		i++
		ows()
		var val []byte
		if i < len(s) && s[i] == '"' {
			i++
			closed := false
			for i < len(s) {
				c := s[i]
				i++
				if c == '"' {
					closed = true
					break
				}
				if c == '\\' {
					if i >= len(s) || !c20IsText(s[i]) {
						return nil, errors.New("bad quoted-pair")
					}
					val = append(val, s[i])
					i++
					continue
				}
				if !c20IsText(c) {
					return nil, errors.New("control character in quoted-string")
				}
				val = append(val, c)
			}
			if !closed {
				return nil, errors.New("unterminated quoted-string")
			}
		} else {
			st := i
			for i < len(s) && c20IsTchar(s[i]) {
				i++
			}
			if i == st {
				return nil, fmt.Errorf("empty value for %s", name)
			}
			val = []byte(s[st:i])
			// a token runs up to OWS, "," or the end
			if i < len(s) && s[i] != ' ' && s[i] != '\t' && s[i] != ',' {
				return nil, fmt.Errorf("junk after token value of %s", name)
			}
		}
		if _, dup := out[name]; dup {
			return nil, fmt.Errorf("parameter %s twice", name)
		}
		out[name] = string(val)
		ows()
		if i >= len(s) {
			return out, nil
		}
		if s[i] != ',' {
			return nil, fmt.Errorf("',' expected at %d", i)
		}
		i++
	}
}

// c20Verify recomputes the response per RFC 7616 3.4.1-3.4.4 (RFC 2069 form when no qop was
// offered). hf(tag, data) is the hex digest: real hashes in the e2e lane, the identity hash
// in the correspondence lanes.
func c20Verify(hf func(tag byte, data string) string, x c20Ctx, hdr string) (bool, string) {
	ps, err := c20ParseCredentials(hdr)
	if err != nil {
		return false, "syntax: " + err.Error()
	}
	need := func(k string) (string, bool) { v, ok := ps[k]; return v, ok }
	username, ok1 := need("username")
	realm, ok2 := need("realm")
	nonce, ok3 := need("nonce")
	uri, ok4 := need("uri")
	response, ok5 := need("response")
	if !(ok1 && ok2 && ok3 && ok4 && ok5) {
		return false, "missing required parameter"
	}
	if realm != x.is.realm {
		return false, "realm differs from the challenge"
	}
	if nonce != x.is.nonce {
		return false, "nonce differs from the challenge"
	}
	if uri != x.uri {
		return false, "uri differs from the request target"
	}
	op, hasOp := ps["opaque"]
	if (x.is.opaque == nil) != !hasOp || (hasOp && op != *x.is.opaque) {
		return false, "opaque not returned unchanged"
	}
	effIssued := "MD5"
	if x.is.algorithm != nil {
		effIssued = *x.is.algorithm
	}
	effSent := "MD5"
	if a, ok := ps["algorithm"]; ok {
		effSent = a
	}
	if effSent != effIssued {
		return false, "algorithm differs from the challenge"
	}
	var tag byte
	var sess bool
	switch effIssued {
	case "MD5":
		tag = 'm'
	case "MD5-sess":
		tag, sess = 'm', true
	case "SHA-256":
		tag = '2'
	case "SHA-256-sess":
		tag, sess = '2', true
	case "SHA-512-256":
		tag = '5'
	case "SHA-512-256-sess":
		tag, sess = '5', true
	default:
		return false, "algorithm not registered"
	}
	h := func(parts ...string) string { return hf(tag, strings.Join(parts, ":")) }
	if uh, ok := ps["userhash"]; ok {
		switch uh {
		case "true":
			if !x.is.userhash || username != h(x.user, realm) {
				return false, "userhash username wrong"
			}
		case "false":
			if username != x.user {
				return false, "username wrong"
			}
		default:
			return false, "userhash value"
		}
	} else if username != x.user {
		return false, "username wrong"
	}
	cnonce, hasCn := ps["cnonce"]
	nc, hasNc := ps["nc"]
	ha1 := h(x.user, realm, x.pass)
	if sess {
		if !hasCn {
			return false, "-sess without cnonce cannot be verified"
		}
		ha1 = h(ha1, nonce, cnonce)
	}
	qop, hasQop := ps["qop"]
	if !hasQop {
		if len(x.is.qops) != 0 {
			return false, "qop offered but not used"
		}
		if hasCn || hasNc {
			return false, "nc/cnonce without qop"
		}
		if response != h(ha1, nonce, h(x.method, uri)) {
			return false, "response mismatch (no qop)"
		}
		return true, ""
	}
	offered := false
	for _, q := range x.is.qops {
		if q == qop {
			offered = true
		}
	}
	if !offered {
		return false, "qop not among the offered"
	}
	if !hasCn || !hasNc {
		return false, "qop without nc/cnonce"
	}
	if nc != "00000001" {
		return false, "nc is not the first use of the nonce"
	}
	var ha2 string
	switch qop {
	case "auth":
		ha2 = h(x.method, uri)
	case "auth-int":
		ha2 = h(x.method, uri, hf(tag, string(x.body)))
	default:
		return false, "unknown qop"
	}
	if response != h(ha1, nonce, nc, cnonce, qop, ha2) {
		return false, "response mismatch"
	}
	return true, ""
}

func c20RealH(tag byte, data string) string {
	switch tag {
	case 'm':
		s := md5.Sum([]byte(data))
		return hex.EncodeToString(s[:])
	case '2':
		s := sha256.Sum256([]byte(data))
		return hex.EncodeToString(s[:])
	case '5':
		s := sha512.Sum512_256([]byte(data))
		return hex.EncodeToString(s[:])
	}
	return "!"
}

// ---------------------------------------------------------------- generators

var c20Words = []string{"testrealm@host.com", "api", "Secure Area", "r", "http-auth@example.org", "café réalm", "東京", "realm with  spaces", "a=b", "x:y", "A-Z_0.9~", "\xe9\xe8 latin1", "tab\there"}
var c20Nonces = []string{"dcd98b7102dd2f0e8b11d0f600bfb0c093", "7ypf/xlj9XXwfDPEoM4URrv/xwf94BcCAzFZH4GiTo0v", "n", "AAAA==", "nonce=with=eq", "5ccc069c403ebaf9f0171e9517f40e41", "n0nce:with:colons", "ü-nonce"}

// c20Text draws a string for user/password/token/realm-like positions.
// kinds: plain, colon, non-ASCII (UTF-8 and Latin-1), empty, long, spaces; with special=true
// also comma / quote / backslash (the quoted-string corner).
// c20SchemeLike: credential strings that themselves begin with (or are) the name of an
// authentication scheme - a token stored as the complete header value "Bearer xxx", a password
// "Basic QQ==", any letter case, one or two spaces, the scheme twice, the bare word. A setter
// must prefix its scheme to these like to any other string (round 7: C20-r7-2).
var c20SchemeLike = []string{"Bearer abc", "bearer abc", "BEARER  x", "BeArEr t0k", "Bearer Bearer abc", "Bearer", "Bearer ", "bearer  ", "Bearer\tabc",
	"Bearerabc", "Basic QQ==", "basic YTpi", "Basic Bearer abc", "Bearer Basic YTpi", "Basic", "Basic ", "Digest username=\"u\"", "digest x", "Bearer a:b", "Token abc"}

// c20SchemeText: one of c20SchemeLike or a scheme word in random letter case + 0-2 spaces + a
// random tail (possibly empty).
func c20SchemeText(r *rand.Rand) string {
	if r.Intn(2) == 0 {
		return verifh.Pick(r, c20SchemeLike)
	}
	w := []byte(verifh.Pick(r, []string{"Bearer", "Bearer", "Bearer", "Basic", "Digest"}))
	for i := range w {
		switch r.Intn(4) {
		case 0:
			w[i] = byte(strings.ToUpper(string(w[i]))[0])
		case 1:
			w[i] = byte(strings.ToLower(string(w[i]))[0])
		}
	}
	return string(w) + strings.Repeat(" ", r.Intn(3)) + verifh.RandBytes(r, r.Intn(9), "abcXYZ019=:-._~")
}

func c20Text(r *rand.Rand, special bool) (string, string) {
	switch k := r.Intn(13); {
	case k == 0:
		return "", "empty"
	case k == 12:
		return c20SchemeText(r), "scheme-like"
	case k == 1:
		return verifh.RandBytes(r, 1+r.Intn(8), "abcXYZ019") + ":" + verifh.RandBytes(r, r.Intn(5), "abc:"), "colon"
	case k == 2:
		return verifh.Pick(r, []string{"Mufasa", "Jäsøn Doe", "ユーザー", "naïve", "ä", "\U0001F511key"}), "non-ascii"
	case k == 3:
		return verifh.RandBytes(r, 1+r.Intn(6), "\xe9\xfc\xa0az"), "latin1"
	case k == 4:
		return verifh.RandBytes(r, 200+r.Intn(700), "abcdefghijklmnopqrstuvwxyz0123456789-._~"), "long"
	case k == 5:
		return verifh.RandBytes(r, 1+r.Intn(10), "ab c  d"), "spaces"
	case k == 6 && special:
		return verifh.RandBytes(r, 1+r.Intn(8), "ab,c\"d\\e"), "special"
	default:
		return verifh.RandBytes(r, 1+r.Intn(12), "abcdefghijklmnopqrstuvwxyzABCDEFGHIJKLMNOPQRSTUVWXYZ0123456789!#$%&'*+-.^_`|~@/()<>[]{}?;= "), "plain"
	}
}

type c20Param struct {
	name, value string
	quoted      bool
}

// c20Chal is a generated challenge: what the server means (is), how it is written (raw) and
// which corner of the grammar the rendering uses (tags).
type c20Chal struct {
	is   c20Issued
	raw  string
	tags map[string]bool
	// header level (c20GenHeader): the field lines, every Digest challenge in them in order, and
	// whether the text is expected to be refused as a whole (duplicate parameter, bad charset)
	lines  []string
	all    []c20Issued
	broken bool
	// loose: the text uses white space that is not OWS of RFC 7230 (VT, FF, CR, LF, Unicode
	// spaces; the code as found trimmed them with strings.TrimSpace): answering and refusing
	// are both in order
	loose  bool
	isLine int // index of the field line that carries the challenge `is`
}

// c20Answerable is the oracle's own reading of "a challenge the client can answer": a registered
// algorithm (RFC 7616 section 6.1), no qop or a qop list offering "auth", and not a -sess
// algorithm without qop (its cnonce could not be transmitted).
func c20Answerable(is c20Issued) bool {
	alg := ""
	if is.algorithm != nil {
		alg = *is.algorithm
	}
	if _, ok := c20SpecTag(alg); !ok {
		return false
	}
	if is.qops == nil {
		return !strings.HasSuffix(alg, "-sess")
	}
	for _, q := range is.qops {
		if q == "auth" {
			return true
		}
	}
	return false
}

// c20QuoteX writes a quoted-string with gratuitous quoted-pairs (any byte may be escaped).
func c20QuoteX(r *rand.Rand, v string) string {
	var b strings.Builder
	b.WriteByte('"')
	for i := 0; i < len(v); i++ {
		if v[i] == '"' || v[i] == '\\' || r.Intn(6) == 0 {
			b.WriteByte('\\')
		}
		b.WriteByte(v[i])
	}
	b.WriteByte('"')
	return b.String()
}

var c20OtherChallenges = []string{`Basic realm="x"`, `Basic realm="a, b", charset="UTF-8"`, "Bearer", "Negotiate", "NTLM", "negotiate", "Negotiate YIIB6wYGKwYBBQUCoIIB3zCCAdugMDAuBgkqhkiC9xIBAgI=",
	"NTLM TlRMTVNTUAACAAAAAAAAACgAAAABggAAU3J2Tm9uY2UAAAAAAAAAAA==", `Newauth realm="apps", type=1, title="Login to \"apps\""`,
	`Bearer realm="example", error="invalid_token", error_description="The access token expired"`, `Basic realm = "bws" , charset = UTF-8`,
	`Hoba realm=x`, `Mutual realm="m", algorithm="iso-kam3-dl-2048-sha256", version=1, validated="host"`}

// c20GenHeader builds what an RFC 7235 server may put into the WWW-Authenticate field(s) of a
// 401: one to three challenges (Digest ones from c20GenChallenge; Basic, Bearer, Negotiate/NTLM
// with and without token68, schemes with quoted commas and quoted-pairs), in one field line or
// spread over several, with empty list elements. is = the first Digest challenge the oracle
// considers answerable (RFC 7616 section 3.7), all = every Digest challenge in order.
func c20GenHeader(r *rand.Rand, wire bool) c20Chal {
	n := 1
	switch k := r.Intn(10); {
	case k >= 8:
		n = 3
	case k >= 6:
		n = 2
	}
	out := c20Chal{tags: map[string]bool{}}
	var texts []string
	single := ""
	ansIdx := -1
	digest := r.Intn(n) // at least one Digest challenge
	answered := false
	for i := 0; i < n; i++ {
		if i == digest || r.Intn(3) == 0 {
			g := c20GenChallenge(r, wire)
			for t := range g.tags {
				out.tags[t] = true
			}
			out.all = append(out.all, g.is)
			if g.broken {
				out.broken = true
			}
			if g.loose {
				out.loose = true
			}
			if !answered && c20Answerable(g.is) {
				out.is, answered = g.is, true
				ansIdx = i
			}
			texts = append(texts, strings.Trim(g.raw, " \t\r\n"))
			single = g.raw
		} else {
			texts = append(texts, verifh.Pick(r, c20OtherChallenges))
			out.tags["other-scheme"] = true
		}
	}
	if len(out.all) > 1 {
		out.tags["several-digest"] = true
	}
	if !answered {
		out.is = out.all[0]
	}
	if n > 1 {
		out.tags["multi"] = true
	}
	// lay the challenges out in field lines
	cur := ""
	for i, t := range texts {
		if i > 0 && r.Intn(2) == 0 {
			out.lines = append(out.lines, cur)
			cur = ""
			out.tags["multi-line"] = true
		}
		if cur != "" {
			cur += verifh.Pick(r, []string{", ", ",", " , ", ", , ", ",\t"})
		}
		cur += t
		if i == ansIdx {
			out.isLine = len(out.lines)
		}
	}
	out.lines = append(out.lines, cur)
	if r.Intn(12) == 0 {
		i := r.Intn(len(out.lines))
		out.lines[i] = verifh.Pick(r, []string{", ", ",", " ,, "}) + out.lines[i]
		out.tags["empty-elem"] = true
	}
	if r.Intn(12) == 0 {
		i := r.Intn(len(out.lines))
		out.lines[i] += verifh.Pick(r, []string{",", " ,", ", ,"})
		out.tags["empty-elem"] = true
	}
	if n == 1 && len(out.lines) == 1 && !out.tags["empty-elem"] {
		out.lines[0] = single // a single challenge keeps its outer white space
	}
	out.raw = strings.Join(out.lines, ", ")
	return out
}

func c20Quote(v string) string {
	v = strings.ReplaceAll(v, `\`, `\\`)
	v = strings.ReplaceAll(v, `"`, `\"`)
	return `"` + v + `"`
}

func c20IsToken(v string) bool {
	if v == "" {
		return false
	}
	for i := 0; i < len(v); i++ {
		if !c20IsTchar(v[i]) {
			return false
		}
	}
	return true
}

var c20AlgNames = []string{"MD5", "MD5-sess", "SHA-256", "SHA-256-sess", "SHA-512-256", "SHA-512-256-sess"}

// c20GenChallenge builds a grammatical RFC 7616 challenge over
// {absent, MD5, MD5-sess, SHA-256(-sess), SHA-512-256(-sess), unknown} x qop {absent, auth,
// auth-int, lists} x opaque x userhash x domain/stale/charset/unknown parameters, rendered with
// random parameter order, quoting form, white space and (rarely) the grammar's bad corners.
// wire=true keeps the text inside what an HTTP header field can carry unchanged.
func c20GenChallenge(r *rand.Rand, wire bool) c20Chal {
	c := c20Chal{tags: map[string]bool{}}
	tag := func(t string) { c.tags[t] = true }
	c.is.realm = verifh.Pick(r, c20Words)
	if r.Intn(10) == 0 {
		c.is.realm, _ = c20Text(r, false)
	}
	c.is.nonce = verifh.Pick(r, c20Nonces)
	if r.Intn(4) == 0 {
		c.is.nonce = verifh.RandBytes(r, 8+r.Intn(40), "abcdefABCDEF0123456789+/=")
	}
	var ps []c20Param
	ps = append(ps, c20Param{"realm", c.is.realm, true}, c20Param{"nonce", c.is.nonce, true})
	// algorithm
	switch k := r.Intn(16); {
	case k < 2:
		tag("alg:absent")
	case k == 2:
		a := verifh.Pick(r, []string{"SHA-1", "md5", "SHA-512", "sha-256", "MD5-SESS", "token68", "SHA-512-256-Sess"})
		c.is.algorithm = &a
		tag("alg:unknown")
	default:
		a := c20AlgNames[r.Intn(len(c20AlgNames))]
		c.is.algorithm = &a
		tag("alg:" + a)
	}
	if c.is.algorithm != nil {
		q := r.Intn(5) == 0
		if q {
			tag("alg-quoted")
		}
		ps = append(ps, c20Param{"algorithm", *c.is.algorithm, q})
	}
	// qop
	switch k := r.Intn(12); {
	case k < 2:
		tag("qop:absent")
	case k < 7:
		c.is.qops = []string{"auth"}
		tag("qop:auth")
	case k == 7:
		c.is.qops = []string{"auth-int"}
		tag("qop:auth-int")
	case k == 8:
		c.is.qops = []string{"auth", "auth-int"}
		tag("qop:list")
	case k == 9:
		c.is.qops = []string{"auth-int", "auth"}
		tag("qop:list")
	case k == 10:
		c.is.qops = []string{verifh.Pick(r, []string{"auth-conf", "AUTH", "token"})}
		tag("qop:unknown")
	default:
		c.is.qops = []string{"auth"}
		tag("qop:auth")
	}
	if c.is.qops != nil {
		sep := ","
		if len(c.is.qops) > 1 {
			sep = verifh.Pick(r, []string{",", ", ", " , ", ",\t", " ,", ",  "})
			tag("quoted-comma")
		}
		v := strings.Join(c.is.qops, sep)
		if len(c.is.qops) > 1 && r.Intn(5) == 0 {
			v = verifh.Pick(r, []string{" ", "\t", ""}) + v + verifh.Pick(r, []string{" ", "", ","})
		}
		q := true
		if len(c.is.qops) == 1 && r.Intn(4) == 0 {
			q = false
			tag("qop-token")
		}
		ps = append(ps, c20Param{"qop", v, q})
	}
	if r.Intn(2) == 0 {
		o := verifh.Pick(r, []string{"5ccc069c403ebaf9f0171e9517f40e41", "FQhe/qaU925kfnzjCev0ciny7QMkPqMAFRtzCUYo5tdS", "o", "opaque value", "=="})
		c.is.opaque = &o
		tag("opaque")
		ps = append(ps, c20Param{"opaque", o, true})
	}
	switch r.Intn(6) {
	case 0:
		c.is.userhash = true
		tag("userhash:true")
		ps = append(ps, c20Param{"userhash", "true", false})
	case 1:
		c.is.userhash = true
		tag("userhash:true")
		tag("userhash-quoted")
		ps = append(ps, c20Param{"userhash", "true", true})
	case 2:
		tag("userhash:false")
		ps = append(ps, c20Param{"userhash", "false", false})
	}
	if r.Intn(5) == 0 {
		ps = append(ps, c20Param{"domain", verifh.Pick(r, []string{"/", "/a /b", "http://example.org/"}), true})
		tag("domain")
	}
	if r.Intn(5) == 0 {
		ps = append(ps, c20Param{"stale", verifh.Pick(r, []string{"false", "FALSE", "true"}), r.Intn(3) == 0})
		tag("stale")
	}
	if r.Intn(6) == 0 {
		cs := verifh.Pick(r, []string{"UTF-8", "utf-8", "Utf-8", "ISO-8859-1", "UTF-16", "ıtf-8"})
		ps = append(ps, c20Param{"charset", cs, r.Intn(3) == 0 || !c20IsToken(cs)})
		tag("charset:" + strings.ToUpper(cs))
		if strings.ToUpper(cs) != "UTF-8" {
			c.broken = true
		}
	}
	if r.Intn(14) == 0 {
		// RFC 7616 section 3.3: unrecognized parameters are ignored
		ps = append(ps, c20Param{verifh.Pick(r, []string{"foo", "x-ext", "Realm2", "n0nce"}), verifh.Pick(r, []string{"bar", "b, a\"r", ""}), r.Intn(2) == 0})
		tag("unknown-param")
	}
	if r.Intn(25) == 0 {
		// RFC 7235 section 2.1: a parameter name MUST only occur once per challenge (names are case-insensitive)
		d := ps[r.Intn(len(ps))]
		switch r.Intn(3) {
		case 0:
			d.name = strings.ToUpper(d.name)
		case 1:
			d.value += "x"
		}
		ps = append(ps, d)
		tag("dup-param")
		c.broken = true
	}
	if r.Intn(15) == 0 {
		i := r.Intn(len(ps))
		ps[i].name = verifh.Pick(r, []string{strings.ToUpper(ps[i].name), strings.ToUpper(ps[i].name[:1]) + ps[i].name[1:]})
		tag("name-case")
	}
	// the bad corners of the grammar (rare)
	if r.Intn(14) == 0 {
		// a quoted value that contains a comma (and perhaps something that looks like a parameter)
		v := verifh.Pick(r, []string{"Acme, Inc", "a,b", "x, opaque=y", "x, nonce=z", "p,q=r", ","})
		c.is.realm = v
		ps[0].value = v
		tag("quoted-comma")
	}
	if r.Intn(20) == 0 {
		v := verifh.Pick(r, []string{`say "hi"`, `back\slash`, `"`, `a\"b`})
		c.is.realm = v
		ps[0].value = v
		tag("quoted-pair")
	}
	r.Shuffle(len(ps), func(i, j int) { ps[i], ps[j] = ps[j], ps[i] })
	bws := r.Intn(25) == 0
	if bws {
		tag("bws")
	}
	var b strings.Builder
	scheme := "Digest"
	if r.Intn(30) == 0 {
		scheme = verifh.Pick(r, []string{"digest", "DIGEST"})
		tag("scheme-case")
	}
	if !wire && r.Intn(6) == 0 {
		ws := verifh.Pick(r, []string{" ", "\t", "\r\n ", "  "})
		b.WriteString(ws)
		tag("outer-ws")
		c.loose = c.loose || strings.ContainsAny(ws, "\r\n")
	}
	b.WriteString(scheme)
	b.WriteString(verifh.Pick(r, []string{" ", " ", " ", "  ", " \t"}))
	for i, p := range ps {
		if i > 0 {
			b.WriteString(verifh.Pick(r, []string{"", "", " "}))
			b.WriteString(",")
			if r.Intn(30) == 0 {
				b.WriteString(verifh.Pick(r, []string{",", " ,", "\t, ,"}))
				tag("empty-elem")
			}
			switch k := r.Intn(40); {
			case k == 0:
				b.WriteString(verifh.Pick(r, []string{"\u00a0", "\u2028", "\u0085", " \u3000", "\u2003 "}))
				tag("unicode-ws")
				c.loose = true
			case k == 1 && !wire:
				b.WriteString(verifh.Pick(r, []string{"\v", "\f", "\n", "\r\n "}))
				tag("ascii-ws")
				c.loose = true
			default:
				b.WriteString(verifh.Pick(r, []string{" ", " ", " ", "", "  ", "\t", " \t ", " ", " "}))
			}
		}
		b.WriteString(p.name)
		if bws {
			b.WriteString(verifh.Pick(r, []string{" ", "", "\t"}))
		}
		b.WriteString("=")
		if bws {
			b.WriteString(verifh.Pick(r, []string{" ", "", " "}))
		}
		if p.quoted || !c20IsToken(p.value) {
			if r.Intn(25) == 0 && p.value != "" {
				b.WriteString(c20QuoteX(r, p.value))
				tag("quoted-pair")
			} else {
				b.WriteString(c20Quote(p.value))
			}
		} else {
			b.WriteString(p.value)
		}
	}
	if !wire && r.Intn(6) == 0 {
		ws := verifh.Pick(r, []string{" ", "\t", "\r\n", " \n"})
		b.WriteString(ws)
		tag("outer-ws")
		c.loose = c.loose || strings.ContainsAny(ws, "\r\n")
	}
	c.raw = b.String()
	c.lines = []string{c.raw}
	c.all = []c20Issued{c.is}
	return c
}

// c20Mutate damages a challenge text: byte deletions, insertions from the delimiter
// alphabet, truncation, duplication.
func c20Mutate(r *rand.Rand, s string) string {
	b := []byte(s)
	for n := 1 + r.Intn(3); n > 0; n-- {
		switch r.Intn(5) {
		case 0:
			if len(b) > 0 {
				i := r.Intn(len(b))
				b = append(b[:i:i], b[i+1:]...)
			}
		case 1:
			i := r.Intn(len(b) + 1)
			ins := verifh.RandBytes(r, 1, "\",= \t\\,,==\"\"ab\xc2\xa0\x85")
			b = append(b[:i:i], append([]byte(ins), b[i:]...)...)
		case 2:
			if len(b) > 0 {
				b = b[:r.Intn(len(b))]
			}
		case 3:
			if len(b) > 0 {
				i := r.Intn(len(b))
				b[i] = verifh.RandBytes(r, 1, "")[0]
			}
		default:
			if len(b) > 2 {
				i := r.Intn(len(b) - 1)
				j := i + 1 + r.Intn(len(b)-i-1)
				b = append(b[:j:j], append(append([]byte{}, b[i:j]...), b[j:]...)...)
			}
		}
	}
	return string(b)
}

// c20DamageParam damages ONE parameter of a grammatical challenge list the way a buggy server
// (or a truncating intermediary) does - the family of lean/Req/Props/C20Malformed.lean
// (bad_param_errors, unterminated_quote_is_error_e2e, meaningless_refused): a quoted-string that is
// never closed (it swallows the rest of the list), something after a closing quote, a missing comma
// between two parameters, a parameter without value, the same (unknown) name twice in a challenge,
// a parameter in front of the first scheme. The verdict stays the model's.
func c20DamageParam(r *rand.Rand, s string) (string, string) {
	quotes := []int{}
	for i := 0; i < len(s); i++ {
		if s[i] == '"' && (i == 0 || s[i-1] != '\\') {
			quotes = append(quotes, i)
		}
	}
	switch way := r.Intn(6); {
	case way == 0 && len(quotes) > 0:
		i := quotes[len(quotes)-1-2*r.Intn((len(quotes)+1)/2)] // a closing quote (when the text is grammatical)
		return s[:i] + s[i+1:], "unterminated-quote"
	case way == 1 && len(quotes) > 1:
		i := quotes[1+2*r.Intn(len(quotes)/2)]
		return s[:i+1] + verifh.Pick(r, []string{"x", " y", "\"z\"", "=", " nonce=\"n2\""}) + s[i+1:], "junk-after-quote"
	case way == 2:
		if i := strings.Index(s, "\","); i >= 0 {
			return s[:i+1] + " " + s[i+2:], "missing-comma"
		}
		if i := strings.LastIndex(s, ","); i >= 0 {
			return s[:i] + " " + s[i+1:], "missing-comma"
		}
	case way == 3:
		return s + verifh.Pick(r, []string{", extra=", ",opaque=", ", x =", ", nonce= "}), "empty-value"
	case way == 4:
		return s + ", zz=1, ZZ=\"2\"", "duplicate-name"
	}
	return verifh.Pick(r, []string{"realm=\"x\", ", "nonce=n,", "a=b, "}) + s, "param-before-scheme"
}

var c20Junk = []string{"", "Digest", "Digest ", "Digest  ", "Basic realm=\"x\"", "Bearer", "Negotiate", "NTLM", "digest realm=\"x\", nonce=\"y\"",
	"Digest realm", "Digest =", "Digest ,", "Digest realm=\"x\",", "Digest ,realm=\"x\"", "Digest realm=\"x\" nonce=\"y\"", "Digestrealm=\"x\"",
	"Basic realm=\"x\", Digest realm=\"y\", nonce=\"z\"", "Digest realm=\"x\", nonce=\"y\", Basic realm=\"z\"", "Digest\trealm=\"x\"",
	"Digest realm=x", "Digest realm=\"\"", "Digest nonce=\"n\"", "Digest qop=\"auth\"", "Digest charset=UTF-8", "Digest charset=\"ſtf-8\"",
	"Digest realm=\"x\", nonce=\"y\", algorithm=", "Digest realm=\"x\", nonce=\"y\", algorithm=\"\"", "Digest realm=\"x\", nonce=\"y\", qop=\"\"",
	" Digest realm=\"x\", nonce=\"y\"", "Digest realm=\"x\", nonce=\"y\"", "Digest realm=\"x\", nonce=\"y\" ", "Digest realm=\"x\",\xa0nonce=\"y\"", "Digest realm=\"x\",\xc2nonce=\"y\"",
	"Digest realm=\"x\", nonce=\"y\", qop=\"auth, auth-int\"", "Digest realm=\"x\", nonce=\"y\", qop=auth, qop=auth-int", "Digest realm=\"x\", realm=\"z\", nonce=\"y\"",
}

// c20ErrPreserving: harmless helper for %v of optional strings.
func c20Opt(p *string) string {
	if p == nil {
		return "."
	}
	return verifh.Hex(*p)
}

// ---------------------------------------------------------------- two models, one verdict

// c20Pending is a case whose verdict needs both models: `line` asks the model of the REPAIRED
// code (Req.DigestAuth, fixes/C20-5), `legacy` the model of the code as found (Req.Digest).
type c20Pending struct {
	line, legacy string
	impl         string
	ok           bool
	nontrivial   bool
	human        string
}

// c20Judge collects cases and, at flush, classes as the known finding
// c20-quoted-string-handling exactly those on which the implementation does what the model of
// the code as found does AND that differs from the repaired behaviour. Everything else is an
// ordinary case of the repaired model (any other deviation is a violation, before and after the
// patch is applied).
type c20Judge struct {
	s    *verifh.Session
	pend []c20Pending
}

func (j *c20Judge) add(p c20Pending) { j.pend = append(j.pend, p) }

func (j *c20Judge) flush() {
	lines := make([]string, len(j.pend))
	for i, p := range j.pend {
		lines[i] = p.line
	}
	var ans []string
	if len(lines) > 0 {
		ans, _ = verifh.RunModel(lines) // an error is reported by Finish, which runs the lines again
	}
	var legacyLines []string
	var legacyIdx []int
	for i, p := range j.pend {
		if ans != nil && ans[i] != p.impl && p.legacy != "" {
			legacyLines = append(legacyLines, p.legacy)
			legacyIdx = append(legacyIdx, i)
		}
	}
	class := map[int]string{}
	if len(legacyLines) > 0 {
		if la, err := verifh.RunModel(legacyLines); err == nil {
			for k, i := range legacyIdx {
				if la[k] == j.pend[i].impl {
					class[i] = "c20-quoted-string-handling"
					j.s.Count("known:as-found-parser")
				}
			}
		}
	}
	for i, p := range j.pend {
		j.s.Case(p.line, p.impl, p.ok, class[i], p.nontrivial, p.human)
	}
	j.pend = nil
}
