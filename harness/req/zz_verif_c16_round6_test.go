//go:build verif

package req

// C16 round 6:
//   - CONCURRENT WRITES THROUGH A SHARED SCRATCH OBJECT (lane h1concurrent): HTTP/1.1 requests
//     without a header order take the sorted key/values from a pooled headerSorter
//     (header.go headerSortedKeyValues, sync.Pool shared by every request of the process) and walk
//     its array while they write line by line; every flush of the connection's buffer may park the
//     writer. Whatever is written meanwhile, each connection must carry its own request
//     (Lean: Req/Client/SharedScratch.lean, theorems scratch_own_output / scratch_schedule_irrelevant).
//   - WHOSE ORDER LIST (lane cloneorder): client-level order settings × Clone × later changes: each
//     client sends with the list of its OWN history (Lean: Req/Client/OrderScope.lean, theorems
//     order_follows_own_client / order_unaffected_by_other_clients / clone_then_diverge).

import (
	"bufio"
	"bytes"
	"fmt"
	"io"
	"log"
	"net/http"
	"net/url"
	"os"
	"sort"
	"strconv"
	"strings"
	"sync"
	"testing"

	"github.com/imroc/req/v3/internal/verifh"
)

// c16Gate is the connection of one writer: at the chosen Write calls (a flush that finds the
// socket full: the writer goroutine is parked and the processor runs somebody else) `onPark` runs
// BEFORE the bytes are taken over.
type c16Gate struct {
	buf    bytes.Buffer
	calls  int
	park   map[int]bool
	onPark func(sofar []byte, pending []byte)
}

func (g *c16Gate) Write(p []byte) (int, error) {
	g.calls++
	if g.park[g.calls] && g.onPark != nil {
		g.onPark(g.buf.Bytes(), p)
	}
	return g.buf.Write(p)
}

// c16WriteH1To hands tc to the real persistConn.writeRequest on a new persistConn, writing to w.
func c16WriteH1To(tr *Transport, tc *c01H1Case, w io.Writer) (reads []int, err error, after http.Header, perr string) {
	u, e := url.Parse(tc.rawURL)
	if e != nil {
		return nil, nil, nil, "bad-url"
	}
	if tc.rawQuery != nil {
		u.RawQuery = *tc.rawQuery
	}
	hdr := tc.header.Clone()
	if tc.header != nil && hdr == nil {
		hdr = http.Header{}
	}
	req := &http.Request{
		Method: tc.method, URL: u, Host: tc.host, Header: hdr, Proto: "HTTP/1.1", ProtoMajor: 1, ProtoMinor: 1,
		ContentLength: tc.cl, Close: tc.close,
	}
	var rec []int
	if tc.bodyKind == 1 {
		req.Body = io.NopCloser(&c01BytesBody{r: bytes.NewReader(tc.body), rec: &rec})
	}
	pc := &persistConn{t: tr}
	var extra http.Header
	if tc.extra != nil {
		extra = tc.extra.Clone()
	}
	p, bad := verifh.Safely(func() {
		err = pc.writeRequest(req, w, tc.proxy, extra, nil)
		if f, ok := w.(interface{ Flush() error }); ok {
			f.Flush()
		}
	})
	if bad {
		return nil, nil, nil, p
	}
	return rec, err, req.Header, ""
}

func c16HeadLines(b []byte) int {
	head := b
	if i := bytes.Index(b, []byte("\r\n\r\n")); i >= 0 {
		head = b[:i+2]
	}
	n := bytes.Count(head, []byte("\r\n")) - 1 // without the request line
	if n < 0 {
		n = 0
	}
	return n
}

func c16ShowH1(wire []byte, err error, order []string) string {
	switch {
	case err != nil:
		return c01H1ErrKind(err)
	case len(order) > 0:
		return c01ShowOrdered(wire, order)
	}
	return "ok " + c01Blob(wire)
}

// TestVerif_C16_h1concurrent: 2..4 requests written by the real persistConn.writeRequest with the
// writers parked inside their header blocks while the others are written.
func TestVerif_C16_h1concurrent(t *testing.T) {
	s := c01New(t, "C16", "h1concurrent",
		"2..4 requests of the h1wire generator (three quarters WITHOUT header order: sorted mode, the key/values come from the pooled headerSorter; one quarter with order lists), each written by the real persistConn.writeRequest on its own connection = a bufio.Writer of 16 / 64 / 256 / 1024 / 4096 bytes over a gate; at 1..3 chosen flushes of a connection the writer is parked (before the flushed bytes are taken over) and the NEXT request is written meanwhile on the same processor — nested up to the number of requests, i.e. the interleavings a blocked socket produces with sync.Pool's per-P hand-over made deterministic; every request is also written alone; compared with the model: (1) each connection's bytes vs the HTTP/1.1 rendering of ITS request (c16rewrite 1), (2) the header lines of each connection identified as (request, position) items vs the shared-scratch model run on the observed schedule (c16scratch, pool discipline of the code: every writer ends with exactly its own items); oracle: the bytes of a request written interleaved = the bytes of the same request written alone (byte exact in sorted mode; request line + line multiset + listed names in order with an order list); non-trivial = some writer was parked in the middle of its header block while another request in sorted mode was written")
	r := s.Rand()
	tr := T()
	n := verifh.N(700, 12000)
	sizes := []int{16, 64, 256, 1024, 4096}
	for i := 0; i < n; i++ {
		k := 2 + r.Intn(3)
		var tcs []*c01H1Case
		for len(tcs) < k {
			profile := "plain"
			if r.Intn(4) == 0 {
				profile = "order"
			}
			tc := c01GenH1(r, profile)
			if tc.bodyKind == 2 {
				tc.bodyKind, tc.sizes = 1, nil
			}
			if len(tc.body) > 70000 {
				tc.body = tc.body[:100]
				tc.bodySpec = verifh.Hex(string(tc.body))
				if tc.cl > 0 {
					tc.cl = 100
				}
			}
			u, _ := url.Parse(tc.rawURL)
			effHost := tc.host
			if effHost == "" && u != nil {
				effHost = u.Host
			}
			if !c01IsASCII(effHost) {
				continue
			}
			tcs = append(tcs, tc)
		}
		human := fmt.Sprintf("%d requests written concurrently:", k)
		// alone
		solo := make([][]byte, k)
		soloErr := make([]error, k)
		crashed := ""
		for j, tc := range tcs {
			var buf bytes.Buffer
			bw := bufio.NewWriterSize(&buf, 4096)
			_, err, _, perr := c16WriteH1To(tr, tc, bw)
			if perr != "" {
				crashed = perr
			}
			solo[j], soloErr[j] = append([]byte(nil), buf.Bytes()...), err
			human += fmt.Sprintf(" [%d: %q %q host=%q hdr=%q cl=%d body=%d close=%v extra=%q proxy=%v]", j, tc.method, tc.rawURL, tc.host, tc.header, tc.cl, tc.bodyKind, tc.close, tc.extra, tc.proxy)
		}
		if crashed != "" {
			s.Crash(human, human, crashed, "")
			continue
		}
		// interleaved
		wires := make([][]byte, k)
		errs := make([]error, k)
		reads := make([][]int, k)
		afters := make([]http.Header, k)
		counted := make([]int, k)
		nlines := make([]int, k)
		for j := range tcs {
			nlines[j] = c16HeadLines(solo[j])
		}
		var sched []int
		next := 1
		midPark, sortedUnderSorted, depth, maxDepth := false, false, 0, 0
		var write func(j int)
		write = func(j int) {
			depth++
			if depth > maxDepth {
				maxDepth = depth
			}
			g := &c16Gate{park: map[int]bool{}}
			for p := 1 + r.Intn(3); p > 0; p-- {
				g.park[1+r.Intn(8)] = true
			}
			g.onPark = func(sofar, pending []byte) {
				if next >= k {
					return
				}
				all := append(append([]byte(nil), sofar...), pending...)
				got := c16HeadLines(all)
				if got > nlines[j] {
					got = nlines[j]
				}
				for ; counted[j] < got; counted[j]++ {
					sched = append(sched, j)
				}
				inner := next
				next++
				if got > 0 && got < nlines[j] && !bytes.Contains(all, []byte("\r\n\r\n")) {
					midPark = true
					if len(tcs[j].header[HeaderOderKey]) == 0 && len(tcs[inner].header[HeaderOderKey]) == 0 {
						sortedUnderSorted = true
					}
				}
				write(inner)
			}
			sched = append(sched, j) // takes the scratch object
			bw := bufio.NewWriterSize(g, sizes[r.Intn(len(sizes))])
			var perr string
			reads[j], errs[j], afters[j], perr = c16WriteH1To(tr, tcs[j], bw)
			if perr != "" {
				crashed = perr
			}
			for ; counted[j] < nlines[j]+1; counted[j]++ { // the remaining lines, then the object goes back
				sched = append(sched, j)
			}
			wires[j] = append([]byte(nil), g.buf.Bytes()...)
			depth--
		}
		for next0 := 0; next0 < k; {
			// requests nobody wrote while another one was parked are written one after the other
			write(next0)
			next0 = next
			next++
		}
		if crashed != "" {
			s.Crash(human, human, crashed, "")
			continue
		}
		if midPark {
			s.Count("parked-mid-header")
		}
		if sortedUnderSorted {
			s.Count("sorted-written-while-sorted-parked")
		}
		s.Count("nesting-depth-" + strconv.Itoa(maxDepth))
		allOK := true
		var ids []string
		for j, tc := range tcs {
			order := tc.header[HeaderOderKey]
			got, alone := c16ShowH1(wires[j], errs[j], order), c16ShowH1(solo[j], soloErr[j], order)
			ok := got == alone
			h := human + fmt.Sprintf(" REQUEST %d", j)
			if !ok {
				h += fmt.Sprintf(" ORACLE: connection %d does not carry what the same request gives when written alone: interleaved %q, alone %q", j, c16WireLines(wires[j]), c16WireLines(solo[j]))
			}
			if errs[j] != nil || soloErr[j] != nil {
				allOK = false
			}
			after := c01Hdr(verifh.C16DescriptionOf(afters[j]))
			line := c01H1Line("c16rewrite 1", tc, reads[j])
			s.Case(line, got+" after="+after, ok, "", midPark, h)
			// the header lines of connection j as (request, position) items
			var seq []int
			used := map[int]bool{}
			own := c16WireLines(solo[j])
			for p, l := range c16WireLines(wires[j]) {
				id := -1
				if p < len(own) && own[p] == l && !used[p] {
					id = 1000*j + p
					used[p] = true
				}
				for q := 0; id < 0 && q < len(own); q++ {
					if own[q] == l && !used[q] {
						id = 1000*j + q
						used[q] = true
					}
				}
				for o := 0; id < 0 && o < k; o++ {
					if o == j {
						continue
					}
					for q, ol := range c16WireLines(solo[o]) {
						if ol == l {
							id = 1000*o + q
							break
						}
					}
				}
				if id < 0 {
					id = 999999
				}
				seq = append(seq, id)
			}
			if len(order) > 0 {
				sort.Ints(seq) // unlisted keys come in map order: the order is judged by c16rewrite
			}
			ids = append(ids, fmt.Sprintf("w%d=done:%s", j, verifh.IntList(seq)))
		}
		if allOK {
			s.Count("scratch-model-judged")
			line := fmt.Sprintf("c16scratch 1 - %s %s", verifh.IntList(nlines), verifh.IntList(sched))
			s.Case(line, strings.Join(ids, " "), true, "", midPark, human+" ITEMS (1000·request + line position) per connection")
		}
	}
	s.Need(t, "parked-mid-header", "sorted-written-while-sorted-parked", "scratch-model-judged", "nesting-depth-2", "nesting-depth-3")
	s.Finish()
}

// ---------------------------------------------------------------------------------------------

type c16Captured struct {
	hdr, pse []string
	hasH     bool
	hasP     bool
}

func c16DotList(l []string) string {
	if len(l) == 0 {
		return "-"
	}
	out := make([]string, len(l))
	for i, x := range l {
		out[i] = verifh.Hex(x)
	}
	return strings.Join(out, ".")
}

func c16SameList(a, b []string) bool {
	if len(a) != len(b) {
		return false
	}
	for i := range a {
		if a[i] != b[i] {
			return false
		}
	}
	return true
}

// TestVerif_C16_cloneorder: sequences of client-level order settings, impersonation presets and
// Client.Clone; every client's requests must go out in the order of that client's own history.
func TestVerif_C16_cloneorder(t *testing.T) {
	s := c01New(t, "C16", "cloneorder",
		"op sequences over 1..5 clients: SetCommonHeaderOrder (permutation of a subset of the names in use, some entries in another case), SetCommonPseudoHeaderOder (permutation of the four pseudo names), ImpersonateChrome / Firefox / Safari (= one call of each with the preset's lists), Clone of any existing client, and requests sent by any client (a quarter with a request-level SetHeaderOrder) — every sequence contains a Clone followed by a re-configuration of the source or of the copy and requests from both afterwards; every request goes to a raw TCP HTTP/1.1 peer (header names in arrival order) and passes a capture installed as the innermost transport wrapper before any configuration (the in-band lists as the writer finds them); compared with the model (c16cloneorder: Req/Client/OrderScope — wrapper lists per client copied by Clone, oldest wrapper assigns last; listed names placed by HeaderSortSpec.listedSorted): per request the listed names in wire order, the effective header-order list, the effective pseudo-header-order list; oracle (accepts first-call-wins and last-call-wins alike): the lists a request travels with are lists of the sending client's OWN history (calls on it + what its source had when it was copied), or the request's own list when that history is empty, and the wire shows the listed names in that order; non-trivial = a request sent by a client whose source / copy was re-configured after the Clone")
	s.OracleIndependent = true // first-call-wins is the code's behaviour, not the property's demand
	log.SetOutput(io.Discard)
	defer log.SetOutput(os.Stderr)
	raw := c16StartRawPeer(t)
	defer raw.ln.Close()
	base := "http://" + raw.ln.Addr().String()
	r := s.Rand()
	var mu sync.Mutex
	captured := map[string]c16Captured{}
	capture := func(rt http.RoundTripper) HttpRoundTripFunc {
		return func(req *http.Request) (*http.Response, error) {
			mu.Lock()
			h, okH := req.Header[HeaderOderKey]
			p, okP := req.Header[PseudoHeaderOderKey]
			captured[req.Header.Get("X-Send-Id")] = c16Captured{append([]string(nil), h...), append([]string(nil), p...), okH, okP}
			mu.Unlock()
			return rt.RoundTrip(req)
		}
	}
	pool := []string{"X-C0", "X-C1", "X-C2", "X-C3", "X-C4", "X-C5", "X-C6", "X-C7", "Accept", "Accept-Language", "User-Agent", "Host", "Accept-Encoding", "X-Send-Id"}
	pseudo := []string{":method", ":authority", ":scheme", ":path"}
	type preset struct {
		apply  func(*Client) *Client
		order  []string
		pseudo []string
	}
	presets := []preset{
		{(*Client).ImpersonateChrome, chromeHeaderOrder, chromePseudoHeaderOrder},
		{(*Client).ImpersonateFirefox, firefoxHeaderOrder, firefoxPseudoHeaderOrder},
		{(*Client).ImpersonateSafari, safariHeaderOrder, safariPseudoHeaderOrder},
	}
	recase := func(k string) string {
		switch r.Intn(4) {
		case 0:
			return strings.ToLower(k)
		case 1:
			return strings.ToUpper(k)
		}
		return k
	}
	genOrder := func() []string {
		perm := r.Perm(len(pool))
		m := 2 + r.Intn(len(pool)-1)
		var l []string
		for _, p := range perm[:m] {
			l = append(l, recase(pool[p]))
		}
		return l
	}
	type hist struct{ hdr, pse [][]string }
	n := verifh.N(60, 1200)
	sendID := 0
	for i := 0; i < n; i++ {
		var clients []*Client
		var hs []*hist
		diverged := map[int]bool{} // clients whose source / copy was re-configured after the Clone
		related := map[int][]int{}
		c0 := C()
		c0.Transport.WrapRoundTripFunc(capture)
		clients, hs = append(clients, c0), append(hs, &hist{})
		var tokens, humans []string
		ok := true
		var implParts []string
		nontrivial := false
		why := ""
		configure := func(c int) {
			switch r.Intn(4) {
			case 0, 1:
				l := genOrder()
				clients[c].SetCommonHeaderOrder(l...)
				hs[c].hdr = append(hs[c].hdr, l)
				tokens = append(tokens, fmt.Sprintf("h:%d:%s", c, c16DotList(l)))
				humans = append(humans, fmt.Sprintf("c%d.SetCommonHeaderOrder(%q)", c, l))
			case 2:
				p := r.Perm(4)
				l := []string{pseudo[p[0]], pseudo[p[1]], pseudo[p[2]], pseudo[p[3]]}
				clients[c].SetCommonPseudoHeaderOder(l...)
				hs[c].pse = append(hs[c].pse, l)
				tokens = append(tokens, fmt.Sprintf("p:%d:%s", c, c16DotList(l)))
				humans = append(humans, fmt.Sprintf("c%d.SetCommonPseudoHeaderOder(%q)", c, l))
			default:
				pi := r.Intn(len(presets))
				ps := presets[pi]
				ps.apply(clients[c])
				hs[c].hdr = append(hs[c].hdr, ps.order)
				hs[c].pse = append(hs[c].pse, ps.pseudo)
				tokens = append(tokens, fmt.Sprintf("h:%d:%s", c, c16DotList(ps.order)), fmt.Sprintf("p:%d:%s", c, c16DotList(ps.pseudo)))
				humans = append(humans, fmt.Sprintf("c%d.Impersonate(%s)", c, []string{"Chrome", "Firefox", "Safari"}[pi]))
			}
			for _, o := range related[c] {
				diverged[o] = true
			}
		}
		clone := func(src int) int {
			cc := clients[src].Clone()
			d := len(clients)
			clients = append(clients, cc)
			hs = append(hs, &hist{hdr: append([][]string(nil), hs[src].hdr...), pse: append([][]string(nil), hs[src].pse...)})
			related[src] = append(related[src], d)
			related[d] = append(related[d], src)
			tokens = append(tokens, fmt.Sprintf("k:%d:%d", src, d))
			humans = append(humans, fmt.Sprintf("c%d = c%d.Clone()", d, src))
			return d
		}
		send := func(c int) {
			sendID++
			id := "s" + strconv.Itoa(sendID)
			rq := clients[c].R().SetHeader("X-Send-Id", id)
			for _, k := range pool[:10] {
				if r.Intn(3) != 0 {
					rq.SetHeader(k, "v-"+strings.ToLower(k))
				}
			}
			var reqLevel []string
			hasReqLevel := r.Intn(4) == 0
			if hasReqLevel {
				reqLevel = genOrder()
				rq.SetHeaderOrder(reqLevel...)
			}
			raw.take()
			resp, err := rq.Get(base + "/" + id)
			if err != nil || resp.StatusCode != 200 {
				s.Count("send-failed")
				return
			}
			heads := raw.take()
			if len(heads) != 1 {
				s.Count("send-not-observed")
				return
			}
			var names []string
			seen := map[string]bool{}
			for _, l := range c16WireLines([]byte(heads[0])) {
				if !seen[l[0]] {
					names = append(names, l[0])
					seen[l[0]] = true
				}
			}
			sorted := append([]string(nil), names...)
			sort.Strings(sorted)
			mu.Lock()
			cp := captured[id]
			delete(captured, id)
			mu.Unlock()
			rl := "~"
			if hasReqLevel {
				rl = c16DotList(reqLevel)
			}
			tokens = append(tokens, fmt.Sprintf("s:%d:%s:%s", c, rl, c16DotList(sorted)))
			humans = append(humans, fmt.Sprintf("c%d sends %s (request-level order %q): wire names %q, in-band header order %q, pseudo order %q", c, id, reqLevel, names, cp.hdr, cp.pse))
			// what the request travelled with
			var listed []string
			for _, nm := range names {
				if cp.hasH && c01OrderIndex(cp.hdr, nm) >= 0 {
					listed = append(listed, nm)
				}
			}
			e, p := "~", "~"
			if cp.hasH {
				e = c16DotList(cp.hdr)
			}
			if cp.hasP {
				p = c16DotList(cp.pse)
			}
			implParts = append(implParts, fmt.Sprintf("H=%s/E=%s/P=%s", c16DotList(listed), e, p))
			// oracle: own history
			own := func(got []string, has bool, history [][]string, fallback []string, hasFallback bool) bool {
				if len(history) == 0 {
					return has == hasFallback && (!has || c16SameList(got, fallback))
				}
				if !has {
					return false
				}
				for _, l := range history {
					if c16SameList(got, l) {
						return true
					}
				}
				return false
			}
			if !own(cp.hdr, cp.hasH, hs[c].hdr, reqLevel, hasReqLevel) {
				ok = false
				why += fmt.Sprintf(" ORACLE: request %s of client c%d travels with the header order %q, which is none of the lists this client was configured with %q", id, c, cp.hdr, hs[c].hdr)
			}
			if !own(cp.pse, cp.hasP, hs[c].pse, nil, false) {
				ok = false
				why += fmt.Sprintf(" ORACLE: request %s of client c%d travels with the pseudo-header order %q, which is none of the lists this client was configured with %q", id, c, cp.pse, hs[c].pse)
			}
			last := -1
			for _, nm := range listed {
				ix := c01OrderIndex(cp.hdr, nm)
				if ix < last {
					ok = false
					why += fmt.Sprintf(" ORACLE: request %s: %q is on the wire after a name listed later", id, nm)
				}
				last = ix
			}
			if diverged[c] {
				nontrivial = true
				s.Count("sent-after-relative-reconfigured")
			}
			if len(hs[c].hdr) > 1 {
				s.Count("sent-with-several-own-lists")
			}
			if len(hs[c].hdr) == 0 && hasReqLevel {
				s.Count("sent-with-request-level-list-only")
			}
		}
		// a random prefix …
		for steps := r.Intn(5); steps > 0; steps-- {
			c := r.Intn(len(clients))
			switch r.Intn(5) {
			case 0:
				if len(clients) < 4 {
					clone(c)
				}
			case 1:
				send(c)
			default:
				configure(c)
			}
		}
		// … then the class: Clone, re-configure the source or the copy (or both), requests from both
		src := r.Intn(len(clients))
		if len(hs[src].hdr) == 0 && r.Intn(4) != 0 {
			configure(src)
		}
		d := clone(src)
		switch r.Intn(3) {
		case 0:
			configure(src)
		case 1:
			configure(d)
		default:
			configure(src)
			configure(d)
		}
		if r.Intn(2) == 0 {
			send(d)
			send(src)
		} else {
			send(src)
			send(d)
		}
		for steps := r.Intn(3); steps > 0; steps-- {
			c := r.Intn(len(clients))
			if r.Intn(2) == 0 {
				configure(c)
			}
			send(c)
		}
		s.Count(fmt.Sprintf("clients-%d", len(clients)))
		if len(implParts) == 0 {
			continue
		}
		// the model answers without the E part being restricted: keep the three parts
		s.Case("c16cloneorder "+strings.Join(tokens, " "), strings.Join(implParts, " "), ok, "", nontrivial, strings.Join(humans, "; ")+why)
	}
	s.Need(t, "sent-after-relative-reconfigured", "sent-with-several-own-lists", "sent-with-request-level-list-only")
	s.Finish()
}
