//go:build verif

package req

import (
	"fmt"
	"os"
	"path/filepath"
	"strings"
	"testing"

	"github.com/imroc/req/v3/internal/verifh"
)

// TestVerif_C18_consume: every way the caller consumes the body AFTER the call.
func TestVerif_C18_consume(t *testing.T) {
	s := verifh.New(t, "C18", "consume",
		"real client + scripted http.RoundTripper (one exchange, optionally a client response middleware failing / clearing resp.Err): every status class x content types x bodies x targets x auto-read on/off x read failure x response-body transformer {none, accepts, fails with nil body, fails returning the body} x entry points; THEN 1..3 consumptions of the returned response drawn from ToBytes, ToString, UnmarshalJson, UnmarshalXml, Into, Unmarshal; observed: the error each returns, resp.Err and the cache afterwards, vs Req.Consume.consumeAll on the model's response; oracle: a call that ended in error makes every consumer return that error; a consumer's read/transform failure is recorded in resp.Err and returned by every later consumer; non-trivial = the body was not read during the call or the call ended in error")
	s.OracleIndependent = true
	r := s.Rand()
	hist := newC18Hist(s)
	c18OutDir = t.TempDir()
	var scs []*c18Scenario
	var uses []string
	for k := 0; k < verifh.N(4000, 60000); k++ {
		sc := &c18Scenario{entry: "dsvm"[r.Intn(4)], sT: r.Intn(3) == 0, eT: r.Intn(4) == 0, cE: r.Intn(4) == 0,
			autoRead: r.Intn(2) == 0, hook: r.Intn(2) == 0, verb: r.Intn(7), checker: c18Checkers[0]}
		if r.Intn(6) == 0 {
			sc.checker = verifh.Pick(r, c18Checkers)
		}
		h := c18GenHTTP(r, sc.checker, 60)
		if r.Intn(3) == 0 {
			h.readOK = r.Intn(2) == 0
		}
		sc.transport = []c18TOut{{fail: -1, h: h}}
		if r.Intn(12) == 0 {
			sc.transport = []c18TOut{{fail: c18GenErr(r)}}
		}
		if r.Intn(5) == 0 {
			sc.clientResp = [][]c18Act{{{kind: verifh.Pick(r, []string{"r", "s", "c", "c"}), e: c18GenErr(r)}}}
		}
		if r.Intn(3) == 0 {
			sc.xform = true
			switch x := r.Intn(10); {
			case x < 4:
				h.xf = "k"
			case x < 7:
				h.xf = fmt.Sprintf("n%d", c18GenErr(r))
			default:
				h.xf = fmt.Sprintf("b%d", c18GenErr(r))
			}
		} else {
			h.xf = "-"
		}
		if sc.xform && len(sc.clientResp) > 0 && sc.clientResp[0][0].kind == "c" {
			// (a read that fails leaves the RAW bytes in the cache — the transformer never ran — and a
			// middleware that then clears resp.Err makes later consumers decode those; the model's
			// unmarshal verdicts are about the transformed body, so this corner is not generated)
			h.readOK = true
		}
		if r.Intn(4) == 0 {
			sc.path, sc.split = 1+r.Intn(3), r.Intn(1<<20)
		}
		u := ""
		for i, n := 0, 1+r.Intn(3); i < n; i++ {
			u += string("bsjxiu"[r.Intn(6)])
		}
		scs = append(scs, sc)
		uses = append(uses, u)
	}
	lines := make([]string, len(scs))
	impl := make([]string, len(scs))
	verdict := make([]string, len(scs))
	lazy := make([]bool, len(scs))
	class := make([]string, len(scs))
	for i, sc := range scs {
		o := c18Run(sc)
		lines[i] = "c18consume " + uses[i] + " " + strings.TrimPrefix(sc.line(c18Repaired), "c18pipe ")
		if o.resp == nil || o.crashed != "" || o.mustPanicked {
			impl[i] = "nocall"
			continue
		}
		resp := o.resp
		callErr := resp.Err
		lazy[i] = resp.Bytes() == nil || callErr != nil
		var errs []string
		var prevRecorded error
		for _, c := range uses[i] {
			var err error
			before := resp.Err
			if txt, p := verifh.Safely(func() {
				switch c {
				case 'b':
					_, err = resp.ToBytes()
				case 's':
					_, err = resp.ToString()
				case 'j':
					err = resp.UnmarshalJson(&c18T{})
				case 'x':
					err = resp.UnmarshalXml(&c18T{})
				case 'i':
					err = resp.Into(&c18T{})
				case 'u':
					err = resp.Unmarshal(&c18T{})
				}
			}); p {
				if (c == 'i' || c == 'u') && resp.Response == nil && before == nil {
					// known finding (fixes/C18-2-unmarshal-nil-response.patch): Unmarshal / Into read the
					// Content-Type through the nil *http.Response of a response without error
					class[i] = "c18-unmarshal-nil-response"
					verdict[i] = "Unmarshal/Into panicked on a response with neither an error nor an http response"
					errs = append(errs, "panic")
					break
				}
				s.Crash(fmt.Sprintf("consume/%d", i), "consumer panicked", txt, lines[i])
				verdict[i] = "panic"
				break
			}
			errs = append(errs, c18PipeErrName(err))
			// oracle
			switch {
			case before != nil && err != before:
				verdict[i] = fmt.Sprintf("resp.Err was %s but the consumer returned %s", c18PipeErrName(before), c18PipeErrName(err))
			case before == nil && err != nil && c18PipeErrName(err) != "unm" && resp.Err != err:
				verdict[i] = "a read/transform failure of a consumer was not recorded in resp.Err"
			case before == nil && c18PipeErrName(err) == "unm" && resp.Err != nil:
				verdict[i] = "an unmarshaller's rejection was recorded in resp.Err"
			case prevRecorded != nil && err != prevRecorded:
				verdict[i] = "a recorded failure was not returned by a later consumer"
			}
			if resp.Err != nil {
				prevRecorded = resp.Err
			}
		}
		impl[i] = "errs=" + strings.Join(errs, ",") + " rerr=" + c18PipeErrName(resp.Err) + " cached=" + c18b(resp.Bytes() != nil)
	}
	model, err := verifh.RunModel(lines)
	if err != nil {
		t.Fatalf("driver: %v -- treat as: no tests to run", err)
	}
	ctCaseOpen := c18OpenClass("c18-unmarshal-content-type-case")
	for i, sc := range scs {
		// known finding (fixes/C18-4-unmarshal-content-type-case.patch): Unmarshal / Into still search the
		// Content-Type case-sensitively, unlike the automatic binding since /repo f13c292
		if h := sc.transport[0].h; ctCaseOpen && class[i] == "" && impl[i] != model[i] && h != nil && strings.ContainsAny(uses[i], "iu") {
			exact := "other"
			if strings.Contains(h.ct, "json") {
				exact = "json"
			} else if strings.Contains(h.ct, "xml") {
				exact = "xml"
			}
			if (exact == "xml") != (c18CtClass(h.ct) == "xml") {
				class[i] = "c18-unmarshal-content-type-case"
				if verdict[i] == "" {
					verdict[i] = "Unmarshal/Into chose the unmarshaller case-sensitively"
				}
			}
		}
		m := model[i]
		switch {
		case m == "nocall":
			hist.Count("nocall")
		case strings.Contains(m, "errs=-") || strings.Contains(m, ",-"):
			hist.Count("some-consumer-ok")
		}
		if strings.Contains(m, "unm") {
			hist.Count("unmarshal-rejects")
		}
		if strings.Contains(m, "read") {
			hist.Count("late-or-early-read-failure")
		}
		if sc.xform && len(sc.transport[0].fail_h().xf) > 1 && strings.Contains(m, "rerr=s") {
			hist.Count("transformer-failure-reported")
		}
		if !sc.autoRead && !sc.sT && !sc.eT && !sc.cE {
			hist.Count("nothing-read-in-call")
		}
		human := lines[i] + " checker=" + sc.checker.name + " => " + impl[i]
		if verdict[i] != "" {
			human += " ORACLE: " + verdict[i]
		}
		if class[i] != "" {
			hist.Count("known:" + class[i])
		}
		s.Case(lines[i], impl[i], verdict[i] == "", class[i], lazy[i], human)
	}
	s.Finish()
	hist.need(t, "nocall", "some-consumer-ok", "unmarshal-rejects", "late-or-early-read-failure", "transformer-failure-reported", "nothing-read-in-call")
}

// c18OpenClass: known-findings.txt still carries an open: line of property C18 for this class.
func c18OpenClass(class string) bool {
	dir := os.Getenv("VERIF_DIR")
	if dir == "" {
		dir = "/verif"
	}
	b, err := os.ReadFile(filepath.Join(dir, "known-findings.txt"))
	if err != nil {
		return false
	}
	for _, l := range strings.Split(string(b), "\n") {
		l = strings.TrimSpace(l)
		if strings.HasPrefix(l, "open:") && strings.Contains(l, "property=C18 ") && strings.Contains(l, "class="+class+" ") {
			return true
		}
	}
	return false
}

// fail_h returns the scripted response of a transport outcome (an empty one for a failure).
func (t c18TOut) fail_h() *c18Http {
	if t.h != nil {
		return t.h
	}
	return &c18Http{}
}
