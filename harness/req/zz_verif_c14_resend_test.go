//go:build verif

package req

import (
	"bufio"
	"bytes"
	"context"
	"fmt"
	"io"
	"net"
	"net/http"
	"strconv"
	"strings"
	"sync"
	"testing"
	"time"

	"github.com/imroc/req/v3/internal/verifc14"
	"github.com/imroc/req/v3/internal/verifh"
)

// ---------------------------------------------------------------------------- keep-alive peer

// c14KAPeer is a keep-alive HTTP/1.1 origin on loopback TCP with a fault plan: a request for a
// case that arrives on a REUSED connection while the case still has stale faults left is read
// completely and the connection is closed without an answer (what a server does to an idle
// connection it timed out) - the transport then re-sends the request transparently
// (Transport.roundTrip's retry loop / persistConn.shouldRetryRequest). `/warm?b=<id>&n=<j>` is
// answered only once j connections are waiting on it, so that a client can park exactly j idle
// connections in its pool.
type c14KAPeer struct {
	ln    net.Listener
	mu    sync.Mutex
	cases map[string]*c14Case
	stale map[string]int
	warm  map[string]*c14Barrier
}

type c14Barrier struct {
	n  int
	ch chan struct{}
}

func c14NewKAPeer(t *testing.T) *c14KAPeer {
	ln, err := net.Listen("tcp", "127.0.0.1:0")
	if err != nil {
		t.Fatalf("infra: listen: %v", err)
	}
	p := &c14KAPeer{ln: ln, cases: map[string]*c14Case{}, stale: map[string]int{}, warm: map[string]*c14Barrier{}}
	go func() {
		for {
			conn, err := ln.Accept()
			if err != nil {
				return
			}
			go p.handle(conn)
		}
	}()
	return p
}

func (p *c14KAPeer) url() string { return "http://" + p.ln.Addr().String() }

func (p *c14KAPeer) add(c *c14Case, stale int) {
	p.mu.Lock()
	p.cases[c.id] = c
	p.stale[c.id] = stale
	p.mu.Unlock()
}

func (p *c14KAPeer) await(id string, want int) {
	p.mu.Lock()
	b := p.warm[id]
	if b == nil {
		b = &c14Barrier{ch: make(chan struct{})}
		p.warm[id] = b
	}
	b.n++
	if b.n == want {
		close(b.ch)
	}
	p.mu.Unlock()
	select {
	case <-b.ch:
	case <-time.After(20 * time.Second):
	}
}

func (p *c14KAPeer) handle(conn net.Conn) {
	defer conn.Close()
	br := bufio.NewReader(conn)
	for n := 1; ; n++ {
		conn.SetDeadline(time.Now().Add(60 * time.Second))
		r, err := http.ReadRequest(br)
		if err != nil {
			return
		}
		io.Copy(io.Discard, r.Body)
		if r.URL.Path == "/warm" {
			want, _ := strconv.Atoi(r.URL.Query().Get("n"))
			p.await(r.URL.Query().Get("b"), want)
			fmt.Fprintf(conn, "HTTP/1.1 200 OK\r\nContent-Type: text/plain\r\nContent-Length: 2\r\n\r\nok")
			continue
		}
		p.mu.Lock()
		c := p.cases[r.Header.Get("X-C14-Case")]
		p.mu.Unlock()
		if c == nil {
			fmt.Fprintf(conn, "HTTP/1.1 500 no such case\r\nContent-Length: 0\r\nConnection: close\r\n\r\n")
			return
		}
		c.note(r.Header.Values("Accept-Encoding"))
		p.mu.Lock()
		fault := n > 1 && p.stale[c.id] > 0
		if fault {
			p.stale[c.id]--
		}
		p.mu.Unlock()
		if fault {
			return // the stale connection: closed on arrival of the request, no answer
		}
		var b bytes.Buffer
		b.WriteString("HTTP/1.1 200 OK\r\n")
		for _, v := range c.ce {
			fmt.Fprintf(&b, "Content-Encoding: %s\r\n", v)
		}
		fmt.Fprintf(&b, "Content-Type: %s\r\nX-Keep: k\r\nContent-Length: %d\r\n\r\n", c.ctype, len(c.wire))
		if r.Method != "HEAD" {
			b.Write(c.wire)
		}
		if _, err := conn.Write(b.Bytes()); err != nil {
			return
		}
	}
}

// ---------------------------------------------------------------------------- lane

// TestVerif_C14_resend: one logical request, SEVERAL passes through the transport. The
// property's "the transport itself asked for gzip" must hold for the attempt that is answered,
// whichever it is, and an attempt must leave the request as it found it:
//
//	resend   - one *http.Request given k times to Transport.RoundTrip (a std http.Client over
//	           req's Transport, any http.RoundTripper user), with and without a request body;
//	stale    - HTTP/1.1: j idle keep-alive connections are closed by the origin when the request
//	           arrives on them, the transport re-sends transparently (with a body: through
//	           rewindBody's shallow copy); via RoundTrip and via the Client API;
//	redirect - j x 307 back to the same URL, then the response (Client API);
//	reqretry - j x 503 with req's own retry (SetRetryCount + condition), then the response.
//
// Model: driver lane c14seq (Req.Client.CompressAttempts.attempts threads the request header
// through the attempts); oracle: the property text on every attempt + "RoundTrip does not
// modify the request".
func TestVerif_C14_resend(t *testing.T) {
	s := verifh.New(t, "C14", "resend",
		"attempt sequences of ONE request under {default, DisableCompression, AutoDecompress, caller Accept-Encoding, caller AE+AutoDecompress, DisableCompression+AutoDecompress, caller AE gzip} x Content-Encoding {gzip, GZIP, deflate, br, zstd, identity, none} x {GET, HEAD, Range GET, POST with body}: resend (same *http.Request k=2..3 times through Transport.RoundTrip, h1/h2/h3), stale (h1: j=0..2 parked keep-alive connections closed on arrival => transparent retries; via RoundTrip and via the Client), redirect (j x 307 to the same URL; h1/h2/h3), reqretry (j x 503 + req-level retry; h1/h2/h3). Observed per attempt: Accept-Encoding at the origin; per delivered response: tracked headers, ContentLength, Uncompressed, body; afterwards: Accept-Encoding in the caller's request header. Compared with the Lean model (c14seq) and judged by the Go oracle of the property on every attempt; non-trivial = at least two attempts reached the origin")
	e := c14NewEnv(t, "h1", "h2", "h3")
	defer e.close()
	peer := c14NewKAPeer(t)
	defer peer.ln.Close()
	r := s.Rand()
	hist := map[string]int{}
	count := func(k string) { s.Count(k); hist[k]++ }

	encs := []c14Enc{c14Encs[0], c14Encs[0], c14Encs[8], c14Encs[1], c14Encs[2], c14Encs[3], c14Encs[4], c14Encs[6]}
	type meth struct {
		method, rng string
		body        bool
	}
	meths := []meth{{"GET", "", false}, {"GET", "", false}, {"HEAD", "", false}, {"GET", "bytes=0-99", false}, {"POST", "", true}}
	type plan struct {
		kind, proto, via string
		j                int // extra attempts before the one that is answered (resend: k = j+1 deliveries)
	}
	var plans []plan
	for _, proto := range []string{"h1", "h2", "h3"} {
		for i, n := 0, verifh.N(30, 1500); i < n; i++ {
			plans = append(plans, plan{"resend", proto, "transport", 1 + r.Intn(2)})
		}
		for i, n := 0, verifh.N(10, 400); i < n; i++ {
			plans = append(plans, plan{"redirect", proto, "client", 1 + r.Intn(2)})
			plans = append(plans, plan{"reqretry", proto, "client", 1 + r.Intn(2)})
		}
	}
	for i, n := 0, verifh.N(70, 3000); i < n; i++ {
		plans = append(plans, plan{"stale", "h1", verifh.Pick(r, []string{"transport", "client"}), r.Intn(3)})
	}

	for pi, pl := range plans {
		cfg := c14Cfgs[r.Intn(len(c14Cfgs))]
		if r.Intn(2) == 0 {
			cfg = c14Cfgs[0] // the default configuration: the transport asks for gzip itself
		}
		enc := encs[r.Intn(len(encs))]
		m := meths[r.Intn(len(meths))]
		p := verifc14.Payload(r, 1+r.Intn(3))
		wire, alg := c14Encode(enc, p)
		c := &c14Case{
			id: fmt.Sprintf("seq-%d-%s-%s", pi, pl.kind, pl.proto), proto: pl.proto, dc: cfg.dc, auto: cfg.auto, ae: cfg.ae,
			method: m.method, rng: m.rng, ce: enc.ce, ctype: "application/octet-stream", payload: p, wire: wire,
			stream: "valid", alg: alg, framing: "cl", sizes: verifc14.Sizes(r),
		}
		switch pl.kind {
		case "redirect":
			c.preStatus, c.preCount = 307, pl.j
		case "reqretry":
			c.preStatus, c.preCount = 503, pl.j
		}
		reqBody := []byte(nil)
		if m.body {
			reqBody = []byte("request body " + c.id)
		}
		cl := e.client(pl.proto, cfg.dc, cfg.auto)
		base := e.base[pl.proto]
		if pl.kind == "stale" {
			base = peer.url()
			peer.add(c, pl.j)
		} else {
			e.origin.add(c)
		}
		ctx, cancel := context.WithTimeout(context.Background(), 40*time.Second)
		var delivered []c14Obs
		carried := ""
		infra := ""
		ptext, panicked := verifh.Safely(func() {
			if pl.kind == "stale" {
				// park exactly j idle connections in the client's pool
				cl.GetTransport().CloseIdleConnections()
				var wg sync.WaitGroup
				for w := 0; w < pl.j; w++ {
					wg.Add(1)
					go func() {
						defer wg.Done()
						resp, err := cl.R().SetContext(ctx).Get(fmt.Sprintf("%s/warm?b=%s&n=%d", base, c.id, pl.j))
						if err != nil {
							infra = "warm-up: " + err.Error()
							return
						}
						io.Copy(io.Discard, resp.Body)
						resp.Body.Close()
					}()
				}
				wg.Wait()
			}
			if pl.via == "transport" {
				var body io.Reader
				if m.body {
					body = bytes.NewReader(reqBody)
				}
				hreq, err := http.NewRequestWithContext(ctx, m.method, base+"/", body)
				if err != nil {
					infra = err.Error()
					return
				}
				hreq.Header.Set("X-C14-Case", c.id)
				if c.ae != "" {
					hreq.Header.Set("Accept-Encoding", c.ae)
				}
				if c.rng != "" {
					hreq.Header.Set("Range", c.rng)
				}
				if m.body {
					hreq.Header.Set("Idempotency-Key", c.id) // makes a request with a body replayable
				}
				sends := 1
				if pl.kind == "resend" {
					sends = pl.j + 1
				}
				for i := 0; i < sends; i++ {
					if i > 0 && m.body {
						hreq.Body, _ = hreq.GetBody()
					}
					var o c14Obs
					resp, err := cl.GetTransport().RoundTrip(hreq)
					if err != nil {
						o.rtErr = err.Error()
					} else {
						c14Observe(c, resp, &o)
					}
					delivered = append(delivered, o)
				}
				carried = strings.Join(hreq.Header.Values("Accept-Encoding"), "|")
			} else {
				rq := cl.R().SetContext(ctx).SetHeader("X-C14-Case", c.id)
				if c.ae != "" {
					rq.SetHeader("Accept-Encoding", c.ae)
				}
				if c.rng != "" {
					rq.SetHeader("Range", c.rng)
				}
				if m.body {
					rq.SetBodyBytes(reqBody).SetHeader("Idempotency-Key", c.id)
				}
				if pl.kind == "reqretry" {
					rq.SetRetryCount(3).SetRetryFixedInterval(time.Millisecond).AddRetryCondition(func(resp *Response, err error) bool {
						return err == nil && resp.Response != nil && resp.StatusCode == 503
					})
				}
				var o c14Obs
				resp, err := rq.Send(m.method, base+"/")
				if err != nil {
					o.rtErr = err.Error()
				} else {
					c14Observe(c, resp.Response, &o)
				}
				delivered = append(delivered, o)
				if rq.RawRequest != nil {
					carried = strings.Join(rq.RawRequest.Header.Values("Accept-Encoding"), "|")
				} else {
					carried = c.ae
				}
			}
		})
		cancel()
		human := fmt.Sprintf("%s %s via %s: %s dc=%v auto=%v callerAE=%q range=%q body=%v CE=%q extra-attempts=%d payload=%dB wire=%dB reads=%v",
			pl.kind, pl.proto, pl.via, m.method, c.dc, c.auto, c.ae, c.rng, m.body, strings.Join(c.ce, "|"), pl.j, len(p), len(wire), c.sizes)
		if panicked {
			s.Crash(c.id, human, ptext, "")
			continue
		}
		if infra != "" {
			t.Fatalf("infra: %s (%s)", infra, human)
		}
		c.mu.Lock()
		aeLog := append([]string(nil), c.aeLog...)
		c.mu.Unlock()
		k := len(aeLog)
		all := pl.kind == "resend"
		// impl answer, attempt by attempt, as the driver lane renders it
		var parts []string
		ok, why := true, ""
		mayAsk := !c.dc && c.ae == "" && c.rng == "" && c.method != "HEAD"
		for i, ae := range aeLog {
			di := -1 // index into delivered
			if all {
				di = i
			} else if i == k-1 {
				di = len(delivered) - 1
			}
			if di >= 0 && di < len(delivered) {
				o := delivered[di]
				o.ae = ae
				if o.panicText != "" {
					parts = append(parts, "panic")
					ok, why = false, "panic: "+o.panicText
					continue
				}
				parts = append(parts, o.answer(c))
				if o.rtErr != "" && strings.Contains(o.rtErr, "infra:") {
					t.Fatalf("infra: %s", o.rtErr)
				}
				if good, w := c.oracle(o); !good && ok {
					ok, why = false, fmt.Sprintf("attempt %d of %d: %s", i+1, k, w)
				}
				if o.unc {
					count("decoded")
					if i > 0 {
						count("decoded-on-later-attempt")
					}
				}
			} else {
				x := "none"
				if ae != "none" {
					x = verifh.Hex(ae)
				}
				parts = append(parts, "ae="+x)
				// an attempt that was not answered: still, who may ask is fixed by the property
				want := "none"
				if mayAsk {
					want = "gzip"
				} else if c.ae != "" {
					want = c.ae
				}
				if ae != want && ok {
					ok, why = false, fmt.Sprintf("attempt %d of %d carried Accept-Encoding %q (caller set %q)", i+1, k, ae, c.ae)
				}
			}
		}
		if len(delivered) == 0 || (all && len(delivered) != k) {
			ok, why = false, fmt.Sprintf("%d responses delivered for %d requests seen by the origin", len(delivered), k)
		}
		if carried != c.ae && ok {
			ok, why = false, fmt.Sprintf("the transport modified the caller's request: Accept-Encoding %q afterwards (caller set %q)", carried, c.ae)
		}
		impl := strings.Join(parts, " ## ") + " ## carried=" + verifh.Hex(carried)
		if !ok {
			human += " :: " + why
		}
		count("kind:" + pl.kind)
		count("via:" + pl.via)
		count(fmt.Sprintf("attempts:%d", k))
		if pl.kind == "stale" && k == pl.j+1 && pl.j > 0 {
			count("stale:retried")
			if m.body {
				count("stale:retried-with-body")
			}
		}
		if pl.kind == "stale" && k != pl.j+1 {
			count("stale:schedule-not-reproduced")
		}
		if mayAsk {
			count("transport-asks")
		}
		s.Case("c14seq "+c.args()+" "+strconv.Itoa(k)+" "+c14b(all), impl, ok, "", k >= 2, human)
	}
	for _, k := range []string{"kind:resend", "kind:stale", "kind:redirect", "kind:reqretry", "via:transport", "via:client", "stale:retried", "stale:retried-with-body", "attempts:2", "attempts:3", "decoded", "decoded-on-later-attempt", "transport-asks"} {
		if hist[k] == 0 {
			t.Errorf("bucket %s not reached", k)
		}
	}
	s.Finish()
}
