//go:build verif

package req

// Lane c12altsm (sequence lane, in-package): random sequences of
//
//   header   Transport.handleAltSvc(req, value) for one of three origins (two ports of one host,
//            the same port on another host) with a generated Alt-Svc value: 1..3 h3 entries
//            (endpoint alive / dead, ma absent / 0 / 3600, host given or not), or `clear`,
//            another protocol only, garbage;
//   request  Transport.checkAltSvc(req): served through the Alt-Svc shortcut (response /
//            error) or left to the normal dispatch;
//   advance  the clock moves two hours (every stored Expire is back-dated through the
//            pointers the transport holds)
//
// on a real transport whose HTTP/3 round tripper dials a real loopback HTTP/3 origin through
// the Dial seam (a dead endpoint fails after 20 ms; a request that has to fail does so through
// a marked context). After every event the pending entry of the origin (CurrentIndex,
// Transport != nil) is read in-package. Compared with Req.Pool.AltSvc.step (driver lane
// c12altsm): state per origin incl. port, pending -> confirmed only after a successful
// exchange, expiry `ma`, `clear` ignored, first advertisement governs.
//
// AddConn reports success as soon as the dial has STARTED (http3.RoundTripper.getClient does
// not wait): with failures that take time — every real QUIC failure — the background dial
// outcome is `true` and a dead endpoint is found out by the first request. The lane therefore
// always reports `dialed … 1`; the immediate-failure branch of handlePendingAltSvc is a race in
// the code and is not sampled.

import (
	"context"
	"crypto/tls"
	"errors"
	"fmt"
	"net"
	"net/http"
	"net/url"
	"strconv"
	"strings"
	"sync/atomic"
	"testing"
	"time"

	"github.com/imroc/req/v3/internal/altsvcutil"
	"github.com/imroc/req/v3/internal/netutil"
	"github.com/imroc/req/v3/internal/verifh"
	"github.com/quic-go/quic-go"
)

type c12AltFailKey struct{}

func TestVerif_C12_altsm(t *testing.T) {
	s := verifh.New(t, "C12", "c12altsm",
		"sequences of 5..12 events over three origins (https://127.0.0.1:7001, https://127.0.0.1:7002, https://localhost:7001): Alt-Svc header (1..3 h3 entries with alive/dead endpoints and ma none/0/3600, or clear / h2 only / garbage), request (checkAltSvc; the HTTP/3 exchange succeeds or is made to fail), clock advance by two hours; a real HTTP/3 loopback origin behind the Dial seam; observable per event: disposition of the request (Alt-Svc shortcut ok / error / normal dispatch) and the origin's pending entry (index, ready); non-trivial = sequences with a header and a later request for the same origin")
	r := s.Rand()
	g, err := c12StartOrigin(c12OfferTable["all"])
	if err != nil {
		t.Fatalf("infrastructure: %v", err)
	}
	defer g.close()
	dl, err := net.ListenPacket("udp", "127.0.0.1:0")
	if err != nil {
		t.Fatalf("infrastructure: %v", err)
	}
	deadPort := dl.LocalAddr().(*net.UDPAddr).Port
	dl.Close()

	type origin struct {
		raw   string
		model string
	}
	origins := []origin{{"https://127.0.0.1:7001", "1.7001"}, {"https://127.0.0.1:7002", "1.7002"}, {"https://localhost:7001", "2.7001"}}
	n := verifh.N(250, 5000)
	for i := 0; i < n; i++ {
		c := C().EnableInsecureSkipVerify().EnableHTTP3()
		tr := c.GetTransport()
		var seamCalls atomic.Int64
		tr.t3.Dial = func(ctx context.Context, addr string, tlsCfg *tls.Config, qc *quic.Config) (quic.EarlyConnection, error) {
			seamCalls.Add(1)
			_, port, _ := net.SplitHostPort(addr)
			if ctx.Value(c12AltFailKey{}) != nil {
				return nil, errors.New("c12: exchange made to fail")
			}
			if port != fmt.Sprint(g.port) {
				time.Sleep(20 * time.Millisecond) // a failure that takes time, as every real QUIC failure
				return nil, errors.New("c12: dead endpoint")
			}
			return quic.DialAddrEarly(ctx, "127.0.0.1:"+port, tlsCfg, qc)
		}
		now := 0
		var toks, outs []string
		entryPorts := map[*pendingAltSvc][]int{} // lane's own record: ports of the entries of each advertisement
		pendingOf := func(o origin) (*pendingAltSvc, string) {
			u, _ := url.Parse(o.raw)
			tr.pendingAltSvcsMu.Lock()
			pas := tr.pendingAltSvcs[netutil.AuthorityKey(u)]
			tr.pendingAltSvcsMu.Unlock()
			if pas == nil {
				return nil, "-"
			}
			pas.Mu.Lock()
			defer pas.Mu.Unlock()
			st := "w"
			if pas.Transport != nil {
				st = "r"
			}
			return pas, fmt.Sprintf("%d%s", pas.CurrentIndex, st)
		}
		settle := func(o origin) {
			// a background AddConn was started for this origin: it reports success once the dial is under way
			deadline := time.Now().Add(3 * time.Second)
			for time.Now().Before(deadline) {
				if _, d := pendingOf(o); strings.HasSuffix(d, "r") {
					return
				}
				time.Sleep(time.Millisecond)
			}
		}
		headerSeen := map[string]bool{}
		nontriv := false
		crashed := ""
		nev := 5 + r.Intn(8)
		for e := 0; e < nev && crashed == ""; e++ {
			now++
			o := origins[r.Intn(len(origins))]
			u, _ := url.Parse(o.raw + "/x")
			switch x := r.Intn(20); {
			case x < 8: // header
				var parts, mas []string
				var ports []int
				special := r.Intn(7)
				switch special {
				case 0:
					parts = []string{"clear"}
				case 1:
					parts = []string{`h2=":443"; ma=60`}
				case 2:
					parts = []string{"h3"}
				default:
					for k := 1 + r.Intn(3); k > 0; k-- {
						port := g.port
						if r.Intn(3) == 0 {
							port = deadPort
						}
						ent := fmt.Sprintf(`h3=":%d"`, port)
						if r.Intn(3) == 0 {
							ent = fmt.Sprintf(`h3="127.0.0.1:%d"`, port)
						}
						switch r.Intn(3) {
						case 0:
							mas = append(mas, "n")
						case 1:
							ent += "; ma=0"
							mas = append(mas, "0")
						default:
							ent += "; ma=3600"
							mas = append(mas, "3600")
						}
						if r.Intn(4) == 0 {
							ent += "; persist=1"
						}
						parts = append(parts, ent)
						ports = append(ports, port)
					}
					if r.Intn(4) == 0 { // another protocol in between: filtered out
						parts = append([]string{`h2=":443"`}, parts...)
					}
				}
				value := strings.Join(parts, ", ")
				before, _ := pendingOf(o)
				rq, _ := http.NewRequest("GET", u.String(), nil)
				if txt, p := verifh.Safely(func() { tr.handleAltSvc(rq, value) }); p {
					crashed = txt
					break
				}
				// what the header SAYS is the parser's business (internal/altsvcutil, e.g. a `persist`
				// parameter without `ma` is a parse error that drops the whole value): the state
				// machine is fed the h3 entries the real parser yields
				mas, ports = nil, nil
				if parsed, perr := altsvcutil.ParseHeader(value); perr == nil {
					for _, a := range parsed {
						if a.Protocol != "h3" {
							continue
						}
						switch left := time.Until(a.Expire); {
						case left > 100*365*24*time.Hour:
							mas = append(mas, "n")
						case left < 30*time.Minute:
							mas = append(mas, "0")
						default:
							mas = append(mas, "3600")
						}
						pn, _ := strconv.Atoi(a.Port)
						ports = append(ports, pn)
					}
				} else {
					c12Count(s, "header:parse-error")
				}
				masTok := "-"
				if len(mas) > 0 {
					masTok = strings.Join(mas, "/")
				}
				toks = append(toks, fmt.Sprintf("h:%s:%d:%s", o.model, now, masTok))
				after, _ := pendingOf(o)
				if after != nil && after != before {
					entryPorts[after] = ports
					outs = append(outs, "h0w") // created waiting; the background dial follows
					settle(o)
					toks = append(toks, fmt.Sprintf("d:%s:1", o.model))
					_, d := pendingOf(o)
					outs = append(outs, "d"+d)
				} else {
					_, d := pendingOf(o)
					outs = append(outs, "h"+d)
				}
				headerSeen[o.model] = true
				c12Count(s, "ev:header")
				if special <= 2 {
					c12Count(s, "header:no-h3-entry")
				}
			case x < 17: // request
				pas, d := pendingOf(o)
				want := r.Intn(4) != 0
				ok := want
				idxBefore := -1
				if pas != nil {
					pas.Mu.Lock()
					idxBefore = pas.CurrentIndex
					pas.Mu.Unlock()
					if ps := entryPorts[pas]; strings.HasSuffix(d, "r") && idxBefore < len(ps) && ps[idxBefore] != g.port {
						ok = false // a dead endpoint cannot answer
					}
				}
				ctx, cancel := context.WithTimeout(context.Background(), 3*time.Second)
				if !ok {
					tr.t3.Close() // no cached connection may serve it
					ctx = context.WithValue(ctx, c12AltFailKey{}, true)
				}
				rq, _ := http.NewRequestWithContext(ctx, "GET", u.String(), nil)
				var resp *http.Response
				var rerr error
				if txt, p := verifh.Safely(func() { resp, rerr = tr.checkAltSvc(rq) }); p {
					crashed = txt
					cancel()
					break
				}
				served := "rN"
				if resp != nil {
					served = "rA1"
					resp.Body.Close()
				} else if rerr != nil {
					served = "rA0"
				}
				cancel()
				toks = append(toks, fmt.Sprintf("r:%s:%d:%s", o.model, now, c12B(ok)))
				c12Count(s, "ev:request")
				c12Count(s, "served:"+served)
				if headerSeen[o.model] {
					nontriv = true
				}
				if served == "rN" && headerSeen[o.model] {
					c12Count(s, "normal-after-header")
				}
				pas2, d2 := pendingOf(o)
				if served == "rA0" && pas2 != nil && pas2 == pas {
					pas2.Mu.Lock()
					moved := pas2.CurrentIndex != idxBefore
					idxNow := pas2.CurrentIndex
					pas2.Mu.Unlock()
					if moved {
						// checkAltSvc moved on to the next entry and dials it in the background
						outs = append(outs, fmt.Sprintf("%s%dw", served, idxNow))
						settle(o)
						toks = append(toks, fmt.Sprintf("d:%s:1", o.model))
						_, d3 := pendingOf(o)
						outs = append(outs, "d"+d3)
						c12Count(s, "next-entry-tried")
						continue
					}
				}
				outs = append(outs, served+d2)
			default: // advance the clock by two hours
				for _, oo := range origins {
					uu, _ := url.Parse(oo.raw)
					key := netutil.AuthorityKey(uu)
					if as := tr.altSvcJar.GetAltSvc(key); as != nil {
						as.Expire = as.Expire.Add(-2 * time.Hour)
					}
					if pas, _ := pendingOf(oo); pas != nil {
						pas.Mu.Lock()
						for _, en := range pas.Entries {
							en.Expire = en.Expire.Add(-2 * time.Hour)
						}
						pas.Mu.Unlock()
					}
				}
				now += 7200
				c12Count(s, "ev:advance")
			}
		}
		tr.CloseIdleConnections()
		tr.t3.Close()
		line := "c12altsm " + strings.Join(toks, ",")
		human := "C().EnableHTTP3() ; " + strings.Join(toks, " ; ")
		if crashed != "" {
			s.Crash(line, human, crashed, "")
			continue
		}
		if len(toks) == 0 {
			continue
		}
		s.Case(line, strings.Join(outs, ","), true, "", nontriv, human)
	}
	for _, must := range []string{"ev:header", "ev:request", "ev:advance", "served:rA1", "served:rA0", "served:rN", "header:no-h3-entry", "next-entry-tried", "normal-after-header"} {
		if c12Hist[s][must] == 0 {
			t.Errorf("never reached bucket %q", must)
		}
	}
	s.Finish()
}
