//go:build verif

package req

// Lane c12altsm (sequence lane, in-package): random sequences of
//
//   header   Transport.handleAltSvc(req, value) for one of three origins (two ports of one host,
//            the same port on another host) with a generated Alt-Svc value: 1..3 h3 entries
//            (endpoint alive / dead, ma absent / 0 / 3600, host given or not), or `clear`,
//            another protocol only, garbage;
//   request  Transport.checkAltSvc(req): served through the Alt-Svc shortcut (response /
//            error) or left to the normal dispatch;
//   advance  the clock moves two hours (every stored Expire is back-dated through the
//            pointers the transport holds)
//   setting  EnableForceHTTP1/2/3, DisableForceHttpVersion, EnableHTTP3, DisableHTTP3, Clone —
//            BETWEEN the other events: forcing changed after an alternative was learned /
//            confirmed, un-forced again, HTTP/3 switched off and on
//
// Headers arrive as responses of a stub inner round tripper through the real
// Transport.RoundTrip (its learning guard included); requests go through the real
// Transport.RoundTrip as well: the origins' own ports are closed, so a request that is not
// served through the Alt-Svc shortcut ends in a refused TCP dial (or, HTTP/3 forced, in a
// QUIC dial to the origin's own port).
//
// on a real transport whose HTTP/3 round tripper dials a real loopback HTTP/3 origin through
// the Dial seam (a dead endpoint fails after 20 ms; a request that has to fail does so through
// a marked context). After every event the pending entry of the origin (CurrentIndex,
// Transport != nil) is read in-package. Compared with Req.Pool.AltSvc.step (driver lane
// c12altsm): state per origin incl. port, pending -> confirmed only after a successful
// exchange, expiry `ma`, `clear` ignored, first advertisement governs.
//
// AddConn reports success as soon as the dial has STARTED (http3.RoundTripper.getClient does
// not wait): with failures that take time — every real QUIC failure — the background dial
// outcome is `true` and a dead endpoint is found out by the first request. The lane therefore
// always reports `dialed … 1`; the immediate-failure branch of handlePendingAltSvc is a race in
// the code and is not sampled.

import (
	"context"
	"crypto/tls"
	"errors"
	"fmt"
	"net"
	"net/http"
	"net/url"
	"runtime"
	"strconv"
	"strings"
	"sync"
	"testing"
	"time"

	"github.com/imroc/req/v3/internal/altsvcutil"
	"github.com/imroc/req/v3/internal/netutil"
	"github.com/imroc/req/v3/internal/verifh"
	"github.com/quic-go/quic-go"
)

type c12AltFailKey struct{}

// c12AltReqKey marks the context of the lane's requests with their number: a QUIC dial is
// attributed to a request by the context it is made under (the dial started by a background
// AddConn runs under context.Background and may reach the seam during a LATER request).
type c12AltReqKey struct{}

func TestVerif_C12_altsm(t *testing.T) {
	s := verifh.New(t, "C12", "c12altsm",
		"sequences of 5..12 events over three origins (two closed ports of 127.0.0.1, the first of them on localhost) starting from C().EnableHTTP3(): Alt-Svc header (1..3 h3 entries with alive/dead endpoints and ma none/0/3600, or clear / h2 only / garbage), request (checkAltSvc; the HTTP/3 exchange succeeds or is made to fail), clock advance by two hours, protocol setters in between (EnableForceHTTP1/2/3, DisableForceHttpVersion, EnableHTTP3, DisableHTTP3, Clone: forcing changed after an entry was learned or confirmed, and back); headers and requests go through the real Transport.RoundTrip; a real HTTP/3 loopback origin behind the Dial seam; observable per event: disposition of the request (Alt-Svc shortcut ok / error / normal dispatch) and the origin's pending entry (index, ready); non-trivial = sequences with a header and a later request for the same origin")
	r := s.Rand()
	g, err := c12StartOrigin(c12OfferTable["all"])
	if err != nil {
		t.Fatalf("infrastructure: %v", err)
	}
	defer g.close()
	dl, err := net.ListenPacket("udp", "127.0.0.1:0")
	if err != nil {
		t.Fatalf("infrastructure: %v", err)
	}
	deadPort := dl.LocalAddr().(*net.UDPAddr).Port
	dl.Close()

	type origin struct {
		raw   string
		model string
	}
	closedPort := func() int {
		l, err := net.Listen("tcp", "127.0.0.1:0")
		if err != nil {
			t.Fatalf("infrastructure: %v", err)
		}
		p := l.Addr().(*net.TCPAddr).Port
		l.Close()
		return p
	}
	p1, p2 := closedPort(), closedPort()
	origins := []origin{{fmt.Sprintf("https://127.0.0.1:%d", p1), "1.1"}, {fmt.Sprintf("https://127.0.0.1:%d", p2), "1.2"}, {fmt.Sprintf("https://localhost:%d", p1), "2.1"}}
	n := verifh.N(250, 5000)
	for i := 0; i < n; i++ {
		c := C().EnableInsecureSkipVerify().EnableHTTP3()
		tr := c.GetTransport()
		var seamMu sync.Mutex
		var seamPorts []string // ports the Dial seam was asked for ON BEHALF OF the current request
		curReq, bgIn, bgOut := 0, 0, 0
		installSeam := func() {
			if tr.t3 == nil {
				return
			}
			tr.t3.Dial = func(ctx context.Context, addr string, tlsCfg *tls.Config, qc *quic.Config) (quic.EarlyConnection, error) {
				_, port, _ := net.SplitHostPort(addr)
				id, _ := ctx.Value(c12AltReqKey{}).(int)
				seamMu.Lock()
				if id != 0 && id == curReq {
					seamPorts = append(seamPorts, port)
				}
				if id == 0 {
					bgIn++
				}
				seamMu.Unlock()
				if id == 0 {
					defer func() { seamMu.Lock(); bgOut++; seamMu.Unlock() }()
				}
				if ctx.Value(c12AltFailKey{}) != nil {
					return nil, errors.New("c12: exchange made to fail")
				}
				if port != fmt.Sprint(g.port) {
					time.Sleep(20 * time.Millisecond) // a failure that takes time, as every real QUIC failure
					return nil, errors.New("c12: dead endpoint")
				}
				return quic.DialAddrEarly(ctx, "127.0.0.1:"+port, tlsCfg, qc)
			}
		}
		installSeam()
		now := 0
		toks, outs := []string{"s:e3"}, []string{"s"}
		entryPorts := map[*pendingAltSvc][]int{} // lane's own record: ports of the entries of each advertisement
		pendingOf := func(o origin) (*pendingAltSvc, string) {
			u, _ := url.Parse(o.raw)
			tr.pendingAltSvcsMu.Lock()
			pas := tr.pendingAltSvcs[netutil.AuthorityKey(u)]
			tr.pendingAltSvcsMu.Unlock()
			if pas == nil {
				return nil, "-"
			}
			pas.Mu.Lock()
			defer pas.Mu.Unlock()
			st := "w"
			if pas.Transport != nil {
				st = "r"
			}
			return pas, fmt.Sprintf("%d%s", pas.CurrentIndex, st)
		}
		settle := func(o origin) {
			// a background AddConn was started for this origin: it reports success once the dial is under way
			deadline := time.Now().Add(3 * time.Second)
			for time.Now().Before(deadline) {
				if _, d := pendingOf(o); strings.HasSuffix(d, "r") {
					return
				}
				time.Sleep(time.Millisecond)
			}
		}
		headerSeen := map[string]bool{}
		confirmed := map[string]bool{} // origins with a successful exchange through the shortcut
		forcedAfterConfirm := false
		nontriv := false
		crashed := ""
		nev := 6 + r.Intn(9)
		// every third sequence starts with the set-after-learn scheme: one origin advertises a live
		// endpoint, 1..2 requests confirm it, THEN the forcing changes (and possibly changes back),
		// with requests to that origin after each change; random events follow
		type planned struct {
			kind string // header | request | setting
			o    int
			tk   string
		}
		var plan []planned
		if i%3 == 0 {
			po := r.Intn(len(origins))
			plan = append(plan, planned{"header", po, ""}, planned{"request", po, ""})
			if r.Intn(2) == 0 {
				plan = append(plan, planned{"request", po, ""})
			}
			for k := 1 + r.Intn(3); k > 0; k-- {
				plan = append(plan, planned{"setting", po, []string{"f1", "f2", "f1", "f2", "uf", "f3", "cl", "d3"}[r.Intn(8)]}, planned{"request", po, ""})
			}
			c12Count(s, "scheme:set-after-learn")
			if nev < len(plan)+2 {
				nev = len(plan) + 2
			}
		}
		for e := 0; e < nev && crashed == ""; e++ {
			now++
			o := origins[r.Intn(len(origins))]
			x := r.Intn(24)
			plannedTk := ""
			liveHeader := false
			if e < len(plan) {
				o = origins[plan[e].o]
				switch plan[e].kind {
				case "header":
					x, liveHeader = 0, true
				case "request":
					x = 10
				case "setting":
					x, plannedTk = 23, plan[e].tk
				}
			}
			u, _ := url.Parse(o.raw + "/x")
			switch {
			case x >= 20: // a protocol setter
				tk := []string{"f1", "f2", "f1", "f2", "uf", "uf", "uf", "f3", "e3", "d3", "cl"}[r.Intn(11)]
				if plannedTk != "" {
					tk = plannedTk
				}
				switch tk {
				case "f1":
					c.EnableForceHTTP1()
				case "f2":
					c.EnableForceHTTP2()
				case "f3":
					c.EnableForceHTTP3()
				case "uf":
					c.DisableForceHttpVersion()
				case "e3":
					c.EnableHTTP3()
				case "d3":
					c.DisableHTTP3()
				case "cl":
					tr.CloseIdleConnections()
					if tr.t3 != nil {
						tr.t3.Close()
					}
					c = c.Clone()
					tr = c.GetTransport()
				}
				installSeam()
				toks = append(toks, "s:"+tk)
				outs = append(outs, "s")
				c12Count(s, "ev:setting:"+tk)
				if len(confirmed) > 0 && (tk == "f1" || tk == "f2") {
					c12Count(s, "forced-after-confirmed")
					forcedAfterConfirm = true
				}
			case x < 8: // header
				var parts, mas []string
				var ports []int
				special := r.Intn(7)
				if liveHeader {
					special = 6
				}
				switch special {
				case 0:
					parts = []string{"clear"}
				case 1:
					parts = []string{`h2=":443"; ma=60`}
				case 2:
					parts = []string{"h3"}
				default:
					for k := 1 + r.Intn(3); k > 0; k-- {
						port := g.port
						if r.Intn(3) == 0 && !liveHeader {
							port = deadPort
						}
						ent := fmt.Sprintf(`h3=":%d"`, port)
						if r.Intn(3) == 0 {
							ent = fmt.Sprintf(`h3="127.0.0.1:%d"`, port)
						}
						mc := r.Intn(3)
						if liveHeader && mc == 1 {
							mc = 2
						}
						switch mc {
						case 0:
							mas = append(mas, "n")
						case 1:
							ent += "; ma=0"
							mas = append(mas, "0")
						default:
							ent += "; ma=3600"
							mas = append(mas, "3600")
						}
						if r.Intn(4) == 0 && !liveHeader {
							ent += "; persist=1"
						}
						parts = append(parts, ent)
						ports = append(ports, port)
					}
					if r.Intn(4) == 0 { // another protocol in between: filtered out
						parts = append([]string{`h2=":443"`}, parts...)
					}
				}
				value := strings.Join(parts, ", ")
				before, _ := pendingOf(o)
				rq, _ := http.NewRequest("GET", u.String(), nil)
				saved := tr.wrappedRoundTrip
				tr.wrappedRoundTrip = HttpRoundTripFunc(func(rq *http.Request) (*http.Response, error) {
					return &http.Response{StatusCode: 200, Status: "200 OK", Proto: "HTTP/2.0", ProtoMajor: 2, Header: http.Header{"Alt-Svc": {value}},
						Body: http.NoBody, Request: rq}, nil
				})
				txt, p := verifh.Safely(func() {
					if resp, err := tr.RoundTrip(rq); err == nil && resp != nil {
						resp.Body.Close()
					}
				})
				tr.wrappedRoundTrip = saved
				if p {
					crashed = txt
					break
				}
				// what the header SAYS is the parser's business (internal/altsvcutil, e.g. a `persist`
				// parameter without `ma` is a parse error that drops the whole value): the state
				// machine is fed the h3 entries the real parser yields
				mas, ports = nil, nil
				if parsed, perr := altsvcutil.ParseHeader(value); perr == nil {
					for _, a := range parsed {
						if a.Protocol != "h3" {
							continue
						}
						switch left := time.Until(a.Expire); {
						case left > 100*365*24*time.Hour:
							mas = append(mas, "n")
						case left < 30*time.Minute:
							mas = append(mas, "0")
						default:
							mas = append(mas, "3600")
						}
						pn, _ := strconv.Atoi(a.Port)
						ports = append(ports, pn)
					}
				} else {
					c12Count(s, "header:parse-error")
				}
				masTok := "-"
				if len(mas) > 0 {
					masTok = strings.Join(mas, "/")
				}
				toks = append(toks, fmt.Sprintf("h:%s:%d:%s", o.model, now, masTok))
				after, _ := pendingOf(o)
				if after != nil && after != before {
					entryPorts[after] = ports
					outs = append(outs, "h0w") // created waiting; the background dial follows
					settle(o)
					toks = append(toks, fmt.Sprintf("d:%s:1", o.model))
					_, d := pendingOf(o)
					outs = append(outs, "d"+d)
				} else {
					_, d := pendingOf(o)
					outs = append(outs, "h"+d)
				}
				headerSeen[o.model] = true
				c12Count(s, "ev:header")
				if special <= 2 {
					c12Count(s, "header:no-h3-entry")
				}
			case x < 17: // request
				pas, d := pendingOf(o)
				want := r.Intn(4) != 0 || e < len(plan)
				ok := want
				idxBefore := -1
				if pas != nil {
					pas.Mu.Lock()
					idxBefore = pas.CurrentIndex
					pas.Mu.Unlock()
					if ps := entryPorts[pas]; strings.HasSuffix(d, "r") && idxBefore < len(ps) && ps[idxBefore] != g.port {
						ok = false // a dead endpoint cannot answer
					}
				}
				ctx, cancel := context.WithTimeout(context.Background(), 3*time.Second)
				if !ok {
					if tr.t3 != nil {
						tr.t3.Close() // no cached connection may serve it
					}
					ctx = context.WithValue(ctx, c12AltFailKey{}, true)
				}
				// a background dial still inside the seam finishes first: the request then meets a
				// settled HTTP/3 round tripper (cached connection, or a failed dial it repeats itself)
				for w := 0; w < 2000; w++ {
					runtime.Gosched()
					seamMu.Lock()
					busy := bgIn != bgOut
					seamMu.Unlock()
					if !busy {
						break
					}
					time.Sleep(time.Millisecond)
				}
				seamMu.Lock()
				curReq++
				ctx = context.WithValue(ctx, c12AltReqKey{}, curReq)
				seamPorts = nil
				seamMu.Unlock()
				rq, _ := http.NewRequestWithContext(ctx, "GET", u.String(), nil)
				var resp *http.Response
				var rerr error
				if txt, p := verifh.Safely(func() { resp, rerr = tr.RoundTrip(rq) }); p {
					crashed = txt
					cancel()
					break
				}
				_ = rerr
				// through the shortcut = answered over HTTP/3 (the origins' own ports answer nothing), or
				// failed after a QUIC dial to one of the ADVERTISED endpoints
				served := "rN"
				if resp != nil {
					if resp.ProtoMajor == 3 {
						served = "rA1"
					}
					resp.Body.Close()
				} else {
					seamMu.Lock()
					for _, sp := range seamPorts {
						if sp == fmt.Sprint(g.port) || sp == fmt.Sprint(deadPort) {
							served = "rA0"
						}
					}
					seamMu.Unlock()
				}
				cancel()
				toks = append(toks, fmt.Sprintf("r:%s:%d:%s", o.model, now, c12B(ok)))
				c12Count(s, "ev:request")
				c12Count(s, "served:"+served)
				if served == "rA1" {
					confirmed[o.model] = true
				}
				if forcedAfterConfirm && confirmed[o.model] && tr.forceHttpVersion != "" {
					c12Count(s, "request-while-forced-after-confirmed")
				}
				if headerSeen[o.model] {
					nontriv = true
				}
				if served == "rN" && headerSeen[o.model] {
					c12Count(s, "normal-after-header")
				}
				pas2, d2 := pendingOf(o)
				if served == "rA0" && pas2 != nil && pas2 == pas {
					pas2.Mu.Lock()
					moved := pas2.CurrentIndex != idxBefore
					idxNow := pas2.CurrentIndex
					pas2.Mu.Unlock()
					if moved {
						// checkAltSvc moved on to the next entry and dials it in the background
						outs = append(outs, fmt.Sprintf("%s%dw", served, idxNow))
						settle(o)
						toks = append(toks, fmt.Sprintf("d:%s:1", o.model))
						_, d3 := pendingOf(o)
						outs = append(outs, "d"+d3)
						c12Count(s, "next-entry-tried")
						continue
					}
				}
				outs = append(outs, served+d2)
			default: // advance the clock by two hours
				for _, oo := range origins {
					uu, _ := url.Parse(oo.raw)
					key := netutil.AuthorityKey(uu)
					if tr.altSvcJar == nil {
						continue
					}
					if as := tr.altSvcJar.GetAltSvc(key); as != nil {
						as.Expire = as.Expire.Add(-2 * time.Hour)
					}
					if pas, _ := pendingOf(oo); pas != nil {
						pas.Mu.Lock()
						for _, en := range pas.Entries {
							en.Expire = en.Expire.Add(-2 * time.Hour)
						}
						pas.Mu.Unlock()
					}
				}
				now += 7200
				c12Count(s, "ev:advance")
			}
		}
		tr.CloseIdleConnections()
		if tr.t3 != nil {
			tr.t3.Close()
		}
		line := "c12altsm " + strings.Join(toks, ",")
		human := "C().EnableHTTP3() ; " + strings.Join(toks, " ; ")
		if crashed != "" {
			s.Crash(line, human, crashed, "")
			continue
		}
		if len(toks) == 0 {
			continue
		}
		s.Case(line, strings.Join(outs, ","), true, "", nontriv, human)
	}
	for _, must := range []string{"ev:header", "ev:request", "ev:advance", "served:rA1", "served:rA0", "served:rN", "header:no-h3-entry", "next-entry-tried", "normal-after-header", "ev:setting:f1", "ev:setting:f2", "ev:setting:uf", "ev:setting:d3", "ev:setting:cl", "forced-after-confirmed", "request-while-forced-after-confirmed"} {
		if c12Hist[s][must] == 0 {
			t.Errorf("never reached bucket %q", must)
		}
	}
	s.Finish()
}
