//go:build verif

package req

import (
	"bytes"
	"fmt"
	"io"
	"strings"
	"testing"

	"github.com/imroc/req/v3/internal/verifc14"
	"github.com/imroc/req/v3/internal/verifh"
)

// TestVerif_C14_containers_e2e: bodies produced by the Lean model's encoders (gzip members with
// every header-field combination around stored DEFLATE blocks, several members, raw stored
// DEFLATE, the zlib wrapper) and damaged versions of them, served by in-process origins over
// HTTP/1.1, HTTP/2 and HTTP/3 with Content-Length or streamed framing, decoded by the transport
// (transport-requested gzip: transport.go gzipReader on HTTP/1.1, compress.GzipReader on the
// others) or by AutoDecompress (compress.GzipReader / DeflateReader), read with generated
// sizes (zero-length reads, one byte, primes, more than the body). Every byte the caller gets
// and the final error class are compared with the MODEL DECODER over the bytes the framing
// layer delivers (c14dec).
func TestVerif_C14_containers_e2e(t *testing.T) {
	s := verifh.New(t, "C14", "containers_e2e",
		"bodies ENCODED BY THE MODEL (gzip members x header fields x block structure x 0..3 members; stored DEFLATE; zlib wrapper; zstd frames x header layouts x raw blocks x skippable frames x 0..3 frames) - intact, cut inside a member, message shorter than its Content-Length (at a member boundary / inside), 1-9 stray bytes, >=10 garbage bytes, bare second header, bit flips by region, wrong CRC/ISIZE, over-long FNAME, trailing bytes after raw DEFLATE, zlib / gzip under `deflate`, empty body - x {h1, h2, h3} x {Content-Length, streamed} x decoding configuration {transport-requested gzip, AutoDecompress, caller Accept-Encoding + AutoDecompress, DisableCompression + AutoDecompress} x 1-4 cycling Read sizes from {0, 1, 2, 3, 7, 13, 16, 97, 100, 512, 4096, 65536, 200003}; answer = bytes + final error class the caller reads from Response.Body, compared with the model decoder (c14dec) on the bytes the framing layer delivers; oracle as in lane containers; non-trivial = decoded")
	e := c14NewEnv(t, "h1", "h2", "h3")
	defer e.close()
	r := s.Rand()
	hist := map[string]int{}
	count := func(k string) { s.Count(k); hist[k]++ }
	streams, err := verifc14.GenStreams(r, verifh.N(330, 12000), verifh.N(3, 30))
	if err != nil {
		t.Fatalf("infra: model encoder: %v", err)
	}
	zs, err := verifc14.GenZStreams(r, verifh.N(200, 8000), verifh.N(2, 20))
	if err != nil {
		t.Fatalf("infra: model encoder: %v", err)
	}
	streams = append(streams, zs...)
	type run struct {
		c    *c14Case
		st   verifc14.FStream
		o    c14Obs
		line string
	}
	var runs []*run
	protos := []string{"h1", "h2", "h3"}
	for i, st := range streams {
		proto := protos[i%3]
		var cfg c14Cfg
		if st.Fmt == "gzip" {
			cfg = c14Cfgs[[]int{0, 0, 2, 4, 5}[r.Intn(5)]]
		} else {
			cfg = c14Cfgs[[]int{2, 4, 5}[r.Intn(3)]]
		}
		c := &c14Case{
			id: fmt.Sprintf("fmt-%d-%s-%s-%s", i, proto, st.Fmt, st.Kind), proto: proto, dc: cfg.dc, auto: cfg.auto, ae: cfg.ae, method: "GET",
			ce: []string{st.Fmt}, ctype: "application/octet-stream", payload: st.Payload, wire: st.Wire, stream: "valid", alg: st.Fmt,
			framing: "cl", sizes: verifc14.Sizes(r),
		}
		if r.Intn(3) == 0 {
			c.framing = "stream"
		}
		fin := "eof"
		if st.Fin != io.EOF {
			// the message is declared with its full length and ends early: the framing layer's error
			c.wire, c.stream, c.sendN, c.framing = st.Full, "short", len(st.Wire), "cl"
			if len(st.Wire) >= len(st.Full) {
				continue
			}
			fin = "err1" // HTTP/1.1 body reader, HTTP/2 bytesRemain, HTTP/3 remainingContentLength: io.ErrUnexpectedEOF
		}
		x := &run{c: c, st: st}
		x.o = e.run(c)
		x.line = "c14dec " + st.Fmt + " " + verifh.Hex(string(st.Wire)) + " " + fin + " " + verifh.IntList(c.sizes)
		runs = append(runs, x)
	}
	lines := make([]string, len(runs))
	for i, x := range runs {
		lines[i] = x.line
	}
	model, err := verifh.RunModel(lines)
	if err != nil {
		t.Fatalf("infra: model: %v", err)
	}
	for i, x := range runs {
		c, st, o := x.c, x.st, x.o
		human := fmt.Sprintf("%s %s/%s dc=%v auto=%v callerAE=%q framing=%s payload=%dB wire=%dB sent=%dB reads=%v -> %dB %s unc=%v", c.proto, st.Fmt, st.Kind, c.dc, c.auto, c.ae, c.framing, len(st.Payload), len(c.wire), len(st.Wire), c.sizes, len(o.data), o.term, o.unc)
		if o.panicText != "" {
			s.Crash(c.id, human, o.panicText, "")
			continue
		}
		if o.rtErr != "" {
			if strings.Contains(o.rtErr, "infra:") {
				t.Fatalf("infra: %s", o.rtErr)
			}
			s.Observe(c.id, false, "", true, human+" :: round trip failed: "+o.rtErr, o.rtErr)
			continue
		}
		if !o.unc {
			// not decoded: legitimate only for a zero-length body on HTTP/1.1 and HTTP/2 (bodiless exit)
			bodiless := len(c.wire) == 0 && c.framing == "cl" && c.proto != "h3"
			count("not-decoded")
			s.Observe(c.id, bodiless, "", false, human+" :: the response was not decoded", "not decoded")
			continue
		}
		ok, why := true, ""
		switch {
		case st.Intact:
			if !bytes.Equal(o.data, st.Payload) || o.term != "eof" {
				ok, why = false, fmt.Sprintf("intact stream read as %d bytes + %s, payload is %d bytes", len(o.data), o.term, len(st.Payload))
			}
		case st.MustErr:
			if !strings.HasPrefix(o.term, "err") {
				ok, why = false, fmt.Sprintf("read as %d bytes + %s: no read error", len(o.data), o.term)
			} else if !bytes.HasPrefix(st.Payload, o.data) {
				ok, why = false, "bytes that are not the payload's before the error"
			}
		case st.ErrOrOK:
			if !strings.HasPrefix(o.term, "err") && !(o.term == "eof" && bytes.Equal(o.data, st.Payload)) {
				ok, why = false, fmt.Sprintf("damaged stream read as %d bytes + %s: neither an error nor the payload", len(o.data), o.term)
			}
		}
		if !ok {
			human += " :: " + why
		}
		count(c.proto)
		count(st.Fmt + ":" + st.Kind)
		count("framing:" + c.framing)
		count("end:" + o.term)
		if c.stream == "short" {
			count("short")
		}
		if cfg := fmt.Sprintf("dc=%v,auto=%v,ae=%v", c.dc, c.auto, c.ae != ""); true {
			count("cfg:" + cfg)
		}
		impl := "data=" + verifh.Hex(string(o.data)) + " t=" + o.term
		if model[i] == "unmodelled" {
			count("unmodelled")
			s.Observe(c.id, ok, "", true, human+" (outside the modelled subset: oracle only)", impl[:min(len(impl), 200)])
			continue
		}
		count("model-judged")
		class := ""
		if st.Fmt == "zstd" && c.stream == "short" && o.term == "eof" {
			if _, _, rt := verifc14.RefRaw("zstd", st.Wire, io.ErrUnexpectedEOF); rt == "eof" {
				class = "zstd-source-error-at-frame-boundary" // permanent: the library turns the framing error into io.EOF there
			}
		}
		s.Case(x.line, impl, ok, class, true, human)
	}
	need := []string{"h1", "h2", "h3", "model-judged", "framing:cl", "framing:stream", "short", "end:eof", "end:err1", "end:err2",
		"cfg:dc=false,auto=false,ae=false", "cfg:dc=false,auto=true,ae=false", "cfg:dc=false,auto=true,ae=true", "cfg:dc=true,auto=true,ae=false",
		"gzip:valid", "gzip:multi", "gzip:trunc", "gzip:stray", "gzip:garbage", "gzip:flip", "gzip:flip-trailer", "deflate:valid", "deflate:trail", "deflate:zlib", "deflate:gzip",
		"zstd:valid", "zstd:multi", "zstd:skip", "zstd:trunc", "zstd:flip-sum", "zstd:fcs-wrong", "zstd:garbage"}
	for _, k := range need {
		if hist[k] == 0 {
			t.Errorf("bucket %s not reached", k)
		}
	}
	s.Finish()
}
