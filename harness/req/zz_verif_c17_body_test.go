//go:build verif

package req

import (
	"bytes"
	"encoding/json"
	"encoding/xml"
	"fmt"
	"io"
	"mime"
	"net/http"
	"reflect"
	"strconv"
	"strings"
	"testing"

	"github.com/imroc/req/v3/internal/verifh"
)

type c17Doc struct {
	XMLName xml.Name `json:"-" xml:"doc"`
	Name    string   `json:"name" xml:"name"`
	N       int      `json:"n" xml:"n,attr"`
	Tags    []string `json:"tags" xml:"tags>tag"`
}

// c17Text: valid UTF-8 without control characters (what JSON and XML can both carry exactly).
func c17Text(r interface{ Intn(int) int }) string {
	words := []string{"", "plain", "a b", "<tag>&amp;", "quote\"'", "äöü 中文", "🙂", "x=y&z", "]]>", "tab\tin"}
	return words[r.Intn(len(words))] + words[r.Intn(len(words))]
}

func c17OptHex(b []byte, isNil bool) string {
	if isNil {
		return "!"
	}
	return verifh.Hex(string(b))
}

// TestVerif_C17_body: the dispatch of the real parseRequestBody (payload-forbidden methods,
// multipart, form, ordered form, marshalled body with JSON/XML selection, raw body with
// content sniffing; Content-Type preset at client or request level) vs the model `dispatch`.
func TestVerif_C17_body(t *testing.T) {
	s := verifh.New(t, "C17", "body",
		"request configurations: method from GET/HEAD/OPTIONS/POST/PUT/PATCH/DELETE/TRACE/get with AllowGetMethodPayload on/off; body description = none | raw bytes (text, JSON-looking, binary, empty) | value to marshal (struct, map, slice; unmarshallable value) | plain form | ordered form (odd counts too) | combinations; forced multipart with/without a file; Content-Type preset at client and/or request level from {json, xml, +json / +xml suffixes, charset parameters, text/plain, upper- and mixed-case XML types, a parameter mentioning xml}; custom JSON / XML marshal functions set at client level in 1/6; real parseRequestHeader+parseRequestBody; oracle: forbidden methods carry nothing, marshalled bodies decode to the supplied value under a matching type, raw bodies are unchanged; non-trivial = a body was produced")
	r := s.Rand()
	n := verifh.N(4000, 80000)
	methods := []string{"GET", "HEAD", "OPTIONS", "POST", "PUT", "PATCH", "DELETE", "TRACE", "get"}
	cts := []string{"", "", "application/json", "text/xml", "application/xml; charset=utf-8", "application/soap+xml", "text/plain", "TEXT/XML", "application/vnd.x+json",
		"Application/XML", "application/XHTML+XML; charset=UTF-8", "application/json; charset=utf-8", "application/problem+json", "application/x-www-form-urlencoded", "text/plain; kind=xml"}
	for i := 0; i < n; i++ {
		method := verifh.Pick(r, methods)
		if r.Intn(2) == 0 {
			method = verifh.Pick(r, []string{"POST", "PUT", "GET"})
		}
		allowGet := r.Intn(2) == 0
		b := "BnD"
		c := C().SetMultipartBoundaryFunc(func() string { return b })
		if allowGet {
			c.EnableAllowGetMethodPayload()
		} else {
			c.DisableAllowGetMethodPayload()
		}
		customMarshal := r.Intn(6) == 0
		if customMarshal {
			// client-level marshal functions: whatever they return is the body
			c.SetJsonMarshal(func(v interface{}) ([]byte, error) {
				b, err := json.Marshal(v)
				return append([]byte("/*custom json*/"), b...), err
			})
			c.SetXmlMarshal(func(v interface{}) ([]byte, error) {
				b, err := xml.Marshal(v)
				return append([]byte("<!--custom xml-->"), b...), err
			})
		}
		req := c.R()
		req.Method = method
		clientCT := verifh.Pick(r, cts)
		reqCT := verifh.Pick(r, cts)
		if r.Intn(2) == 0 {
			clientCT = ""
		}
		if r.Intn(2) == 0 {
			reqCT = ""
		}
		// the ROUTE a preset takes: the dedicated setter, the generic header setter (any letter
		// case of the name), a header map
		if clientCT != "" {
			switch (i / 5) % 3 {
			case 0:
				c.SetCommonContentType(clientCT)
			case 1:
				c.SetCommonHeader("content-type", clientCT)
			default:
				c.SetCommonHeaders(map[string]string{"Content-Type": clientCT})
			}
			s.Count("client-preset-route-" + strconv.Itoa((i/5)%3))
		}
		if reqCT != "" {
			switch (i / 3) % 3 {
			case 0:
				req.SetContentType(reqCT)
			case 1:
				req.SetHeader("content-type", reqCT)
			default:
				req.SetHeaders(map[string]string{"Content-Type": reqCT})
			}
			s.Count("request-preset-route-" + strconv.Itoa((i/3)%3))
		}
		var rq, cl c17KV
		var ordArgs []string
		var pairs [][2]string
		var raw []byte
		rawSet := false
		var marshalVal interface{}
		marshalSet := false
		multipartOn, emptyField, unsafeField := false, false, false
		var files []c17File
		kindBits := r.Intn(16)
		if kindBits&1 != 0 && r.Intn(2) == 0 { // raw body
			rawSet = true
			switch r.Intn(5) {
			case 0:
				raw = []byte{}
			case 1:
				raw = []byte(`{"a": 1}`)
			case 2:
				raw = []byte("<html><body>x</body></html>")
			case 3:
				raw = []byte(verifh.RandBytes(r, 1+r.Intn(600), ""))
			default:
				raw = []byte("plain text " + c17Str(r, 20))
			}
			if r.Intn(2) == 0 {
				req.SetBodyBytes(raw)
			} else {
				req.SetBody(string(raw))
			}
		}
		if kindBits&2 != 0 && r.Intn(2) == 0 { // marshal
			marshalSet = true
			switch r.Intn(5) {
			case 0:
				marshalVal = &c17Doc{Name: c17Text(r), N: r.Intn(100), Tags: []string{"a", c17Text(r)}}
			case 1:
				marshalVal = c17Doc{Name: "v<&>\"" + c17Text(r), N: -1}
			case 2:
				marshalVal = map[string]interface{}{"k": c17Text(r), "n": r.Intn(10)}
			case 3:
				marshalVal = []int{1, 2, r.Intn(9)}
			default:
				marshalVal = map[string]interface{}{"bad": make(chan int)} // neither marshaller accepts it
			}
			req.SetBody(marshalVal)
		}
		if kindBits&4 != 0 { // plain form
			if r.Intn(2) == 0 {
				rq = c17GenValues(r, 1, []string{"pk"})
				if len(rq.keys) > 0 {
					req.SetFormDataFromValues(rq.values())
				}
			}
			if r.Intn(3) == 0 {
				cl = c17GenValues(r, 1, []string{"pk"})
				if len(cl.keys) > 0 {
					if len(rq.keys) > 0 {
						cl.keys[0] = rq.keys[0] // one distinct key only: map order cannot matter
					}
					c.SetCommonFormDataFromValues(cl.values())
				}
			}
		}
		if kindBits&8 != 0 && r.Intn(2) == 0 { // ordered
			np := 1 + r.Intn(3)
			for j := 0; j < np; j++ {
				k, v := "o"+c17Str(r, 4), c17Str(r, 8)
				if c17HasUnsafe(k) {
					k = "ok"
				}
				ordArgs = append(ordArgs, k, v)
				pairs = append(pairs, [2]string{k, v})
			}
			if r.Intn(5) == 0 {
				ordArgs = append(ordArgs, "odd")
			}
			req.SetOrderedFormData(ordArgs...)
		}
		if r.Intn(5) == 0 {
			multipartOn = true
			// multipart field names: any bytes (quoted like file names); an empty one is refused
			for _, k := range append(append([]string{}, rq.keys...), cl.keys...) {
				if k == "" {
					emptyField = true
				} else if c17HasUnsafe(k) {
					unsafeField = true
				}
			}
			if len(cl.keys) > 0 && (len(pairs) > 0 || emptyField || unsafeField) {
				multipartOn, emptyField, unsafeField = false, false, false // one class of known finding per case
			}
			if len(pairs) > 0 && len(rq.keys) > 0 && (emptyField || unsafeField) {
				multipartOn, emptyField, unsafeField = false, false, false
			}
			if multipartOn {
				req.EnableForceMultipart()
				if r.Intn(2) == 0 {
					files = append(files, c17GenFile(r, req, t.TempDir(), i, false, b, true))
				}
			}
		}
		if !multipartOn {
			emptyField, unsafeField = false, false
		}
		odd := len(ordArgs)%2 == 1
		failed, body, ct := c17RunBodyMiddleware(c, req)
		bodyNil := body == nil
		if !failed && multipartOn && req.GetBody != nil && body == nil {
			rc, _ := req.GetBody()
			body, _ = io.ReadAll(rc)
			bodyNil = false
		}
		impl := "err"
		if !failed {
			impl = c17OptHex(body, bodyNil) + " " + verifh.Hex(ct)
			if bodyNil {
				impl = "nil " + verifh.Hex(ct)
			}
		}
		// model parameters
		js, jerr := json.Marshal(marshalVal)
		xs, xerr := xml.Marshal(marshalVal)
		if customMarshal {
			js, xs = append([]byte("/*custom json*/"), js...), append([]byte("<!--custom xml-->"), xs...)
			s.Count("custom-marshal-funcs")
		}
		sniffed := ""
		if rawSet {
			sniffed = http.DetectContentType(raw)
		}
		line := strings.Join([]string{"c17body", verifh.Hex(method), map[bool]string{true: "1", false: "0"}[allowGet],
			map[bool]string{true: "1", false: "0"}[multipartOn], cl.line(), rq.line(), verifh.HexList(ordArgs), verifh.Hex(b),
			c17FilesLine(files), map[bool]string{true: "1", false: "0"}[marshalSet], c17OptHex(js, jerr != nil), c17OptHex(xs, xerr != nil),
			c17OptHex(raw, !rawSet), verifh.Hex(reqCT), verifh.Hex(clientCT), verifh.Hex(sniffed)}, " ")
		// independent oracle
		forbid := method == "HEAD" || method == "OPTIONS" || (method == "GET" && !allowGet)
		hasForm := len(rq.keys) > 0 || len(cl.keys) > 0 || len(ordArgs) > 0
		ok := true
		switch {
		case forbid:
			ok = !failed && bodyNil
			s.Count("forbidden")
		case odd:
			ok = failed
			s.Count("ordered-odd")
		case emptyField:
			ok = failed
			s.Count("multipart-empty-field-name")
		case failed:
			ok = marshalSet && !hasForm && !multipartOn // only an unmarshallable value may fail
			s.Count("failed")
		case multipartOn:
			s.Count("multipart")
			ok = strings.HasPrefix(ct, "multipart/form-data; boundary=")
		case hasForm:
			s.Count("form")
			ok = ct == "application/x-www-form-urlencoded"
		case marshalSet:
			eff := reqCT
			if eff == "" {
				eff = clientCT
			}
			if strings.Contains(strings.ToLower(eff), "xml") {
				s.Count("marshal-xml")
				ok = xerr == nil && bytes.Equal(body, xs) && ct == eff
				if ok {
					if d, isDoc := marshalVal.(*c17Doc); isDoc {
						var back c17Doc
						ok = xml.Unmarshal(bytes.TrimPrefix(body, []byte("<!--custom xml-->")), &back) == nil && back.Name == d.Name && back.N == d.N && reflect.DeepEqual(back.Tags, d.Tags)
					}
				}
			} else {
				s.Count("marshal-json")
				ok = jerr == nil && bytes.Equal(body, js)
				if eff == "" {
					ok = ok && ct == "application/json; charset=utf-8"
				} else {
					ok = ok && ct == eff
				}
				if ok {
					if d, isDoc := marshalVal.(*c17Doc); isDoc {
						var back c17Doc
						ok = json.Unmarshal(bytes.TrimPrefix(body, []byte("/*custom json*/")), &back) == nil && back.Name == d.Name && back.N == d.N && reflect.DeepEqual(back.Tags, d.Tags)
					}
				}
			}
		case rawSet:
			s.Count("raw")
			ok = bytes.Equal(body, raw) && !bodyNil
			if reqCT == "" && clientCT == "" {
				ok = ok && ct == sniffed
			}
		default:
			s.Count("nothing")
			ok = bodyNil
		}
		class := ""
		switch {
		case forbid:
		case odd:
			class = "c17-ordered-odd"
		case marshalSet && !hasForm && !multipartOn && c17XMLOnlyByCase(reqCT, clientCT):
			class = "c17-xml-type-case"
			s.Count("xml-type-not-lower-case")
		case emptyField:
			class = "c17-field-name-empty"
		case unsafeField:
			class = "c17-field-name-ctl"
			s.Count("multipart-ctl-field-name")
		case multipartOn && len(cl.keys) > 0:
			class = "c17-client-form-multipart"
		case len(pairs) > 0 && (len(rq.keys) > 0 || len(cl.keys) > 0):
			class = "c17-plain-and-ordered"
		}
		for _, f := range files {
			differs := c17QuoteDiffers(f.param) || c17QuoteDiffers(f.name)
			for _, e := range f.extras {
				differs = differs || c17QuoteDiffers(e[1])
			}
			if class == "" && differs {
				class = "c17-quote-ctl"
			}
		}
		s.Case(line, impl, ok, class, !failed && !bodyNil,
			fmt.Sprintf("%s allowGet=%v multipart=%v reqForm=%q clientForm=%q ordered=%q files=%s marshal=%v(%T) raw=%v reqCT=%q clientCT=%q -> failed=%v body=%q ct=%q",
				method, allowGet, multipartOn, rq.values(), cl.values(), ordArgs, c17DescribeFiles(files), marshalSet, marshalVal, rawSet, reqCT, clientCT, failed, c17Trunc(string(body), 120), ct))
		// the DECISION TABLE (Body.kindTable / expectedCT) and the server's choice of parser
		// (Body.serverParser), read off the real request: which of the described bodies went out,
		// under which Content-Type, and which parser net/http's parsePostForm picks for it
		if !failed {
			kind := "form"
			switch {
			case bodyNil:
				kind = "none"
			case multipartOn && (bytes.HasPrefix(body, []byte("--"+b)) || bytes.HasPrefix(body, []byte("\r\n--"+b+"--"))):
				kind = "multipart"
			case marshalSet && !hasForm && jerr == nil && bytes.Equal(body, js):
				kind = "marshal-json"
			case marshalSet && !hasForm && xerr == nil && bytes.Equal(body, xs):
				kind = "marshal-xml"
			case rawSet && !hasForm && !marshalSet && bytes.Equal(body, raw):
				kind = "raw"
			}
			parser := "other"
			if mt, params, perr := mime.ParseMediaType(ct); perr == nil {
				switch mt {
				case "application/x-www-form-urlencoded":
					parser = "urlencoded"
				case "multipart/form-data":
					if bd, has := params["boundary"]; has {
						parser = "multipart:" + verifh.Hex(bd)
					}
				}
			}
			tok := ok
			switch kind {
			case "form":
				tok = tok && parser == "urlencoded"
			case "multipart":
				tok = tok && parser == "multipart:"+verifh.Hex(b)
			}
			s.Case("c17bodytable"+strings.TrimPrefix(line, "c17body"), "kind="+kind+" ct="+verifh.Hex(ct)+" parser="+parser, tok, class, !bodyNil,
				fmt.Sprintf("decision table: %s reqCT=%q clientCT=%q multipart=%v form=%v marshal=%v raw=%v -> a %s body under %q, the server parses it as %s", method, reqCT, clientCT, multipartOn, hasForm, marshalSet, rawSet, kind, ct, parser))
		}
	}
	s.Finish()
}

// c17XMLOnlyByCase: the Content-Type in effect names XML, but not in lower case.
func c17XMLOnlyByCase(reqCT, clientCT string) bool {
	eff := reqCT
	if eff == "" {
		eff = clientCT
	}
	return strings.Contains(strings.ToLower(eff), "xml") && !strings.Contains(eff, "xml")
}
