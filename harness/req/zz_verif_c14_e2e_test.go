//go:build verif

package req

import (
	"bytes"
	"context"
	"crypto/ecdsa"
	"crypto/elliptic"
	crand "crypto/rand"
	"crypto/tls"
	"crypto/x509"
	"crypto/x509/pkix"
	"fmt"
	"io"
	"math/big"
	"math/rand"
	"net"
	"net/http"
	"net/http/httptest"
	"strconv"
	"strings"
	"sync"
	"testing"
	"time"

	"github.com/imroc/req/v3/internal/verifc14"
	"github.com/imroc/req/v3/internal/verifh"
	"github.com/quic-go/quic-go"
	qhttp3 "github.com/quic-go/quic-go/http3"
)

// ---------------------------------------------------------------------------- case

type c14Case struct {
	id      string
	proto   string // h1 h2 h3
	dc      bool   // DisableCompression
	auto    bool   // EnableAutoDecompress
	method  string // GET | HEAD
	ae      string // caller-set Accept-Encoding ("" = not set)
	rng     string // caller-set Range
	ce      []string
	ctype   string   // Content-Type the origin sends ("" = the field is absent)
	extra   []string // further response header fields k,v,… (keys from c14Others, canonical, in that order)
	params  string   // how the payload was encoded (codec parameters), for the human rendering
	mirror  bool     // the origin repeats the Content-Encoding values in X-Ce-Mirror (see arrivedCE)
	arrived []string // filled by c14Observe: X-Ce-Mirror as the client's header parser delivered it
	payload []byte
	wire    []byte
	stream  string // valid | trunc | flip | emptywire | short
	sendN   int    // stream "short": the origin declares Content-Length len(wire) but ends the message after wire[:sendN]
	alg     string // codec the wire was produced with ("" = none); for the oracle
	framing string // cl | stream
	sizes   []int

	// status dimension: 0 = 200 (206 + Content-Range when partial and the request carries Range);
	// 204 / 304 are bodiless whatever the header says
	status  int
	partial bool
	ifRange string

	// attempt sequences (lane resend): the first preCount requests of the case are answered with
	// preStatus (307 back to the same URL, or 503) instead of the response proper
	preStatus, preCount int

	// lane close_e2e: the origin sends the first half of the wire, then waits until the request is
	// cancelled from the client's side (connection closed / stream reset) and reports on released
	slow     bool
	released chan string

	// filled by the origin
	mu     sync.Mutex
	seen   bool
	seenAE []string
	aeLog  []string // Accept-Encoding of every request seen for the case ("none", or values joined by |)
	served int
}

// bodiless: a status that never has a body (RFC 9110); the origin sends none and no Content-Length.
func (c *c14Case) bodiless() bool { return c.status == 204 || c.status == 304 }

func (c *c14Case) wantStatus(hasRange bool) int {
	switch {
	case c.status != 0:
		return c.status
	case c.partial && hasRange:
		return 206
	}
	return 200
}

// c14JoinAE renders the Accept-Encoding values one request carried.
func c14JoinAE(vs []string) string {
	if len(vs) == 0 {
		return "none"
	}
	return strings.Join(vs, "|")
}

// note records what a request for the case carried; it reports whether the request is to be
// answered with the case's pre-status instead of the response proper.
func (c *c14Case) note(ae []string) (pre bool) {
	c.mu.Lock()
	defer c.mu.Unlock()
	c.seen = true
	c.seenAE = append([]string(nil), ae...)
	c.aeLog = append(c.aeLog, c14JoinAE(ae))
	c.served++
	return c.served <= c.preCount
}

type c14Origin struct {
	mu    sync.Mutex
	cases map[string]*c14Case
}

func (o *c14Origin) add(c *c14Case) {
	o.mu.Lock()
	o.cases[c.id] = c
	o.mu.Unlock()
}

func (o *c14Origin) ServeHTTP(w http.ResponseWriter, r *http.Request) {
	o.mu.Lock()
	c := o.cases[r.Header.Get("X-C14-Case")]
	o.mu.Unlock()
	if c == nil {
		http.Error(w, "no such case", 500)
		return
	}
	if c.note(r.Header.Values("Accept-Encoding")) {
		if c.preStatus/100 == 3 {
			w.Header().Set("Location", "/")
		}
		w.Header().Set("Content-Length", "0")
		w.WriteHeader(c.preStatus)
		return
	}
	h := w.Header()
	for _, v := range c.ce {
		h.Add("Content-Encoding", v)
	}
	if c.ctype == "" {
		h["Content-Type"] = nil // no Content-Type at all (and no sniffing by the server)
	} else {
		h.Set("Content-Type", c.ctype)
	}
	h.Set("X-Keep", "k")
	for i := 0; i+1 < len(c.extra); i += 2 {
		h.Set(c.extra[i], c.extra[i+1])
	}
	if c.mirror {
		for _, v := range c.ce {
			h.Add("X-Ce-Mirror", v)
		}
	}
	if c.bodiless() {
		w.WriteHeader(c.status)
		return
	}
	if c.framing == "cl" {
		h.Set("Content-Length", strconv.Itoa(len(c.wire)))
	}
	if c.wantStatus(r.Header.Get("Range") != "") == 206 {
		h.Set("Content-Range", fmt.Sprintf("bytes 0-%d/%d", len(c.wire)-1, len(c.wire)+1000))
	}
	w.WriteHeader(c.wantStatus(r.Header.Get("Range") != ""))
	if c.framing == "stream" {
		if f, ok := w.(http.Flusher); ok {
			f.Flush()
		}
	}
	if c.slow {
		w.Write(c.wire[:len(c.wire)/2])
		if f, ok := w.(http.Flusher); ok {
			f.Flush()
		}
		select {
		case <-r.Context().Done():
			c.released <- "released"
		case <-time.After(c14ReleaseWait):
			c.released <- "held"
		}
		return
	}
	if r.Method != "HEAD" {
		body := c.wire
		if c.stream == "short" {
			// fewer bytes than declared, then the handler returns: HTTP/1.1 closes the
			// connection, HTTP/2 and HTTP/3 end the stream
			body = c.wire[:c.sendN]
		}
		for off := 0; off < len(body); off += 256 << 10 {
			end := off + 256<<10
			if end > len(body) {
				end = len(body)
			}
			if _, err := w.Write(body[off:end]); err != nil {
				return
			}
		}
		if c.stream == "short" {
			if f, ok := w.(http.Flusher); ok {
				f.Flush()
			}
		}
	}
}

// c14ReleaseWait: how long the origin of lane close_e2e waits for the client to let go of an
// exchange whose body was closed (normally milliseconds).
const c14ReleaseWait = 3 * time.Second

// ---------------------------------------------------------------------------- origins

type c14Env struct {
	origin *c14Origin
	base   map[string]string // proto -> base URL
	closer []func()
	tlsCli *tls.Config // trusts the H3 origin's certificate
	mu     sync.Mutex
	cli    map[string]*Client
}

func c14SelfSigned() (tls.Certificate, *x509.CertPool, error) {
	key, err := ecdsa.GenerateKey(elliptic.P256(), crand.Reader)
	if err != nil {
		return tls.Certificate{}, nil, err
	}
	tmpl := &x509.Certificate{
		SerialNumber:          big.NewInt(14),
		Subject:               pkix.Name{CommonName: "c14 origin"},
		NotBefore:             time.Now().Add(-time.Hour),
		NotAfter:              time.Now().Add(24 * time.Hour),
		KeyUsage:              x509.KeyUsageDigitalSignature | x509.KeyUsageCertSign,
		ExtKeyUsage:           []x509.ExtKeyUsage{x509.ExtKeyUsageServerAuth},
		BasicConstraintsValid: true,
		IsCA:                  true,
		IPAddresses:           []net.IP{net.IPv4(127, 0, 0, 1)},
		DNSNames:              []string{"localhost"},
	}
	der, err := x509.CreateCertificate(crand.Reader, tmpl, tmpl, &key.PublicKey, key)
	if err != nil {
		return tls.Certificate{}, nil, err
	}
	leaf, _ := x509.ParseCertificate(der)
	pool := x509.NewCertPool()
	pool.AddCert(leaf)
	return tls.Certificate{Certificate: [][]byte{der}, PrivateKey: key, Leaf: leaf}, pool, nil
}

func c14NewEnv(t *testing.T, protos ...string) *c14Env {
	e := &c14Env{origin: &c14Origin{cases: map[string]*c14Case{}}, base: map[string]string{}, cli: map[string]*Client{}}
	for _, p := range protos {
		switch p {
		case "h1":
			s := httptest.NewServer(e.origin)
			e.base["h1"] = s.URL
			e.closer = append(e.closer, s.Close)
		case "h2":
			s := httptest.NewUnstartedServer(e.origin)
			s.EnableHTTP2 = true
			s.StartTLS()
			e.base["h2"] = s.URL
			e.closer = append(e.closer, s.Close)
		case "h3":
			cert, pool, err := c14SelfSigned()
			if err != nil {
				t.Fatalf("infra: certificate: %v", err)
			}
			pc, err := net.ListenPacket("udp", "127.0.0.1:0")
			if err != nil {
				t.Fatalf("infra: udp listen: %v", err)
			}
			srv := &qhttp3.Server{Handler: e.origin, TLSConfig: qhttp3.ConfigureTLSConfig(&tls.Config{Certificates: []tls.Certificate{cert}})}
			go srv.Serve(pc)
			e.base["h3"] = "https://" + pc.LocalAddr().String()
			e.tlsCli = &tls.Config{RootCAs: pool, NextProtos: []string{qhttp3.NextProtoH3}}
			e.closer = append(e.closer, func() { srv.Close(); pc.Close() })
		}
	}
	return e
}

func (e *c14Env) close() {
	e.mu.Lock()
	for _, c := range e.cli {
		c.GetTransport().CloseIdleConnections()
		if c.Transport.t3 != nil {
			c.Transport.t3.Close()
		}
	}
	e.mu.Unlock()
	for _, f := range e.closer {
		f()
	}
}

// client returns the client for (proto, DisableCompression, AutoDecompress); built through the
// public API only, except the HTTP/3 dial hook that makes the origin's certificate trusted
// whatever the state of C12 (HTTP/3 ignoring the shared TLS options).
func (e *c14Env) client(proto string, dc, auto bool) *Client {
	key := fmt.Sprintf("%s/%v/%v", proto, dc, auto)
	e.mu.Lock()
	defer e.mu.Unlock()
	if c, ok := e.cli[key]; ok {
		return c
	}
	c := C().SetTimeout(30 * time.Second)
	if strings.HasSuffix(proto, "-autoread") {
		proto = strings.TrimSuffix(proto, "-autoread") // the default client: reads the body itself
	} else {
		c.DisableAutoReadResponse()
	}
	if dc {
		c.DisableCompression()
	}
	if auto {
		c.EnableAutoDecompress()
	}
	switch proto {
	case "h1":
		c.EnableForceHTTP1()
	case "h2":
		c.EnableForceHTTP2().EnableInsecureSkipVerify()
	case "h3":
		c.EnableForceHTTP3()
		if c.Transport.t3 != nil {
			tc := e.tlsCli
			c.Transport.t3.Dial = func(ctx context.Context, addr string, _ *tls.Config, cfg *quic.Config) (quic.EarlyConnection, error) {
				return quic.DialAddrEarly(ctx, addr, tc.Clone(), cfg)
			}
		}
	}
	e.cli[key] = c
	return c
}

// ---------------------------------------------------------------------------- running a case

type c14Obs struct {
	status    int
	rtErr     string
	ae        string   // Accept-Encoding the origin saw ("none", or values joined by |)
	hdr       []string // tracked response header fields k,v,k,v…
	n         int64
	unc       bool
	proto     int
	bodyNil   bool
	data      []byte
	term      string
	panicText string
}

var c14Tracked = []string{"Content-Encoding", "Content-Length", "X-Keep"}

// c14Others: response header fields the decoding decision must NOT read and the rewrite must not
// touch (non-interference: Req.Props.C14Lines.decision_ignores_content_type). Observed after the
// tracked three, in this order.
var c14Others = []string{"Content-Type", "Content-Disposition", "Cache-Control", "Vary", "Etag", "Content-Md5",
	"Content-Location", "Content-Language", "Accept-Ranges", "X-Content-Type-Options", "X-Content-Encoding", "Content-Transfer-Encoding"}

func c14TermReq(err error) string {
	// "read on closed response body": recognised by its (observable) text, not by the name of
	// the unexported variable that holds it
	if err != nil && strings.Contains(err.Error(), "read on closed response body") {
		return "err4"
	}
	return verifc14.Term(err)
}

// c14RawH1 is a one-response-per-connection HTTP/1.1 peer on loopback TCP: it lets a lane put
// arbitrary bytes behind `Content-Encoding: gzip` with close-delimited framing (clean EOF where
// the bytes end) or with a Content-Length larger than what is sent (the framing layer's
// unexpected EOF), so that transport.go's own gzip reader is reached through the real code path
// (persistConn.readLoop) instead of being constructed by hand.
type c14RawH1 struct {
	ln    net.Listener
	mu    sync.Mutex
	resps map[string][]byte
}

func c14NewRawH1(t *testing.T) *c14RawH1 {
	ln, err := net.Listen("tcp", "127.0.0.1:0")
	if err != nil {
		t.Fatalf("infra: listen: %v", err)
	}
	p := &c14RawH1{ln: ln, resps: map[string][]byte{}}
	go func() {
		for {
			conn, err := ln.Accept()
			if err != nil {
				return
			}
			go p.serve(conn)
		}
	}()
	return p
}

func (p *c14RawH1) serve(conn net.Conn) {
	defer conn.Close()
	conn.SetDeadline(time.Now().Add(30 * time.Second))
	var req []byte
	buf := make([]byte, 4096)
	for !bytes.Contains(req, []byte("\r\n\r\n")) {
		n, err := conn.Read(buf)
		if err != nil {
			return
		}
		req = append(req, buf[:n]...)
	}
	line := string(req[:bytes.IndexByte(req, '\r')])
	f := strings.Fields(line)
	if len(f) < 2 {
		return
	}
	p.mu.Lock()
	resp := p.resps[f[1]]
	delete(p.resps, f[1])
	p.mu.Unlock()
	conn.Write(resp)
}

// script registers the response for path and returns the URL.
func (p *c14RawH1) script(path string, wire []byte, fin error) string {
	var b bytes.Buffer
	b.WriteString("HTTP/1.1 200 OK\r\nContent-Type: application/octet-stream\r\nContent-Encoding: gzip\r\nConnection: close\r\n")
	if fin != io.EOF {
		fmt.Fprintf(&b, "Content-Length: %d\r\n", len(wire)+17) // more than will ever come
	}
	b.WriteString("\r\n")
	b.Write(wire)
	p.mu.Lock()
	p.resps[path] = b.Bytes()
	p.mu.Unlock()
	return "http://" + p.ln.Addr().String() + path
}

func (e *c14Env) run(c *c14Case) (o c14Obs) {
	e.origin.add(c)
	cl := e.client(c.proto, c.dc, c.auto)
	ctx, cancel := context.WithTimeout(context.Background(), 30*time.Second)
	defer cancel()
	rq := cl.R().SetContext(ctx).SetHeader("X-C14-Case", c.id)
	if c.ae != "" {
		rq.SetHeader("Accept-Encoding", c.ae)
	}
	if c.rng != "" {
		rq.SetHeader("Range", c.rng)
	}
	if c.ifRange != "" {
		rq.SetHeader("If-Range", c.ifRange)
	}
	var resp *Response
	var err error
	if p, bad := verifh.Safely(func() { resp, err = rq.Send(c.method, e.base[c.proto]+"/") }); bad {
		o.panicText = "Send: " + p
		return
	}
	if err != nil {
		o.rtErr = err.Error()
		return
	}
	c14Observe(c, resp.Response, &o)
	return
}

// c14Observe reads what the caller can see of a delivered response (and what the origin saw of
// the request that provoked it) into o.
func c14Observe(c *c14Case, hr *http.Response, o *c14Obs) {
	c.mu.Lock()
	o.ae = c14JoinAE(c.seenAE)
	c.mu.Unlock()
	for _, k := range append(append([]string(nil), c14Tracked...), c14Others...) {
		for _, v := range hr.Header[k] {
			o.hdr = append(o.hdr, k, v)
		}
	}
	if c.mirror {
		c.arrived = append([]string{}, hr.Header["X-Ce-Mirror"]...)
	}
	o.status = hr.StatusCode
	o.n = hr.ContentLength
	o.unc = hr.Uncompressed
	o.proto = hr.ProtoMajor
	if hr.Body == nil {
		o.bodyNil = true
		return
	}
	if p, bad := verifh.Safely(func() {
		limit := 4*(len(c.payload)+len(c.wire)) + 4096
		o.term = "-"
		for i := 0; i < limit; i++ {
			buf := make([]byte, c.sizes[i%len(c.sizes)])
			n, err := hr.Body.Read(buf)
			o.data = append(o.data, buf[:n]...)
			if err != nil {
				o.term = c14TermReq(err)
				break
			}
		}
		hr.Body.Close()
	}); bad {
		o.panicText = "Body.Read: " + p
	}
}

// corrupted: the encoded stream itself was damaged (bit flip, truncation with matching framing).
func (c *c14Case) corrupted() bool { return c.stream == "flip" || c.stream == "trunc" }

// flipUnchecked: a bit flip in a format without an integrity check (raw deflate, brotli, a zstd
// frame encoded without Content_Checksum) may
// decode to anything - error, payload, or other bytes with a clean end, depending on the bit
// and on how the input arrives. Nothing about the body can be judged; the decision, the headers
// and the absence of a crash still are.
func (c *c14Case) flipUnchecked() bool {
	return c.stream == "flip" && (c.alg == "br" || c.alg == "deflate" || strings.Contains(c.params, "crc=false"))
}

func (o c14Obs) answer(c *c14Case) string {
	if o.rtErr != "" {
		return "roundtrip-error"
	}
	body := "nil"
	if !o.bodyNil {
		body = verifc14.Digest(o.data, o.term)
		if o.unc && c.flipUnchecked() {
			body = "flip-unchecked"
		} else if o.unc && c.corrupted() {
			// decoded corrupted stream: {read error} and {exactly the original payload} are both
			// admissible and which one a decoder gives may depend on how the bytes arrive
			body = verifc14.CorruptDigest(o.data, o.term, c.payload)
		}
	}
	unc := "0"
	if o.unc {
		unc = "1"
	}
	ae := "none"
	if o.ae != "none" {
		ae = verifh.Hex(o.ae)
	}
	return "ae=" + ae + " hdr=" + verifh.HexList(o.hdr) + " n=" + strconv.FormatInt(o.n, 10) + " unc=" + unc + " body=" + body
}

// sentHeader is the tracked part of what the origin wrote.
func (c *c14Case) sentHeader() []string {
	var h []string
	for _, v := range c.arrivedCE() {
		h = append(h, "Content-Encoding", v)
	}
	if c.framing == "cl" && !c.bodiless() {
		h = append(h, "Content-Length", strconv.Itoa(len(c.wire)))
	}
	if c.bodiless() && c.proto == "h3" {
		h = append(h, "Content-Length", "0") // quic-go's http3 server declares the empty body
	}
	return append(h, c.keptHeader()...)
}

// keptHeader: the tracked fields that are neither Content-Encoding nor Content-Length - whatever
// is decided, they reach the caller as sent.
func (c *c14Case) keptHeader() []string {
	h := []string{"X-Keep", "k"}
	if c.ctype != "" {
		h = append(h, "Content-Type", c.ctype)
	}
	return append(h, c.extra...)
}

// arrivedCE: the Content-Encoding field lines as the client's header parser hands them to the
// decoding branch. Optional white space around a field value is a matter of the framing layer
// (HTTP/1.1 parsers strip it, HPACK / QPACK strings are delivered as sent); for cases that play
// with it the origin repeats the values in X-Ce-Mirror, a field the client never touches, and
// the model / oracle are given what arrived there.
func (c *c14Case) arrivedCE() []string {
	if c.mirror && c.arrived != nil {
		return c.arrived
	}
	return c.ce
}

// declaredLength: Response.ContentLength as the framing layer reports it (before any decoding).
func (c *c14Case) declaredLength() int64 {
	if c.bodiless() {
		// HTTP/1.1 (fixLength), HTTP/2 (END_STREAM on HEADERS), HTTP/3 (Content-Length: 0 from the origin)
		return 0
	}
	if c.framing == "cl" {
		return int64(len(c.wire))
	}
	return -1
}

// hasBody: does the stack install a body reader (model input; HTTP/3 ignores it)?
func (c *c14Case) hasBody() bool {
	return c.method != "HEAD" && !c.bodiless() && (c.framing == "stream" || len(c.wire) > 0)
}

func c14b(b bool) string {
	if b {
		return "1"
	}
	return "0"
}

// args renders the case for the driver lanes c14xj (e2e lanes: several Content-Encoding lines are one
// list, fixes/C14-7) / c14x (first line decides) / c14xlegacy.
func (c *c14Case) args() string {
	return strings.Join([]string{c.proto, c14b(c.dc), c14b(c.auto), verifh.Hex(c.method), verifh.Hex(c.ae), verifh.Hex(c.rng),
		c14b(c.hasBody()), verifh.HexList(c.sentHeader()), strconv.FormatInt(c.declaredLength(), 10),
		verifc14.Digest(c.wireBody(), verifc14.Term(c.wireFin())),
		c.refDigest("gzip"), c.refDigest("deflate"), c.refDigest("br"), c.refDigest("zstd")}, " ")
}

// refDigest: the meaning of the body under alg per the reference library (whole input at once).
func (c *c14Case) refDigest(alg string) string {
	if c.flipUnchecked() {
		return "flip-unchecked"
	}
	if c.corrupted() {
		return verifc14.RefCorruptDigest(alg, c.wireBody(), c.payload, c.wireFin())
	}
	return verifc14.RefDigestFin(alg, c.wireBody(), c.wireFin())
}

// wireBody: what the framing layer delivers (nothing for HEAD).
func (c *c14Case) wireBody() []byte {
	if c.method == "HEAD" || c.bodiless() {
		return nil
	}
	if c.stream == "short" {
		return c.wire[:c.sendN]
	}
	return c.wire
}

// wireFin: how the framing-level body ends. A message that ends before its declared
// Content-Length is an unexpected EOF of the framing layer (HTTP/1.1 body reader, HTTP/2
// bytesRemain accounting).
func (c *c14Case) wireFin() error {
	if c.stream == "short" && c.method != "HEAD" {
		return io.ErrUnexpectedEOF
	}
	return io.EOF
}

// c14CompressedType: a Content-Type that names a compression / archive format.
func c14CompressedType(ct string) bool {
	ct = strings.ToLower(ct)
	for _, w := range []string{"gzip", "gunzip", "tgz", "gtar", "compress", "zstd", "brotli", "zlib", "deflate", "zip", "bzip", "x-xz", "7z", "rar"} {
		if strings.Contains(ct, w) {
			return true
		}
	}
	return false
}

func c14Supported(tok string) bool {
	return tok == "gzip" || tok == "deflate" || tok == "br" || tok == "zstd"
}

// class: the input classes of the known findings (pure predicates of the input).
func (c *c14Case) class(transportAsked bool) string {
	ce := ""
	if len(c.ce) > 0 {
		ce = c.ce[0]
	}
	reaches := c.proto == "h3" || c.hasBody()
	if len(c.ce) > 1 && c.method != "HEAD" && reaches &&
		((transportAsked && strings.EqualFold(ce, "gzip")) || (c.auto && c14Supported(ce))) {
		// the three branches read Header.Get: the first line decides, all lines are deleted
		return "multi-line-content-encoding"
	}
	switch {
	case c.proto == "h3" && transportAsked && strings.EqualFold(ce, "gzip") && ce != "gzip":
		return "h3-gzip-case"
	case c.auto && reaches && ce != "" && !c14Supported(ce) && !(transportAsked && strings.EqualFold(ce, "gzip") && c.proto != "h3"):
		return "nil-reader"
	case c.proto == "h3" && c.auto && c.method == "HEAD" && ce != "":
		return "h3-head-auto"
	case c.proto == "h3" && c.auto && !(transportAsked && ce == "gzip"):
		return "h3-auto-nil-body"
	}
	return ""
}

// oracle: the property read directly (independent of the Lean model).
func (c *c14Case) oracle(o c14Obs) (ok bool, why string) {
	if o.rtErr != "" {
		return false, "round trip failed: " + o.rtErr
	}
	if o.panicText != "" {
		return false, "panic: " + o.panicText
	}
	if o.bodyNil {
		return false, "Response.Body is nil"
	}
	transportAsked := o.ae == "gzip" && c.ae == ""
	// who may ask: never for HEAD, Range, DisableCompression, or a caller-set value
	mayAsk := !c.dc && c.ae == "" && c.rng == "" && c.method != "HEAD"
	if transportAsked != mayAsk {
		return false, fmt.Sprintf("origin saw Accept-Encoding %q (caller set %q, DisableCompression=%v, Range=%q, %s)", o.ae, c.ae, c.dc, c.rng, c.method)
	}
	if !transportAsked {
		want := "none"
		if c.ae != "" {
			want = c.ae
		}
		if o.ae != want {
			return false, fmt.Sprintf("origin saw Accept-Encoding %q, caller set %q", o.ae, c.ae)
		}
	}
	ce := ""
	if a := c.arrivedCE(); len(a) > 0 {
		ce = a[0]
	}
	if ce != strings.TrimSpace(ce) {
		// optional white space around the field value reached the decoding branch (HTTP/2 and
		// HTTP/3 deliver it): whether such a value "is" the token is the framing layer's
		// matter - only model correspondence
		return true, ""
	}
	decode := c.method != "HEAD" && ((transportAsked && strings.EqualFold(ce, "gzip")) || (c.auto && c14Supported(ce)))
	if len(c.arrivedCE()) > 1 {
		// several Content-Encoding field lines are a LIST of codings (RFC 9110 5.3), like the same
		// codings on one line: left alone
		decode = false
	}
	if want := c.wantStatus(c.rng != ""); o.status != want {
		return false, fmt.Sprintf("status %d, sent %d", o.status, want)
	}
	if c.stream == "emptywire" || c.bodiless() {
		return true, "" // a zero-length body is not an encoded payload: only model correspondence
	}
	hdr := strings.Join(o.hdr, "\x00")
	kept := strings.Join(c.keptHeader(), "\x00")
	if c.stream == "short" && c.method != "HEAD" {
		// the message ended before its declared Content-Length (at a gzip member / zstd frame
		// boundary the decoder alone sees a valid end): decoded or not, a body shorter than
		// the original must come with a read error
		if decode && (hdr != kept || !o.unc || o.n != -1) {
			return false, fmt.Sprintf("decoded case: header %q Uncompressed=%v ContentLength=%d", o.hdr, o.unc, o.n)
		}
		if !strings.HasPrefix(o.term, "err") {
			return false, fmt.Sprintf("message cut after %d of %d declared bytes read as %s: %d of %d payload bytes and NO read error", c.sendN, len(c.wire), verifc14.Digest(o.data, o.term), len(o.data), len(c.payload))
		}
		if decode && !bytes.HasPrefix(c.payload, o.data) {
			return false, "garbage before the error"
		}
		return true, ""
	}
	if !decode {
		if !bytes.Equal(o.data, c.wireBody()) || o.term != "eof" {
			return false, fmt.Sprintf("untouched case: body %s, sent %s", verifc14.Digest(o.data, o.term), verifc14.Digest(c.wireBody(), "eof"))
		}
		if hdr != strings.Join(c.sentHeader(), "\x00") {
			return false, fmt.Sprintf("untouched case: header %q, sent %q", o.hdr, c.sentHeader())
		}
		if o.unc || o.n != c.declaredLength() {
			return false, fmt.Sprintf("untouched case: Uncompressed=%v ContentLength=%d (declared %d)", o.unc, o.n, c.declaredLength())
		}
		return true, ""
	}
	if hdr != kept || !o.unc || o.n != -1 {
		return false, fmt.Sprintf("decoded case: header %q Uncompressed=%v ContentLength=%d", o.hdr, o.unc, o.n)
	}
	alg := strings.ToLower(ce)
	switch c.stream {
	case "valid":
		if c.alg != alg {
			return true, "" // the origin lied about the encoding: only model correspondence
		}
		if !bytes.Equal(o.data, c.payload) || o.term != "eof" {
			return false, fmt.Sprintf("decoded body %s, original payload %s", verifc14.Digest(o.data, o.term), verifc14.Digest(c.payload, "eof"))
		}
	case "trunc":
		// admissible: a read error (after a prefix of the payload), or exactly the payload
		if o.term == "eof" && bytes.Equal(o.data, c.payload) {
			return true, ""
		}
		if !strings.HasPrefix(o.term, "err") {
			return false, fmt.Sprintf("truncated %s stream read as %s (no error)", alg, verifc14.Digest(o.data, o.term))
		}
		if !bytes.HasPrefix(c.payload, o.data) {
			return false, "garbage before the error"
		}
	case "flip":
		if (alg == "gzip" || alg == "zstd") && !c.flipUnchecked() && !strings.HasPrefix(o.term, "err") && !bytes.Equal(o.data, c.payload) {
			return false, fmt.Sprintf("corrupt %s stream read as %s (no error, not the payload)", alg, verifc14.Digest(o.data, o.term))
		}
	}
	return true, ""
}

// ---------------------------------------------------------------------------- generator

type c14Cfg struct {
	dc, auto bool
	ae       string
}

var c14Cfgs = []c14Cfg{
	{false, false, ""},                        // default
	{true, false, ""},                         // DisableCompression
	{false, true, ""},                         // EnableAutoDecompress
	{false, false, "br"},                      // caller-set Accept-Encoding
	{false, true, "gzip, deflate, br, zstd"}, // caller-set + AutoDecompress (the browser-like setup)
	{true, true, ""},                          // DisableCompression + AutoDecompress
	{false, false, "gzip"},                    // caller asks for gzip itself: still untouched
	{false, false, "gzip;q=1.0, identity;q=0.5, *;q=0"}, // q-values: still the caller's own negotiation
}

type c14Enc struct {
	name   string
	ce     []string
	alg    []string // codecs applied to the payload, in order
	mirror bool     // optional white space around a value: learn what arrives (c14Case.arrivedCE)
}

var c14Encs = []c14Enc{
	{"gzip", []string{"gzip"}, []string{"gzip"}, false},
	{"deflate", []string{"deflate"}, []string{"deflate"}, false},
	{"br", []string{"br"}, []string{"br"}, false},
	{"zstd", []string{"zstd"}, []string{"zstd"}, false},
	{"identity", []string{"identity"}, nil, false},
	{"unknown", []string{"foo"}, nil, false},
	{"none", nil, nil, false},
	{"emptyvalue", []string{""}, nil, false},
	{"GZIP", []string{"GZIP"}, []string{"gzip"}, false},
	{"Gzip", []string{"Gzip"}, []string{"gzip"}, false},
	{"Br", []string{"Br"}, []string{"br"}, false},
	{"ZSTD", []string{"ZSTD"}, []string{"zstd"}, false},
	{"x-gzip", []string{"x-gzip"}, []string{"gzip"}, false},
	{"list", []string{"gzip, br"}, []string{"gzip", "br"}, false},
	{"listnospace", []string{"br,gzip"}, []string{"br", "gzip"}, false},
	{"twolines", []string{"gzip", "br"}, []string{"gzip", "br"}, false},
	{"padded", []string{"gzip;q=1"}, []string{"gzip"}, false},
	// the class "a Content-Encoding that is a LIST": one field with several codings (gzip first,
	// last, in the middle, repeated, with empty elements, with white space inside), several
	// field lines (any position of a supported token, repeated, empty first line, three lines),
	// and - mirror - optional white space around the value of a single token
	{"list-dg", []string{"deflate, gzip"}, []string{"deflate", "gzip"}, false},
	{"list-bg", []string{"br, gzip"}, []string{"br", "gzip"}, false},
	{"list-ig", []string{"identity, gzip"}, []string{"gzip"}, false},
	{"list-gi", []string{"gzip, identity"}, []string{"gzip"}, false},
	{"list-gg", []string{"gzip, gzip"}, []string{"gzip", "gzip"}, false},
	{"list-zg-nospace", []string{"zstd,gzip"}, []string{"zstd", "gzip"}, false},
	{"list-innerws", []string{"gzip ,\tbr"}, []string{"gzip", "br"}, false},
	{"list-leading-comma", []string{", gzip"}, []string{"gzip"}, false},
	{"list-trailing-comma", []string{"gzip,"}, []string{"gzip"}, false},
	{"list-three", []string{"deflate, br, zstd"}, []string{"deflate", "br", "zstd"}, false},
	{"lines-dg", []string{"deflate", "gzip"}, []string{"deflate", "gzip"}, false},
	{"lines-ig", []string{"identity", "gzip"}, []string{"gzip"}, false},
	{"lines-xg", []string{"foo", "gzip"}, []string{"gzip"}, false},
	{"lines-eg", []string{"", "gzip"}, []string{"gzip"}, false},
	{"lines-gg", []string{"gzip", "gzip"}, []string{"gzip", "gzip"}, false},
	{"lines-zb", []string{"zstd", "br"}, []string{"zstd", "br"}, false},
	{"lines-three", []string{"br", "deflate", "gzip"}, []string{"br", "deflate", "gzip"}, false},
	{"lines-listline", []string{"deflate, br", "gzip"}, []string{"deflate", "br", "gzip"}, false},
	{"ows-leading", []string{" gzip"}, []string{"gzip"}, true},
	{"ows-trailing", []string{"gzip "}, []string{"gzip"}, true},
	{"ows-tab", []string{"\tzstd\t"}, []string{"zstd"}, true},
	{"ows-both-br", []string{"  br "}, []string{"br"}, true},
}

// c14Types: Content-Type values for the cross product Content-Type x Content-Encoding. The
// decision must not read Content-Type at all (a "this .tar.gz is meant to stay compressed"
// heuristic breaks the first clause of the property): media types that NAME a compression format,
// archive and already-compressed types, parameters, case, malformed values, no field at all.
// (Types containing text/json/xml/html/java carry charset=utf-8: without it the client's charset
// auto-decoder - C15's matter - may rewrite the body.)
var c14Types = []string{
	"application/octet-stream", "application/gzip", "application/x-gzip", "application/x-gunzip", "application/x-tgz",
	"application/x-gtar", "application/x-compressed", "application/x-compress", "application/gzip; charset=binary",
	"APPLICATION/GZIP", "Application/X-Gzip; name=\"a.tgz\"", "application/x-tar", "application/tar+gzip",
	"application/zstd", "application/x-zstd", "application/x-brotli", "application/brotli", "application/zlib",
	"application/x-deflate", "application/deflate", "application/zip", "application/x-bzip2", "application/x-xz",
	"application/x-7z-compressed", "application/x-rar-compressed", "application/vnd.debian.binary-package",
	"application/x-rpm", "application/wasm", "application/pdf", "image/png", "image/jpeg", "video/mp4", "font/woff2",
	"multipart/x-gzip", "binary/octet-stream", "application/gzip;", "gzip", "application/", "*/*", "",
	"text/plain; charset=utf-8", "application/json; charset=utf-8", "image/svg+xml; charset=utf-8",
}

// c14Extras: values for the fields of c14Others (after Content-Type) that a "clever" decision
// might look at. Each is harmless: none changes what the property says.
var c14Extras = map[string][]string{
	"Content-Disposition":       {"attachment; filename=\"backup.tar.gz\"", "attachment; filename=data.gz", "inline", "attachment; filename=\"x.zst\""},
	"Cache-Control":             {"no-transform", "no-store, no-transform", "public, max-age=3600"},
	"Vary":                      {"Accept-Encoding", "*", "Accept-Encoding, User-Agent"},
	"Etag":                      {"\"abc-gzip\"", "W/\"abc\"", "\"5f3e-br\""},
	"Content-Md5":               {"Q2hlY2sgSW50ZWdyaXR5IQ=="},
	"Content-Location":          {"/files/a.tar.gz", "/index.html.br"},
	"Content-Language":          {"en"},
	"Accept-Ranges":             {"bytes", "none"},
	"X-Content-Type-Options":    {"nosniff"},
	"X-Content-Encoding":        {"gzip", "identity"},
	"Content-Transfer-Encoding": {"binary", "gzip"},
}

// c14DrawExtras: k of the extra fields (keys in c14Others order, as observed).
func c14DrawExtras(r *rand.Rand, k int) []string {
	var out []string
	keys := c14Others[1:]
	pick := map[int]bool{}
	for len(pick) < k && len(pick) < len(keys) {
		pick[r.Intn(len(keys))] = true
	}
	for i, key := range keys {
		if pick[i] {
			out = append(out, key, verifh.Pick(r, c14Extras[key]))
		}
	}
	return out
}

// c14TypeMatrix: the product {configurations} x {encodings} x {Content-Type values}, each case with
// 0-3 further harmless header fields. core = the part every quick run contains in full: the default
// and the AutoDecompress configuration x the four codings, GZIP and no encoding x every type.
func c14TypeMatrix(r *rand.Rand, proto string) (core, rest []*c14Case) {
	cfgs := []int{0, 2, 4, 5, 3, 1}
	encs := []int{0, 1, 2, 3, 8, 6, 4, 13, 17, 27}
	for _, ci := range cfgs {
		cfg := c14Cfgs[ci]
		for _, ei := range encs {
			enc := c14Encs[ei]
			for ti, ct := range c14Types {
				p := verifc14.Payload(r, 1+r.Intn(3))
				wire, alg := c14Encode(enc, p)
				c := &c14Case{
					id: fmt.Sprintf("%s-ct-%d-%s-%d", proto, ci, enc.name, ti), proto: proto, dc: cfg.dc, auto: cfg.auto, ae: cfg.ae,
					method: "GET", ce: enc.ce, ctype: ct, extra: c14DrawExtras(r, r.Intn(4)), payload: p, wire: wire,
					stream: "valid", alg: alg, framing: "cl", sizes: verifc14.Sizes(r),
				}
				if r.Intn(4) == 0 {
					c.framing = "stream"
				}
				if (ci == 0 || ci == 2) && ei <= 8 && ei != 4 {
					core = append(core, c)
				} else {
					rest = append(rest, c)
				}
			}
		}
	}
	return
}

// c14TypeCases: core + a sample of the rest (all of it in the thorough tier).
func c14TypeCases(r *rand.Rand, proto string, nRest int) []*c14Case {
	core, rest := c14TypeMatrix(r, proto)
	r.Shuffle(len(rest), func(i, j int) { rest[i], rest[j] = rest[j], rest[i] })
	if nRest > len(rest) {
		nRest = len(rest)
	}
	return append(core, rest[:nRest]...)
}

type c14Method struct{ method, rng string }

var c14Methods = []c14Method{{"GET", ""}, {"HEAD", ""}, {"GET", "bytes=0-99"}}

func c14Encode(enc c14Enc, p []byte) (wire []byte, alg string) {
	wire = p
	for _, a := range enc.alg {
		wire = verifc14.Compress(a, wire)
		alg = a
	}
	if len(enc.alg) != 1 {
		alg = strings.Join(enc.alg, "+")
	}
	return
}

// c14Matrix: the full product configuration x method x encoding, once, with small payloads.
func c14Matrix(r *rand.Rand, proto string) []*c14Case {
	var out []*c14Case
	for ci, cfg := range c14Cfgs {
		for mi, m := range c14Methods {
			for _, enc := range c14Encs {
				p := verifc14.Payload(r, r.Intn(4))
				wire, alg := c14Encode(enc, p)
				out = append(out, &c14Case{
					id: fmt.Sprintf("%s-m-%d-%d-%s", proto, ci, mi, enc.name), proto: proto, dc: cfg.dc, auto: cfg.auto, ae: cfg.ae,
					method: m.method, rng: m.rng, ce: enc.ce, mirror: enc.mirror, ctype: "application/octet-stream", payload: p, wire: wire,
					stream: "valid", alg: alg, framing: "cl", sizes: verifc14.Sizes(r),
				})
			}
		}
	}
	// status dimension: 206 + Content-Range to a Range request (with and without If-Range), and the
	// bodiless 204 / 304 carrying a Content-Encoding all the same
	for ci, cfg := range c14Cfgs {
		for _, enc := range []c14Enc{c14Encs[0], c14Encs[2], c14Encs[6], c14Encs[8]} {
			for _, st := range []int{206, 2060, 204, 304} {
				p := verifc14.Payload(r, 1+r.Intn(3))
				wire, alg := c14Encode(enc, p)
				c := &c14Case{
					id: fmt.Sprintf("%s-st-%d-%d-%s", proto, ci, st, enc.name), proto: proto, dc: cfg.dc, auto: cfg.auto, ae: cfg.ae,
					method: "GET", ce: enc.ce, ctype: "application/octet-stream", payload: p, wire: wire,
					stream: "valid", alg: alg, framing: "cl", sizes: verifc14.Sizes(r),
				}
				if st == 2060 {
					c.status = 206 // a 206 the request did not ask for: the status must not matter to the decision
				} else if st == 206 {
					c.partial, c.rng = true, "bytes=0-"
					if r.Intn(2) == 0 {
						c.ifRange = "\"etag-1\""
					}
				} else {
					c.status = st
					if st == 304 {
						c.ctype = "" // net/http's HTTP/1.1 server suppresses Content-Type on a 304 (its HTTP/2 server does not)
					}
				}
				out = append(out, c)
			}
		}
	}
	return out
}

// c14Random: decoded configurations with the payload/stream/framing/read-size dimensions opened up.
func c14Random(r *rand.Rand, proto string, n, nBig int) []*c14Case {
	var out []*c14Case
	for i := 0; i < n+nBig; i++ {
		cfg := c14Cfgs[[]int{0, 2, 4, 5}[r.Intn(4)]]
		enc := c14Encs[r.Intn(4)]
		if !cfg.auto {
			enc = c14Encs[0] // only gzip is ever decoded without AutoDecompress
		}
		pc := r.Intn(5)
		if i >= n {
			pc = 5 // multi-MiB
		}
		p := verifc14.Payload(r, pc)
		wire, alg := c14Encode(enc, p)
		params := ""
		if r.Intn(2) == 0 {
			// the codec's parameter space: level / quality, window, single-segment frames, check sum,
			// optional gzip header fields, sync flushes, padding (verifc14.CompressP)
			wire, params = verifc14.CompressP(r, enc.alg[0], p, verifc14.ZstdMaxLogQuick)
		}
		if i == n && nBig > 0 {
			// one 12 MiB payload behind a 16 MiB zstd window (no stock encoder level goes beyond
			// 8 MiB), streamed or as one single-segment frame
			cfg, enc, alg = c14Cfgs[2], c14Encs[3], "zstd"
			p = verifc14.LongRepeat(r, 12<<20)
			single := r.Intn(2) == 0
			wire, params = verifc14.CompressZstd(p, 24, single), fmt.Sprintf("zstd window=2^24 single=%v", single)
		}
		c := &c14Case{
			id: fmt.Sprintf("%s-r-%d", proto, i), proto: proto, dc: cfg.dc, auto: cfg.auto, ae: cfg.ae, method: "GET",
			ce: enc.ce, ctype: "application/octet-stream", payload: p, wire: wire, stream: "valid", alg: alg, framing: "cl",
			sizes: verifc14.Sizes(r), params: params,
		}
		if r.Intn(3) == 0 {
			c.framing = "stream"
		}
		if r.Intn(8) == 0 && cfg.auto {
			c.rng = "bytes=0-9" // Range + AutoDecompress: decoded (the first clause of the property)
		}
		switch k := r.Intn(12); {
		case i >= n:
			c.sizes = []int{verifh.Pick(r, []int{512, 4096, 65536, 1 << 20})}
		case k < 3 && len(wire) >= 2:
			c.stream = "trunc"
			cut := 1 + r.Intn(len(wire)-1)
			switch r.Intn(4) { // offset classes: first bytes, last bytes, anywhere
			case 0:
				cut = 1 + r.Intn(min(len(wire)-1, 12))
			case 1:
				cut = len(wire) - 1 - r.Intn(min(len(wire)-1, 9))
			}
			c.wire = wire[:cut]
		case k < 5:
			c.stream = "flip"
			f := append([]byte(nil), wire...)
			pos := r.Intn(len(f))
			switch r.Intn(3) {
			case 0:
				pos = r.Intn(min(len(f), 12))
			case 1:
				pos = len(f) - 1 - r.Intn(min(len(f), 9))
			}
			f[pos] ^= 1 << uint(r.Intn(8))
			c.wire = f
		case k == 5 && alg == "gzip": // multi-member gzip
			p2 := verifc14.Payload(r, 1+r.Intn(3))
			c.payload = append(append([]byte(nil), p...), p2...)
			c.wire = append(append([]byte(nil), wire...), verifc14.Compress("gzip", p2)...)
			c.id += "-multi"
		case k == 6:
			c.stream = "emptywire"
			c.wire = nil
		case k == 7: // a text content type without charset: the charset auto-decoder wraps the body
			c.ctype = "text/plain; charset=utf-8"
		}
		if r.Intn(3) == 0 { // Content-Type x everything else (payload size, framing, damage, read sizes)
			c.ctype = verifh.Pick(r, c14Types)
		}
		if r.Intn(3) == 0 {
			c.extra = c14DrawExtras(r, 1+r.Intn(4))
		}
		out = append(out, c)
	}
	return out
}

// c14ShortCases: multi-member gzip / multi-frame zstd bodies whose message ends before the
// declared Content-Length - exactly at a member/frame boundary (where the decoder alone sees a
// valid end and only the framing layer's length accounting can tell), a few bytes around it,
// or anywhere - under every decoding configuration and, for symmetry, undecoded.
func c14ShortCases(r *rand.Rand, proto string, n int) []*c14Case {
	var out []*c14Case
	type cfgAlg struct {
		cfg c14Cfg
		alg string
	}
	combos := []cfgAlg{
		{c14Cfgs[0], "gzip"}, // transport-requested gzip
		{c14Cfgs[2], "gzip"}, {c14Cfgs[2], "zstd"}, // AutoDecompress
		{c14Cfgs[4], "gzip"}, {c14Cfgs[4], "zstd"}, // caller Accept-Encoding + AutoDecompress
		{c14Cfgs[5], "gzip"}, {c14Cfgs[5], "zstd"}, // DisableCompression + AutoDecompress
		{c14Cfgs[3], "gzip"}, {c14Cfgs[1], "zstd"}, // not decoded: the plain length check
	}
	for i := 0; i < n; i++ {
		ca := combos[i%len(combos)]
		members := 2 + r.Intn(2)
		var payload, wire []byte
		var bounds []int
		for m := 0; m < members; m++ {
			pc := 1 + r.Intn(3)
			if r.Intn(12) == 0 {
				pc = 4
			}
			p := verifc14.Payload(r, pc)
			payload = append(payload, p...)
			wire = append(wire, verifc14.Compress(ca.alg, p)...)
			bounds = append(bounds, len(wire))
		}
		cut := bounds[r.Intn(members-1)] // a member/frame boundary before the last one
		kind := "boundary"
		switch i / len(combos) % 4 {
		case 2:
			cut += 1 + r.Intn(max(1, min(8, len(wire)-cut-1)))
			kind = "after-boundary"
		case 3:
			cut = 1 + r.Intn(len(wire)-1)
			kind = "anywhere"
		}
		if cut >= len(wire) {
			cut = len(wire) - 1
		}
		out = append(out, &c14Case{
			id: fmt.Sprintf("%s-s-%d-%s-%s", proto, i, ca.alg, kind), proto: proto, dc: ca.cfg.dc, auto: ca.cfg.auto, ae: ca.cfg.ae, method: "GET",
			ce: []string{ca.alg}, ctype: "application/octet-stream", payload: payload, wire: wire, stream: "short", sendN: cut,
			alg: ca.alg, framing: "cl", sizes: verifc14.Sizes(r),
		})
	}
	return out
}

// ---------------------------------------------------------------------------- lane body

func c14RunLane(t *testing.T, s *verifh.Session, e *c14Env, cases []*c14Case, need []string) {
	hist := map[string]int{}
	count := func(k string) { s.Count(k); hist[k]++ }
	for _, c := range cases {
		o := e.run(c)
		ok, why := c.oracle(o)
		transportAsked := !c.dc && c.ae == "" && c.rng == "" && c.method != "HEAD"
		class := c.class(transportAsked)
		ce := "-"
		if len(c.ce) > 0 {
			ce = strings.Join(c.ce, "|")
		}
		human := fmt.Sprintf("%s %s dc=%v auto=%v callerAE=%q range=%q CE=%q type=%q extra=%q stream=%s/%s framing=%s payload=%dB wire=%dB reads=%v", c.proto, c.method, c.dc, c.auto, c.ae, c.rng, ce, c.ctype, c.extra, c.alg, c.stream, c.framing, len(c.payload), len(c.wire), c.sizes)
		if c.params != "" {
			human += " [" + c.params + "]"
			count("codec-params")
			if strings.Contains(c.params, "single=true") {
				count("zstd:single-segment")
			}
			if len(c.payload) >= 12<<20 {
				count("12MiB")
			}
		}
		if c.mirror {
			human += fmt.Sprintf(" arrived-CE=%q", c.arrived)
			count("ows")
			if a := c.arrivedCE(); len(a) > 0 && a[0] != strings.TrimSpace(a[0]) {
				count("ows:delivered-padded")
			}
		}
		if len(c.ce) > 1 {
			count("ce-lines>1")
		} else if len(c.ce) == 1 && strings.Contains(c.ce[0], ",") {
			count("ce-list")
		}
		if c14CompressedType(c.ctype) {
			count("type:compressed-media")
			if o.unc {
				count("type:compressed-media+decoded")
			}
		}
		if len(c.extra) > 0 {
			count("extra-fields")
			if o.unc {
				count("extra-fields+decoded")
			}
		}
		if !ok {
			human += " :: " + why
		}
		// the brotli library reports a truncated stream as a clean EOF (see the unit lane)
		if !ok && !o.bodyNil && c.stream == "trunc" && len(c.ce) > 0 && c.ce[0] == "br" && c.auto && o.term == "eof" &&
			len(o.data) < len(c.payload) && bytes.HasPrefix(c.payload, o.data) {
			class = "br-truncated-eof"
		}
		if c.stream == "short" {
			count("short:" + c.id[strings.LastIndex(c.id, "-")+1:])
			if o.unc {
				count("short-decoded")
			}
			// klauspost zstd maps the source's unexpected EOF to a clean EOF at a frame boundary
			// (permanent known finding, see the unit lane)
			if !ok && c.alg == "zstd" && o.unc && o.term == "eof" {
				if _, _, term := verifc14.RefRaw("zstd", c.wireBody(), io.ErrUnexpectedEOF); term == "eof" {
					class = "zstd-source-error-at-frame-boundary"
				}
			}
		}
		if o.panicText != "" {
			s.Crash(c.id, human, o.panicText, class)
			count("panic")
			continue
		}
		// (HTTP/3 used to accept a message shorter than its Content-Length as a clean EOF; since
		// "fix: http3: a response stream that ends early is an error" the three stacks agree and the
		// short cases are judged alike on all of them)
		if o.rtErr != "" && strings.Contains(o.rtErr, "infra:") {
			t.Fatalf("infra: %s", o.rtErr)
		}
		count("cfg:" + fmt.Sprintf("dc=%v,auto=%v,ae=%v", c.dc, c.auto, c.ae != ""))
		count("stream:" + c.stream)
		count("framing:" + c.framing)
		if c.method == "HEAD" {
			count("HEAD")
		} else if c.rng != "" {
			count("Range")
		}
		if o.status != 200 && o.rtErr == "" {
			count(fmt.Sprintf("status:%d", o.status))
		}
		if o.unc {
			count("decoded")
			count("decoded:" + strings.ToLower(c.ce[0]))
			if strings.HasPrefix(o.term, "err") {
				count("decoded-error")
			}
		} else if !o.bodyNil && o.rtErr == "" {
			count("untouched")
		}
		if len(c.payload) > 1<<20 {
			count("multi-MiB")
		}
		if strings.HasSuffix(c.id, "-multi") {
			count("multi-member")
		}
		if o.proto != int(c.proto[1]-'0') && o.rtErr == "" {
			t.Fatalf("infra: case %s answered over HTTP/%d", c.id, o.proto)
		}
		s.Case("c14xj "+c.args(), o.answer(c), ok, class, o.unc || len(c.ce) > 0, human)
	}
	for _, k := range need {
		if hist[k] == 0 {
			t.Errorf("bucket %s not reached", k)
		}
	}
}

const c14Rule = "in-process origin; FULL matrix {default, DisableCompression, AutoDecompress, caller Accept-Encoding, caller AE+AutoDecompress, DisableCompression+AutoDecompress, caller AE gzip} x {GET, HEAD, Range GET} x Content-Encoding {gzip, deflate, br, zstd, identity, unknown, none, empty value, GZIP, Gzip, Br, ZSTD, x-gzip, 'gzip, br', 'br,gzip', two header lines, 'gzip;q=1'} with payloads {empty,tiny,text,random}; plus random decoded cases: payload up to multi-MiB (one of 12 MiB behind a 16 MiB zstd window, streamed or single-segment), half of them encoded with DRAWN codec parameters (level / quality 0..11, brotli lgwin 10..24, zstd window 2^10..2^25, single-segment, check sum on/off, no-entropy / all-literal modes, padding frames, gzip FEXTRA/FNAME/FCOMMENT/MTIME/OS, sync flushes), multi-member gzip, Content-Length vs streamed framing, streams truncated / bit-flipped (first bytes, last bytes, anywhere), zero-length body, multi-member gzip / multi-frame zstd messages that end BEFORE the declared Content-Length at a member/frame boundary, just after it, or anywhere (decoded under every configuration and undecoded; oracle: read error, never a silently shortened body), 1-4 cycling Read sizes from {1..65536}; Content-Encoding LISTS (one field: gzip first / last / repeated / empty elements / inner white space; several field lines: supported token in any position, repeated, empty first line, three lines; optional white space around a single token, the value as it ARRIVED learnt from a mirror field); the product {default, AutoDecompress (full), other configurations (sampled; full in thorough)} x {gzip, deflate, br, zstd, GZIP, none, identity, lists} x 43 Content-Type values (media types naming a compression or archive format, parameters, case, malformed, absent) with 0-3 further harmless fields (Content-Disposition filename=.gz, Cache-Control: no-transform, Vary, ETag, Content-MD5, Content-Location, X-Content-Encoding, ...): the decision must not depend on them and they must arrive unchanged. Observed: Accept-Encoding at the origin, Response.Header (Content-Encoding, Content-Length, X-Keep, Content-Type and the further fields), ContentLength, Uncompressed, body bytes + final read error. Compared with the Lean model (c14xj: Lines.Joined.process) and judged by an independent Go oracle of the property text; non-trivial = a Content-Encoding was sent or the body was decoded"

var c14Need = []string{"status:206", "status:204", "status:304", "short:boundary", "short:anywhere", "short-decoded", "decoded", "untouched", "HEAD", "Range", "decoded:gzip", "decoded:deflate", "decoded:br", "decoded:zstd", "stream:trunc", "stream:flip", "stream:emptywire", "framing:stream", "decoded-error", "multi-MiB", "multi-member",
	"type:compressed-media", "type:compressed-media+decoded", "extra-fields", "extra-fields+decoded", "ce-list", "ce-lines>1", "ows", "codec-params", "12MiB"}

// TestVerif_C14_e2e_h1: HTTP/1.1.
func TestVerif_C14_e2e_h1(t *testing.T) {
	s := verifh.New(t, "C14", "e2e_h1", "HTTP/1.1: "+c14Rule)
	e := c14NewEnv(t, "h1")
	defer e.close()
	r := s.Rand()
	cases := append(c14Matrix(r, "h1"), c14Random(r, "h1", verifh.N(300, 8000), verifh.N(3, 16))...)
	cases = append(cases, c14ShortCases(r, "h1", verifh.N(54, 1800))...)
	cases = append(cases, c14TypeCases(r, "h1", verifh.N(80, 1<<30))...)
	c14RunLane(t, s, e, cases, c14Need)
	s.Finish()
}

// TestVerif_C14_e2e_h2: HTTP/2 (TLS + ALPN, Go's HTTP/2 server as origin).
func TestVerif_C14_e2e_h2(t *testing.T) {
	s := verifh.New(t, "C14", "e2e_h2", "HTTP/2: "+c14Rule)
	e := c14NewEnv(t, "h2")
	defer e.close()
	r := s.Rand()
	cases := append(c14Matrix(r, "h2"), c14Random(r, "h2", verifh.N(300, 8000), verifh.N(3, 16))...)
	cases = append(cases, c14ShortCases(r, "h2", verifh.N(54, 1800))...)
	cases = append(cases, c14TypeCases(r, "h2", verifh.N(80, 1<<30))...)
	c14RunLane(t, s, e, cases, c14Need)
	s.Finish()
}

// TestVerif_C14_e2e_h3: HTTP/3 (quic-go http3 server on loopback UDP as origin).
func TestVerif_C14_e2e_h3(t *testing.T) {
	s := verifh.New(t, "C14", "e2e_h3", "HTTP/3: "+c14Rule)
	e := c14NewEnv(t, "h3")
	defer e.close()
	r := s.Rand()
	cases := append(c14Matrix(r, "h3"), c14Random(r, "h3", verifh.N(250, 8000), verifh.N(2, 16))...)
	cases = append(cases, c14ShortCases(r, "h3", verifh.N(54, 1800))...)
	cases = append(cases, c14TypeCases(r, "h3", verifh.N(80, 1<<30))...)
	c14RunLane(t, s, e, cases, c14Need)
	s.Finish()
}

// TestVerif_C14_cross: the SAME exchange (configuration, method, encoding, payload, stream,
// read sizes) over the three protocols; the observations must be identical (the property's
// "independent of the HTTP version"), and a second run with other read sizes must give the
// same bytes ("independent of read sizes").
func TestVerif_C14_cross(t *testing.T) {
	s := verifh.New(t, "C14", "cross",
		"the same generated exchange (matrix sample + decoded random cases incl. truncated/flipped streams) sent over HTTP/1.1, HTTP/2 and HTTP/3 and, on one of them, twice with different Read sizes; the canonical observations (Accept-Encoding at the origin, tracked headers, ContentLength, Uncompressed, body digest+end) must coincide; non-trivial = decoded or Content-Encoding present")
	e := c14NewEnv(t, "h1", "h2", "h3")
	defer e.close()
	r := s.Rand()
	protos := []string{"h1", "h2", "h3"}
	var base []*c14Case
	m := c14Matrix(r, "x")
	r.Shuffle(len(m), func(i, j int) { m[i], m[j] = m[j], m[i] })
	base = append(base, m[:verifh.N(90, len(m))]...)
	base = append(base, c14Random(r, "x", verifh.N(150, 4000), verifh.N(1, 6))...)
	base = append(base, c14ShortCases(r, "x", verifh.N(18, 360))...)
	{
		core, rest := c14TypeMatrix(r, "x")
		all := append(core, rest...)
		r.Shuffle(len(all), func(i, j int) { all[i], all[j] = all[j], all[i] })
		base = append(base, all[:verifh.N(70, 1500)]...)
	}
	hist := map[string]int{}
	for _, b := range base {
		var answers, arrivals []string
		var obs []c14Obs
		class := ""
		transportAsked := !b.dc && b.ae == "" && b.rng == "" && b.method != "HEAD"
		for _, p := range protos {
			c := *b
			c.mu = sync.Mutex{}
			c.proto = p
			c.id = p + "-" + b.id
			o := e.run(&c)
			obs = append(obs, o)
			arrivals = append(arrivals, strings.Join(c.arrivedCE(), "\x00"))
			if o.panicText != "" {
				answers = append(answers, "panic")
			} else {
				answers = append(answers, o.answer(&c))
			}
			if cl := c.class(transportAsked); cl != "" && class == "" {
				class = cl
			}
		}
		// second read schedule on a rotating protocol
		c2 := *b
		c2.mu = sync.Mutex{}
		c2.proto = protos[len(answers)%3]
		c2.proto = protos[r.Intn(3)]
		c2.id = c2.proto + "-again-" + b.id
		c2.sizes = verifc14.Sizes(r)
		o2 := e.run(&c2)
		same := answers[0] == answers[1] && answers[1] == answers[2]
		var again string
		if o2.panicText != "" {
			again = "panic"
		} else {
			again = o2.answer(&c2)
		}
		idx := map[string]int{"h1": 0, "h2": 1, "h3": 2}[c2.proto]
		sameReads := again == answers[idx]
		// optional white space around the Content-Encoding value: HTTP/1.1 parsers strip it, HPACK /
		// QPACK strings arrive as sent - the decoding branches were given DIFFERENT values, so there is
		// nothing to agree on (each protocol lane judges its own arrival against the model)
		if b.mirror && !(arrivals[0] == arrivals[1] && arrivals[1] == arrivals[2]) {
			same = true
			s.Count("ows-arrival-differs")
		}
		// a zero-length body with a Content-Encoding: HTTP/3 has no bodiless exit (documented)
		if b.stream == "short" {
			s.Count("short")
		}
		if b.stream == "emptywire" || (len(b.wire) == 0 && len(b.ce) > 0 && b.method != "HEAD") || b.bodiless() {
			same = answers[0] == answers[1]
			s.Count("emptywire")
		}
		ce := "-"
		if len(b.ce) > 0 {
			ce = strings.Join(b.ce, "|")
		}
		human := fmt.Sprintf("%s dc=%v auto=%v callerAE=%q range=%q CE=%q type=%q extra=%q stream=%s/%s framing=%s payload=%dB wire=%dB", b.method, b.dc, b.auto, b.ae, b.rng, ce, b.ctype, b.extra, b.alg, b.stream, b.framing, len(b.payload), len(b.wire))
		detail := fmt.Sprintf("h1: %s | h2: %s | h3: %s | %s with reads %v: %s", answers[0], answers[1], answers[2], c2.proto, c2.sizes, again)
		if !same {
			human += " :: the three protocols differ"
		} else if !sameReads {
			human += " :: read sizes change the outcome"
		}
		if same {
			s.Count("agree")
			hist["agree"]++
		}
		if obs[0].unc {
			s.Count("decoded")
			hist["decoded"]++
		}
		s.Observe(b.id, same && sameReads, class, obs[0].unc || len(b.ce) > 0, human, detail)
	}
	for _, k := range []string{"agree", "decoded"} {
		if hist[k] == 0 {
			t.Errorf("bucket %s not reached", k)
		}
	}
	s.Finish()
}

// TestVerif_C14_h1gz: transport.go's own gzipReader (the HTTP/1.1 gzip branch), reached through
// the real path (a scripted raw HTTP/1.1 peer, persistConn.readLoop, Response.Body) and driven
// like the unit lane of internal/compress: valid / truncated /
// bit-flipped / foreign streams, generated read sizes, reads after the end, Close before or
// after j reads; vs the model automaton `h1gzRead` over the reference library's result.
func TestVerif_C14_h1gz(t *testing.T) {
	s := verifh.New(t, "C14", "h1gz",
		"transport.go gzipReader reached through a real HTTP/1.1 exchange with a scripted raw peer (close-delimited body = clean EOF where the bytes end; Content-Length larger than sent = framing error): gzip streams {valid, multi-member, truncated at every offset of small streams + random, bit-flip, trailing garbage, not gzip, empty, body ending in a framing error} x chunked underlying body x 1-4 cycling Read sizes x {to the end + reads after it, Close before/after j reads}; model = h1gzRead over (gzip.NewReader result, output, end) of compress/gzip used directly; oracle: valid => payload+EOF, truncated => error, nothing after the end")
	r := s.Rand()
	hist := map[string]int{}
	count := func(k string) { s.Count(k); hist[k]++ }
	peer := c14NewRawH1(t)
	defer peer.ln.Close()
	cl := C().EnableForceHTTP1().DisableAutoReadResponse().SetTimeout(30 * time.Second)
	type stream struct {
		kind          string
		payload, wire []byte
		fin           error
	}
	var streams []stream
	for _, pc := range []int{0, 1, 2} {
		p := verifc14.Payload(r, pc)
		if len(p) > 120 {
			p = p[:120]
		}
		w := verifc14.Compress("gzip", p)
		streams = append(streams, stream{"valid", p, w, io.EOF})
		for cut := 1; cut < len(w); cut++ {
			streams = append(streams, stream{"trunc", p, w[:cut], io.EOF})
		}
	}
	for i, n := 0, verifh.N(400, 60000); i < n; i++ {
		pc := r.Intn(4)
		if r.Intn(50) == 0 {
			pc = 4
		}
		p := verifc14.Payload(r, pc)
		w := verifc14.Compress("gzip", p)
		switch r.Intn(9) {
		case 0, 1:
			streams = append(streams, stream{"valid", p, w, io.EOF})
		case 2:
			streams = append(streams, stream{"trunc", p, w[:1+r.Intn(len(w)-1)], io.EOF})
		case 3:
			f := append([]byte(nil), w...)
			f[r.Intn(len(f))] ^= 1 << uint(r.Intn(8))
			streams = append(streams, stream{"flip", p, f, io.EOF})
		case 4:
			streams = append(streams, stream{"trail", p, append(append([]byte(nil), w...), byte(r.Intn(256)), byte(r.Intn(256))), io.EOF})
		case 5:
			streams = append(streams, stream{"wrongfmt", p, verifc14.Compress(verifh.Pick(r, []string{"deflate", "br", "zstd"}), p), io.EOF})
		case 6:
			p2 := verifc14.Payload(r, r.Intn(4))
			streams = append(streams, stream{"multi", append(append([]byte(nil), p...), p2...), append(append([]byte(nil), w...), verifc14.Compress("gzip", p2)...), io.EOF})
		case 7:
			streams = append(streams, stream{"srcerr", p, w[:r.Intn(len(w))], io.ErrUnexpectedEOF})
		default:
			streams = append(streams, stream{"empty", nil, nil, io.EOF})
		}
	}
	for i, st := range streams {
		sizes := verifc14.Sizes(r)
		// reference = compress/gzip used directly with the same Read sizes (how the bytes are
		// segmented on the connection cannot be scripted; gzip/flate do not depend on it)
		open, out, term := verifc14.RefSched("gzip", st.wire, st.fin, 0, sizes)
		if len(out) > 8192 {
			out, st.payload = nil, nil
			st.wire, st.kind, st.fin = nil, "empty", io.EOF
			open, out, term = verifc14.Ref("gzip", nil, io.EOF)
		}
		var extra []int
		for k := r.Intn(4); k > 0; k-- {
			extra = append(extra, 1+r.Intn(64))
		}
		if open != "ok" && r.Intn(2) == 0 {
			extra = append(extra, 0)
		}
		closeAfter := -1
		if r.Intn(4) == 0 {
			closeAfter = r.Intn(3)
			if len(extra) == 0 {
				extra = []int{1 + r.Intn(9)}
			}
			if r.Intn(2) == 0 {
				extra = append(extra, 0) // read on a closed body: sticky for empty buffers too
			}
		}
		var got string
		var raw []byte
		id := fmt.Sprintf("h1gz/%s#%d", st.kind, i)
		human := fmt.Sprintf("h1 gzipReader %s payload=%dB wire=%dB sizes=%v closeAfter=%d extra=%v ref=(%s,%dB,%s)", st.kind, len(st.payload), len(st.wire), sizes, closeAfter, extra, open, len(out), term)
		infra := ""
		if p, bad := verifh.Safely(func() {
			// the real path: default client (the transport asks for gzip), response says gzip =>
			// Response.Body is transport.go's gzipReader over the connection's body
			ctx, cancel := context.WithTimeout(context.Background(), 30*time.Second)
			defer cancel()
			resp, err := cl.R().SetContext(ctx).Get(peer.script(fmt.Sprintf("/%d", i), st.wire, st.fin))
			if err != nil {
				infra = "round trip: " + err.Error()
				return
			}
			if !resp.Response.Uncompressed || resp.Body == nil {
				infra = "the response was not routed through the gzip branch"
				return
			}
			got, raw = c14Script(resp.Body, out, closeAfter, sizes, extra)
			resp.Body.Close()
		}); bad {
			s.Crash(id, human, p, "")
			continue
		}
		if infra != "" {
			s.Observe(id, false, "", true, human+" :: "+infra, infra)
			continue
		}
		ok := true
		var gotData, gotTerm string
		fmt.Sscanf(got, "data=%s t=%s", &gotData, &gotTerm)
		if closeAfter < 0 {
			switch st.kind {
			case "valid", "multi":
				ok = gotData == verifh.Hex(string(st.payload)) && gotTerm == "eof"
			case "trunc":
				// admissible: a read error after a prefix of the payload, or exactly the payload
				ok = strings.HasPrefix(gotTerm, "err") && bytes.HasPrefix(st.payload, raw) ||
					gotTerm == "eof" && bytes.Equal(raw, st.payload)
			case "srcerr":
				ok = strings.HasPrefix(gotTerm, "err")
			case "flip":
				ok = strings.HasPrefix(gotTerm, "err") || gotData == verifh.Hex(string(st.payload))
			}
			if i := strings.Index(got, " after="); i >= 0 && got[i+7:] != "-" {
				for _, a := range strings.Split(got[i+7:], ",") {
					if a != "_:"+gotTerm {
						ok = false
					}
				}
			}
		}
		count("kind:" + st.kind)
		count("end:" + gotTerm)
		if open != "ok" {
			count("ctor-error")
		}
		if closeAfter >= 0 {
			count("close")
		}
		s.Case("c14reader h1gz "+open+" "+verifh.Hex(string(out))+" "+term+" "+strconv.Itoa(closeAfter)+" "+verifh.IntList(sizes)+" "+verifh.IntList(extra),
			got, ok, "", st.kind != "empty", human+" -> "+got[:min(len(got), 120)])
	}
	for _, k := range []string{"kind:valid", "kind:trunc", "kind:flip", "kind:trail", "kind:wrongfmt", "kind:multi", "kind:srcerr", "kind:empty", "end:eof", "end:err1", "end:err2", "end:*", "ctor-error", "close"} {
		if hist[k] == 0 {
			t.Errorf("bucket %s not reached", k)
		}
	}
	s.Finish()
}

// c14Script drives a reader the way the driver lane `c14reader` does.
func c14Script(rd io.ReadCloser, expect []byte, closeAfter int, sizes, extra []int) (canon string, raw []byte) {
	var data []byte
	term := "-"
	limit := 4*len(expect) + 4096
	if closeAfter >= 0 {
		limit = closeAfter
	}
	for i := 0; i < limit; i++ {
		buf := make([]byte, sizes[i%len(sizes)])
		n, err := rd.Read(buf)
		if n < 0 || n > len(buf) {
			return "bad-count", nil
		}
		data = append(data, buf[:n]...)
		if err != nil {
			term = c14TermReq(err)
			break
		}
	}
	if closeAfter >= 0 {
		rd.Close()
	}
	var after []string
	for _, n := range extra {
		buf := make([]byte, n)
		k, err := rd.Read(buf)
		after = append(after, verifh.Hex(string(buf[:k]))+":"+c14TermReq(err))
	}
	d := verifh.Hex(string(data))
	if strings.HasPrefix(term, "err") {
		// how much a decoder hands out before it reports an error depends on how its input
		// arrives; the property is about the error. Garbage is judged by the oracle (rawData).
		d = "partial"
	}
	if closeAfter > 0 {
		if bytes.HasPrefix(expect, data) {
			d = "prefix"
		} else {
			d = "notprefix"
		}
		term = "*"
	}
	a := "-"
	if len(after) > 0 {
		a = strings.Join(after, ",")
	}
	return "data=" + d + " t=" + term + " after=" + a, data
}

// TestVerif_C14_witness: the theorem witnesses (Req.Props.C14.legacy_*) replayed at the two
// levels the e2e lanes do not look at: http.RoundTripper level (Transport.RoundTrip: the
// Response.Body must be a reader - body_is_usable, before http.Client papers over a nil body)
// and the default Client (automatic body read, charset auto-decoder on a text type), where a
// nil body is a nil-pointer panic in the caller.
func TestVerif_C14_witness(t *testing.T) {
	s := verifh.New(t, "C14", "witness",
		"the decide-witnesses of legacy_untouched_fails / legacy_body_unusable / legacy_sites_disagree (AutoDecompress + caller Accept-Encoding br + Content-Encoding identity | GZIP | foo | gzip | none, text/plain and octet-stream, GET and HEAD) on the three protocols at (a) Transport.RoundTrip level: Body != nil and readable, (b) default Client with automatic read and charset auto-decoding: no panic, body = bytes sent / original payload; non-trivial = all")
	e := c14NewEnv(t, "h1", "h2", "h3")
	defer e.close()
	r := s.Rand()
	hist := map[string]int{}
	text := []byte(strings.Repeat("plain ascii text, long enough to be past every sniffing window. ", 40))
	type w struct {
		ce    []string
		alg   []string
		ctype string
		meth  string
		auto  bool
		ae    string
	}
	var ws []w
	for _, ct := range []string{"application/octet-stream", "text/plain; charset=utf-8", "text/plain"} {
		for _, m := range []string{"GET", "HEAD"} {
			ws = append(ws,
				w{[]string{"identity"}, nil, ct, m, true, "br"},
				w{[]string{"GZIP"}, []string{"gzip"}, ct, m, true, "br"},
				w{[]string{"foo"}, nil, ct, m, true, ""},
				w{[]string{"gzip"}, []string{"gzip"}, ct, m, true, "br"},
				w{[]string{"zstd"}, []string{"zstd"}, ct, m, true, ""},
				w{nil, nil, ct, m, true, "br"},
				w{[]string{"GZIP"}, []string{"gzip"}, ct, m, false, ""},
				w{[]string{"gzip, br"}, []string{"gzip", "br"}, ct, m, true, ""},
			)
		}
	}
	for wi, x := range ws {
		for _, proto := range []string{"h1", "h2", "h3"} {
			for _, level := range []string{"transport", "client"} {
				payload := text
				if x.ctype == "application/octet-stream" {
					payload = verifc14.Payload(r, 1+r.Intn(3))
				}
				wire, alg := c14Encode(c14Enc{name: "w", ce: x.ce, alg: x.alg}, payload)
				c := &c14Case{id: fmt.Sprintf("w-%d-%s-%s", wi, proto, level), proto: proto, auto: x.auto, ae: x.ae, method: x.meth, ce: x.ce,
					ctype: x.ctype, payload: payload, wire: wire, stream: "valid", alg: alg, framing: "cl", sizes: []int{512}}
				transportAsked := c.ae == "" && c.method != "HEAD"
				class := c.class(transportAsked)
				ce := "-"
				if len(x.ce) > 0 {
					ce = x.ce[0]
				}
				decode := c.method != "HEAD" && ((transportAsked && strings.EqualFold(ce, "gzip")) || (c.auto && c14Supported(ce)))
				want := c.wireBody()
				if decode {
					want = payload
				}
				human := fmt.Sprintf("%s level=%s %s auto=%v callerAE=%q CE=%q type=%q payload=%dB wire=%dB", proto, level, x.meth, x.auto, x.ae, ce, x.ctype, len(payload), len(wire))
				e.origin.add(c)
				var got []byte
				var bodyNil bool
				var rerr error
				ptext, bad := verifh.Safely(func() {
					ctx, cancel := context.WithTimeout(context.Background(), 20*time.Second)
					defer cancel()
					if level == "transport" {
						cl := e.client(proto, false, x.auto)
						hreq, _ := http.NewRequestWithContext(ctx, x.meth, e.base[proto]+"/", nil)
						hreq.Header.Set("X-C14-Case", c.id)
						if x.ae != "" {
							hreq.Header.Set("Accept-Encoding", x.ae)
						}
						var resp *http.Response
						resp, rerr = cl.GetTransport().RoundTrip(hreq)
						if rerr != nil {
							return
						}
						if resp.Body == nil {
							bodyNil = true
							return
						}
						got, rerr = io.ReadAll(resp.Body)
						resp.Body.Close()
					} else {
						cl := e.client(proto+"-autoread", false, x.auto)
						rq := cl.R().SetContext(ctx).SetHeader("X-C14-Case", c.id)
						if x.ae != "" {
							rq.SetHeader("Accept-Encoding", x.ae)
						}
						var resp *Response
						resp, rerr = rq.Send(x.meth, e.base[proto]+"/")
						if rerr != nil {
							return
						}
						got = resp.Bytes()
					}
				})
				s.Count(level)
				switch {
				case bad:
					s.Crash(c.id, human, ptext, class)
					s.Count("panic")
				case rerr != nil:
					s.Observe(c.id, false, class, true, human+" :: error "+rerr.Error(), rerr.Error())
				case bodyNil:
					s.Observe(c.id, false, class, true, human+" :: Response.Body is nil (body_is_usable)", "nil body")
					s.Count("nil-body")
				default:
					ok := bytes.Equal(got, want)
					if ok {
						hist["ok"]++
					}
					s.Observe(c.id, ok, class, true, human, fmt.Sprintf("got %s want %s", verifc14.Digest(got, "eof"), verifc14.Digest(want, "eof")))
				}
			}
		}
	}
	if hist["ok"] == 0 {
		t.Errorf("bucket ok not reached")
	}
	s.Finish()
}

// TestVerif_C14_overlap_e2e: overlapping decoded responses through the real clients. On each
// protocol: a decoded response is read partly and closed twice (explicit + deferred Close), then
// 2-4 further decoded responses are opened together and read alternately in generated pieces;
// every one must deliver exactly its own payload and a clean EOF (nothing shared between
// responses - reader pools, sticky fields - may leak from one body into another).
func TestVerif_C14_overlap_e2e(t *testing.T) {
	s := verifh.New(t, "C14", "overlap_e2e",
		"per protocol: response A (gzip/deflate/br/zstd under transport-gzip or AutoDecompress) read for 0..k bytes then Closed twice; then 2-4 responses with distinct payloads opened before any is read and read alternately with sizes from {1..65536}; oracle: each body = its own payload + EOF; non-trivial = all")
	e := c14NewEnv(t, "h1", "h2", "h3")
	defer e.close()
	r := s.Rand()
	hist := map[string]int{}
	seq := 0
	get := func(proto string, auto bool, alg string, payload []byte) (*Response, context.CancelFunc, error) {
		seq++
		c := &c14Case{id: fmt.Sprintf("ov-%d", seq), proto: proto, auto: auto, method: "GET", ce: []string{alg}, ctype: "application/octet-stream",
			payload: payload, wire: verifc14.Compress(alg, payload), stream: "valid", alg: alg, framing: "cl"}
		e.origin.add(c)
		ctx, cancel := context.WithTimeout(context.Background(), 30*time.Second)
		resp, err := e.client(proto, false, auto).R().SetContext(ctx).SetHeader("X-C14-Case", c.id).Get(e.base[proto] + "/")
		return resp, cancel, err
	}
	for _, proto := range []string{"h1", "h2", "h3"} {
		for sc, n := 0, verifh.N(14, 300); sc < n; sc++ {
			auto := r.Intn(2) == 0
			pick := func() string {
				if !auto || r.Intn(2) == 0 {
					return "gzip"
				}
				return verifh.Pick(r, verifc14.Algs)
			}
			bad := ""
			id := fmt.Sprintf("%s-overlap#%d", proto, sc)
			ptext, panicked := verifh.Safely(func() {
				// A: partly read, closed twice
				pa := verifc14.Payload(r, 1+r.Intn(3))
				ra, ca, err := get(proto, auto, pick(), pa)
				if err != nil {
					bad = "infra: " + err.Error()
					return
				}
				if k := r.Intn(3); k > 0 {
					ra.Body.Read(make([]byte, k*7))
				}
				ra.Body.Close()
				ra.Body.Close()
				ca()
				type ov struct {
					resp    *Response
					cancel  context.CancelFunc
					payload []byte
					got     []byte
					done    bool
				}
				var open []*ov
				for k := 2 + r.Intn(3); k > 0; k-- {
					pc := 1 + r.Intn(3)
					if r.Intn(6) == 0 {
						pc = 4
					}
					p := verifc14.Payload(r, pc)
					resp, cancel, err := get(proto, auto, pick(), p)
					if err != nil {
						bad = "infra: " + err.Error()
						return
					}
					open = append(open, &ov{resp: resp, cancel: cancel, payload: p})
				}
				for left := len(open); left > 0 && bad == ""; {
					o := open[r.Intn(len(open))]
					if o.done {
						continue
					}
					buf := make([]byte, verifh.Pick(r, []int{1, 7, 100, 512, 4096, 65536}))
					k, err := o.resp.Body.Read(buf)
					o.got = append(o.got, buf[:k]...)
					if !bytes.HasPrefix(o.payload, o.got) {
						bad = fmt.Sprintf("a body delivered bytes that are not its own payload's (at %d of %d)", len(o.got), len(o.payload))
					}
					if err != nil {
						o.done = true
						left--
						if err != io.EOF || len(o.got) != len(o.payload) {
							bad = fmt.Sprintf("a body ended after %d of %d bytes with %v", len(o.got), len(o.payload), err)
						}
					}
				}
				for _, o := range open {
					o.resp.Body.Close()
					o.cancel()
				}
			})
			if panicked {
				s.Crash(id, id, ptext, "")
				continue
			}
			if strings.HasPrefix(bad, "infra:") {
				t.Fatalf("%s", bad)
			}
			if bad == "" {
				hist[proto]++
			}
			s.Count(proto)
			s.Observe(id, bad == "", "", true, id+" auto="+fmt.Sprint(auto)+" "+bad, bad)
		}
	}
	for _, p := range []string{"h1", "h2", "h3"} {
		if hist[p] == 0 {
			t.Errorf("bucket %s not reached", p)
		}
	}
	s.Finish()
}
