//go:build verif

package req

import (
	"bytes"
	"errors"
	"fmt"
	"io"
	"net/http"
	"os"
	"path/filepath"
	"strconv"
	"strings"
	"testing"

	"github.com/imroc/req/v3/internal/verifh"
)

// ---------------------------------------------------------------------------------------
// C02 lane "ops": the caller-side state machine of req.Response.
//
// A scripted http.RoundTripper (installed with Transport.WrapRoundTripFunc, so the real
// Transport.RoundTrip -> handleResponseBody -> http.Client.Do -> Client.roundTrip ->
// response middlewares pipeline runs) returns a response whose Body hands out a generated
// byte string in a generated segmentation and ends with io.EOF or an error. The lane then
// applies a generated sequence of observation operations to the real *Response and compares
// every observation with the Lean model (Req.C02.RespSM).
// ---------------------------------------------------------------------------------------

var (
	errC02Boom   = errors.New("c02: scripted body failure")
	errC02Closed = errors.New("c02: read on closed scripted body")
)

// c02ScriptBody is the transport body of the model: Read crosses at most one segment
// boundary; after Close every Read fails.
type c02ScriptBody struct {
	chunks [][]byte
	fin    error
	closed bool
}

func (b *c02ScriptBody) Read(p []byte) (int, error) {
	if b.closed {
		return 0, errC02Closed
	}
	if len(b.chunks) == 0 {
		return 0, b.fin
	}
	c := b.chunks[0]
	if len(c) <= len(p) {
		copy(p, c)
		b.chunks = b.chunks[1:]
		return len(c), nil
	}
	copy(p, c[:len(p)])
	b.chunks[0] = c[len(p):]
	return len(p), nil
}

func (b *c02ScriptBody) Close() error { b.closed = true; return nil }

func c02ErrClass(err error) string {
	switch {
	case err == nil:
		return "ok"
	case err == io.EOF:
		return "eof"
	case errors.Is(err, errC02Boom):
		return "fail"
	case errors.Is(err, errC02Closed):
		return "closed"
	}
	return "other(" + err.Error() + ")"
}

type c02Writer struct{ buf bytes.Buffer }

func (w *c02Writer) Write(p []byte) (int, error) { return w.buf.Write(p) }

var c02Sizes = []int{0, 1, 1, 2, 3, 7, 16, 100, 511, 512, 513, 1000, 4095, 4096, 4097}

func c02GenChunks(s *verifh.Session) []string {
	r := s.Rand()
	n := r.Intn(6)
	if r.Intn(10) == 0 {
		n = 0
	}
	var out []string
	for i := 0; i < n; i++ {
		sz := verifh.Pick(r, c02Sizes)
		if sz == 0 && r.Intn(3) != 0 {
			sz = 1 + r.Intn(40)
		}
		if r.Intn(40) == 0 {
			sz = 32767 + r.Intn(3)
		}
		out = append(out, verifh.RandBytes(r, sz, ""))
	}
	return out
}

func TestVerif_C02_ops(t *testing.T) {
	s := verifh.New(t, "C02", "ops",
		"scripted transport body (0..5 segments of 0..32769 random bytes, ends with EOF or error) x config {auto-read, Client/Request.DisableAutoReadResponse, SetOutput, SetOutputFile, SetSuccessResult / SetErrorResult (JSON body)} x status {101,150,200,201,204,301,304,404,500} x 0..8 observation ops {ToBytes,ToString,Bytes,String,Body.Read(n),io.ReadAll(Body),Body.Close}; real pipeline Transport.RoundTrip->http.Client->Client.roundTrip->middlewares; non-trivial = non-empty body and >=2 ops")
	r := s.Rand()
	dir := t.TempDir()
	n := verifh.N(1500, 40000)
	statuses := []int{200, 200, 200, 201, 204, 301, 304, 404, 500, 101, 150}
	opPool := []string{"tb", "tb", "ts", "by", "st", "rd", "rd", "rd", "ra", "cl"}
	readSizes := []int{0, 1, 1, 2, 7, 100, 512, 4096, 65536}
	for c := 0; c < n; c++ {
		chunks := c02GenChunks(s)
		fin := "eof"
		if r.Intn(7) == 0 {
			fin = "fail"
		}
		status := verifh.Pick(r, statuses)
		cdis, rdis, save, file := false, false, false, false
		switch r.Intn(10) {
		case 0, 1, 2, 3:
		case 4:
			cdis = true
		case 5:
			rdis = true
		case 6:
			save = true
		case 7:
			save, file = true, true
		case 8:
			cdis, save = true, true
		case 9:
			cdis, rdis = r.Intn(2) == 0, true
			save = r.Intn(3) == 0
		}
		// a success-result object (SetSuccessResult): parseResponseBody then reads the body
		// itself; with SetOutput the download copies the cached bytes. The body is JSON in
		// these cases so that unmarshalling succeeds.
		result := r.Intn(5) == 0
		// an error-result object (SetErrorResult): the same for statuses >= 400
		eres := r.Intn(5) == 0
		if result || eres {
			js := `{"k":"` + verifh.RandBytes(r, r.Intn(300), "abcdefghijklmnopqrstuvwxyz0123456789 ") + `","n":[1,2,3]}`
			chunks = nil
			for len(js) > 0 {
				k := 1 + r.Intn(60)
				if k > len(js) {
					k = len(js)
				}
				chunks = append(chunks, js[:k])
				js = js[k:]
			}
		}
		nops := r.Intn(9)
		var ops []string
		for i := 0; i < nops; i++ {
			op := verifh.Pick(r, opPool)
			if op == "rd" {
				op += strconv.Itoa(verifh.Pick(r, readSizes))
			}
			ops = append(ops, op)
		}

		b01 := func(b bool) string {
			if b {
				return "1"
			}
			return "0"
		}
		cfg := "c" + b01(cdis) + "r" + b01(rdis) + "s" + b01(save) + "j" + b01(result) + "e" + b01(eres)
		opsStr := "-"
		if len(ops) > 0 {
			opsStr = strings.Join(ops, ",")
		}
		line := fmt.Sprintf("c02ops %s %d %s %s %s", cfg, status, verifh.HexList(chunks), fin, opsStr)
		whole := strings.Join(chunks, "")

		var impl string
		var propOK = true
		ptxt, panicked := verifh.Safely(func() {
			cl := C()
			var sb *c02ScriptBody
			cl.GetTransport().WrapRoundTripFunc(func(rt http.RoundTripper) HttpRoundTripFunc {
				return func(req *http.Request) (*http.Response, error) {
					bc := make([][]byte, len(chunks))
					for i, ch := range chunks {
						bc[i] = []byte(ch)
					}
					sb = &c02ScriptBody{chunks: bc, fin: io.EOF}
					if fin == "fail" {
						sb.fin = errC02Boom
					}
					return &http.Response{
						Status: strconv.Itoa(status) + " X", StatusCode: status,
						Proto: "HTTP/1.1", ProtoMajor: 1, ProtoMinor: 1,
						Header:        http.Header{"X-C02": {"1"}},
						Body:          sb,
						ContentLength: -1,
						Request:       req,
					}, nil
				}
			})
			if cdis {
				cl.DisableAutoReadResponse()
			}
			rq := cl.R()
			if rdis {
				rq.DisableAutoReadResponse()
			}
			var resultObj interface{}
			if result {
				rq.SetSuccessResult(&resultObj)
			}
			var errObj interface{}
			if eres {
				rq.SetErrorResult(&errObj)
			}
			var w *c02Writer
			var fpath string
			if save {
				if file {
					fpath = filepath.Join(dir, "o"+strconv.Itoa(c))
					rq.SetOutputFile(fpath)
				} else {
					w = &c02Writer{}
					rq.SetOutput(w)
				}
			}
			resp, err := rq.Get("http://c02.invalid/x")
			out := "nil"
			if save {
				var ob []byte
				if file {
					ob, _ = os.ReadFile(fpath)
					os.Remove(fpath)
				} else {
					ob = w.buf.Bytes()
				}
				out = verifh.Hex(string(ob))
				if fin == "eof" && string(ob) != whole {
					propOK = false
				}
			}
			var obs []string
			auto := !cdis && !rdis && !save && status > 199
			unmarshalled := (result && status > 199 && status < 300 && status != 204) || (eres && status > 399)
			if unmarshalled && fin == "eof" && (string(resp.Bytes()) != whole || (resultObj == nil && errObj == nil)) {
				propOK = false // the result object was filled from exactly the body
			}
			var streamed []byte // bytes the caller pulled out of the live stream, in order
			complete := false
			closedBefore := false
			firstTB := true
			for _, op := range ops {
				switch {
				case op == "tb":
					b, e := resp.ToBytes()
					obs = append(obs, verifh.Hex(string(b))+"/"+c02ErrClass(e))
					if auto && fin == "eof" && string(b) != whole {
						propOK = false
					}
					if !auto && !save && firstTB && !closedBefore && e == nil {
						streamed = append(streamed, b...)
						complete = true
					}
					firstTB = false
				case op == "ts":
					b, e := resp.ToString()
					obs = append(obs, verifh.Hex(b)+"/"+c02ErrClass(e))
					if auto && fin == "eof" && b != whole {
						propOK = false
					}
					if !auto && !save && firstTB && !closedBefore && e == nil {
						streamed = append(streamed, b...)
						complete = true
					}
					firstTB = false
				case op == "by":
					b := resp.Bytes()
					if b == nil {
						obs = append(obs, "nil")
					} else {
						obs = append(obs, verifh.Hex(string(b)))
					}
					if auto && fin == "eof" && string(b) != whole {
						propOK = false
					}
				case op == "st":
					b := resp.String()
					obs = append(obs, verifh.Hex(b))
					if auto && fin == "eof" && b != whole {
						propOK = false
					}
				case strings.HasPrefix(op, "rd"):
					k, _ := strconv.Atoi(op[2:])
					if resp.Response == nil || resp.Body == nil {
						obs = append(obs, ".")
						break
					}
					p := make([]byte, k)
					m, e := resp.Body.Read(p)
					obs = append(obs, verifh.Hex(string(p[:m]))+"/"+c02ErrClass(e))
					streamed = append(streamed, p[:m]...)
					if e == io.EOF {
						complete = true
					}
				case op == "ra":
					if resp.Response == nil || resp.Body == nil {
						obs = append(obs, ".")
						break
					}
					b, e := io.ReadAll(resp.Body)
					obs = append(obs, verifh.Hex(string(b))+"/"+c02ErrClass(e))
					streamed = append(streamed, b...)
					if e == nil {
						complete = true
					}
				case op == "cl":
					if resp.Response == nil || resp.Body == nil {
						obs = append(obs, ".")
						break
					}
					resp.Body.Close()
					if !auto {
						closedBefore = true
					}
					obs = append(obs, ".")
				}
			}
			// oracle: the live stream is handed out in order, nothing invented or repeated, and
			// when the caller reached the end it has seen exactly the transport body
			if !save && !(unmarshalled && !auto) {
				if !bytes.HasPrefix([]byte(whole), streamed) {
					propOK = false
				}
				if fin == "eof" && complete && !closedBefore && string(streamed) != whole {
					propOK = false
				}
			}
			os := "-"
			if len(obs) > 0 {
				os = strings.Join(obs, ";")
			}
			impl = "err=" + c02ErrClass(err) + " out=" + out + " obs=" + os
		})
		if panicked {
			s.Crash(line, line, ptxt, "")
			continue
		}
		switch {
		case save:
			s.Count("mode:save")
		case cdis || rdis:
			s.Count("mode:disabled")
		case status <= 199:
			s.Count("mode:status<=199")
		default:
			s.Count("mode:auto")
		}
		s.Count("fin:" + fin)
		if eres && status > 399 {
			s.Count("error-result-bound")
		}
		if result {
			s.Count("with-result-object")
			if save {
				s.Count("result+save")
			}
		}
		if len(whole) == 0 {
			s.Count("body:empty")
		}
		s.Case(line, impl, propOK, "", len(whole) > 0 && len(ops) >= 2,
			fmt.Sprintf("cfg=%s status=%d segs=%d len=%d fin=%s ops=%s", cfg, status, len(chunks), len(whole), fin, opsStr))
	}
	s.Finish()
}
