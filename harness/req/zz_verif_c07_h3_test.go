//go:build verif

package req

import (
	"bytes"
	"context"
	"crypto/ecdsa"
	"crypto/elliptic"
	"crypto/rand"
	"crypto/tls"
	"crypto/x509"
	"crypto/x509/pkix"
	"fmt"
	"io"
	"math/big"
	"net"
	"os"
	"runtime"
	"strconv"
	"strings"
	"sync"
	"testing"
	"time"

	"github.com/imroc/req/v3/internal/verifh"
	"github.com/quic-go/qpack"
	"github.com/quic-go/quic-go"
	"github.com/quic-go/quic-go/quicvarint"
)

func c07SelfSigned(t testing.TB) tls.Certificate {
	key, err := ecdsa.GenerateKey(elliptic.P256(), rand.Reader)
	if err != nil {
		t.Fatal(err)
	}
	tmpl := &x509.Certificate{
		SerialNumber: big.NewInt(7), Subject: pkix.Name{CommonName: "c07"},
		NotBefore: time.Now().Add(-time.Hour), NotAfter: time.Now().Add(24 * time.Hour),
		KeyUsage: x509.KeyUsageDigitalSignature, ExtKeyUsage: []x509.ExtKeyUsage{x509.ExtKeyUsageServerAuth},
		IPAddresses: []net.IP{net.ParseIP("127.0.0.1")}, DNSNames: []string{"localhost"},
	}
	der, err := x509.CreateCertificate(rand.Reader, tmpl, tmpl, &key.PublicKey, key)
	if err != nil {
		t.Fatal(err)
	}
	return tls.Certificate{Certificate: [][]byte{der}, PrivateKey: key}
}

// c07H3Script: what the hostile HTTP/3 peer does for one request.
type c07H3Script struct {
	control  []byte // bytes written on the peer's control stream (stream type included)
	extraUni [][]byte
	response []byte // bytes written on the request stream
	closeCtl bool   // close the control stream afterwards (critical stream closure)
	reset    int    // >=0: reset the request stream with this code instead of FIN
	// stagedUni: the peer first opens ALL its unidirectional streams and writes only the stream-type
	// byte of each, pauses, and then writes the rest of each (an interleaving chosen by the server:
	// every stream passes the client's per-type guards before any of them delivers a frame)
	stagedUni bool
}

type c07H3Peer struct {
	ln      *quic.Listener
	mu      sync.Mutex
	scripts map[string]c07H3Script
	next    *c07H3Script // control-stream behaviour for the NEXT connection
	conns   []quic.Connection
}

func newC07H3Peer(t testing.TB) *c07H3Peer {
	tlsConf := &tls.Config{Certificates: []tls.Certificate{c07SelfSigned(t)}, NextProtos: []string{"h3"}}
	ln, err := quic.ListenAddr("127.0.0.1:0", tlsConf, &quic.Config{MaxIncomingStreams: 1000, MaxIncomingUniStreams: 1000, MaxIdleTimeout: 20 * time.Second})
	if err != nil {
		t.Fatalf("quic listen: %v", err)
	}
	p := &c07H3Peer{ln: ln, scripts: map[string]c07H3Script{}}
	go func() {
		for {
			conn, err := ln.Accept(context.Background())
			if err != nil {
				return
			}
			p.mu.Lock()
			p.conns = append(p.conns, conn)
			p.mu.Unlock()
			go p.serveConn(conn)
		}
	}()
	return p
}

func (p *c07H3Peer) closeAll() {
	// connections first (CONNECTION_CLOSE needs the socket), then the listener
	p.mu.Lock()
	for _, c := range p.conns {
		c.CloseWithError(0, "")
	}
	p.conns = nil
	p.mu.Unlock()
	time.Sleep(200 * time.Millisecond)
	p.ln.Close()
}

func c07H3Frame(typ uint64, payload []byte) []byte {
	b := quicvarint.Append(nil, typ)
	b = quicvarint.Append(b, uint64(len(payload)))
	return append(b, payload...)
}

func c07Qpack(fields ...[2]string) []byte {
	var buf bytes.Buffer
	enc := qpack.NewEncoder(&buf)
	for _, f := range fields {
		enc.WriteField(qpack.HeaderField{Name: f[0], Value: f[1]})
	}
	return buf.Bytes()
}

func (p *c07H3Peer) serveConn(conn quic.Connection) {
	p.mu.Lock()
	sc := p.next
	p.mu.Unlock()
	ctl := []byte{0x00, 0x04, 0x00} // control stream type, empty SETTINGS
	closeCtl := false
	var extra [][]byte
	if sc != nil {
		ctl, closeCtl, extra = sc.control, sc.closeCtl, sc.extraUni
	}
	if sc != nil && sc.stagedUni {
		var strs []quic.SendStream
		var rests [][]byte
		for _, e := range append([][]byte{ctl}, extra...) {
			if len(e) == 0 {
				continue
			}
			if s, err := conn.OpenUniStream(); err == nil {
				s.Write(e[:1])
				strs = append(strs, s)
				rests = append(rests, e[1:])
			}
		}
		time.Sleep(40 * time.Millisecond)
		for i, s := range strs {
			s.Write(rests[i])
		}
	} else {
		if len(ctl) > 0 {
			if s, err := conn.OpenUniStream(); err == nil {
				s.Write(ctl)
				if closeCtl {
					s.Close()
				}
			}
		}
		for _, e := range extra {
			if s, err := conn.OpenUniStream(); err == nil {
				s.Write(e)
				if len(e)%2 == 0 {
					s.Close()
				}
			}
		}
	}
	go func() {
		for {
			us, err := conn.AcceptUniStream(context.Background())
			if err != nil {
				return
			}
			go io.Copy(io.Discard, us)
		}
	}()
	for {
		str, err := conn.AcceptStream(context.Background())
		if err != nil {
			return
		}
		go p.serveStream(conn, str)
	}
}

func (p *c07H3Peer) serveStream(conn quic.Connection, str quic.Stream) {
	str.SetDeadline(time.Now().Add(20 * time.Second))
	// read the request HEADERS frame to learn the path
	path := ""
	typ, err := quicvarint.Read(quicvarint.NewReader(str))
	if err == nil && typ == 0x1 {
		n, err := quicvarint.Read(quicvarint.NewReader(str))
		if err == nil && n < 1<<20 {
			payload := make([]byte, n)
			if _, err := io.ReadFull(str, payload); err == nil {
				if hfs, err := qpack.NewDecoder(nil).DecodeFull(payload); err == nil {
					for _, f := range hfs {
						if f.Name == ":path" {
							path = f.Value
						}
					}
				}
			}
		}
	}
	go io.Copy(io.Discard, str)
	p.mu.Lock()
	sc, ok := p.scripts[path]
	p.mu.Unlock()
	if !ok {
		str.Write(c07H3Frame(0x1, c07Qpack([2]string{":status", "200"}, [2]string{"content-type", "application/json"})))
		str.Write(c07H3Frame(0x0, []byte("{}")))
		str.Close()
		return
	}
	str.Write(sc.response)
	if sc.reset >= 0 {
		str.CancelWrite(quic.StreamErrorCode(sc.reset))
	} else {
		str.Close()
	}
}

func (p *c07H3Peer) set(path string, sc c07H3Script) {
	p.mu.Lock()
	p.scripts[path] = sc
	p.mu.Unlock()
}

// c07H3Gen generates a hostile response for one HTTP/3 request.
func c07H3Gen(s *verifh.Session) (c07H3Script, []string) {
	r := s.Rand()
	var tags []string
	tag := func(x string) { tags = append(tags, x) }
	sc := c07H3Script{reset: -1}
	var out bytes.Buffer
	status := verifh.Pick(r, []string{"200", "200", "200", "200", "200", "200", "200", "200", "200", "200", "204", "304", "404", "500", "401", "302", "100", "103", "99", "1000", "abc", "", "+200", "0200"})
	body := []byte(verifh.Pick(r, []string{"", "hello", "{\"a\":1}", "<meta charset=\"gbk\">\xc4\xe3", strings.Repeat("z", 20000)}))
	fields := [][2]string{{":status", status}}
	ct := verifh.Pick(r, []string{"text/html; charset=gbk", "application/json", "text/plain; charset=utf-32", "", "text/html; charset=\"", ";;;"})
	if ct != "" {
		fields = append(fields, [2]string{"content-type", ct})
	}
	if r.Intn(3) == 0 {
		ce := verifh.Pick(r, []string{"gzip", "br", "zstd", "deflate", "identity", "GZIP", "unknown", "gzip, br"})
		fields = append(fields, [2]string{"content-encoding", ce})
		tag("ce:" + ce)
		switch r.Intn(3) {
		case 0:
			body = c07Gzip(body)
		case 1:
			g := c07Gzip(body)
			body = g[:c07Intn(r, len(g))]
		}
	}
	switch r.Intn(4) {
	case 0:
		fields = append(fields, [2]string{"content-length", strconv.Itoa(len(body))})
	case 1:
		fields = append(fields, [2]string{"content-length", verifh.Pick(r, []string{"-1", "abc", "1", strconv.Itoa(len(body) + 5), "99999999999999999999", "", "1, 1"})})
		tag("bad-cl")
	}
	if r.Intn(4) == 0 {
		fields = append(fields, verifh.Pick(r, [][2]string{
			{"Upper-Case", "x"}, {":late-pseudo", "x"}, {":status", "200"}, {"connection", "close"}, {"transfer-encoding", "chunked"},
			{"x-ctl", "a\x00b"}, {"x\x00y", "v"}, {"", "v"}, {"x-long", strings.Repeat("L", 70000)}, {":path", "/"}, {"te", "gzip"},
			{"alt-svc", "h3=\"[\";;;=,"}, {"www-authenticate", "Digest =,="}, {"location", "://"}, {"set-cookie", "\x00=\x01"}, {"trailer", "content-length"}}))
		tag("odd-field")
	}
	if r.Intn(10) == 0 {
		fields[0], fields[len(fields)-1] = fields[len(fields)-1], fields[0]
		tag("pseudo-not-first")
	}
	block := c07Qpack(fields...)
	if r.Intn(10) == 0 {
		block = []byte(verifh.RandBytes(r, 1+r.Intn(40), ""))
		tag("garbage-qpack")
	}
	if r.Intn(12) == 0 {
		// reference to the dynamic table (required insert count > 0): the client has no entries
		block = append([]byte{0x05, 0x00, 0x80}, block...)
		tag("qpack-dynamic-ref")
	}
	if r.Intn(8) == 0 {
		for k := 1 + r.Intn(8); k > 0; k-- {
			out.Write(c07H3Frame(0x1, c07Qpack([2]string{":status", verifh.Pick(r, []string{"100", "103", "102"})})))
		}
		tag("1xx-prefix")
	}
	// noise before the header section
	if r.Intn(3) == 0 {
		switch r.Intn(9) {
		case 0:
			out.Write(c07H3Frame(0x0, []byte("early")))
			tag("data-before-headers")
		case 1:
			out.Write(c07H3Frame(verifh.Pick(r, []uint64{0x2, 0x6, 0x8, 0x9}), []byte("h2-reserved")))
			tag("h2-reserved-type")
		case 2:
			out.Write(c07H3Frame(0x4, []byte{0x06, 0x40, 0x40}))
			tag("settings-on-request-stream")
		case 3:
			out.Write(c07H3Frame(0x21+0x1f*uint64(r.Intn(5)), []byte(verifh.RandBytes(r, r.Intn(20), ""))))
			tag("grease-frame")
		case 4:
			out.Write(c07H3Frame(0x7, []byte{0x00}))
			tag("goaway-on-request-stream")
		case 5:
			out.Write(c07H3Frame(0x5, append([]byte{0x01}, block...)))
			tag("push-promise")
		case 6:
			out.Write(c07H3Frame(0x3, []byte{0x01}))
			tag("cancel-push")
		case 7:
			out.Write(c07H3Frame(0xd, []byte{0x01}))
			tag("max-push-id")
		default:
			// a frame whose length lies
			b := quicvarint.Append(nil, 0x1)
			b = quicvarint.Append(b, 1<<30)
			out.Write(append(b, block...))
			tag("length-lie")
		}
	}
	out.Write(c07H3Frame(0x1, block))
	// noise AFTER the header section, between and after DATA frames (the body reader's parser)
	midNoise := func() {
		if r.Intn(5) != 0 {
			return
		}
		switch r.Intn(7) {
		case 0:
			out.Write(c07H3Frame(verifh.Pick(r, []uint64{0x2, 0x6, 0x8, 0x9}), []byte("x")))
			tag("h2-reserved-type-in-body")
		case 1:
			out.Write(c07H3Frame(0x4, []byte{0x06, 0x40, 0x40}))
			tag("settings-in-body")
		case 2:
			out.Write(c07H3Frame(0x21+0x1f*uint64(r.Intn(5)), []byte(verifh.RandBytes(r, r.Intn(20), ""))))
			tag("grease-in-body")
		case 3:
			out.Write(c07H3Frame(0x7, []byte{0x00}))
			tag("goaway-in-body")
		case 4:
			out.Write(c07H3Frame(0x5, []byte{0x01, 0x00, 0x00}))
			tag("push-promise-in-body")
		case 5:
			out.Write(c07H3Frame(0x3, []byte{0x01}))
			tag("cancel-push-in-body")
		default:
			b := quicvarint.Append(nil, 0x0)
			b = quicvarint.Append(b, 1<<40)
			out.Write(append(b, 'z'))
			tag("data-length-lie")
		}
	}
	midNoise()
	rest := body
	for len(rest) > 0 {
		n := 1 + c07Intn(r, len(rest))
		out.Write(c07H3Frame(0x0, rest[:n]))
		rest = rest[n:]
		midNoise()
	}
	switch r.Intn(10) {
	case 0:
		out.Write(c07H3Frame(0x1, c07Qpack([2]string{"x-trailer", "1"})))
		tag("trailers")
	case 1:
		out.Write(c07H3Frame(0x1, c07Qpack([2]string{":status", "200"}, [2]string{"X-Up", "1"})))
		tag("bad-trailers")
	case 2:
		out.Write(c07H3Frame(0x1, c07Qpack([2]string{"x-trailer", "1"})))
		out.Write(c07H3Frame(0x0, []byte("after-trailers")))
		tag("data-after-trailers")
	case 3:
		sc.reset = r.Intn(0x110)
		tag("reset")
	}
	res := out.Bytes()
	if r.Intn(6) == 0 && len(res) > 0 {
		for k := 1 + r.Intn(3); k > 0; k-- {
			res[c07Intn(r, len(res))] = byte(r.Intn(256))
		}
		tag("mutated")
	}
	if r.Intn(8) == 0 && len(res) > 0 {
		res = res[:c07Intn(r, len(res))]
		tag("cut")
	}
	sc.response = res
	// control-stream behaviour of a fresh connection
	switch r.Intn(14) {
	case 0:
		sc.control = []byte{0x00, 0x04, 0x04, 0x06, 0x40, 0x40, 0x06} // duplicate-ish / truncated setting
		tag("ctl-odd-settings")
	case 1:
		sc.control = append([]byte{0x00}, c07H3Frame(0x0, []byte("data-first"))...)
		tag("ctl-data-first")
	case 2:
		sc.control = []byte{0x00, 0x04, 0x00}
		sc.closeCtl = true
		tag("ctl-closed")
	case 3:
		sc.control = nil
		tag("ctl-none")
	case 4:
		sc.control = append([]byte{0x00, 0x04, 0x00}, c07H3Frame(0x4, nil)...)
		tag("ctl-second-settings")
	case 5:
		sc.control = append([]byte{0x00}, c07H3Frame(0x4, append(quicvarint.Append(nil, 0x2), 0x00))...) // HTTP/2 setting id
		tag("ctl-h2-setting")
	case 6:
		sc.control = []byte{0x00, 0x04, 0x00}
		sc.extraUni = [][]byte{{0x00, 0x04, 0x00}} // second control stream
		tag("ctl-duplicate-stream")
	case 7:
		sc.control = []byte{0x00, 0x04, 0x00}
		sc.extraUni = [][]byte{{0x02, 0xff, 0xff, 0xff}, {0x03, 0xff, 0x00}, append(quicvarint.Append(nil, 0x21), 1, 2, 3), {0x01, 0x00}} // qpack enc/dec garbage, grease, push
		tag("uni-garbage")
	default:
		sc.control = []byte{0x00, 0x04, 0x00}
	}
	return sc, tags
}

// TestVerif_C07_h3hostile: real client forced to HTTP/3 against a raw QUIC peer that answers with
// generated hostile frame sequences on the request stream and misbehaves on the control /
// QPACK / push streams.
func TestVerif_C07_h3hostile(t *testing.T) {
	s := verifh.New(t, "C07", "h3hostile",
		"generated HTTP/3 exchanges on raw QUIC: request-stream bytes (1xx floods, DATA before HEADERS, HTTP/2-reserved / SETTINGS / GOAWAY / PUSH_PROMISE / CANCEL_PUSH / MAX_PUSH_ID / grease frames on the request stream, lying lengths, garbage QPACK, dynamic-table references, pseudo-header misuse, upper-case and control-byte fields, content-length / content-encoding / status fuzz, trailers good and bad, DATA after trailers, stream reset, mutation, cuts) x control-stream behaviour (odd/duplicate SETTINGS, DATA first, closed, absent, HTTP/2 setting ids, duplicate control stream, garbage on QPACK/push/grease streams) x option sets; oracle: call returns resp-or-error within the bound, no panic, client reusable, no spin, goroutines settle; non-trivial = at least one fault tag")
	opts := c07Options()
	probe := C().EnableForceHTTP3()
	if probe.t3 == nil {
		t.Fatalf("HTTP/3 not available on this toolchain: no tests to run")
	}
	peer := newC07H3Peer(t)
	defer peer.closeAll()
	base := "https://" + peer.ln.Addr().String()
	dir := t.TempDir()
	clients := make([]*Client, len(opts))
	mk := func(i int) {
		if old := clients[i]; old != nil {
			old.GetTransport().CloseIdleConnections()
			old.DisableDumpAll()
			if old.t3 != nil {
				old.t3.Close() // releases the client's UDP socket (a per-client resource, not a per-request one)
			}
		}
		c := C().SetTimeout(10 * time.Second).EnableForceHTTP3().EnableInsecureSkipVerify().SetLogger(nil)
		opts[i].setup(c)
		clients[i] = c
	}
	for i := range opts {
		mk(i)
	}
	g0 := runtime.NumGoroutine()
	wedges := 0
	n := verifh.N(250, 8000)
	for i := 0; i < n; i++ {
		var sc c07H3Script
		var tags []string
		c07Gen(t, "h3hostile exchange", func() { sc, tags = c07H3Gen(s) })
		oi := c07Intn(s.Rand(), len(opts))
		path := "/" + strconv.Itoa(i)
		peer.set(path, sc)
		fresh := s.Rand().Intn(3) == 0
		if fresh {
			// a new connection, so that the generated control-stream behaviour applies
			peer.mu.Lock()
			peer.next = &sc
			peer.mu.Unlock()
			mk(oi)
			tags = append(tags, "fresh-conn")
		}
		ch := make(chan [2]string, 1)
		start := make(chan struct{})
		go func() {
			<-start
			kind := ""
			ptxt, panicked := verifh.Safely(func() {
				r := clients[oi].R()
				if opts[oi].req != nil {
					opts[oi].req(r, dir, i)
				}
				rp, err := r.Get(base + path)
				switch {
				case rp == nil:
					kind = "nil-response"
				case err != nil:
					kind = "error"
					if os.Getenv("VERIF_DEBUG") != "" {
						fmt.Fprintf(os.Stderr, "DBG %v | %v\n", tags, err)
					}
				default:
					kind = "response"
					if rp.Response != nil && rp.Body != nil {
						io.Copy(io.Discard, rp.Body)
						rp.Body.Close()
					}
				}
			})
			if panicked {
				ch <- [2]string{"panic", ptxt}
				return
			}
			ch <- [2]string{kind, ""}
		}()
		human := fmt.Sprintf("opt=%s tags=%v stream=%x control=%x", opts[oi].name, tags, truncate(string(sc.response), 200), sc.control)
		id := "h3hostile:" + opts[oi].name + ":" + verifh.Hex(string(sc.response)) + ":" + verifh.Hex(string(sc.control))
		s.Begin(id, human)
		close(start)
		select {
		case res := <-ch:
			s.Count(res[0])
			for _, tg := range tags {
				if !strings.HasPrefix(tg, "ce:") {
					s.Count("tag:" + tg)
				}
			}
			switch res[0] {
			case "panic":
				s.Crash(id, human, "panic in caller goroutine: "+res[1], "")
			case "nil-response":
				s.Observe(id, false, "", true, human, "call returned a nil *Response")
			default:
				s.Observe(id, true, "", len(tags) > 0, human, "")
			}
		case <-time.After(c07Watchdog(opts[oi].name)):
			s.Count("wedged")
			s.Observe(id, false, "", true, human, "call did not return within the watchdog bound (15 s per attempt) although the client timeout is 10 s per attempt")
			wedges++
			mk(oi)
		}
		peer.mu.Lock()
		delete(peer.scripts, path)
		peer.next = nil
		peer.mu.Unlock()
		if wedges >= 3 {
			break
		}
	}
	// follow-up on fresh connections with a well-behaved control stream
	for i := range clients {
		if wedges > 0 {
			break
		}
		mk(i)
		ok := false
		var err error
		for try := 0; try < 3 && !ok; try++ {
			r := clients[i].R()
			if opts[i].req != nil {
				opts[i].req(r, dir, 1<<30)
			}
			var rp *Response
			rp, err = r.Get(base + "/default")
			ok = err == nil && rp != nil && rp.StatusCode == 200
		}
		s.Observe("followup:"+opts[i].name, ok, "", true, "follow-up request on a new client "+opts[i].name, fmt.Sprintf("HTTP/3 unusable after hostile exchanges: %v", err))
	}
	for _, c := range clients {
		c.GetTransport().CloseIdleConnections()
		if c.t3 != nil {
			c.t3.Close()
		}
	}
	peer.closeAll()
	deadline := time.Now().Add(15 * time.Second)
	for runtime.NumGoroutine() > g0+10 && time.Now().Before(deadline) {
		time.Sleep(100 * time.Millisecond)
	}
	g1 := runtime.NumGoroutine()
	if g1 > g0+10 && os.Getenv("VERIF_DEBUG") != "" {
		buf := make([]byte, 1<<22)
		buf = buf[:runtime.Stack(buf, true)]
		os.WriteFile("/verif/.work/manual/goroutines.txt", buf, 0o644)
	}
	cpu := c07IdleCPU()
	s.Observe("idle-cpu", cpu < 600*time.Millisecond, "", true, "process CPU time during 1 s of idleness after the run", fmt.Sprintf("a goroutine is spinning: %v CPU in 1 s idle", cpu))
	s.Observe("goroutines", g1 <= g0+10, "", true, fmt.Sprintf("goroutines before=%d after=%d", g0, g1), fmt.Sprintf("goroutines leaked: before=%d after=%d", g0, g1))
	s.Finish()
}
