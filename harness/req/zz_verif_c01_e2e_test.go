//go:build verif

package req

import (
	"bytes"
	"crypto/sha256"
	"crypto/tls"
	"fmt"
	"io"
	"log"
	"math/rand"
	"net"
	"net/http"
	"net/http/httptest"
	"net/url"
	"os"
	"sort"
	"strings"
	"sync"
	"testing"
	"time"

	qhttp3 "github.com/quic-go/quic-go/http3"

	"github.com/imroc/req/v3/internal/verifh"
)

// ---------------------------------------------------------------- in-process origins

type c01Seen struct {
	method, ruri, host, proto string
	header                    http.Header
	body                      []byte
	bodyErr                   error
}

type c01Origin struct {
	name string // h1 | h2 | h3
	base string // scheme://127.0.0.1:port
	mu   sync.Mutex
	seen []*c01Seen
	fail int // answer 503 to this many further requests (drives the client's retry path)
	stop func()
}

func (o *c01Origin) ServeHTTP(w http.ResponseWriter, r *http.Request) {
	b, err := io.ReadAll(r.Body)
	s := &c01Seen{method: r.Method, ruri: r.RequestURI, host: r.Host, proto: r.Proto, header: r.Header.Clone(), body: b, bodyErr: err}
	if s.ruri == "" && r.URL != nil { // quic-go's server does not fill RequestURI in every version
		s.ruri = r.URL.RequestURI()
	}
	status := 200
	o.mu.Lock()
	o.seen = append(o.seen, s)
	if o.fail > 0 {
		o.fail--
		status = 503
	}
	o.mu.Unlock()
	w.Header().Set("Content-Type", "text/plain")
	w.WriteHeader(status)
	io.WriteString(w, "ok")
}

func (o *c01Origin) take() []*c01Seen {
	o.mu.Lock()
	defer o.mu.Unlock()
	s := o.seen
	o.seen = nil
	o.fail = 0
	return s
}

func (o *c01Origin) failNext(n int) {
	o.mu.Lock()
	o.fail = n
	o.mu.Unlock()
}

// c01StartOrigins starts an HTTP/1.1 (cleartext), an HTTP/2 (TLS, net/http's bundled
// golang.org/x/net/http2 server) and an HTTP/3 (quic-go http3 server on loopback UDP) origin.
func c01StartOrigins(t testing.TB) map[string]*c01Origin {
	out := map[string]*c01Origin{}
	// h1
	o1 := &c01Origin{name: "h1"}
	s1 := httptest.NewServer(o1)
	o1.base = s1.URL
	o1.stop = s1.Close
	out["h1"] = o1
	// h2
	o2 := &c01Origin{name: "h2"}
	s2 := httptest.NewUnstartedServer(o2)
	s2.EnableHTTP2 = true
	s2.StartTLS()
	o2.base = s2.URL
	o2.stop = s2.Close
	out["h2"] = o2
	// h3
	o3 := &c01Origin{name: "h3"}
	pc, err := net.ListenPacket("udp", "127.0.0.1:0")
	if err != nil {
		t.Fatalf("udp listen: %v", err)
	}
	tlsConf := qhttp3.ConfigureTLSConfig(&tls.Config{Certificates: s2.TLS.Certificates})
	s3 := &qhttp3.Server{Handler: o3, TLSConfig: tlsConf}
	go s3.Serve(pc)
	o3.base = "https://" + pc.LocalAddr().String()
	o3.stop = func() { s3.Close(); pc.Close() }
	out["h3"] = o3
	return out
}

// c01NewClient builds a client pinned to one protocol.
func c01NewClient(proto string, compression, keepAlive bool) *Client {
	c := C().EnableInsecureSkipVerify()
	c.SetTimeout(20 * time.Second)
	switch proto {
	case "h1":
		c.EnableForceHTTP1()
	case "h2":
		c.EnableForceHTTP2()
	case "h3":
		c.EnableForceHTTP3()
		if c.Transport.t3 != nil {
			// the fork's HTTP/3 round tripper reads its own TLS field (C12); set both
			c.Transport.t3.TLSClientConfig = &tls.Config{InsecureSkipVerify: true}
		}
	}
	if !compression {
		c.DisableCompression()
	}
	if !keepAlive {
		c.DisableKeepAlives()
	}
	c.httpClient.Jar = nil
	return c
}

// ---------------------------------------------------------------- e2e request specs

type c01E2ECase struct {
	method     string
	path       string // template, starts with "/"
	rPath      map[string]string
	cPath      map[string]string
	rQuery     url.Values
	cQuery     url.Values
	cHdr, rHdr http.Header
	nonCanon   map[string]string // via SetHeaderNonCanonical
	cCk, rCk   []*http.Cookie
	hostHdr    string
	bodyKind   string
	readSizes  []int  // body kind "reader": the read script of the shared reader-behaviour generator
	readEnding string // "eof" (0, io.EOF) after the last bytes / "eofl" the last bytes together with io.EOF
	body       []byte
	order      []string
	pseudo     []string
	useBase    bool
	retries    int // the origin answers 503 to the first `retries` attempts; the same *Request is retried
	// round 6 — multi-line Cookie: field lines given through SetHeader + Headers.Add ("Cookie"),
	// through SetHeaderNonCanonical("cookie", …) called once per line (it appends) and at client
	// level (c.Headers["Cookie"]), alone and together with cookie objects (SetCookies / c.Cookies)
	ncCookie []string
	// round 6 — edit between attempts: what a retry hook changes on the SAME *Request before the
	// next attempt (nil = nothing); the case after the edits is `edited`
	edit   string
	edited *c01E2ECase
}

var c01E2EHdrNames = []string{"User-Agent", "Accept", "X-A", "X-B", "X-C", "X-Long-Header-Name", "Content-Type", "Authorization", "Referer", "Origin", "Accept-Language", "Cache-Control", "Pragma",
	"If-None-Match", "X-Forwarded-For", "X_y", "X.y", "A", "Z", "Sec-Ch-Ua", "X-1", "X-2", "X-3", "Idempotency-Key"}

var c01E2EHdrValues = []string{"v", "value", "a, b", "  lead", "trail  ", "\tt\t", "x y z", "ü", "日本", "\xff", "text/html; q=0.9", "\"q\"", "semi;colon", "a\tb", strings.Repeat("v", 300), "", "a=b&c=d", "{}", "%41"}

func c01GenE2E(r *rand.Rand) *c01E2ECase {
	tc := &c01E2ECase{}
	tc.method = verifh.Pick(r, []string{"GET", "GET", "POST", "POST", "PUT", "PATCH", "DELETE", "HEAD", "OPTIONS", "QUERY", "M-SEARCH", "get", "X!#$%&'*+-.^_`|~1", "TRACE"})
	keys := []string{"id", "name", "a b", "x.y", "ü", "k1"}
	tc.rPath = c01RandPMap(r, 3, keys)
	tc.cPath = c01RandPMap(r, 2, keys)
	var filled []string
	for k := range tc.rPath {
		filled = append(filled, k)
	}
	for k := range tc.cPath {
		filled = append(filled, k)
	}
	sort.Strings(filled)
	var p strings.Builder
	nseg := 1 + r.Intn(4)
	for i := 0; i < nseg; i++ {
		p.WriteByte('/')
		if len(filled) > 0 && r.Intn(2) == 0 {
			p.WriteString("{" + verifh.Pick(r, filled) + "}")
		} else {
			p.WriteString(verifh.Pick(r, []string{"a", "api", "v1", "x.y", "a%2Fb", "a%20b", "a;b", "a:b", "a@b", "~", "a+b", "ü", "a b"}))
		}
	}
	tc.path = p.String()
	if r.Intn(4) == 0 {
		tc.path += "?" + verifh.Pick(r, []string{"x=1", "x=1&y=2", "flag", "a=1&a=2", "x=%20"})
	}
	tc.rQuery = c01RandQMap(r, 3)
	tc.cQuery = c01RandQMap(r, 2)
	hdr := func(max int) http.Header {
		h := http.Header{}
		for i, n := 0, r.Intn(max+1); i < n; i++ {
			k := verifh.Pick(r, c01E2EHdrNames)
			nv := 1
			if r.Intn(6) == 0 {
				nv = 2 + r.Intn(3) // several field lines of one key
			}
			var vs []string
			for j := 0; j < nv; j++ {
				vs = append(vs, verifh.Pick(r, c01E2EHdrValues))
			}
			h[k] = vs
		}
		return h
	}
	nh := 6
	switch r.Intn(8) {
	case 0:
		nh = 0
	case 1:
		nh = 60
	}
	tc.rHdr = hdr(nh)
	if nh == 60 {
		for i := 0; i < 30+r.Intn(30); i++ {
			tc.rHdr[fmt.Sprintf("X-Gen-%d", i)] = []string{fmt.Sprintf("v%d", i)}
		}
	}
	tc.cHdr = hdr(3)
	if r.Intn(10) == 0 {
		// round 7 — header-block size class: one field value of poorly compressible text around and
		// beyond the 16 KiB HTTP/2 frame (the header block then travels as HEADERS + CONTINUATION
		// frames; END_STREAM of a body-less request rides on the HEADERS frame), well below every
		// origin's 1 MiB header limit
		n := verifh.Pick(r, []int{16000, 16384, 17000, 20000, 33000, 50000}) + r.Intn(3) - 1
		b := make([]byte, n)
		for i := range b {
			b[i] = "XZ~|^{}<>#$&*?!"[r.Intn(15)]
		}
		tc.rHdr["X-Huge"] = []string{string(b)}
	}
	if r.Intn(4) == 0 {
		tc.nonCanon = map[string]string{verifh.Pick(r, []string{"x-lower", "X-mIxEd", "x_nc", "lowercase-only"}): verifh.Pick(r, c01E2EHdrValues)}
	}
	ck := func(max int) []*http.Cookie {
		var out []*http.Cookie
		for i, n := 0, r.Intn(max+1); i < n; i++ {
			out = append(out, &http.Cookie{Name: verifh.Pick(r, []string{"sid", "a", "b", "theme", "SID"}),
				Value: verifh.Pick(r, []string{"1", "abc", "", "a b", "a,b", "a;b", "\"q\"", "ü", "x\r\nSet-Cookie: evil=1", "v=1", "a%20b"})})
		}
		return out
	}
	tc.cCk, tc.rCk = ck(2), ck(3)
	// Cookie given as field lines: at request level (SetHeader + Headers.Add), under the
	// non-canonical spelling (appending setter), at client level; with or without cookie objects
	if r.Intn(4) == 0 {
		switch r.Intn(6) {
		case 0, 1, 2:
			tc.rHdr["Cookie"] = verifh.C01GenLines(r, "Cookie", nil)
		case 3:
			tc.ncCookie = verifh.C01GenLines(r, "cookie", nil)
		case 4:
			tc.cHdr["Cookie"] = verifh.C01GenLines(r, "Cookie", nil)
		default:
			tc.rHdr["Cookie"] = verifh.C01GenLines(r, "Cookie", nil)
			tc.ncCookie = verifh.C01GenLines(r, "cookie", nil)
		}
		if r.Intn(2) == 0 {
			tc.cCk, tc.rCk = nil, nil // lines alone: nothing folds them on the way
		}
	}
	if r.Intn(5) == 0 {
		tc.hostHdr = verifh.Pick(r, []string{"virtual.example", "virtual.example:8443", "UPPER.example"})
	}
	switch r.Intn(8) {
	case 0, 1:
		tc.bodyKind = "none"
	case 2:
		tc.bodyKind = "string"
	case 3, 4:
		tc.bodyKind = "reader"
	case 5:
		tc.bodyKind = "func"
	default:
		tc.bodyKind = "bytes"
	}
	if tc.bodyKind != "none" {
		n := verifh.Pick(r, c01BodySizes)
		if r.Intn(3) == 0 {
			n = r.Intn(300)
		}
		tc.body = c01GenBody(n, 1+r.Intn(250), r.Intn(251))
	}
	if tc.bodyKind == "reader" {
		// honest behaviours of the ONE reader-script generator of the body lanes: scripted read
		// sizes incl. zero-length reads, EOF alone or together with the last bytes
		sc := verifh.C01GenReaderScript(r, []int{0}, 1, []int{512, 1000, 4095, 4096, 4097, 8192, 16384, 32768, 40000})
		tc.readSizes = sc.Sizes
		tc.readEnding = verifh.Pick(r, []string{"eof", "eofl"})
	}
	if tc.bodyKind == "bytes" || tc.bodyKind == "string" {
		// an in-memory body without Content-Type gets a sniffed one (C17): always name one here
		if tc.rHdr.Get("Content-Type") == "" && tc.cHdr.Get("Content-Type") == "" {
			tc.rHdr["Content-Type"] = []string{"application/octet-stream"}
		}
	}
	if r.Intn(3) == 0 {
		all := http.Header{}
		for k, v := range tc.rHdr {
			all[k] = v
		}
		tc.order = c01RandOrder(r, all)
	}
	if r.Intn(3) == 0 {
		tc.pseudo = verifh.C01RandPseudoOrder(r)
		for i := range tc.pseudo {
			tc.pseudo[i] = strings.ToLower(tc.pseudo[i]) // other-case lists: known finding C16-2, covered by the field lanes
		}
	}
	tc.useBase = r.Intn(2) == 0
	if r.Intn(4) == 0 && tc.bodyKind != "reader" {
		tc.retries = 1 + r.Intn(2)
	}
	if tc.retries > 0 && r.Intn(2) == 0 {
		c01GenE2EEdit(r, tc)
	}
	return tc
}

// c01GenE2EEdit (round 6): the description of the SAME *Request is changed by a retry hook before
// the second attempt — one field family at a time or several: path parameter values (request /
// client level), query parameters, a header, a cookie, the body, the URL template. Every later
// attempt must be the request the CURRENT description stands for.
func c01GenE2EEdit(r *rand.Rand, tc *c01E2ECase) {
	e := *tc
	e.edit, e.edited = "", nil
	fams := []string{"rpath", "cpath", "query", "header", "cookie", "body", "url"}
	var picked []string
	for i, n := 0, 1+r.Intn(2); i < n; i++ {
		if f := verifh.Pick(r, fams); len(picked) == 0 || picked[0] != f {
			picked = append(picked, f)
		}
	}
	has := func(f string) bool {
		for _, p := range picked {
			if p == f {
				return true
			}
		}
		return false
	}
	cp := func(m map[string]string) map[string]string {
		out := map[string]string{}
		for k, v := range m {
			out[k] = v
		}
		return out
	}
	if has("rpath") {
		if len(tc.rPath) == 0 {
			picked = append(picked, "query")
		} else {
			e.rPath = cp(tc.rPath)
			for k := range e.rPath {
				e.rPath[k] = c01RandValue(r)
			}
		}
	}
	if has("cpath") {
		if len(tc.cPath) == 0 {
			picked = append(picked, "header")
		} else {
			e.cPath = cp(tc.cPath)
			for k := range e.cPath {
				e.cPath[k] = c01RandValue(r)
			}
		}
	}
	if has("query") {
		e.rQuery = url.Values{}
		for k, vs := range tc.rQuery {
			e.rQuery[k] = vs
		}
		k := verifh.Pick(r, []string{"a", "b", "edited", "page"})
		for ek := range tc.rQuery {
			if r.Intn(2) == 0 {
				k = ek
			}
			break
		}
		e.rQuery[k] = []string{c01RandValue(r)}
	}
	if has("header") {
		e.rHdr = tc.rHdr.Clone()
		k := verifh.Pick(r, []string{"X-Edit", "X-A", "X-1", "Accept"})
		e.rHdr[k] = []string{verifh.Pick(r, []string{"edited", "second try", "v2"})}
	}
	if has("cookie") {
		// SetCookies appends to Request.Cookies, which by then holds request + client cookies
		e.cCk = append(append([]*http.Cookie(nil), tc.cCk...), &http.Cookie{Name: "edit", Value: verifh.Pick(r, []string{"e1", "e2"})})
	}
	if has("body") {
		if tc.bodyKind == "none" {
			if !has("header") {
				picked = append(picked, "header")
				e.rHdr = tc.rHdr.Clone()
				e.rHdr["X-Edit"] = []string{"edited"}
			}
		} else {
			// an in-memory body without Content-Type gets a sniffed one (C17): name one in both descriptions
			if tc.rHdr.Get("Content-Type") == "" && tc.cHdr.Get("Content-Type") == "" {
				tc.rHdr["Content-Type"] = []string{"application/octet-stream"}
				if e.rHdr != nil {
					e.rHdr["Content-Type"] = []string{"application/octet-stream"}
				}
			}
			e.bodyKind = "bytes"
			e.body = c01GenBody(verifh.Pick(r, []int{0, 1, 100, 4097, 16385}), 1+r.Intn(250), r.Intn(251))
		}
	}
	if has("url") {
		e.path = "/edited" + tc.path
	}
	sort.Strings(picked)
	e.edit = strings.Join(picked, "+")
	tc.edit, tc.edited = e.edit, &e
}

var c01ViewDrop = map[string]bool{"host": true, "content-length": true, "transfer-encoding": true, "connection": true, "keep-alive": true, "proxy-connection": true,
	"upgrade": true, "te": true, "trailer": true}

// c01View canonicalises what an origin handler saw: lower-cased names, values without
// surrounding white space, cookie crumbs normalised, connection-specific fields dropped.
func c01View(s *c01Seen, callerSetAE bool) string {
	var lines []string
	for k, vs := range s.header {
		lk := strings.ToLower(k)
		if c01ViewDrop[lk] {
			continue
		}
		if lk == "accept-encoding" && !callerSetAE {
			continue
		}
		if lk == "cookie" {
			var crumbs []string
			for _, v := range vs {
				for _, c := range strings.Split(v, ";") {
					c = strings.Trim(c, " \t")
					if c != "" {
						crumbs = append(crumbs, c)
					}
				}
			}
			lines = append(lines, "cookie: "+strings.Join(crumbs, "; "))
			continue
		}
		for _, v := range vs {
			lines = append(lines, lk+": "+strings.Trim(v, " \t"))
		}
	}
	c01AbbrevLines(lines)
	sort.Strings(lines)
	return fmt.Sprintf("%s %s\n%s\nbody %s", s.method, s.ruri, strings.Join(lines, "\n"), c01Blob(s.body))
}

// c01Expected is the oracle's own reading of the API calls (independent of the library): the
// view every origin must report.
func c01Expected(tc *c01E2ECase) (method, ruri string, lines []string, body []byte, ok bool) {
	method = tc.method
	// path
	p := tc.path
	q := ""
	if i := strings.IndexByte(p, '?'); i >= 0 {
		p, q = p[:i], p[i+1:]
	}
	val := func(k string) (string, bool) {
		if v, ok := tc.rPath[k]; ok {
			return v, true
		}
		v, ok := tc.cPath[k]
		return v, ok
	}
	var segs []string
	for _, seg := range strings.Split(p, "/")[1:] {
		if strings.HasPrefix(seg, "{") && strings.HasSuffix(seg, "}") {
			if v, ok := val(seg[1 : len(seg)-1]); ok {
				segs = append(segs, url.PathEscape(v))
				continue
			}
		}
		// literal segment: as written, except bytes that must be escaped
		u := &url.URL{Path: "/" + seg}
		if un, err := url.PathUnescape(seg); err == nil {
			u = &url.URL{Path: "/" + un, RawPath: "/" + c01EscapeInvalid(seg)}
		}
		segs = append(segs, strings.TrimPrefix(u.EscapedPath(), "/"))
	}
	ruri = "/" + strings.Join(segs, "/")
	merged := url.Values{}
	for k, vs := range tc.cQuery {
		merged[k] = vs
	}
	for k, vs := range tc.rQuery {
		merged[k] = vs
	}
	enc := merged.Encode()
	switch {
	case q != "" && enc != "":
		ruri += "?" + q + "&" + enc
	case q != "":
		ruri += "?" + q
	case enc != "":
		ruri += "?" + enc
	}
	// headers
	hdr := http.Header{}
	for k, vs := range tc.cHdr {
		hdr[k] = vs
	}
	for k, vs := range tc.rHdr {
		if len(vs) > 0 {
			hdr[k] = vs
		}
	}
	for k, v := range tc.nonCanon {
		hdr[k] = append(hdr[k], v)
	}
	// Cookie field lines (either spelling) and cookie objects together are ONE cookie-string
	var crumbs []string
	crumbs = append(crumbs, verifh.C01Crumbs(hdr["Cookie"])...)
	crumbs = append(crumbs, verifh.C01Crumbs(tc.ncCookie)...)
	delete(hdr, "Cookie")
	for k, vs := range hdr {
		lk := strings.ToLower(k)
		if lk == "user-agent" {
			// at most one User-Agent: the first value, none when blank
			if k == "User-Agent" && len(vs) > 0 && vs[0] != "" {
				lines = append(lines, lk+": "+strings.Trim(vs[0], " \t"))
			}
			continue
		}
		for _, v := range vs {
			lines = append(lines, lk+": "+strings.Trim(v, " \t"))
		}
	}
	if _, ok := hdr["User-Agent"]; !ok {
		lines = append(lines, "user-agent: req/v3 (https://github.com/imroc/req)")
	}
	for _, c := range append(append([]*http.Cookie(nil), tc.rCk...), tc.cCk...) {
		v := c.Value
		var b strings.Builder
		for i := 0; i < len(v); i++ {
			if ch := v[i]; 0x20 <= ch && ch < 0x7f && ch != '"' && ch != ';' && ch != '\\' {
				b.WriteByte(ch)
			}
		}
		v = b.String()
		if strings.ContainsAny(v, " ,") {
			v = `"` + v + `"`
		}
		crumbs = append(crumbs, c.Name+"="+v)
	}
	if len(crumbs) > 0 {
		if len(tc.ncCookie) > 0 {
			// two keys ("Cookie", "cookie") of a Go map: their relative order on the wire is not
			// described by the calls — the cookie-pairs are compared as a multiset (c01SortCookies)
			sort.Strings(crumbs)
		}
		lines = append(lines, "cookie: "+strings.Join(crumbs, "; "))
	}
	c01AbbrevLines(lines)
	sort.Strings(lines)
	body = tc.body
	if tc.method == "HEAD" || tc.method == "OPTIONS" || tc.bodyKind == "none" {
		body = nil
	}
	return method, ruri, lines, body, true
}

// c01AbbrevLines shows a field line longer than 1 KiB (the header-block size class) as its first
// 48 bytes + length + SHA-256, on both sides of the comparison: exact, and keeps the evidence small.
func c01AbbrevLines(lines []string) {
	for i, l := range lines {
		if len(l) > 1024 {
			lines[i] = fmt.Sprintf("%s…[%d bytes, sha256 %x]", l[:48], len(l), sha256.Sum256([]byte(l)))
		}
	}
}

// c01SortCookies sorts the cookie-pairs of the view's "cookie: " line (multiset comparison).
func c01SortCookies(view string) string {
	ls := strings.Split(view, "\n")
	for i, l := range ls {
		if strings.HasPrefix(l, "cookie: ") {
			cs := strings.Split(strings.TrimPrefix(l, "cookie: "), "; ")
			sort.Strings(cs)
			ls[i] = "cookie: " + strings.Join(cs, "; ")
		}
	}
	return strings.Join(ls, "\n")
}

// c01CookieLinesFoldedClass: the input class of finding C01-4 — the Request carries SEVERAL field
// lines under the key "Cookie" (its own, or the client's filled in) AND at least one cookie object:
// http.Request.AddCookie rewrites the field from its FIRST line only.
func c01CookieLinesFoldedClass(tc *c01E2ECase) bool {
	lines := tc.rHdr["Cookie"]
	if len(lines) == 0 {
		lines = tc.cHdr["Cookie"]
	}
	return len(lines) > 1 && len(tc.rCk)+len(tc.cCk) > 0
}

func c01EscapeInvalid(seg string) string {
	var b strings.Builder
	for i := 0; i < len(seg); i++ {
		c := seg[i]
		if c >= 'a' && c <= 'z' || c >= 'A' && c <= 'Z' || c >= '0' && c <= '9' || strings.IndexByte("-_.~$&+,/:;=@!'()*[]%", c) >= 0 {
			b.WriteByte(c)
		} else {
			fmt.Fprintf(&b, "%%%02X", c)
		}
	}
	return b.String()
}

func c01FireE2E(c *Client, o *c01Origin, tc *c01E2ECase) error {
	c.Headers = tc.cHdr.Clone()
	c.Cookies = tc.cCk
	c.PathParams = tc.cPath
	c.QueryParams = tc.cQuery
	c.BaseURL = ""
	target := o.base + tc.path
	if tc.useBase {
		c.SetBaseURL(o.base + "/")
		target = tc.path
	}
	r := c.R()
	for k, vs := range tc.rHdr {
		for i, v := range vs {
			if i == 0 {
				r.SetHeader(k, v)
			} else {
				r.Headers.Add(k, v)
			}
		}
	}
	for k, v := range tc.nonCanon {
		r.SetHeaderNonCanonical(k, v)
	}
	for _, l := range tc.ncCookie {
		r.SetHeaderNonCanonical("cookie", l)
	}
	if tc.hostHdr != "" {
		r.SetHeader("Host", tc.hostHdr)
	}
	r.SetCookies(tc.rCk...)
	r.SetPathParams(tc.rPath)
	for k, vs := range tc.rQuery {
		r.AddQueryParams(k, vs...)
	}
	if len(tc.order) > 0 {
		r.SetHeaderOrder(tc.order...)
	}
	if len(tc.pseudo) > 0 {
		r.SetPseudoHeaderOrder(tc.pseudo...)
	}
	switch tc.bodyKind {
	case "bytes":
		r.SetBodyBytes(tc.body)
	case "string":
		r.SetBodyString(string(tc.body))
	case "reader":
		r.SetBody(&verifh.C01BodyReader{Data: append([]byte(nil), tc.body...), Sizes: tc.readSizes, Ending: tc.readEnding})
	case "func":
		b := tc.body
		r.SetBody(func() (io.ReadCloser, error) { return io.NopCloser(bytes.NewReader(b)), nil })
	}
	if tc.retries > 0 {
		o.failNext(tc.retries)
		r.SetRetryCount(tc.retries).
			SetRetryInterval(func(*Response, int) time.Duration { return 0 }).
			SetRetryCondition(func(resp *Response, err error) bool { return err == nil && resp != nil && resp.StatusCode == 503 })
		if e := tc.edited; e != nil {
			done := false
			r.SetRetryHook(func(resp *Response, _ error) {
				if done {
					return
				}
				done = true
				q := resp.Request
				for _, f := range strings.Split(e.edit, "+") {
					switch f {
					case "rpath":
						q.SetPathParams(e.rPath)
					case "cpath":
						c.PathParams = e.cPath
					case "query":
						for k, vs := range e.rQuery {
							if len(vs) == 1 && (len(tc.rQuery[k]) != 1 || tc.rQuery[k][0] != vs[0]) {
								q.SetQueryParam(k, vs[0])
							}
						}
					case "header":
						for k, vs := range e.rHdr {
							if len(vs) == 1 && (len(tc.rHdr[k]) != 1 || tc.rHdr[k][0] != vs[0]) {
								q.SetHeader(k, vs[0])
							}
						}
					case "cookie":
						q.SetCookies(e.cCk[len(e.cCk)-1])
					case "body":
						if e.bodyKind == "bytes" && tc.bodyKind != "none" {
							q.SetBodyBytes(e.body)
						}
					case "url":
						if tc.useBase {
							q.SetURL(e.path)
						} else {
							q.SetURL(o.base + e.path)
						}
					}
				}
			})
		}
	}
	_, err := r.Send(tc.method, target)
	return err
}

func c01ReadDesc(tc *c01E2ECase) string {
	if tc.bodyKind != "reader" {
		return ""
	}
	return fmt.Sprintf("(reads=%v,%s)", tc.readSizes, tc.readEnding)
}

// TestVerif_C01_e2e: the same request specs fired through the public API at in-process origins
// over HTTP/1.1, HTTP/2 and HTTP/3; every origin must see exactly the method, request target,
// header values, cookies and body the calls describe, and the three must agree.
func TestVerif_C01_e2e(t *testing.T) {
	s := c01New(t, "C01", "e2e",
		"request specs through the public API (methods incl. extension tokens; 1..4 path segments literal or {param}; request/client path maps with reserved, CR/LF, non-ASCII values; request/client query maps with overlapping, empty and reserved keys; 0..6 (sometimes 30..60) request headers + 0..3 client headers, values with OWS / non-ASCII / 300 bytes; non-canonical names; 0..3+0..2 cookies; Host override; body none/bytes/string/scripted reader/GetBody func with sizes 0,1,4 KiB±1,16 KiB±1,32 KiB±1,64 KiB±1 (1 MiB in the thorough tier); header order and pseudo-header order lists) x {HTTP/1.1, HTTP/2, HTTP/3} x {compression on/off} x {keep-alive on/off}; a quarter of the requests is retried once or twice through the same *Request (the origin answers 503 first): every attempt must show the same view; oracle: each origin's view = the view computed from the spec, hence equal across protocols; non-trivial = all three origins saw the request")
	log.SetOutput(io.Discard) // net/http logs every sanitised cookie byte
	defer log.SetOutput(os.Stderr)
	origins := c01StartOrigins(t)
	defer func() {
		for _, o := range origins {
			o.stop()
		}
	}()
	clients := map[string]*Client{}
	for _, p := range []string{"h1", "h2", "h3"} {
		for _, comp := range []bool{true, false} {
			for _, ka := range []bool{true, false} {
				clients[fmt.Sprintf("%s/%v/%v", p, comp, ka)] = c01NewClient(p, comp, ka)
			}
		}
	}
	r := s.Rand()
	n := verifh.N(800, 6000)
	failures := 0
	for i := 0; i < n; i++ {
		if failures >= 8 {
			// the run is already a violation with eight failing inputs on record: a defect that
			// makes every affected request run into the client's time-out (an HTTP/2 PROTOCOL_ERROR
			// is retried with back-off for a minute) must not keep the lane busy for an hour
			t.Logf("e2e: stopping after %d failing cases (case %d of %d)", failures, i, n)
			break
		}
		tc := c01GenE2E(r)
		if verifh.Thorough() && i%200 == 0 && tc.bodyKind != "none" {
			tc.body = c01GenBody(1<<20+r.Intn(3)-1, 7, 3)
			if tc.edited != nil && !strings.Contains(tc.edit, "body") {
				tc.edited.body = tc.body // the retry hook leaves the body alone: the edited description carries the same one
			}
		}
		comp, ka := r.Intn(2) == 0, r.Intn(3) != 0
		method, ruri, lines, body, _ := c01Expected(tc)
		if pathPart, rest, _ := strings.Cut(ruri, "?"); tc.useBase && pathPart == "//" {
			// "//" alone (every segment empty) parses as an empty authority with an empty path and
			// url.URL.String() renders that as "": the two empty segments collapse to "/"
			ruri = "/"
			if rest != "" {
				ruri += "?" + rest
			}
			s.Count("empty-segments-collapsed")
		}
		want := fmt.Sprintf("%s %s\n%s\nbody %s", method, ruri, strings.Join(lines, "\n"), c01Blob(body))
		_, callerAE := func() (string, bool) {
			for _, h := range []http.Header{tc.cHdr, tc.rHdr} {
				for k := range h {
					if strings.EqualFold(k, "accept-encoding") {
						return "", true
					}
				}
			}
			return "", false
		}()
		human := fmt.Sprintf("retries=%d edit=%q cookie-lines=%q/%q/%q ", tc.retries, tc.edit, tc.rHdr["Cookie"], tc.ncCookie, tc.cHdr["Cookie"]) + fmt.Sprintf("%q %q rpath=%q cpath=%q rq=%q cq=%q rhdr=%d chdr=%q nc=%q ck=%s/%s host=%q body=%s/%d order=%q pseudo=%q base=%v comp=%v ka=%v",
			tc.method, tc.path, tc.rPath, tc.cPath, tc.rQuery, tc.cQuery, len(tc.rHdr), tc.cHdr, tc.nonCanon, c01Cookies(tc.rCk), c01Cookies(tc.cCk), tc.hostHdr, tc.bodyKind+c01ReadDesc(tc), len(tc.body), tc.order, tc.pseudo, tc.useBase, comp, ka)
		editedMayFail := false
		if tc.edited != nil && tc.useBase {
			_, eruri, _, _, _ := c01Expected(tc.edited)
			editedMayFail = strings.HasPrefix(eruri, "//")
		}
		views := map[string]string{}
		allSeen := true
		class := ""
		for _, p := range []string{"h1", "h2", "h3"} {
			o := origins[p]
			o.take()
			err := c01FireE2E(clients[fmt.Sprintf("%s/%v/%v", p, comp, ka)], o, tc)
			seen := o.take()
			s.Count(p + ":fired")
			if len(seen) != 1+tc.retries {
				if editedMayFail && len(seen) == 1 && err != nil {
					// the EDITED description is a relative URL whose first path parameter is empty
					// ("//…": url.Parse takes what follows for an authority and may reject it): the
					// call fails at the edited attempt, nothing of it reaches the wire — the first
					// attempt is judged alone
					s.Count("err-empty-first-segment-after-edit")
				} else {
					allSeen = false
					views[p] = fmt.Sprintf("<%d requests seen, err=%v>", len(seen), err)
					continue
				}
			}
			// every retried attempt must be the very request the first attempt was — or, when a
			// retry hook changed the description in between, the request the CURRENT description
			// stands for (oracle view of the edited spec)
			retryDiff := ""
			for k := 1; k < len(seen); k++ {
				s.Count("retried-attempt")
				a, b := c01View(seen[k], callerAE), c01View(seen[0], callerAE)
				what := "differs from attempt 1"
				if tc.edited != nil {
					s.Count("edited-attempt")
					for _, f := range strings.Split(tc.edit, "+") {
						s.Count("edit:" + f)
					}
					em, eruri, elines, ebody, _ := c01Expected(tc.edited)
					if pathPart, rest, _ := strings.Cut(eruri, "?"); tc.useBase && pathPart == "//" {
						// "//" alone collapses to "/" (see below: empty-segments-collapsed)
						eruri = "/"
						if rest != "" {
							eruri += "?" + rest
						}
					}
					b = fmt.Sprintf("%s %s\n%s\nbody %s", em, eruri, strings.Join(elines, "\n"), c01Blob(ebody))
					what = "is not the request described after the retry hook's edit (" + tc.edit + "); described:\n" + b + "\narrived:"
				}
				if len(tc.ncCookie) > 0 {
					a, b = c01SortCookies(a), c01SortCookies(b)
				}
				if a != b || seen[k].host != seen[0].host {
					retryDiff = fmt.Sprintf("\nATTEMPT %d %s\n%s", k+1, what, a)
				}
			}
			wantHost := tc.hostHdr
			if wantHost == "" {
				wantHost = strings.TrimPrefix(strings.TrimPrefix(o.base, "https://"), "http://")
			}
			// the Lean model's request target for this spec vs what this origin observed
			mRaw, mBase := o.base+tc.path, ""
			if tc.useBase {
				mRaw, mBase = tc.path, o.base
			}
			mClass := ""
			if c01E2ERawPathClass(tc) {
				mClass = "rawpath-dropped"
			}
			s.Case("c01ruri "+verifh.Hex(mRaw)+" "+c01PMap(tc.rPath)+" "+c01PMap(tc.cPath)+" _ "+verifh.Hex(mBase)+" "+c01QMap(tc.cQuery)+" "+c01QMap(tc.rQuery),
				"ruri="+verifh.Hex(seen[0].ruri), true, mClass, false, p+" "+human)
			if tc.edited != nil && len(seen) > 1 {
				eRaw, eClass := o.base+tc.edited.path, ""
				if tc.useBase {
					eRaw = tc.edited.path
				}
				if c01E2ERawPathClass(tc.edited) {
					eClass = "rawpath-dropped"
				}
				s.Case("c01ruri "+verifh.Hex(eRaw)+" "+c01PMap(tc.edited.rPath)+" "+c01PMap(tc.edited.cPath)+" _ "+verifh.Hex(mBase)+" "+c01QMap(tc.edited.cQuery)+" "+c01QMap(tc.edited.rQuery),
					"ruri="+verifh.Hex(seen[1].ruri), true, eClass, false, p+" attempt 2 after edit "+tc.edit+" "+human)
			}
			v := c01View(seen[0], callerAE)
			if len(tc.ncCookie) > 0 {
				v = c01SortCookies(v)
			}
			if seen[0].host != wantHost {
				v += "\nHOST " + seen[0].host + " want " + wantHost
			}
			views[p] = v + retryDiff
		}
		ok := allSeen
		detail := ""
		// a relative URL whose first path parameter is empty reads "//…": url.Parse takes what
		// follows for an authority and may reject it — the call fails on every protocol
		if tc.useBase && strings.HasPrefix(ruri, "//") && !allSeen &&
			strings.HasPrefix(views["h1"], "<0 requests") && strings.HasPrefix(views["h2"], "<0 requests") && strings.HasPrefix(views["h3"], "<0 requests") {
			s.Count("err-empty-first-segment")
			s.Observe(fmt.Sprintf("e2e-%d", i), true, "", false, human, "")
			continue
		}
		for _, p := range []string{"h1", "h2", "h3"} {
			if views[p] != want {
				ok = false
				detail += fmt.Sprintf("\n--- %s saw:\n%s", p, views[p])
			}
		}
		if !ok {
			detail = "--- expected:\n" + want + detail
			// known finding C01-1: literal segment with a byte that needs escaping + an escaped parameter
			if c01E2ERawPathClass(tc) || (tc.edited != nil && c01E2ERawPathClass(tc.edited)) {
				class = "rawpath-dropped"
			}
			// known finding C01-4: several "Cookie" field lines + cookie objects
			if c01CookieLinesFoldedClass(tc) || (tc.edited != nil && c01CookieLinesFoldedClass(tc.edited)) {
				class = "cookie-lines-folded"
			}
		}
		if len(tc.rHdr["Cookie"]) > 1 || len(tc.cHdr["Cookie"]) > 1 || len(tc.ncCookie) > 1 {
			s.Count("cookie-lines")
			if len(tc.rCk)+len(tc.cCk) > 0 {
				s.Count("cookie-lines+objects")
			}
		}
		if len(tc.body) >= 4095 {
			s.Count("body>=4K")
		}
		if len(tc.order) > 0 {
			s.Count("header-order")
		}
		if len(tc.rHdr["X-Huge"]) > 0 {
			s.Count("header-block>16K")
			if body == nil {
				s.Count("header-block>16K:bodyless")
			}
		}
		if !ok && class == "" {
			failures++
		}
		s.Observe(fmt.Sprintf("e2e-%d", i), ok, class, allSeen, human, detail)
	}
	s.Need(t, "h1:fired", "h2:fired", "h3:fired", "body>=4K", "header-order", "retried-attempt", "edited-attempt", "edit:rpath", "edit:cpath", "edit:query", "edit:header", "edit:cookie", "edit:body", "edit:url", "cookie-lines", "cookie-lines+objects", "header-block>16K", "header-block>16K:bodyless")
	s.Finish()
}

// c01E2ERawPathClass: the input class of known finding C01-1 in e2e form — the substituted
// template holds an escape (%XX) and a byte net/url refuses in RawPath.
func c01E2ERawPathClass(tc *c01E2ECase) bool {
	p := tc.path
	if i := strings.IndexByte(p, '?'); i >= 0 {
		p = p[:i]
	}
	for _, m := range []map[string]string{tc.rPath, tc.cPath} {
		keys := make([]string, 0, len(m))
		for k := range m {
			keys = append(keys, k)
		}
		sort.Strings(keys)
		for _, k := range keys {
			p = strings.Replace(p, "{"+k+"}", url.PathEscape(m[k]), -1)
		}
	}
	u, err := url.Parse("http://h" + p)
	return err == nil && c01Dropped(u)
}
