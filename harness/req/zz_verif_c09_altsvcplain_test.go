//go:build verif

package req

import (
	"crypto/tls"
	"fmt"
	"os"
	"os/exec"
	"strconv"
	"strings"
	"testing"
	"time"

	"github.com/imroc/req/v3/internal/verifh"
)

// TestVerif_C09_child_altsvcplain is the body of the child process of lane `altsvcplain`; in
// a normal run (VERIF_C09_CHILD unset) it does nothing.
func TestVerif_C09_child_altsvcplain(t *testing.T) {
	if os.Getenv("VERIF_C09_CHILD") != "altsvcplain" {
		return
	}
	rec := newC09Rec()
	h3o, err := newC09H3Origin(rec)
	if err != nil {
		t.Fatalf("h3 origin: %v", err)
	}
	defer h3o.stop()
	o, err := newC09H1Origin(rec, 1, fmt.Sprintf(`h3=":%d"; ma=3600`, h3o.port()), 0)
	if err != nil {
		t.Fatalf("listen: %v", err)
	}
	defer o.stop()
	cl := C().EnableInsecureSkipVerify().SetTimeout(20 * time.Second)
	cl.SetLogger(nil)
	cl.GetTransport().Proxy = nil
	cl.EnableHTTP3()
	if cl.t3 == nil {
		t.Fatalf("HTTP/3 could not be enabled")
	}
	cl.t3.TLSClientConfig = &tls.Config{InsecureSkipVerify: true}
	protos := ""
	for i := 1; i <= 4; i++ {
		resp, err := cl.R().SetHeader("X-Tag", strconv.Itoa(i)).SetHeader("X-Plan", c09Plan{size: 40, altsvc: true}.String()).Get("http://" + o.addr() + "/a")
		if err != nil {
			fmt.Printf("CHILD-ERR request %d: %v\n", i, err)
			continue
		}
		if resp.Header.Get("X-Tag") != strconv.Itoa(i) || string(resp.Bytes()) != string(c09Pattern(i, 40, "r")) {
			fmt.Printf("CHILD-MIXED request %d got tag %q\n", i, resp.Header.Get("X-Tag"))
		}
		protos += resp.Proto + " "
		time.Sleep(60 * time.Millisecond) // let the background Alt-Svc probe run
	}
	cl.GetTransport().CloseIdleConnections()
	cl.t3.Close()
	fmt.Printf("CHILD-OK %s\n", protos)
}

// TestVerif_C09_altsvcplain: a plain-http origin advertises an HTTP/3 alternative to a client
// with HTTP/3 enabled; the Alt-Svc probe runs in a background goroutine of the library. The
// scenario runs in a child process because a panic in that goroutine cannot be recovered.
func TestVerif_C09_altsvcplain(t *testing.T) {
	s := verifh.New(t, "C09", "altsvcplain",
		"one sequential caller x 4 requests to a plain-http HTTP/1.1 origin that sends Alt-Svc: h3 pointing at a live in-process HTTP/3 origin, client with HTTP/3 enabled; run in a child test process; oracle: the process survives and every request succeeds and echoes its own tag, whether or not the alternative is used")
	cmd := exec.Command(os.Args[0], "-test.run=^TestVerif_C09_child_altsvcplain$", "-test.count=1", "-test.timeout=120s")
	cmd.Env = append(os.Environ(), "VERIF_C09_CHILD=altsvcplain")
	outB, err := cmd.CombinedOutput()
	out := string(outB)
	tail := out
	if len(tail) > 1500 {
		tail = tail[len(tail)-1500:]
	}
	human := "plain-http origin sends Alt-Svc: h3=\":<port>\" to a client with HTTP/3 enabled (4 sequential requests)"
	switch {
	case err != nil && strings.Contains(out, "nil pointer dereference") && strings.Contains(out, "http3.(*RoundTripper).dial"):
		// known finding C09-3: AddConn dials on a RoundTripper whose QUICConfig was never initialised
		s.Crash("altsvc-plain-http", human, tail, "altsvc-plainhttp-h3-uninitialised")
		s.Count("child-crashed-known")
	case err != nil:
		s.Crash("altsvc-plain-http", human, tail, "")
		s.Count("child-crashed")
	default:
		ok := strings.Contains(out, "CHILD-OK") && !strings.Contains(out, "CHILD-MIXED") && !strings.Contains(out, "CHILD-ERR")
		h3 := strings.Contains(out, "HTTP/3.0")
		s.Observe("altsvc-plain-http", ok, "", true, human+" -> "+strings.TrimSpace(out[strings.Index(out+"CHILD", "CHILD"):]), tail)
		s.Count("child-ok")
		if h3 {
			s.Count("reached-http3")
		}
	}
	s.Finish()
}
