//go:build verif

package req

// C19 lane `share`: what a clone has in common with its original ON THE REAL HEAP, at every point
// of the original's life. For each scenario (a configuration × what the original has done before
// Clone is called) the lane clones (and clones the clone), then relates every field of every struct
// behind the copy to the same field of the original (c19Rel: same object / fresh object with equal
// content / zero / …) and hands the relation, together with the field's row of the regenerated clone
// table, to the Lean judge (driver lane c19rel = ShareJudge.judge):
//   * the relation must be the one the table claims (validates tools/gofacts' table on the running code),
//   * an object in common must be in the explicit SharedByDesign list.

import (
	"context"
	"crypto/tls"
	"fmt"
	"io"
	"log"
	"net"
	"net/http"
	"net/http/cookiejar"
	"net/http/httptest"
	"reflect"
	"strings"
	"testing"
	"time"

	reqh2 "github.com/imroc/req/v3/http2"
	"github.com/imroc/req/v3/internal/verifh"
	"golang.org/x/net/http2"
	"golang.org/x/net/http2/h2c"
)

// peers of the lifecycle scenarios
type c19Peers struct {
	h1  *httptest.Server // plain HTTP/1.1
	h2  *httptest.Server // TLS, HTTP/2 enabled
	h1s *httptest.Server // TLS, HTTP/1.1 only
	h2c *httptest.Server // cleartext HTTP/2
}

func c19NewPeers() *c19Peers {
	h := http.HandlerFunc(func(rw http.ResponseWriter, r *http.Request) {
		rw.Header().Set("X-Verif-Proto", r.Proto)
		rw.Header().Set("X-Verif-Remote", r.RemoteAddr)
		rw.Write([]byte(c19RespMark + " " + r.Proto))
	})
	p := &c19Peers{}
	p.h1 = httptest.NewServer(h)
	p.h2 = httptest.NewUnstartedServer(h)
	p.h2.EnableHTTP2 = true
	p.h2.StartTLS()
	p.h1s = httptest.NewUnstartedServer(h)
	p.h1s.TLS = &tls.Config{NextProtos: []string{"http/1.1"}}
	p.h1s.StartTLS()
	p.h2c = httptest.NewServer(h2c.NewHandler(h, &http2.Server{}))
	for _, s := range []*httptest.Server{p.h2, p.h1s} {
		s.Config.ErrorLog = log.New(io.Discard, "", 0) // handshake failures are part of the scenarios
	}
	return p
}

func (p *c19Peers) close() {
	p.h1.Close()
	p.h2.Close()
	p.h1s.Close()
	p.h2c.Close()
}

type c19Life struct {
	name string
	do   func(w *c19World, p *c19Peers, c *Client) error
}

func c19Get(c *Client, url string) (*Response, error) {
	ctx, cancel := context.WithTimeout(context.Background(), 10*time.Second)
	defer cancel()
	return c.R().SetContext(ctx).Get(url)
}

// what the original may have done before it is cloned
func c19Lives() []c19Life {
	return []c19Life{
		{"new", func(w *c19World, p *c19Peers, c *Client) error { return nil }},
		{"after-h1-request", func(w *c19World, p *c19Peers, c *Client) error {
			_, err := c19Get(c, p.h1.URL)
			return err
		}},
		{"after-h1-tls-request", func(w *c19World, p *c19Peers, c *Client) error {
			c.EnableInsecureSkipVerify()
			_, err := c19Get(c, p.h1s.URL)
			return err
		}},
		{"after-h2-request", func(w *c19World, p *c19Peers, c *Client) error {
			c.EnableInsecureSkipVerify()
			resp, err := c19Get(c, p.h2.URL)
			if err == nil && resp.Proto != "HTTP/2.0" {
				return fmt.Errorf("expected HTTP/2.0, got %s", resp.Proto)
			}
			return err
		}},
		{"after-h2c-request", func(w *c19World, p *c19Peers, c *Client) error {
			c.EnableH2C().EnableForceHTTP2()
			_, err := c19Get(c, p.h2c.URL)
			return err
		}},
		{"after-failed-request", func(w *c19World, p *c19Peers, c *Client) error {
			c19Get(c, "http://127.0.0.1:1/refused")
			return nil
		}},
		{"dump-off-and-on-again", func(w *c19World, p *c19Peers, c *Client) error {
			c.EnableDumpAllTo(w.bufs[1])
			c.DisableDumpAll()
			c.EnableDumpAllTo(w.bufs[2])
			return nil
		}},
		{"h2-request-then-features-toggled", func(w *c19World, p *c19Peers, c *Client) error {
			c.EnableInsecureSkipVerify()
			_, err := c19Get(c, p.h2.URL)
			c.DisableAutoDecode().DisableKeepAlives().EnableKeepAlives().EnableForceHTTP1().DisableForceHttpVersion()
			return err
		}},
	}
}

type c19Conf struct {
	name string
	do   func(w *c19World, c *Client)
}

func c19Confs() []c19Conf {
	return []c19Conf{
		{"default", func(w *c19World, c *Client) {}},
		{"rich", func(w *c19World, c *Client) {
			c.SetCommonHeader("X-K1", "v1").SetCommonHeaderNonCanonical("x-n7", "v2").SetCommonCookies(&http.Cookie{Name: "ck101", Value: "1"})
			c.SetCommonPathParam("p1", "y1").AddCommonQueryParam("q1", "w1").SetCommonFormData(map[string]string{"QQf1": "QQg1"})
			c.OnBeforeRequest(w.mkBefore(1)).OnAfterResponse(w.mkAfter(3, 2)).WrapRoundTrip(w.mkWrap(1), w.mkWrap(2))
			c.GetTransport().WrapRoundTrip(w.mkTWrap(3))
			c.SetCommonRetryCount(1).AddCommonRetryCondition(w.mkCond(1)).AddCommonRetryHook(w.mkHook(1)).SetCommonRetryInterval(w.mkInterval(1))
			c.EnableDumpAllTo(w.bufs[1])
			c.SetCerts(c19TLSCert(1), c19TLSCert(2), c19TLSCert(3)).SetRootCertFromString(w.rootPEM[1])
			c.SetProxyConnectHeader(http.Header{"X-P": {"1"}})
			c.SetHTTP2SettingsFrame(reqh2.Setting{ID: reqh2.SettingHeaderTableSize, Val: 1}).SetHTTP2PriorityFrames(reqh2.PriorityFrame{StreamID: 3})
			c.SetCommonErrorResult(&c19ErrA{}).SetLogger(&c19IDLogger{1}).SetCookieJarFactory(w.mkJarFactory(1))
			c.SetBaseURL("http://127.0.0.1:9").SetOutputDirectory("dir1").SetTimeout(30 * time.Second).SetRedirectPolicy(w.mkRedirect(1))
			c.SetDial(func(ctx context.Context, network, addr string) (net.Conn, error) {
				return (&net.Dialer{}).DialContext(ctx, network, addr)
			})
			c.SetAutoDecodeContentType("html")
		}},
		{"dump-async", func(w *c19World, c *Client) {
			c.SetCommonDumpOptions(&DumpOptions{Output: w.bufs[1], RequestHeader: true, ResponseHeader: true, Async: true}).EnableDumpAll()
		}},
		{"dump-default-options", func(w *c19World, c *Client) { c.EnableDumpAllTo(w.bufs[3]).EnableDumpAllWithoutResponseBody() }},
		{"tls-fingerprint", func(w *c19World, c *Client) { c.SetTLSFingerprintChrome() }},
		{"jar-without-factory", func(w *c19World, c *Client) {
			jar, _ := cookiejar.New(nil)
			c.SetCookieJar(jar)
		}},
		{"http3-enabled", func(w *c19World, c *Client) { c.EnableHTTP3() }},
		{"h2c-enabled", func(w *c19World, c *Client) { c.EnableH2C() }},
		{"auto-decode-off-with-selection", func(w *c19World, c *Client) { c.DisableAutoDecode().SetAutoDecodeContentType("html") }},
		{"tls-config-replaced", func(w *c19World, c *Client) {
			c.SetTLSClientConfig(&tls.Config{ServerName: "sn1", NextProtos: []string{"h2", "http/1.1"}, InsecureSkipVerify: true})
			c.SetCerts(c19TLSCert(1))
		}},
		{"wrappers-func-form", func(w *c19World, c *Client) {
			c.WrapRoundTripFunc(w.mkWrapFunc(1)).WrapRoundTripFunc(w.mkWrapFunc(2)).WrapRoundTripFunc(w.mkWrapFunc(3))
			c.SetCommonHeaderOrder("a", "b").SetCommonPseudoHeaderOder(":method", ":path")
		}},
	}
}

// methods the generic setter sequences leave out, and why
var c19SkipClientSetters = map[string]string{
	"Clone":                "not a setter",
	"SetCertFromFile":      "reads files",
	"SetRootCertsFromFile": "reads files",
	"EnableDumpAllToFile":  "creates files",
	"DevMode":              "dumps to stdout",
	"EnableDumpAll":        "dumps to stdout unless an output was set (used through EnableDumpAllTo)",
	"EnableDumpAllAsync":   "dumps to stdout unless an output was set",
	"EnableDebugLog":       "logs to stdout",
	"EnableTraceAll":       "",
	"SetUnixSocket":        "",
}

// c19RandomSetters applies n randomly drawn settings methods (client and transport level, arguments by
// type) to c; it returns the method names. `also`, when not nil, receives the same calls with the same
// argument values.
func c19RandomSetters(g *c19ArgGen, c *Client, also *Client, n int, quietOnly bool) []string {
	cs := c19Setters(reflect.TypeOf(c))
	ts := c19Setters(reflect.TypeOf(c.Transport))
	var names []string
	for len(names) < n {
		onT := g.r.Intn(5) == 0
		var st c19RSetter
		if onT {
			st = verifh.Pick(g.r, ts)
		} else {
			st = verifh.Pick(g.r, cs)
		}
		if why, skip := c19SkipClientSetters[st.name]; skip && (why != "" || quietOnly) {
			continue
		}
		if strings.HasPrefix(st.name, "EnableDump") && (c.dumpOptions == nil || c.dumpOptions.Output == nil) {
			c.getDumpOptions().Output = g.w.bufs[0]
			if also != nil {
				also.getDumpOptions().Output = g.w.bufs[0]
			}
		}
		args, ok := g.args(st.m)
		if !ok {
			continue
		}
		call := func(cl *Client) {
			recv := reflect.ValueOf(cl)
			if onT {
				recv = reflect.ValueOf(cl.Transport)
			}
			st.m.Func.Call(append([]reflect.Value{recv}, args...))
		}
		call(c)
		if also != nil {
			call(also)
		}
		if onT {
			names = append(names, "Transport."+st.name)
		} else {
			names = append(names, st.name)
		}
	}
	return names
}

func c19CtxFlags(c *Client, fo reflect.Value) string {
	s := ""
	if c.tlsFingerprint != nil {
		s += "f"
	}
	if c.cookiejarFactory != nil {
		s += "j"
	}
	if (fo.Kind() == reflect.Slice || fo.Kind() == reflect.Map) && fo.Len() == 0 {
		s += "e"
	}
	if s == "" {
		return "_"
	}
	return s
}

var reached map[string]int // buckets lane share has reached (for its non-vacuity check)

// c19ShareCases relates copy to orig field by field and records one judged case per field.
func c19ShareCases(s *verifh.Session, rows map[string]c19Row, scenario, pair string, orig, copy_ *Client) {
	on, cn := c19Nodes(orig), c19Nodes(copy_)
	byOwner := map[string]c19Node{}
	for _, n := range cn {
		byOwner[n.owner] = n
	}
	for _, o := range on {
		c, ok := byOwner[o.owner]
		if !ok {
			s.Observe(scenario+"/"+pair+"/"+o.owner, false, "", true, scenario+" "+pair,
				fmt.Sprintf("the original has a %s, the copy has none", o.owner))
			continue
		}
		t := o.v.Type()
		for i := 0; i < t.NumField(); i++ {
			sf := t.Field(i)
			if sf.Type.Kind() == reflect.Struct && c19OwnerOf(sf.Type) != "" {
				continue // a modelled struct held by value (Transport.Options): judged field by field as a node of its own
			}
			fo, fc := c19Open(o.v.Field(i)), c19Open(c.v.Field(i))
			rel := c19Rel(fo, fc)
			kind := c19GoKind(sf.Type)
			rk, how, hs := "-", "-", 0
			if r, ok := rows[o.owner+"."+sf.Name]; ok {
				rk, how, hs = r.kind, r.how, c19Bool(r.hasSetter)
			}
			line := fmt.Sprintf("c19rel %s %s %s %s %s %d %s %s", o.owner, sf.Name, kind, rk, how, hs, rel, c19CtxFlags(orig, fo))
			s.Case(line, "ok", true, "", rel != "bothzero",
				fmt.Sprintf("scenario %q, %s: field %s.%s (%s) of the copy is %q relative to the original's", scenario, pair, o.owner, sf.Name, sf.Type, rel))
			// the table claims less separation than the heap has (ShareJudge.staleButSafe): fine for the property,
			// counted so that a stale extractor is visible (the bridge decides whether the stale table still proves
			// separation). Fields whose `how` is only the first step (ShareJudge.howOverridden) are not counted.
			if rk != "-" && (how == "assigned" || how == "absent") && rel == "fresh+eq" && !c19HowOverridden(o.owner, sf.Name, c19CtxFlags(orig, fo)) {
				s.Count("table-weaker-than-heap")
				s.Count("table-weaker-than-heap:" + o.owner + "." + sf.Name)
			}
			s.Count("rel:" + rel)
			reached["rel:"+rel]++
			if rk != "-" {
				s.Count("how:" + how)
				reached["how:"+how]++
			}
		}
	}
}

// c19HowOverridden mirrors ShareJudge.howOverridden (for the histogram only; the judge is the model).
func c19HowOverridden(owner, field, ctx string) bool {
	fp, jar := strings.Contains(ctx, "f"), strings.Contains(ctx, "j")
	switch {
	case owner == "HTTPClient" && field == "Jar" && jar, owner == "HTTPClient" && field == "Transport",
		owner == "Client" && field == "tlsFingerprint" && fp, owner == "Options" && field == "Debugf",
		owner == "Options" && field == "TLSHandshakeContext" && fp:
		return true
	}
	return false
}

func TestVerif_C19_share(t *testing.T) {
	s := verifh.New(t, "C19", "share",
		"real clients cloned at every point of their life: 11 configurations (default, every settings family populated, async dump, dump with default options, TLS fingerprint, caller's jar without a factory, HTTP/3 enabled, H2C enabled, auto-decode off with a content-type selection, replaced TLS config, Func-form wrappers + header order) × 8 lives (new; after a request over HTTP/1.1, HTTP/1.1+TLS, HTTP/2+TLS, h2c; after a failed request; dump switched off and on again; HTTP/2 request then features toggled) plus random sequences of the settings methods reflection finds on *Client and *Transport (arguments by parameter type); then Clone and Clone of the clone; for the pairs original/clone, clone/clone-of-clone, original/clone-of-clone EVERY field of every struct behind the client (Client, Transport, transport.Options, HTTP/2 and HTTP/3 transports, retryOption, DumpOptions, dumper, tls.Config, http.Client) is related on the heap (same object, fresh object with equal/different content, equal value, zero, appeared) and judged by ShareJudge.judge with the field's row of the regenerated clone table; non-trivial = the field is not zero on both sides")
	rows, err := c19LoadRows()
	if err != nil {
		t.Fatalf("clone table: %v", err)
	}
	reached = map[string]int{}
	w := c19NewWorld()
	defer w.close()
	p := c19NewPeers()
	defer p.close()
	fresh := func() *Client { c := C(); c.SetLogger(nil); c.SetTimeout(15 * time.Second); return c }
	run := func(nameOf func() string, build func(c *Client) error) {
		var c, cc, ccc *Client
		name := ""
		ptxt, panicked := verifh.Safely(func() {
			c = fresh()
			err := build(c)
			name = nameOf()
			if err != nil {
				s.Count("life-step-failed")
				reached["life-step-failed"]++
				t.Logf("scenario %s: %v", name, err)
			}
			cc = c.Clone()
			ccc = cc.Clone()
			c19ShareCases(s, rows, name, "original/clone", c, cc)
			c19ShareCases(s, rows, name, "clone/clone-of-clone", cc, ccc)
			c19ShareCases(s, rows, name, "original/clone-of-clone", c, ccc)
		})
		if panicked {
			s.Crash("share "+name, name, ptxt, "")
		}
		for _, x := range []*Client{c, cc, ccc} {
			if x != nil {
				x.Transport.CloseIdleConnections()
				c19DisableDump(x)
			}
		}
		s.Count("scenario")
	}
	for _, cf := range c19Confs() {
		for _, lf := range c19Lives() {
			cf, lf := cf, lf
			run(func() string { return cf.name + "/" + lf.name }, func(c *Client) error {
				cf.do(w, c)
				return lf.do(w, p, c)
			})
			s.Count("life:" + lf.name)
		}
	}
	// random configurations out of everything reflection finds
	n := verifh.N(40, 400)
	r := s.Rand()
	lives := c19Lives()
	for i := 0; i < n; i++ {
		g := &c19ArgGen{r: r, w: w}
		var names []string
		// random configurations meet the lives that need no particular protocol set-up (the eleven fixed
		// configurations go through all eight)
		lf := lives[0]
		if i%4 == 3 {
			lf = verifh.Pick(r, []c19Life{lives[1], lives[5], lives[6]})
		}
		k := 1 + r.Intn(10)
		run(func() string { return "random: " + strings.Join(names, ", ") + " / " + lf.name }, func(c *Client) error {
			names = c19RandomSetters(g, c, nil, k, true)
			return lf.do(w, p, c)
		})
		s.Count("random-program")
	}
	// the lane must have seen every relation and every kind of row, and every life with a request must have worked
	for _, need := range []string{"rel:same", "rel:fresh+eq", "rel:fresh+ne", "rel:eq", "rel:zero", "rel:bothzero",
		"how:assigned", "how:cloned", "how:rebuilt", "how:absent"} {
		if reached[need] == 0 {
			t.Errorf("lane share never reached bucket %q", need)
		}
	}
	if reached["life-step-failed"] > 3+n/10 {
		t.Errorf("%d life steps failed: the scenarios no longer reach the point of the original's life they are about", reached["life-step-failed"])
	}
	s.Finish()
}
