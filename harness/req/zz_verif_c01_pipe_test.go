//go:build verif

package req

import (
	"bytes"
	"encoding/json"
	"fmt"
	"io"
	"math/rand"
	"net/http"
	"net/url"
	"strings"
	"testing"

	"github.com/imroc/req/v3/internal/verifh"
)

// c01Capture is the http.RoundTripper under the client's *http.Client: it records the
// *http.Request Client.roundTrip built (after net/http.Client.Do) and answers 200.
type c01Capture struct {
	req  *http.Request
	body []byte
	had  bool
}

func (c *c01Capture) RoundTrip(r *http.Request) (*http.Response, error) {
	c.req = r
	c.had = r.Body != nil
	c.body = nil
	if r.Body != nil {
		c.body, _ = io.ReadAll(r.Body)
		r.Body.Close()
	}
	return &http.Response{StatusCode: 200, Status: "200 OK", Proto: "HTTP/1.1", ProtoMajor: 1, ProtoMinor: 1,
		Header: http.Header{}, Body: io.NopCloser(bytes.NewReader(nil)), Request: r}, nil
}

func c01Cookies(cs []*http.Cookie) string {
	if len(cs) == 0 {
		return "-"
	}
	out := make([]string, len(cs))
	for i, c := range cs {
		out[i] = verifh.Hex(c.Name) + ":" + verifh.Hex(c.Value) + ":" + c01b(c.Quoted)
	}
	return strings.Join(out, ",")
}

func c01RandCookies(r *rand.Rand, max int) []*http.Cookie {
	n := r.Intn(max + 1)
	var out []*http.Cookie
	names := []string{"sid", "a", "b", "theme", "SID", "a b", "x;y", "n=1", "", "k\r\nX: 1", "ü"}
	vals := []string{"1", "abc", "", "a b", "a,b", "a;b", "\"q\"", "a\\b", "ü", "x\r\nSet-Cookie: evil=1", "v=1", "a%20b", strings.Repeat("c", 100)}
	for i := 0; i < n; i++ {
		out = append(out, &http.Cookie{Name: verifh.Pick(r, names), Value: verifh.Pick(r, vals), Quoted: r.Intn(6) == 0,
			Path: "/ignored", Domain: "ignored.example", Secure: true}) // attributes never go into a request
	}
	return out
}

type c01PipeCase struct {
	method     string
	u          c01URLCase
	cHdr, rHdr http.Header
	cCk, rCk   []*http.Cookie
	bodyKind   string // none | bytes | string | reader | func | json
	body       []byte
	allowGet   bool
}

func c01GenPipe(r *rand.Rand) *c01PipeCase {
	tc := &c01PipeCase{}
	tc.method = verifh.Pick(r, []string{"GET", "GET", "POST", "POST", "PUT", "PATCH", "DELETE", "HEAD", "OPTIONS", "QUERY", "M-SEARCH", "get", ""})
	if r.Intn(8) == 0 {
		tc.u = c01GenWild(r)
	} else {
		tc.u = c01GenStructured(r)
	}
	hdr := func() http.Header {
		h := c01RandHeader(r, 6, false, false)
		if h != nil && r.Intn(4) == 0 {
			h[verifh.Pick(r, []string{"Host", "host", "Cookie", "cookie", "Content-Type", "content-type", "User-Agent"})] = []string{verifh.Pick(r, []string{"v.example", "a=1", "text/plain", "", "x y"})}
		}
		if h != nil && r.Intn(6) == 0 {
			h["Cookie"] = []string{"pre=1", "second=2"}
		}
		// an empty Content-Type counts as absent for the sniffing step (masked below): keep it non-empty
		if vs, ok := h["Content-Type"]; ok && (len(vs) == 0 || vs[0] == "") {
			h["Content-Type"] = []string{"text/plain"}
		}
		return h
	}
	tc.cHdr = hdr()
	tc.rHdr = hdr()
	if tc.cHdr != nil && tc.rHdr != nil && r.Intn(2) == 0 {
		// overlapping keys: same spelling, other spelling, empty request value
		for k := range tc.cHdr {
			switch r.Intn(4) {
			case 0:
				tc.rHdr[k] = []string{"request-wins"}
			case 1:
				tc.rHdr[strings.ToLower(k)] = []string{"other-spelling"}
			case 2:
				tc.rHdr[k] = []string{}
			}
		}
	}
	tc.cCk = c01RandCookies(r, 3)
	tc.rCk = c01RandCookies(r, 3)
	tc.allowGet = r.Intn(5) != 0
	switch r.Intn(8) {
	case 0, 1:
		tc.bodyKind = "none"
	case 2:
		tc.bodyKind = "string"
	case 3:
		tc.bodyKind = "reader"
	case 4:
		tc.bodyKind = "func"
	case 5:
		tc.bodyKind = "json"
	default:
		tc.bodyKind = "bytes"
	}
	switch tc.bodyKind {
	case "none":
	case "json":
		m := map[string]interface{}{"k": verifh.Pick(r, c01Values), "n": r.Intn(1000), "l": []int{1, 2, r.Intn(9)}}
		tc.body, _ = json.Marshal(m)
	default:
		n := verifh.Pick(r, []int{0, 1, 5, 100, 4096, 16385, 65537})
		if r.Intn(3) == 0 {
			n = r.Intn(300)
		}
		tc.body = c01GenBody(n, 1+r.Intn(250), r.Intn(251))
	}
	return tc
}

// TestVerif_C01_pipeline: the real request pipeline (Request.Send: parseRequestHeader,
// parseRequestCookie, parseRequestURL, parseRequestBody, Client.roundTrip, net/http.Client.Do)
// captured at the transport boundary vs the Lean model `Merge.buildRequest`.
func TestVerif_C01_pipeline(t *testing.T) {
	s := c01New(t, "C01", "pipeline",
		"API-level request specs: method; URL/base URL/scheme/path maps/query maps from the url lane's generators; client-level headers (nil, empty, 0..6 keys) and request-level headers with overlapping keys in the same and in another spelling, empty request values, Host / Cookie / Content-Type entries; 0..3 client and request cookies with names and values holding spaces, commas, semicolons, quotes, CR/LF, non-ASCII; body none / bytes / string / io.Reader / GetBody func / marshalled map, sizes 0..64 KiB; AllowGetMethodPayload on/off; captured: the *http.Request (method, URL, Host, header map, ContentLength, body bytes); non-trivial = request reached the transport")
	r := s.Rand()
	n := verifh.N(4000, 100000)
	for i := 0; i < n; i++ {
		tc := c01GenPipe(r)
		c := C()
		capt := &c01Capture{}
		c.httpClient = &http.Client{Transport: capt}
		c.AllowGetMethodPayload = tc.allowGet
		c.Headers = tc.cHdr.Clone()
		c.Cookies = tc.cCk
		c.PathParams = tc.u.cPath
		c.QueryParams = tc.u.cQuery
		c.BaseURL = tc.u.base
		c.scheme = tc.u.scheme
		req := c.R()
		if tc.rHdr != nil {
			req.Headers = tc.rHdr.Clone()
		}
		req.Cookies = append([]*http.Cookie(nil), tc.rCk...)
		req.PathParams = tc.u.rPath
		req.QueryParams = tc.u.rQuery
		modelKind := "bytes"
		switch tc.bodyKind {
		case "none":
			modelKind = "none"
		case "bytes":
			req.SetBodyBytes(tc.body)
		case "string":
			req.SetBodyString(string(tc.body))
		case "reader":
			req.SetBody(bytes.NewReader(tc.body))
			modelKind = "reader"
		case "func":
			b := tc.body
			req.SetBody(func() (io.ReadCloser, error) { return io.NopCloser(bytes.NewReader(b)), nil })
			modelKind = "reader"
		case "json":
			var v map[string]interface{}
			json.Unmarshal(tc.body, &v)
			// json.Marshal of a map sorts keys: re-marshal gives the bytes the client will produce
			tc.body, _ = json.Marshal(v)
			req.SetBody(v)
		}
		// an in-memory body without any Content-Type gets one from content sniffing / the marshaller
		// (C17's subject): mask that header on both sides
		hadCT := (tc.cHdr != nil && tc.cHdr.Get("Content-Type") != "") || (tc.rHdr != nil && tc.rHdr.Get("Content-Type") != "")
		var err error
		p, bad := verifh.Safely(func() { _, err = req.Send(tc.method, tc.u.rawURL) })
		human := fmt.Sprintf("%q url=%q rpath=%q cpath=%q scheme=%q base=%q cq=%q rq=%q chdr=%q rhdr=%q cck=%s rck=%s body=%s/%d allowGet=%v",
			tc.method, tc.u.rawURL, tc.u.rPath, tc.u.cPath, tc.u.scheme, tc.u.base, tc.u.cQuery, tc.u.rQuery, tc.cHdr, tc.rHdr, c01Cookies(tc.cCk), c01Cookies(tc.rCk), tc.bodyKind, len(tc.body), tc.allowGet)
		if bad {
			s.Crash(human, human, p, "")
			continue
		}
		ans := "err"
		class := ""
		if err == nil && capt.req != nil && capt.req.URL.User != nil {
			// net/http.Client.Do turns URL userinfo into an Authorization header (base64: external)
			s.Count("skipped:userinfo")
			continue
		}
		if err == nil && capt.req != nil {
			h := capt.req.Header.Clone()
			if !hadCT {
				delete(h, "Content-Type")
			}
			ans = c01ShowURL(capt.req.URL) + " m=" + verifh.Hex(capt.req.Method) + " host=" + verifh.Hex(capt.req.Host) + " hdr=" + c01Hdr(h) +
				fmt.Sprintf(" cl=%d hasbody=%s ", capt.req.ContentLength, c01b(capt.had)) + c01Blob(capt.body)
			s.Count("sent")
			s.Count("body:" + tc.bodyKind)
			if len(tc.cCk)+len(tc.rCk) > 0 {
				s.Count("cookies")
			}
		} else {
			s.Count("err")
		}
		if c01RawPathDropped(tc.u, req, err) {
			class = "rawpath-dropped"
		}
		// the model gets the marshalled bytes as an in-memory body, and the masked Content-Type
		mh := tc.rHdr
		line := "c01pipe " + verifh.Hex(tc.method) + " " + verifh.Hex(tc.u.rawURL) + " " + c01PMap(tc.u.rPath) + " " + c01PMap(tc.u.cPath) + " " +
			verifh.Hex(tc.u.scheme) + " " + verifh.Hex(tc.u.base) + " " + c01QMap(tc.u.cQuery) + " " + c01QMap(tc.u.rQuery) + " " +
			func() string {
				if tc.cHdr == nil {
					return "nil"
				}
				return c01Hdr(tc.cHdr)
			}() + " " + c01Hdr(mh) + " " + c01Cookies(tc.cCk) + " " + c01Cookies(tc.rCk) + " " + modelKind + " " + verifh.Hex(string(tc.body)) + " " + c01b(tc.allowGet)
		// (bodies here stay ≤ 64 KiB + 1, hex is fine)
		s.Case(line, ans, true, class, err == nil, human)
	}
	s.Need(t, "sent", "err", "cookies", "body:none", "body:bytes", "body:string", "body:reader", "body:func", "body:json")
	s.Finish()
}

var _ = url.Parse
