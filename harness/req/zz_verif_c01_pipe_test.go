//go:build verif

package req

import (
	"bytes"
	"encoding/json"
	"fmt"
	"io"
	"log"
	"math/rand"
	"net/http"
	"net/url"
	"os"
	"sort"
	"strings"
	"testing"
	"time"

	"github.com/imroc/req/v3/internal/verifh"
)

// c01Capture is the http.RoundTripper under the client's *http.Client: it records the
// *http.Request Client.roundTrip built (after net/http.Client.Do) and answers 200.
type c01Capture struct {
	req  *http.Request
	body []byte
	had  bool
	// every attempt that reached the transport, rendered canonically at the moment it arrived
	// (the *http.Request may be mutated afterwards)
	attempts []string
	fail     int  // answer 503 to this many further attempts (drives the retry path)
	maskCT   bool // drop a sniffed / marshaller-chosen Content-Type from the rendering
	sawUser  bool // some attempt's URL carried userinfo (net/http turns it into an Authorization header)
}

func (c *c01Capture) RoundTrip(r *http.Request) (*http.Response, error) {
	c.req = r
	if r.URL != nil && r.URL.User != nil {
		c.sawUser = true
	}
	c.had = r.Body != nil
	c.body = nil
	if r.Body != nil {
		c.body, _ = io.ReadAll(r.Body)
		r.Body.Close()
	}
	h := r.Header.Clone()
	if c.maskCT {
		delete(h, "Content-Type")
	}
	c.attempts = append(c.attempts, c01ShowURL(r.URL)+" m="+verifh.Hex(r.Method)+" host="+verifh.Hex(r.Host)+" hdr="+c01Hdr(h)+
		fmt.Sprintf(" cl=%d hasbody=%s getbody=%s ", r.ContentLength, c01b(c.had), c01b(r.GetBody != nil))+c01Blob(c.body))
	status := 200
	if c.fail > 0 {
		c.fail--
		status = 503
	}
	return &http.Response{StatusCode: status, Status: fmt.Sprintf("%d x", status), Proto: "HTTP/1.1", ProtoMajor: 1, ProtoMinor: 1,
		Header: http.Header{}, Body: io.NopCloser(bytes.NewReader(nil)), Request: r}, nil
}

func c01Cookies(cs []*http.Cookie) string {
	if len(cs) == 0 {
		return "-"
	}
	out := make([]string, len(cs))
	for i, c := range cs {
		out[i] = verifh.Hex(c.Name) + ":" + verifh.Hex(c.Value) + ":" + c01b(c.Quoted)
	}
	return strings.Join(out, ",")
}

func c01RandCookies(r *rand.Rand, max int) []*http.Cookie {
	n := r.Intn(max + 1)
	var out []*http.Cookie
	names := []string{"sid", "a", "b", "theme", "SID", "a b", "x;y", "n=1", "", "k\r\nX: 1", "ü"}
	vals := []string{"1", "abc", "", "a b", "a,b", "a;b", "\"q\"", "a\\b", "ü", "x\r\nSet-Cookie: evil=1", "v=1", "a%20b", strings.Repeat("c", 100)}
	for i := 0; i < n; i++ {
		out = append(out, &http.Cookie{Name: verifh.Pick(r, names), Value: verifh.Pick(r, vals), Quoted: r.Intn(6) == 0,
			Path: "/ignored", Domain: "ignored.example", Secure: true}) // attributes never go into a request
	}
	return out
}

type c01PipeCase struct {
	method     string
	u          c01URLCase
	cHdr, rHdr http.Header
	cCk, rCk   []*http.Cookie
	bodyKind   string // none | bytes | string | reader | func | json
	body       []byte
	allowGet   bool
	retries    int  // the first `retries` attempts get a 503 and are retried (same *Request)
	sendAgain  bool // the same *Request is sent a second time after the first Send returned
	viaSetters bool // headers registered through SetHeader / SetHeaderNonCanonical / SetCommonHeader… instead of assigned maps
	// round 6 — the description of the SAME *Request is changed between two transmissions (by a
	// retry hook before the second attempt, or by the caller before the second Send): `edit` names
	// the field families changed, `after` is the description that holds from then on
	edit  string
	after *c01PipeCase
}

// c01GenPipeEdit draws the edit: one or two field families of {request path values, client path
// values, request query, client query, the whole URL description (template, base URL, scheme and
// all maps), a request header, a request cookie, the body, the method (second Send only)}.
func c01GenPipeEdit(r *rand.Rand, tc *c01PipeCase) {
	a := *tc
	a.edit, a.after = "", nil
	fams := []string{"rpath", "rpath", "cpath", "rquery", "cquery", "url", "header", "cookie", "body"}
	if tc.sendAgain {
		fams = append(fams, "method")
	}
	picked := map[string]bool{}
	for i, n := 0, 1+r.Intn(2); i < n; i++ {
		picked[verifh.Pick(r, fams)] = true
	}
	newVals := func(m map[string]string) map[string]string {
		out := map[string]string{}
		for k := range m {
			out[k] = c01RandValue(r)
		}
		return out
	}
	if picked["rpath"] && len(tc.u.rPath) == 0 {
		delete(picked, "rpath")
		picked["rquery"] = true
	}
	if picked["cpath"] && len(tc.u.cPath) == 0 {
		delete(picked, "cpath")
		picked["cquery"] = true
	}
	if picked["body"] && tc.bodyKind != "bytes" && tc.bodyKind != "string" && tc.bodyKind != "func" {
		delete(picked, "body")
		picked["header"] = true
	}
	if picked["method"] && (tc.method == "HEAD" || tc.method == "OPTIONS" || (tc.method == "GET" && !tc.allowGet)) {
		// a method that forbids a payload makes parseRequestBody CLEAR the body of the Request for
		// good: the description itself changed in the first send — not this dimension's subject
		delete(picked, "method")
		picked["header"] = true
	}
	if picked["url"] {
		if r.Intn(8) == 0 {
			a.u = c01GenWild(r)
		} else {
			a.u = c01GenStructured(r)
		}
		delete(picked, "rpath")
		delete(picked, "cpath")
		delete(picked, "rquery")
		delete(picked, "cquery")
	}
	a.u.structured = false
	if picked["rpath"] {
		a.u.rPath = newVals(tc.u.rPath)
	}
	if picked["cpath"] {
		a.u.cPath = newVals(tc.u.cPath)
	}
	if picked["rquery"] {
		a.u.rQuery = c01RandQMap(r, 3)
	}
	if picked["cquery"] {
		a.u.cQuery = c01RandQMap(r, 3)
	}
	if picked["header"] {
		a.rHdr = tc.rHdr.Clone()
		if a.rHdr == nil {
			a.rHdr = http.Header{}
		}
		k := verifh.Pick(r, []string{"X-Edit", "X-A", "x-a", "Accept", "Cookie"})
		if r.Intn(3) == 0 {
			a.rHdr[k] = verifh.C01GenLines(r, k, []string{"edited", "second try", "v2", ""})
		} else {
			a.rHdr[k] = []string{verifh.Pick(r, []string{"edited", "second try", "v2"})}
		}
	}
	if picked["cookie"] {
		a.rCk = append(append([]*http.Cookie(nil), tc.rCk...), &http.Cookie{Name: "edit", Value: verifh.Pick(r, []string{"e1", "a b", "x;y"})})
	}
	if picked["body"] {
		a.bodyKind = "bytes"
		a.body = c01GenBody(verifh.Pick(r, []int{0, 1, 100, 4097}), 1+r.Intn(250), r.Intn(251))
	}
	if picked["method"] {
		a.method = verifh.Pick(r, []string{"GET", "POST", "PUT", "DELETE", "HEAD", "QUERY"})
	}
	var names []string
	for f := range picked {
		names = append(names, f)
	}
	sort.Strings(names)
	a.edit = strings.Join(names, "+")
	tc.edit, tc.after = a.edit, &a
}

// c01PipeLine: the model line of ONE transmission — a function of the description current at that
// moment only. `carried` = a retry (RetryAttempt > 0): Request.Cookies already holds the client
// cookies of the first attempt and parseRequestCookie does not add them again.
func c01PipeLine(tc *c01PipeCase, first *c01PipeCase, carried bool) string {
	modelKind := tc.bodyKind
	switch tc.bodyKind {
	case "string", "json":
		modelKind = "bytes"
	}
	rck, cck := tc.rCk, tc.cCk
	if carried {
		// Request.Cookies = (request cookies ++ client cookies of attempt 1) ++ what was appended since
		rck = append(append(append([]*http.Cookie(nil), first.rCk...), first.cCk...), tc.rCk[len(first.rCk):]...)
		cck = nil
	}
	return "c01pipe " + verifh.Hex(tc.method) + " " + verifh.Hex(tc.u.rawURL) + " " + c01PMap(tc.u.rPath) + " " + c01PMap(tc.u.cPath) + " " +
		verifh.Hex(tc.u.scheme) + " " + verifh.Hex(tc.u.base) + " " + c01QMap(tc.u.cQuery) + " " + c01QMap(tc.u.rQuery) + " " +
		func() string {
			if tc.cHdr == nil {
				return "nil"
			}
			return c01Hdr(tc.cHdr)
		}() + " " + c01Hdr(tc.rHdr) + " " + c01Cookies(cck) + " " + c01Cookies(rck) + " " + modelKind + " " + verifh.Hex(string(tc.body)) + " " + c01b(tc.allowGet)
}

// c01PipeApplyEdit performs the edit on the live objects through the public setters / fields.
func c01PipeApplyEdit(c *Client, req *Request, tc *c01PipeCase) {
	a := tc.after
	for _, f := range strings.Split(tc.edit, "+") {
		switch f {
		case "rpath":
			req.PathParams = a.u.rPath
		case "cpath":
			c.PathParams = a.u.cPath
		case "rquery":
			req.QueryParams = a.u.rQuery
		case "cquery":
			c.QueryParams = a.u.cQuery
		case "url":
			c.PathParams, c.QueryParams, c.BaseURL, c.scheme = a.u.cPath, a.u.cQuery, a.u.base, a.u.scheme
			req.PathParams, req.QueryParams = a.u.rPath, a.u.rQuery
			req.SetURL(a.u.rawURL)
		case "header":
			for k, vs := range a.rHdr {
				if fmt.Sprint(vs) != fmt.Sprint(tc.rHdr[k]) || len(vs) != len(tc.rHdr[k]) {
					req.Headers[k] = append([]string(nil), vs...)
				}
			}
		case "cookie":
			req.SetCookies(a.rCk[len(a.rCk)-1])
		case "body":
			req.SetBodyBytes(a.body)
		}
	}
}

func c01GenPipe(r *rand.Rand, profile string) *c01PipeCase {
	tc := &c01PipeCase{}
	tc.method = verifh.Pick(r, []string{"GET", "GET", "POST", "POST", "PUT", "PATCH", "DELETE", "HEAD", "OPTIONS", "QUERY", "M-SEARCH", "get", ""})
	if r.Intn(8) == 0 {
		tc.u = c01GenWild(r)
	} else {
		tc.u = c01GenStructured(r)
	}
	hdr := func() http.Header {
		h := c01RandHeader(r, 6, false, false)
		if h != nil && r.Intn(4) == 0 {
			h[verifh.Pick(r, []string{"Host", "host", "Cookie", "cookie", "Content-Type", "content-type", "User-Agent"})] = []string{verifh.Pick(r, []string{"v.example", "a=1", "text/plain", "", "x y"})}
		}
		if h != nil && r.Intn(16) == 0 {
			// (kept rarer since round 6: with cookie objects this is the input class of finding C01-4)
			h["Cookie"] = verifh.C01GenLines(r, "Cookie", nil)
		}
		// an empty Content-Type counts as absent for the sniffing step (masked below): keep it non-empty
		if vs, ok := h["Content-Type"]; ok && (len(vs) == 0 || vs[0] == "") {
			h["Content-Type"] = []string{"text/plain"}
		}
		return h
	}
	tc.cHdr = hdr()
	tc.rHdr = hdr()
	if profile == "headers" {
		// both levels populated, names in every spelling (canonical, lower, mixed, with '_')
		if tc.cHdr == nil {
			tc.cHdr = http.Header{}
		}
		if tc.rHdr == nil {
			tc.rHdr = http.Header{}
		}
		for i, n := 0, 1+r.Intn(5); i < n; i++ {
			k := verifh.Pick(r, []string{"x-trace-id", "X-Trace-Id", "x-Trace-ID", "x_feature", "X-Feature", "accept", "Accept", "ACCEPT", "x-a", "X-A", "authorization", "Sec-Ch-Ua", "sec-ch-ua"})
			tc.cHdr[k] = []string{"client-default-" + k}
		}
	}
	if tc.cHdr != nil && tc.rHdr != nil && (profile == "headers" || r.Intn(2) == 0) {
		// overlapping keys: same spelling (canonical or not), other spelling, no value, the empty
		// string (the caller blanks a client default), several values
		for k := range tc.cHdr {
			if strings.HasPrefix(k, "__") || strings.EqualFold(k, "Content-Type") {
				continue
			}
			switch r.Intn(7) {
			case 0, 1:
				tc.rHdr[k] = []string{"request-wins"}
			case 2:
				tc.rHdr[strings.ToLower(k)] = []string{"other-spelling"}
			case 3:
				tc.rHdr[k] = []string{}
			case 4:
				tc.rHdr[k] = []string{""}
			case 5:
				tc.rHdr[k] = []string{"", "second"}
			}
		}
	}
	tc.cCk = c01RandCookies(r, 3)
	tc.rCk = c01RandCookies(r, 3)
	tc.allowGet = r.Intn(5) != 0
	tc.viaSetters = r.Intn(2) == 0
	switch r.Intn(5) {
	case 0:
		tc.retries = 1 + r.Intn(2)
	case 1:
		tc.sendAgain = true
	}
	switch r.Intn(8) {
	case 0, 1:
		tc.bodyKind = "none"
	case 2:
		tc.bodyKind = "string"
	case 3:
		tc.bodyKind = "reader"
	case 4:
		tc.bodyKind = "func"
	case 5:
		tc.bodyKind = "json"
	default:
		tc.bodyKind = "bytes"
	}
	switch tc.bodyKind {
	case "none":
	case "json":
		m := map[string]interface{}{"k": verifh.Pick(r, c01Values), "n": r.Intn(1000), "l": []int{1, 2, r.Intn(9)}}
		tc.body, _ = json.Marshal(m)
	default:
		n := verifh.Pick(r, []int{0, 1, 5, 100, 4096, 16385, 65537})
		if r.Intn(3) == 0 {
			n = r.Intn(300)
		}
		tc.body = c01GenBody(n, 1+r.Intn(250), r.Intn(251))
	}
	if tc.bodyKind == "reader" {
		tc.retries, tc.sendAgain = 0, false // an io.Reader body cannot be replayed (the call is refused up front)
	}
	if tc.sendAgain && len(tc.cCk) > 0 {
		// a second Send starts at attempt 0 again and appends the client cookies to Request.Cookies
		// once more (that is how parseRequestCookie is specified); only retries keep them single
		tc.sendAgain, tc.retries = false, 1
	}
	if (tc.sendAgain || tc.retries > 0) && r.Intn(3) != 0 {
		c01GenPipeEdit(r, tc)
	}
	return tc
}

// c01SetHeaders registers a header map through the public setters: canonical names with
// SetHeader / AddHeader-style calls, everything else with the NonCanonical variants. The resulting
// map equals the given one.
func c01ViaSetters(h http.Header, set func(k, v string), add func(k, v string), nc func(k, v string)) bool {
	for k, vs := range h {
		if len(vs) == 0 || strings.HasPrefix(k, "__") {
			return false // not expressible through the setters
		}
	}
	for k, vs := range h {
		canon := http.CanonicalHeaderKey(k) == k
		for i, v := range vs {
			switch {
			case !canon:
				nc(k, v)
			case i == 0:
				set(k, v)
			default:
				add(k, v)
			}
		}
	}
	return true
}

// TestVerif_C01_pipeline: the real request pipeline (Request.Send: parseRequestHeader,
// parseRequestCookie, parseRequestURL, parseRequestBody, Client.roundTrip, net/http.Client.Do)
// captured at the transport boundary vs the Lean model `Merge.buildRequest`.
func TestVerif_C01_pipeline(t *testing.T) {
	s := c01New(t, "C01", "pipeline",
		"API-level request specs: method; URL/base URL/scheme/path maps/query maps from the url lane's generators; client-level headers (nil, empty, 0..6 keys) and request-level headers with overlapping keys in the same (canonical or non-canonical) and in another spelling, no value, the empty string, several values, Host / Cookie / Content-Type entries, assigned as maps or registered through the setters; 0..3 client and request cookies with names and values holding spaces, commas, semicolons, quotes, CR/LF, non-ASCII; body none / bytes / string / io.Reader / GetBody func / marshalled map, sizes 0..64 KiB; AllowGetMethodPayload on/off; a fifth of the requests is RETRIED once or twice (first attempts answered 503) and a fifth is SENT A SECOND TIME through the same *Request: every attempt must be the request the model describes; captured: the *http.Request of every attempt (method, URL, Host, header map, ContentLength, body bytes); non-trivial = request reached the transport")
	c01LanePipe(t, s, "plain", verifh.N(4000, 100000))
	s.Need(t, "sent", "err", "cookies", "body:none", "body:bytes", "body:string", "body:reader", "body:func", "body:json", "attempt:2", "attempt:3", "second-send", "via-setters", "edited-transmission", "resend-sequence", "edit:rpath", "edit:cpath", "edit:rquery", "edit:cquery", "edit:url", "edit:header", "edit:cookie", "edit:body", "edit:method")
	s.Finish()
}

// c01LanePipe is shared by C01 (pipeline) and C16 (apimerge: header-focused profile).
func c01LanePipe(t *testing.T, s *c01Sess, profile string, n int) {
	log.SetOutput(io.Discard) // net/http logs every sanitised cookie byte
	defer log.SetOutput(os.Stderr)
	r := s.Rand()
	for i := 0; i < n; i++ {
		tc := c01GenPipe(r, profile)
		c := C()
		capt := &c01Capture{}
		c.httpClient = &http.Client{Transport: capt}
		c.AllowGetMethodPayload = tc.allowGet
		c.Cookies = tc.cCk
		c.PathParams = tc.u.cPath
		c.QueryParams = tc.u.cQuery
		c.BaseURL = tc.u.base
		c.scheme = tc.u.scheme
		req := c.R()
		viaSetters := false
		if tc.viaSetters && tc.cHdr != nil && tc.rHdr != nil {
			c2, r2 := http.Header{}, http.Header{}
			okc := c01ViaSetters(tc.cHdr, func(k, v string) { c2.Set(k, v) }, func(k, v string) { c2.Add(k, v) }, func(k, v string) { c2[k] = append(c2[k], v) })
			okr := c01ViaSetters(tc.rHdr, func(k, v string) { r2.Set(k, v) }, func(k, v string) { r2.Add(k, v) }, func(k, v string) { r2[k] = append(r2[k], v) })
			if okc && okr && len(tc.cHdr) > 0 {
				c01ViaSetters(tc.cHdr, func(k, v string) { c.SetCommonHeader(k, v) }, func(k, v string) { c.Headers.Add(k, v) }, func(k, v string) { c.SetCommonHeaderNonCanonical(k, v) })
				c01ViaSetters(tc.rHdr, func(k, v string) { req.SetHeader(k, v) }, func(k, v string) { req.Headers.Add(k, v) }, func(k, v string) { req.SetHeaderNonCanonical(k, v) })
				viaSetters = true
				s.Count("via-setters")
			}
		}
		if !viaSetters {
			c.Headers = tc.cHdr.Clone()
			if tc.rHdr != nil {
				req.Headers = tc.rHdr.Clone()
			}
		}
		req.Cookies = append([]*http.Cookie(nil), tc.rCk...)
		req.PathParams = tc.u.rPath
		req.QueryParams = tc.u.rQuery
		modelKind := "bytes"
		switch tc.bodyKind {
		case "none":
			modelKind = "none"
		case "bytes":
			req.SetBodyBytes(tc.body)
		case "string":
			req.SetBodyString(string(tc.body))
		case "reader":
			req.SetBody(bytes.NewReader(tc.body))
			modelKind = "reader"
		case "func":
			b := tc.body
			req.SetBody(func() (io.ReadCloser, error) { return io.NopCloser(bytes.NewReader(b)), nil })
			modelKind = "func"
		case "json":
			var v map[string]interface{}
			json.Unmarshal(tc.body, &v)
			// json.Marshal of a map sorts keys: re-marshal gives the bytes the client will produce
			tc.body, _ = json.Marshal(v)
			req.SetBody(v)
		}
		_ = modelKind
		if tc.after != nil && !strings.Contains("+"+tc.edit+"+", "+body+") {
			tc.after.body = tc.body // (the json kind re-marshals its bytes above)
		}
		// an in-memory body without any Content-Type gets one from content sniffing / the marshaller
		// (C17's subject): mask that header on both sides
		hadCT := (tc.cHdr != nil && tc.cHdr.Get("Content-Type") != "") || (tc.rHdr != nil && tc.rHdr.Get("Content-Type") != "")
		capt.maskCT = !hadCT
		if tc.retries > 0 {
			capt.fail = tc.retries
			req.SetRetryCount(tc.retries).
				SetRetryInterval(func(*Response, int) time.Duration { return 0 }).
				SetRetryCondition(func(resp *Response, err error) bool { return err == nil && resp != nil && resp.StatusCode == 503 })
			if tc.after != nil {
				edited := false
				req.SetRetryHook(func(resp *Response, _ error) {
					if !edited {
						edited = true
						c01PipeApplyEdit(c, resp.Request, tc)
					}
				})
			}
		}
		editHuman := ""
		if a := tc.after; a != nil {
			s.Count("edited")
			for _, f := range strings.Split(tc.edit, "+") {
				s.Count("edit:" + f)
			}
			editHuman = fmt.Sprintf(" THEN EDITED (%s) before the next transmission: %q url=%q rpath=%q cpath=%q scheme=%q base=%q cq=%q rq=%q rhdr=%q rck=%s body=%s/%d", tc.edit,
				a.method, a.u.rawURL, a.u.rPath, a.u.cPath, a.u.scheme, a.u.base, a.u.cQuery, a.u.rQuery, a.rHdr, c01Cookies(a.rCk), a.bodyKind, len(a.body))
		}
		human := fmt.Sprintf("%q url=%q rpath=%q cpath=%q scheme=%q base=%q cq=%q rq=%q chdr=%q rhdr=%q setters=%v cck=%s rck=%s body=%s/%d allowGet=%v retries=%d again=%v",
			tc.method, tc.u.rawURL, tc.u.rPath, tc.u.cPath, tc.u.scheme, tc.u.base, tc.u.cQuery, tc.u.rQuery, tc.cHdr, tc.rHdr, viaSetters, c01Cookies(tc.cCk), c01Cookies(tc.rCk), tc.bodyKind, len(tc.body), tc.allowGet, tc.retries, tc.sendAgain) + editHuman
		s.Begin(fmt.Sprintf("pipe-%d", i), human)
		var err error
		p, bad := verifh.Safely(func() {
			_, err = req.Send(tc.method, tc.u.rawURL)
			if err == nil && tc.sendAgain {
				if tc.after != nil {
					// the caller changes the description of the same *Request, then sends it again
					c01PipeApplyEdit(c, req, tc)
					_, err = req.Send(tc.after.method, tc.after.u.rawURL)
				} else {
					_, err = req.Send(tc.method, tc.u.rawURL)
				}
			}
		})
		if bad {
			s.Crash(human, human, p, "")
			continue
		}
		class := ""
		if capt.sawUser || (err == nil && capt.req != nil && capt.req.URL.User != nil) {
			// net/http.Client.Do turns URL userinfo into an Authorization header (base64: external)
			s.Count("skipped:userinfo")
			continue
		}
		if c01RawPathDropped(tc.u, req, err) || (tc.after != nil && c01RawPathDropped(tc.after.u, req, err)) {
			class = "rawpath-dropped"
		}
		if tc.bodyKind == "reader" {
			// known finding C01-2: a one-shot reader reaches the transport with a GetBody that
			// hands out the same reader again (the model follows the repaired Client.roundTrip)
			class = "oneshot-body-replayed"
		}
		// known finding C01-4 (fixes/C01-4): several field lines under "Cookie" + cookie objects —
		// http.Request.AddCookie rewrites the field from its first line (the model folds the lines)
		for _, d := range []*c01PipeCase{tc, tc.after} {
			if d == nil {
				continue
			}
			lines := d.rHdr["Cookie"]
			if len(lines) == 0 && d.cHdr != nil {
				lines = d.cHdr["Cookie"]
			}
			if len(lines) > 1 && len(d.rCk)+len(tc.cCk) > 0 {
				class = "cookie-lines-folded"
				s.Count("class:cookie-lines-folded")
			}
		}
		// the model gets the marshalled bytes as an in-memory body, and the masked Content-Type;
		// ONE line per description: what holds at the first transmission, what holds after the edit
		line := c01PipeLine(tc, tc, false)
		if err != nil || len(capt.attempts) == 0 {
			s.Count("err")
			if tc.after != nil && len(capt.attempts) == 1 {
				// the first transmission went out; the one after the edit was refused
				s.Case(line, capt.attempts[0], true, class, false, "attempt 1 (the transmission after the edit failed): "+human)
				s.Case(c01PipeLine(tc.after, tc, tc.retries > 0), "err", true, class, false, "transmission after the edit: "+human)
				s.Count("edited-transmission-err")
			} else {
				s.Case(line, "err", true, class, false, human)
			}
			continue
		}
		s.Count("sent")
		s.Count("body:" + tc.bodyKind)
		if len(tc.cCk)+len(tc.rCk) > 0 {
			s.Count("cookies")
		}
		wantAttempts := 1 + tc.retries
		if tc.sendAgain {
			wantAttempts = 2
			s.Count("second-send")
		}
		if len(capt.attempts) != wantAttempts {
			s.Observe(fmt.Sprintf("pipe-%d", i), false, "", false, human, fmt.Sprintf("%d attempts reached the transport, want %d", len(capt.attempts), wantAttempts))
		}
		// EVERY attempt — first, retried, sent again — must be the request the calls describe
		for k, a := range capt.attempts {
			if k > 0 {
				s.Count(fmt.Sprintf("attempt:%d", k+1))
			}
			l := line
			if k > 0 && tc.after != nil {
				// resend_reflects_current_description: the transmission after the edit is judged
				// against the model of the CURRENT description (a retry carries Request.Cookies over)
				l = c01PipeLine(tc.after, tc, tc.retries > 0)
				s.Count("edited-transmission")
			}
			s.Case(l, a, true, class, k == 0, fmt.Sprintf("attempt %d of %d: %s", k+1, len(capt.attempts), human))
		}
		// the whole SEQUENCE against the state machine of the model (ResendEdit.run: what each pass
		// writes into Request.Headers / Request.Cookies is carried to the next one by the MODEL)
		if tc.after != nil && len(capt.attempts) == wantAttempts {
			s.Count("resend-sequence")
			s.Case(fmt.Sprintf("c01resend %d ", tc.retries)+strings.TrimPrefix(line, "c01pipe ")+" "+strings.TrimPrefix(c01PipeLine(tc.after, tc, false), "c01pipe "),
				strings.Join(capt.attempts, " | "), true, class, true, "sequence send, edit, "+fmt.Sprintf("%d retries (0 = second send): ", tc.retries)+human)
		}
	}
}

var _ = url.Parse
