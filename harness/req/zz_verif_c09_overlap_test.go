//go:build verif

package req

import (
	"bytes"
	"compress/flate"
	"compress/gzip"
	"fmt"
	"io"
	"net/http"
	"net/http/httptest"
	"runtime"
	"sort"
	"strconv"
	"strings"
	"sync"
	"testing"
	"time"

	"github.com/andybalholm/brotli"
	"github.com/imroc/req/v3/internal/verifh"
	"github.com/klauspost/compress/zstd"
	htmlcharset "golang.org/x/net/html/charset"
	"golang.org/x/text/encoding"
	"golang.org/x/text/transform"

	"math/rand"
)

// Round 6: responses that are alive at the same time and whose bodies go through STATEFUL
// readers (streaming charset decoders: ISO-2022-JP / HZ modes, UTF-16 pairs, multi-byte characters
// cut by a read; decompressors: gzip / deflate / br / zstd windows).  Every caller must receive the
// decoded body of its own response whatever the others read in between: the state a body is decoded
// through belongs to that response (Lean: Req/Pool/DecodeOwner.lean, theorem
// decoder_state_per_response).  Lane `overlap` drives a forced schedule from one goroutine (4..6
// responses on separate HTTP/1.1 connections or multiplexed on one HTTP/2 connection; the origin
// hands out each body piece by piece, the callers read in small interleaved steps); the cases of
// family `iso` are MODEL-judged (driver lane c09decown: what every read barrier delivered), the
// others by a reference decoder of their own per response.  Lane `raceoverlap` is the same class
// with real concurrency (in the -race group).

type c09ovPlan struct {
	ctype, cenc string
	chunks      chan []byte
}

var c09ovPlans sync.Map // id -> *c09ovPlan

func c09ovHandler(w http.ResponseWriter, r *http.Request) {
	v, ok := c09ovPlans.Load(r.Header.Get("X-Resp"))
	if !ok {
		w.WriteHeader(500)
		return
	}
	p := v.(*c09ovPlan)
	w.Header().Set("Content-Type", p.ctype)
	if p.cenc != "" {
		w.Header().Set("Content-Encoding", p.cenc)
	}
	w.Header().Set("X-Resp", r.Header.Get("X-Resp"))
	w.Header().Set("X-Conn", r.RemoteAddr)
	w.WriteHeader(200)
	fl, _ := w.(http.Flusher)
	if fl != nil {
		fl.Flush()
	}
	for ch := range p.chunks {
		if len(ch) > 0 {
			w.Write(ch)
		}
		if fl != nil {
			fl.Flush()
		}
	}
}

// ---- codecs -------------------------------------------------------------------------------

// a reference streaming decoder owned by ONE response (x/text, fresh instance)
type c09ovRef struct {
	tr      transform.Transformer // nil: identity
	pending []byte
}

func (f *c09ovRef) feed(chunk []byte, eof bool) []byte {
	if f.tr == nil {
		return chunk
	}
	src := append(append([]byte(nil), f.pending...), chunk...)
	var out []byte
	dst := make([]byte, 4096)
	for {
		nd, ns, err := f.tr.Transform(dst, src, eof)
		out = append(out, dst[:nd]...)
		src = src[ns:]
		if err == transform.ErrShortDst {
			continue
		}
		break
	}
	f.pending = append([]byte(nil), src...)
	if eof {
		f.pending = nil
	}
	return out
}

var c09ovAlphabets = map[string][]rune{
	"iso-2022-jp":  []rune("abc 012\n日本語漢字東京大阪カタカナひらがな、。"),
	"hz-gb-2312":   []rune("abc 012~\n中文汉字你好世界"),
	"shift_jis":    []rune("abc 012\n日本語漢字ｱｲｳカタカナ"),
	"euc-jp":       []rune("abc 012\n日本語漢字ｱｲｳひらがな"),
	"gbk":          []rune("abc 012\n中文汉字你好世界€"),
	"gb18030":      []rune("abc 012\n中文汉字你好😀ë"),
	"big5":         []rune("abc 012\n中文漢字你好世界"),
	"euc-kr":       []rune("abc 012\n한국어조선말"),
	"utf-16le":     []rune("abc 012\n日本語😀𝄞é한"),
	"utf-16be":     []rune("abc 012\n日本語😀𝄞é한"),
	"utf-16":       []rune("abc 012\n日本語😀𝄞é한"),
	"windows-1252": []rune("abc 012\ncafé naïve £€"),
	"koi8-r":       []rune("abc 012\nПривет мир"),
}

var c09ovCharsets = func() []string {
	var l []string
	for k := range c09ovAlphabets {
		l = append(l, k)
	}
	sort.Strings(l)
	return l
}()

func c09ovText(r *rand.Rand, charset string, n int) string {
	al := c09ovAlphabets[charset]
	var sb strings.Builder
	for i := 0; i < n; i++ {
		sb.WriteRune(al[r.Intn(len(al))])
	}
	return sb.String()
}

func c09ovEncode(charset, text string) []byte {
	enc, _ := htmlcharset.Lookup(charset)
	if enc == nil {
		return []byte(text)
	}
	b, _, err := transform.Bytes(encoding.ReplaceUnsupported(enc.NewEncoder()), []byte(text))
	if err != nil {
		return []byte("?")
	}
	return b
}

func c09ovCut(r *rand.Rand, b []byte, pieces int) [][]byte {
	if pieces < 1 {
		pieces = 1
	}
	cuts := []int{0, len(b)}
	for i := 1; i < pieces; i++ {
		cuts = append(cuts, r.Intn(len(b)+1))
	}
	sort.Ints(cuts)
	var out [][]byte
	for i := 1; i < len(cuts); i++ {
		out = append(out, b[cuts[i-1]:cuts[i]])
	}
	return out
}

type c09ovFlusher interface {
	io.Writer
	Flush() error
}

// compress `pieces` as ONE stream, flushed after every piece: out[i] = the wire bytes of piece i
func c09ovCompress(cenc string, pieces [][]byte) [][]byte {
	var buf bytes.Buffer
	var w c09ovFlusher
	var closer io.Closer
	switch cenc {
	case "gzip":
		z := gzip.NewWriter(&buf)
		w, closer = z, z
	case "deflate":
		z, _ := flate.NewWriter(&buf, 6)
		w, closer = z, z
	case "br":
		z := brotli.NewWriter(&buf)
		w, closer = z, z
	case "zstd":
		z, _ := zstd.NewWriter(&buf, zstd.WithEncoderConcurrency(1))
		w, closer = z, z
	default:
		return pieces
	}
	var out [][]byte
	for i, p := range pieces {
		w.Write(p)
		w.Flush()
		if i == len(pieces)-1 {
			closer.Close()
		}
		out = append(out, append([]byte(nil), buf.Bytes()...))
		buf.Reset()
	}
	return out
}

// ---- one response in a case -----------------------------------------------------------------

type c09ovResp struct {
	id     string
	plan   *c09ovPlan
	family string
	label  string   // charset as written in Content-Type ("" = none)
	wire   [][]byte // what the origin writes, piece by piece
	plain  [][]byte // the same pieces before Content-Encoding (= wire without one)
	ref    *c09ovRef
	firstN int // size of the caller's first read buffer (sniffing looks at the first read only)
	bufN   int

	wantAll []byte // raceoverlap: the whole decoded body

	body io.ReadCloser
	conn string
	mu   sync.Mutex
	acc  []byte
	err  error
}

func (x *c09ovResp) got() []byte {
	x.mu.Lock()
	defer x.mu.Unlock()
	return append([]byte(nil), x.acc...)
}

// read in steps of bufN until `target` bytes have been delivered in all (eof: until the body ends)
func (x *c09ovResp) readUntil(target int, eof bool, limit time.Duration) bool {
	done := make(chan struct{})
	go func() {
		defer close(done)
		for {
			x.mu.Lock()
			n := len(x.acc)
			x.mu.Unlock()
			if !eof && n >= target {
				return
			}
			sz := x.bufN
			if n == 0 && x.firstN > 0 {
				sz = x.firstN
			}
			buf := make([]byte, sz)
			m, err := x.body.Read(buf)
			x.mu.Lock()
			x.acc = append(x.acc, buf[:m]...)
			if err != nil {
				x.err = err
			}
			x.mu.Unlock()
			if err != nil {
				return
			}
		}
	}()
	select {
	case <-done:
		return true
	case <-time.After(limit):
		return false
	}
}

type c09ovStep struct {
	kind byte // 'S' send the next piece of r · 'B' r reads up to what has been sent · 'E' the origin ends r's body and r reads to EOF
	r    int
}

// JIS X 0208 / 0212 entries of x/text for every byte pair a body contains (the model's table parameter)
func c09ovIsoTable(bodies [][]byte) string {
	fresh := func() transform.Transformer {
		enc, _ := htmlcharset.Lookup("iso-2022-jp")
		return enc.NewDecoder()
	}
	seen := map[int]bool{}
	var ents []string
	for _, b := range bodies {
		for i := 0; i+1 < len(b); i++ {
			c0, c1 := b[i], b[i+1]
			if c0 >= 0x80 || c0 == 0x1b || c0 == 0x0a {
				continue
			}
			idx := int(byte(c0-0x21))*94 + int(byte(c1-0x21))
			for set, esc := range []string{"\x1b$B", "\x1b$(D"} {
				key := idx + set*100000
				if seen[key] {
					continue
				}
				seen[key] = true
				out, _, _ := transform.Bytes(fresh(), append([]byte(esc), c0, c1))
				rs := []rune(string(out))
				if len(rs) == 0 || rs[0] == 0xfffd {
					continue
				}
				ents = append(ents, fmt.Sprintf("%d:%d", key, rs[0]))
			}
		}
	}
	if len(ents) == 0 {
		return "-"
	}
	return strings.Join(ents, ",")
}

// byte-level ISO-2022-JP material: escapes (valid, unknown, cut short), one- and two-byte modes
func c09ovIsoRaw(r *rand.Rand, n int) []byte {
	pairs := c09ovEncode("iso-2022-jp", "日本語漢字東京大阪カタカナ")
	var kan [][2]byte
	for i := 3; i+1 < len(pairs) && pairs[i] != 0x1b; i += 2 {
		kan = append(kan, [2]byte{pairs[i], pairs[i+1]})
	}
	var b []byte
	mode := 0
	for len(b) < n {
		switch k := r.Intn(20); {
		case k < 3:
			esc := verifh.Pick(r, []string{"\x1b(B", "\x1b(J", "\x1b(I", "\x1b$B", "\x1b$@", "\x1b$(D", "\x1b$B", "\x1b(I"})
			b = append(b, esc...)
			mode = map[string]int{"\x1b(B": 0, "\x1b(J": 0, "\x1b(I": 1, "\x1b$B": 2, "\x1b$@": 2, "\x1b$(D": 3}[esc]
		case k == 3:
			b = append(b, verifh.Pick(r, []string{"\x1b", "\x1b(X", "\x1b$(X", "\x1b\x1b(I", "\x1b$", "\n"})...)
		case k == 4:
			b = append(b, byte(0x80+r.Intn(128)))
		default:
			switch mode {
			case 1:
				b = append(b, byte(0x21+r.Intn(0x45))) // a few beyond 0x5f
			case 2:
				p := kan[r.Intn(len(kan))]
				b = append(b, p[0], p[1])
			case 3:
				b = append(b, byte(0x30+r.Intn(0x10)), byte(0x21+r.Intn(0x5e)))
			default:
				b = append(b, "abcdefghij0123456789 t1"[r.Intn(23)])
			}
		}
	}
	return b
}

func c09ovMake(r *rand.Rand, family string, idx int, caseID string, sameLabel string) *c09ovResp {
	x := &c09ovResp{id: caseID + "-" + strconv.Itoa(idx), family: family, bufN: verifh.Pick(r, []int{1, 2, 3, 5, 8, 13, 32})}
	x.plan = &c09ovPlan{chunks: make(chan []byte, 16)}
	size := verifh.Pick(r, []int{6, 20, 60, 200, 200, 900, 5000})
	pieces := 2 + r.Intn(5)
	tag := fmt.Sprintf("tag=%s;", x.id)
	switch family {
	case "iso":
		x.label = verifh.Pick(r, []string{"iso-2022-jp", "iso-2022-jp", "ISO-2022-JP", "csiso2022jp"})
		if sameLabel != "" {
			x.label = sameLabel
		}
		if size > 900 {
			size = 900
		}
		raw := append([]byte(tag), c09ovIsoRaw(r, size)...)
		x.plan.ctype = "text/plain; charset=" + x.label
		x.wire = c09ovCut(r, raw, pieces)
		x.plain = x.wire
	case "charset", "compress":
		cs := verifh.Pick(r, c09ovCharsets)
		if sameLabel != "" {
			cs = sameLabel
		}
		x.label = cs
		raw := c09ovEncode(cs, tag+c09ovText(r, cs, size))
		if r.Intn(6) == 0 { // some garbage too
			raw = append(raw, []byte(verifh.RandBytes(r, 5, "\x1b$(BIJ~{}\x80\xff\xfea"))...)
		}
		x.plan.ctype = verifh.Pick(r, []string{"text/plain", "text/html", "application/json"}) + "; charset=" + cs
		x.plain = c09ovCut(r, raw, pieces)
		x.wire = x.plain
		if family == "compress" {
			x.plan.cenc = verifh.Pick(r, []string{"gzip", "deflate", "br", "zstd"})
			if r.Intn(4) == 0 { // a decompressor alone, body not text
				x.plan.ctype = "application/octet-stream"
				x.label = ""
			}
			x.wire = c09ovCompress(x.plan.cenc, x.plain)
		}
	case "sniff":
		cs := verifh.Pick(r, []string{"iso-2022-jp", "shift_jis", "euc-kr", "gbk", "bom-le", "bom-be"})
		if sameLabel != "" && c09ovAlphabets[sameLabel] != nil {
			cs = sameLabel
		}
		if strings.HasPrefix(cs, "utf-16") { // a <meta> in UTF-16 cannot be sniffed: the BOM is
			cs = map[string]string{"utf-16be": "bom-be"}[cs]
			if cs == "" {
				cs = "bom-le"
			}
		}
		x.plan.ctype = "text/html"
		x.firstN = 4096
		var first, rest []byte
		switch cs {
		case "bom-le", "bom-be":
			name := map[string]string{"bom-le": "utf-16le", "bom-be": "utf-16be"}[cs]
			bom := map[string]string{"bom-le": "\xff\xfe", "bom-be": "\xfe\xff"}[cs]
			first = append([]byte(bom), c09ovEncode(name, tag)...)
			rest = c09ovEncode(name, c09ovText(r, name, size))
			x.label = name
		default:
			first = c09ovEncode(cs, `<meta charset="`+cs+`">`+tag)
			rest = c09ovEncode(cs, c09ovText(r, cs, size))
			x.label = cs
		}
		x.plain = append([][]byte{first}, c09ovCut(r, rest, pieces)...)
		x.wire = x.plain
	}
	x.ref = x.newRef()
	return x
}

// a reference decoder of this response's own, fresh
func (x *c09ovResp) newRef() *c09ovRef {
	f := &c09ovRef{}
	if x.label != "" {
		if enc, _ := htmlcharset.Lookup(x.label); enc != nil && !strings.Contains(strings.ToLower(x.label), "utf-8") {
			f.tr = enc.NewDecoder()
		}
	}
	return f
}

// A read barrier is only scheduled when the pieces sent so far end on a character boundary:
// transform.Reader, finding an incomplete character / escape sequence at the end of its source,
// asks the body for more BEFORE handing out what it has decoded, i.e. the caller's Read would wait
// for the next piece (x/text behaviour, nothing the property forbids).
func c09ovSchedule(r *rand.Rand, rs []*c09ovResp) []c09ovStep {
	sent := make([]int, len(rs))
	simFed := make([]int, len(rs))
	sim := make([]*c09ovRef, len(rs))
	for i, x := range rs {
		sim[i] = x.newRef()
	}
	pend := make([]bool, len(rs))
	ended := make([]bool, len(rs))
	var steps []c09ovStep
	live := len(rs)
	for live > 0 {
		i := r.Intn(len(rs))
		if ended[i] {
			continue
		}
		send := func() {
			steps = append(steps, c09ovStep{'S', i})
			sent[i]++
			pend[i] = true
		}
		switch {
		case sent[i] < len(rs[i].wire) && (!pend[i] || r.Intn(3) == 0):
			send()
		case pend[i]:
			for simFed[i] < sent[i] {
				sim[i].feed(rs[i].plain[simFed[i]], false)
				simFed[i]++
			}
			if len(sim[i].pending) == 0 {
				steps = append(steps, c09ovStep{'B', i})
				pend[i] = false
			} else if sent[i] < len(rs[i].wire) {
				send()
			} else {
				steps = append(steps, c09ovStep{'E', i})
				ended[i] = true
				live--
			}
		default:
			steps = append(steps, c09ovStep{'E', i})
			ended[i] = true
			live--
		}
	}
	return steps
}

type c09ovCase struct {
	id, proto, family string
	rs                []*c09ovResp
	steps             []c09ovStep
	line, hum         string
}

func c09ovServers() (h1, h2 *httptest.Server) {
	h1 = httptest.NewServer(http.HandlerFunc(c09ovHandler))
	h2 = httptest.NewUnstartedServer(http.HandlerFunc(c09ovHandler))
	h2.EnableHTTP2 = true
	h2.StartTLS()
	return
}

func c09ovClient(proto string) *Client {
	c := C().SetTimeout(20 * time.Second).EnableAutoDecompress()
	if proto == "h2" {
		c.EnableInsecureSkipVerify().EnableForceHTTP2()
	} else {
		c.EnableForceHTTP1()
	}
	return c
}

// start all requests of a case; returns when every caller holds its response (headers in, body unread)
func c09ovOpen(c *Client, base string, rs []*c09ovResp) error {
	errs := make([]error, len(rs))
	var wg sync.WaitGroup
	for i, x := range rs {
		c09ovPlans.Store(x.id, x.plan)
		wg.Add(1)
		go func(i int, x *c09ovResp) {
			defer wg.Done()
			resp, err := c.R().DisableAutoReadResponse().SetHeader("X-Resp", x.id).Get(base + "/r")
			if err != nil {
				errs[i] = err
				return
			}
			if resp.Header.Get("X-Resp") != x.id {
				errs[i] = fmt.Errorf("response head of %s delivered to the caller of %s", resp.Header.Get("X-Resp"), x.id)
			}
			x.body = resp.Body
			x.conn = resp.Header.Get("X-Conn")
		}(i, x)
	}
	wg.Wait()
	for _, e := range errs {
		if e != nil {
			return e
		}
	}
	return nil
}

func c09ovCloseAll(c *Client, rs []*c09ovResp, closed []bool) {
	for i, x := range rs {
		if closed == nil || !closed[i] {
			func() {
				defer func() { recover() }()
				close(x.plan.chunks)
			}()
		}
		if x.body != nil {
			x.body.Close()
		}
		c09ovPlans.Delete(x.id)
	}
	c.GetTransport().CloseIdleConnections()
}

func c09ovQ(b []byte) string {
	if len(b) > 60 {
		return fmt.Sprintf("%q…(%d B)", b[:60], len(b))
	}
	return fmt.Sprintf("%q", b)
}

func TestVerif_C09_overlap(t *testing.T) {
	s := verifh.New(t, "C09", "overlap",
		"4..6 responses alive at the same time on one client — each on its own HTTP/1.1 connection, or all multiplexed on ONE HTTP/2 connection — whose bodies go through stateful readers; the origin hands out every body piece by piece (2..6 pieces, cut anywhere: inside escape sequences, two-byte characters, surrogate pairs), one goroutine drives a random interleaving of `origin sends the next piece of r` / `caller r reads, in steps of 1..32 bytes, up to what has been sent` / `origin ends r, caller r reads to EOF`. Families: iso (MODEL-judged, driver lane c09decown with x/text's JIS tables for the pairs that occur: Content-Type charset=iso-2022-jp in three spellings, byte-level material: valid / unknown / truncated escapes, ASCII, half-width katakana, JIS X 0208 / 0212 pairs, bytes >= 0x80, LF in two-byte mode; what EVERY read barrier delivered is compared), charset (13 charsets through Content-Type incl. ISO-2022-JP, HZ-GB-2312, UTF-16LE/BE with surrogate pairs, Shift_JIS, EUC-JP/KR, GBK, GB18030, Big5; several responses of a case share the charset), compress (Content-Encoding gzip / deflate / br / zstd, one stream flushed per piece, stacked under a charset decoder or alone), sniff (no charset parameter: <meta charset> or UTF-16 BOM in the first piece, found by the first 4096-byte read); oracle for all: at every barrier the caller has exactly what a reference decoder OF ITS OWN makes of the pieces sent so far, and the whole body at EOF; non-trivial = at least 4 responses overlapped (h2: on one connection; h1: on pairwise distinct connections) and at least two of them used the same charset / coding")
	r := s.Rand()
	n := verifh.N(150, 2500)
	h1, h2 := c09ovServers()
	defer h1.Close()
	defer h2.Close()

	var all []*c09ovCase
	var lines []string
	for ci := 0; ci < n; ci++ {
		cs := &c09ovCase{id: fmt.Sprintf("ov%d", ci)}
		cs.proto = verifh.Pick(r, []string{"h1", "h2"})
		cs.family = verifh.Pick(r, []string{"iso", "iso", "iso", "charset", "charset", "compress", "compress", "sniff"})
		k := 4 + r.Intn(3)
		same := ""
		if cs.family == "charset" || cs.family == "compress" || cs.family == "sniff" {
			same = verifh.Pick(r, []string{"iso-2022-jp", "iso-2022-jp", "hz-gb-2312", "utf-16le", "utf-16", "shift_jis", "euc-kr", "gb18030"})
		}
		for i := 0; i < k; i++ {
			sl := ""
			if i < 2 || r.Intn(2) == 0 {
				sl = same
			}
			cs.rs = append(cs.rs, c09ovMake(r, cs.family, i, cs.id, sl))
		}
		cs.steps = c09ovSchedule(r, cs.rs)
		var hum []string
		for i, x := range cs.rs {
			hum = append(hum, fmt.Sprintf("r%d %s %q enc=%q %d pieces %d B read-buf %d", i, cs.proto, x.plan.ctype, x.plan.cenc, len(x.wire), len(bytes.Join(x.plain, nil)), x.bufN))
		}
		var sch []string
		for _, st := range cs.steps {
			sch = append(sch, fmt.Sprintf("%c%d", st.kind, st.r))
		}
		cs.hum = cs.family + ": " + strings.Join(hum, " | ") + " || " + strings.Join(sch, " ")
		if cs.family == "iso" {
			// the model's ops: wrap in index order is fine (wraps are independent), then one feed per barrier / end
			labels := map[string]int{}
			var ops []string
			var bodies [][]byte
			for i, x := range cs.rs {
				l := strings.ToLower(x.label)
				if _, ok := labels[l]; !ok {
					labels[l] = len(labels) + 1
				}
				ops = append(ops, fmt.Sprintf("w%d:%d", i, labels[l]))
				bodies = append(bodies, bytes.Join(x.wire, nil))
			}
			sent := make([]int, k)
			fedTo := make([]int, k)
			for _, st := range cs.steps {
				switch st.kind {
				case 'S':
					sent[st.r]++
				case 'B':
					ops = append(ops, fmt.Sprintf("f%d:%s:0", st.r, verifh.Hex(string(bytes.Join(cs.rs[st.r].wire[fedTo[st.r]:sent[st.r]], nil)))))
					fedTo[st.r] = sent[st.r]
				case 'E':
					ops = append(ops, fmt.Sprintf("f%d:%s:1", st.r, verifh.Hex(string(bytes.Join(cs.rs[st.r].wire[fedTo[st.r]:sent[st.r]], nil)))))
					fedTo[st.r] = sent[st.r]
				}
			}
			cs.line = "c09decown 0 " + c09ovIsoTable(bodies) + " " + strings.Join(ops, "/")
			lines = append(lines, cs.line)
		}
		all = append(all, cs)
	}
	answers, err := verifh.RunModel(lines)
	if err != nil {
		t.Fatalf("model: %v", err)
	}
	ai := 0
	nBad, nSkip := 0, 0
	for _, cs := range all {
		var pred []string
		if cs.family == "iso" {
			pred = verifh.UnHexList(answers[ai])
			ai++
		}
		if nBad >= 3 {
			break
		}
		s.Begin(cs.id, cs.hum)
		base := h1.URL
		if cs.proto == "h2" {
			base = h2.URL
		}
		c := c09ovClient(cs.proto)
		if err := c09ovOpen(c, base, cs.rs); err != nil {
			c09ovCloseAll(c, cs.rs, nil)
			if strings.Contains(err.Error(), "delivered to the caller") {
				s.Observe(cs.id, false, "", false, cs.hum, err.Error())
				nBad++
			} else {
				s.Count("skipped:open-failed")
				nSkip++
			}
			continue
		}
		k := len(cs.rs)
		sent := make([]int, k)
		closed := make([]bool, k)
		want := make([][]byte, k) // reference: what r's own decoder has produced so far
		refFed := make([]int, k)
		model := make([][]byte, k) // model: the same from the driver's answers
		pi := 0
		var impl []string
		ok := true
		var detail []string
		last := make([]int, k)
		for _, st := range cs.steps {
			x := cs.rs[st.r]
			switch st.kind {
			case 'S':
				x.plan.chunks <- x.wire[sent[st.r]]
				sent[st.r]++
				continue
			case 'B', 'E':
				eof := st.kind == 'E'
				for refFed[st.r] < sent[st.r] {
					want[st.r] = append(want[st.r], x.ref.feed(x.plain[refFed[st.r]], false)...)
					refFed[st.r]++
				}
				if eof {
					want[st.r] = append(want[st.r], x.ref.feed(nil, true)...)
					close(x.plan.chunks)
					closed[st.r] = true
				}
				target := len(want[st.r])
				if pred != nil && pi < len(pred) {
					model[st.r] = append(model[st.r], pred[pi]...)
					target = len(model[st.r])
				}
				fin := x.readUntil(target, eof, 4*time.Second)
				got := x.got()
				if pred != nil {
					d := got[min(last[st.r], len(got)):]
					impl = append(impl, string(d))
					pi++
				}
				last[st.r] = len(got)
				if !fin {
					ok = false
					detail = append(detail, fmt.Sprintf("caller r%d: only %d of the %d bytes its own decoder has produced arrived within 4 s (got %s, want %s)", st.r, len(got), target, c09ovQ(got), c09ovQ(want[st.r])))
				} else if !bytes.Equal(got, want[st.r]) {
					ok = false
					detail = append(detail, fmt.Sprintf("caller r%d (%c) received %s, its own decoder gives %s", st.r, st.kind, c09ovQ(got), c09ovQ(want[st.r])))
				} else if eof && x.err != io.EOF {
					ok = false
					detail = append(detail, fmt.Sprintf("caller r%d: body ended with %v", st.r, x.err))
				}
			}
			if !ok {
				break
			}
		}
		conns := map[string]int{}
		for _, x := range cs.rs {
			conns[x.conn]++
		}
		c09ovCloseAll(c, cs.rs, closed)
		labels := map[string]int{}
		shareLabel := false
		for _, x := range cs.rs {
			labels[strings.ToLower(x.label)+"/"+x.plan.cenc]++
			if labels[strings.ToLower(x.label)+"/"+x.plan.cenc] >= 2 {
				shareLabel = true
			}
		}
		nontriv := shareLabel && ((cs.proto == "h2" && len(conns) == 1) || (cs.proto == "h1" && len(conns) == k))
		s.Count("family-" + cs.family)
		s.Count("proto-" + cs.proto)
		if nontriv {
			s.Count("overlap>=4-same-codec-" + cs.proto)
		}
		for _, x := range cs.rs {
			if x.plan.cenc != "" {
				s.Count("coding-" + x.plan.cenc)
			}
			if l := strings.ToLower(x.label); l == "iso-2022-jp" || l == "hz-gb-2312" || strings.HasPrefix(l, "utf-16") {
				s.Count("stateful-charset-" + l)
			}
		}
		if cs.family == "iso" {
			for len(impl) < len(pred) { // steps not reached after a failure
				impl = append(impl, "")
			}
			s.Case(cs.line, verifh.HexList(impl), ok, "", nontriv, cs.hum+" || "+strings.Join(detail, "; "))
			if !ok || verifh.HexList(impl) != answers[ai-1] {
				nBad++
			}
		} else {
			s.Observe(cs.id, ok, "", nontriv, cs.hum, strings.Join(detail, "; "))
			if !ok {
				nBad++
			}
		}
	}
	if nSkip*10 > len(all) {
		t.Errorf("%d of %d cases could not be opened", nSkip, len(all))
	}
	s.Finish()
}

// TestVerif_C09_raceoverlap: the same class with real concurrency: 4..8 goroutines of one client
// fetch, round after round in lock step, bodies of their own in stateful codings and read them in
// small steps while the others do the same (oracle: the body of one's own request; `-race` in the
// thorough tier).
func TestVerif_C09_raceoverlap(t *testing.T) {
	s := verifh.New(t, "C09", "raceoverlap",
		"4..8 goroutines on one client (HTTP/1.1: a connection each; HTTP/2: one connection), 3..6 rounds started in lock step; each round every goroutine fetches a body of its own — charset family (all of one round often the same stateful charset: iso-2022-jp / hz-gb-2312 / utf-16) or compress family — delivered by the origin in its pieces without waiting, and reads it in steps of 1..32 bytes with runtime.Gosched between reads; oracle: the whole body = what a reference decoder of its own makes of the bytes sent; non-trivial = at least 4 callers per round")
	r := s.Rand()
	n := verifh.N(30, 300)
	h1, h2 := c09ovServers()
	defer h1.Close()
	defer h2.Close()
	nBad := 0
	for ci := 0; ci < n && nBad < 3; ci++ {
		proto := verifh.Pick(r, []string{"h1", "h2"})
		g := 4 + r.Intn(5)
		rounds := 3 + r.Intn(4)
		family := verifh.Pick(r, []string{"charset", "charset", "compress", "sniff"})
		same := verifh.Pick(r, []string{"iso-2022-jp", "iso-2022-jp", "hz-gb-2312", "utf-16le", "shift_jis", ""})
		id := fmt.Sprintf("rov%d", ci)
		plan := make([][]*c09ovResp, rounds)
		for ro := range plan {
			for i := 0; i < g; i++ {
				x := c09ovMake(r, family, ro*100+i, id, same)
				for _, w := range x.wire {
					x.plan.chunks <- w
				}
				close(x.plan.chunks)
				var want []byte
				for _, p := range x.plain {
					want = append(want, x.ref.feed(p, false)...)
				}
				x.wantAll = append(want, x.ref.feed(nil, true)...)
				plan[ro] = append(plan[ro], x)
				c09ovPlans.Store(x.id, x.plan)
			}
		}
		hum := fmt.Sprintf("%s %s same=%q goroutines=%d rounds=%d", proto, family, same, g, rounds)
		s.Begin(id, hum)
		c := c09ovClient(proto)
		base := h1.URL
		if proto == "h2" {
			base = h2.URL
		}
		var mu sync.Mutex
		var detail []string
		var wg sync.WaitGroup
		barrier := make([]sync.WaitGroup, rounds)
		for ro := range barrier {
			barrier[ro].Add(g)
		}
		for i := 0; i < g; i++ {
			wg.Add(1)
			go func(i int) {
				defer wg.Done()
				for ro := 0; ro < rounds; ro++ {
					x := plan[ro][i]
					resp, err := c.R().DisableAutoReadResponse().SetHeader("X-Resp", x.id).Get(base + "/r")
					barrier[ro].Done()
					barrier[ro].Wait() // everybody holds a response of this round
					if err != nil {
						mu.Lock()
						detail = append(detail, fmt.Sprintf("g%d round %d: %v", i, ro, err))
						mu.Unlock()
						continue
					}
					var got []byte
					first := true
					for {
						sz := x.bufN
						if first && x.firstN > 0 {
							sz = x.firstN
						}
						first = false
						buf := make([]byte, sz)
						m, err := resp.Body.Read(buf)
						got = append(got, buf[:m]...)
						if err != nil {
							break
						}
						runtime.Gosched()
					}
					resp.Body.Close()
					if !bytes.Equal(got, x.wantAll) {
						mu.Lock()
						detail = append(detail, fmt.Sprintf("g%d round %d (%q enc=%q) received %s, its own decoder gives %s", i, ro, x.plan.ctype, x.plan.cenc, c09ovQ(got), c09ovQ(x.wantAll)))
						mu.Unlock()
					}
				}
			}(i)
		}
		wg.Wait()
		for ro := range plan {
			for _, x := range plan[ro] {
				c09ovPlans.Delete(x.id)
			}
		}
		c.GetTransport().CloseIdleConnections()
		s.Count("proto-" + proto)
		s.Count("family-" + family)
		if len(detail) > 4 {
			detail = detail[:4]
		}
		s.Observe(id, len(detail) == 0, "", g >= 4, hum, strings.Join(detail, "; "))
		if len(detail) > 0 {
			nBad++
		}
	}
	s.Finish()
}
