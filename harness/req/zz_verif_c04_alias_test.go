//go:build verif

package req

// C04 round 5 — `alias` lane: the header LINE reader (readContinuedLineSlice over bufio.Reader)
// under network segmentation at EVERY byte position of the header block, for small read buffers.
// MODEL-JUDGED: the Lean side (`c04alias` = Req.H1.BufAlias.aheadLines) keeps bufio's buffer as an
// explicit array and the lines as views into it; the Go side copies every returned slice at
// return time, so a line that is overwritten by a refill while it still aliases the buffer shows
// by CONTENT.  Second opinion (propOK): the fork's whole readMIMEHeader against
// net/textproto.Reader.ReadMIMEHeader on the same segments.

import (
	"bufio"
	"fmt"
	"io"
	"math"
	"net"
	"net/http"
	"net/textproto"
	"strconv"
	"strings"
	"testing"
	"time"

	"github.com/imroc/req/v3/internal/dump"
	"github.com/imroc/req/v3/internal/verifh"
)

// c04SegReader delivers exactly the given segments (a Read smaller than the segment takes part of
// it), then io.EOF.
type c04SegReader struct {
	segs [][]byte
}

func (c *c04SegReader) Read(p []byte) (int, error) {
	for len(c.segs) > 0 && len(c.segs[0]) == 0 {
		c.segs = c.segs[1:]
	}
	if len(c.segs) == 0 {
		return 0, io.EOF
	}
	if len(p) == 0 {
		return 0, nil
	}
	n := copy(p, c.segs[0])
	c.segs[0] = c.segs[0][n:]
	return n, nil
}

// c04SegConn: the segments as a net.Conn (for persistConn).
type c04SegConn struct{ c04SegReader }

func (c *c04SegConn) Write(p []byte) (int, error)        { return len(p), nil }
func (c *c04SegConn) Close() error                       { return nil }
func (c *c04SegConn) LocalAddr() net.Addr                { return &net.TCPAddr{} }
func (c *c04SegConn) RemoteAddr() net.Addr               { return &net.TCPAddr{} }
func (c *c04SegConn) SetDeadline(t time.Time) error      { return nil }
func (c *c04SegConn) SetReadDeadline(t time.Time) error  { return nil }
func (c *c04SegConn) SetWriteDeadline(t time.Time) error { return nil }

// c04AheadFork: persistConn._readResponse over the segments; the head only, then everything unread.
func c04AheadFork(segs [][]byte, B int, method string) (ans string) {
	txt, p := verifh.Safely(func() {
		conn := &c04SegConn{c04SegReader{segs: c04CloneSegs(segs)}}
		pc := &persistConn{t: &Transport{}, conn: conn}
		pc.br = bufio.NewReaderSize(pc, B)
		pc.readLimit = pc.maxHeaderResponseSize()
		req, _ := http.NewRequest(method, "http://verif.invalid/", nil)
		resp, err := pc._readResponse(req)
		if err != nil || resp == nil {
			ans = "rej:" + c04ErrClass(err)
			return
		}
		pc.readLimit = maxInt64
		te := "0"
		if len(resp.TransferEncoding) == 1 && resp.TransferEncoding[0] == "chunked" {
			te = "1"
		} else if len(resp.TransferEncoding) != 0 {
			te = "?" + strings.Join(resp.TransferEncoding, ",")
		}
		cl := "0"
		if resp.Close {
			cl = "1"
		}
		rest, _ := io.ReadAll(pc.br)
		ans = "ok proto=" + verifh.Hex(resp.Proto) + " status=" + verifh.Hex(resp.Status) +
			" code=" + strconv.Itoa(resp.StatusCode) + " ver=" + strconv.Itoa(resp.ProtoMajor) + "." + strconv.Itoa(resp.ProtoMinor) +
			" hdr=" + c04RenderMap(resp.Header) + " cl=" + strconv.FormatInt(resp.ContentLength, 10) +
			" te=" + te + " close=" + cl + " framing=" + c04DerivedFraming(resp, resp.Body == NoBody) +
			" rest=" + verifh.Hex(string(rest))
	})
	if p {
		ans = "panic:" + txt
	}
	return
}

// c04BlankLedBlock: the byte behind the first line is a blank (readMIMEHeader's initial-line exit).
func c04BlankLedBlock(stream string) bool {
	i := strings.IndexByte(stream, '\n')
	return i >= 0 && i+1 < len(stream) && (stream[i+1] == ' ' || stream[i+1] == '\t')
}

func c04SplitAt(s string, cuts ...int) [][]byte {
	var out [][]byte
	prev := 0
	for _, c := range cuts {
		if c <= prev || c >= len(s) {
			continue
		}
		out = append(out, []byte(s[prev:c]))
		prev = c
	}
	out = append(out, []byte(s[prev:]))
	return out
}

func c04CloneSegs(segs [][]byte) [][]byte {
	out := make([][]byte, len(segs))
	for i, s := range segs {
		out[i] = append([]byte(nil), s...)
	}
	return out
}

// c04AliasFork: readContinuedLineSlice until the blank line or the first error.
func c04AliasFork(segs [][]byte, B int, dumpOn bool) (ans string, nlines int) {
	br := bufio.NewReaderSize(&c04SegReader{segs: c04CloneSegs(segs)}, B)
	var ds dump.Dumpers
	if dumpOn {
		// the dumping readLine closure (ReadSlice-based) instead of bufio.ReadLine
		d := newDumper(&DumpOptions{Output: io.Discard, ResponseHeader: true})
		go d.Start()
		defer d.Stop()
		ds = dump.Dumpers{d}
	}
	tr := newTextprotoReader(br, ds)
	var lines []string
	ending := ""
	for i := 0; i < 100000; i++ {
		kv, err := tr.readContinuedLineSlice(math.MaxInt64, mustHaveFieldNameColon)
		if err != nil {
			if _, ok := err.(protocolError); ok {
				ending = "invalid"
			} else if err == io.EOF {
				ending = "err:eof"
			} else {
				ending = "err:other"
			}
			break
		}
		if len(kv) == 0 {
			ending = "blank"
			break
		}
		lines = append(lines, string(kv)) // the copy at return time
	}
	rest, _ := io.ReadAll(br)
	return "lines=" + verifh.HexList(lines) + " end=" + ending + " rest=" + verifh.Hex(string(rest)), len(lines)
}

// c04AliasMimeModel renders the fork's ReadMIMEHeader in the format of the `c04amime` driver lane.
func c04AliasMimeModel(segs [][]byte, B int) string {
	first := byte(0)
	for _, sg := range segs {
		if len(sg) > 0 {
			first = sg[0]
			break
		}
	}
	if first == ' ' || first == '\t' || first == 0 && len(segs) == 0 {
		return "n/a"
	}
	br := bufio.NewReaderSize(&c04SegReader{segs: c04CloneSegs(segs)}, B)
	m, err := newTextprotoReader(br, nil).ReadMIMEHeader()
	if err != nil {
		return "err=" + c04ErrClass(err)
	}
	rest, _ := io.ReadAll(br)
	return c04RenderMap(m) + " err=- rest=" + verifh.Hex(string(rest))
}

func c04AliasMime(segs [][]byte, B int, ref bool) string {
	br := bufio.NewReaderSize(&c04SegReader{segs: c04CloneSegs(segs)}, B)
	var h map[string][]string
	var err error
	if ref {
		var m textproto.MIMEHeader
		m, err = textproto.NewReader(br).ReadMIMEHeader()
		h = m
	} else {
		var m textproto.MIMEHeader
		m, err = newTextprotoReader(br, nil).ReadMIMEHeader()
		h = m
	}
	rest, _ := io.ReadAll(br)
	return fmt.Sprintf("%s err=%s rest=%x", c04RenderMap(h), c04ErrClass(err), rest)
}

// c04AliasHeads: header blocks (no status line) that exercise every path of the line reader.
func c04AliasHeads() []string {
	p := func(n int) string { return strings.Repeat("p", n) }
	return []string{
		"A: bcd\r\nE: fgh\r\nI: jkl\r\n\r\nrest",                                // lines shorter than the smallest buffer
		"X-Token: abcdefgh\r\nFoo: bar\r\nContent-Length: 4\r\n\r\nBODY",        // the plain case
		"A: 1\nB: 2\n\nrest",                                                    // bare LF
		"A: 1\r\n b\r\n\tc\r\nB: 2\r\n   d   \r\n\r\nrest",                      // folding
		"A:  v  \r\n \r\nB:\t w\t\r\n\r\n",                                      // blanks to trim, empty continuation
		"Long: " + p(70) + "\r\nK: v\r\n\r\n",                                   // fragments (isPrefix) for B = 16..64
		"L: " + p(12) + "\r\nM: " + p(13) + "\r\nN: " + p(11) + "\r\n\r\n",      // CRLF straddling a 16-byte buffer
		"L: " + p(28) + "\r\nM: " + p(29) + "\r\nN: " + p(27) + "\r\n\r\n",      // ... a 32-byte buffer
		"K: v\r\n1digit: x\r\n-dash: y\r\n\r\n",                                 // next line not starting with a letter: slow path
		"K: v\r\n\rX: y\r\n\r\n",                                                // CR not followed by LF
		"K: v\r\nno colon here\r\nZ: 1\r\n\r\n",                                 // invalid line
		"K: v\r\nQ: unterminated",                                               // EOF inside a line
		"K: v\r\nQ: w\r\n fold then eof",                                        // EOF inside a continuation
		"K: v\r\nQ: w\r\n ",                                                     // EOF right after the blank
		"\r\nafter",                                                             // blank first
		"K: " + p(9) + "\r\nAb: cd\r\nEf: gh\r\n x\r\nIj: kl\r\n\r\n0123456789", // short lines, long tail to overwrite with
	}
}

func TestVerif_C04_alias(t *testing.T) {
	s := verifh.New(t, "C04", "alias",
		"header blocks (short lines, bare LF, folded, blank-padded, longer than the buffer, CRLF straddling the buffer end, non-letter line starts, invalid lines, EOF at every kind of place) x read buffer {16,17,32,64} x "+
			"EVERY segmentation into two segments, every one with a 1-byte and a 2-byte middle segment, all-1-byte; then random header blocks from the ref lane's grammar under random segmentations; "+
			"readContinuedLineSlice is called until the blank line / first error and every returned slice is copied at return time: compared with the explicit-array bufio model (lines by content, ending, unread rest); "+
			"the same with response-header dump on (the ReadSlice-based dumping readLine closure) must give the same answer; "+
			"second opinion: fork readMIMEHeader = net/textproto ReadMIMEHeader on the same segments; non-trivial = at least one line was returned")
	cnt := &c04Counter{s: s, m: map[string]int{}}
	r := s.Rand()
	run := func(stream string, segs [][]byte, B int) {
		ans, n := c04AliasFork(segs, B, false)
		ansDump, _ := c04AliasFork(segs, B, true)
		var hs []string
		for _, sg := range segs {
			hs = append(hs, string(sg))
		}
		ok := c04AliasMime(segs, B, false) == c04AliasMime(segs, B, true)
		if !ok {
			cnt.Count("fork!=textproto")
		}
		switch {
		case strings.Contains(ans, "end=blank"):
			cnt.Count("end-blank")
		case strings.Contains(ans, "end=invalid"):
			cnt.Count("end-invalid")
		case strings.Contains(ans, "end=err:eof"):
			cnt.Count("end-eof")
		}
		if len(segs) > 1 {
			// the segment boundary one byte into a line: the previous segment ends with "\n" + 1 byte
			for _, sg := range segs[:len(segs)-1] {
				if len(sg) >= 2 && sg[len(sg)-2] == '\n' {
					cnt.Count("segment-ends-one-byte-into-line")
					break
				}
			}
		}
		s.Case(fmt.Sprintf("c04alias %d %s", B, verifh.HexList(hs)), ans, ok, "", n > 0,
			fmt.Sprintf("B=%d segments %q -> %s", B, hs, c04Short(ans)))
		// the whole header-block loop (lines + map building) against the model's amimeLoop, which is
		// proved equal to the whole-stream mimeLoopE (head_incremental_is_whole_stream)
		mm := c04AliasMimeModel(segs, B)
		if mm != "n/a" {
			cnt.Count("amime")
			if strings.HasPrefix(mm, "err=") {
				cnt.Count("amime-" + mm)
			}
		}
		s.Case(fmt.Sprintf("c04amime %d %s", B, verifh.HexList(hs)), mm, ok, "", mm != "n/a" && !strings.HasPrefix(mm, "err="),
			fmt.Sprintf("B=%d segments %q -> ReadMIMEHeader %s", B, hs, c04Short(mm)))
		if ansDump != ans {
			// response-header dump on: the same lines must come back (judged by the same model line)
			cnt.Count("dump-on-differs")
			s.Case(fmt.Sprintf("c04alias %d %s", B, verifh.HexList(hs)), ansDump, false, "", n > 0,
				fmt.Sprintf("B=%d segments %q, response-header dump ON -> %s (dump off -> %s)", B, hs, c04Short(ansDump), c04Short(ans)))
		} else {
			cnt.Count("dump-on-same")
		}
	}
	for _, h := range c04AliasHeads() {
		for _, B := range []int{16, 17, 32, 64} {
			run(h, c04SplitAt(h), B)
			ones := make([]int, 0, len(h))
			for i := 1; i < len(h); i++ {
				ones = append(ones, i)
			}
			run(h, c04SplitAt(h, ones...), B)
			for p := 1; p < len(h); p++ {
				run(h, c04SplitAt(h, p), B)
				run(h, c04SplitAt(h, p, p+1), B)
				run(h, c04SplitAt(h, p, p+2), B)
				cnt.Count("every-position")
			}
		}
	}
	// the whole response head (_readResponse) over the explicit-array model (c04ahead = aparseHead,
	// proved equal to the whole-stream parseHeadE: response_head_incremental_is_whole_stream)
	runHead := func(stream string, segs [][]byte, B int, method string) {
		if c04BlankLedBlock(stream) {
			cnt.Count("ahead-blank-led-skipped")
			return
		}
		var hs []string
		for _, sg := range segs {
			hs = append(hs, string(sg))
		}
		ans := c04AheadFork(segs, B, method)
		m := "G"
		if method == "HEAD" {
			m = "H"
		}
		cnt.Count("ahead")
		if strings.HasPrefix(ans, "ok ") {
			cnt.Count("ahead-ok")
		} else {
			cnt.Count("ahead-" + strings.SplitN(ans, " ", 2)[0])
		}
		s.Case(fmt.Sprintf("c04ahead %s %d %s", m, B, verifh.HexList(hs)), ans, true, "", strings.HasPrefix(ans, "ok "),
			fmt.Sprintf("%s B=%d segments %q -> %s", method, B, hs, c04Short(ans)))
	}
	for _, st := range []string{"HTTP/1.1 200 OK\r\n", "HTTP/1.0 404 Not Found\n", "HTTP/1.1 204\r\n"} {
		for _, h := range c04AliasHeads() {
			msg := st + h
			for _, B := range []int{16, 64} {
				runHead(msg, c04SplitAt(msg), B, "GET")
				for p := 1; p < len(msg); p++ {
					runHead(msg, c04SplitAt(msg, p), B, "GET")
				}
			}
		}
	}
	for _, msg := range []string{
		"HTTP/1.1 200 OK\r\nTransfer-Encoding: chunked\r\nTrailer: X-T\r\nConnection: x\r\nconnection: close\r\n\r\n5\r\nhello\r\n0\r\n\r\n",
		"HTTP/1.1 200 OK\r\nContent-Length: 5\r\nContent-Length: 5\r\nPragma: no-cache\r\n\r\nhelloNEXT",
		"HTTP/1.1 200 OK\r\nContent-Length: 5\r\nContent-Length: 6\r\n\r\nhello",
		"HTTP/1.1 200 OK\r\nTransfer-Encoding: gzip\r\n\r\n",
		"HTTP/1.1 2x0 OK\r\nContent-Length: 5\r\n\r\nhello",
	} {
		for _, B := range []int{16, 64} {
			for _, method := range []string{"GET", "HEAD"} {
				for p := 1; p < len(msg); p++ {
					runHead(msg, c04SplitAt(msg, p), B, method)
					runHead(msg, c04SplitAt(msg, p, p+1), B, method)
				}
			}
		}
	}
	g := &c04Gen{r: r}
	for i := 0; i < verifh.N(800, 10000); i++ {
		g.tags = nil
		msg := g.response()
		if r.Intn(5) == 0 {
			msg = g.mutate(msg)
		}
		if len(msg) == 0 {
			continue
		}
		var cuts []int
		for p := 1 + r.Intn(30); p < len(msg) && p < 2000; p += 1 + r.Intn(30) {
			cuts = append(cuts, p)
		}
		runHead(msg, c04SplitAt(msg, cuts...), verifh.Pick(r, []int{16, 64, 4096}), verifh.Pick(r, []string{"GET", "HEAD"}))
	}
	n := verifh.N(1500, 20000)
	for i := 0; i < n; i++ {
		g.tags = nil
		lines := g.otherHeaders(1 + r.Intn(5))
		var sb strings.Builder
		for _, l := range lines {
			sb.WriteString(l)
			sb.WriteString(g.eol())
		}
		if r.Intn(8) != 0 {
			sb.WriteString(g.eol())
			sb.WriteString(verifh.Pick(r, []string{"", "tail", "0123456789abcdefghijklmnopqrstuvwxyz"}))
		}
		h := sb.String()
		if len(h) == 0 {
			continue
		}
		var cuts []int
		switch r.Intn(3) {
		case 0: // just behind line ends, +0..2
			for p := 0; p < len(h); p++ {
				if h[p] == '\n' && r.Intn(2) == 0 {
					cuts = append(cuts, p+1+r.Intn(3))
				}
			}
		case 1:
			for p := 1 + r.Intn(6); p < len(h); p += 1 + r.Intn(6) {
				cuts = append(cuts, p)
			}
		default:
			for p := 1 + r.Intn(40); p < len(h); p += 1 + r.Intn(40) {
				cuts = append(cuts, p)
			}
		}
		B := verifh.Pick(r, []int{16, 17, 24, 32, 64, 4096})
		run(h, c04SplitAt(h, cuts...), B)
		cnt.Count("random")
	}
	s.Finish()
	for _, need := range []string{"end-blank", "end-invalid", "end-eof", "segment-ends-one-byte-into-line", "every-position", "random", "dump-on-same", "amime", "amime-err=eof", "amime-err=header", "ahead", "ahead-ok", "ahead-rej:eof", "ahead-rej:header", "ahead-rej:status", "ahead-rej:cl", "ahead-rej:te"} {
		if cnt.m[need] == 0 {
			t.Errorf("C04/alias generator never reached bucket %q", need)
		}
	}
}
