//go:build verif

package req

// C10 end to end: the real client with its real HTTP/1.1 transport against an in-process
// origin on loopback that follows a per-case script (status codes, abrupt connection close =
// transport error, context cancelled while the request is in flight) and captures every
// attempt as the server receives it.  Oracle: all captures of one call are byte-identical
// (method, request target, Host, every header, complete body; a random multipart boundary is
// canonicalised), the attempt count respects the bound, the dump buffer holds the last attempt
// only; the event log is compared with the model (`c10trace`).

import (
	"bytes"
	"context"
	"errors"
	"fmt"
	"io"
	"mime"
	"mime/multipart"
	"net/http"
	"net/http/httptest"
	"sort"
	"strconv"
	"strings"
	"sync"
	"testing"
	"time"

	"github.com/imroc/req/v3/internal/verifh"
)

type c10OriginCase struct {
	script   []string
	n        int
	captures []string // every attempt as received, raw
	wires    []string // … and decoded into the model's canonical form
	cancel   context.CancelFunc
}

type c10Origin struct {
	mu    sync.Mutex
	cases map[string]*c10OriginCase
	srv   *httptest.Server
}

func c10Capture(r *http.Request, body []byte) string {
	var b strings.Builder
	fmt.Fprintf(&b, "%s %s %s\nHost: %s\n", r.Method, r.RequestURI, r.Proto, r.Host)
	keys := make([]string, 0, len(r.Header))
	for k := range r.Header {
		keys = append(keys, k)
	}
	sort.Strings(keys)
	boundary := ""
	if mt, params, err := mime.ParseMediaType(r.Header.Get("Content-Type")); err == nil && mt == "multipart/form-data" {
		boundary = params["boundary"]
	}
	for _, k := range keys {
		for _, v := range r.Header[k] {
			fmt.Fprintf(&b, "%s: %s\n", k, v)
		}
	}
	fmt.Fprintf(&b, "TE=%v CL=%d\n\n", r.TransferEncoding, r.ContentLength)
	if boundary == "" {
		b.Write(body)
		return b.String()
	}
	// multipart: the fields of Request.FormData are written in Go map iteration order, which the
	// caller did not choose and which differs from attempt to attempt; the random boundary too.
	// Compare the parts themselves (headers + content), field parts stably sorted by name.
	type part struct{ name, text string }
	var fields, files []part
	mr := multipart.NewReader(bytes.NewReader(body), boundary)
	for {
		p, err := mr.NextRawPart()
		if err != nil {
			if err != io.EOF {
				files = append(files, part{"", "!" + err.Error()})
			}
			break
		}
		data, _ := io.ReadAll(p)
		hk := make([]string, 0, len(p.Header))
		for k := range p.Header {
			hk = append(hk, k)
		}
		sort.Strings(hk)
		var pb strings.Builder
		for _, k := range hk {
			fmt.Fprintf(&pb, "%s: %v\n", k, p.Header[k])
		}
		pb.WriteString("\n")
		pb.Write(data)
		pb.WriteString("\n--\n")
		if p.FileName() == "" {
			fields = append(fields, part{p.FormName(), pb.String()})
		} else {
			files = append(files, part{p.FormName(), pb.String()})
		}
	}
	sort.SliceStable(fields, func(i, j int) bool { return fields[i].name < fields[j].name })
	for _, p := range append(fields, files...) {
		b.WriteString(p.text)
	}
	return strings.ReplaceAll(b.String(), boundary, "BOUNDARY")
}

func newC10Origin() *c10Origin {
	o := &c10Origin{cases: map[string]*c10OriginCase{}}
	o.srv = httptest.NewServer(http.HandlerFunc(func(w http.ResponseWriter, r *http.Request) {
		body, _ := io.ReadAll(r.Body)
		o.mu.Lock()
		st := o.cases[r.Header.Get("X-Case")]
		if st == nil {
			o.mu.Unlock()
			w.WriteHeader(599)
			return
		}
		k := st.n
		st.n++
		st.captures = append(st.captures, c10Capture(r, body))
		st.wires = append(st.wires, c10Wire(r, body, r.ContentLength != 0 || len(r.TransferEncoding) > 0, true))
		out := "c"
		if k < len(st.script) {
			out = st.script[k]
		}
		cancel := st.cancel
		o.mu.Unlock()
		switch out[0] {
		case 't':
			if hj, ok := w.(http.Hijacker); ok {
				if conn, _, err := hj.Hijack(); err == nil {
					conn.Close()
				}
			}
			return
		case 'r':
			// round 7: the complete response header, the beginning of the body, then the connection
			// is cut: the client's attempt fails while the library auto-reads the body
			if hj, ok := w.(http.Hijacker); ok {
				if conn, _, err := hj.Hijack(); err == nil {
					code, _ := strconv.Atoi(out[1:])
					fmt.Fprintf(conn, "HTTP/1.1 %d X\r\nX-Attempt: %d\r\nContent-Type: application/json\r\nContent-Length: 64\r\nConnection: close\r\n\r\n%s", code, k, c10PartialBody)
					conn.Close()
				}
			}
			return
		case 'c':
			cancel()
			select {
			case <-r.Context().Done():
			case <-time.After(3 * time.Second):
			}
			return
		}
		code, _ := strconv.Atoi(out[1:])
		w.Header().Set("X-Attempt", strconv.Itoa(k))
		w.Header().Set("Content-Type", "application/json")
		w.WriteHeader(code)
		if out[0] == 'b' {
			io.WriteString(w, "bad:"+strconv.Itoa(k))
		} else {
			io.WriteString(w, "ok")
		}
	}))
	return o
}

// e2eBuild is c10Run.build with the real transport: the scripted RoundTripper is not installed;
// a round-trip wrapper tags real errors with the attempt they belong to.
func (x *c10Run) e2eBuild(o *c10Origin, id, dir string) (*Client, *Request) {
	x.tc.headers = append(x.tc.headers, c10KV{"X-Case", []string{id}})
	c, r := x.build(dir)
	c.httpClient.Transport = c.Transport // undo the scripted transport: the real one
	c.DisableKeepAlives()
	c.SetTimeout(20 * time.Second)
	c.WrapRoundTripFunc(func(rt RoundTripper) RoundTripFunc {
		return func(rq *Request) (*Response, error) {
			k := x.iter - 1
			x.log = append(x.log, "W"+strconv.Itoa(rq.RetryAttempt)+"[?]") // filled in from the origin's capture
			x.wires = append(x.wires, "")
			if len(x.wires) > len(x.tc.script)+3 { // the script always ends the loop; do not spin forever on a broken one
				x.runaway = true
				panic("c10: runaway retry loop")
			}
			resp, err := rt.RoundTrip(rq)
			x.lastTrace = rq.trace // the trace object this attempt filled
			var e *c10Err
			if err != nil && !errors.As(err, &e) {
				kind := "t"
				if errors.Is(err, context.Canceled) {
					kind = "c"
				} else if resp != nil && resp.Response != nil {
					kind = "b" // the header arrived: the body broke off
				}
				err = &c10Err{kind, k, err}
				if resp != nil {
					resp.Err = err
				}
			}
			return resp, err
		}
	})
	o.mu.Lock()
	o.cases[id] = &c10OriginCase{script: x.tc.script, cancel: x.cancel}
	o.mu.Unlock()
	return c, r
}

func TestVerif_C10_e2e(t *testing.T) {
	s := verifh.New(t, "C10", "e2e",
		"real client + real HTTP/1.1 transport against a loopback origin following a script (status 200/404/429/500/503, abrupt close = transport error, context cancelled in flight, undecodable body, body cut after the header with a 2xx/3xx/5xx status); random request shapes as in lane wire (all body kinds, multipart files from every content source incl. caller-written GetFileContent with a shared reader, buffered and streamed, cookies/headers/query/form at both levels), dump-each-request and trace on in most cases, retry count {-1,0,1,2,5}; oracle: every capture of one call byte-identical at the origin, count bound, dump holds one attempt; event log compared with the model; non-trivial = at least one retry")
	r := s.Rand()
	o := newC10Origin()
	defer o.srv.Close()
	dir := t.TempDir()
	var recs []c10Rec
	n := verifh.N(160, 4000)
	for i := 0; i < n; i++ {
		tc := &c10Case{}
		mode := c10RandShape(r, tc, o.srv.URL, false)
		tc.trace = r.Intn(4) != 0
		tc.dump = r.Intn(4) != 0
		cnt := "n=" + []string{"-1", "0", "1", "2", "5", "2", "2", "5"}[r.Intn(8)]
		iv := []string{"i=f1", "i=x0", "i=x3"}[r.Intn(3)]
		if r.Intn(2) == 0 {
			tc.clientOps = []string{cnt, iv}
		} else {
			tc.reqOps = []string{iv, cnt}
		}
		fails := r.Intn(4)
		if r.Intn(3) == 0 {
			tc.conds = []string{"G500", "Q429"}
			tc.reqOps = append(tc.reqOps, "ac0")
			tc.clientOps = append(tc.clientOps, "ac1")
			for j := 0; j < fails; j++ {
				tc.script = append(tc.script, []string{"s503", "s500", "s429", "b502", "r503"}[r.Intn(5)])
			}
		} else {
			for j := 0; j < fails; j++ {
				tc.script = append(tc.script, []string{"t", "t", "b500", "t", "r300", "r200", "r500", "r300"}[r.Intn(8)])
			}
		}
		tc.script = append(tc.script, []string{"s200", "s200", "s404", "t", "c", "s200", "r300"}[r.Intn(7)], "c")
		if tc.method == "HEAD" { // a HEAD response carries no body that could fail to decode
			for j, o := range tc.script {
				if o[0] == 'b' || o[0] == 'r' {
					tc.script[j] = "s" + o[1:]
				}
			}
		}
		if r.Intn(5) == 0 {
			tc.hooks = []string{"N"}
			tc.reqOps = append(tc.reqOps, "ah0")
		}
		if r.Intn(4) == 0 {
			// the context ends while the loop is between two attempts: cancelled by the interval
			// function, or by the caller during the wait — the last response must come back complete
			tc.ivx, tc.ivxWait = 1+r.Intn(2), r.Intn(2) == 0
			s.Count("ctx-ends-between-attempts")
		}
		tc.noBodyObs = tc.method == "HEAD"
		if tc.dump {
			tc.obsDump = "1"
		}
		if tc.trace {
			tc.obsTrace = "1"
		}
		x := &c10Run{tc: tc}
		id := strconv.Itoa(i)
		d := dir + "/" + id
		var resp *Response
		x.lastXAtt = -1
		x.kept = "K-"
		_, panicked := verifh.Safely(func() {
			_, rq := x.e2eBuild(o, id, d)
			defer x.stopObservers()
			defer x.cancel()
			if tc.useSend {
				resp, _ = rq.Send(tc.method, tc.url)
			} else {
				rq.Method, rq.RawURL = tc.method, tc.url
				resp = rq.Do()
			}
		})
		o.mu.Lock()
		caps, owires := o.cases[id].captures, o.cases[id].wires
		delete(o.cases, id)
		o.mu.Unlock()
		wi := 0
		for li, l := range x.log {
			if strings.HasSuffix(l, "[?]") && wi < len(owires) {
				x.log[li] = strings.TrimSuffix(l, "?]") + owires[wi] + "]"
				wi++
			}
		}
		ok, why := true, ""
		switch {
		case panicked:
			x.final = "panic"
			ok, why = false, "panic"
		case resp.Err == errRetryableWithUnReplayableBody:
			x.final = "refused"
		default:
			rs := "-/nohttp"
			if resp.Response != nil {
				rs = resp.Header.Get("X-Attempt") + "/" + strconv.Itoa(resp.StatusCode)
			}
			es := "-"
			var e *c10Err
			if errors.As(resp.Err, &e) {
				es = strconv.Itoa(e.attempt) + "/" + e.kind
			} else if resp.Err == context.Canceled || resp.Err == context.DeadlineExceeded {
				es = strconv.Itoa(resp.Request.RetryAttempt-1) + "/x" // ctx.Err() itself: the wait step
			} else if resp.Err != nil {
				es = "?"
			}
			x.final = "R" + rs + ":" + es
			x.observeKept(resp)
			if ok && x.keptBad != "" {
				ok, why = false, x.keptBad
			}
		}
		// oracle on the origin's captures
		if ok && x.maxRetr >= 0 && len(caps) > x.maxRetr+1 {
			ok, why = false, fmt.Sprintf("%d requests reached the origin with MaxRetries=%d", len(caps), x.maxRetr)
		}
		if ok && len(caps) != len(x.wires) {
			ok, why = false, fmt.Sprintf("%d round trips but %d requests at the origin", len(x.wires), len(caps))
		}
		for k := 1; ok && !tc.brokenContract() && k < len(caps); k++ {
			if caps[k] != caps[0] {
				ok, why = false, fmt.Sprintf("origin: attempt %d differs from attempt 0:\n%s\n---\n%s", k, caps[0], caps[k])
			}
		}
		if ok && tc.dump && resp != nil && len(caps) > 0 {
			if d := resp.Dump(); strings.Count(d, " HTTP/1.1\r\n") != 1 {
				ok, why = false, fmt.Sprintf("dump holds %d request heads after %d attempts", strings.Count(d, " HTTP/1.1\r\n"), len(caps))
			}
		}
		if ok && tc.trace && resp != nil && resp.Response != nil {
			if ti := resp.TraceInfo(); ti.TotalTime <= 0 {
				ok, why = false, "trace of the last attempt is empty"
			}
		}
		s.Count("mode:" + mode)
		s.Count("attempts:" + strconv.Itoa(len(caps)))
		if len(caps) >= 2 {
			s.Count("retried:" + mode)
		}
		recs = append(recs, c10Rec{tc: tc, obs: x.obs, impl: x.answer(), ok: ok, why: why, nontriv: len(caps) >= 2, relevant: tc.relevantBits()})
	}
	nRetried, nDump := 0, 0
	for _, rc := range recs {
		if rc.nontriv {
			nRetried++
		}
		if rc.tc.dump {
			nDump++
		}
	}
	if nRetried < n/4 || nDump == 0 {
		t.Errorf("e2e generator: only %d of %d calls retried, %d with dump on", nRetried, n, nDump)
	}
	c10Finish(s, recs)
}

var _ = bytes.NewReader
