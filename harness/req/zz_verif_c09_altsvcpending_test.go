//go:build verif

package req

import (
	"context"
	"errors"
	"fmt"
	"net"
	"net/http"
	"net/url"
	"strings"
	"sync"
	"testing"
	"time"

	"github.com/imroc/req/v3/internal/netutil"
	"github.com/imroc/req/v3/internal/verifh"
	"github.com/imroc/req/v3/pkg/altsvc"
)

// TestVerif_C09_altsvcpending: overlapping requests to an origin whose Alt-Svc offer (two or three
// alternatives) is still PENDING (connected, not yet confirmed by a successful request) — the
// bookkeeping of checkAltSvc under concurrency. The alternative's round tripper is the lane's: a
// request parks inside it and then succeeds, fails at once, or succeeds at once. Whatever the
// interleaving, the alternative that ends up in the AltSvcJar for the origin must be one that
// actually carried a successful request, and every request is answered by the alternative it
// was sent to.

type c09PendRT struct {
	mu      sync.Mutex
	seen    []string // "<tag>@<port>:<outcome>"
	okPorts map[string]bool
	parked  map[string]chan struct{}
	entered map[string]chan struct{}
}

func (rt *c09PendRT) RoundTrip(r *http.Request) (*http.Response, error) {
	tag, plan := r.Header.Get("X-Tag"), r.Header.Get("X-Plan")
	_, port, _ := net.SplitHostPort(r.URL.Host)
	if plan == "park-ok" {
		rt.mu.Lock()
		ent, rel := rt.entered[tag], rt.parked[tag]
		rt.mu.Unlock()
		close(ent)
		<-rel
	}
	rt.mu.Lock()
	defer rt.mu.Unlock()
	if plan == "fail" {
		rt.seen = append(rt.seen, tag+"@"+port+":fail")
		return nil, errors.New("verif: the alternative did not answer")
	}
	rt.seen = append(rt.seen, tag+"@"+port+":ok")
	rt.okPorts[port] = true
	return &http.Response{StatusCode: 200, Body: http.NoBody, Header: http.Header{"X-Port": {port}}, Request: r}, nil
}

func TestVerif_C09_altsvcpending(t *testing.T) {
	s := verifh.New(t, "C09", "altsvcpending",
		"a pending Alt-Svc offer with 2..3 h3 alternatives (closed loopback ports) whose Transport is the lane's round tripper; 2..4 overlapping calls of Transport.checkAltSvc: the first parks inside the round trip and succeeds when released, the others (started while it is parked; 30 ms grace each, a serialising implementation simply makes them wait) fail at once / succeed at once / park too; oracle: the alternative recorded in the AltSvcJar carried a successful request, every response comes from the alternative the request was sent to, everybody returns; non-trivial = a request failed while another was parked")
	r := s.Rand()
	n := verifh.N(12, 150)
	for cs := 0; cs < n; cs++ {
		nAlt := 2 + r.Intn(2)
		k := 2 + r.Intn(3)
		plans := []string{"park-ok"}
		for i := 1; i < k; i++ {
			plans = append(plans, verifh.Pick(r, []string{"fail", "fail", "ok", "park-ok"}))
		}
		human := fmt.Sprintf("alternatives=%d requests=%s", nAlt, strings.Join(plans, ","))
		s.Begin(fmt.Sprintf("altsvcpending-%d", cs), human)
		// closed UDP ports for the alternatives (handlePendingAltSvc may try to connect to the next one)
		var entries []*altsvc.AltSvc
		var ports []string
		for i := 0; i < nAlt; i++ {
			pc, err := net.ListenPacket("udp", "127.0.0.1:0")
			if err != nil {
				t.Fatalf("udp: %v", err)
			}
			p := fmt.Sprint(pc.LocalAddr().(*net.UDPAddr).Port)
			pc.Close()
			ports = append(ports, p)
			entries = append(entries, &altsvc.AltSvc{Protocol: "h3", Port: p, Expire: time.Now().Add(time.Hour)})
		}
		cl := C().EnableHTTP3()
		cl.SetLogger(nil)
		tr := cl.GetTransport()
		if tr.altSvcJar == nil {
			tr.altSvcJar = altsvc.NewAltSvcJar()
		}
		u, _ := url.Parse("https://127.0.0.1:8443/x")
		addr := netutil.AuthorityKey(u)
		rt := &c09PendRT{okPorts: map[string]bool{}, parked: map[string]chan struct{}{}, entered: map[string]chan struct{}{}}
		pas := &pendingAltSvc{Entries: entries, Transport: rt, LastTime: time.Now()}
		tr.pendingAltSvcsMu.Lock()
		if tr.pendingAltSvcs == nil {
			tr.pendingAltSvcs = map[string]*pendingAltSvc{}
		}
		tr.pendingAltSvcs[addr] = pas
		tr.pendingAltSvcsMu.Unlock()

		type res struct {
			tag  string
			resp *http.Response
			err  error
		}
		results := make(chan res, k)
		var rels []chan struct{}
		failedWhileParked := false
		for i, pl := range plans {
			tag := fmt.Sprint(cs*10 + i + 1)
			// (a request that finds the offer already demoted goes to the real HTTP/3 transport and
			// a closed port: bound that)
			rctx, rcancel := context.WithTimeout(context.Background(), 500*time.Millisecond)
			defer rcancel()
			req, _ := http.NewRequestWithContext(rctx, "GET", u.String(), nil)
			req.Header.Set("X-Tag", tag)
			req.Header.Set("X-Plan", pl)
			var ent chan struct{}
			if pl == "park-ok" {
				ent = make(chan struct{})
				rel := make(chan struct{})
				rt.mu.Lock()
				rt.entered[tag], rt.parked[tag] = ent, rel
				rt.mu.Unlock()
				rels = append(rels, rel)
			}
			fin := make(chan struct{})
			go func() {
				resp, err := tr.checkAltSvc(req)
				results <- res{tag, resp, err}
				close(fin)
			}()
			if i == 0 {
				select {
				case <-ent:
				case <-time.After(3 * time.Second):
					t.Fatalf("the first request never reached the alternative's round tripper")
				}
				continue
			}
			// let it get as far as it can while the first one is parked
			select {
			case <-fin:
				if pl == "fail" {
					failedWhileParked = true
				}
			case <-ent:
			case <-time.After(30 * time.Millisecond):
			}
		}
		for _, rel := range rels {
			close(rel)
		}
		ok := true
		var detail []string
		for i := 0; i < k; i++ {
			select {
			case rs := <-results:
				if rs.err == nil && rs.resp != nil {
					_, sentTo, _ := net.SplitHostPort(rs.resp.Request.URL.Host)
					if rs.resp.Header.Get("X-Port") != sentTo {
						ok = false
						detail = append(detail, "request "+rs.tag+" was answered by another alternative than the one it was sent to")
					}
				}
			case <-time.After(8 * time.Second):
				ok = false
				detail = append(detail, "a request never returned")
				i = k
			}
		}
		rt.mu.Lock()
		seen := strings.Join(rt.seen, " ")
		var okp []string
		for p := range rt.okPorts {
			okp = append(okp, p)
		}
		rt.mu.Unlock()
		if as := tr.altSvcJar.GetAltSvc(addr); as != nil {
			idx := -1
			for i, p := range ports {
				if p == as.Port {
					idx = i
				}
			}
			if !rt.okPorts[as.Port] {
				ok = false
				detail = append(detail, fmt.Sprintf("the AltSvcJar now routes the origin to alternative #%d (port %s), which never carried a successful request (successful: %v; round trips: %s)", idx, as.Port, okp, seen))
			}
			s.Count("alternative-confirmed")
		} else {
			s.Count("nothing-confirmed")
		}
		cl.GetTransport().CloseIdleConnections()
		s.Observe(fmt.Sprintf("altsvcpending-%d", cs), ok, "", true, human, strings.Join(detail, "; "))
		if failedWhileParked {
			s.Count("a-request-failed-while-another-was-parked")
		}
		if !ok {
			break
		}
	}
	s.Finish()
}
