//go:build verif

package req

// C16 round 5:
//   - TRANSPARENT RE-SENDS: the transport itself writes the SAME *http.Request object again (a
//     kept-alive HTTP/1.1 connection turned out dead; GOAWAY on HTTP/2; idle timeout on HTTP/3).
//     Nobody rebuilds the header map in between, so every write must leave the request — caller
//     headers and the in-band order lists — exactly as it found it (Lean: Req/Client/Rewrite.lean,
//     theorems Req/Props/C16Round5.lean). Lanes h1rewrite (in-package, model-judged) and stale
//     (public API, raw TCP peer dropping a reused connection).
//   - NAMES NEXT TO THE BOOKKEEPING KEYS: caller headers sharing a prefix / suffix / part with
//     __header_order__ / __pseudo_header_order__ are ordinary headers on all three protocol
//     versions (lane xproto: one description, three stacks; h1rewrite / h2fields / h3fields carry
//     the same name class in-package).

import (
	"bufio"
	"bytes"
	"crypto/tls"
	"fmt"
	"io"
	"log"
	"net"
	"net/http"
	"net/http/httptest"
	"net/url"
	"os"
	"sort"
	"strconv"
	"strings"
	"testing"

	"github.com/imroc/req/v3/internal/verifh"
	qhttp3 "github.com/quic-go/quic-go/http3"
)

// c16RunH1Rewrite hands ONE *http.Request to the real persistConn.writeRequest `attempts` times
// (fresh body reader each time, as the transport's rewindBody does) and returns every attempt's
// bytes and the header map the request is left with.
func c16RunH1Rewrite(tr *Transport, tc *c01H1Case, attempts int) (wires [][]byte, reads [][]int, errs []error, after http.Header, perr string) {
	u, e := url.Parse(tc.rawURL)
	if e != nil {
		return nil, nil, nil, nil, "bad-url"
	}
	if tc.rawQuery != nil {
		u.RawQuery = *tc.rawQuery
	}
	hdr := tc.header.Clone()
	if tc.header != nil && hdr == nil {
		hdr = http.Header{}
	}
	req := &http.Request{
		Method: tc.method, URL: u, Host: tc.host, Header: hdr, Proto: "HTTP/1.1", ProtoMajor: 1, ProtoMinor: 1,
		ContentLength: tc.cl, Close: tc.close,
	}
	for a := 0; a < attempts; a++ {
		var rec []int
		req.Body = nil
		if tc.bodyKind == 1 {
			req.Body = io.NopCloser(&c01BytesBody{r: bytes.NewReader(tc.body), rec: &rec})
		}
		pc := &persistConn{t: tr} // a new connection for every attempt
		var buf bytes.Buffer
		var extra http.Header
		if tc.extra != nil {
			extra = tc.extra.Clone()
		}
		var err error
		p, bad := verifh.Safely(func() {
			if tc.bufio {
				bw := bufio.NewWriterSize(&buf, 4096)
				err = pc.writeRequest(req, bw, tc.proxy, extra, nil)
				bw.Flush()
			} else {
				err = pc.writeRequest(req, &buf, tc.proxy, extra, nil)
			}
		})
		if bad {
			return nil, nil, nil, nil, p
		}
		wires = append(wires, append([]byte(nil), buf.Bytes()...))
		reads = append(reads, rec)
		errs = append(errs, err)
	}
	return wires, reads, errs, req.Header, ""
}

// TestVerif_C16_h1rewrite: the same request object written 2..3 times by the real
// persistConn.writeRequest vs the Lean model (Rewrite.writeAttempts): every attempt's bytes and the
// header map left behind.
func TestVerif_C16_h1rewrite(t *testing.T) {
	s := c01New(t, "C16", "h1rewrite",
		"generator of h1wire (methods, URLs, Host override, 0..60 header keys in all spellings, header-order list in most cases: subset / superset / other case / duplicated / full, pseudo-header order list in a quarter, extra headers, Request.Close, proxy form, bufio or plain writer; bodies nil or in-memory = what a transparent re-send can replay), a third of the cases with 1..3 caller headers NEXT TO the bookkeeping keys (\"__\"-prefixed names such as __RequestVerificationToken, proper prefixes / suffixes / infixes / extensions / one-byte changes of __header_order__ and __pseudo_header_order__, in lower, upper and mixed case, half of them listed in the order list), a third of the cases with 1..3 headers of the VALUE-EDGE class (round 7: values beginning / ending with / consisting of white space that is not SP / HTAB — every unicode.IsSpace character beyond ASCII, zero-width and BOM characters, Latin-1 NEL / NBSP bytes — alone or next to SP / HTAB, new X-Edge names and appended to present keys; oracle: they arrive minus surrounding SP / HTAB only); ONE *http.Request is handed to persistConn.writeRequest 2 or 3 times in a row, each time on a new persistConn, as Transport.roundTrip does after a kept-alive connection turned out dead; compared with the model: the rendering of EVERY attempt (byte exact, or request line + line multiset + listed names in wire order + body in header-order mode) and the header map the request is left with (rendered by meaning: written values in their sanitised form, so that sanitising in place or on a copy is the same answer); oracle: net/http.ReadRequest sees every caller value once in every attempt, the line multiset of attempt k equals that of attempt 1, listed headers in list order in every attempt, no bookkeeping key, header map after = before up to the in-place sanitising of written values (same keys, order lists identical, values equal after CR/LF -> space and trimming); non-trivial = all attempts written")
	r := s.Rand()
	tr := T()
	n := verifh.N(1500, 25000)
	for i := 0; i < n; i++ {
		profile := "order"
		if r.Intn(5) == 0 {
			profile = "plain"
		}
		tc := c01GenH1(r, profile)
		if tc.bodyKind == 2 { // a streaming reader cannot be replayed: the transport never re-sends it
			tc.bodyKind, tc.sizes = 1, nil
		}
		if len(tc.body) > 70000 {
			tc.body = tc.body[:100]
			tc.bodySpec = verifh.Hex(string(tc.body))
			if tc.cl > 0 {
				tc.cl = 100
			}
		}
		u, _ := url.Parse(tc.rawURL)
		effHost := tc.host
		if effHost == "" && u != nil {
			effHost = u.Host
		}
		if !c01IsASCII(effHost) {
			continue // Punycode / idna is outside the model
		}
		var nb []string
		if r.Intn(3) == 0 {
			if tc.header == nil {
				tc.header = http.Header{}
			}
			nb = verifh.C16AddNeighbours(r, tc.header)
			if order := tc.header[HeaderOderKey]; len(order) > 0 {
				order = append([]string(nil), order...)
				for _, k := range nb {
					if r.Intn(2) == 0 {
						if r.Intn(4) == 0 {
							k = strings.ToUpper(k)
						}
						order = append(order, k)
					}
				}
				r.Shuffle(len(order), func(a, b int) { order[a], order[b] = order[b], order[a] })
				tc.header[HeaderOderKey] = order
			}
		}
		// round 7: the value-edge class (white space beyond SP / HTAB at the edges of values)
		var edged []string
		if r.Intn(3) == 0 {
			if tc.header == nil {
				tc.header = http.Header{}
			}
			edged = verifh.C16AddEdgeValues(r, tc.header)
			if order := tc.header[HeaderOderKey]; len(order) > 0 && r.Intn(2) == 0 {
				tc.header[HeaderOderKey] = append(append([]string(nil), order...), edged[0])
			}
		}
		attempts := 2 + r.Intn(2)
		wires, reads, errs, after, perr := c16RunH1Rewrite(tr, tc, attempts)
		human := fmt.Sprintf("%d writes of one request: %q %q host=%q hdr=%q cl=%d body=%d/%s close=%v extra=%q proxy=%v", attempts, tc.method, tc.rawURL, tc.host, tc.header, tc.cl, tc.bodyKind, tc.bodySpec, tc.close, tc.extra, tc.proxy)
		if perr != "" {
			s.Crash(human, human, perr, "")
			continue
		}
		sameReads := true
		for _, rd := range reads[1:] {
			if verifh.IntList(rd) != verifh.IntList(reads[0]) {
				sameReads = false
			}
		}
		if !sameReads {
			s.Count("reads-differ")
			continue
		}
		order := tc.header[HeaderOderKey]
		ok := true
		var parts []string
		allWritten := true
		for a := 0; a < attempts; a++ {
			switch {
			case errs[a] != nil:
				parts = append(parts, c01H1ErrKind(errs[a]))
				allWritten = false
			case len(order) > 0:
				parts = append(parts, c01ShowOrdered(wires[a], order))
			default:
				parts = append(parts, "ok "+c01Blob(wires[a]))
			}
		}
		if allWritten {
			s.Count("all-written")
			if len(order) > 0 {
				s.Count("order-mode")
			} else {
				s.Count("plain-mode")
			}
			if len(nb) > 0 {
				s.Count("bookkeeping-neighbour-names")
			}
			if len(edged) > 0 {
				s.Count("value-edge-class")
			}
			applies := c01OracleApplies(tc)
			for a := 0; a < attempts; a++ {
				if applies {
					s.Count("oracle-applied")
					if good, why := c01OracleH1(tc, wires[a]); !good {
						ok = false
						human += fmt.Sprintf(" ORACLE (write %d): %s", a+1, why)
					}
				}
				// the method and the User-Agent value are written raw: with CR LF in them the head cannot be
				// split into lines reliably (the model still judges those cases byte for byte)
				rawCRLF := strings.ContainsAny(tc.method, "\r\n") || (len(tc.header["User-Agent"]) > 0 && strings.ContainsAny(tc.header["User-Agent"][0], "\r\n"))
				if rawCRLF {
					continue
				}
				// the neighbours of the bookkeeping keys are ordinary headers: exact spelling, every value once
				for _, k := range nb {
					got := 0
					for _, l := range c16WireLines(wires[a]) {
						if l[0] == k {
							got++
						}
					}
					if got != len(tc.header[k]) {
						ok = false
						human += fmt.Sprintf(" ORACLE (write %d): header %q written %d time(s), the caller gave %d value(s)", a+1, k, got, len(tc.header[k]))
					}
				}
				// value-edge class: every value arrives as given (CR / LF as spaces), minus surrounding SP / HTAB only
				for _, k := range edged {
					var got, want []string
					for _, l := range c16WireLines(wires[a]) {
						if l[0] == k {
							got = append(got, l[1])
						}
					}
					for _, v := range tc.header[k] {
						want = append(want, strings.Trim(strings.NewReplacer("\n", " ", "\r", " ").Replace(v), " \t"))
					}
					if k != "" && c01ValidToken(k) && strings.Join(got, "\x00") != strings.Join(want, "\x00") {
						ok = false
						human += fmt.Sprintf(" ORACLE (write %d): header %q on the wire with %q, the caller gave %q", a+1, k, got, tc.header[k])
					}
				}
				if good, why := c16ResendOracle("same", wires[0], wires[a], order); !good {
					ok = false
					human += fmt.Sprintf(" ORACLE (write %d vs write 1): %s", a+1, why)
				}
			}
		}
		if !verifh.C16SameDescription(after, tc.header) {
			ok = false
			human += fmt.Sprintf(" ORACLE: writeRequest changed the description in the request's header map: left with %q", after)
		}
		line := c01H1Line("c16rewrite "+strconv.Itoa(attempts), tc, reads[0])
		s.Case(line, strings.Join(parts, " | ")+" after="+c01Hdr(verifh.C16DescriptionOf(after)), ok, "", allWritten, human)
	}
	s.Need(t, "all-written", "order-mode", "plain-mode", "oracle-applied", "bookkeeping-neighbour-names", "value-edge-class")
	s.Finish()
}

// TestVerif_C16_stale: a reused keep-alive connection that the server drops after having read the
// request: Transport.roundTrip writes the same request again on a new connection. Both writes are
// compared with the model and with each other.
func TestVerif_C16_stale(t *testing.T) {
	s := c01New(t, "C16", "stale",
		"public API against the raw TCP HTTP/1.1 script peer: a warm-up request makes the connection a reused one, then the peer reads the case request completely and DROPS the connection without answering; the transport (shouldRetryRequest: reused connection + replayable request) writes the same *http.Request again on a fresh connection; requests: GET / HEAD / OPTIONS without body, POST / PUT with an in-memory body and an Idempotency-Key / X-Idempotency-Key header; client-level and request-level headers as in lane resend (all spellings, names differing only in case, 1..3 values, maps or setters), a third with names next to the bookkeeping keys, order list none / request-level / client-level / both (subset, other case, unknown names, duplicates), pseudo-header order, cookies, compression on/off, a fifth of the clients with an impersonation preset; compared: BOTH writes byte for byte with the model rendering of the header map captured at the transport boundary (c16resend same), and the header map of the request object after the exchange with the one before; oracle: line multiset / spelling of write 2 = write 1, listed headers in list order in both, no bookkeeping key; non-trivial = the second write was observed")
	log.SetOutput(io.Discard)
	defer log.SetOutput(os.Stderr)
	peer := c16StartScriptPeer(t)
	defer peer.ln.Close()
	base := "http://" + peer.ln.Addr().String()
	r := s.Rand()
	n := verifh.N(300, 5000)
	for i := 0; i < n; i++ {
		tc := c16GenResend(r, []string{"plain"})
		tc.keepAlive = true
		tc.body = nil
		tc.method = verifh.Pick(r, []string{"GET", "GET", "GET", "OPTIONS", "HEAD", "POST", "PUT"})
		if tc.method == "POST" || tc.method == "PUT" {
			tc.body = c01GenBody(verifh.Pick(r, []int{1, 100, 5000}), 3, 1)
			tc.rHdr[verifh.Pick(r, []string{"Idempotency-Key", "X-Idempotency-Key"})] = []string{"k-" + strconv.Itoa(i)}
		}
		var nb []string
		if r.Intn(3) == 0 {
			nb = verifh.C16AddNeighbours(r, tc.rHdr)
			if len(tc.rOrder) > 0 && r.Intn(2) == 0 {
				tc.rOrder = append(tc.rOrder, nb[0])
			}
		}
		var legs []c16Leg
		var reqs []*http.Request
		c, rq := c16BuildResend(tc, "h1", func(req *http.Request) { legs = append(legs, c16SnapLeg(req)); reqs = append(reqs, req) })
		peer.reset(c16Resp(200), c16Drop)
		human := fmt.Sprintf("stale keep-alive: %s %s chdr=%q rhdr=%q setters=%v rorder=%q corder=%q pseudo=%v rcookies=%d ccookies=%d body=%d compression=%v preset=%q",
			tc.method, base+tc.path, tc.cHdr, tc.rHdr, tc.viaSetters, tc.rOrder, tc.cOrder, tc.pseudo, len(tc.rCookies), len(tc.cCookies), len(tc.body), tc.compression, tc.preset)
		id := fmt.Sprintf("stale-%d", i)
		s.Begin(id, human)
		var err error
		p, crashed := verifh.Safely(func() {
			if _, err = c.R().Get(base + "/warm-up"); err == nil {
				_, err = rq.Send(tc.method, base+tc.path)
			}
		})
		c.GetTransport().CloseIdleConnections()
		if crashed {
			s.Crash(human, human, p, "")
			continue
		}
		wires := peer.take()
		if err != nil || len(wires) != 3 || len(legs) != 2 {
			// under load the warm-up connection may not be idle yet / a dial may fail: not judged
			s.Count("not-resent")
			continue
		}
		s.Count("resent")
		s.Count("method:" + tc.method)
		if len(nb) > 0 {
			s.Count("bookkeeping-neighbour-names")
		}
		leg := legs[1]
		order := leg.header[HeaderOderKey]
		if len(order) > 0 {
			s.Count("order-mode")
		} else {
			s.Count("plain-mode")
		}
		var body []byte
		if leg.hasBody {
			body = tc.body
		}
		line := "c16resend same _ " + c01b(!tc.compression) + " 0 " + verifh.Hex(leg.method) + " " + verifh.Hex(leg.url) + " " + verifh.Hex(leg.host) + " " +
			c01Hdr(leg.header) + " " + strconv.FormatInt(leg.cl, 10) + " " + c01b(leg.hasBody) + " " + verifh.Hex(string(body)) + " " + c01b(leg.close)
		for k := 1; k <= 2; k++ {
			ans := "ok " + c01Blob(wires[k])
			if len(order) > 0 {
				ans = c01ShowOrdered(wires[k], order)
			}
			ok, why := c16ResendOracle("same", wires[1], wires[k], order)
			h := fmt.Sprintf("write %d of 2: %s", k, human)
			if !ok {
				h += " ORACLE: " + why
			}
			s.Case(line, ans, ok, "", k == 2, h)
		}
		same := verifh.C16SameDescription(reqs[1].Header, leg.header)
		s.Observe(id+" header map", same, "", false, human, fmt.Sprintf("the request's header map after the exchange %q differs from the one handed to the transport %q", reqs[1].Header, leg.header))
	}
	s.Need(t, "resent", "order-mode", "plain-mode", "method:GET", "method:POST", "bookkeeping-neighbour-names")
	s.Finish()
}

var c16XOwn = map[string]bool{"host": true, "user-agent": true, "content-length": true, "transfer-encoding": true, "connection": true, "accept-encoding": true, "cookie": true, "te": true, "trailer": true}

// c16XBag: (lower-cased name) -> sorted values, without the fields the stacks own.
func c16XBag(pairs [][2]string) map[string][]string {
	m := map[string][]string{}
	for _, p := range pairs {
		ln := strings.ToLower(p[0])
		if c16XOwn[ln] {
			continue
		}
		// surrounding blanks are not part of a field value (RFC 9110 5.5): HTTP/1.1 trims them when
		// writing, the HTTP/2 / HTTP/3 encoders hand them to the peer as given (as net/http does)
		m[ln] = append(m[ln], strings.Trim(p[1], " \t"))
	}
	for _, vs := range m {
		sort.Strings(vs)
	}
	return m
}

// TestVerif_C16_xproto: ONE description sent over HTTP/1.1 (raw peer), HTTP/2 and HTTP/3 (Go
// origins): per name the same values on all three, the names next to the bookkeeping keys among
// them, exactly as the caller gave them.
func TestVerif_C16_xproto(t *testing.T) {
	s := c01New(t, "C16", "xproto",
		"one request description (client-level + request-level headers in all spellings as in lane resend, PLUS 1..3 request headers next to the bookkeeping keys: \"__\"-prefixed names, proper prefixes / suffixes / infixes / extensions / one-byte changes of __header_order__ and __pseudo_header_order__, lower / upper / mixed case, 1..2 values; in half of the cases 1..3 headers of the VALUE-EDGE class (round 7: white space beyond SP / HTAB at the edges of values, see h1rewrite); order list none / request / client / both, sometimes naming the neighbours; pseudo-header order; cookies; body) built three times with the same calls and sent over HTTP/1.1 to the raw TCP peer (exact lines), over HTTP/2 (TLS, x/net server) and HTTP/3 (quic-go) to origins recording the header map; model-judged for the HTTP/2 and HTTP/3 origins (c16xbag: the caller fields the model's field list holds for the request handed to the transport = what the origin's handler sees; HTTP/1.1 bytes are model-judged by lanes resend / stale) + oracle: for every name the stacks do not own, the value multiset (values without surrounding blanks) is the same on the three wires; every neighbour name arrives on each wire with exactly the caller's values; no bookkeeping key on any wire; non-trivial = all three wires observed")
	log.SetOutput(io.Discard)
	defer log.SetOutput(os.Stderr)
	peer := c16StartScriptPeer(t)
	defer peer.ln.Close()
	o2 := &c16ScriptOrigin{}
	s2 := httptest.NewUnstartedServer(o2)
	s2.EnableHTTP2 = true
	s2.StartTLS()
	defer s2.Close()
	o3 := &c16ScriptOrigin{}
	pc, err := net.ListenPacket("udp", "127.0.0.1:0")
	if err != nil {
		t.Fatalf("udp listen: %v", err)
	}
	s3 := &qhttp3.Server{Handler: o3, TLSConfig: qhttp3.ConfigureTLSConfig(&tls.Config{Certificates: s2.TLS.Certificates})}
	go s3.Serve(pc)
	defer func() { s3.Close(); pc.Close() }()
	bases := map[string]string{"h1": "http://" + peer.ln.Addr().String(), "h2": s2.URL, "h3": "https://" + pc.LocalAddr().String()}
	r := s.Rand()
	n := verifh.N(120, 2500)
	for i := 0; i < n; i++ {
		tc := c16GenResend(r, []string{"plain"})
		tc.keepAlive = true
		tc.preset = ""
		for _, h := range []http.Header{tc.cHdr, tc.rHdr} {
			for k := range h {
				if strings.EqualFold(k, "Te") || strings.EqualFold(k, "Trailer") {
					delete(h, k) // refused by the HTTP/2 / HTTP/3 writers (notes/C16.md)
				}
			}
		}
		nb := verifh.C16AddNeighbours(r, tc.rHdr)
		if len(tc.rOrder) > 0 && r.Intn(2) == 0 {
			tc.rOrder = append(tc.rOrder, nb...)
		}
		// round 7: the value-edge class; the names are judged like the neighbours (exact values on each wire)
		if r.Intn(2) == 0 {
			edged := verifh.C16AddEdgeValues(r, tc.rHdr)
			for _, k := range edged {
				if strings.HasPrefix(strings.ToLower(k), "x-edge-") {
					nb = append(nb, k)
				}
			}
			s.Count("value-edge-class")
		}
		human := fmt.Sprintf("%s %s chdr=%q rhdr=%q setters=%v rorder=%q corder=%q pseudo=%v rcookies=%d ccookies=%d body=%d",
			tc.method, tc.path, tc.cHdr, tc.rHdr, tc.viaSetters, tc.rOrder, tc.cOrder, tc.pseudo, len(tc.rCookies), len(tc.cCookies), len(tc.body))
		id := fmt.Sprintf("xproto-%d", i)
		s.Begin(id, human)
		bags := map[string]map[string][]string{}
		failed := ""
		for _, proto := range []string{"h1", "h2", "h3"} {
			var legs []c16Leg
			c, rq := c16BuildResend(tc, proto, func(req *http.Request) { legs = append(legs, c16SnapLeg(req)) })
			peer.reset()
			o2.reset()
			o3.reset()
			var err error
			p, crashed := verifh.Safely(func() { _, err = rq.Send(tc.method, bases[proto]+tc.path) })
			c.GetTransport().CloseIdleConnections()
			if crashed {
				s.Crash(human, human, p, "")
				failed = "crash"
				break
			}
			var pairs [][2]string
			switch proto {
			case "h1":
				if w := peer.take(); len(w) == 1 {
					pairs = c16WireLines(w[0])
				}
			default:
				o := map[string]*c16ScriptOrigin{"h2": o2, "h3": o3}[proto]
				if seen := o.take(); len(seen) == 1 {
					for k, vs := range seen[0] {
						for _, v := range vs {
							pairs = append(pairs, [2]string{k, v})
						}
					}
				}
			}
			if err != nil || pairs == nil {
				failed = fmt.Sprintf("%s: no request observed, err=%v", proto, err)
				break
			}
			bags[proto] = c16XBag(pairs)
			if proto != "h1" && len(legs) == 1 {
				// model-judged: what the origin's handler sees = the model's field list for the request handed to the transport
				leg := legs[0]
				var lines []string
				for name, vs := range bags[proto] {
					for _, v := range vs {
						lines = append(lines, name+": "+v)
					}
				}
				sort.Strings(lines)
				line := "c16xbag " + proto + " " + verifh.Hex(leg.method) + " " + verifh.Hex(leg.url) + " " + verifh.Hex(leg.host) + " " + c01Hdr(leg.header) + " " +
					strconv.FormatInt(leg.cl, 10) + " " + c01b(leg.hasBody) + " 0 0 -"
				s.Case(line, "bag "+verifh.HexList(lines), true, "", true, proto+" origin: "+human)
				s.Count("model-judged:" + proto)
			}
		}
		if failed == "crash" {
			continue
		}
		if failed != "" {
			s.Count("not-observed")
			s.Observe(id, s.seen["not-observed"] < 10, "", false, human, failed+" (tenth failure to reach an origin)")
			continue
		}
		s.Count("three-wires")
		ok, why := true, ""
		for _, proto := range []string{"h1", "h2", "h3"} {
			for name := range bags[proto] {
				if verifh.C16IsBookKey(name) {
					ok, why = false, proto+": bookkeeping key on the wire: "+name
				}
				for _, other := range []string{"h1", "h2", "h3"} {
					if strings.Join(bags[proto][name], "\x00") != strings.Join(bags[other][name], "\x00") {
						ok, why = false, fmt.Sprintf("field %q: %s carries %q, %s carries %q", name, proto, bags[proto][name], other, bags[other][name])
					}
				}
			}
			for _, k := range nb {
				want := append([]string(nil), tc.rHdr[k]...)
				// a name given in two spellings by the caller: all values under the lower-cased name
				for k2, vs := range tc.rHdr {
					if k2 != k && strings.EqualFold(k2, k) {
						want = append(want, vs...)
					}
				}
				for j := range want {
					want[j] = strings.Trim(want[j], " \t")
				}
				sort.Strings(want)
				if got := bags[proto][strings.ToLower(k)]; strings.Join(got, "\x00") != strings.Join(want, "\x00") {
					ok, why = false, fmt.Sprintf("%s: header %q arrives with %q, the caller gave %q", proto, k, got, want)
				}
			}
		}
		s.Observe(id, ok, "", true, human, why)
	}
	s.Need(t, "three-wires", "model-judged:h2", "model-judged:h3", "value-edge-class")
	s.Finish()
}
