//go:build verif

package req

import (
	"context"
	"crypto/tls"
	"fmt"
	"io"
	"log"
	"net"
	"net/http"
	"net/http/httptest"
	"net/textproto"
	"net/url"
	"strconv"
	"strings"
	"sync"
	"testing"
	"time"

	"github.com/imroc/req/v3/internal/netutil"
	"github.com/imroc/req/v3/internal/verifh"
	"github.com/imroc/req/v3/pkg/altsvc"
)

// c11Farm is a set of loopback HTTP/1.1 origins. Every authority the client dials is mapped to
// one of the listeners by the custom dialer, so chains may name arbitrary hosts and IP literals.
// Each origin records what it received; the redirect it answers with is scripted per run.
type c11Farm struct {
	scheme  string
	tsrvs   []*httptest.Server
	mu      sync.Mutex
	lns     []net.Listener
	srvs    []*http.Server
	dials   []string    // addresses the client dialled, in order
	recs    []c11Record // requests received, in order
	targets []string    // authorities of hops 1..m of the current chain (URL form, zone escaped)
}

type c11Record struct {
	origin int // which listener
	idx    int // hop number taken from the path
	hdr    http.Header
}

func c11URLHost(auth string) string {
	if strings.HasPrefix(auth, "[") {
		if i := strings.Index(auth, "%"); i >= 0 {
			return auth[:i] + "%25" + auth[i+1:]
		}
	}
	return auth
}

func newC11Farm(t *testing.T, n int, tls bool) *c11Farm {
	f := &c11Farm{scheme: "http"}
	if tls {
		f.scheme = "https"
	}
	for i := 0; i < n; i++ {
		origin := i
		handler := http.HandlerFunc(func(w http.ResponseWriter, r *http.Request) {
			k, _ := strconv.Atoi(strings.TrimPrefix(r.URL.Path, "/"))
			f.mu.Lock()
			f.recs = append(f.recs, c11Record{origin: origin, idx: k, hdr: r.Header.Clone()})
			var next string
			if k < len(f.targets) {
				next = f.targets[k]
			}
			f.mu.Unlock()
			if next != "" {
				w.Header().Set("Location", f.scheme+"://"+next+"/"+strconv.Itoa(k+1))
				w.WriteHeader(http.StatusFound)
				return
			}
			w.WriteHeader(http.StatusOK)
			fmt.Fprint(w, "end")
		})
		if tls {
			ts := httptest.NewUnstartedServer(handler)
			ts.EnableHTTP2 = true
			ts.Config.ErrorLog = log.New(io.Discard, "", 0)
			ts.StartTLS()
			f.lns = append(f.lns, ts.Listener)
			f.tsrvs = append(f.tsrvs, ts)
			continue
		}
		ln, err := net.Listen("tcp", "127.0.0.1:0")
		if err != nil {
			t.Fatalf("listen: %v", err)
		}
		srv := &http.Server{Handler: handler}
		go srv.Serve(ln)
		f.lns = append(f.lns, ln)
		f.srvs = append(f.srvs, srv)
	}
	return f
}

func (f *c11Farm) close() {
	for _, s := range f.srvs {
		s.Close()
	}
	for _, s := range f.tsrvs {
		s.Close()
	}
}

// dial maps any authority to a listener (stable per hostname) and records the address.
func (f *c11Farm) dial(ctx context.Context, network, addr string) (net.Conn, error) {
	f.mu.Lock()
	f.dials = append(f.dials, addr)
	f.mu.Unlock()
	h := 0
	for _, c := range strings.ToLower(addr) {
		h = h*31 + int(c)
	}
	if h < 0 {
		h = -h
	}
	var d net.Dialer
	return d.DialContext(ctx, "tcp", f.lns[h%len(f.lns)].Addr().String())
}

// dialTLS is dial plus a TLS client handshake offering h2 (no verification: the farm uses the
// httptest certificate for every name). The HTTP/2 transport, which carries Alt-Svc h2 requests,
// only honours DialTLSContext.
func (f *c11Farm) dialTLS(ctx context.Context, network, addr string) (net.Conn, error) {
	raw, err := f.dial(ctx, network, addr)
	if err != nil {
		return nil, err
	}
	tc := tls.Client(raw, &tls.Config{InsecureSkipVerify: true, NextProtos: []string{"h2", "http/1.1"}})
	if err := tc.HandshakeContext(ctx); err != nil {
		raw.Close()
		return nil, err
	}
	return tc, nil
}

func (f *c11Farm) reset(targets []string) {
	f.mu.Lock()
	f.dials, f.recs, f.targets = nil, nil, targets
	f.mu.Unlock()
}

// c11IsDomainOrSub: the Go side's own statement of net/http's rule for sensitive headers:
// they follow a redirect only to the initial host itself or a subdomain of it.
func c11IsDomainOrSub(sub, parent string) bool {
	if sub == parent {
		return true
	}
	if strings.ContainsAny(sub, ":%") {
		return false
	}
	return strings.HasSuffix(sub, "."+parent)
}

func c11Sensitive(k string) bool {
	switch textproto.CanonicalMIMEHeaderKey(k) {
	case "Authorization", "Www-Authenticate", "Cookie", "Cookie2":
		return true
	}
	return false
}

// TestVerif_C11_e2e: scripted redirect chains through the real client (plain HTTP/1.1).
func TestVerif_C11_e2e(t *testing.T) {
	c11RunE2E(t, "e2e", false, verifh.N(1500, 30000),
		"real Client (SetRedirectPolicy compositions, directly or through Clone families, the same client reused for several chains; SetDial mapping any authority to 3 loopback origins, keep-alives off) following scripted 302 chains of 0..limit+1 hops over RFC-valid authorities (names any case/trailing dot/ports, IPv4, bracketed IPv6 ± zone ± port; related spellings and near misses of the first host); request carries Authorization, Cookie, custom and multi-valued headers; compared with the model chain (requests received in order, per-hop header values, outcome) and judged by the oracle: number of requests = hops the net/url oracle says every policy allows, each connection dialled to the hop's hostname, the URL of the request in flight not rewritten, sensitive headers only where Go's same-domain rule or an AlwaysCopy policy allows, custom headers everywhere; non-trivial = ≥1 redirect scripted")
}

// TestVerif_C11_e2ealt: the same chains over HTTPS (HTTP/2 by ALPN) with HTTP/3 support enabled
// and Alt-Svc entries (protocol h2) cached for origins of the chain that name OTHER hosts and
// ports: whatever alternative endpoint carries a request, policies and header rules must still
// see the authorities of the URLs of the chain.
func TestVerif_C11_e2ealt(t *testing.T) {
	c11RunE2E(t, "e2ealt", true, verifh.N(500, 8000),
		"as lane e2e but https origins (TLS, HTTP/2 via ALPN), client with EnableHTTP3 (alt-svc jar active) and, per chain, cached Alt-Svc h2 entries for the first origin (2/3 of the chains) and for random later origins, naming a different host, a different port or both; authorities restricted to LDH names and IP literals (SNI); same model line and oracle as e2e except that connections may go to the alternative endpoints (dial addresses are not compared); the URL of the original request must still name the origin after the call")
}

func c11RunE2E(t *testing.T, lane string, alt bool, n int, rule string) {
	s := c11New(t, lane, rule)
	r := s.Rand()
	farm := newC11Farm(t, 3, alt)
	defer farm.close()
	c := C().SetDial(farm.dial).SetProxy(nil).DisableKeepAlives().SetTimeout(20 * time.Second)
	if alt {
		c.EnableInsecureSkipVerify().EnableHTTP3().SetDialTLS(farm.dialTLS)
		if c.Transport.altSvcJar == nil {
			t.Fatalf("verif: alt-svc jar not available with this toolchain - no tests to run")
		}
	}
	ldh := func(a c11Auth) bool {
		if true { // no SNI is sent (dialTLS), so any RFC authority can be an https origin
			return true
		}
		for _, p := range a.parts {
			if p == "" || strings.Trim(p, "abcdefghijklmnopqrstuvwxyzABCDEFGHIJKLMNOPQRSTUVWXYZ0123456789-") != "" || strings.HasPrefix(p, "-") || strings.HasSuffix(p, "-") {
				return false
			}
		}
		return true
	}
	hdrPool := []string{"Authorization", "Cookie", "X-Custom", "X-Multi", "Www-Authenticate"}
	probes := hdrPool
	var prevCl *Client
	var prevPs []c11Pol
	var prevLine0, prevScen string
	for i := 0; i < n; i++ {
		gen := func() c11Auth {
			for {
				a := c11GenAuth(r, false)
				if _, ok := c11OracleHost(a.render()); ok && a.wf && a.rfc && ldh(a) {
					return a
				}
			}
		}
		vary := func(a c11Auth) c11Auth {
			for {
				b := c11Vary(r, a, false)
				if _, ok := c11OracleHost(b.render()); ok && b.wf && b.rfc && ldh(b) {
					return b
				}
			}
		}
		a0 := gen()
		// policy composition first, so that the chain length can straddle the limit
		limit := 1 + r.Intn(4)
		var ps []c11Pol
		switch r.Intn(6) {
		case 0:
			ps = []c11Pol{{kind: "max", n: limit}}
		case 1:
			ps = append(c11GenPols(r, []c11Auth{a0}, limit, hdrPool), c11Pol{kind: "max", n: limit})
		default:
			ps = c11GenPols(r, []c11Auth{a0}, limit, hdrPool)
		}
		m := r.Intn(limit + 2) // 0 .. limit+1 redirects scripted
		auths := []string{a0.render()}
		c11AuthOf := map[string]c11Auth{a0.render(): a0}
		for len(auths) < m+1 {
			var b c11Auth
			switch r.Intn(4) {
			case 0:
				b = gen()
			default:
				b = vary(a0)
			}
			auths = append(auths, b.render())
			c11AuthOf[b.render()] = b
		}
		reuse := prevCl != nil && r.Intn(2) == 0
		// if the chain would not get anywhere because of an allowed-list, sometimes add the hosts
		if !reuse && r.Intn(2) == 0 {
			for j := range ps {
				if ps[j].kind == "ahost" || ps[j].kind == "adomain" {
					ps[j].list = append(ps[j].list, auths[r.Intn(len(auths))])
				}
			}
		}
		var ih [][2]string
		for _, k := range hdrPool {
			switch r.Intn(4) {
			case 0:
			case 1:
				if k == "X-Multi" {
					ih = append(ih, [2]string{k, "m1"}, [2]string{k, "m2"})
				} else {
					ih = append(ih, [2]string{k, "v-" + strings.ToLower(k)})
				}
			default:
				v := "tok-" + strconv.Itoa(r.Intn(100))
				if k == "Cookie" {
					v = "sid=" + strconv.Itoa(r.Intn(100))
				}
				ih = append(ih, [2]string{k, v})
			}
		}
		var urlTargets []string
		for _, a := range auths[1:] {
			urlTargets = append(urlTargets, c11URLHost(a))
		}
		farm.reset(urlTargets)
		legacyAffected := false
		// the client that sends: the shared one configured directly, or a member of a family
		// grown from it by Clone / SetRedirectPolicy (the clone must enforce what it inherited,
		// a later SetRedirectPolicy on either side must stay on that side)
		cl, line0, scen := c, "", ""
		if reuse {
			// the SAME client (same policy closures) sends another request from a different
			// origin: policies must judge it by ITS via, not by anything seen before
			cl, ps, line0, scen = prevCl, prevPs, prevLine0, prevScen
			s.Count("reused-client")
		} else if r.Intn(2) == 0 {
			fam := c11NewFamily(c, nil)
			fam.set(0, c11GenPols(r, []c11Auth{a0}, limit, hdrPool)) // known starting point
			fam.grow(r, func() []c11Pol {
				if r.Intn(2) == 0 {
					return ps
				}
				return c11GenPols(r, []c11Auth{a0}, limit, hdrPool)
			})
			var j int
			if fam.shared {
				s.Count("args:clients-from-caller-owned-array")
			}
			j, scen = fam.pick(r)
			cl, ps = fam.clients[j], fam.want[j]
			line0 = "c11clonechain " + fam.encOps() + " " + strconv.Itoa(j)
			s.Count(scen)
			scen = fam.show(j) + " ; "
		} else {
			real := make([]RedirectPolicy, len(ps))
			for j, p := range ps {
				real[j] = p.real()
			}
			c.SetRedirectPolicy(real...)
			line0 = "c11chain " + c11EncPols(ps)
			s.Count("direct")
		}
		prevCl, prevPs, prevLine0, prevScen = cl, ps, line0, scen
		for _, b := range c11DegBuckets(ps) {
			s.Count(b)
		}
		for _, p := range ps {
			s.Count("pol:" + p.kind)
		}
		rq := cl.R()
		rq.Headers = http.Header{}
		for _, kv := range ih {
			rq.Headers[kv[0]] = append(rq.Headers[kv[0]], kv[1])
		}
		// Host header override (request level or as a common header of the client): what the origin
		// reads in Host / :authority changes, NOT which host the request was addressed to. The
		// override names a relative of a later hop (the host a redirect will point to), of the first
		// host, or an unrelated authority. Locations are absolute here, so net/http drops the override
		// after the first request; the model line does not mention it at all.
		commonHost, hostNote := false, ""
		if r.Intn(3) == 0 {
			var ov c11Auth
			switch k := r.Intn(4); {
			case k < 2 && len(auths) > 1:
				ov = vary(c11AuthOf[auths[1+r.Intn(len(auths)-1)]])
			case k == 2:
				ov = vary(a0)
			default:
				ov = gen()
			}
			if r.Intn(4) == 0 && len(auths) > 1 {
				ov = c11AuthOf[auths[1]]
			}
			if r.Intn(2) == 0 {
				rq.Headers["Host"] = []string{ov.render()}
				s.Count("host-override:request")
			} else {
				cl.SetCommonHeader("Host", ov.render())
				commonHost = true
				s.Count("host-override:client")
			}
			hostNote = " Host-override=" + ov.render()
			if commonHost {
				hostNote += "(common header)"
			}
			if len(auths) > 1 && c11OracleHostOf(ov.render()) == c11OracleHostOf(auths[1]) && c11OracleHostOf(auths[0]) != c11OracleHostOf(auths[1]) {
				s.Count("host-override=next-hop-host")
			}
		}
		altHosts := map[string]bool{}
		if alt {
			jar := cl.Transport.altSvcJar
			for k, a := range auths {
				if (k == 0 && r.Intn(3) != 0) || (k > 0 && r.Intn(4) == 0) {
					u, e := url.Parse("https://" + c11URLHost(a) + "/")
					if e != nil || jar == nil {
						continue
					}
					as := &altsvc.AltSvc{Protocol: "h2", Expire: time.Now().Add(time.Hour)}
					kind := r.Intn(4)
					if kind == 0 && strings.HasPrefix(a, "[") {
						// (any bracketed origin: the jar key of "[::2]:443" is also the key of "[::2]")
						// not generated: for a port-less bracketed IPv6 origin altsvcutil.ConvertURL
						// builds "[[::2]]:port" (JoinHostPort of an already bracketed host) and the
						// request fails before anything is sent - an availability defect of the
						// alt-svc code, outside C11 (see notes)
						kind = 1
					}
					switch kind {
					case 0: // same host, other port
						as.Port = strconv.Itoa(1024 + r.Intn(60000))
					case 1: // another spelling / relative of some chain host, other port
						as.Host = strings.ToLower(c11OracleHostOf(auths[r.Intn(len(auths))]))
						as.Port = strconv.Itoa(1024 + r.Intn(60000))
					default: // unrelated host
						as.Host = verifh.Pick(r, []string{"alt.example", "cdn.evil.test", "10.9.8.7", "alt-" + strconv.Itoa(r.Intn(50)) + ".example.net"})
						as.Port = verifh.Pick(r, []string{"443", "8443", "4433"})
						altHosts[as.Host] = true
					}
					jar.SetAltSvc(netutil.AuthorityKey(u), as)
					s.Count("altsvc-entry")
					if k == 0 {
						s.Count("altsvc-entry-for-first-origin")
					}
				}
			}
		}
		// what the policies are shown: the installed closure is wrapped for the duration of the call and
		// every (req, via) it is asked about is recorded — URL.Host of each LIVE request object, so a
		// transport (Alt-Svc carrier, HTTP/2, …) rewriting a request in flight shows up on any hop
		type c11Asked struct {
			req string
			via []string
		}
		var asked []c11Asked
		origCheck := cl.httpClient.CheckRedirect
		cl.httpClient.CheckRedirect = func(q *http.Request, via []*http.Request) error {
			a := c11Asked{req: q.URL.Host}
			for _, v := range via {
				a.via = append(a.via, v.URL.Host)
			}
			asked = append(asked, a)
			if origCheck == nil {
				if len(via) >= 10 {
					return fmt.Errorf("stopped after 10 redirects")
				}
				return nil
			}
			return origCheck(q, via)
		}
		resp, err := rq.Get(farm.scheme + "://" + c11URLHost(auths[0]) + "/0")
		cl.httpClient.CheckRedirect = origCheck
		if commonHost {
			cl.Headers.Del("Host")
		}
		// what the policies see as via[0] is the URL the client built: parseRequestURL drops an
		// empty port from the first URL (and nothing else); after the call the request must still
		// name that origin — nothing below the client may rewrite the URL of a request in flight
		urlRewritten := ""
		if want0 := strings.TrimSuffix(auths[0], ":"); want0 != auths[0] {
			s.Count("host0-normalised-by-client")
			auths[0] = want0
		}
		if rq.RawRequest != nil && rq.RawRequest.URL != nil && rq.RawRequest.URL.Host != auths[0] {
			urlRewritten = rq.RawRequest.URL.Host
		}
		farm.mu.Lock()
		recs := append([]c11Record(nil), farm.recs...)
		dials := append([]string(nil), farm.dials...)
		farm.mu.Unlock()

		for _, d := range dials {
			if h, _, e := net.SplitHostPort(d); e == nil && altHosts[h] {
				s.Count("request-carried-by-alternative")
				break
			}
		}
		// ---- canonical answer of the implementation
		outcome := ""
		switch {
		case err != nil:
			outcome = "error:" + strings.ReplaceAll(err.Error(), " ", "_")
			if ue, ok := err.(*url.Error); ok {
				msg := ue.Err.Error()
				for _, pre := range []string{"stopped after", "different domain name", "different host name", "redirect host", "redirect domain"} {
					if strings.HasPrefix(msg, pre) {
						outcome = "refused:" + strconv.Itoa(len(recs))
					}
				}
			}
		case resp.StatusCode == http.StatusOK:
			outcome = "final"
		case resp.StatusCode == http.StatusFound:
			outcome = "last:" + strconv.Itoa(len(recs))
		default:
			outcome = "status:" + strconv.Itoa(resp.StatusCode)
		}
		var gotHosts, gotHdr []string
		orderOK := true
		for k, rec := range recs {
			if rec.idx != k || rec.idx >= len(auths) {
				orderOK = false
				gotHosts = append(gotHosts, "?"+strconv.Itoa(rec.idx))
			} else {
				gotHosts = append(gotHosts, auths[rec.idx])
			}
			gotHdr = append(gotHdr, c11ShowProbes(func(k string) []string { return rec.hdr.Values(k) }, probes))
		}
		ans := outcome + " " + verifh.HexList(gotHosts) + " " + strings.Join(gotHdr, ";")

		// ---- independent oracle
		predict := func(hostOf, domainOf func(string) string) (int, int) {
			cnt := 1
			for k := 1; k < len(auths); k++ {
				if d := c11Decide(ps, auths[k], auths[:k], hostOf, domainOf); d != 0 {
					return cnt, d
				}
				cnt++
			}
			return cnt, 0
		}
		want, wantStop := predict(c11OracleHostOf, c11OracleDomainOf)
		gotStop := map[string]int{"final": 0, "refused": 1, "last": 2}[strings.SplitN(outcome, ":", 2)[0]]
		ok := orderOK && len(recs) == want && gotStop == wantStop && (alt || len(dials) == len(recs))
		if urlRewritten != "" {
			ok = false
		}
		viaNote := ""
		for k, a := range asked {
			// the k-th question is about hop k+1 and shows exactly the authorities of hops 0..k, as the
			// caller / the Location headers wrote them
			if k+1 >= len(auths) || a.req != auths[k+1] || strings.Join(a.via, ",") != strings.Join(auths[:k+1], ",") {
				ok = false
				viaNote = fmt.Sprintf("CheckRedirect call %d was shown req=%s via=%v, the chain is %v", k+1, a.req, a.via, auths)
				break
			}
		}
		if len(asked) > 0 {
			s.Count("checkredirect-observed")
		}
		detail := viaNote
		if !ok && detail == "" {
			detail = fmt.Sprintf("requests received %d, oracle allows %d, dials %d", len(recs), want, len(dials))
		}
		// every connection went to the hostname of the hop it was for
		for k := 0; ok && !alt && k < len(dials); k++ {
			dh, _, e := net.SplitHostPort(dials[k])
			if e != nil || !strings.EqualFold(dh, c11OracleHostOf(auths[k])) {
				ok, detail = false, fmt.Sprintf("hop %d dialled %q for authority %q", k, dials[k], auths[k])
			}
		}
		// headers
		listed := func(key string) bool {
			for _, p := range ps {
				if p.kind == "copy" {
					for _, h := range p.list {
						if textproto.CanonicalMIMEHeaderKey(h) == key {
							return true
						}
					}
				}
			}
			return false
		}
		initVals := func(key string) []string {
			var v []string
			for _, kv := range ih {
				if kv[0] == key {
					v = append(v, kv[1])
				}
			}
			return v
		}
		stripped := false
		h0, _ := url.Parse("http://" + c11URLHost(auths[0]) + "/")
		for k := 0; ok && k < len(recs); k++ {
			if k > 0 {
				hk, _ := url.Parse("http://" + c11URLHost(auths[k]) + "/")
				if auths[k] != auths[0] && !c11IsDomainOrSub(hk.Hostname(), h0.Hostname()) {
					stripped = true
				}
			}
			for _, key := range probes {
				got := strings.Join(recs[k].hdr.Values(key), "|")
				full := strings.Join(initVals(key), "|")
				switch {
				case k == 0 || !c11Sensitive(key) || !stripped || listed(key):
					if got != full {
						ok, detail = false, fmt.Sprintf("hop %d header %s = %q, want %q", k, key, got, full)
					}
				default: // sensitive, cross-origin, not listed: must not be delivered
					if got != "" {
						ok, detail = false, fmt.Sprintf("hop %d (%s) received sensitive %s = %q", k, auths[k], key, got)
					}
				}
			}
		}
		// known pre-fix behaviour: exactly the requests the verbatim pre-fix host functions allow
		class := ""
		for _, h := range append(append([]string{}, auths...), c11PolHosts(ps)...) {
			legacyAffected = legacyAffected || c11LegacyAffected(h)
		}
		if legacyAffected {
			lc, ls := predict(c11LegacyHostname, c11LegacyDomain)
			if (lc != want || ls != wantStop) && len(recs) == lc && gotStop == ls {
				class = c11LegacyClass
				s.Count("legacy-behaviour")
			}
		}
		s.Count("hops-scripted:" + strconv.Itoa(m))
		s.Count("outcome:" + strings.SplitN(outcome, ":", 2)[0])
		if stripped {
			s.Count("cross-origin-strip")
		}
		human := scen + c11ShowPols(ps) + hostNote + " chain=" + strings.Join(auths, " -> ") + " => " + outcome + " received=" + strconv.Itoa(len(recs))
		if urlRewritten != "" {
			detail = "URL.Host of the original request was rewritten to " + urlRewritten + " " + detail
		}
		if detail != "" {
			human += " [" + detail + "]"
		}
		line := line0 + " " + verifh.Hex(auths[0]) + " " + verifh.HexList(auths[1:]) + " " +
			c11EncHeaders(ih) + " " + verifh.HexList(probes)
		s.Case(line, ans, ok, class, m > 0, human)
	}
	must := []string{"direct", "reused-client", "family:original", "family:set-on-clone", "family:clone-of-clone-inherits", "family:clone-inherits,parent-reconfigured-later", "family:clone-inherits", "outcome:final", "outcome:refused", "outcome:last", "cross-origin-strip", "pol:copy", "pol:samehost", "pol:samedomain", "pol:ahost", "pol:adomain", "pol:no", "pol:nil", "pol:max", "hops-scripted:0", "hops-scripted:3", "host0-normalised-by-client",
		"host-override:request", "host-override:client", "host-override=next-hop-host", "checkredirect-observed", "args:clients-from-caller-owned-array"}
	if alt {
		must = append(must, "altsvc-entry", "altsvc-entry-for-first-origin", "request-carried-by-alternative")
	}
	s.FinishRequire(must...)
}
