//go:build verif

package req

import (
	"bufio"
	"bytes"
	"compress/gzip"
	"errors"
	"fmt"
	"io"
	"net"
	"net/http"
	"os"
	"sort"
	"strconv"
	"strings"
	"sync"
	"sync/atomic"
	"testing"
	"time"

	"github.com/imroc/req/v3/internal/verifh"
)

// ================================================================= dump configuration

// Writer ids: base+0 Output, +1 RequestOutput, +2 ResponseOutput, +3 RequestHeaderOutput,
// +4 RequestBodyOutput, +5 ResponseHeaderOutput, +6 ResponseBodyOutput. base = 10 for the
// client-level dumper, 20 for the request-level one (same numbers in the Lean model).
type c13DumperCfg struct {
	flags   [4]bool // request header, request body, response header, response body
	routing int     // 0 single Output, 1 one writer per part, 2 one per direction, 3 mixed precedence
	async   bool
	base    int
	failing bool // every writer of this dumper records the bytes and then reports an error
	slow    bool // every writer of this dumper takes a millisecond per write (a slow disk / terminal)
}

func (d *c13DumperCfg) writerIDs() [7]int {
	var w [7]int
	w[0] = d.base
	switch d.routing {
	case 1:
		w[3], w[4], w[5], w[6] = d.base+3, d.base+4, d.base+5, d.base+6
	case 2:
		w[1], w[2] = d.base+1, d.base+2
	case 3:
		w[1], w[3], w[6] = d.base+1, d.base+3, d.base+6
	}
	return w
}

func (d *c13DumperCfg) modelArg() string {
	if d == nil {
		return "-"
	}
	w := d.writerIDs()
	l := append([]int{}, w[:]...)
	for _, f := range d.flags {
		l = append(l, c13B2i(f))
	}
	l = append(l, c13B2i(d.async))
	return verifh.IntList(l)
}

func c13B2i(b bool) int {
	if b {
		return 1
	}
	return 0
}

func (d *c13DumperCfg) String() string {
	if d == nil {
		return "-"
	}
	f := ""
	for i, n := range []string{"qh", "qb", "rh", "rb"} {
		if d.flags[i] {
			f += n + "+"
		}
	}
	fw := ""
	if d.failing {
		fw = " failing-writers"
	}
	return fmt.Sprintf("{%s routing=%d async=%v%s}", strings.TrimSuffix(f, "+"), d.routing, d.async, fw)
}

// c13Log records every Write of every dump writer, in arrival order.
type c13Log struct {
	mu     sync.Mutex
	events []c13Event
}

type c13Event struct {
	w    int
	data string
}

type c13LogWriter struct {
	id   int
	log  *c13Log
	fail bool
	slow bool
}

func (w *c13LogWriter) Write(p []byte) (int, error) {
	if w.slow {
		time.Sleep(time.Millisecond)
	}
	w.log.mu.Lock()
	w.log.events = append(w.log.events, c13Event{w.id, string(p)})
	w.log.mu.Unlock()
	if w.fail {
		return 0, errors.New("dump writer: disk full")
	}
	return len(p), nil
}

func (l *c13Log) of(id int) []string {
	l.mu.Lock()
	defer l.mu.Unlock()
	var out []string
	for _, e := range l.events {
		if e.w == id {
			out = append(out, e.data)
		}
	}
	return out
}

func (l *c13Log) ids() []int {
	l.mu.Lock()
	defer l.mu.Unlock()
	seen := map[int]bool{}
	var out []int
	for _, e := range l.events {
		if !seen[e.w] {
			seen[e.w] = true
			out = append(out, e.w)
		}
	}
	sort.Ints(out)
	return out
}

func (d *c13DumperCfg) options(log *c13Log) *DumpOptions {
	w := d.writerIDs()
	mk := func(id int) io.Writer {
		if id == 0 {
			return nil
		}
		return &c13LogWriter{id, log, d.failing, d.slow}
	}
	return &DumpOptions{
		Output: mk(w[0]), RequestOutput: mk(w[1]), ResponseOutput: mk(w[2]),
		RequestHeaderOutput: mk(w[3]), RequestBodyOutput: mk(w[4]),
		ResponseHeaderOutput: mk(w[5]), ResponseBodyOutput: mk(w[6]),
		RequestHeader: d.flags[0], RequestBody: d.flags[1], ResponseHeader: d.flags[2], ResponseBody: d.flags[3],
		Async: d.async,
	}
}

type c13DumpCfg struct {
	cl, rq  *c13DumperCfg
	clone   bool // the request is sent from Client.Clone() of the configured client
	eachReq int  // > 0: request-level dump switched on by Client.EnableDumpEachRequest… (variant number); rq describes the resulting options, written to the request's own buffer (writer 30)
	// dump to a file: cl.base == 40: Client.EnableDumpAllToFile(clFile); rq.base == 41:
	// Request.EnableDumpToFile(rqFile); the files are read back as writers 40 / 41
	clFile, rqFile string
}

// flat reports whether the writer is read back as one string (Response.Dump(), a dump file).
func c13FlatWriter(id int) bool { return id == 30 || id == 40 || id == 41 }

// readBack appends what the dump files hold to the log (one event per file).
func (c c13DumpCfg) readBack(log *c13Log) {
	for id, f := range map[int]string{40: c.clFile, 41: c.rqFile} {
		if f == "" {
			continue
		}
		b, _ := os.ReadFile(f)
		log.mu.Lock()
		log.events = append(log.events, c13Event{id, string(b)})
		log.mu.Unlock()
	}
}

func (c c13DumpCfg) String() string {
	x := ""
	if c.clone {
		x += " via-Clone()"
	}
	if c.eachReq > 0 {
		x += fmt.Sprintf(" via-EnableDumpEachRequest#%d", c.eachReq)
	}
	if c.clFile != "" {
		x += " via-EnableDumpAllToFile"
	}
	if c.rqFile != "" {
		x += " via-EnableDumpToFile"
	}
	return "client=" + c.cl.String() + " request=" + c.rq.String() + x
}

// c13EachReq: the seven EnableDumpEachRequest… setters and the parts they leave enabled.
var c13EachReq = []struct {
	name  string
	set   func(*Client) *Client
	flags [4]bool
}{
	{},
	{"EnableDumpEachRequest", (*Client).EnableDumpEachRequest, [4]bool{true, true, true, true}},
	{"EnableDumpEachRequestWithoutBody", (*Client).EnableDumpEachRequestWithoutBody, [4]bool{true, false, true, false}},
	{"EnableDumpEachRequestWithoutHeader", (*Client).EnableDumpEachRequestWithoutHeader, [4]bool{false, true, false, true}},
	{"EnableDumpEachRequestWithoutRequest", (*Client).EnableDumpEachRequestWithoutRequest, [4]bool{false, false, true, true}},
	{"EnableDumpEachRequestWithoutResponse", (*Client).EnableDumpEachRequestWithoutResponse, [4]bool{true, true, false, false}},
	{"EnableDumpEachRequestWithoutResponseBody", (*Client).EnableDumpEachRequestWithoutResponseBody, [4]bool{true, true, true, false}},
	{"EnableDumpEachRequestWithoutRequestBody", (*Client).EnableDumpEachRequestWithoutRequestBody, [4]bool{true, false, true, true}},
}

func c13GenDumper(s *verifh.Session, base int, subset int, async bool) *c13DumperCfg {
	r := s.Rand()
	d := &c13DumperCfg{base: base, routing: r.Intn(4), async: async, failing: r.Intn(7) == 0, slow: r.Intn(9) == 0}
	for i := 0; i < 4; i++ {
		d.flags[i] = subset&(1<<i) != 0
	}
	return d
}

// applyClient configures the client like a user would and returns the client to send from.
func (c c13DumpCfg) applyClient(cl *Client, log *c13Log, viaSetOptions bool) *Client {
	if c.cl != nil && c.cl.base == 40 {
		cl.EnableDumpAllToFile(c.clFile)
	} else if c.cl != nil {
		opt := c.cl.options(log)
		if viaSetOptions {
			cl.SetCommonDumpOptions(opt)
			cl.EnableDumpAll()
		} else {
			cl.EnableDump(opt) // Transport.EnableDump
		}
	}
	if c.eachReq > 0 {
		c13EachReq[c.eachReq].set(cl)
	}
	if c.clone {
		cl = cl.Clone()
	}
	return cl
}

func (c c13DumpCfg) applyRequest(rq *Request, log *c13Log) {
	if c.rq != nil && c.rq.base == 41 {
		rq.EnableDumpToFile(c.rqFile)
	} else if c.rq != nil && c.eachReq == 0 {
		// every ORDER of the request-level calls that must end with the same dumper (theorems
		// set_last_wins / enable_set_commute): SetDumpOptions last wins whatever came before
		opt := c.rq.options(log)
		other := &DumpOptions{Output: &c13LogWriter{id: 29, log: log}, RequestHeader: true, RequestBody: true, ResponseHeader: true, ResponseBody: true}
		switch atomic.AddInt64(&c13RqOrder, 1) % 6 {
		case 0, 1:
			rq.SetDumpOptions(opt).EnableDump()
		case 2:
			rq.EnableDump().SetDumpOptions(opt)
		case 3:
			rq.EnableDumpWithoutBody().SetDumpOptions(opt)
		case 4:
			rq.SetDumpOptions(other).EnableDump().SetDumpOptions(opt)
		case 5:
			rq.EnableDumpTo(other.Output).SetDumpOptions(opt)
		}
	}
}

// c13RqOrder cycles the call orders of applyRequest (lanes run one after the other).
var c13RqOrder int64

// flush waits until everything a started async dumper queued has been written: a sentinel task
// goes through the same FIFO channel.
func c13Flush(cl *Client) {
	if cl.Dump == nil || !cl.Dump.Async() {
		return
	}
	done := make(chan struct{})
	d := cl.Dump
	go d.DumpTo([]byte("sentinel"), c13SignalWriter{done}) // may block for ever when nobody drains the queue
	wait := 2 * time.Second
	if c13FlushTimeouts >= 3 { // delivery is broken: do not wait on every pair
		wait = 10 * time.Millisecond
	}
	select {
	case <-done:
	case <-time.After(wait):
		c13FlushTimeouts++
	}
}

// c13StopDump switches the client-level dump off without risking to block on a full queue.
func c13StopDump(cl *Client) {
	if cl.Dump == nil {
		return
	}
	done := make(chan struct{})
	go func() { cl.DisableDumpAll(); close(done) }()
	select {
	case <-done:
	case <-time.After(200 * time.Millisecond):
	}
}

var c13FlushTimeouts int

type c13SignalWriter struct{ ch chan struct{} }

func (w c13SignalWriter) Write(p []byte) (int, error) { close(w.ch); return len(p), nil }

// ================================================================= interleaving oracle

// c13Interleaves: is the event list an interleaving (at write granularity) of the byte
// sequences seqs (one per goroutine that dumps: request writer, response head reader, body
// reader)? CR/LF-only writes may additionally be skipped when sepOK (separators).
func c13Interleaves(events []string, seqs []string, sepOK bool) bool {
	key := func(pos []int) string { return fmt.Sprint(pos) }
	cur := map[string][]int{}
	start := make([]int, len(seqs))
	cur[key(start)] = start
	for _, e := range events {
		next := map[string][]int{}
		for _, pos := range cur {
			for i, sq := range seqs {
				if e != "" && strings.HasPrefix(sq[pos[i]:], e) {
					np := append([]int{}, pos...)
					np[i] += len(e)
					next[key(np)] = np
				}
			}
			if sepOK && strings.Trim(e, "\r\n") == "" {
				next[key(pos)] = pos
			}
		}
		if len(next) == 0 {
			return false
		}
		cur = next
	}
	for _, pos := range cur {
		done := true
		for i, sq := range seqs {
			if pos[i] != len(sq) {
				done = false
			}
		}
		if done {
			return true
		}
	}
	return false
}

// c13MatchFlat: got = sep* p1 sep* p2 … sep* with sep a CR or LF character.
func c13MatchFlat(got string, parts []string) bool {
	type st struct{ pos, idx int }
	seen := map[st]bool{}
	var rec func(pos, idx int) bool
	rec = func(pos, idx int) bool {
		k := st{pos, idx}
		if seen[k] {
			return false
		}
		seen[k] = true
		if idx == len(parts) && pos == len(got) {
			return true
		}
		if idx < len(parts) && strings.HasPrefix(got[pos:], parts[idx]) && rec(pos+len(parts[idx]), idx+1) {
			return true
		}
		if pos < len(got) && (got[pos] == '\r' || got[pos] == '\n') {
			return rec(pos+1, idx)
		}
		return false
	}
	return rec(0, 0)
}

// ================================================================= HTTP/1.1 capture peer

type c13Resp struct {
	send100 bool   // write "HTTP/1.1 100 Continue" right after the request head, before reading the body
	raw     string // everything the peer writes: interim heads, final head, framed body
	head    string // the head bytes in raw (interim responses + final head, incl. blank lines)
	body    string // what a caller is expected to read (plain text of the body)
	close   bool   // close the connection after writing
	early   bool   // answer right after the request head, without reading the request body
	pieces  int    // write raw in this many pieces
	upgrade bool   // raw is a 101 response: afterwards the connection speaks a line protocol (each line is answered in upper case, "bye" ends it)
}

type c13Attempt struct {
	conn    int    // which accepted connection carried it
	path    string // request target without the query
	head    string // request head as received, incl. the blank line
	wire    string // request body as received (chunk framing included)
	payload string // request body decoded
}

type c13Peer struct {
	ln       net.Listener
	mu       sync.Mutex
	scripts  map[string][]c13Resp
	hits     map[string]int
	captured []c13Attempt
	conns    []net.Conn
	connSeq  int
	busy     int // requests whose head was read and whose capture is not recorded yet
	lives    map[string]*c13Live // path -> pacing of an interactive exchange (lane live)
}

func (p *c13Peer) liveFor(path string) *c13Live {
	p.mu.Lock()
	defer p.mu.Unlock()
	return p.lives[path]
}

// waitIdle waits until every request the peer started to handle has been recorded.
func (p *c13Peer) waitIdle() {
	for i := 0; i < 3000; i++ {
		p.mu.Lock()
		b := p.busy
		p.mu.Unlock()
		if b == 0 {
			return
		}
		time.Sleep(time.Millisecond)
	}
}

func c13NewPeer(t testing.TB) *c13Peer {
	ln, err := net.Listen("tcp", "127.0.0.1:0")
	if err != nil {
		t.Fatalf("listen: %v", err)
	}
	p := &c13Peer{ln: ln, scripts: map[string][]c13Resp{}, hits: map[string]int{}}
	go func() {
		for {
			c, err := ln.Accept()
			if err != nil {
				return
			}
			p.mu.Lock()
			p.conns = append(p.conns, c)
			p.mu.Unlock()
			go p.serve(c)
		}
	}()
	return p
}

func (p *c13Peer) addr() string { return p.ln.Addr().String() }

func (p *c13Peer) close() {
	p.ln.Close()
	p.mu.Lock()
	for _, c := range p.conns {
		c.Close()
	}
	p.mu.Unlock()
}

// reset forgets captures and hit counters (between the two runs of a pair).
func (p *c13Peer) reset() []c13Attempt {
	p.mu.Lock()
	defer p.mu.Unlock()
	c := p.captured
	p.captured = nil
	p.hits = map[string]int{}
	return c
}

func (p *c13Peer) next(path string) (c13Resp, bool) {
	p.mu.Lock()
	defer p.mu.Unlock()
	l := p.scripts[path]
	if len(l) == 0 {
		return c13Resp{}, false
	}
	i := p.hits[path]
	p.hits[path]++
	if i >= len(l) {
		i = len(l) - 1
	}
	return l[i], true
}

func (p *c13Peer) serve(c net.Conn) {
	defer c.Close()
	p.mu.Lock()
	p.connSeq++
	connID := p.connSeq
	p.mu.Unlock()
	br := bufio.NewReaderSize(c, 64<<10)
	for {
		var head bytes.Buffer
		for {
			line, err := br.ReadSlice('\n')
			head.Write(line)
			if err != nil && err != bufio.ErrBufferFull {
				return
			}
			if err == nil && (string(line) == "\r\n" || string(line) == "\n") {
				break
			}
		}
		hs := head.String()
		lines := strings.Split(hs, "\r\n")
		parts := strings.SplitN(lines[0], " ", 3)
		path := ""
		if len(parts) >= 2 {
			path = parts[1]
			if i := strings.IndexByte(path, '?'); i >= 0 {
				path = path[:i]
			}
		}
		cl, chunked := -1, false
		for _, l := range lines[1:] {
			k, v, _ := strings.Cut(l, ":")
			v = strings.TrimSpace(v)
			switch strings.ToLower(k) {
			case "content-length":
				cl, _ = strconv.Atoi(v)
			case "transfer-encoding":
				chunked = strings.Contains(strings.ToLower(v), "chunked")
			}
		}
		p.mu.Lock()
		p.busy++
		p.mu.Unlock()
		script, ok := p.next(path)
		if !ok {
			script = c13Resp{raw: "HTTP/1.1 599 no script\r\nContent-Length: 0\r\n\r\n"}
		}
		live := p.liveFor(path)
		att := c13Attempt{head: hs, conn: connID, path: path}
		fail := func() {
			p.mu.Lock()
			p.busy--
			p.mu.Unlock()
		}
		if script.send100 {
			if _, err := c.Write([]byte("HTTP/1.1 100 Continue\r\n\r\n")); err != nil {
				fail()
				return
			}
		}
		if script.early {
			// answer at once, then record whatever the client still sends until it hangs up
			c.Write([]byte(script.raw))
			c.SetReadDeadline(time.Now().Add(2 * time.Second))
			rest, _ := io.ReadAll(br)
			att.wire = string(rest)
			p.mu.Lock()
			p.captured = append(p.captured, att)
			p.busy--
			p.mu.Unlock()
			return
		}
		if !script.early {
			switch {
			case chunked:
				var wire, payload bytes.Buffer
				for {
					line, err := br.ReadString('\n')
					wire.WriteString(line)
					if err != nil {
						fail()
						return
					}
					n, err := strconv.ParseInt(strings.TrimSpace(strings.SplitN(line, ";", 2)[0]), 16, 64)
					if err != nil {
						fail()
						return
					}
					if n == 0 {
						for { // trailers
							tl, err := br.ReadString('\n')
							wire.WriteString(tl)
							if err != nil || tl == "\r\n" {
								break
							}
						}
						break
					}
					buf := make([]byte, n+2)
					if _, err := io.ReadFull(br, buf); err != nil {
						fail()
						return
					}
					wire.Write(buf)
					payload.Write(buf[:n])
					if live != nil {
						live.gotUpload(int(n))
					}
				}
				att.wire, att.payload = wire.String(), payload.String()
			case cl > 0:
				buf := make([]byte, cl)
				if _, err := io.ReadFull(br, buf); err != nil {
					fail()
					return
				}
				att.wire, att.payload = string(buf), string(buf)
			}
		}
		p.mu.Lock()
		p.captured = append(p.captured, att)
		p.busy--
		p.mu.Unlock()
		raw := script.raw
		n := script.pieces
		if n < 1 {
			n = 1
		}
		if script.upgrade {
			if _, err := c.Write([]byte(raw)); err != nil {
				return
			}
			for {
				line, err := br.ReadString('\n')
				if err != nil {
					return
				}
				if _, err := c.Write([]byte(strings.ToUpper(line))); err != nil || line == "bye\n" {
					return
				}
			}
		}
		if live != nil {
			// interactive download: the head (chunked framing announced), then one chunk per
			// piece, the next one only after the caller has read the previous one
			if _, err := c.Write([]byte(raw)); err != nil {
				return
			}
			for j, piece := range live.down {
				if _, err := fmt.Fprintf(c, "%x\r\n%s\r\n", len(piece), piece); err != nil {
					return
				}
				live.waitRead(j)
			}
			if _, err := c.Write([]byte("0\r\n\r\n")); err != nil {
				return
			}
			continue
		}
		for i := 0; i < n; i++ {
			lo, hi := len(raw)*i/n, len(raw)*(i+1)/n
			if _, err := c.Write([]byte(raw[lo:hi])); err != nil {
				return
			}
		}
		if script.close || script.early {
			return
		}
	}
}

// ================================================================= scenarios

type c13Scenario struct {
	name    string
	method  string
	path    string
	query   string
	headers [][2]string
	body    string // request body
	bodyVia string // "", "bytes", "reader" (unknown length: chunked), "chunked" (forced)
	scripts map[string][]c13Resp
	retry   bool
	expect  bool     // Expect: 100-continue exchange (short ExpectContinueTimeout)
	partial bool     // the final response is cut short: the expected body dump is the script's prefix, not the caller's (failed) result
	class   string   // known-finding class this input belongs to ("" = none)
	order   []string // paths hit, in order, for the expected response side
	// round 7: a header order (collect-sort-write path of writeRequest), set on the request
	// (SetHeaderOrder) or on the client (SetCommonHeaderOrder). Every key the request can carry
	// is listed, so that the wire order does not depend on Go's map iteration order.
	hdrOrder    []string
	orderClient bool
}

type c13Result struct {
	err    string
	status int
	proto  string
	header string
	body   string
	extra  string
}

func (r c13Result) String() string {
	return fmt.Sprintf("err=%s status=%d proto=%s extra=%s header=%s body(%d)=%q", r.err, r.status, r.proto, r.extra, r.header, len(r.body), c13Clip(r.body, 60))
}

func c13ErrClass(err error) string {
	if err == nil {
		return "-"
	}
	e := err
	for {
		u := errors.Unwrap(e)
		if u == nil {
			break
		}
		e = u
	}
	return fmt.Sprintf("error(%T)", e)
}

func c13ResultOf(resp *Response, err error) c13Result {
	r := c13Result{err: c13ErrClass(err)}
	if resp == nil || resp.Response == nil {
		return r
	}
	r.status = resp.StatusCode
	r.proto = resp.Proto
	keys := make([]string, 0, len(resp.Header))
	for k := range resp.Header {
		keys = append(keys, k)
	}
	sort.Strings(keys)
	var b strings.Builder
	for _, k := range keys {
		fmt.Fprintf(&b, "%s=%q;", k, resp.Header[k])
	}
	r.header = b.String()
	r.body = string(resp.Bytes())
	tk := make([]string, 0, len(resp.Trailer))
	for k, v := range resp.Trailer {
		tk = append(tk, fmt.Sprintf("%s=%q", k, v))
	}
	sort.Strings(tk)
	r.extra = fmt.Sprintf("cl=%d te=%v unc=%v close=%v trailer=%v", resp.ContentLength, resp.TransferEncoding, resp.Uncompressed, resp.Close, tk)
	return r
}

func c13Gzip(s string) string {
	var b bytes.Buffer
	zw := gzip.NewWriter(&b)
	zw.Write([]byte(s))
	zw.Close()
	return b.String()
}

func c13ChunkBody(s *verifh.Session, body string, trailer string) string {
	r := s.Rand()
	var b strings.Builder
	for len(body) > 0 {
		n := 1 + r.Intn(4000)
		if n > len(body) {
			n = len(body)
		}
		fmt.Fprintf(&b, "%x\r\n%s\r\n", n, body[:n])
		body = body[n:]
	}
	b.WriteString("0\r\n" + trailer + "\r\n")
	return b.String()
}

// c13GenResp builds one scripted response. feature selects a header peculiarity.
func c13GenResp(s *verifh.Session, status int, feature string, bodyKind string) c13Resp {
	r := s.Rand()
	var size int
	switch r.Intn(5) {
	case 0:
		size = 0
	case 1:
		size = 1 + r.Intn(50)
	case 2:
		size = 4000 + r.Intn(300)
	case 3:
		size = 20000 + r.Intn(50000)
	default:
		size = r.Intn(2000)
	}
	plain := verifh.RandBytes(r, size, "abcdefghij KLMNOP\n<>/=\"0123456789")
	var hd strings.Builder
	interim := ""
	if feature == "1xx" {
		interim = "HTTP/1.1 103 Early Hints\r\nLink: </style.css>; rel=preload\r\n\r\n"
	}
	fmt.Fprintf(&hd, "HTTP/1.1 %d %s\r\n", status, http.StatusText(status))
	hd.WriteString("X-Verif: c13\r\n")
	switch feature {
	case "long":
		hd.WriteString("X-Long: " + verifh.RandBytes(r, 4090+r.Intn(5000), "abcdefgh ,;=") + "z\r\n")
	case "long-status":
		hd.Reset()
		fmt.Fprintf(&hd, "HTTP/1.1 %d %s\r\n", status, verifh.RandBytes(r, 4200, "abc def"))
	case "many":
		for i := 0; i < 40+r.Intn(60); i++ {
			fmt.Fprintf(&hd, "X-H%d: %s\r\n", i%30, verifh.RandBytes(r, r.Intn(40), "abcdef 0123"))
		}
	case "fold":
		hd.WriteString("X-Folded: first\r\n  second part\r\n\tthird\r\nX-After: 1\r\n")
	case "barelf":
		hd.WriteString("X-Bare: lf\nX-Next: crlf\r\n")
	case "nearly-long":
		hd.WriteString("X-Near: " + verifh.RandBytes(r, 4096-len("X-Near: ")-2-r.Intn(3), "abcdefgh") + "\r\n")
	}
	wire, decoded := plain, plain
	noBody := status == 204 || status == 304
	if noBody {
		wire, decoded = "", ""
	}
	switch bodyKind {
	case "gzip":
		if !noBody {
			wire = c13Gzip(plain)
			hd.WriteString("Content-Encoding: gzip\r\n")
		}
	case "gbk":
		if !noBody {
			// "中文" in GBK, repeated; the client auto-decodes to UTF-8
			n := 1 + size/8
			wire = strings.Repeat("\xd6\xd0\xce\xc4 ok\n", n)
			decoded = strings.Repeat("中文 ok\n", n)
			hd.WriteString("Content-Type: text/html; charset=gbk\r\n")
		}
	case "text":
		hd.WriteString("Content-Type: text/plain; charset=utf-8\r\n")
	}
	resp := c13Resp{pieces: 1 + r.Intn(4)}
	framing := r.Intn(3)
	if noBody {
		framing = 0
	}
	switch framing {
	case 0:
		if !noBody {
			fmt.Fprintf(&hd, "Content-Length: %d\r\n", len(wire))
		}
		hd.WriteString("\r\n")
		resp.raw = interim + hd.String() + wire
	case 1:
		trailer := ""
		if r.Intn(3) == 0 {
			hd.WriteString("Trailer: X-Sum\r\n")
			trailer = "X-Sum: 42\r\n"
		}
		hd.WriteString("Transfer-Encoding: chunked\r\n\r\n")
		resp.raw = interim + hd.String() + c13ChunkBody(s, wire, trailer)
	default:
		hd.WriteString("Connection: close\r\n\r\n")
		resp.raw = interim + hd.String() + wire
		resp.close = true
	}
	resp.head = interim + hd.String()
	resp.body = decoded
	return resp
}

var c13ScenarioSeq int

func c13GenScenario(s *verifh.Session, flow, feature string) *c13Scenario {
	r := s.Rand()
	c13ScenarioSeq++
	sc := &c13Scenario{
		name:    flow + "/" + feature,
		method:  "GET",
		path:    fmt.Sprintf("/c13/%d", c13ScenarioSeq),
		scripts: map[string][]c13Resp{},
	}
	switch feature {
	case "long", "long-status":
		sc.class = "h1-resp-line-exceeds-buffer"
	case "fold":
		sc.class = "h1-resp-fold-space-not-dumped"
	}
	if r.Intn(3) == 0 {
		sc.query = "a=1&b=" + verifh.RandBytes(r, r.Intn(20), "abc123")
	}
	for i, n := 0, r.Intn(4); i < n; i++ {
		sc.headers = append(sc.headers, [2]string{"X-Req-" + strconv.Itoa(i), verifh.RandBytes(r, r.Intn(30), "abcdef 123")})
	}
	switch r.Intn(6) {
	case 0:
		sc.headers = append(sc.headers, [2]string{"X-Big", verifh.RandBytes(r, 4000+r.Intn(3000), "abcdefgh")})
	case 1:
		for i := 0; i < 30; i++ {
			sc.headers = append(sc.headers, [2]string{"X-Many-" + strconv.Itoa(i), "v" + strconv.Itoa(i)})
		}
	}
	if r.Intn(2) == 0 {
		sc.method = verifh.Pick(r, []string{"POST", "PUT", "PATCH"})
		var n int
		switch r.Intn(4) {
		case 0:
			n = 1 + r.Intn(40)
		case 1:
			n = 4000 + r.Intn(300)
		case 2:
			n = 30000 + r.Intn(50000)
		default:
			n = r.Intn(3)
		}
		sc.body = verifh.RandBytes(r, n, "abcdefgh\r\n{}:\"0123456789")
		sc.bodyVia = verifh.Pick(r, []string{"bytes", "bytes", "reader", "chunked", "multipart"})
		if sc.bodyVia == "multipart" {
			sc.method = "POST"
		}
	}
	bodyKind := verifh.Pick(r, []string{"plain", "plain", "gzip", "gbk", "text"})
	final := 200
	if r.Intn(8) == 0 {
		final = verifh.Pick(r, []int{201, 204, 304, 404})
	}
	switch flow {
	case "head":
		// HEAD: the response announces a body length and has no body
		sc.method, sc.body, sc.bodyVia = "HEAD", "", ""
		var hd strings.Builder
		fmt.Fprintf(&hd, "HTTP/1.1 %d %s\r\nX-Verif: c13\r\n", final, http.StatusText(final))
		if feature == "many" {
			for i := 0; i < 40+r.Intn(40); i++ {
				fmt.Fprintf(&hd, "X-H%d: %s\r\n", i%30, verifh.RandBytes(r, r.Intn(40), "abcdef 0123"))
			}
		}
		fmt.Fprintf(&hd, "Content-Type: text/plain\r\nContent-Length: %d\r\n\r\n", 1+r.Intn(100000))
		sc.scripts[sc.path] = []c13Resp{{raw: hd.String(), head: hd.String(), pieces: 1 + r.Intn(3)}}
		sc.order = []string{sc.path}
		sc.class = ""
	case "single":
		sc.scripts[sc.path] = []c13Resp{c13GenResp(s, final, feature, bodyKind)}
		sc.order = []string{sc.path}
	case "retry":
		sc.retry = true
		first := c13GenResp(s, verifh.Pick(r, []int{500, 503}), "", "plain")
		sc.scripts[sc.path] = []c13Resp{first, c13GenResp(s, final, feature, bodyKind)}
		sc.order = []string{sc.path, sc.path}
	case "expect-continue", "expect-reject":
		// Expect: 100-continue with a body; the peer either sends 100 Continue and then the
		// final response, or rejects at once (417, Connection: close) without reading the body.
		sc.method = "POST"
		sc.body = verifh.RandBytes(r, 100+r.Intn(6000), "abcdefgh0123456789")
		sc.bodyVia = "bytes"
		sc.headers = append(sc.headers, [2]string{"Expect", "100-continue"})
		sc.expect = true
		if flow == "expect-continue" {
			resp := c13GenResp(s, final, feature, bodyKind)
			resp.send100 = true
			resp.head = "HTTP/1.1 100 Continue\r\n\r\n" + resp.head
			sc.scripts[sc.path] = []c13Resp{resp}
		} else {
			head := "HTTP/1.1 417 Expectation Failed\r\nConnection: close\r\nContent-Length: 2\r\n\r\n"
			sc.scripts[sc.path] = []c13Resp{{raw: head + "no", head: head, body: "no", early: true, pieces: 1}}
		}
		sc.order = []string{sc.path}
	case "truncated":
		// Content-Length promises more than the peer sends before it hangs up: the call fails
		// the same way with and without dump; what was received is dumped
		full := verifh.RandBytes(r, 200+r.Intn(9000), "abcdefghij0123456789\n")
		sent := full[:len(full)/2]
		head := fmt.Sprintf("HTTP/1.1 200 OK\r\nX-Verif: c13\r\nContent-Length: %d\r\n\r\n", len(full))
		sc.scripts[sc.path] = []c13Resp{{raw: head + sent, head: head, body: sent, close: true, pieces: 1 + r.Intn(3)}}
		sc.order = []string{sc.path}
		sc.partial = true
		sc.class = ""
	case "retry-after-reset":
		// the first connection is closed without an answer: transport error, retried
		sc.retry = true
		sc.scripts[sc.path] = []c13Resp{{raw: "", close: true}, c13GenResp(s, final, feature, bodyKind)}
		sc.order = []string{sc.path, sc.path}
	case "garbage":
		// not an HTTP response at all
		// {what the peer sends, the whole lines the head reader consumes before it gives up}
		g := verifh.Pick(r, [][2]string{
			{"SSH-2.0-OpenSSH_9.6\r\n", "SSH-2.0-OpenSSH_9.6\r\n"},
			{"HTTP/1.1 2x0 OK\r\nX-A: 1\r\n\r\n", "HTTP/1.1 2x0 OK\r\n"},
			{"HTTP/1.1 200 OK\r\nNo colon here\r\nX-A: 1\r\n\r\n", "HTTP/1.1 200 OK\r\nNo colon here\r\n"},
		})
		sc.scripts[sc.path] = []c13Resp{{raw: g[0], head: g[1], body: "", close: true, pieces: 1}}
		sc.order = []string{sc.path}
		sc.class = ""
	case "redirect":
		target := sc.path + "/target"
		code := verifh.Pick(r, []int{301, 302, 307, 308})
		body := verifh.RandBytes(r, r.Intn(200), "redirect body")
		head := fmt.Sprintf("HTTP/1.1 %d %s\r\nLocation: %s\r\nContent-Length: %d\r\n\r\n", code, http.StatusText(code), target, len(body))
		sc.scripts[sc.path] = []c13Resp{{raw: head + body, head: head, body: body, pieces: 1}}
		sc.scripts[target] = []c13Resp{c13GenResp(s, final, feature, bodyKind)}
		sc.order = []string{sc.path, target}
	}
	if r.Intn(4) == 0 {
		list := []string{"Host", "User-Agent", "Content-Length", "Transfer-Encoding", "Content-Type", "Accept-Encoding",
			"Connection", "Expect", "Trailer", "Accept", "Cookie", "Referer", "Authorization", "Content-Encoding", "X-Absent"}
		seen := map[string]bool{}
		for _, h := range sc.headers {
			if k := http.CanonicalHeaderKey(h[0]); !seen[k] {
				seen[k] = true
				list = append(list, k)
			}
		}
		r.Shuffle(len(list), func(i, j int) { list[i], list[j] = list[j], list[i] })
		for i := range list {
			if r.Intn(3) == 0 {
				list[i] = strings.ToLower(list[i])
			}
		}
		sc.hdrOrder = list
		sc.orderClient = r.Intn(2) == 0
	}
	return sc
}

type c13RunOut struct {
	cl       *Client
	res      c13Result
	attempts []c13Attempt
	log      *c13Log
	dumpStr  string
}

// c13RunH1 executes the scenario once with a fresh client.
func c13RunH1(peer *c13Peer, sc *c13Scenario, cfg *c13DumpCfg, viaSet bool, timeout time.Duration, clone bool) c13RunOut {
	peer.mu.Lock()
	for k, v := range sc.scripts {
		peer.scripts[k] = v
	}
	peer.mu.Unlock()
	peer.reset()
	cl := C().SetTimeout(timeout)
	if sc.retry {
		cl.SetCommonRetryCount(2).SetCommonRetryFixedInterval(time.Millisecond).
			SetCommonRetryCondition(func(resp *Response, err error) bool {
				return err != nil || (resp != nil && resp.Response != nil && resp.StatusCode >= 500)
			})
	}
	if sc.expect {
		cl.Transport.SetExpectContinueTimeout(400 * time.Millisecond)
	}
	out := c13RunOut{log: &c13Log{}}
	if cfg != nil {
		cl = cfg.applyClient(cl, out.log, viaSet)
	} else if clone {
		cl = cl.Clone() // the baseline run of a via-Clone() pair is sent from a clone as well
	}
	rq := cl.R()
	for _, h := range sc.headers {
		rq.SetHeader(h[0], h[1])
	}
	if len(sc.hdrOrder) > 0 {
		if sc.orderClient {
			cl.SetCommonHeaderOrder(sc.hdrOrder...)
		} else {
			rq.SetHeaderOrder(sc.hdrOrder...)
		}
	}
	switch sc.bodyVia {
	case "bytes":
		rq.SetBodyBytes([]byte(sc.body))
	case "reader":
		body := sc.body
		rq.SetBody(func() (io.ReadCloser, error) { return io.NopCloser(strings.NewReader(body)), nil })
	case "chunked":
		rq.SetBodyBytes([]byte(sc.body)).EnableForceChunkedEncoding()
	case "multipart":
		c13Multipart(cl, rq, sc.body)
	}
	if cfg != nil {
		cfg.applyRequest(rq, out.log)
	}
	url := "http://" + peer.addr() + sc.path
	if sc.query != "" {
		url += "?" + sc.query
	}
	resp, err := rq.Send(sc.method, url)
	out.res = c13ResultOf(resp, err)
	if cfg != nil && cfg.eachReq > 0 && resp != nil {
		// the request's own buffer, read back the documented way; one write event for the oracle
		// under the log's lock: an async client-level dumper may be writing to the same log
		// from its Start goroutine right now (an unlocked append here once lost this event)
		d := resp.Dump()
		out.log.mu.Lock()
		out.log.events = append(out.log.events, c13Event{30, d})
		out.log.mu.Unlock()
	}
	if cfg != nil {
		cfg.readBack(out.log)
	}
	out.cl = cl // flushed and stopped at judge time: the write loop may still be dumping its last piece
	cl.CloseIdleConnections()
	peer.waitIdle()
	out.attempts = peer.reset()
	return out
}

// c13Multipart makes the request a multipart upload (a form field and a file part) with a fixed
// boundary, so that the two runs of a pair send the same bytes.
func c13Multipart(cl *Client, rq *Request, content string) {
	cl.SetMultipartBoundaryFunc(func() string { return "c13-fixed-boundary-7d1a" })
	rq.SetFormData(map[string]string{"note": "multipart upload"}).SetFileBytes("file", "upload.bin", []byte(content))
}

// c13Guard runs one exchange under a harness deadline: a call that never returns (a blocked
// transport goroutine) must not take the lane down. The stuck goroutine is abandoned.
func c13Guard(d time.Duration, f func() c13RunOut) (c13RunOut, bool) {
	ch := make(chan c13RunOut, 1)
	go func() { ch <- f() }()
	select {
	case o := <-ch:
		return o, false
	case <-time.After(d):
		return c13RunOut{res: c13Result{err: "hung"}, log: &c13Log{}}, true
	}
}

func c13AttemptsEqual(a, b []c13Attempt) string {
	if len(a) != len(b) {
		return fmt.Sprintf("%d requests on the wire vs %d", len(a), len(b))
	}
	for i := range a {
		if a[i].head != b[i].head {
			return fmt.Sprintf("request %d: head differs: %q vs %q", i, c13Clip(a[i].head, 300), c13Clip(b[i].head, 300))
		}
		if a[i].wire != b[i].wire {
			return fmt.Sprintf("request %d: body bytes differ (%d vs %d bytes)", i, len(a[i].wire), len(b[i].wire))
		}
	}
	return ""
}

// c13Pending is one paired run waiting for the model's expected dump.
type c13Pending struct {
	id, human, class string
	why              []string
	modelLine        string
	tokens           map[string]string // token -> bytes
	seqOf            map[string]int    // token -> dumping goroutine: 0 request writer, 1 response head reader, 2 body reader
	log              *c13Log
	cl               *Client      // the dump-on client: its async queue is flushed before judging
	cls              []*Client    // further clients of the run (clones)
	outputs          map[int]bool // writer ids that are an Output() (separators allowed)
	nontrivial       bool
	extra            []c13Extra // further model queries of this pair
}

// c13Extra is one more model line with the check of its answer (returns "" when fine).
type c13Extra struct {
	line  string
	check func(answer string) string
}

// c13Judge compares each writer's recorded writes with the model's expectedDump.
func c13Judge(p *c13Pending, answer string) {
	want := map[int][]string{} // writer -> token list
	for _, f := range strings.Fields(answer) {
		if !strings.HasPrefix(f, "w") {
			continue
		}
		idStr, hexs, _ := strings.Cut(f[1:], "=")
		id, _ := strconv.Atoi(idStr)
		raw := verifh.UnHex(hexs)
		for i := 0; i+3 <= len(raw); i += 3 {
			want[id] = append(want[id], raw[i:i+3])
		}
	}
	ids := map[int]bool{}
	for id := range want {
		ids[id] = true
	}
	for _, id := range p.log.ids() {
		ids[id] = true
	}
	for id := range ids {
		seqs := make([]string, 3)
		for _, tk := range want[id] {
			seqs[p.seqOf[tk]] += p.tokens[tk]
		}
		ev := p.log.of(id)
		if c13FlatWriter(id) {
			// Response.Dump() / a dump file: one flat string; parts in wire order, separators between them
			var parts []string
			for _, tk := range want[id] {
				parts = append(parts, p.tokens[tk])
			}
			got := strings.Join(ev, "")
			// the request writer's body separator (CR LF CR LF to Output()) may land inside the
			// response head another goroutine is dumping at that moment (HTTP/2, HTTP/3: an
			// interim response right after END_STREAM): separators are ignored wherever they
			// land, so fall back to comparing everything but CR / LF
			strip := strings.NewReplacer("\r", "", "\n", "")
			if !c13MatchFlat(got, parts) && strip.Replace(got) != strip.Replace(strings.Join(parts, "")) {
				p.why = append(p.why, fmt.Sprintf("Response.Dump() / dump file (writer %d, %d bytes) is not the selected parts %q in order (separators aside); got %q", id, len(got), want[id], c13Clip(got, 300)))
			}
			continue
		}
		// CR/LF-only writes are separators wherever they land: the library writes "\r\n" /
		// "\r\n\r\n" to Output() after bodies, and the last CRLF of a chunked upload passes
		// through the request-body wrapper.
		if !c13Interleaves(ev, seqs, true) {
			got := strings.Join(ev, "")
			p.why = append(p.why, fmt.Sprintf("writer %d: %d writes / %d bytes do not match the expected dump (request side %d bytes, response head %d bytes, response body %d bytes; parts %q); got %q",
				id, len(ev), len(got), len(seqs[0]), len(seqs[1]), len(seqs[2]), want[id], c13Clip(got, 200)))
		}
	}
}

// TestVerif_C13_e2eh1: paired runs over real loopback TCP against a byte-script peer that
// captures what the client sends.
func TestVerif_C13_e2eh1(t *testing.T) {
	s := verifh.New(t, "C13", "e2eh1",
		"HTTP/1.1 paired runs (dump off / dump on, fresh client each) against a raw TCP script peer: flows single / retry after 5xx / redirect; requests GET/POST/PUT/PATCH with 0..80 KB bodies sent with Content-Length, as unknown-length reader (chunked) or forced chunked, big and many request headers, in a quarter of the cases a header order over all keys (SetHeaderOrder / SetCommonHeaderOrder, mixed case); responses with Content-Length / chunked (+trailer) / EOF framing, 0..70 KB, gzip, GBK auto-decoded, 204/304, 103 interim, header line > 4 KiB, 40-100 headers, obs-fold, bare LF; dump config: 16 part subsets x 4 writer routings x sync/async x client / request / both levels; oracle: wire capture and caller-visible result equal in the pair, each writer's writes = an interleaving of the request-side and response-side byte sequences the Lean model's expectedDump assigns to it (CR/LF-only separator writes to Output() ignored); non-trivial = every pair")
	r := s.Rand()
	cnt := c13Counter{}
	peer := c13NewPeer(t)
	defer peer.close()
	flows := []string{"single", "single", "single", "retry", "redirect", "single", "truncated", "single", "retry-after-reset", "redirect", "retry", "garbage", "head"}
	expectBudget := verifh.N(4, 80)
	eachReqSeq := 0
	features := []string{"", "", "", "", "1xx", "long", "long-status", "many", "fold", "barelf", "nearly-long"}
	n := verifh.N(240, 6000)
	var pend []*c13Pending
	reqAsyncBudget := verifh.N(3, 60)
	fileBudget := verifh.N(8, 100)
	for c := 0; c < n; c++ {
		flow := flows[c%len(flows)]
		feature := verifh.Pick(r, features)
		if expectBudget > 0 && c%9 == 4 {
			expectBudget--
			flow = []string{"expect-reject", "expect-continue"}[expectBudget%2]
			feature = ""
		}
		sc := c13GenScenario(s, flow, feature)
		subset := (c*7 + r.Intn(16)) % 16
		if c < 32 {
			subset = c % 16
		}
		var cfg c13DumpCfg
		level := []string{"client", "request", "both"}[c%3]
		async := r.Intn(2) == 0
		if level != "request" {
			cfg.cl = c13GenDumper(s, 10, subset, async)
		}
		if level != "client" {
			rqAsync := false
			if sc.class == "" && reqAsyncBudget > 0 && r.Intn(8) == 0 {
				rqAsync = true
				reqAsyncBudget--
				sc.class = "request-level-async-not-delivered"
			}
			sub2 := subset
			if level == "both" {
				sub2 = r.Intn(16)
			}
			cfg.rq = c13GenDumper(s, 20, sub2, rqAsync)
		}
		if flow == "expect-reject" {
			// make sure the request head is dumped by someone in these few cases
			if cfg.cl != nil {
				cfg.cl.flags[0] = true
			} else {
				cfg.rq.flags[0] = true
			}
			if sc.class == "" {
				sc.class = "h1-expect-continue-head-not-flushed"
			}
		}
		if cfg.cl != nil && r.Intn(5) == 0 {
			cfg.clone = true
			cnt.add(s, "via-clone")
		}
		if c%8 == 3 && sc.class == "" && !sc.expect && !sc.partial {
			// a request-level dump read back as ONE string: through Client.EnableDumpEachRequest… +
			// Response.Dump() (after retries: the last attempt only), or a dump file
			// (EnableDumpAllToFile / EnableDumpToFile); small request bodies only (one flush after
			// all dump calls, so the flat string is in wire order)
			eachReqSeq++
			c13FlatVariant(t, &cfg, eachReqSeq, &fileBudget, func(k string) { cnt.add(s, k) })
			if len(sc.body) > 1500 {
				sc.body = sc.body[:1500]
			}
			if sc.bodyVia == "chunked" || sc.bodyVia == "reader" || sc.bodyVia == "multipart" {
				sc.bodyVia = "bytes"
			}
			if sc.retry {
				cnt.add(s, "flat-dump-after-retry")
			}
		}
		timeout := 5 * time.Second
		if cfg.rq != nil && cfg.rq.async {
			timeout = 700 * time.Millisecond
		}
		viaSet := r.Intn(2) == 0
		off, _ := c13Guard(timeout+2*time.Second, func() c13RunOut { return c13RunH1(peer, sc, nil, false, timeout, cfg.clone) })
		margin := 3 * time.Second
		if cfg.rq != nil && cfg.rq.async {
			margin = 800 * time.Millisecond
		}
		on, hung := c13Guard(timeout+margin, func() c13RunOut { return c13RunH1(peer, sc, &cfg, viaSet, timeout, cfg.clone) })
		p := &c13Pending{
			id:    fmt.Sprintf("h1 #%d %s %s %s", c, sc.name, cfg.String(), sc.method),
			class: sc.class, log: on.log, cl: on.cl, tokens: map[string]string{}, seqOf: map[string]int{},
			outputs: map[int]bool{10: true, 20: true}, nontrivial: true,
		}
		p.human = fmt.Sprintf("%s %s body=%dB via %q order=%d(client=%v); %s; result %s", sc.method, sc.name, len(sc.body), sc.bodyVia, len(sc.hdrOrder), sc.orderClient, cfg.String(), c13Clip(off.res.String(), 160))
		cnt.add(s, "flow="+flow)
		cnt.add(s, "feature="+feature)
		cnt.add(s, "level="+level)
		if len(sc.hdrOrder) > 0 {
			cnt.add(s, "header-order")
			if sc.orderClient {
				cnt.add(s, "header-order-client")
			} else {
				cnt.add(s, "header-order-request")
			}
		}
		cnt.add(s, fmt.Sprintf("subset=%d", subset))
		if async && cfg.cl != nil {
			cnt.add(s, "client-async")
		}
		if (cfg.cl != nil && cfg.cl.slow) || (cfg.rq != nil && cfg.rq.slow) {
			cnt.add(s, "slow-writers")
		}
		if off.res.err != "-" {
			cnt.add(s, "baseline-error")
		} else {
			cnt.add(s, "baseline-ok")
		}
		if sc.body != "" {
			cnt.add(s, "req-body-via-"+sc.bodyVia)
		}
		if hung {
			p.why = append(p.why, "the call with dump on never returned (client timeout "+timeout.String()+" ignored)")
			cnt.add(s, "hung")
		}
		// transparency
		if d := c13AttemptsEqual(off.attempts, on.attempts); d != "" {
			p.why = append(p.why, "bytes sent differ: "+d)
		}
		if off.res != on.res {
			p.why = append(p.why, fmt.Sprintf("caller-visible result differs: off {%s} on {%s}", c13Clip(off.res.String(), 300), c13Clip(on.res.String(), 300)))
		}
		// expected dump from the model: parts are 3-byte tokens, expanded afterwards
		var parts []string
		for i, at := range on.attempts {
			resp := c13Resp{}
			if i < len(sc.order) {
				l := sc.scripts[sc.order[i]]
				k := 0
				for j := 0; j < i; j++ {
					if sc.order[j] == sc.order[i] {
						k++
					}
				}
				if k >= len(l) {
					k = len(l) - 1
				}
				resp = l[k]
			}
			body := resp.body
			if i == len(on.attempts)-1 && !sc.partial {
				body = off.res.body // what the caller read without dump
			}
			rhead := resp.head
			for j, content := range []string{at.head, at.payload, rhead, body} {
				tk := ""
				if content != "" {
					tk = fmt.Sprintf("%c%c%c", 'A'+i, "hbHB"[j], '.')
					p.tokens[tk] = content
					p.seqOf[tk] = []int{0, 0, 1, 2}[j]
				}
				parts = append(parts, tk)
			}
		}
		p.modelLine = c13ExpLine(&cfg, sc.retry, len(on.attempts), parts)
		pend = append(pend, p)
		if len(pend) >= 200 { // judge in batches: the recorded dumps are large
			c13Finish(t, s, pend)
			pend = nil
		}
	}
	c13Finish(t, s, pend)
	for _, must := range []string{"flow=retry", "flow=redirect", "flow=expect-reject", "flow=expect-continue", "flow=truncated", "flow=retry-after-reset", "flow=garbage", "baseline-error", "via-clone", "via-each-request", "feature=long", "feature=fold", "feature=many", "level=both", "client-async", "req-body-via-reader", "req-body-via-chunked", "req-body-via-multipart", "flow=head", "baseline-ok", "via-dump-all-to-file", "via-dump-to-file", "flat-dump-after-retry", "slow-writers", "header-order-client", "header-order-request"} {
		if cnt[must] == 0 {
			t.Errorf("generator never reached bucket %q", must)
		}
	}
	s.Finish()
}

// c13FlatVariant turns the pair's request-level (or client-level) dump into one that is read back
// as a single string: EnableDumpEachRequest… + Response.Dump() (two of three), or a dump file.
func c13FlatVariant(t testing.TB, cfg *c13DumpCfg, seq int, fileBudget *int, count func(string)) {
	all := [4]bool{true, true, true, true}
	switch {
	case seq%3 == 2 && *fileBudget > 0 && seq%2 == 0:
		*fileBudget--
		cfg.cl = &c13DumperCfg{base: 40, flags: all}
		cfg.clFile = fmt.Sprintf("%s/dump-all-%d.txt", t.TempDir(), seq)
		cfg.clone = false
		count("via-dump-all-to-file")
	case seq%3 == 2 && *fileBudget > 0:
		*fileBudget--
		cfg.rq = &c13DumperCfg{base: 41, flags: all}
		cfg.rqFile = fmt.Sprintf("%s/dump-%d.txt", t.TempDir(), seq)
		count("via-dump-to-file")
	default:
		cfg.eachReq = 1 + seq%7 // every setter gets its turn
		cfg.rq = &c13DumperCfg{base: 30, flags: c13EachReq[cfg.eachReq].flags}
		count("via-each-request")
	}
}

// c13ExpLine: the model query for the expected content of every writer after the call:
// dumpAfterRetries — the request's own buffer (writer 30) is reset before every retry attempt, a
// redirect hop stays in the same attempt.
func c13ExpLine(cfg *c13DumpCfg, retried bool, exchanges int, parts []string) string {
	var sizes []int
	if retried {
		for i := 0; i < exchanges; i++ {
			sizes = append(sizes, 1)
		}
	} else if exchanges > 0 {
		sizes = []int{exchanges}
	}
	return "c13expr " + cfg.cl.modelArg() + " " + cfg.rq.modelArg() + " 30 " + verifh.IntList(sizes) + " " + verifh.HexList(parts)
}

// c13Finish asks the Lean model for every pending pair's expected dump and records verdicts.
func c13Finish(t *testing.T, s *verifh.Session, pend []*c13Pending) {
	lines := make([]string, len(pend))
	for i, p := range pend {
		lines[i] = p.modelLine
	}
	for _, p := range pend {
		for _, x := range p.extra {
			lines = append(lines, x.line)
		}
	}
	answers, err := verifh.RunModel(lines)
	if err != nil {
		t.Fatalf("model: %v", err)
	}
	time.Sleep(20 * time.Millisecond) // let write loops finish dumping the last piece they sent
	for _, p := range pend {
		all := p.cls
		if p.cl != nil {
			all = append([]*Client{p.cl}, all...)
		}
		for _, cl := range all {
			c13Flush(cl)
			c13StopDump(cl)
		}
	}
	nx := len(pend)
	for i, p := range pend {
		if answers[i] == "bad-op" {
			p.why = append(p.why, "harness: model rejected "+c13Clip(p.modelLine, 200))
		} else {
			c13Judge(p, answers[i])
		}
		for _, x := range p.extra {
			if w := x.check(answers[nx]); w != "" {
				p.why = append(p.why, w)
			}
			nx++
		}
		s.Observe(p.id, len(p.why) == 0, p.class, p.nontrivial, p.human, strings.Join(p.why, " ## "))
	}
}
