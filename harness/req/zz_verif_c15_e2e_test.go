//go:build verif

package req

import (
	"compress/gzip"
	"fmt"
	"io"
	"net/http"
	"net/http/httptest"
	"strconv"
	"strings"
	"sync"
	"testing"
	"time"

	"github.com/imroc/req/v3/internal/verifh"
	"golang.org/x/text/encoding"
)

type c15E2ECase struct {
	ct    string
	segs  []string
	gzip  bool
	pause time.Duration
}

// TestVerif_C15_e2e: a real client against an in-process origin (HTTP/1.1 and HTTP/2 over
// loopback) that writes the body segment by segment with an explicit Flush() in between;
// judged by the independent oracle only (the exact read segmentation is the kernel's).
func TestVerif_C15_e2e(t *testing.T) {
	s := verifh.New(t, "C15", "e2e",
		"real Client (default / SetAutoDecodeContentType / SetAutoDecodeAllContentType / DisableAutoDecode / custom func) GET from an httptest origin over HTTP/1.1 and HTTP/2 (TLS, loopback); the origin writes the "+
			"generated body (24 charsets x declaration sites x lengths around 512/1024/4096) in generated segments with Flush() and a short pause between them, optionally gzip-compressed; the caller reads with "+
			"Response.Bytes() (io.ReadAll: 512-byte first read) or with its own dirty buffers. Oracle: body in {original, x/text transcoding of the whole original}; header charset applied; unselected untouched. "+
			"non-trivial = selected, a charset applies")
	r := s.Rand()
	var mu sync.Mutex
	cases := map[string]*c15E2ECase{}
	handler := http.HandlerFunc(func(w http.ResponseWriter, req *http.Request) {
		mu.Lock()
		c := cases[req.URL.Query().Get("id")]
		mu.Unlock()
		if c == nil {
			w.WriteHeader(404)
			return
		}
		if c.ct != "" {
			w.Header().Set("Content-Type", c.ct)
		} else {
			w.Header()["Content-Type"] = nil
		}
		var out io.Writer = w
		var gz *gzip.Writer
		if c.gzip {
			w.Header().Set("Content-Encoding", "gzip")
			gz = gzip.NewWriter(w)
			out = gz
		}
		fl, _ := w.(http.Flusher)
		for i, seg := range c.segs {
			io.WriteString(out, seg)
			if gz != nil {
				gz.Flush()
			}
			if fl != nil {
				fl.Flush()
			}
			if i < len(c.segs)-1 && c.pause > 0 {
				time.Sleep(c.pause)
			}
		}
		if gz != nil {
			gz.Close()
		}
	})
	h1 := httptest.NewServer(handler)
	defer h1.Close()
	h2 := httptest.NewUnstartedServer(handler)
	h2.EnableHTTP2 = true
	h2.StartTLS()
	defer h2.Close()

	n := verifh.N(220, 3000)
	for i := 0; i < n; i++ {
		cs := verifh.Pick(r, c15Charsets)
		var site string
		switch cs.kind {
		case "u16le", "u16be":
			site = verifh.Pick(r, []string{"bom", "bom", "header"})
		case "utf8bom":
			site = "bom"
		case "utf8":
			site = verifh.Pick(r, []string{"none", "metacharset", "header"})
		default:
			site = verifh.Pick(r, []string{"header", "metacharset", "metacharset", "metahttpequiv", "none", "conflict-meta", "conflict-header", "decoy"})
		}
		size := verifh.Pick(r, []int{3, 68, 100, 300, 511, 512, 513, 700, 1023, 1024, 1025, 2048})
		if r.Intn(12) == 0 {
			size = verifh.Pick(r, []int{4095, 4096, 4097, 9000})
		}
		bodySite := site
		switch site {
		case "header", "bom", "none":
			bodySite = "none"
		case "conflict-header":
			bodySite = "metacharset"
		}
		b := c15MakeBody(r, cs, bodySite, size, verifh.Pick(r, []int{0, 0, 0, 490, 1000}))
		ct := verifh.Pick(r, []string{"text/html", "text/html", "text/plain", "application/json", "application/xml", "image/png", "application/octet-stream", "TEXT/HTML"})
		switch site {
		case "header":
			ct = verifh.Pick(r, []string{"text/html", "application/json", "text/plain"}) + "; charset=" + cs.label
		case "conflict-header":
			ct = "text/html; charset=" + verifh.Pick(r, []string{"big5", "windows-1252", "utf-8", "x-unknown", "utf-16be"})
		}
		st := c15PickSettings(r)
		if st.kind == "direct" {
			st.kind = "default"
		}
		ec := &c15E2ECase{ct: ct, segs: c15Segment(r, b, verifh.Pick(r, []int{0, 2, 3, 4, 5, 6, 6})), gzip: r.Intn(5) == 0}
		if len(ec.segs) > 12 {
			ec.segs = append(ec.segs[:11:11], strings.Join(ec.segs[11:], ""))
		}
		if len(ec.segs) > 1 {
			ec.pause = time.Duration(verifh.Pick(r, []int{0, 300, 1500})) * time.Microsecond
		}
		id := strconv.Itoa(i)
		mu.Lock()
		cases[id] = ec
		mu.Unlock()

		proto := verifh.Pick(r, []string{"h1", "h1", "h2"})
		c := C()
		c15Apply(c, &st, ct)
		url := h1.URL
		if proto == "h2" {
			c.EnableInsecureSkipVerify()
			url = h2.URL
		}
		mode := verifh.Pick(r, []string{"bytes", "bytes", "manual"})
		var got []byte
		var term, anomaly string
		var err error
		ptxt, panicked := verifh.Safely(func() {
			if mode == "bytes" {
				var resp *Response
				resp, err = c.R().Get(url + "/?id=" + id)
				if err == nil {
					got = resp.Bytes()
					term = "eof"
				}
			} else {
				var resp *Response
				resp, err = c.R().DisableAutoReadResponse().Get(url + "/?id=" + id)
				if err == nil {
					bufs, tail, _ := c15PickBufs(r, len(b.body))
					got, term, anomaly = c15Drain(resp.Body, bufs, tail, []byte{0xAA})
					resp.Body.Close()
				}
			}
		})
		if panicked {
			anomaly = "panic in the caller's goroutine: " + ptxt
		}
		c.GetTransport().CloseIdleConnections()
		// oracle
		_, hdrCS, hasCS, _ := c15MediaParse(ct)
		var hdrEnc encoding.Encoding
		if hasCS {
			hdrEnc = c15Lookup(hdrCS)
		}
		sel := st.selected(ct, "")
		var allowed []string
		var why string
		peekPath := false
		switch {
		case !sel:
			allowed, why = []string{b.body}, "content type not selected: body must be untouched"
		case hasCS && (strings.Contains(strings.ToLower(hdrCS), "utf-8") || strings.Contains(strings.ToLower(hdrCS), "utf8")):
			allowed, why = []string{b.body}, "Content-Type declares utf-8: body must be untouched"
		case hasCS && hdrEnc != nil:
			allowed, why = []string{c15Transcode(hdrEnc, b.body)}, "Content-Type charset must be applied"
		case hasCS:
			allowed, why = []string{b.body}, "unsupported Content-Type charset: body must be untouched"
		default:
			peekPath = true
			allowed = []string{b.body}
			if _, e := c15ExpectedBOM(b.body); e != nil {
				allowed = append(allowed, c15Transcode(e, b.body))
			} else if !strings.HasPrefix(b.body, "\xef\xbb\xbf") {
				for _, d := range b.decls {
					if d.real {
						if e := c15Lookup(d.label); e != nil {
							allowed = append(allowed, c15Transcode(e, b.body))
						}
					}
				}
			}
			why = "sniffing: original or the whole-body transcoding from a declared charset"
		}
		ok := err == nil && anomaly == "" && term == "eof" && c15In(string(got), allowed)
		class := ""
		if !ok && err == nil && peekPath && len(allowed) > 1 {
			// pinned tree: every sniffed charset goes through the defective peekRead
			class = c15LegacyClass
		}
		s.Count("proto:" + proto)
		s.Count("mode:" + mode)
		s.Count("site:" + site)
		if ec.gzip {
			s.Count("gzip")
		}
		if !ok {
			s.Count("oracle-reject")
		}
		detail := fmt.Sprintf("%s; err=%v term=%s anomaly=%s got=%s", why, err, term, anomaly, c15Short(string(got)))
		s.Observe(fmt.Sprintf("e2e/%d/%s/%s/%s/%s/%d", i, proto, cs.label, site, st.kind, len(b.body)), ok, class,
			sel && len(b.body) > 0 && (hdrEnc != nil || len(allowed) > 1),
			fmt.Sprintf("%s %s charset=%s site=%s settings=%s ct=%q len=%d segs=%d gzip=%v -> %d bytes", proto, mode, cs.label, site, st.kind, ct, len(b.body), len(ec.segs), ec.gzip, len(got)),
			detail)
	}
	s.Finish()
}
