//go:build verif

package req

import (
	"compress/gzip"
	"crypto/tls"
	"fmt"
	"io"
	"math/rand"
	"net"
	"net/http"
	"net/http/httptest"
	"strconv"
	"strings"
	"sync"
	"testing"
	"time"

	"github.com/imroc/req/v3/internal/verifh"
	qhttp3 "github.com/quic-go/quic-go/http3"
	"golang.org/x/text/encoding"
)

type c15E2ECase struct {
	ct    string
	segs  []string
	gzip  bool
	pause time.Duration
}

// one generated resource + the settings it is fetched with
type c15E2EGen struct {
	id   string
	cs   c15cs
	site string
	b    c15Body
	ct   string
	st   c15Settings
	ec   *c15E2ECase
	// middleware installed on the client (the path the response travels)
	shape c15Shape
	// a small body written in one uncompressed segment whose declaration (BOM / meta) is complete:
	// read with Response.Bytes() it must come back transcoded on every protocol
	small bool
}

// the origins: one handler behind HTTP/1.1 (plain TCP), HTTP/1.1+HTTP/2 (TLS over TCP; it
// advertises the HTTP/3 origin through Alt-Svc) and HTTP/3 (quic-go http3 server, loopback UDP).
type c15Origins struct {
	mu     sync.Mutex
	cases  map[string]*c15E2ECase
	h1URL  string
	tlsURL string
	h3URL  string
	close  func()
}

func c15StartOrigins(t *testing.T) *c15Origins {
	o := &c15Origins{cases: map[string]*c15E2ECase{}}
	udp, err := net.ListenUDP("udp", &net.UDPAddr{IP: net.IPv4(127, 0, 0, 1)})
	if err != nil {
		t.Fatalf("infra: udp listen: %v", err)
	}
	altSvc := `h3=":` + strconv.Itoa(udp.LocalAddr().(*net.UDPAddr).Port) + `"; ma=3600`
	handler := http.HandlerFunc(func(w http.ResponseWriter, req *http.Request) {
		o.mu.Lock()
		c := o.cases[req.URL.Query().Get("id")]
		o.mu.Unlock()
		if c == nil {
			w.WriteHeader(404)
			return
		}
		if req.TLS != nil && req.ProtoMajor < 3 {
			w.Header().Set("Alt-Svc", altSvc)
		}
		if c.ct != "" {
			w.Header().Set("Content-Type", c.ct)
		} else {
			w.Header()["Content-Type"] = nil
		}
		var out io.Writer = w
		var gz *gzip.Writer
		if c.gzip {
			w.Header().Set("Content-Encoding", "gzip")
			gz = gzip.NewWriter(w)
			out = gz
		}
		fl, _ := w.(http.Flusher)
		for i, seg := range c.segs {
			io.WriteString(out, seg)
			if gz != nil {
				gz.Flush()
			}
			if fl != nil {
				fl.Flush()
			}
			if i < len(c.segs)-1 && c.pause > 0 {
				time.Sleep(c.pause)
			}
		}
		if gz != nil {
			gz.Close()
		}
	})
	h1 := httptest.NewServer(handler)
	h2 := httptest.NewUnstartedServer(handler)
	h2.EnableHTTP2 = true
	h2.StartTLS()
	h3 := &qhttp3.Server{Handler: handler, TLSConfig: qhttp3.ConfigureTLSConfig(&tls.Config{Certificates: h2.TLS.Certificates})}
	go h3.Serve(udp)
	o.h1URL, o.tlsURL, o.h3URL = h1.URL, h2.URL, "https://"+udp.LocalAddr().String()
	o.close = func() {
		h3.Close()
		udp.Close()
		h2.Close()
		h1.Close()
	}
	return o
}

func c15E2EGenerate(r *rand.Rand, o *c15Origins, i int) *c15E2EGen {
	cs := verifh.Pick(r, c15Charsets)
	var site string
	switch cs.kind {
	case "u16le", "u16be":
		site = verifh.Pick(r, []string{"bom", "bom", "header"})
	case "utf8bom":
		site = "bom"
	case "utf8":
		site = verifh.Pick(r, []string{"none", "metacharset", "header"})
	default:
		site = verifh.Pick(r, []string{"header", "metacharset", "metacharset", "metahttpequiv", "none", "conflict-meta", "conflict-header", "decoy"})
	}
	size := verifh.Pick(r, []int{3, 68, 100, 300, 511, 512, 513, 700, 1023, 1024, 1025, 2048})
	if r.Intn(12) == 0 {
		size = verifh.Pick(r, []int{4095, 4096, 4097, 9000})
	}
	bodySite := site
	switch site {
	case "header", "bom", "none":
		bodySite = "none"
	case "conflict-header":
		bodySite = "metacharset"
	}
	b := c15MakeBody(r, cs, bodySite, size, verifh.Pick(r, []int{0, 0, 0, 490, 1000}))
	ct := verifh.Pick(r, []string{"text/html", "text/html", "text/plain", "application/json", "application/xml", "image/png", "application/octet-stream", "TEXT/HTML"})
	switch site {
	case "header":
		ct = verifh.Pick(r, []string{"text/html", "application/json", "text/plain"}) + "; charset=" + cs.label
	case "conflict-header":
		ct = "text/html; charset=" + verifh.Pick(r, []string{"big5", "windows-1252", "utf-8", "x-unknown", "utf-16be"})
	}
	st := c15PickSettings(r)
	if st.kind == "direct" {
		st.kind = "default"
	}
	for k := range st.prog {
		if st.prog[k].k == 'C' {
			st.prog[k].via = 0 // the request needs a Client: clone with Client.Clone()
		}
	}
	ec := &c15E2ECase{ct: ct, segs: c15Segment(r, b, verifh.Pick(r, []int{0, 2, 3, 4, 5, 6, 6})), gzip: r.Intn(5) == 0}
	if len(ec.segs) > 12 {
		ec.segs = append(ec.segs[:11:11], strings.Join(ec.segs[11:], ""))
	}
	if len(ec.segs) > 1 {
		ec.pause = time.Duration(verifh.Pick(r, []int{0, 300, 1500})) * time.Microsecond
	}
	small := false
	if r.Intn(5) == 0 && (site == "bom" || site == "metacharset" || site == "metahttpequiv" || site == "conflict-meta") {
		small = true
		b = c15MakeBody(r, cs, bodySite, verifh.Pick(r, []int{100, 150, 200, 300}), 0)
		ec = &c15E2ECase{ct: ct, segs: []string{b.body}}
	}
	g := &c15E2EGen{id: strconv.Itoa(i), cs: cs, site: site, b: b, ct: ct, st: st, ec: ec, small: small}
	o.mu.Lock()
	o.cases[g.id] = ec
	o.mu.Unlock()
	return g
}

// c15E2EFetch fetches the resource with client c (already configured for g.st) and judges the
// delivered body. how names the protocol dimension of the case; the protocol that actually
// carried the response is returned.
func c15E2EFetch(s *verifh.Session, r *rand.Rand, c *Client, base string, how string, g *c15E2EGen) (proto string) {
	b, ct, st := g.b, g.ct, g.st
	mode := verifh.Pick(r, []string{"bytes", "bytes", "manual"})
	if g.small {
		mode = "bytes"
	}
	stName := st.kind
	if stName == "prog" {
		stName = "prog[" + c15ProgHuman(st.prog, st.use) + "]"
	}
	human := fmt.Sprintf("%s %s charset=%s site=%s settings=%s stack=%s ct=%q len=%d segs=%d gzip=%v", how, mode, g.cs.label, g.site, stName, g.shape, ct, len(b.body), len(g.ec.segs), g.ec.gzip)
	id := fmt.Sprintf("e2e/%s/%s/%s/%s/%s/%d", g.id, how, g.cs.label, g.site, st.kind, len(b.body))
	s.Begin(id, human)
	var got []byte
	var term, anomaly string
	var err error
	ptxt, panicked := verifh.Safely(func() {
		var resp *Response
		if mode == "bytes" {
			resp, err = c.R().Get(base + "/?id=" + g.id)
			if err == nil {
				got = resp.Bytes()
				term = "eof"
			}
		} else {
			resp, err = c.R().DisableAutoReadResponse().Get(base + "/?id=" + g.id)
			if err == nil {
				bufs, tail, _ := c15PickBufs(r, len(b.body))
				got, term, anomaly = c15Drain(resp.Body, bufs, tail, []byte{0xAA})
				resp.Body.Close()
			}
		}
		if err == nil && resp.Response != nil {
			proto = resp.Proto
		}
	})
	if panicked {
		anomaly = "panic in the caller's goroutine: " + ptxt
	}
	// oracle
	_, hdrCS, hasCS, _ := c15MediaParse(ct)
	var hdrEnc encoding.Encoding
	if hasCS {
		hdrEnc = c15Lookup(hdrCS)
	}
	sel := st.selected(ct, "")
	var allowed []string
	var why string
	peekPath := false
	switch {
	case !sel:
		allowed, why = []string{b.body}, "content type not selected: body must be untouched"
	case hasCS && (strings.Contains(strings.ToLower(hdrCS), "utf-8") || strings.Contains(strings.ToLower(hdrCS), "utf8")):
		allowed, why = []string{b.body}, "Content-Type declares utf-8: body must be untouched"
	case hasCS && hdrEnc != nil:
		allowed, why = []string{c15Transcode(hdrEnc, b.body)}, "Content-Type charset must be applied"
	case hasCS:
		allowed, why = []string{b.body}, "unsupported Content-Type charset: body must be untouched"
	default:
		peekPath = true
		// split_only_affects_meta_detection: the original, or the transcoding from the charset a scan of
		// the WHOLE body selects (BOM first, else the first complete supported declaration) — a later,
		// conflicting declaration is never a legitimate outcome, however the body was split
		allowed = []string{b.body}
		if bn, e := c15ExpectedBOM(b.body); bn != "" {
			if e != nil {
				allowed = append(allowed, c15Transcode(e, b.body))
			}
		} else if e, _ := c15ExpectedPrescan(b, len(b.body)); e != nil {
			allowed = append(allowed, c15Transcode(e, b.body))
		}
		why = "sniffing: original or the whole-body transcoding from the charset the whole body declares first"
	}
	ok := err == nil && anomaly == "" && term == "eof" && c15In(string(got), allowed)
	// The splitting of the body may decide whether a declaration is noticed — but a body of at most
	// 300 bytes written by the origin in ONE uncompressed segment reaches the first 512-byte read of
	// io.ReadAll whole on loopback, on every protocol: there a byte-order mark or a complete meta
	// declaration of a supported non-UTF-8 charset must have been applied.
	if ok && peekPath && mode == "bytes" && len(g.ec.segs) == 1 && !g.ec.gzip && len(b.body) >= 2 && len(b.body) <= 300 {
		var must encoding.Encoding
		if bn, e := c15ExpectedBOM(b.body); bn != "" {
			must = e // nil for the UTF-8 BOM
		} else {
			must, _ = c15ExpectedPrescan(b, len(b.body))
		}
		if must != nil && c15Transcode(must, b.body) != b.body {
			s.Count("must-notice-judged:" + how)
			if string(got) == b.body {
				ok, why = false, "a charset declared by a BOM / complete meta tag in a small single-segment body was not applied"
			}
		}
	}
	class := ""
	if !ok && err == nil && peekPath && len(allowed) > 1 && string(got) != b.body {
		// pinned tree (before fixes/C15-1): every sniffed charset went through the defective peekRead
		class = c15LegacyClass
	}
	s.Count("how:" + how)
	s.Count("proto:" + proto)
	s.Count("mode:" + mode)
	s.Count("site:" + g.site)
	if g.ec.gzip {
		s.Count("gzip")
	}
	if !ok {
		s.Count("oracle-reject")
	}
	// Model-judged part (round 5): with a charset in the Content-Type header, a utf-8 declaration, an unsupported
	// charset or an unselected type the outcome does not depend on how the network split the body
	// (header_charset_always_applied, utf8_declared_is_identity, unsupported_charset_untouched,
	// unselected_body_intact: ∀ split, ∀ buffers) — so the Lean model, run on the body in ONE segment, says what
	// the client must deliver over any protocol. The sniffing path stays with the oracle (two outcomes).
	if !peekPath && err == nil && anomaly == "" {
		s.Count("model-judged:" + how)
		s.Case(c15OutLine(&st, ct, b.body, hdrEnc), verifh.Hex(string(got))+" "+term, true, "", sel && len(b.body) > 0 && hdrEnc != nil,
			human+fmt.Sprintf(" -> %s, %d bytes (model: outcome independent of the network split)", proto, len(got)))
	}
	detail := fmt.Sprintf("%s; response over %q; err=%v term=%s anomaly=%s got=%s", why, proto, err, term, anomaly, c15Short(string(got)))
	s.Observe(id, ok, class, sel && len(b.body) > 0 && (hdrEnc != nil || len(allowed) > 1), human+fmt.Sprintf(" -> %s, %d bytes", proto, len(got)), detail)
	return proto
}

// c15OutLine: the model line for a response whose outcome is independent of the segmentation: the body in one
// segment, read with 4096-byte buffers; answer `<hex delivered> <eof|err>` (driver lanes c15out / c15outp).
func c15OutLine(st *c15Settings, ct, body string, hdrEnc encoding.Encoding) string {
	mp, _, _, _ := c15MediaParse(ct)
	var tbl c15Tbl
	if hdrEnc != nil {
		tbl.addFor(hdrEnc, body)
	}
	rest := strings.Join([]string{verifh.Hex(""), verifh.Hex(ct), mp, c15DecID(hdrEnc), "C", tbl.String(), verifh.HexList([]string{body}), "eof", "0", verifh.IntList(nil), "4096"}, " ")
	if st.kind == "prog" {
		return "c15outp " + c15ProgString(st.prog, ct) + " " + fmt.Sprint(st.use) + " " + rest
	}
	disable, filter := st.filterArg(ct)
	return "c15out " + disable + " " + filter + " " + rest
}

// c15Reconfigure puts a long-lived client back to the defaults and applies the case's settings
// through the public setters (settings change between two requests of one client). With a
// settings program the client is member 0 of the family; the member the program selects performs
// the request (and, in a sequence, becomes the long-lived client: later requests run on a clone
// of a clone …); the other members are returned for closing.
func c15Reconfigure(c *Client, st *c15Settings, ct string) (use *Client, others []*Client) {
	c.EnableAutoDecode()
	c.SetAutoDecodeContentTypeFunc(nil)
	return c15E2EApply(c, st, ct)
}

func c15E2EApply(c *Client, st *c15Settings, ct string) (use *Client, others []*Client) {
	if st.kind != "prog" {
		c15ApplyKind(c, st, ct)
		return c, nil
	}
	fam := c15RunProg(c, false, st.prog)
	for i, m := range fam {
		if i != st.use {
			others = append(others, m.c)
		}
	}
	return fam[st.use].c, others
}

// c15NoClone removes the clonings from a settings program (the calls aimed at clones go with them).
func c15NoClone(st *c15Settings) {
	var ops []c15FamOp
	for _, op := range st.prog {
		if op.k != 'C' && op.i == 0 {
			ops = append(ops, op)
		}
	}
	st.prog, st.use = ops, 0
}

func c15CloseClient(c *Client) {
	c.GetTransport().CloseIdleConnections()
	if c.Transport.t3 != nil {
		c.Transport.t3.Close()
	}
}

// TestVerif_C15_e2e: a real client against in-process origins over HTTP/1.1, HTTP/2 and HTTP/3
// (loopback) that write the body segment by segment with an explicit Flush() in between;
// judged by the independent oracle only (the exact read segmentation is the kernel's).
func TestVerif_C15_e2e(t *testing.T) {
	s := verifh.New(t, "C15", "e2e",
		"real Client (default / SetAutoDecodeContentType / SetAutoDecodeAllContentType / DisableAutoDecode / custom func) GET from in-process origins: HTTP/1.1 (plain), HTTP/2 (TLS), HTTP/3 (quic-go http3 server, "+
			"EnableForceHTTP3) with a fresh client per request; AND sequences of requests on ONE long-lived client with the settings changed between requests: HTTP/1.1 keep-alive, forced HTTP/2, forced HTTP/3, and "+
			"EnableHTTP3 against the TLS origin that advertises Alt-Svc h3 (first responses over HTTP/2, later ones silently over HTTP/3). The origin writes the generated body (24 charsets x declaration sites x lengths "+
			"around 512/1024/4096) in generated segments with Flush() and a short pause, optionally gzip-compressed; the caller reads with Response.Bytes() (io.ReadAll: 512-byte first read) or with its own dirty "+
			"buffers. Oracle: body in {original, x/text transcoding of the whole original}; header charset applied; unselected untouched; a BOM / a meta tag complete in a single small segment must be noticed; the "+
			"same on every protocol. non-trivial = selected, a charset applies")
	r := s.Rand()
	o := c15StartOrigins(t)
	defer o.close()
	next := 0
	gen := func() *c15E2EGen { next++; return c15E2EGenerate(r, o, next) }

	// ---- fresh client per request, protocol forced
	n := verifh.N(220, 3000)
	for i := 0; i < n; i++ {
		g := gen()
		how := verifh.Pick(r, []string{"h1", "h1", "h2", "h2", "h3", "h3"})
		c := C().SetTimeout(20 * time.Second)
		base := o.h1URL
		switch how {
		case "h2":
			c.EnableInsecureSkipVerify().EnableForceHTTP2()
			base = o.tlsURL
		case "h3":
			c.EnableInsecureSkipVerify().EnableForceHTTP3()
			base = o.h3URL
		}
		g.shape = c15GenShape(r, how != "h3")
		shaped, tw, cw := c15ApplyShape(c, g.shape)
		c15CountShape(s.Count, g.shape, tw, cw)
		if shaped != c {
			c15CloseClient(c) // the original never sent a request
			c = shaped
		}
		use, others := c15E2EApply(c, &g.st, g.ct)
		if g.st.kind == "prog" {
			s.Count("settings-program")
			if use != c {
				s.Count("request-by-a-clone")
			}
		}
		c15E2EFetch(s, r, use, base, how, g)
		c15CloseClient(use)
		for _, x := range others {
			c15CloseClient(x)
		}
	}

	// ---- sequences on one long-lived client, settings changed between the requests
	m := verifh.N(40, 500)
	for _, how := range []string{"seq-h1", "seq-h2", "seq-h3"} {
		c := C().SetTimeout(20 * time.Second)
		base := o.h1URL
		switch how {
		case "seq-h2":
			c.EnableInsecureSkipVerify().EnableForceHTTP2()
			base = o.tlsURL
		case "seq-h3":
			c.EnableInsecureSkipVerify().EnableForceHTTP3()
			base = o.h3URL
		}
		// the long-lived client gets its middleware once
		seqShape := c15GenShape(r, how != "seq-h3")
		for len(seqShape.ops) == 0 {
			seqShape = c15GenShape(r, how != "seq-h3")
		}
		shaped, tw, cw := c15ApplyShape(c, seqShape)
		c15CountShape(s.Count, seqShape, tw, cw)
		if shaped != c {
			defer c15CloseClient(c)
			c = shaped
		}
		for i := 0; i < m; i++ {
			g := gen()
			g.shape = seqShape
			use, others := c15Reconfigure(c, &g.st, g.ct)
			if use != c {
				s.Count("request-by-a-clone")
				others = append(others, c)
				c = use // the clone lives on
			}
			c15E2EFetch(s, r, c, base, how, g)
			for _, x := range others {
				c15CloseClient(x)
			}
		}
		c15CloseClient(c)
	}

	// ---- Alt-Svc upgrade: the same client, the same origin URL; the protocol changes underneath
	for round := 0; round < verifh.N(2, 6); round++ {
		c := C().SetTimeout(20 * time.Second).EnableInsecureSkipVerify().EnableHTTP3()
		altShape := c15Shape{ops: [][]string{{"twf", "cw"}, {"header-order"}, {"tw", "pseudo-header-order"}, {"cwf"}, {"tw"}, {"twf", "twf"}}[round%6]}
		_, tw, cw := c15ApplyShape(c, altShape)
		c15CountShape(s.Count, altShape, tw, cw)
		deadline := time.Now().Add(8 * time.Second)
		onH3, before := 0, 0
		for onH3 < m/2 {
			g := gen()
			g.shape = altShape
			c15NoClone(&g.st) // a clone would have to learn the Alt-Svc advertisement again
			c15Reconfigure(c, &g.st, g.ct)
			proto := c15E2EFetch(s, r, c, o.tlsURL, "altsvc", g)
			if proto == "HTTP/3.0" {
				onH3++
				s.Count("altsvc:response-after-upgrade")
			} else {
				before++
				s.Count("altsvc:response-before-upgrade")
				if before > 3 {
					time.Sleep(15 * time.Millisecond) // the QUIC connection is dialled in the background
				}
				if time.Now().After(deadline) {
					s.Count("altsvc:never-upgraded")
					break
				}
			}
		}
		c15CloseClient(c)
	}
	s.Finish()
}
