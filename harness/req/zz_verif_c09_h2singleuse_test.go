//go:build verif

package req

import (
	"context"
	"fmt"
	"io"
	"log"
	"net/http/httptest"
	"net/http/httptrace"
	"strconv"
	"strings"
	"sync"
	"testing"
	"time"

	"github.com/imroc/req/v3/internal/verifh"
)

// c09ClassH2Unusable: the input class of finding C09-3 — DisableKeepAlives (every HTTP/2
// connection single-use), two requests select the same fresh connection, the loser's caller gets
// "http2: client conn not usable" from the cached-connection-only path.
const c09ClassH2Unusable = "h2-singleuse-unusable-cachedonly"

func c09IsH2Unusable(err error) bool {
	return err != nil && strings.Contains(err.Error(), "http2: client conn not usable")
}

// TestVerif_C09_h2singleuse forces that schedule deterministically with httptrace hooks (they run
// between the selection of the connection and its use): request X dials and selects its new
// HTTP/2 connection; inside X's GotConn hook request A is started and selects the SAME
// connection through the cached-connection path; X proceeds and takes the only stream; then A
// proceeds. Every caller must still get its own response.
func TestVerif_C09_h2singleuse(t *testing.T) {
	s := verifh.New(t, "C09", "h2singleuse",
		"DisableKeepAlives + HTTP/2: schedule forced with httptrace GotConn hooks so that two requests have selected the same single-use connection before either opens its stream (3 repetitions with different body sizes); oracle: both callers get a 200 echoing their own tag; non-trivial = both hooks saw the same connection")
	rec := newC09Rec()
	h2srv := httptest.NewUnstartedServer(c09MuxHandler(rec, "h2", ""))
	h2srv.EnableHTTP2 = true
	h2srv.Config.ErrorLog = log.New(io.Discard, "", 0)
	h2srv.StartTLS()
	defer h2srv.Close()
	for rep, size := range []int{0, 300, 20000} {
		cl := C().EnableInsecureSkipVerify().SetTimeout(20 * time.Second)
		cl.SetLogger(nil)
		tr := cl.GetTransport()
		tr.Proxy = nil
		tr.DisableKeepAlives = true
		aSelected := make(chan string, 1)
		xDone := make(chan struct{})
		aResult := make(chan error, 1)
		var connX string
		tagX, tagA := 100+rep*10, 101+rep*10
		wait := func(c <-chan struct{}) {
			select {
			case <-c:
			case <-time.After(5 * time.Second):
			}
		}
		runA := func() {
			traceA := &httptrace.ClientTrace{GotConn: func(info httptrace.GotConnInfo) {
				select {
				case aSelected <- info.Conn.LocalAddr().String():
				default:
				}
				wait(xDone) // let X take the connection's only stream first
			}}
			resp, err := cl.R().SetContext(httptrace.WithClientTrace(context.Background(), traceA)).
				SetHeader("X-Tag", strconv.Itoa(tagA)).SetHeader("X-Plan", c09Plan{size: size}.String()).Get(h2srv.URL + "/h2")
			if err == nil && (resp.Header.Get("X-Tag") != strconv.Itoa(tagA) || string(resp.Bytes()) != string(c09Pattern(tagA, size, "r"))) {
				err = fmt.Errorf("caller A got the response for tag %q", resp.Header.Get("X-Tag"))
			}
			aResult <- err
		}
		var once sync.Once
		sameConn := false
		traceX := &httptrace.ClientTrace{GotConn: func(info httptrace.GotConnInfo) {
			once.Do(func() {
				connX = info.Conn.LocalAddr().String()
				go runA()
				select {
				case a := <-aSelected:
					sameConn = a == connX
				case <-time.After(5 * time.Second):
				}
			})
		}}
		respX, errX := cl.R().SetContext(httptrace.WithClientTrace(context.Background(), traceX)).
			SetHeader("X-Tag", strconv.Itoa(tagX)).SetHeader("X-Plan", c09Plan{size: size}.String()).Get(h2srv.URL + "/h2")
		close(xDone)
		var errA error
		select {
		case errA = <-aResult:
		case <-time.After(20 * time.Second):
			errA = fmt.Errorf("caller A never returned")
		}
		if errX == nil && respX.Header.Get("X-Tag") != strconv.Itoa(tagX) {
			errX = fmt.Errorf("caller X got the response for tag %q", respX.Header.Get("X-Tag"))
		}
		tr.CloseIdleConnections()
		ok := errX == nil && errA == nil
		class := ""
		if errX == nil && c09IsH2Unusable(errA) {
			class = c09ClassH2Unusable
			s.Count("loser-got-unusable-conn(known finding)")
		}
		if sameConn {
			s.Count("same-connection-selected-twice")
		}
		s.Observe(fmt.Sprintf("h2singleuse-%d", size), ok, class, sameConn,
			fmt.Sprintf("DisableKeepAlives, HTTP/2, body %d B: X and A select the same fresh connection (same=%v); X: %v; A: %v", size, sameConn, errX, errA),
			fmt.Sprintf("X: %v; A: %v", errX, errA))
	}
	s.Finish()
}
