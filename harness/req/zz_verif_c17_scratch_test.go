//go:build verif

package req

import (
	"bytes"
	"fmt"
	"io"
	"mime"
	"mime/multipart"
	"testing"
)

func TestVerif_C17x_scratch(t *testing.T) {
	for _, k := range []string{"6=\x1d/ym9t", "\xcff\x14中", "\"\x1f\f", "a\x01b", "a\x1fb", "a\x7fb", "a\x00b", "a\tb"} {
		var buf bytes.Buffer
		w := multipart.NewWriter(&buf)
		w.SetBoundary("B")
		w.WriteField(k, "v")
		w.Close()
		mr := multipart.NewReader(bytes.NewReader(buf.Bytes()), "B")
		p, err := mr.NextPart()
		if err != nil {
			fmt.Printf("%q: NextPart err %v\n", k, err)
			continue
		}
		d, _ := io.ReadAll(p)
		_, ps, perr := mime.ParseMediaType(p.Header.Get("Content-Disposition"))
		fmt.Printf("%q: hdr=%q formname=%q params=%q perr=%v data=%q\n", k, p.Header, p.FormName(), ps, perr, d)
	}
}
