//go:build verif

package req

import (
	"context"
	"errors"
	"fmt"
	"net"
	"sort"
	"strconv"
	"strings"
	"sync"
	"sync/atomic"
	"testing"
	"time"

	"github.com/imroc/req/v3/internal/verifh"
)

// ---------------------------------------------------------------------------------------
// Unit lane: the real pool methods of Transport driven from ONE goroutine, op by op, with
// connections produced by the real dialConn over an inert fake net.Conn; after every op the
// observable pool state is dumped and compared with the Lean model (Req/Pool/H1Pool.lean).

type c09WantKey struct{}

type c09FakeConn struct {
	id      int
	closed  atomic.Bool
	release <-chan struct{} // Read blocks until the case is over (readLoop stays parked)
}

func (c *c09FakeConn) Read(p []byte) (int, error) {
	<-c.release
	return 0, errors.New("verif: case over")
}
func (c *c09FakeConn) Write(p []byte) (int, error)        { return len(p), nil }
func (c *c09FakeConn) Close() error                       { c.closed.Store(true); return nil }
func (c *c09FakeConn) LocalAddr() net.Addr                { return &net.TCPAddr{} }
func (c *c09FakeConn) RemoteAddr() net.Addr               { return &net.TCPAddr{} }
func (c *c09FakeConn) SetDeadline(t time.Time) error      { return nil }
func (c *c09FakeConn) SetReadDeadline(t time.Time) error  { return nil }
func (c *c09FakeConn) SetWriteDeadline(t time.Time) error { return nil }

type c09DialOutcome struct {
	conn net.Conn
	err  error
}

type c09Sim struct {
	t        *Transport
	nKeys    int
	keys     []connectMethodKey
	wants    []*wantConn
	wantID   map[*wantConn]int
	fakes    []*c09FakeConn
	pcs      map[int]*persistConn // conn id -> persistConn, once seen
	using    map[int]*persistConn // want id -> connection it received and still owns
	reached  []chan struct{}
	after    []chan struct{}
	outcome  []chan c09DialOutcome
	turn     []chan struct{}   // r5: lets a dial whose context was cancelled return
	ctxs     []context.Context // r5: the dial context of each want
	hooked   map[int]bool
	cancelledDials int // r5: dials CloseIdleConnections stopped (bucket)
	dialDone map[int]bool
	release  chan struct{}
	over     chan struct{}
	mu       sync.Mutex
}

func newC09Sim(maxIdle, maxIdleHost, maxConns int, disableKA bool, nKeys int) *c09Sim {
	s := &c09Sim{nKeys: nKeys, wantID: map[*wantConn]int{}, pcs: map[int]*persistConn{}, using: map[int]*persistConn{},
		hooked: map[int]bool{}, dialDone: map[int]bool{}, release: make(chan struct{}), over: make(chan struct{})}
	t := T()
	t.Proxy = nil
	t.MaxIdleConns = maxIdle
	t.MaxIdleConnsPerHost = maxIdleHost
	t.MaxConnsPerHost = maxConns
	t.DisableKeepAlives = disableKA
	t.IdleConnTimeout = 0
	t.DialContext = func(ctx context.Context, network, addr string) (net.Conn, error) {
		id, _ := ctx.Value(c09WantKey{}).(int)
		s.mu.Lock()
		reached, outcome := s.reached[id], s.outcome[id]
		s.mu.Unlock()
		close(reached)
		select {
		case o := <-outcome:
			return o.conn, o.err
		case <-ctx.Done():
			// r5: the dial context was cancelled (Transport.CloseIdleConnections is the only
			// caller of wantConn.cancelCtx). A real dial fails right away; so that several
			// cancelled dials finish in an order the model knows, each waits for its turn.
			s.mu.Lock()
			turn := s.turn[id]
			s.mu.Unlock()
			select {
			case <-turn:
			case <-s.over:
			}
			return nil, ctx.Err()
		case <-s.over:
			return nil, errors.New("verif: case over")
		}
	}
	s.t = t
	for k := 0; k < nKeys; k++ {
		cm := connectMethod{targetScheme: "http", targetAddr: fmt.Sprintf("h%d:80", k)}
		s.keys = append(s.keys, cm.key())
	}
	return s
}

func (s *c09Sim) finish() {
	close(s.over)
	close(s.release)
}

func (s *c09Sim) newWant(k int) int {
	id := len(s.wants)
	cm := connectMethod{targetScheme: "http", targetAddr: fmt.Sprintf("h%d:80", k)}
	ctx, cancel := context.WithCancel(context.WithValue(context.Background(), c09WantKey{}, id))
	after := make(chan struct{})
	w := &wantConn{cm: cm, key: cm.key(), ctx: ctx, cancelCtx: cancel, result: make(chan connOrError, 1),
		beforeDial: nop, afterDial: func() { close(after) }}
	s.mu.Lock()
	s.wants = append(s.wants, w)
	s.wantID[w] = id
	s.reached = append(s.reached, make(chan struct{}))
	s.after = append(s.after, after)
	s.outcome = append(s.outcome, make(chan c09DialOutcome, 1))
	s.turn = append(s.turn, make(chan struct{}, 1))
	s.ctxs = append(s.ctxs, ctx)
	s.mu.Unlock()
	return id
}

func (s *c09Sim) inDialsInProgress(w *wantConn) bool {
	found := false
	s.t.connsPerHostMu.Lock()
	s.t.dialsInProgress.all(func(x *wantConn) {
		if x == w {
			found = true
		}
	})
	s.t.connsPerHostMu.Unlock()
	return found
}

func (s *c09Sim) waitDialGoroutineGone(id int) error {
	select {
	case <-s.after[id]:
	case <-time.After(10 * time.Second):
		return fmt.Errorf("dial goroutine of want %d did not finish", id)
	}
	deadline := time.Now().Add(10 * time.Second)
	for {
		s.t.connsPerHostMu.Lock()
		gone := s.wants[id].cancelCtx == nil
		s.t.connsPerHostMu.Unlock()
		if gone {
			s.dialDone[id] = true
			delete(s.hooked, id)
			return nil
		}
		if time.Now().After(deadline) {
			return fmt.Errorf("dial goroutine of want %d did not clear cancelCtx", id)
		}
		time.Sleep(20 * time.Microsecond)
	}
}

// settle waits until every dial goroutine started so far is either parked in the dial hook or gone.
func (s *c09Sim) settle() error {
	for round := 0; round < 64; round++ {
		progressed := false
		for id, w := range s.wants {
			if s.hooked[id] || s.dialDone[id] || !s.inDialsInProgress(w) {
				continue
			}
			select {
			case <-s.reached[id]:
				s.hooked[id] = true
			case <-s.after[id]:
				if err := s.waitDialGoroutineGone(id); err != nil {
					return err
				}
			case <-time.After(10 * time.Second):
				return fmt.Errorf("dial goroutine of want %d neither reached the hook nor finished", id)
			}
			progressed = true
		}
		if !progressed {
			return nil
		}
	}
	return nil
}

func (s *c09Sim) learn(pc *persistConn) {
	if pc == nil {
		return
	}
	if f, ok := pc.conn.(*c09FakeConn); ok {
		s.pcs[f.id] = pc
	}
}

func c09ConnID(pc *persistConn) int {
	if f, ok := pc.conn.(*c09FakeConn); ok {
		return f.id
	}
	return -1
}

func c09JoinInts(l []int) string {
	ss := make([]string, len(l))
	for i, v := range l {
		ss[i] = strconv.Itoa(v)
	}
	return strings.Join(ss, ",")
}

func (s *c09Sim) queueIDs(q wantConnQueue) []int {
	var ids []int
	q.all(func(w *wantConn) { ids = append(ids, s.wantID[w]) })
	return ids
}

func (s *c09Sim) dump(nWants, nConns int) string {
	t := s.t
	var b strings.Builder
	t.idleMu.Lock()
	t.connsPerHostMu.Lock()
	for k := 0; k < s.nKeys; k++ {
		key := s.keys[k]
		var idle []int
		for _, pc := range t.idleConn[key] {
			s.learn(pc)
			idle = append(idle, c09ConnID(pc))
		}
		if k > 0 {
			b.WriteString(" ")
		}
		fmt.Fprintf(&b, "I%d=%s W%d=%s P%d=%d D%d=%s", k, c09JoinInts(idle), k, c09JoinInts(s.queueIDs(t.idleConnWait[key])),
			k, t.connsPerHost[key], k, c09JoinInts(s.queueIDs(t.connsPerHostWait[key])))
	}
	var lru []int
	if t.idleLRU.ll != nil {
		for e := t.idleLRU.ll.Front(); e != nil; e = e.Next() {
			pc := e.Value.(*persistConn)
			s.learn(pc)
			lru = append(lru, c09ConnID(pc))
		}
	}
	x := 0
	if t.closeIdle {
		x = 1
	}
	dip := s.queueIDs(t.dialsInProgress)
	sort.Ints(dip)
	t.connsPerHostMu.Unlock()
	t.idleMu.Unlock()
	var closed []int
	for i := 0; i < nConns && i < len(s.fakes); i++ {
		if s.fakes[i] != nil && s.fakes[i].closed.Load() {
			closed = append(closed, i)
		}
	}
	// persistConn.reused (what shouldRetryRequest consults) of the connections this goroutine can
	// see: idle-listed ones and those a request has received
	visible := map[int]bool{}
	for _, pc := range s.using {
		visible[c09ConnID(pc)] = true
	}
	t.idleMu.Lock()
	for _, l := range t.idleConn {
		for _, pc := range l {
			visible[c09ConnID(pc)] = true
		}
	}
	t.idleMu.Unlock()
	var reused []int
	for i := 0; i < nConns; i++ {
		if pc := s.pcs[i]; pc != nil && visible[i] && pc.isReused() {
			reused = append(reused, i)
		}
	}
	fmt.Fprintf(&b, " L=%s X=%d G=%s C=%s U=%s S=", c09JoinInts(lru), x, c09JoinInts(dip), c09JoinInts(closed), c09JoinInts(reused))
	for i := 0; i < nWants; i++ {
		if i >= len(s.wants) {
			b.WriteByte('.')
			continue
		}
		w := s.wants[i]
		w.mu.Lock()
		d := w.done
		w.mu.Unlock()
		if d {
			b.WriteByte('d')
		} else {
			b.WriteByte('w')
		}
	}
	return b.String()
}

func c09PutErrName(err error) string {
	switch err {
	case nil:
		return "ok"
	case errKeepAlivesDisabled:
		return "ka-off"
	case errConnBroken:
		return "broken"
	case errCloseIdle:
		return "close-idle"
	case errTooManyIdleHost:
		return "host-full"
	}
	return "other"
}

// apply executes one composite op on the real transport and returns its canonical return value.
func (s *c09Sim) apply(op []string) (string, error) {
	arg := func(i int) int { n, _ := strconv.Atoi(op[i]); return n }
	switch op[0] {
	case "N":
		s.newWant(arg(2))
		return "-", nil
	case "QI":
		if s.t.queueForIdleConn(s.wants[arg(1)]) {
			return "1", nil
		}
		return "0", nil
	case "QD":
		s.t.queueForDial(s.wants[arg(1)])
		return "-", nil
	case "DO", "DX":
		id := arg(1)
		delivered := "0"
		s.wants[id].mu.Lock()
		if !s.wants[id].done {
			delivered = "1"
		}
		s.wants[id].mu.Unlock()
		if op[0] == "DO" {
			f := &c09FakeConn{id: arg(2), release: s.release}
			for len(s.fakes) <= f.id {
				s.fakes = append(s.fakes, nil)
			}
			s.fakes[f.id] = f
			s.outcome[id] <- c09DialOutcome{conn: f}
		} else {
			s.outcome[id] <- c09DialOutcome{err: errors.New("verif: dial failed")}
		}
		if err := s.waitDialGoroutineGone(id); err != nil {
			return "", err
		}
		return delivered, nil
	case "RV":
		select {
		case r, ok := <-s.wants[arg(1)].result:
			if !ok {
				return "-", nil
			}
			if r.pc != nil {
				s.learn(r.pc)
				s.using[arg(1)] = r.pc
				return "c" + strconv.Itoa(c09ConnID(r.pc)), nil
			}
			return "e", nil
		default:
			return "-", nil
		}
	case "CA":
		s.wants[arg(1)].cancel(s.t, errors.New("verif: canceled"))
		return "-", nil
	case "FP":
		pc := s.using[arg(1)]
		delete(s.using, arg(1))
		err := s.t.tryPutIdleConn(pc)
		if err != nil { // readLoop: closeErr = err; exit: pc.close(closeErr); t.removeIdleConn(pc)
			pc.close(err)
			s.t.removeIdleConn(pc)
		}
		return c09PutErrName(err), nil
	case "FC":
		pc := s.using[arg(1)]
		delete(s.using, arg(1))
		pc.close(errors.New("verif: connection died"))
		s.t.removeIdleConn(pc)
		return "-", nil
	case "SC":
		s.pcs[arg(1)].close(errServerClosedIdle)
		return "-", nil
	case "RI":
		if s.t.removeIdleConn(s.pcs[arg(1)]) {
			return "1", nil
		}
		return "0", nil
	case "IT":
		s.pcs[arg(1)].closeConnIfStillIdle()
		return "-", nil
	case "CI":
		s.t.CloseIdleConnections()
		// r5: dials parked in the hook whose context the call cancelled fail now, one at a
		// time in ascending want order (the model: H1PoolDial.cancelTargets, then dialFail)
		for id := range s.wants {
			if !s.hooked[id] || s.ctxs[id].Err() == nil {
				continue
			}
			s.cancelledDials++
			s.turn[id] <- struct{}{}
			if err := s.waitDialGoroutineGone(id); err != nil {
				return "", err
			}
			if err := s.settle(); err != nil {
				return "", err
			}
		}
		return "-", nil
	}
	return "", fmt.Errorf("unknown op %v", op)
}

func (s *c09Sim) idleListed(c int) bool {
	pc := s.pcs[c]
	if pc == nil {
		return false
	}
	s.t.idleMu.Lock()
	defer s.t.idleMu.Unlock()
	for _, x := range s.t.idleConn[pc.cacheKey] {
		if x == pc {
			return true
		}
	}
	return false
}

func TestVerif_C09_pool(t *testing.T) {
	s := verifh.New(t, "C09", "pool",
		"op sequences of 8..70 composite pool operations (getConn halves newWant/queueForIdleConn/queueForDial, dial success/failure through the real dialConnFor goroutine parked in a dial hook, getConn receive, wantConn.cancel, readLoop-at-EOF tryPutIdleConn, connection death, peer closing an idle connection with lazy removal, removeIdleConn, closeConnIfStillIdle, CloseIdleConnections — also while dials are parked: the dial hook honours its context, a dial the call cancels fails at once) on 1..3 keys with MaxIdleConns 0..3, MaxIdleConnsPerHost -1..3, MaxConnsPerHost 0..3, DisableKeepAlives; mostly protocol-shaped flows plus out-of-protocol calls (queueForDial on a delivered want, double queueForIdleConn, cancel in every state); after EVERY op the real pool state (idleConn, idleConnWait, connsPerHost, connsPerHostWait, idleLRU order, closeIdle, dialsInProgress, closed connections, persistConn.reused of visible connections, done wants) is compared with the Lean model; non-trivial = sequence that reused an idle connection or handed one to a waiter")
	r := s.Rand()
	n := verifh.N(4000, 60000)
	nFail := 0
	for cs := 0; cs < n; cs++ {
		maxIdle := verifh.Pick(r, []int{0, 0, 1, 2, 3})
		maxIdleHost := verifh.Pick(r, []int{0, 0, 1, 2, 3, -1})
		maxConns := verifh.Pick(r, []int{0, 1, 1, 2, 3, -1})
		disableKA := r.Intn(10) == 0
		nKeys := 1 + r.Intn(3)
		sim := newC09Sim(maxIdle, maxIdleHost, maxConns, disableKA, nKeys)
		nOps := 8 + r.Intn(63)
		var ops []string
		var impl []string
		nConns := 0
		queuedIdle := map[int]bool{}
		queuedDial := map[int]bool{}
		finished := map[int]bool{}
		canceled := map[int]bool{}
		reused, handed := false, false
		sparedWanted := false
		var fail error
		const maxWants, maxConnsN = 14, 14
		emit := func(parts ...string) bool {
			ops = append(ops, strings.Join(parts, "."))
			var out string
			var err error
			if txt, bad := verifh.Safely(func() { out, err = sim.apply(parts) }); bad {
				s.Crash(strings.Join(ops, ","), "panic in pool op "+strings.Join(parts, "."), txt, "")
				fail = errors.New("panic")
				return false
			}
			if err == nil {
				err = sim.settle()
			}
			if err != nil {
				fail = err
				return false
			}
			impl = append(impl, out+"/"+sim.dump(maxWants, maxConnsN))
			return true
		}
		for len(ops) < nOps && fail == nil {
			nW := len(sim.wants)
			pickWant := func(pred func(int) bool) int {
				var c []int
				for i := 0; i < nW; i++ {
					if pred(i) {
						c = append(c, i)
					}
				}
				if len(c) == 0 {
					return -1
				}
				return c[r.Intn(len(c))]
			}
			pickConn := func(pred func(int) bool) int {
				var c []int
				for i := 0; i < nConns; i++ {
					if sim.pcs[i] != nil && pred(i) {
						c = append(c, i)
					}
				}
				if len(c) == 0 {
					return -1
				}
				return c[r.Intn(len(c))]
			}
			switch x := r.Intn(100); {
			case x < 16 && nW < maxWants: // a new request enters getConn
				k := r.Intn(nKeys)
				if r.Intn(3) > 0 {
					k = 0
				}
				id := strconv.Itoa(nW)
				if !emit("N", id, strconv.Itoa(k)) {
					break
				}
				if r.Intn(10) > 0 {
					queuedIdle[nW] = true
					if !emit("QI", id) {
						break
					}
					delivered := strings.HasPrefix(impl[len(impl)-1], "1/")
					if delivered {
						reused = true
					}
					if (!delivered && r.Intn(10) > 0) || (delivered && r.Intn(12) == 0) {
						queuedDial[nW] = true
						emit("QD", id)
					}
				}
			case x < 20: // out-of-order halves of getConn
				if w := pickWant(func(i int) bool { return !queuedIdle[i] || r.Intn(15) == 0 }); w >= 0 {
					queuedIdle[w] = true
					emit("QI", strconv.Itoa(w))
				}
			case x < 25:
				if w := pickWant(func(i int) bool { return !queuedDial[i] }); w >= 0 {
					queuedDial[w] = true
					emit("QD", strconv.Itoa(w))
				}
			case x < 42: // a parked dial completes
				if w := pickWant(func(i int) bool { return sim.hooked[i] }); w >= 0 {
					if r.Intn(7) == 0 {
						// r5: CloseIdleConnections while dials are under way (the administrative
						// call concurrent with a caller at this waiting point)
						before := len(sim.hooked)
						if emit("CI") && len(sim.hooked) > 0 && before > 0 {
							sparedWanted = true
						}
					} else if r.Intn(5) == 0 || nConns >= maxConnsN {
						emit("DX", strconv.Itoa(w))
					} else {
						emit("DO", strconv.Itoa(w), strconv.Itoa(nConns))
						nConns++
					}
				}
			case x < 58: // getConn receives what was delivered
				if w := pickWant(func(i int) bool { return sim.using[i] == nil && !finished[i] }); w >= 0 {
					emit("RV", strconv.Itoa(w))
				}
			case x < 76: // a request completes and returns its connection
				if w := pickWant(func(i int) bool { return sim.using[i] != nil }); w >= 0 {
					before := len(impl)
					if r.Intn(5) == 0 {
						emit("FC", strconv.Itoa(w))
					} else {
						emit("FP", strconv.Itoa(w))
						if len(impl) > before && strings.HasPrefix(impl[before], "ok/") && strings.Contains(impl[before], "d") {
							handed = true
						}
					}
					finished[w] = true
				}
			case x < 81:
				if w := pickWant(func(i int) bool { return !canceled[i] || r.Intn(6) == 0 }); w >= 0 {
					canceled[w] = true
					emit("CA", strconv.Itoa(w))
				}
			case x < 88:
				if c := pickConn(func(i int) bool { return sim.idleListed(i) && !sim.fakes[i].closed.Load() }); c >= 0 {
					emit("SC", strconv.Itoa(c))
				}
			case x < 92:
				// removeIdleConn is only ever called on a closed connection (readLoop's exit handler)
				if c := pickConn(func(i int) bool { return sim.fakes[i].closed.Load() }); c >= 0 {
					emit("RI", strconv.Itoa(c))
				}
			case x < 97:
				if c := pickConn(func(i int) bool { return true }); c >= 0 {
					emit("IT", strconv.Itoa(c))
				}
			default:
				emit("CI")
			}
		}
		sim.finish()
		if fail != nil {
			if fail.Error() != "panic" {
				s.Crash(strings.Join(ops, ","), "pool op sequence wedged", fail.Error(), "")
			}
			nFail++
			if nFail >= 3 { // every wedge costs a 10 s wait: three are evidence enough
				break
			}
			continue
		}
		dk := "0"
		if disableKA {
			dk = "1"
		}
		line := fmt.Sprintf("c09pool %d %d %d %s %d %d %d %s", maxIdle, maxIdleHost, maxConns, dk, nKeys, maxWants, maxConnsN, strings.Join(ops, ","))
		human := fmt.Sprintf("MaxIdleConns=%d MaxIdleConnsPerHost=%d MaxConnsPerHost=%d DisableKeepAlives=%v keys=%d ops=%s", maxIdle, maxIdleHost, maxConns, disableKA, nKeys, strings.Join(ops, " "))
		s.Case(line, strings.Join(impl, ";"), true, "", reused || handed, human)
		if reused {
			s.Count("reused-idle-conn")
		}
		if handed {
			s.Count("handed-to-waiter")
		}
		if sim.cancelledDials > 0 {
			s.Count("close-idle:cancelled-unwanted-dial")
		}
		if sparedWanted {
			s.Count("close-idle:dial-still-parked-after")
		}
		closedBefore := 0
		for i, o := range impl {
			nClosed := 0
			if j := strings.Index(o, " C="); j >= 0 {
				f := strings.Fields(o[j+3:])
				if len(f) > 0 && !strings.HasPrefix(f[0], "S=") && !strings.HasPrefix(f[0], "U=") {
					nClosed = strings.Count(f[0], ",") + 1
				}
			}
			if strings.HasPrefix(ops[i], "FP.") && strings.HasPrefix(o, "ok/") && nClosed > closedBefore {
				s.Count("put:evicted-lru-oldest")
			}
			if strings.HasPrefix(ops[i], "QI.") && i > 0 && strings.HasPrefix(o, "0/") {
				// listed connections all broken: the scan dropped them and the want was queued
				i0 := func(d string) string {
					d = d[strings.Index(d, "/")+1:]
					return strings.TrimPrefix(strings.Fields(d + " ")[0], "I0=")
				}
				if i0(impl[i-1]) != "" && i0(o) == "" {
					s.Count("scan:dropped-broken-listed")
				}
			}
			closedBefore = nClosed
			switch {
			case strings.HasPrefix(o, "host-full/"):
				s.Count("put:host-full")
			case strings.HasPrefix(o, "close-idle/"):
				s.Count("put:close-idle")
			case strings.HasPrefix(o, "ka-off/"):
				s.Count("put:ka-off")
			case strings.HasPrefix(o, "broken/"):
				s.Count("put:broken")
			}
		}
		if maxConns > 0 {
			s.Count("with-MaxConnsPerHost")
		}
		if maxIdle > 0 {
			s.Count("with-MaxIdleConns")
		}
	}
	s.Finish()
}
