//go:build verif

package req

import (
	"os"
	"strconv"
	"testing"
)

// TestVerifDbg_C04 prints every variant for one stream (VERIF_DBG_STREAM = Go-quoted string).
func TestVerifDbg_C04(t *testing.T) {
	q := os.Getenv("VERIF_DBG_STREAM")
	if q == "" {
		t.Skip()
	}
	st, err := strconv.Unquote(q)
	if err != nil {
		t.Fatal(err)
	}
	B, _ := strconv.Atoi(os.Getenv("VERIF_DBG_B"))
	if B == 0 {
		B = 4096
	}
	for _, m := range []string{"GET", "CONNECT", "HEAD"} {
		t.Logf("%s ref : %s", m, c04Ref([]byte(st), m, B, nil, 4096).ans)
		t.Logf("%s fork: %s", m, c04Fork([]byte(st), m, B, false, nil, 4096).ans)
		t.Logf("%s dump: %s", m, c04Fork([]byte(st), m, B, true, nil, 4096).ans)
		ones := make([]int, len(st))
		for i := range ones {
			ones[i] = 1
		}
		t.Logf("%s ref1: %s", m, c04Ref([]byte(st), m, B, ones, 1).ans)
		t.Logf("%s frk1: %s", m, c04Fork([]byte(st), m, B, false, ones, 1).ans)
	}
}
