//go:build verif

package req

import (
	"context"
	"crypto/tls"
	"net"
	"net/http"
	"strings"
	"sync/atomic"
	"testing"
	"time"

	"github.com/imroc/req/v3/internal/testcert"
	"github.com/quic-go/quic-go"
	h3ref "github.com/quic-go/quic-go/http3"
)

// ---------------------------------------------------------------------------------------
// HTTP/3 scripted origin: quic-go's http3 server on loopback UDP; the handler is the same
// gate-stepped script as for HTTP/2 (c08H2Peer.handle works on any net/http handler).
// ---------------------------------------------------------------------------------------

type c08H3Peer struct {
	h    *c08H2Peer // script handler (shares run pointer)
	srv  *h3ref.Server
	conn *net.UDPConn
	addr string
}

func newC08H3Peer() (*c08H3Peer, error) {
	cert, err := tls.X509KeyPair(testcert.LocalhostCert, testcert.LocalhostKey)
	if err != nil {
		return nil, err
	}
	udp, err := net.ListenUDP("udp", &net.UDPAddr{IP: net.IPv4(127, 0, 0, 1)})
	if err != nil {
		return nil, err
	}
	p := &c08H3Peer{h: &c08H2Peer{h3: true}, conn: udp, addr: udp.LocalAddr().String()}
	p.srv = &h3ref.Server{
		Handler:    http.HandlerFunc(p.h.handle),
		TLSConfig:  h3ref.ConfigureTLSConfig(&tls.Config{Certificates: []tls.Certificate{cert}}),
		QUICConfig: &quic.Config{MaxIdleTimeout: 30 * time.Second},
	}
	go p.srv.Serve(udp)
	return p, nil
}

func (p *c08H3Peer) url(path string) string { return "https://" + p.addr + path }
func (p *c08H3Peer) close() {
	p.srv.Close()
	p.conn.Close()
}

// c08H3Dial is installed as http3.RoundTripper.Dial: dial start / finish are injection points;
// the QUIC handshake is completed inside the dial (one event instead of a racing second one).
func (d *c08Dialer) h3dial(ctx context.Context, addr string, tlsCfg *tls.Config, cfg *quic.Config) (quic.EarlyConnection, error) {
	atomic.AddInt32(&d.n, 1)
	r := d.run.Load()
	if r != nil {
		atomic.AddInt32(&r.dialsStarted, 1)
		if r.hit("dialStart", "dialStart", true) {
			select {
			case <-r.release:
			case <-time.After(c08HardLimit):
			}
		}
	}
	// A context that is already done fails the dial — decided here, not by the coin toss of quic-go's
	// (and this hook's) select between "context done" and "handshake complete", which on a loaded machine
	// lets a dial under a dead context succeed now and then (the connection is then cached and the
	// follow-up needs no dial: allowed by the property, not what the model's atomic pick-up says).
	var conn quic.EarlyConnection
	err := ctx.Err()
	if err == nil {
		conn, err = quic.DialAddrEarly(ctx, addr, tlsCfg, cfg)
	}
	if err == nil && ctx.Err() != nil {
		conn.CloseWithError(0, "")
		err = ctx.Err()
	}
	if err == nil {
		select {
		case <-conn.HandshakeComplete():
		case <-ctx.Done():
			conn.CloseWithError(0, "")
			err = ctx.Err()
		case <-time.After(c08HardLimit):
		}
	}
	if r != nil {
		atomic.AddInt32(&r.dialsDone, 1)
		if err == nil {
			if r.hit("dialDone", "dialDone", true) && r.stallAt {
				select {
				case <-r.release:
				case <-time.After(c08HardLimit):
				}
			}
		}
	}
	if err != nil {
		return nil, err
	}
	return conn, nil
}

// c08H3ConnLevel reports whether a library goroutine belongs to an HTTP/3 connection as a whole
// (control / unidirectional stream handling) rather than to one request.
func c08H3ConnLevel(stack string) bool {
	for _, fn := range []string{"handleBidirectionalStreams", "HandleUnidirectionalStreams", "setupConn", "receiveDatagrams"} {
		if strings.Contains(stack, fn) {
			return true
		}
	}
	return false
}

func TestVerif_C08_script_h3(t *testing.T) { c08ScriptLane(t, "h3", "script_h3") }
