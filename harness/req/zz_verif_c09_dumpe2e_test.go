//go:build verif

package req

import (
	"bytes"
	"fmt"
	"io"
	"net/http"
	"net/http/httptest"
	"strconv"
	"strings"
	"sync"
	"sync/atomic"
	"testing"
	"time"

	"github.com/imroc/req/v3/internal/verifh"
)

// TestVerif_C09_racedump (oracle-judged; built with -race in the thorough tier): the asynchronous
// client-level dump with outputs that lag behind the traffic, through the real client on a
// kept-alive HTTP/1.1 connection and on one HTTP/2 connection. What each of the four dump outputs
// has received at the end must be what the callers sent / received, in order: the unit-level twin
// is the model-judged lane `dumpq` (internal/dump, theorem async_dump_as_received).

type c09deOut struct {
	mu        sync.Mutex
	buf       bytes.Buffer
	holdFirst *atomic.Bool // shared by the outputs of one case: ONE hold per case
	release   chan struct{}
	delay     time.Duration
	writes    atomic.Int32
}

func (w *c09deOut) Write(p []byte) (int, error) {
	if w.holdFirst.CompareAndSwap(true, false) {
		select {
		case <-w.release:
		case <-time.After(100 * time.Millisecond): // a full dump channel stalls the transport: let go
		}
	}
	if w.delay > 0 {
		time.Sleep(w.delay)
	}
	w.mu.Lock()
	w.buf.Write(p) // what is behind the pointer NOW
	w.mu.Unlock()
	w.writes.Add(1)
	return len(p), nil
}

func (w *c09deOut) String() string {
	w.mu.Lock()
	defer w.mu.Unlock()
	return w.buf.String()
}

func c09deBody(tag int, n int) string {
	return strings.Repeat(string(rune('a'+tag%26)), n)
}

func TestVerif_C09_racedump(t *testing.T) {
	s := verifh.New(t, "C09", "racedump",
		"2..5 sequential requests (GET / POST with a body of 0..30000 B, response bodies 0..40000 B written in two flushed halves; auto-read or read by the caller through ONE reused buffer of 512..4096 B) on one client with EnableDumpAllAsync-style options (four separate outputs: request header / request body / response header / response body) over a kept-alive HTTP/1.1 connection or one HTTP/2 connection; every output lags (first write held until all requests are done or 100 ms, then 0..300 us per write); oracle: response-body output = the bodies received, in order; request-body output = the bodies sent; each request's X-Tag occurs exactly once, in order, in the request-header and in the response-header output; non-trivial = at least two requests shared the connection while dump writes were outstanding")
	r := s.Rand()
	n := verifh.N(24, 300)
	handler := http.HandlerFunc(func(w http.ResponseWriter, req *http.Request) {
		io.Copy(io.Discard, req.Body)
		tag, _ := strconv.Atoi(req.Header.Get("X-Tag"))
		size, _ := strconv.Atoi(req.URL.Query().Get("n"))
		w.Header().Set("X-Tag", req.Header.Get("X-Tag"))
		w.Header().Set("Content-Type", "application/octet-stream")
		w.Header().Set("X-Conn", req.RemoteAddr)
		b := c09deBody(tag, size)
		io.WriteString(w, b[:size/2])
		if f, ok := w.(http.Flusher); ok {
			f.Flush()
		}
		io.WriteString(w, b[size/2:])
	})
	h1 := httptest.NewServer(handler)
	defer h1.Close()
	h2 := httptest.NewUnstartedServer(handler)
	h2.EnableHTTP2 = true
	h2.StartTLS()
	defer h2.Close()
	nFail := 0
	for cs := 0; cs < n && nFail < 3; cs++ {
		proto := verifh.Pick(r, []string{"h1", "h1", "h2"})
		k := 2 + r.Intn(4)
		delay := time.Duration(verifh.Pick(r, []int{0, 50, 300})) * time.Microsecond
		release := make(chan struct{})
		outs := make([]*c09deOut, 4)
		hold := &atomic.Bool{}
		hold.Store(true)
		for i := range outs {
			outs[i] = &c09deOut{release: release, delay: delay, holdFirst: hold}
		}
		sink := &c09deOut{release: release, holdFirst: hold}
		c := C().SetCommonDumpOptions(&DumpOptions{Output: sink, RequestHeaderOutput: outs[0], RequestBodyOutput: outs[1],
			ResponseHeaderOutput: outs[2], ResponseBodyOutput: outs[3],
			RequestHeader: true, RequestBody: true, ResponseHeader: true, ResponseBody: true, Async: true}).EnableDumpAll()
		base := h1.URL
		if proto == "h2" {
			c.EnableInsecureSkipVerify().EnableForceHTTP2()
			base = h2.URL
		}
		var human []string
		var wantReqBody, wantRespBody strings.Builder
		var tags []string
		conns := map[string]int{}
		ok := true
		var detail []string
		for i := 0; i < k && ok; i++ {
			tag := cs*10 + i + 1
			tags = append(tags, strconv.Itoa(tag))
			respN := verifh.Pick(r, []int{0, 2, 700, 5000, 40000})
			reqN := verifh.Pick(r, []int{0, 0, 300, 30000})
			manual := r.Intn(3) == 0
			bufN := verifh.Pick(r, []int{512, 1000, 4096})
			human = append(human, fmt.Sprintf("%s t%d req=%dB resp=%dB manual=%v/%d", proto, tag, reqN, respN, manual, bufN))
			rq := c.R().SetHeader("X-Tag", strconv.Itoa(tag)).SetQueryParam("n", strconv.Itoa(respN))
			method := "GET"
			if reqN > 0 {
				method = "POST"
				body := c09deBody(tag+7, reqN)
				rq.SetBodyString(body)
				wantReqBody.WriteString(body)
			}
			if manual {
				rq.DisableAutoReadResponse()
			}
			resp, err := rq.Send(method, base+"/x")
			if err != nil {
				ok = false
				detail = append(detail, fmt.Sprintf("t%d: %v", tag, err))
				break
			}
			var got string
			if manual {
				buf := make([]byte, bufN)
				var all []byte
				for {
					m, err := resp.Body.Read(buf)
					all = append(all, buf[:m]...)
					if err != nil {
						break
					}
				}
				resp.Body.Close()
				got = string(all)
			} else {
				got = resp.String()
			}
			if got != c09deBody(tag, respN) || resp.Header.Get("X-Tag") != strconv.Itoa(tag) {
				ok = false
				detail = append(detail, fmt.Sprintf("t%d received a foreign response (tag %q, %d bytes)", tag, resp.Header.Get("X-Tag"), len(got)))
			}
			wantRespBody.WriteString(c09deBody(tag, respN))
			conns[resp.Header.Get("X-Conn")]++
		}
		close(release)
		hum := strings.Join(human, " | ")
		s.Begin(fmt.Sprintf("racedump-%d", cs), hum)
		shared := false
		for _, cnt := range conns {
			if cnt >= 2 {
				shared = true
			}
		}
		if ok {
			want := []string{"", wantReqBody.String(), "", wantRespBody.String()}
			// wait for the writer goroutine to catch up
			deadline := time.Now().Add(5 * time.Second)
			for {
				outs[1].mu.Lock()
				l1 := outs[1].buf.Len()
				outs[1].mu.Unlock()
				outs[3].mu.Lock()
				l3 := outs[3].buf.Len()
				outs[3].mu.Unlock()
				h0, h2s := strings.ToLower(outs[0].String()), strings.ToLower(outs[2].String())
				last := "x-tag: " + tags[len(tags)-1] + "\r\n"
				done := l1 >= len(want[1]) && l3 >= len(want[3]) && strings.Contains(h0, last) && strings.Contains(h2s, last)
				if done || time.Now().After(deadline) {
					break
				}
				time.Sleep(time.Millisecond)
			}
			time.Sleep(2 * time.Millisecond)
			if got := outs[1].String(); got != want[1] {
				ok = false
				detail = append(detail, "request-body dump differs from the bodies sent: "+c09deDiff(got, want[1]))
			}
			if got := outs[3].String(); got != want[3] {
				ok = false
				detail = append(detail, "response-body dump differs from the bodies received: "+c09deDiff(got, want[3]))
			}
			for oi, name := range map[int]string{0: "request-header", 2: "response-header"} {
				txt := strings.ToLower(outs[oi].String())
				pos := -1
				for _, tg := range tags {
					needle := "x-tag: " + tg + "\r\n"
					if cnt := strings.Count(txt, needle); cnt != 1 {
						ok = false
						detail = append(detail, fmt.Sprintf("%s dump shows X-Tag %s %d times", name, tg, cnt))
						continue
					}
					p := strings.Index(txt, needle)
					if p < pos {
						ok = false
						detail = append(detail, fmt.Sprintf("%s dump shows X-Tag %s out of order", name, tg))
					}
					pos = p
				}
			}
		}
		c.DisableDumpAll()
		c.GetTransport().CloseIdleConnections()
		s.Count("proto-" + proto)
		if shared {
			s.Count("connection-shared")
		}
		s.Observe(fmt.Sprintf("racedump-%d", cs), ok, "", shared, hum, strings.Join(detail, "; "))
		if !ok {
			nFail++
		}
	}
	s.Finish()
}

func c09deDiff(got, want string) string {
	i := 0
	for i < len(got) && i < len(want) && got[i] == want[i] {
		i++
	}
	cut := func(s string) string {
		if i >= len(s) {
			return "<end>"
		}
		e := i + 12
		if e > len(s) {
			e = len(s)
		}
		return fmt.Sprintf("%q", s[i:e])
	}
	return fmt.Sprintf("%d bytes vs %d expected, first difference at %d: got %s want %s", len(got), len(want), i, cut(got), cut(want))
}
