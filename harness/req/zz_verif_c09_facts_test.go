//go:build verif

package req

import (
	"bufio"
	"os"
	"os/exec"
	"path/filepath"
	"sort"
	"strconv"
	"strings"
	"testing"

	"github.com/imroc/req/v3/internal/verifh"
)

// c09Site is one access site of the regenerated lock-set table.
type c09Site struct {
	fn    string
	kind  string // read | write | call | entry | callsite | config
	pos   string
	locks []int
}

type c09Field struct {
	id    int
	name  string
	sites []c09Site
}

// c09LockFacts runs the fact translator on the tree under test (the package directory of the
// root package IS the repository root) and parses the `-- FACT` / `-- LOCK` lines of
// Generated/Locks.lean. refused = the extractor refused (the bridge reports that).
func c09LockFacts(t testing.TB) (fields []*c09Field, lockNames map[int]string, refused bool, err error) {
	dir := os.Getenv("VERIF_DIR")
	if dir == "" {
		dir = "/verif"
	}
	bin := filepath.Join(dir, ".work", "gofacts")
	root, _ := os.Getwd()
	out := t.TempDir()
	cmd := exec.Command(bin, "-repo", root, "-out", out)
	cmd.Run() // a non-zero exit (some extractor refused) still leaves the files
	f, e := os.Open(filepath.Join(out, "Locks.lean"))
	if e != nil {
		return nil, nil, false, e
	}
	defer f.Close()
	lockID := map[string]int{}
	lockNames = map[int]string{}
	byID := map[int]*c09Field{}
	type raw struct {
		fid                        int
		field, fn, kind, pos, held string
	}
	var raws []raw
	sc := bufio.NewScanner(f)
	sc.Buffer(make([]byte, 1<<20), 1<<26)
	for sc.Scan() {
		line := sc.Text()
		if strings.Contains(line, "gofacts refused") {
			return nil, nil, true, nil
		}
		if strings.HasPrefix(line, "-- LOCK ") {
			p := strings.SplitN(line[len("-- LOCK "):], "|", 2)
			n, _ := strconv.Atoi(p[0])
			lockID[p[1]] = n
			lockNames[n] = p[1]
		}
		if strings.HasPrefix(line, "-- FACT ") {
			p := strings.Split(line[len("-- FACT "):], "|")
			if len(p) != 6 {
				continue
			}
			n, _ := strconv.Atoi(p[0])
			raws = append(raws, raw{n, p[1], p[2], p[3], p[4], p[5]})
		}
	}
	for _, r := range raws {
		fd, ok := byID[r.fid]
		if !ok {
			fd = &c09Field{id: r.fid, name: r.field}
			byID[r.fid] = fd
			fields = append(fields, fd)
		}
		var locks []int
		if r.held != "" {
			for _, l := range strings.Split(r.held, ",") {
				locks = append(locks, lockID[l])
			}
		}
		sort.Ints(locks)
		fd.sites = append(fd.sites, c09Site{fn: r.fn, kind: r.kind, pos: r.pos, locks: locks})
	}
	return fields, lockNames, false, nil
}

func c09Holds(s c09Site, l int) bool {
	for _, x := range s.locks {
		if x == l {
			return true
		}
	}
	return false
}

// c09Verdict is the Go-side reading of the lock-set discipline, written independently of
// Req/Pool/Lockset.lean: guarded iff some lock is held at every non-setup site.
func c09Verdict(sites []c09Site) (guarded bool, common []int, majority int, offenders []string) {
	var live []c09Site
	for _, s := range sites {
		if s.kind != "config" {
			live = append(live, s)
		}
	}
	if len(live) == 0 {
		return true, nil, 0, nil
	}
	for _, l := range live[0].locks {
		all := true
		for _, s := range live[1:] {
			if !c09Holds(s, l) {
				all = false
			}
		}
		if all {
			common = append(common, l)
		}
	}
	if len(common) > 0 {
		return true, common, 0, nil
	}
	count := map[int]int{}
	var order []int
	for _, s := range live {
		for _, l := range s.locks {
			if count[l] == 0 {
				order = append(order, l)
			}
			count[l]++
		}
	}
	for _, l := range order {
		if majority == 0 || count[l] > count[majority] || (count[l] == count[majority] && l < majority) {
			majority = l
		}
	}
	seen := map[string]bool{}
	for _, s := range live {
		if !c09Holds(s, majority) && !seen[s.fn] {
			seen[s.fn] = true
			offenders = append(offenders, s.fn)
		}
	}
	return false, nil, majority, offenders
}

// c09Pairwise is the Go-side reading of the two-mutex discipline ("written under mu AND wmu, read
// under either"): every two non-setup sites of which at least one can write share a lock.
func c09Pairwise(sites []c09Site) bool {
	var live []c09Site
	for _, s := range sites {
		if s.kind != "config" {
			live = append(live, s)
		}
	}
	canWrite := func(s c09Site) bool { return s.kind == "write" || s.kind == "call" }
	for _, a := range live {
		for _, b := range live {
			if !canWrite(a) && !canWrite(b) {
				continue
			}
			shared := false
			for _, l := range a.locks {
				if c09Holds(b, l) {
					shared = true
				}
			}
			if !shared {
				return false
			}
		}
	}
	return true
}

// c09KnownOpenSites: the input classes of the two confirmed defects (DESIGN.md section 5 row 17).
var c09KnownOpenSites = map[string]struct{ fn, class string }{
	"Transport.pendingAltSvcs": {"Transport.checkAltSvc", "lockset-pendingAltSvcs-checkAltSvc"},
	"AltSvcJar.entries":        {"AltSvcJar.GetAltSvc", "lockset-AltSvcJar-GetAltSvc"},
	"RoundTripper.transport":   {"RoundTripper.dial", "lockset-http3-transport-dial"},
}

// c09FieldGuarded reports whether the regenerated facts show every access site of the field
// holding a common lock (used by the -race lanes to decide whether a known-racy scenario may
// be exercised).
func c09FieldGuarded(t testing.TB, field string) bool {
	fields, _, refused, err := c09LockFacts(t)
	if err != nil || refused {
		return false
	}
	for _, f := range fields {
		if f.name == field {
			g, _, _, _ := c09Verdict(f.sites)
			return g
		}
	}
	return false
}

// c09AltSvcGuarded: do the regenerated facts show the Alt-Svc bookkeeping guarded? While they
// do not (the two known findings), scenarios that make those unguarded accesses truly
// concurrent are withheld from the behavioural lanes: a -race failure cannot carry a finding
// class, the facts lane classes them. VERIF_C09_FORCE_KNOWN_RACY=1 overrides the gate (used to
// demonstrate the finding by hand; never set by bin/check).
func c09ForceKnownRacy() bool { return os.Getenv("VERIF_C09_FORCE_KNOWN_RACY") == "1" }

func c09AltSvcGuarded(t testing.TB) bool {
	if c09ForceKnownRacy() {
		return true
	}
	return c09FieldGuarded(t, "Transport.pendingAltSvcs") && c09FieldGuarded(t, "AltSvcJar.entries")
}

// TestVerif_C09_locksetfacts: the lock-set table regenerated from the tree under test, field
// by field, judged by the Lean `verdict` function and by the independent Go reading above.
// The property oracle is "guarded"; the two confirmed unguarded sites are classed.
func TestVerif_C09_locksetfacts(t *testing.T) {
	s := verifh.New(t, "C09", "locksetfacts",
		"one case per anchored shared field (27 fields in 4 packages: HTTP/1.1 pool, Alt-Svc bookkeeping, HTTP/2 connection pool, the cc.mu-guarded demultiplexer state and the cc.wmu-guarded write side of an HTTP/2 ClientConn, its two-mutex peer settings, the HTTP/3 client map / transport / datagram stream table; + one pseudo-field per caller-holds function — …Locked convention, documented or inferred from all call sites): all syntactic access sites with the mutexes held there, regenerated from the source by tools/gofacts; oracle = some lock common to all non-setup sites, or (two-mutex state) every two sites of which one can write share a lock; non-trivial = field with >= 2 sites")
	fields, lockNames, refused, err := c09LockFacts(t)
	if err != nil {
		t.Fatalf("cannot regenerate the lock-set facts: %v", err)
	}
	if refused {
		// the extractor left its subset: Bridge/C09 fails to build and bin/check reports that
		s.Count("extractor-refused")
		s.Finish()
		return
	}
	for _, f := range fields {
		var enc []string
		for _, st := range f.sites {
			w := "0"
			if st.kind == "write" || st.kind == "call" || st.kind == "config" {
				w = "1"
			}
			c := "0"
			if st.kind == "config" {
				c = "1"
			}
			enc = append(enc, verifh.Hex(st.fn)+":"+w+":"+c+":"+verifh.IntList(st.locks))
		}
		line := "c09lockset " + strconv.Itoa(f.id) + " " + strings.Join(enc, "/")
		guarded, common, maj, off := c09Verdict(f.sites)
		var impl, class string
		if guarded {
			impl = "guarded " + verifh.IntList(common)
			s.Count("guarded")
		} else if c09Pairwise(f.sites) {
			impl = "pairwise"
			guarded = true
			s.Count("pairwise-two-mutexes")
		} else {
			impl = "unguarded " + strconv.Itoa(maj) + " " + verifh.HexList(off)
			s.Count("unguarded")
			if k, ok := c09KnownOpenSites[f.name]; ok && len(off) == 1 && off[0] == k.fn {
				class = k.class
			}
		}
		var human strings.Builder
		human.WriteString(f.name + ":")
		for _, st := range f.sites {
			var ln []string
			for _, l := range st.locks {
				ln = append(ln, lockNames[l])
			}
			human.WriteString(" " + st.fn + "@" + st.pos + "(" + st.kind + "){" + strings.Join(ln, ",") + "}")
		}
		if !guarded {
			human.WriteString(" => no common lock; sites not holding " + lockNames[maj] + ": " + strings.Join(off, ","))
		}
		s.Case(line, impl, guarded, class, len(f.sites) >= 2, human.String())
		if strings.HasPrefix(f.name, "entry:") {
			s.Count("calling-convention")
		} else {
			s.Count("field")
		}
	}
	s.Finish()
}
