//go:build verif

package req

// C01 lane h1retry: the real persistConn.shouldRetryRequest + setupRewindBody / rewindBody (the
// decision of the retry loop of Transport.roundTrip) on generated (method, Idempotency-Key, body
// kind, connection reused?, error, body touched?, bytes read) tuples; what a server accepting the
// rewound request would read is compared with the Lean model `Req.Replay.h1Run` on the attempt
// list [this failure, accepted].

import (
	"bytes"
	"errors"
	"fmt"
	"io"
	"net/http"
	"testing"

	"github.com/imroc/req/v3/internal/verifh"
)

func TestVerif_C01_h1retry(t *testing.T) {
	s := c01New(t, "C01", "h1retry",
		"real persistConn.shouldRetryRequest + setupRewindBody + rewindBody: method GET/HEAD/OPTIONS/TRACE/\"\"/POST/PUT/DELETE, with or without (X-)Idempotency-Key, body nil / NoBody / rewindable / one-shot without GetBody / one-shot whose GetBody returns the same reader (req's client before fixes/C01-2) of 0..70000 bytes, fresh or reused connection, error nothingWritten / transportReadFromServer / errServerClosedIdle / other, body untouched / read (0..all bytes) / closed; compared with the Lean model: failed, or the exact bytes a server accepting the rewound request reads; oracle: with an honest GetBody the accepted body is the whole body; non-trivial = retried with a body")
	r := s.Rand()
	n := verifh.N(4000, 30000)
	for i := 0; i < n; i++ {
		method := verifh.Pick(r, []string{"GET", "HEAD", "OPTIONS", "TRACE", "", "POST", "POST", "PUT", "DELETE", "PATCH"})
		idemHdr := verifh.Pick(r, []string{"", "", "Idempotency-Key", "X-Idempotency-Key"})
		kind := verifh.Pick(r, []string{"none", "nobody", "httpnobody", "rew", "rew", "one", "fake"})
		size := verifh.Pick(r, []int{0, 1, 100, 4096, 4097, 70000})
		ga, gb := 1+r.Intn(250), r.Intn(251)
		data := c01GenBody(size, ga, gb)
		reused := r.Intn(4) != 0
		errName := verifh.Pick(r, []string{"N", "N", "S", "S", "I", "O"})
		touch := verifh.Pick(r, []string{"no", "read", "read", "close"})
		consume := verifh.Pick(r, []int{0, 1, size / 2, size})
		var err error
		switch errName {
		case "N":
			err = nothingWrittenError{errors.New("c01: write failed")}
		case "S":
			err = transportReadFromServerError{io.EOF}
		case "I":
			err = errServerClosedIdle
		case "O":
			err = errors.New("c01: some other failure")
		}
		req, _ := http.NewRequest(method, "http://verif.test/x", nil)
		req.Method = method
		if idemHdr != "" {
			req.Header[idemHdr] = nil // headerHas: presence of the key is what counts
		}
		var rd io.ReadCloser
		switch kind {
		case "nobody":
			req.Body = NoBody // the package's own NoBody: what its transfer code produces and recognises
		case "httpnobody":
			// net/http's NoBody is a different value: the HTTP/1.1 path takes it for an ordinary
			// (empty, one-shot) body — recorded in notes/C01.md
			data = nil
			rd = http.NoBody
			req.Body = rd
		case "rew":
			rd = io.NopCloser(bytes.NewReader(data))
			req.Body = rd
			req.GetBody = func() (io.ReadCloser, error) { return io.NopCloser(bytes.NewReader(data)), nil }
		case "one":
			rd = io.NopCloser(bytes.NewReader(data))
			req.Body = rd
		case "fake":
			rd = io.NopCloser(bytes.NewReader(data))
			req.Body = rd
			req.GetBody = func() (io.ReadCloser, error) { return rd, nil }
		}
		treq := setupRewindBody(req)
		touched := false
		if rd == nil {
			consume, touch = 0, "no"
		} else {
			switch touch {
			case "no":
				consume = 0
			case "read":
				touched = true
				io.ReadFull(treq.Body, make([]byte, consume))
				if consume == 0 {
					treq.Body.Read(nil)
				}
			case "close":
				touched = true
				consume = 0
				treq.Body.Close()
			}
		}
		human := fmt.Sprintf("%q idem=%q body=%s/%d reused=%v err=%s touch=%s read=%d", method, idemHdr, kind, size, reused, errName, touch, consume)
		pc := &persistConn{reused: reused}
		impl := "failed"
		ok := true
		var retry bool
		var nreq *http.Request
		var rerr error
		if txt, p := verifh.Safely(func() {
			retry = pc.shouldRetryRequest(treq, err)
			if retry {
				nreq, rerr = rewindBody(treq)
			}
		}); p {
			s.Crash(human, human, txt, "")
			continue
		}
		if retry && rerr == nil {
			var b []byte
			if nreq.Body != nil {
				b, _ = io.ReadAll(nreq.Body)
			}
			impl = "accepted " + c01Blob(b)
			s.Count("retry")
			if rd != nil {
				s.Count("retry-with-body")
				if nreq != treq {
					s.Count("retry-rewound")
				}
			}
			if kind != "fake" && rd != nil && !bytes.Equal(b, data) {
				ok = false
				human += fmt.Sprintf(" ORACLE: the retried request carries %d of %d bytes", len(b), len(data))
			}
		} else if retry {
			s.Count("cannot-rewind")
		} else {
			s.Count("no-retry")
		}
		idem := idemHdr != "" || method == "GET" || method == "HEAD" || method == "OPTIONS" || method == "TRACE" || method == ""
		honest, mk := "1", map[string]string{"none": "none", "nobody": "none", "rew": "rew", "one": "one", "fake": "one", "httpnobody": "one"}[kind]
		if kind == "httpnobody" {
			size = 0
		}
		if kind == "fake" {
			honest = "0"
		}
		a1 := fmt.Sprintf("%s%s%s:%d", c01b(reused), errName, c01b(touched), consume)
		s.Case(fmt.Sprintf("c01h1retry %s %s %s %s,0A0:0 gen.%d.%d.%d", honest, mk, c01b(idem), a1, size, ga, gb), impl, ok, "", retry && rerr == nil && rd != nil, human)
	}
	s.Need(t, "retry", "retry-with-body", "retry-rewound", "no-retry")
	s.Finish()
}
