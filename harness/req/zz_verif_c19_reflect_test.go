//go:build verif

package req

// C19 harness, reflective part (shared by the lanes share / same / reqset / life):
//
//   * c19Nodes      the modelled struct instances behind a *Client (Client, Transport, Options,
//                   H2Transport, H3RoundTripper, retryOption, DumpOptions, Dumper, TLSConfig, HTTPClient),
//   * c19Rel        relation of a field of the original to the same field of a copy, read off the
//                   REAL heap: same object / fresh object / equal value / zero …,
//   * c19Digest     canonical rendering of the content behind a value (identities of user-supplied
//                   objects and function values included), for "leaves no trace" oracles,
//   * c19Setters    every exported method of a type that returns its receiver type (the settings
//                   API as reflection sees it: a new setter is picked up without an edit here),
//   * c19GenArgs    arguments for such a method, by parameter type,
//   * c19LoadRows   the regenerated clone table (lean/Generated/CloneTable.lean), so that the lanes
//                   can hand each row to the Lean judge together with what the heap really shows.

import (
	"bytes"
	"context"
	"crypto/tls"
	"crypto/x509"
	"fmt"
	"io"
	"math/rand"
	"net"
	"net/http"
	"net/http/cookiejar"
	urlpkg "net/url"
	"os"
	"path/filepath"
	"reflect"
	"regexp"
	"sort"
	"strings"
	"time"
	"unsafe"
)

// ------------------------------------------------------------------ access to unexported fields

// c19Open returns v without the read-only flag (v must be addressable, or is returned as is).
func c19Open(v reflect.Value) reflect.Value {
	if !v.IsValid() || !v.CanAddr() {
		return v
	}
	return reflect.NewAt(v.Type(), unsafe.Pointer(v.UnsafeAddr())).Elem()
}

// c19Addressable returns an addressable copy of a non-addressable value (map elements, values in interfaces).
func c19Addressable(v reflect.Value) reflect.Value {
	if v.CanAddr() {
		return c19Open(v)
	}
	c := reflect.New(v.Type()).Elem()
	if v.CanInterface() {
		c.Set(v)
		return c
	}
	return v
}

// ------------------------------------------------------------------ identities

type c19Span struct{ lo, hi uintptr } // an object occupies [lo, hi); hi = lo+1 for pointers / maps / chans

func c19FuncID(v reflect.Value) uintptr {
	if v.IsNil() {
		return 0
	}
	if v.CanAddr() {
		// a func value is a pointer to its closure object: that pointer is the identity
		return *(*uintptr)(unsafe.Pointer(v.UnsafeAddr()))
	}
	return v.Pointer()
}

// c19Spans lists the objects a value refers to DIRECTLY: itself when it is a pointer / map / chan /
// slice, and — through struct values and interfaces held by value — the pointers inside. Function
// values are listed too when funcs is set (they are immutable, but their identity tells "the same
// function value" from "another closure").
func c19Spans(v reflect.Value, funcs bool, depth int) []c19Span {
	if !v.IsValid() || depth > 4 {
		return nil
	}
	switch v.Kind() {
	case reflect.Ptr, reflect.Map, reflect.Chan, reflect.UnsafePointer:
		if v.IsNil() {
			return nil
		}
		p := v.Pointer()
		return []c19Span{{p, p + 1}}
	case reflect.Slice:
		if v.IsNil() || v.Cap() == 0 {
			return nil
		}
		p := v.Pointer()
		sz := v.Type().Elem().Size()
		if sz == 0 {
			sz = 1
		}
		return []c19Span{{p, p + uintptr(v.Cap())*sz}}
	case reflect.Func:
		if !funcs || v.IsNil() {
			return nil
		}
		p := c19FuncID(v)
		return []c19Span{{p, p + 1}}
	case reflect.Interface:
		if v.IsNil() {
			return nil
		}
		return c19Spans(c19Addressable(v.Elem()), funcs, depth+1)
	case reflect.Struct:
		var out []c19Span
		for i := 0; i < v.NumField(); i++ {
			out = append(out, c19Spans(c19Open(v.Field(i)), funcs, depth+1)...)
		}
		return out
	case reflect.Array:
		var out []c19Span
		for i := 0; i < v.Len() && i < 8; i++ {
			out = append(out, c19Spans(c19Open(v.Index(i)), funcs, depth+1)...)
		}
		return out
	}
	return nil
}

func c19Overlap(a, b []c19Span) bool {
	for _, x := range a {
		for _, y := range b {
			if x.lo < y.hi && y.lo < x.hi {
				return true
			}
		}
	}
	return false
}

// ------------------------------------------------------------------ content digest

type c19Digester struct {
	seen    map[uintptr]int
	skip    func(owner, field string) bool // fields left out (runtime state)
	budget  int
	funcNil bool // render function values as nil / non-nil only
}

var c19OpaqueTypes = map[string]bool{
	"sync.Mutex": true, "sync.RWMutex": true, "sync.Once": true, "sync.WaitGroup": true, "sync.Cond": true, "sync.Map": true,
	"sync.Pool": true, "atomic.Int32": true, "atomic.Int64": true, "atomic.Uint32": true, "atomic.Uint64": true, "atomic.Bool": true,
	"atomic.Value": true, "time.Time": true, "time.Location": true, "os.File": true, "big.Int": true, "reflect.rtype": true,
}

// user-supplied / runtime objects rendered by identity (their content is not a setting)
var c19IdentityTypes = map[string]bool{
	"bytes.Buffer": true, "cookiejar.Jar": true, "net.Dialer": true, "net.Resolver": true, "log.Logger": true,
	"http.Transport": true, "req.Transport": true, "req.Client": true, "http2.ClientConn": true, "http2.clientConnPool": true,
	"req.persistConn": true, "quic.Transport": true, "quic.Config": true, "strings.Builder": true, "os.file": true,
	"req.c19IDLogger": true, "list.List": true, "list.Element": true, "http3.RoundTripper": true,
}

func c19TypeKey(t reflect.Type) string {
	s := t.String()
	s = strings.TrimLeft(s, "*")
	return s
}

// c19OwnerOf names the modelled struct a type stands for in the clone table ("" = not modelled).
func c19OwnerOf(t reflect.Type) string {
	switch t.String() {
	case "req.Client":
		return "Client"
	case "req.Transport":
		return "Transport"
	case "transport.Options":
		return "Options"
	case "http2.Transport":
		if t.PkgPath() == "github.com/imroc/req/v3/internal/http2" {
			return "H2Transport"
		}
	case "http3.RoundTripper":
		return "H3RoundTripper"
	case "req.retryOption":
		return "retryOption"
	case "req.DumpOptions":
		return "DumpOptions"
	case "dump.Dumper":
		return "Dumper"
	case "tls.Config":
		return "TLSConfig"
	case "http.Client":
		return "HTTPClient"
	case "req.Request":
		return "Request"
	}
	return ""
}

func (d *c19Digester) digest(b *strings.Builder, v reflect.Value, depth int) {
	d.budget--
	if d.budget < 0 || depth > 12 {
		b.WriteString("…")
		return
	}
	if !v.IsValid() {
		b.WriteString("invalid")
		return
	}
	t := v.Type()
	switch v.Kind() {
	case reflect.Bool:
		fmt.Fprintf(b, "%v", v.Bool())
	case reflect.Int, reflect.Int8, reflect.Int16, reflect.Int32, reflect.Int64:
		fmt.Fprintf(b, "%d", v.Int())
	case reflect.Uint, reflect.Uint8, reflect.Uint16, reflect.Uint32, reflect.Uint64, reflect.Uintptr:
		fmt.Fprintf(b, "%d", v.Uint())
	case reflect.Float32, reflect.Float64:
		fmt.Fprintf(b, "%g", v.Float())
	case reflect.Complex64, reflect.Complex128:
		fmt.Fprintf(b, "%v", v.Complex())
	case reflect.String:
		fmt.Fprintf(b, "%q", v.String())
	case reflect.Func:
		if v.IsNil() {
			b.WriteString("nilfunc")
		} else if d.funcNil {
			b.WriteString("func")
		} else {
			fmt.Fprintf(b, "func@%x", c19FuncID(v))
		}
	case reflect.Chan:
		if v.IsNil() {
			b.WriteString("nilchan")
		} else {
			b.WriteString("chan")
		}
	case reflect.UnsafePointer:
		b.WriteString("unsafe")
	case reflect.Interface:
		if v.IsNil() {
			b.WriteString("nil")
			return
		}
		e := v.Elem()
		fmt.Fprintf(b, "(%s)", e.Type())
		d.digest(b, c19Addressable(e), depth+1)
	case reflect.Ptr:
		if v.IsNil() {
			b.WriteString("nil")
			return
		}
		key := c19TypeKey(t)
		if c19IdentityTypes[key] && (depth > 0 || c19OwnerOf(t.Elem()) == "") {
			fmt.Fprintf(b, "&%s@%x", key, v.Pointer())
			return
		}
		if c19OpaqueTypes[key] {
			fmt.Fprintf(b, "&%s", key)
			return
		}
		if pool, ok := c19Open(v).Interface().(*x509.CertPool); ok {
			subj := pool.Subjects() //nolint:staticcheck
			ss := make([]string, len(subj))
			for i, s := range subj {
				ss[i] = fmt.Sprintf("%x", s)
			}
			sort.Strings(ss)
			fmt.Fprintf(b, "&pool%v", ss)
			return
		}
		if n, ok := d.seen[v.Pointer()]; ok {
			fmt.Fprintf(b, "&↑%d", n)
			return
		}
		d.seen[v.Pointer()] = len(d.seen)
		b.WriteString("&")
		d.digest(b, c19Open(v.Elem()), depth+1)
	case reflect.Slice:
		if v.Len() == 0 { // nil and empty read alike
			b.WriteString("[]")
			return
		}
		if t.Elem().Kind() == reflect.Uint8 {
			fmt.Fprintf(b, "bytes%x", c19Open(v).Bytes())
			return
		}
		b.WriteString("[")
		for i := 0; i < v.Len(); i++ {
			if i > 0 {
				b.WriteString(",")
			}
			d.digest(b, c19Open(v.Index(i)), depth+1)
		}
		b.WriteString("]")
	case reflect.Array:
		b.WriteString("[")
		for i := 0; i < v.Len(); i++ {
			if i > 0 {
				b.WriteString(",")
			}
			d.digest(b, c19Open(v.Index(i)), depth+1)
		}
		b.WriteString("]")
	case reflect.Map:
		if v.Len() == 0 {
			b.WriteString("map[]")
			return
		}
		type kv struct {
			k string
			v reflect.Value
		}
		var es []kv
		it := v.MapRange()
		for it.Next() {
			var kb strings.Builder
			d.digest(&kb, c19Addressable(it.Key()), depth+1)
			es = append(es, kv{kb.String(), it.Value()})
		}
		sort.Slice(es, func(i, j int) bool { return es[i].k < es[j].k })
		b.WriteString("map[")
		for i, e := range es {
			if i > 0 {
				b.WriteString(",")
			}
			b.WriteString(e.k + ":")
			d.digest(b, c19Addressable(e.v), depth+1)
		}
		b.WriteString("]")
	case reflect.Struct:
		key := c19TypeKey(t)
		if c19OpaqueTypes[key] {
			b.WriteString(key)
			return
		}
		owner := c19OwnerOf(t)
		b.WriteString("{")
		for i := 0; i < v.NumField(); i++ {
			name := t.Field(i).Name
			if d.skip != nil && owner != "" && d.skip(owner, name) {
				continue
			}
			b.WriteString(name + "=")
			d.digest(b, c19Open(v.Field(i)), depth+1)
			b.WriteString(";")
		}
		b.WriteString("}")
	default:
		b.WriteString("?" + v.Kind().String())
	}
}

// c19Digest renders the content behind v. skip names (owner, field) pairs left out.
func c19Digest(v reflect.Value, skip func(owner, field string) bool) string {
	d := &c19Digester{seen: map[uintptr]int{}, skip: skip, budget: 200000}
	var b strings.Builder
	d.digest(&b, v, 0)
	return b.String()
}

// ------------------------------------------------------------------ modelled nodes of a client

type c19Node struct {
	owner string
	v     reflect.Value // addressable struct value
}

func c19Nodes(c *Client) []c19Node {
	var out []c19Node
	add := func(owner string, p interface{}) {
		v := reflect.ValueOf(p)
		if v.Kind() == reflect.Ptr && !v.IsNil() {
			out = append(out, c19Node{owner, v.Elem()})
		}
	}
	add("Client", c)
	if c.Transport != nil {
		add("Transport", c.Transport)
		add("Options", &c.Transport.Options)
		add("H2Transport", c.Transport.t2)
		add("H3RoundTripper", c.Transport.t3)
		add("Dumper", c.Transport.Options.Dump)
		add("TLSConfig", c.Transport.Options.TLSClientConfig)
	}
	add("retryOption", c.retryOption)
	add("DumpOptions", c.dumpOptions)
	add("HTTPClient", c.httpClient)
	return out
}

// runtime state of the modelled structs: never a setting; left out of settings digests
var c19RuntimeFields = map[string]bool{
	"Transport.idleMu": true, "Transport.closeIdle": true, "Transport.idleConn": true, "Transport.idleConnWait": true,
	"Transport.idleLRU": true, "Transport.reqMu": true, "Transport.reqCanceler": true, "Transport.connsPerHostMu": true,
	"Transport.connsPerHost": true, "Transport.connsPerHostWait": true, "Transport.dialsInProgress": true,
	"Transport.pendingAltSvcs": true, "Transport.pendingAltSvcsMu": true, "Transport.altSvcJar": true,
	"H2Transport.connPoolOnce": true, "H2Transport.connPoolOrDef": true,
	"H3RoundTripper.mutex": true, "H3RoundTripper.initOnce": true, "H3RoundTripper.initErr": true, "H3RoundTripper.newClient": true,
	"H3RoundTripper.clients": true, "H3RoundTripper.transport": true,
	"Dumper.ch": true,
	// embedded back-pointers and links between the modelled structs (the digest visits each struct once, by owner)
	"Client.Transport": true, "H2Transport.Options": true, "H3RoundTripper.Options": true, "HTTPClient.Transport": true,
	"Transport.Options": true, "Transport.t2": true, "Transport.t3": true, "Options.Dump": true, "Options.TLSClientConfig": true,
	"Client.retryOption": true, "Client.dumpOptions": true, "Client.httpClient": true,
	// closures rebuilt for each client (they capture the client / transport they belong to)
	"Client.wrappedRoundTrip": true, "Transport.wrappedRoundTrip": true, "Options.Debugf": true,
	// tls.Config internals
	"TLSConfig.mutex": true, "TLSConfig.sessionTicketKeys": true, "TLSConfig.autoSessionTicketKeys": true,
}

// c19SettingsDigest: the settings of a client, struct by struct (identities of user-supplied objects
// and function values included; runtime state, links between the structs and per-client closures left
// out, their nil-ness kept). extraSkip names further "Owner.field" entries to leave out.
func c19SettingsDigest(c *Client, extraSkip map[string]bool) map[string]string {
	return c19SettingsDigestOpt(c, extraSkip, false)
}

// funcNil: function values count as nil / non-nil only (two calls of a setter that wraps its
// argument in a new closure yield two different function values)
func c19SettingsDigestOpt(c *Client, extraSkip map[string]bool, funcNil bool) map[string]string {
	out := map[string]string{}
	for _, n := range c19Nodes(c) {
		t := n.v.Type()
		for i := 0; i < t.NumField(); i++ {
			name := n.owner + "." + t.Field(i).Name
			f := c19Open(n.v.Field(i))
			if c19RuntimeFields[name] || extraSkip[name] {
				switch name {
				case "Client.wrappedRoundTrip", "Transport.wrappedRoundTrip", "Transport.t2", "Transport.t3", "Options.Dump",
					"Options.TLSClientConfig", "Client.retryOption", "Client.dumpOptions":
					out[name] = fmt.Sprint("nil=", f.IsZero())
				}
				continue
			}
			d := &c19Digester{seen: map[uintptr]int{}, skip: func(o, fl string) bool { return c19RuntimeFields[o+"."+fl] }, budget: 200000, funcNil: funcNil}
			var b strings.Builder
			d.digest(&b, f, 0)
			out[name] = b.String()
		}
	}
	return out
}

func c19DiffDigests(a, b map[string]string) []string {
	var out []string
	keys := map[string]bool{}
	for k := range a {
		keys[k] = true
	}
	for k := range b {
		keys[k] = true
	}
	for k := range keys {
		if a[k] != b[k] {
			x, y := a[k], b[k]
			if len(x) > 160 {
				x = x[:160] + "…"
			}
			if len(y) > 160 {
				y = y[:160] + "…"
			}
			out = append(out, fmt.Sprintf("%s: %s -> %s", k, x, y))
		}
	}
	sort.Strings(out)
	return out
}

// ------------------------------------------------------------------ relation of a field to its copy

// c19Rel relates field fo of the original to the same field fc of a copy, as the heap shows it:
//
//	bothzero  both hold the zero value
//	zero      the copy holds the zero value, the original does not
//	appeared  the original holds the zero value, the copy does not
//	same      both refer to the same object (pointer / map / chan equal, backing arrays overlap, same function value)
//	fresh     both refer to objects, none in common; "+eq" / "+ne": the contents read equal / differ
//	eq / ne   plain values, equal / different
func c19Rel(fo, fc reflect.Value) string {
	oz, cz := fo.IsZero(), fc.IsZero()
	so, sc := c19Spans(fo, true, 0), c19Spans(fc, true, 0)
	if fo.Kind() == reflect.Slice {
		// an empty slice with capacity still is an object; without capacity it reads like nil
		oz, cz = len(so) == 0 && fo.Len() == 0, len(sc) == 0 && fc.Len() == 0
	}
	switch {
	case oz && cz:
		return "bothzero"
	case cz:
		return "zero"
	case oz:
		return "appeared"
	}
	if len(so) == 0 && len(sc) == 0 {
		if c19Digest(fo, nil) == c19Digest(fc, nil) {
			return "eq"
		}
		return "ne"
	}
	if c19Overlap(so, sc) {
		return "same"
	}
	skip := func(o, f string) bool { return c19RuntimeFields[o+"."+f] }
	if c19Digest(fo, skip) == c19Digest(fc, skip) {
		return "fresh+eq"
	}
	return "fresh+ne"
}

// c19GoKind: the kind vocabulary of the clone table for a Go type
func c19GoKind(t reflect.Type) string {
	switch t.Kind() {
	case reflect.Ptr, reflect.Chan, reflect.UnsafePointer:
		return "pointer"
	case reflect.Map:
		return "map"
	case reflect.Slice:
		return "slice"
	case reflect.Func:
		return "func"
	case reflect.Interface:
		return "iface"
	case reflect.Struct:
		return "struct"
	}
	return "value"
}

// ------------------------------------------------------------------ the regenerated clone table

type c19Row struct {
	owner, field, kind, how string
	hasSetter, inPlace      bool
}

var c19RowRE = regexp.MustCompile(`^def \S+ : Row := ⟨\d+, "([^"]+)", "([^"]+)", \.(\w+), \.(\w+), "(?:[^"\\]|\\.)*", (true|false), (true|false)⟩`)

// c19LoadRows reads lean/Generated/CloneTable.lean (printed by tools/gofacts from the source under test
// just before the lanes run).
func c19LoadRows() (map[string]c19Row, error) {
	dir := os.Getenv("VERIF_DIR")
	if dir == "" {
		dir = "/verif"
	}
	b, err := os.ReadFile(filepath.Join(dir, "lean", "Generated", "CloneTable.lean"))
	if err != nil {
		return nil, err
	}
	out := map[string]c19Row{}
	for _, line := range strings.Split(string(b), "\n") {
		if m := c19RowRE.FindStringSubmatch(line); m != nil {
			out[m[1]+"."+m[2]] = c19Row{m[1], m[2], m[3], m[4], m[5] == "true", m[6] == "true"}
		}
	}
	if len(out) < 100 {
		return nil, fmt.Errorf("only %d rows parsed from CloneTable.lean", len(out))
	}
	return out, nil
}

// ------------------------------------------------------------------ the settings API as reflection sees it

type c19RSetter struct {
	name string
	m    reflect.Method
}

// c19Setters lists the exported methods of pointer type t whose only result is t itself.
func c19Setters(t reflect.Type) []c19RSetter {
	var out []c19RSetter
	for i := 0; i < t.NumMethod(); i++ {
		m := t.Method(i)
		if m.Type.NumOut() == 1 && m.Type.Out(0) == t {
			out = append(out, c19RSetter{m.Name, m})
		}
	}
	return out
}

type c19ArgGen struct {
	r    *rand.Rand
	w    *c19World
	n    int
	refs []reflect.Value // reference-typed arguments handed out (maps, slices, pointers): the caller keeps them
}

func (g *c19ArgGen) next() int { g.n++; return g.n }

var (
	c19TWriter    = reflect.TypeOf((*io.Writer)(nil)).Elem()
	c19TLogger    = reflect.TypeOf((*Logger)(nil)).Elem()
	c19TJar       = reflect.TypeOf((*http.CookieJar)(nil)).Elem()
	c19TContext   = reflect.TypeOf((*context.Context)(nil)).Elem()
	c19TError     = reflect.TypeOf((*error)(nil)).Elem()
	c19TAny       = reflect.TypeOf((*interface{})(nil)).Elem()
	c19TReader    = reflect.TypeOf((*io.Reader)(nil)).Elem()
	c19TConn      = reflect.TypeOf((*net.Conn)(nil)).Elem()
	c19TDuration  = reflect.TypeOf(time.Duration(0))
	c19TRTripper  = reflect.TypeOf((*http.RoundTripper)(nil)).Elem()
	c19TRTripperQ = reflect.TypeOf((*RoundTripper)(nil)).Elem()
)

type c19Payload struct{ A int }

// value builds an argument of type t for parameter number pos of method `method`.
func (g *c19ArgGen) value(t reflect.Type, method string, depth int) (reflect.Value, bool) {
	if depth > 4 {
		return reflect.Value{}, false
	}
	n := g.next()
	switch t.Kind() {
	case reflect.String:
		s := fmt.Sprintf("v%d", n)
		switch {
		case strings.Contains(method, "URL") || strings.Contains(method, "Proxy"):
			s = fmt.Sprintf("http://127.0.0.1:9/u%d", n)
		case strings.Contains(method, "QueryString"):
			s = fmt.Sprintf("qs%d=w%d", n, n)
		case strings.Contains(method, "RootCertFromString"):
			s = g.w.rootPEM[1+n%4]
		case strings.Contains(method, "ContentType"):
			s = fmt.Sprintf("text/x%d", n)
		case strings.Contains(method, "Scheme"):
			s = "http"
		case strings.Contains(method, "UnixSocket"):
			s = fmt.Sprintf("/nonexistent/sock%d", n)
		}
		return reflect.ValueOf(s).Convert(t), true
	case reflect.Bool:
		return reflect.ValueOf(g.r.Intn(2) == 0).Convert(t), true
	case reflect.Int, reflect.Int8, reflect.Int16, reflect.Int32, reflect.Int64:
		if t == c19TDuration {
			return reflect.ValueOf(time.Duration(1+g.r.Intn(5)) * time.Second), true
		}
		return reflect.ValueOf(1 + g.r.Intn(5)).Convert(t), true
	case reflect.Uint, reflect.Uint8, reflect.Uint16, reflect.Uint32, reflect.Uint64:
		return reflect.ValueOf(1 + g.r.Intn(5)).Convert(t), true
	case reflect.Float32, reflect.Float64:
		return reflect.ValueOf(float64(1 + g.r.Intn(5))).Convert(t), true
	case reflect.Slice:
		k := 1 + g.r.Intn(2)
		if strings.Contains(method, "OrderedFormData") {
			k = 2
		}
		s := reflect.MakeSlice(t, 0, k+g.r.Intn(3)) // spare capacity now and then
		for i := 0; i < k; i++ {
			e, ok := g.value(t.Elem(), method, depth+1)
			if !ok {
				return reflect.Value{}, false
			}
			s = reflect.Append(s, e)
		}
		g.refs = append(g.refs, s)
		return s, true
	case reflect.Map:
		m := reflect.MakeMap(t)
		for i := 0; i < 1+g.r.Intn(2); i++ {
			k, ok1 := g.value(t.Key(), method, depth+1)
			e, ok2 := g.value(t.Elem(), method, depth+1)
			if !ok1 || !ok2 {
				return reflect.Value{}, false
			}
			m.SetMapIndex(k, e)
		}
		g.refs = append(g.refs, m)
		return m, true
	case reflect.Func:
		if t == reflect.TypeOf((func() *cookiejar.Jar)(nil)) {
			// a factory that makes jars (one that returns nil leaves the jar alone, by the code's own rule)
			return reflect.ValueOf(g.w.mkJarFactory(1 + n%3)), true
		}
		// "value, err" functions (dialers, handshakes, proxy-header getters) fail cleanly; functions without such
		// a pair return zero values, except that a wrapper (an interface / func result and no error result)
		// hands back what it was given — as a function value that calls it, when the result is a func type —
		// so that a chain built from generated wrappers stays usable
		failing := false
		if n := t.NumOut(); n >= 2 && t.Out(n-1) == c19TError {
			switch t.Out(0).Kind() {
			case reflect.Interface, reflect.Ptr, reflect.Func, reflect.Map, reflect.Slice:
				failing = true
			}
		}
		f := reflect.MakeFunc(t, func(args []reflect.Value) []reflect.Value {
			out := make([]reflect.Value, t.NumOut())
			for i := range out {
				ot := t.Out(i)
				out[i] = reflect.Zero(ot)
				if failing {
					if i == len(out)-1 {
						out[i] = reflect.ValueOf(fmt.Errorf("generated function: refused")).Convert(ot)
					}
					continue
				}
				if ot.Kind() != reflect.Interface && ot.Kind() != reflect.Func {
					continue
				}
				for _, a := range args {
					if a.Type().AssignableTo(ot) && ot != c19TError {
						out[i] = a
						break
					}
					if ot.Kind() == reflect.Func && a.Kind() == reflect.Interface && !a.IsNil() {
						// func(rt RoundTripper) RoundTripFunc: a function that calls rt's only method
						if a.Elem().NumMethod() >= 1 {
							for mi := 0; mi < a.Type().NumMethod(); mi++ {
								m := a.Elem().MethodByName(a.Type().Method(mi).Name)
								if m.IsValid() && m.Type().ConvertibleTo(ot) {
									out[i] = m.Convert(ot)
								}
							}
						}
					}
				}
				if ot.Kind() == reflect.Func && out[i].IsNil() {
					ft := ot
					out[i] = reflect.MakeFunc(ft, func([]reflect.Value) []reflect.Value {
						z := make([]reflect.Value, ft.NumOut())
						for k := range z {
							z[k] = reflect.Zero(ft.Out(k))
						}
						return z
					})
				}
			}
			return out
		})
		return f, true
	case reflect.Interface:
		switch {
		case t == c19TWriter:
			return reflect.ValueOf(g.w.bufs[n%4]).Convert(t), true
		case t == c19TLogger:
			return reflect.ValueOf(&c19IDLogger{n}).Convert(t), true
		case t == c19TJar:
			jar, _ := cookiejar.New(nil)
			return reflect.ValueOf(jar).Convert(t), true
		case t == c19TContext:
			return reflect.ValueOf(context.WithValue(context.Background(), c19Payload{n}, n)).Convert(t), true
		case t == c19TError:
			return reflect.ValueOf(fmt.Errorf("e%d", n)).Convert(t), true
		case t == c19TReader:
			return reflect.ValueOf(bytes.NewReader([]byte(fmt.Sprintf("QQbody%d", n)))).Convert(t), true
		case t == c19TAny:
			switch {
			case strings.Contains(method, "Body"):
				return reflect.ValueOf(fmt.Sprintf("QQbody%d", n)).Convert(t), true
			case strings.Contains(method, "Result") || strings.Contains(method, "Error"):
				return reflect.ValueOf(&c19Payload{n}).Convert(t), true
			}
			return reflect.ValueOf(fmt.Sprintf("any%d", n)).Convert(t), true
		}
		return reflect.Value{}, false
	case reflect.Ptr:
		switch t.Elem().String() {
		case "tls.Config":
			return reflect.ValueOf(&tls.Config{ServerName: fmt.Sprintf("sn%d", n), NextProtos: []string{"h2", "http/1.1"}}), true
		case "req.DumpOptions":
			p := &DumpOptions{Output: g.w.bufs[n%4], RequestHeader: n%2 == 0, ResponseBody: n%3 == 0, RequestBody: true}
			g.refs = append(g.refs, reflect.ValueOf(p))
			return reflect.ValueOf(p), true
		case "http.Cookie":
			return reflect.ValueOf(&http.Cookie{Name: c19CookieName(100 + n), Value: "1"}), true
		case "url.URL":
			u, _ := urlpkg.Parse(fmt.Sprintf("http://127.0.0.1:9/u%d", n))
			return reflect.ValueOf(u), true
		case "req.Client":
			return reflect.Value{}, false
		}
		return reflect.Value{}, false
	case reflect.Struct:
		v := reflect.New(t).Elem()
		switch t.String() {
		case "tls.Certificate":
			return reflect.ValueOf(c19TLSCert(1 + n%9)), true
		case "req.FileUpload":
			return reflect.Value{}, false
		}
		for i := 0; i < t.NumField(); i++ {
			f := v.Field(i)
			if !f.CanSet() {
				continue
			}
			switch f.Kind() {
			case reflect.String, reflect.Bool, reflect.Int, reflect.Int8, reflect.Int16, reflect.Int32, reflect.Int64,
				reflect.Uint, reflect.Uint8, reflect.Uint16, reflect.Uint32, reflect.Uint64:
				if e, ok := g.value(f.Type(), method, depth+1); ok {
					f.Set(e)
				}
			}
		}
		return v, true
	}
	return reflect.Value{}, false
}

// c19GenArgs builds the arguments of method m (receiver excluded). ok = false: a parameter type the
// generator has no value for.
func (g *c19ArgGen) args(m reflect.Method) ([]reflect.Value, bool) {
	mt := m.Type
	var out []reflect.Value
	for i := 1; i < mt.NumIn(); i++ {
		pt := mt.In(i)
		if mt.IsVariadic() && i == mt.NumIn()-1 {
			s, ok := g.value(pt, m.Name, 0) // a slice: spread below
			if !ok {
				return nil, false
			}
			for j := 0; j < s.Len(); j++ {
				out = append(out, s.Index(j))
			}
			continue
		}
		v, ok := g.value(pt, m.Name, 0)
		if !ok {
			return nil, false
		}
		out = append(out, v)
	}
	return out, true
}

// c19Mutate changes a reference-typed argument in place, the way a caller that keeps using its own
// map / slice / struct would: every existing element is overwritten and one is added.
func c19Mutate(v reflect.Value, n int) {
	switch v.Kind() {
	case reflect.Map:
		for _, k := range v.MapKeys() {
			e := v.MapIndex(k)
			v.SetMapIndex(k, c19Poison(e, n))
		}
		if v.Type().Key().Kind() == reflect.String {
			k := reflect.ValueOf(fmt.Sprintf("QQpoison%d", n)).Convert(v.Type().Key())
			v.SetMapIndex(k, c19Poison(reflect.Zero(v.Type().Elem()), n))
		}
	case reflect.Slice:
		for i := 0; i < v.Len(); i++ {
			if v.Index(i).CanSet() {
				v.Index(i).Set(c19Poison(v.Index(i), n))
			}
		}
	case reflect.Ptr:
		if !v.IsNil() && v.Elem().Kind() == reflect.Struct {
			e := v.Elem()
			for i := 0; i < e.NumField(); i++ {
				if e.Field(i).CanSet() {
					e.Field(i).Set(c19Poison(e.Field(i), n))
				}
			}
		}
	}
}

func c19Poison(v reflect.Value, n int) reflect.Value {
	t := v.Type()
	switch t.Kind() {
	case reflect.String:
		return reflect.ValueOf(fmt.Sprintf("QQpoison%d", n)).Convert(t)
	case reflect.Bool:
		return reflect.ValueOf(!v.Bool()).Convert(t)
	case reflect.Int, reflect.Int8, reflect.Int16, reflect.Int32, reflect.Int64:
		return reflect.ValueOf(v.Int() + 17).Convert(t)
	case reflect.Uint, reflect.Uint8, reflect.Uint16, reflect.Uint32, reflect.Uint64:
		return reflect.ValueOf(v.Uint() + 17).Convert(t)
	case reflect.Slice:
		if t.Elem().Kind() == reflect.String {
			s := reflect.MakeSlice(t, 0, 2)
			return reflect.Append(s, reflect.ValueOf(fmt.Sprintf("QQpoison%d", n)).Convert(t.Elem()))
		}
		if v.Len() > 0 && v.Index(0).CanSet() {
			// overwrite the elements in place too (the slice a setter kept may share this array)
			for i := 0; i < v.Len(); i++ {
				v.Index(i).Set(c19Poison(v.Index(i), n))
			}
		}
		return v
	case reflect.Interface:
		if t == c19TAny {
			return reflect.ValueOf(fmt.Sprintf("QQpoison%d", n)).Convert(t)
		}
	case reflect.Ptr:
		if t.Elem().String() == "http.Cookie" {
			return reflect.ValueOf(&http.Cookie{Name: fmt.Sprintf("poison%d", n), Value: "1"})
		}
	case reflect.Func:
		// another function value of the same type
		return reflect.MakeFunc(t, func(args []reflect.Value) []reflect.Value {
			out := make([]reflect.Value, t.NumOut())
			for i := range out {
				out[i] = reflect.Zero(t.Out(i))
			}
			return out
		})
	case reflect.Struct:
		c := reflect.New(t).Elem()
		c.Set(v)
		for i := 0; i < c.NumField(); i++ {
			f := c.Field(i)
			if !f.CanSet() {
				continue
			}
			switch f.Kind() {
			case reflect.String, reflect.Bool, reflect.Int, reflect.Int8, reflect.Int16, reflect.Int32, reflect.Int64,
				reflect.Uint, reflect.Uint8, reflect.Uint16, reflect.Uint32, reflect.Uint64:
				f.Set(c19Poison(f, n))
			case reflect.Slice:
				if f.Type().Elem().Kind() == reflect.Slice { // tls.Certificate.Certificate [][]byte
					f.Set(reflect.MakeSlice(f.Type(), 0, 0))
				}
			}
		}
		return c
	}
	return v
}
