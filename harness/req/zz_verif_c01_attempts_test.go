//go:build verif

package req

// C01 lane attempts (round 5): the real Transport.roundTrip driven through its stages — a pending
// Alt-Svc transport (http.RoundTripper stub), a cached HTTP/2 connection (the real ClientConn of
// the fork over loopback TCP to an x/net/http2 server, handed out by a ClientConnPool stub), the
// HTTP/3 round tripper without a cached connection, the connection loop against an in-process
// HTTP/1.1 origin (TLS or plain) — and compared with the Lean model Req.Attempts.roundTrip (the
// function one_request_on_wire_per_success / attempts_start_at_body_start are about): the result
// of the call and, in order, every origin that saw (part of) the request, where its body started
// and whether that origin answered.

import (
	"bytes"
	"crypto/tls"
	"errors"
	"fmt"
	"io"
	"log"
	"net"
	"net/http"
	"net/http/httptest"
	"net/url"
	"os"
	"strings"
	"sync"
	"testing"
	"time"

	h2internal "github.com/imroc/req/v3/internal/http2"
	"github.com/imroc/req/v3/internal/netutil"
	"github.com/imroc/req/v3/internal/verifh"
	"github.com/imroc/req/v3/pkg/altsvc"
	xh2att "golang.org/x/net/http2"
)

type c01AttSeen struct {
	stage    string
	body     []byte
	answered bool
}

type c01AttLog struct {
	mu   sync.Mutex
	seen []*c01AttSeen
}

func (l *c01AttLog) add(stage string) *c01AttSeen {
	l.mu.Lock()
	defer l.mu.Unlock()
	s := &c01AttSeen{stage: stage}
	l.seen = append(l.seen, s)
	return s
}

var errC01Stage = errors.New("c01: scripted stage failure")

// c01AltStub is the pending Alt-Svc transport: answers after reading the whole body, or fails
// after reading failAfter bytes.
type c01AltStub struct {
	log       *c01AttLog
	fail      bool
	failAfter int
}

func (a *c01AltStub) RoundTrip(req *http.Request) (*http.Response, error) {
	s := a.log.add("alt")
	if a.fail {
		if req.Body != nil {
			buf := make([]byte, a.failAfter)
			n, _ := io.ReadFull(req.Body, buf)
			s.body = buf[:n]
			req.Body.Close()
		}
		return nil, errC01Stage
	}
	if req.Body != nil {
		s.body, _ = io.ReadAll(req.Body)
		req.Body.Close()
	}
	s.answered = true
	return &http.Response{StatusCode: 200, Status: "200 OK", Proto: "HTTP/3.0", ProtoMajor: 3, Header: http.Header{},
		Body: io.NopCloser(strings.NewReader("")), Request: req}, nil
}

// c01PoolStub hands out one prepared ClientConn to RoundTripOnlyCachedConn (dialOnMiss == false)
// and reports a cache miss otherwise.
type c01PoolStub struct {
	cc *h2internal.ClientConn
}

func (p *c01PoolStub) GetClientConn(req *http.Request, addr string, dialOnMiss bool) (*h2internal.ClientConn, error) {
	if p.cc == nil || dialOnMiss {
		return nil, h2internal.ErrNoCachedConn
	}
	p.cc.ReserveNewRequest()
	return p.cc, nil
}
func (p *c01PoolStub) MarkDead(*h2internal.ClientConn) {}
func (p *c01PoolStub) CloseIdleConnections()             {}
func (p *c01PoolStub) AddConnIfNeeded(key string, t *h2internal.Transport, c net.Conn) (bool, error) {
	return false, nil
}

func c01OriginHandler(lg *c01AttLog, stage string, fail bool, failAfter int) http.Handler {
	return http.HandlerFunc(func(w http.ResponseWriter, r *http.Request) {
		s := lg.add(stage)
		if fail {
			buf := make([]byte, failAfter)
			n, _ := io.ReadFull(r.Body, buf)
			s.body = buf[:n]
			panic(http.ErrAbortHandler)
		}
		s.body, _ = io.ReadAll(r.Body)
		s.answered = true
		w.WriteHeader(200)
	})
}

func TestVerif_C01_attempts(t *testing.T) {
	s := c01New(t, "C01", "attempts",
		"real Transport.roundTrip for one request (body none / in-memory with GetBody / one-shot scripted reader, 0..20000 bytes; POST PUT GET) with every combination of stage outcomes: pending Alt-Svc transport absent / answers / fails after 0..all body bytes; cached HTTP/2 connection absent (cache miss) / answers / resets the stream after 0..all body bytes (real ClientConn to an x/net/http2 server over loopback TCP); HTTP/3 not enabled / enabled without a cached connection; scheme https / http; protocol not forced / forced to HTTP/1.1; last stage = the connection loop against an in-process HTTP/1.1 origin; compared with the Lean model Req.Attempts.roundTrip: result, and in order every origin that saw the request (stage, where its body began, answered or not); independent oracle: the call succeeds iff exactly one origin answered and it received exactly the described body, every origin received a prefix of the described body from its first byte, no origin saw the request after another one had answered it or after the Alt-Svc transport had failed; non-trivial = at least one stage in front of the connection loop was active")
	log.SetOutput(io.Discard)
	defer log.SetOutput(os.Stderr)
	r := s.Rand()
	n := verifh.N(300, 2500)
	lg := &c01AttLog{}
	tlsOrigin := httptest.NewUnstartedServer(http.HandlerFunc(func(w http.ResponseWriter, rq *http.Request) {
		c01OriginHandler(lg, "conn", false, 0).ServeHTTP(w, rq)
	}))
	tlsOrigin.TLS = &tls.Config{NextProtos: []string{"http/1.1"}}
	tlsOrigin.Config.ErrorLog = log.New(io.Discard, "", 0)
	tlsOrigin.StartTLS()
	defer tlsOrigin.Close()
	plainOrigin := httptest.NewServer(http.HandlerFunc(func(w http.ResponseWriter, rq *http.Request) {
		c01OriginHandler(lg, "conn", false, 0).ServeHTTP(w, rq)
	}))
	defer plainOrigin.Close()
	ln, err := net.Listen("tcp", "127.0.0.1:0")
	if err != nil {
		t.Fatalf("listen: %v", err)
	}
	defer ln.Close()
	for i := 0; i < n; i++ {
		lg.mu.Lock()
		lg.seen = nil
		lg.mu.Unlock()
		https := r.Intn(6) != 0
		forceH1 := r.Intn(8) == 0
		kind := verifh.Pick(r, []string{"none", "rew", "rew", "one", "one"})
		size := verifh.Pick(r, []int{0, 1, 2, 100, 4096, 4097, 20000})
		if kind == "none" {
			size = 0
		}
		ga, gb := 1+r.Intn(250), r.Intn(251)
		data := verifh.C01GenBody(size, ga, gb)
		method := verifh.Pick(r, []string{"POST", "PUT", "GET"})
		idem := method == "GET"
		failAt := func() int {
			if size == 0 {
				return 0
			}
			return verifh.Pick(r, []int{0, 1, size / 2, size})
		}
		// stage scripts: S skipped, R response, E<k> error after k bytes, N cache miss
		alt, h2s, h3s := "S", "S", "S"
		if https && !forceH1 {
			switch r.Intn(6) {
			case 0:
				alt = "R"
			case 1:
				alt = fmt.Sprintf("E%d", failAt())
			}
			switch r.Intn(4) {
			case 0:
				h2s = "R"
			case 1:
				h2s = fmt.Sprintf("E%d", failAt())
			default:
				h2s = "N"
			}
			if r.Intn(2) == 0 {
				h3s = "N"
			}
		}
		origin := plainOrigin.URL
		if https {
			origin = tlsOrigin.URL
		}
		u, _ := url.Parse(origin + "/upload")
		human := fmt.Sprintf("%s %s kind=%s size=%d forceH1=%v alt=%s h2=%s h3=%s", method, u.Scheme, kind, size, forceH1, alt, h2s, h3s)
		id := fmt.Sprintf("attempts-%d", i)
		s.Begin(id, human)

		tr := T()
		tr.TLSClientConfig = &tls.Config{InsecureSkipVerify: true, NextProtos: []string{"http/1.1", "h2"}}
		tr.SetProxy(nil)
		if forceH1 {
			tr.EnableForceHTTP1()
		}
		if h3s == "N" {
			tr.EnableHTTP3()
			if tr.t3 == nil {
				h3s = "S" // this Go version cannot run HTTP/3: the stage does not exist
			}
		}
		if alt != "S" {
			if tr.altSvcJar == nil {
				tr.altSvcJar = altsvc.NewAltSvcJar()
			}
			if tr.pendingAltSvcs == nil {
				tr.pendingAltSvcs = make(map[string]*pendingAltSvc)
			}
			stub := &c01AltStub{log: lg}
			if alt[0] == 'E' {
				stub.fail = true
				fmt.Sscanf(alt[1:], "%d", &stub.failAfter)
			}
			_, port := netutil.AuthorityHostPort(u.Scheme, u.Host)
			tr.pendingAltSvcs[netutil.AuthorityKey(u)] = &pendingAltSvc{
				Entries:   []*altsvc.AltSvc{{Protocol: "h3", Port: port, Expire: time.Now().Add(time.Hour)}},
				Transport: stub,
			}
		}
		pool := &c01PoolStub{}
		tr.t2.ConnPool = pool
		var srvConn net.Conn
		if h2s == "R" || h2s[0] == 'E' {
			fail, failAfter := false, 0
			if h2s[0] == 'E' {
				fail = true
				fmt.Sscanf(h2s[1:], "%d", &failAfter)
			}
			accepted := make(chan net.Conn, 1)
			go func() {
				c, err := ln.Accept()
				if err != nil {
					accepted <- nil
					return
				}
				accepted <- c
				(&xh2att.Server{}).ServeConn(c, &xh2att.ServeConnOpts{Handler: c01OriginHandler(lg, "h2", fail, failAfter)})
			}()
			cliConn, err := net.Dial("tcp", ln.Addr().String())
			if err != nil {
				s.Count("skipped:dial-error")
				continue
			}
			srvConn = <-accepted
			cc, err := tr.t2.NewClientConn(cliConn)
			if err != nil {
				s.Count("skipped:h2-conn-error")
				cliConn.Close()
				continue
			}
			pool.cc = cc
		}
		var body io.ReadCloser
		var getBody func() (io.ReadCloser, error)
		switch kind {
		case "rew":
			body = io.NopCloser(bytes.NewReader(data))
			getBody = func() (io.ReadCloser, error) { return io.NopCloser(bytes.NewReader(data)), nil }
		case "one":
			body = &c01ScriptReader{data: append([]byte(nil), data...), sizes: []int{1, 4096, 1000}, rec: new([]int)}
		}
		req := &http.Request{Method: method, URL: u, Header: http.Header{}, Proto: "HTTP/1.1", ProtoMajor: 1, ProtoMinor: 1,
			Body: body, GetBody: getBody}
		if kind != "none" {
			req.ContentLength = -1
			if kind == "rew" {
				req.ContentLength = int64(size)
				if size == 0 {
					req.Body, req.GetBody = nil, nil
					kind = "none"
				}
			}
		}
		var resp *http.Response
		var rerr error
		if txt, p := verifh.Safely(func() { resp, rerr = tr.roundTrip(req) }); p {
			s.Crash(id, human, txt, "")
			continue
		}
		if resp != nil {
			io.Copy(io.Discard, resp.Body)
			resp.Body.Close()
		}
		tr.CloseIdleConnections()
		if pool.cc != nil {
			pool.cc.Close()
		}
		if srvConn != nil {
			srvConn.Close()
		}
		time.Sleep(2 * time.Millisecond) // a handler that was reset finishes recording what it read
		lg.mu.Lock()
		seen := append([]*c01AttSeen(nil), lg.seen...)
		lg.mu.Unlock()
		// canonical answer
		var tracePart []string
		answered := 0
		var answeredBody []byte
		ok, why := true, ""
		for k, sn := range seen {
			pos := "?"
			if bytes.HasPrefix(data, sn.body) {
				pos = "0"
			} else if j := bytes.Index(data, sn.body); j >= 0 {
				pos = fmt.Sprint(j)
			}
			tracePart = append(tracePart, fmt.Sprintf("%s:%s:%s", sn.stage, pos, c01b(sn.answered)))
			if sn.answered {
				answered++
				answeredBody = sn.body
				if k != len(seen)-1 {
					ok, why = false, "an origin saw the request after another origin had answered it"
				}
			}
			if pos != "0" {
				ok, why = false, "an origin received body bytes that are not the start of the described body"
			}
		}
		res := "failed"
		if rerr == nil {
			res = "accepted " + c01Blob(answeredBody)
		}
		switch {
		case !ok:
		case rerr == nil && answered != 1:
			ok, why = false, fmt.Sprintf("the call succeeded but %d origins answered", answered)
		case rerr != nil && answered != 0:
			ok, why = false, "the call failed although an origin answered the request"
		case rerr == nil && !bytes.Equal(answeredBody, data):
			ok, why = false, "the answering origin did not receive the described body"
		case len(seen) > 1 && rerr != nil && alt[0] == 'E':
			ok, why = false, "the request was sent again after the Alt-Svc transport failed"
		}
		trace := "-"
		if len(tracePart) > 0 {
			trace = strings.Join(tracePart, ",")
		}
		impl := res + " trace=" + trace
		s.Count("alt:" + alt[:1])
		s.Count("h2:" + h2s[:1])
		s.Count("h3:" + h3s[:1])
		s.Count("result:" + strings.SplitN(res, " ", 2)[0])
		line := fmt.Sprintf("c01attempts %s %s gen.%d.%d.%d %s %s %s", kind, c01b(idem), size, ga, gb, alt, h2s, h3s)
		s.Case(line, impl, ok, "", alt != "S" || h2s != "S" || h3s != "S", human+fmt.Sprintf(" -> err=%v seen=%s %s", rerr, trace, why))
	}
	s.Need(t, "alt:R", "alt:E", "alt:S", "h2:R", "h2:E", "h2:N", "h2:S", "h3:N", "result:accepted", "result:failed")
	s.Finish()
}
