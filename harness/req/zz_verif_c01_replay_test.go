//go:build verif

package req

import (
	"bufio"
	"bytes"
	"fmt"
	"io"
	"log"
	"math/rand"
	"mime"
	"mime/multipart"
	"net"
	"net/http"
	"net/http/httptest"
	"os"
	"path/filepath"
	"sort"
	"strings"
	"sync"
	"testing"
	"time"

	"crypto/tls"

	qhttp3 "github.com/quic-go/quic-go/http3"
	"golang.org/x/net/http2"
	"golang.org/x/net/http2/hpack"

	"github.com/imroc/req/v3/internal/verifh"
)

// ---------------------------------------------------------------- fault peers
//
// A fault peer is an origin that legally REFUSES a request once (or twice) before it serves it:
//   HTTP/2   RST_STREAM(REFUSED_STREAM), RST_STREAM(PROTOCOL_ERROR) or a graceful GOAWAY whose
//            last-stream-id is below the stream, sent after it has consumed 0..k DATA frames of the
//            request body (or the whole request);
//   HTTP/1.1 a kept-alive connection that the peer drops (FIN or RST) after it has read 0..k bytes
//            of the next request.
// The transport replays such a request transparently. Whatever it does, every request the peer
// ACCEPTS (receives completely, answers 200) must be exactly the request the API calls describe.

type c01RpSeen struct {
	method, ruri, host, cl string
	hdr                    map[string][]string // lower-case names
	body                   []byte
}

type c01Fault struct {
	kind  string // h2: refused | proto | goaway | cancel ; h1: close | reset
	after int    // h2: DATA frames consumed before the fault fires (0 = right after HEADERS); h1: bytes read
}

type c01Fired struct {
	kind     string
	frames   int // DATA frames / (h1) bytes consumed when the fault fired
	bytes    int // body bytes consumed when the fault fired (h2)
	complete bool
}

type c01FaultPeer struct {
	proto    string
	ln       net.Listener
	initWin  uint32 // h2: SETTINGS_INITIAL_WINDOW_SIZE (0 = leave the default 65535)
	maxFrame uint32 // h2: SETTINGS_MAX_FRAME_SIZE (0 = leave the default 16384)

	mu       sync.Mutex
	faults   []c01Fault
	accepted []*c01RpSeen
	fired    []c01Fired
	frames   [][2]int // h2: (length, END_STREAM) of every DATA frame of accepted streams, in order
	conns    []net.Conn
}

func c01StartFaultPeer(t testing.TB, proto string) *c01FaultPeer {
	ln, err := net.Listen("tcp", "127.0.0.1:0")
	if err != nil {
		t.Fatalf("listen: %v", err)
	}
	p := &c01FaultPeer{proto: proto, ln: ln}
	go func() {
		for {
			c, err := ln.Accept()
			if err != nil {
				return
			}
			p.mu.Lock()
			p.conns = append(p.conns, c)
			p.mu.Unlock()
			if proto == "h2" {
				go p.serveH2(c)
			} else {
				go p.serveH1(c)
			}
		}
	}()
	return p
}

func (p *c01FaultPeer) stop() {
	p.ln.Close()
	p.mu.Lock()
	for _, c := range p.conns {
		c.Close()
	}
	p.mu.Unlock()
}

func (p *c01FaultPeer) nextFault() *c01Fault {
	p.mu.Lock()
	defer p.mu.Unlock()
	if len(p.faults) == 0 {
		return nil
	}
	f := p.faults[0]
	p.faults = p.faults[1:]
	return &f
}

func (p *c01FaultPeer) serveH2(c net.Conn) {
	defer c.Close()
	preface := make([]byte, len(http2.ClientPreface))
	if _, err := io.ReadFull(c, preface); err != nil || string(preface) != http2.ClientPreface {
		return
	}
	var wmu sync.Mutex
	fr := http2.NewFramer(c, c)
	fr.ReadMetaHeaders = hpack.NewDecoder(65536, nil)
	fr.SetMaxReadFrameSize(1 << 24)
	var settings []http2.Setting
	if p.initWin != 0 {
		settings = append(settings, http2.Setting{ID: http2.SettingInitialWindowSize, Val: p.initWin})
	}
	if p.maxFrame != 0 {
		settings = append(settings, http2.Setting{ID: http2.SettingMaxFrameSize, Val: p.maxFrame})
	}
	wmu.Lock()
	fr.WriteSettings(settings...)
	wmu.Unlock()

	type stream struct {
		seen   c01RpSeen
		fault  *c01Fault
		nData  int
		dead   bool
		frames [][2]int
	}
	streams := map[uint32]*stream{}
	var hbuf bytes.Buffer
	henc := hpack.NewEncoder(&hbuf)
	finish := func(id uint32, st *stream) {
		p.mu.Lock()
		seen := st.seen
		p.accepted = append(p.accepted, &seen)
		p.frames = append(p.frames, st.frames...)
		p.mu.Unlock()
		hbuf.Reset()
		henc.WriteField(hpack.HeaderField{Name: ":status", Value: "200"})
		henc.WriteField(hpack.HeaderField{Name: "content-length", Value: "0"})
		wmu.Lock()
		fr.WriteHeaders(http2.HeadersFrameParam{StreamID: id, BlockFragment: hbuf.Bytes(), EndHeaders: true, EndStream: true})
		wmu.Unlock()
		delete(streams, id)
	}
	fire := func(id uint32, st *stream, complete bool) {
		st.dead = true
		p.mu.Lock()
		p.fired = append(p.fired, c01Fired{kind: st.fault.kind, frames: st.nData, bytes: len(st.seen.body), complete: complete})
		p.mu.Unlock()
		wmu.Lock()
		switch st.fault.kind {
		case "refused":
			fr.WriteRSTStream(id, http2.ErrCodeRefusedStream)
		case "proto":
			fr.WriteRSTStream(id, http2.ErrCodeProtocol)
		case "cancel":
			fr.WriteRSTStream(id, http2.ErrCodeCancel)
		case "goaway":
			last := uint32(0)
			if id >= 2 {
				last = id - 2
			}
			fr.WriteGoAway(last, http2.ErrCodeNo, nil)
		}
		wmu.Unlock()
	}
	for {
		f, err := fr.ReadFrame()
		if err != nil {
			return
		}
		switch f := f.(type) {
		case *http2.SettingsFrame:
			if !f.IsAck() {
				wmu.Lock()
				fr.WriteSettingsAck()
				wmu.Unlock()
			}
		case *http2.PingFrame:
			if !f.IsAck() {
				wmu.Lock()
				fr.WritePing(true, f.Data)
				wmu.Unlock()
			}
		case *http2.MetaHeadersFrame:
			if st := streams[f.StreamID]; st != nil {
				// trailers
				if f.StreamEnded() && !st.dead {
					finish(f.StreamID, st)
				}
				continue
			}
			st := &stream{}
			st.seen.hdr = map[string][]string{}
			for _, hf := range f.Fields {
				switch hf.Name {
				case ":method":
					st.seen.method = hf.Value
				case ":path":
					st.seen.ruri = hf.Value
				case ":authority":
					st.seen.host = hf.Value
				case "content-length":
					st.seen.cl = hf.Value
				default:
					st.seen.hdr[hf.Name] = append(st.seen.hdr[hf.Name], hf.Value)
				}
			}
			st.fault = p.nextFault()
			streams[f.StreamID] = st
			switch {
			case st.fault != nil && (st.fault.after == 0 || f.StreamEnded()):
				fire(f.StreamID, st, f.StreamEnded())
			case f.StreamEnded():
				finish(f.StreamID, st)
			}
		case *http2.DataFrame:
			n := len(f.Data())
			if n > 0 {
				wmu.Lock()
				fr.WriteWindowUpdate(0, uint32(n))
				wmu.Unlock()
			}
			st := streams[f.StreamID]
			if st == nil || st.dead {
				continue
			}
			st.seen.body = append(st.seen.body, f.Data()...)
			st.nData++
			e := 0
			if f.StreamEnded() {
				e = 1
			}
			st.frames = append(st.frames, [2]int{n, e})
			switch {
			case st.fault != nil && (st.nData >= st.fault.after || f.StreamEnded()):
				fire(f.StreamID, st, f.StreamEnded())
			case f.StreamEnded():
				finish(f.StreamID, st)
			case n > 0:
				wmu.Lock()
				fr.WriteWindowUpdate(f.StreamID, uint32(n))
				wmu.Unlock()
			}
		}
	}
}

// ---- HTTP/3: a quic-go http3 server whose handler, when a fault is pending, reads `after` bytes
// of the request body and then closes the whole QUIC connection (the client's cached connection
// dies under the request); otherwise it accepts the request.
type c01H3FaultPeer struct {
	c01FaultPeer
	addr string
	stop func()
}

func c01StartH3FaultPeer(t testing.TB) *c01H3FaultPeer {
	p := &c01H3FaultPeer{}
	p.proto = "h3"
	ts := httptest.NewTLSServer(http.NotFoundHandler())
	certs := ts.TLS.Certificates
	ts.Close()
	pc, err := net.ListenPacket("udp", "127.0.0.1:0")
	if err != nil {
		t.Fatalf("udp listen: %v", err)
	}
	h := http.HandlerFunc(func(w http.ResponseWriter, r *http.Request) {
		if r.URL.Path == "/prime" {
			w.WriteHeader(200)
			return
		}
		if f := p.nextFault(); f != nil {
			n, _ := io.ReadFull(r.Body, make([]byte, f.after))
			p.mu.Lock()
			p.fired = append(p.fired, c01Fired{kind: f.kind, frames: n, bytes: n})
			p.mu.Unlock()
			if hj, ok := w.(qhttp3.Hijacker); ok {
				hj.Connection().CloseWithError(0x100, "")
			}
			return
		}
		body, err := io.ReadAll(r.Body)
		if err != nil {
			return
		}
		ruri := r.RequestURI
		if ruri == "" {
			ruri = r.URL.RequestURI()
		}
		seen := &c01RpSeen{method: r.Method, ruri: ruri, host: r.Host, hdr: map[string][]string{}, body: body}
		for k, vs := range r.Header {
			lk := strings.ToLower(k)
			if lk == "content-length" {
				seen.cl = strings.Join(vs, ",")
				continue
			}
			seen.hdr[lk] = append(seen.hdr[lk], vs...)
		}
		p.mu.Lock()
		p.accepted = append(p.accepted, seen)
		p.mu.Unlock()
		w.WriteHeader(200)
	})
	srv := &qhttp3.Server{Handler: h, TLSConfig: qhttp3.ConfigureTLSConfig(&tls.Config{Certificates: certs})}
	go srv.Serve(pc)
	p.addr = pc.LocalAddr().String()
	p.stop = func() { srv.Close(); pc.Close() }
	return p
}

func (p *c01FaultPeer) serveH1(c net.Conn) {
	defer c.Close()
	br := bufio.NewReaderSize(c, 64<<10)
	for nReq := 0; ; nReq++ {
		if _, err := br.Peek(1); err != nil {
			return
		}
		if nReq >= 1 { // a kept-alive connection the client is reusing
			if f := p.nextFault(); f != nil {
				got := 0
				buf := make([]byte, 32<<10)
				for got < f.after {
					c.SetReadDeadline(time.Now().Add(60 * time.Millisecond))
					want := f.after - got
					if want > len(buf) {
						want = len(buf)
					}
					n, err := br.Read(buf[:want])
					got += n
					if err != nil {
						break
					}
				}
				p.mu.Lock()
				p.fired = append(p.fired, c01Fired{kind: f.kind, frames: got})
				p.mu.Unlock()
				if f.kind == "reset" {
					if tc, ok := c.(*net.TCPConn); ok {
						tc.SetLinger(0)
					}
				}
				return
			}
		}
		c.SetReadDeadline(time.Now().Add(10 * time.Second))
		r, err := http.ReadRequest(br)
		if err != nil {
			return
		}
		body, err := io.ReadAll(r.Body)
		if err != nil {
			return
		}
		seen := &c01RpSeen{method: r.Method, ruri: r.RequestURI, host: r.Host, hdr: map[string][]string{}, body: body}
		for k, vs := range r.Header {
			lk := strings.ToLower(k)
			if lk == "content-length" {
				seen.cl = strings.Join(vs, ",")
				continue
			}
			seen.hdr[lk] = append(seen.hdr[lk], vs...)
		}
		if len(r.TransferEncoding) > 0 {
			seen.hdr["transfer-encoding"] = r.TransferEncoding
		}
		p.mu.Lock()
		p.accepted = append(p.accepted, seen)
		p.mu.Unlock()
		if _, err := io.WriteString(c, "HTTP/1.1 200 OK\r\nContent-Length: 2\r\nContent-Type: text/plain\r\n\r\nok"); err != nil {
			return
		}
	}
}

// ---------------------------------------------------------------- cases

type c01ReplayCase struct {
	proto    string
	method   string
	path     string
	idemKey  bool
	xa       string
	bodyKind string // none bytes string func filefunc reader file
	body     []byte
	ga, gb   int   // body = gen.<len>.<ga>.<gb>
	sizes    []int // read sizes of the scripted one-shot reader
	faults   []c01Fault
	initWin  uint32
	maxFrame uint32
}

// c01OneShotKinds: body kinds that can be read once only — a replay cannot be served from them.
var c01OneShotKinds = map[string]bool{"reader": true, "file": true, "mpstream": true}

func c01GenReplay(r *rand.Rand, proto string, i int) *c01ReplayCase {
	tc := &c01ReplayCase{proto: proto}
	tc.method = verifh.Pick(r, []string{"POST", "POST", "PUT", "PATCH", "DELETE", "QUERY"})
	tc.path = verifh.Pick(r, []string{"/upload", "/a/b?x=1", "/r%2Fs?q=a+b", "/"})
	tc.idemKey = r.Intn(2) == 0
	tc.xa = verifh.Pick(r, []string{"v", "a, b", "x y z", "ü"})
	tc.bodyKind = verifh.Pick(r, []string{"none", "bytes", "bytes", "string", "func", "filefunc", "reader", "file", "mpbuf", "mpstream"})
	if tc.bodyKind == "none" {
		tc.method = verifh.Pick(r, []string{"GET", "GET", "DELETE", "POST", "HEAD"})
	} else {
		n := verifh.Pick(r, []int{1, 2, 100, 4095, 4096, 4097, 16383, 16384, 16385, 32768, 65535, 65536, 65537, 100 << 10, 200 << 10})
		if r.Intn(4) == 0 {
			n = 1 + r.Intn(70000)
		}
		tc.ga, tc.gb = 1+r.Intn(250), r.Intn(251)
		tc.body = c01GenBody(n, tc.ga, tc.gb)
		for k, m := 0, r.Intn(5); k < m; k++ {
			tc.sizes = append(tc.sizes, verifh.Pick(r, []int{1, 7, 512, 4096, 16384, 40000}))
		}
	}
	nf := 1
	switch {
	case i%40 == 7 && proto == "h2":
		nf = 2 // a second refusal costs the transport's one-second back-off: rare in the quick tier
	case r.Intn(10) == 0:
		nf = 0
	}
	for k := 0; k < nf; k++ {
		var f c01Fault
		if proto == "h2" {
			f.kind = verifh.Pick(r, []string{"refused", "refused", "goaway", "goaway", "proto", "cancel"})
			f.after = verifh.Pick(r, []int{0, 1, 1, 2, 3, 5, 1000})
		} else if proto == "h3" {
			f.kind = "connclose"
			f.after = verifh.Pick(r, []int{0, 0, 1, len(tc.body) / 2, len(tc.body)})
		} else {
			f.kind = verifh.Pick(r, []string{"close", "close", "reset"})
			hdr := 150
			f.after = verifh.Pick(r, []int{0, 1, 40, hdr, hdr + len(tc.body)/4, hdr + len(tc.body)/2, hdr + len(tc.body) - 1, 1 << 20})
		}
		tc.faults = append(tc.faults, f)
	}
	if proto == "h2" {
		tc.initWin = verifh.Pick(r, []uint32{0, 0, 1, 1000, 16384, 20000, 65536, 1 << 20})
		tc.maxFrame = verifh.Pick(r, []uint32{0, 0, 16384, 16385, 20000, 65536, 1 << 20})
		if tc.initWin == 1 && len(tc.body) > 3000 {
			tc.initWin = 1000 // one-byte DATA frames: small bodies only
		}
	}
	return tc
}

func (tc *c01ReplayCase) human() string {
	return fmt.Sprintf("%s %s %q idem=%v body=%s/%d sizes=%v faults=%v initWin=%d maxFrame=%d", tc.proto, tc.method, tc.path, tc.idemKey, tc.bodyKind, len(tc.body), tc.sizes, tc.faults, tc.initWin, tc.maxFrame)
}

// c01FireReplay runs one case through the public API against the fault peer.
func c01FireReplay(t testing.TB, p *c01FaultPeer, base string, tc *c01ReplayCase, dir string) (status int, err error) {
	c := C().SetTimeout(15 * time.Second)
	switch tc.proto {
	case "h1":
		c.EnableForceHTTP1()
	case "h2":
		c.EnableForceHTTP2().EnableH2C()
	case "h3":
		c.EnableInsecureSkipVerify().EnableForceHTTP3()
		if c.Transport.t3 != nil {
			c.Transport.t3.TLSClientConfig = &tls.Config{InsecureSkipVerify: true}
		}
	}
	c.httpClient.Jar = nil
	defer c.GetTransport().CloseIdleConnections()
	if tc.proto == "h3" {
		defer func() {
			if c.Transport.t3 != nil {
				c.Transport.t3.Close()
			}
		}()
	}
	if tc.proto == "h1" || tc.proto == "h3" {
		// make the connection a REUSED (cached) one: the transports replay only on those
		if resp, err := c.R().Get(base + "/prime"); err != nil || resp.StatusCode != 200 {
			return 0, fmt.Errorf("priming request failed: %v", err)
		}
	}
	p.mu.Lock()
	p.faults = append([]c01Fault(nil), tc.faults...)
	p.accepted, p.fired, p.frames = nil, nil, nil
	p.mu.Unlock()
	r := c.R().SetHeader("X-A", tc.xa)
	if !strings.HasPrefix(tc.bodyKind, "mp") {
		r.SetHeader("Content-Type", "application/octet-stream")
	}
	if tc.idemKey {
		r.SetHeader("Idempotency-Key", "k-1")
	}
	switch tc.bodyKind {
	case "bytes":
		r.SetBodyBytes(tc.body)
	case "string":
		r.SetBodyString(string(tc.body))
	case "func":
		b := tc.body
		r.SetBody(func() (io.ReadCloser, error) { return io.NopCloser(bytes.NewReader(b)), nil })
	case "filefunc", "file":
		name := filepath.Join(dir, "body.bin")
		if err := os.WriteFile(name, tc.body, 0o600); err != nil {
			t.Fatalf("temp file: %v", err)
		}
		if tc.bodyKind == "filefunc" {
			r.SetBody(func() (io.ReadCloser, error) { return os.Open(name) })
		} else {
			f, err := os.Open(name)
			if err != nil {
				t.Fatalf("temp file: %v", err)
			}
			defer f.Close()
			r.SetBody(f)
		}
	case "reader":
		r.SetBody(&c01ScriptReader{data: append([]byte(nil), tc.body...), sizes: tc.sizes, rec: new([]int)})
	case "mpbuf":
		r.SetFileBytes("f", "b.bin", tc.body)
	case "mpstream":
		r.SetFileBytes("f", "b.bin", tc.body).EnableForceChunkedEncoding()
	}
	resp, err := r.Send(tc.method, base+tc.path)
	if err != nil {
		return 0, err
	}
	return resp.StatusCode, nil
}

func c01ReplayExpectView(tc *c01ReplayCase, host string) string {
	lines := []string{"x-a: " + tc.xa}
	if tc.idemKey {
		lines = append(lines, "idempotency-key: k-1")
	}
	body := tc.body
	if tc.bodyKind == "none" {
		body = nil
	}
	if strings.HasPrefix(tc.bodyKind, "mp") {
		return fmt.Sprintf("%s %s host=%s\n%s\nbody multipart f b.bin %s", tc.method, tc.path, host, strings.Join(lines, "\n"), c01Blob(body))
	}
	return fmt.Sprintf("%s %s host=%s\n%s\nbody %s", tc.method, tc.path, host, strings.Join(lines, "\n"), c01Blob(body))
}

// c01ReplayBodyView: the body as an origin reads it — a multipart/form-data body (random
// boundary) is decoded into its parts.
func c01ReplayBodyView(s *c01RpSeen) string {
	ct := ""
	if v := s.hdr["content-type"]; len(v) > 0 {
		ct = v[0]
	}
	mt, params, err := mime.ParseMediaType(ct)
	if err != nil || mt != "multipart/form-data" {
		return c01Blob(s.body)
	}
	mr := multipart.NewReader(bytes.NewReader(s.body), params["boundary"])
	out := "multipart"
	for {
		part, err := mr.NextPart()
		if err == io.EOF {
			return out
		}
		if err != nil {
			return fmt.Sprintf("%s <broken after %d raw bytes: %v>", out, len(s.body), err)
		}
		b, err := io.ReadAll(part)
		if err != nil {
			return fmt.Sprintf("%s <broken part, %d raw bytes: %v>", out, len(s.body), err)
		}
		out += fmt.Sprintf(" %s %s %s", part.FormName(), part.FileName(), c01Blob(b))
	}
}

func c01ReplaySeenView(s *c01RpSeen) string {
	var lines []string
	for _, k := range []string{"x-a", "idempotency-key"} {
		for _, v := range s.hdr[k] {
			lines = append(lines, k+": "+strings.Trim(v, " \t"))
		}
	}
	sort.Sort(sort.Reverse(sort.StringSlice(lines)))
	return fmt.Sprintf("%s %s host=%s\n%s\nbody %s", s.method, s.ruri, s.host, strings.Join(lines, "\n"), c01ReplayBodyView(s))
}

// TestVerif_C01_replay: transparent transport-level replays. The request a fault peer finally
// accepts must be exactly the described request (complete body, consistent content-length), or
// the call must fail; never a truncated / shifted body.
func TestVerif_C01_replay(t *testing.T) {
	s := c01New(t, "C01", "replay",
		"requests through the public API (body none/bytes/string/GetBody func/GetBody re-opening a file/one-shot scripted reader/one-shot *os.File; sizes 1..200 KiB around the 4 KiB, 16 KiB frame and 64 KiB window boundaries) against fault peers that legally refuse the request before serving it: HTTP/2 (h2c frame-script peer with generated SETTINGS_INITIAL_WINDOW_SIZE / MAX_FRAME_SIZE) RST_STREAM(REFUSED_STREAM | PROTOCOL_ERROR | CANCEL) or graceful GOAWAY below the stream after 0,1,2,3,5 or all DATA frames were consumed, once or twice; HTTP/1.1 a reused keep-alive connection dropped (FIN / RST) after 0..all bytes of the request were read, with / without Idempotency-Key; oracle: at most one request is accepted, success <=> exactly one accepted, and every accepted request shows exactly the described method, target, header values, content-length and body; non-trivial = a fault fired and the request was replayed")
	log.SetOutput(io.Discard)
	defer log.SetOutput(os.Stderr)
	r := s.Rand()
	dir := t.TempDir()
	n := verifh.N(120, 900)
	for _, proto := range []string{"h2", "h1", "h3"} {
		var p *c01FaultPeer
		var base, hostport string
		stop := func() {}
		if proto == "h3" {
			p3 := c01StartH3FaultPeer(t)
			p, base, hostport, stop = &p3.c01FaultPeer, "https://"+p3.addr, p3.addr, p3.stop
		} else {
			p = c01StartFaultPeer(t, proto)
			base, hostport, stop = "http://"+p.ln.Addr().String(), p.ln.Addr().String(), p.stop
		}
		cases := n
		if proto == "h3" {
			cases = n / 2 // every case costs a QUIC handshake
		}
		for i := 0; i < cases; i++ {
			tc := c01GenReplay(r, proto, i)
			p.initWin, p.maxFrame = tc.initWin, tc.maxFrame
			id := fmt.Sprintf("replay-%s-%d", proto, i)
			s.Begin(id, tc.human())
			t0 := time.Now()
			status, err := c01FireReplay(t, p, base, tc, dir)
			if d := time.Since(t0); d > 900*time.Millisecond {
				s.Count(proto + ":slow>0.9s")
				t.Logf("slow case (%v): %s err=%v", d, tc.human(), err)
			}
			p.mu.Lock()
			accepted := append([]*c01RpSeen(nil), p.accepted...)
			fired := append([]c01Fired(nil), p.fired...)
			p.mu.Unlock()
			var acc []*c01RpSeen
			for _, a := range accepted {
				if a.ruri != "/prime" {
					acc = append(acc, a)
				}
			}
			ok, detail := true, ""
			want := c01ReplayExpectView(tc, hostport)
			for k, a := range acc {
				got := c01ReplaySeenView(a)
				if got != want {
					ok = false
					detail += fmt.Sprintf("accepted request %d differs:\n%s\n--- expected:\n%s\n", k+1, got, want)
				}
				if a.cl != "" && a.cl != fmt.Sprint(len(a.body)) {
					ok = false
					detail += fmt.Sprintf("accepted request %d: content-length %q with %d body bytes\n", k+1, a.cl, len(a.body))
				}
				if a.cl != "" && !strings.HasPrefix(tc.bodyKind, "mp") && a.cl != fmt.Sprint(len(tc.body)) {
					ok = false
					detail += fmt.Sprintf("accepted request %d: content-length %q, described body has %d bytes\n", k+1, a.cl, len(tc.body))
				}
			}
			success := err == nil && status == 200
			if len(acc) > 1 {
				ok = false
				detail += fmt.Sprintf("%d requests accepted\n", len(acc))
			}
			if success != (len(acc) == 1) {
				ok = false
				detail += fmt.Sprintf("call result (status=%d err=%v) but %d requests accepted\n", status, err, len(acc))
			}
			if err != nil && strings.Contains(err.Error(), "priming request failed") {
				s.Count(proto + ":prime-failed")
				continue
			}
			if err != nil && len(accepted) == 0 && len(fired) == 0 && (strings.Contains(err.Error(), "dial tcp") || strings.Contains(err.Error(), "cannot assign requested address")) {
				// the loopback dial itself failed (ephemeral ports exhausted on a busy machine):
				// not a verdict on the code
				s.Count(proto + ":skipped:dial-error")
				continue
			}
			replayed := len(fired) > 0 && success
			class := ""
			if !ok && c01OneShotKinds[tc.bodyKind] && len(fired) > 0 {
				class = "oneshot-body-replayed"
			}
			s.Count(proto + ":fired=" + fmt.Sprint(len(fired)))
			if replayed {
				s.Count(proto + ":replayed")
				if tc.bodyKind != "none" {
					s.Count(proto + ":replayed-with-body")
					if fired[0].frames > 0 && (proto != "h1" && fired[0].bytes > 0 || proto == "h1" && fired[0].frames > 200) {
						s.Count(proto + ":replayed-after-body-partly-consumed")
					}
				}
				for _, f := range fired {
					s.Count(proto + ":replayed:" + f.kind)
				}
			}
			if len(fired) > 0 && !success {
				s.Count(proto + ":failed-after-fault")
			}
			if len(fired) > 1 && success {
				s.Count(proto + ":replayed-twice")
			}
			s.Observe(id, ok, class, replayed, tc.human()+fmt.Sprintf(" fired=%v status=%d err=%v", fired, status, err), detail)
			// HTTP/2, body absent or rewindable: the outcome is determined by the faults alone —
			// judged by the Lean model of the retry loop (Req.Replay.h2Run) as well
			if mk, det := map[string]string{"none": "none", "bytes": "rew", "string": "rew", "func": "rew", "filefunc": "rew"}[tc.bodyKind]; det && proto == "h2" {
				var toks []string
				for _, f := range fired {
					toks = append(toks, map[string]string{"refused": "R", "goaway": "G", "proto": "P", "cancel": "O"}[f.kind]+fmt.Sprint(f.bytes))
				}
				toks = append(toks, "A")
				impl := "failed"
				if success && len(acc) == 1 {
					impl = "accepted " + c01Blob(acc[0].body)
				}
				s.Count("h2:model-judged")
				s.Case("c01h2retry 1 "+mk+" "+strings.Join(toks, ",")+" "+fmt.Sprintf("gen.%d.%d.%d", len(tc.body), tc.ga, tc.gb), impl, true, "", replayed, tc.human())
			}
			// HTTP/3: the peer closed the cached connection under the request — judged by the model
			// of RoundTripper.RoundTripOpt (Req.Replay.h3Run) as well; every kind the model knows.
			// An application-level close reaches RoundTripOpt as *http3.Error (the single-connection
			// round tripper replaces the quic.ApplicationError), which isConnectionError does not
			// recognise: error class "other" — not retried, whatever the request (notes/C01.md).
			if mk, det := map[string]string{"none": "none", "bytes": "rew", "string": "rew", "func": "rew", "filefunc": "rew", "reader": "one", "file": "one"}[tc.bodyKind]; det && proto == "h3" {
				idem := tc.idemKey || tc.method == "GET" || tc.method == "HEAD"
				var toks []string
				for _, f := range fired {
					toks = append(toks, fmt.Sprintf("1O:%d", f.bytes))
				}
				toks = append(toks, "0A:0")
				impl := "failed"
				if success && len(acc) == 1 {
					impl = "accepted " + c01Blob(acc[0].body)
				}
				s.Count("h3:model-judged")
				s.Case("c01h3retry 1 1 "+mk+" "+c01b(idem)+" "+strings.Join(toks, ",")+" "+fmt.Sprintf("gen.%d.%d.%d", len(tc.body), tc.ga, tc.gb), impl, true, "", replayed, tc.human())
			}
		}
		stop()
	}
	s.Need(t, "h2:replayed", "h2:replayed-with-body", "h2:replayed-after-body-partly-consumed", "h2:replayed:refused", "h2:replayed:goaway",
		"h2:failed-after-fault", "h1:replayed", "h1:replayed-with-body", "h1:replayed-after-body-partly-consumed", "h1:failed-after-fault",
		"h3:failed-after-fault", "h3:model-judged")
	s.Finish()
}
