//go:build verif

package req

import (
	"fmt"
	"io"
	"math/rand"
	"net/http"
	"os"
	"strings"
	"testing"

	"github.com/imroc/req/v3/internal/charsets"
	"github.com/imroc/req/v3/internal/verifh"
	"golang.org/x/text/encoding"
)

// finding class of the pinned tree's peekRead (n = len(p) padding, first chunk decoded on its
// own, sniffing the whole caller buffer): set only when the implementation answers exactly
// what the Lean model of the PRE-PATCH code (`c15legacy`) predicts and that differs from the
// patched model.
const c15LegacyClass = "peekread-legacy"

// c15DefaultTypes is the oracle's own copy of the content types auto-decoding applies to by
// default.
var c15DefaultTypes = []string{"text", "json", "xml", "html", "java"}

type c15Settings struct {
	kind    string   // default | list | all | disable | custom | reenable | direct | prog
	list    []string // kind list
	custom  int      // kind custom: which function
	verdict bool     // custom function's verdict on the content type (filled by apply)
	// kind prog: a program of setter calls / clonings over a family of clients; the response is
	// handled by member `use` (zz_verif_c15_settings_test.go)
	prog []c15FamOp
	use  int
}

var c15CustomFuncs = []func(string) bool{
	func(ct string) bool { return strings.HasSuffix(ct, "+verif") },
	func(ct string) bool { return len(ct)%2 == 0 },
	func(ct string) bool { return strings.Contains(ct, "charset") },
}

// c15Apply configures a real client through the public setters and returns the transport that
// handles the response (the client's own, or that of the family member a program selects).
func c15Apply(c *Client, st *c15Settings, ct string) *Transport {
	if st.kind == "prog" {
		return c15RunProg(c, false, st.prog)[st.use].t
	}
	c15ApplyKind(c, st, ct)
	return c.Transport
}

func c15ApplyKind(c *Client, st *c15Settings, ct string) {
	switch st.kind {
	case "list":
		c.SetAutoDecodeContentType(st.list...)
	case "all":
		c.SetAutoDecodeAllContentType()
	case "disable":
		c.DisableAutoDecode()
	case "custom":
		f := c15CustomFuncs[st.custom]
		c.SetAutoDecodeContentTypeFunc(f)
		st.verdict = f(ct)
	case "reenable":
		c.DisableAutoDecode()
		c.EnableAutoDecode()
	}
}

// c15ApplyGlobal does the same through the package-level wrappers (client_wrapper.go), which
// act on the default client; the returned client is a fresh default client installed for
// this case only.
func c15ApplyGlobal(st *c15Settings, ct string) (t *Transport, restore func()) {
	old := defaultClient
	SetDefaultClient(C())
	restore = func() { SetDefaultClient(old) }
	if st.kind == "prog" {
		return c15RunProg(defaultClient, true, st.prog)[st.use].t, restore
	}
	switch st.kind {
	case "list":
		SetAutoDecodeContentType(st.list...)
	case "all":
		SetAutoDecodeAllContentType()
	case "disable":
		DisableAutoDecode()
	case "custom":
		f := c15CustomFuncs[st.custom]
		SetAutoDecodeContentTypeFunc(f)
		st.verdict = f(ct)
	case "reenable":
		DisableAutoDecode()
		EnableAutoDecode()
	}
	return defaultClient.Transport, restore
}

func (st *c15Settings) filterArg(ct string) (disable string, filter string) {
	switch st.kind {
	case "prog":
		dis, f := c15ProgEffective(st.prog, st.use)
		disable = map[bool]string{false: "0", true: "1"}[dis]
		switch {
		case f == nil:
			return disable, "default"
		case f.k == 'A':
			return disable, "all"
		case f.k == 'L':
			return disable, "list:" + verifh.HexList(f.list)
		}
		return disable, map[bool]string{false: "custom:0", true: "custom:1"}[c15FilterVerdict(f, ct)]
	case "list":
		return "0", "list:" + verifh.HexList(st.list)
	case "all", "direct":
		return "0", "all"
	case "disable":
		return "1", "default"
	case "custom":
		if st.verdict {
			return "0", "custom:1"
		}
		return "0", "custom:0"
	}
	return "0", "default"
}

// selected: the oracle's independent reading of "auto-decode is active for this content type".
func (st *c15Settings) selected(ct string, ae string) bool {
	if st.kind == "direct" {
		return true
	}
	if st.kind == "disable" || ae != "" {
		return false
	}
	switch st.kind {
	case "prog":
		dis, f := c15ProgEffective(st.prog, st.use)
		return !dis && c15FilterVerdict(f, ct)
	case "list":
		for _, x := range st.list {
			if strings.Contains(ct, x) {
				return true
			}
		}
		return false
	case "all":
		return true
	case "custom":
		return st.verdict
	}
	for _, x := range c15DefaultTypes {
		if strings.Contains(ct, x) {
			return true
		}
	}
	return false
}

type c15Case struct {
	st    c15Settings
	ae    string
	ct    string
	body  string
	segs  []string
	term  error
	lwt   bool
	bufs  []int
	tail  int
	dirty []byte
	// expected HTML prescan verdict for a sniffed content (nil: ask the real FindEncoding — used
	// by the malformed stream, where the harness has no independent expectation)
	prescan func(content string) (encoding.Encoding, string)
	// encodings a meta tag / BOM of this body may legitimately select (oracle, peek path)
	cands []encoding.Encoding
	tag   string
	// configure through the package-level wrappers acting on the default client
	global bool
	// 0: the client's own Debugf (a closure that is silent unless DebugLog is on), 1: a live debug
	// function (every message is formatted), 2: no debug function at all (a bare Transport)
	debug int
}

type c15Res struct {
	line, legacyLine, impl, human string
	ok                            bool
	nontriv                       bool
	detail                        string
	decoder                       string // Lean decoder id that applies (header or sniffed), "" = none
	// a charset whose decoder keeps a shift state between characters (ISO-2022-JP) was sniffed:
	// the pinned code then carries that state (but not the pending bytes) from the first chunk
	// to the rest, which the stateless legacy model does not reproduce byte for byte
	stateful bool
}

func c15TermName(e error) string {
	if e == io.EOF {
		return "eof"
	}
	return "err"
}

// c15UsesTable: would a decoder without a Lean model (oracle strings) be applied to this case,
// by the patched or by the pinned code? The table decoder of the driver produces its output
// at the end of the stream only, so such cases must end in a clean EOF.
func c15UsesTable(cs *c15Case) bool {
	ct := cs.ct
	if cs.st.kind == "direct" {
		ct = ""
	}
	_, hdrCS, hasCS, _ := c15MediaParse(ct)
	if hasCS {
		if e := c15Lookup(hdrCS); e != nil && c15DecID(e) == "tbl" {
			return true
		}
	}
	first, bufLen, sniffs := c15FirstChunk(cs.segs, io.EOF, cs.lwt, cs.bufs, cs.tail)
	if !sniffs {
		return false
	}
	if name, e := c15ExpectedBOM(first); name == "" || e == nil {
		var pe encoding.Encoding
		if cs.prescan != nil {
			pe, _ = cs.prescan(first)
		} else {
			pe, _ = charsets.FindEncoding([]byte(first))
		}
		if pe != nil && c15DecID(pe) == "tbl" {
			return true
		}
	}
	p := make([]byte, bufLen)
	c15Fill(p, cs.dirty)
	copy(p, first)
	if le, _ := charsets.FindEncoding(p); le != nil && c15DecID(le) == "tbl" {
		return true
	}
	return false
}

// c15Run runs one case on the real code and renders the model lines.
func c15Run(cs *c15Case) c15Res {
	var res c15Res
	if cs.term != io.EOF && c15UsesTable(cs) {
		cs.term = io.EOF
	}
	// ---- implementation
	var tr *Transport
	if cs.global {
		var restore func()
		tr, restore = c15ApplyGlobal(&cs.st, cs.ct)
		defer restore()
	} else {
		tr = c15Apply(C(), &cs.st, cs.ct)
	}
	switch cs.debug {
	case 1:
		tr.Debugf = func(format string, v ...interface{}) { _ = fmt.Sprintf(format, v...) }
	case 2:
		tr.Debugf = nil
	}
	src := newC15Src(cs.segs, cs.term, cs.lwt)
	var body io.ReadCloser
	setupPanic := ""
	if cs.st.kind == "direct" {
		body = newAutoDecodeReadCloser(src, tr)
	} else {
		h := http.Header{}
		if cs.ct != "" {
			h.Set("Content-Type", cs.ct)
		}
		if cs.ae != "" {
			h.Set("Accept-Encoding", cs.ae)
		}
		r := &http.Response{Header: h, Body: src}
		if ptxt, panicked := verifh.Safely(func() { tr.autoDecodeResponseBody(r) }); panicked {
			setupPanic = "panic in autoDecodeResponseBody: " + ptxt
		}
		body = r.Body
	}
	var out []byte
	var term, anomaly string
	if setupPanic != "" {
		term = "panic"
	} else {
		out, term, anomaly = c15Drain(body, cs.bufs, cs.tail, cs.dirty)
	}
	kind := "?"
	switch b := body.(type) {
	case *c15Src:
		kind = "raw"
	case *decodeReaderCloser:
		kind = "hdr"
	case *autoDecodeReadCloser:
		f := func(x bool) string {
			if x {
				return "1"
			}
			return "0"
		}
		kind = "auto:" + f(b.detected) + f(b.decodeReader != nil) + f(b.peek != nil)
	}
	res.impl = verifh.Hex(string(out)) + " " + term + " " + kind

	// ---- model lines
	disable, filter := cs.st.filterArg(cs.ct)
	ct, ae := cs.ct, cs.ae
	if cs.st.kind == "direct" {
		ct, ae = "", ""
	}
	mp, hdrCS, hasCS, _ := c15MediaParse(ct)
	var hdrEnc encoding.Encoding
	if hasCS {
		hdrEnc = c15Lookup(hdrCS)
	}
	lk := c15DecID(hdrEnc)
	first, bufLen, sniffs := c15FirstChunk(cs.segs, cs.term, cs.lwt, cs.bufs, cs.tail)
	var tblF, tblL c15Tbl
	var preF, preL c15Pre
	if hdrEnc != nil {
		tblF.addFor(hdrEnc, cs.body)
		tblL.addFor(hdrEnc, cs.body)
	}
	var sniffEnc encoding.Encoding // what the harness expects the sniffer to select (nil: nothing)
	if sniffs {
		// patched code: the sniffer sees exactly the bytes read
		bomName, bomEnc := c15ExpectedBOM(first)
		var pe encoding.Encoding
		var pn string
		if cs.prescan != nil {
			pe, pn = cs.prescan(first)
		} else {
			pe, pn = charsets.FindEncoding([]byte(first))
		}
		preF.add(first, pe, pn)
		if bomName != "" {
			sniffEnc = bomEnc
		} else {
			sniffEnc = pe
		}
		if sniffEnc != nil && hdrEnc == nil {
			tblF.addFor(sniffEnc, cs.body)
		}
		if sniffEnc != nil && c15EncName(sniffEnc) == "ISO-2022-JP" {
			res.stateful = true
		}
		// pinned code: the sniffer sees the whole caller buffer (data + stale tail)
		p := make([]byte, bufLen)
		c15Fill(p, cs.dirty)
		copy(p, first)
		le, ln := charsets.FindEncoding(p)
		preL.add(string(p), le, ln)
		if le != nil && c15EncName(le) == "ISO-2022-JP" {
			res.stateful = true
		}
		if le != nil && hdrEnc == nil {
			tblL.addFor(le, first)
			tblL.addFor(le, cs.body[len(first):])
		}
	}
	rest := func(pre, tbl string) string {
		return strings.Join([]string{verifh.Hex(ae), verifh.Hex(ct), mp, lk, pre, tbl,
			verifh.HexList(cs.segs), c15TermName(cs.term), map[bool]string{false: "0", true: "1"}[cs.lwt],
			verifh.IntList(cs.bufs), fmt.Sprint(cs.tail)}, " ")
	}
	common := func(pre, tbl string) string { return disable + " " + filter + " " + rest(pre, tbl) }
	// "C": the model runs its own (concrete) HTML prescan on the sniffed bytes; the harness' expectation
	// (preF) only chooses which x/text transcodings are sent along as oracle strings
	res.line = "c15read " + common("C", tblF.String())
	if cs.st.kind == "prog" {
		// the MODEL computes the configuration from the program (Req.Decode.runFam)
		res.line = "c15readp " + c15ProgString(cs.st.prog, cs.ct) + " " + fmt.Sprint(cs.st.use) + " " + rest("C", tblF.String())
	}
	dirty := cs.dirty
	if len(dirty) == 0 {
		dirty = []byte{0}
	}
	res.legacyLine = "c15legacy " + common(preL.String(), tblL.String()) + " " + verifh.Hex(string(dirty))

	// ---- independent property oracle: output ∈ {original, x/text transcoding of the WHOLE original}
	sel := cs.st.selected(ct, ae)
	var allowed []string
	var why string
	switch {
	case !sel:
		allowed, why = []string{cs.body}, "content type not selected: body must be untouched"
	case hasCS && (strings.Contains(strings.ToLower(hdrCS), "utf-8") || strings.Contains(strings.ToLower(hdrCS), "utf8")):
		allowed, why = []string{cs.body}, "Content-Type declares utf-8: body must be untouched"
	case hasCS && hdrEnc != nil:
		allowed, why = []string{c15Transcode(hdrEnc, cs.body)}, "Content-Type charset must be applied"
	case hasCS:
		allowed, why = []string{cs.body}, "unsupported Content-Type charset: body must be untouched"
	default:
		allowed = []string{cs.body}
		for _, e := range cs.cands {
			if e != nil {
				allowed = append(allowed, c15Transcode(e, cs.body))
			}
		}
		why = "sniffing: original or the whole-body transcoding from a declared charset"
	}
	res.ok = true
	switch {
	case anomaly != "":
		res.ok, res.detail = false, anomaly
	case term == "panic":
		res.ok, res.detail = false, "panic while reading the body"
		if setupPanic != "" {
			res.detail = setupPanic
		}
	case term == "eof":
		if cs.term != io.EOF {
			res.ok, res.detail = false, "source error turned into EOF"
		} else if !c15In(string(out), allowed) {
			res.ok, res.detail = false, why
		}
	case term == "err":
		if cs.term == io.EOF {
			res.ok, res.detail = false, "read error on a clean stream"
		} else if !c15IsPrefixOfAny(string(out), allowed) {
			res.ok, res.detail = false, why+" (prefix, stream ended in an error)"
		}
	default:
		res.ok, res.detail = false, "stream never ended"
	}
	res.nontriv = sel && len(cs.body) > 0 && (hdrEnc != nil || sniffEnc != nil)
	if sel && hdrEnc != nil {
		res.decoder = "hdr-" + c15DecID(hdrEnc)
	} else if sel && !hasCS && sniffEnc != nil {
		res.decoder = "sniff-" + c15DecID(sniffEnc)
	}
	stName := cs.st.kind
	if stName == "prog" {
		stName = "prog[" + c15ProgHuman(cs.st.prog, cs.st.use) + "]"
	}
	res.human = fmt.Sprintf("%s settings=%s ct=%q ae=%q body=%s segs=%d term=%s/lwt=%v bufs=%v tail=%d dirty=%x… -> %s %s %s",
		cs.tag, stName, cs.ct, cs.ae, c15Short(cs.body), len(cs.segs), c15TermName(cs.term), cs.lwt, cs.bufs, cs.tail,
		cs.dirty[:min(4, len(cs.dirty))], c15Short(string(out)), term, kind)
	if !res.ok {
		res.human += " ORACLE: " + res.detail
	}
	return res
}

var c15ContentTypes = []string{
	"text/html", "text/html", "text/html", "text/plain", "application/json", "application/xml", "text/xml",
	"application/xhtml+xml", "application/javascript", "TEXT/HTML", "image/png", "application/octet-stream",
	"application/pdf", "", "text/html; foo=bar", "application/vnd.api+json", "text/html;", "text/html; charset",
}

var c15Sizes = []int{0, 1, 2, 3, 10, 68, 100, 255, 256, 257, 300, 511, 512, 513, 700, 1023, 1024, 1025, 1500, 2048}
var c15BigSizes = []int{4095, 4096, 4097, 5000, 8193}
var c15BufSizes = []int{0, 1, 2, 3, 5, 16, 64, 100, 511, 512, 513, 1023, 1024, 1025, 4096}
var c15Tails = []int{1, 2, 3, 7, 64, 512, 513, 4096, 8192}
var c15StaleMeta = []byte(`<meta charset="gbk"><meta charset="gbk">`)

func c15PickSettings(r *rand.Rand) c15Settings {
	switch r.Intn(20) {
	case 0, 1:
		return c15Settings{kind: "list", list: verifh.Pick(r, [][]string{{"html"}, {"json", "xml"}, {"text"}, {"png"}, {""}, {}, {"plain", "octet"}})}
	case 2, 3:
		return c15Settings{kind: "all"}
	case 4:
		return c15Settings{kind: "disable"}
	case 5, 6:
		return c15Settings{kind: "custom", custom: r.Intn(len(c15CustomFuncs))}
	case 7:
		return c15Settings{kind: "reenable"}
	case 8, 9, 10, 11:
		return c15Settings{kind: "direct"}
	case 12, 13, 14, 15, 16:
		ops, use := c15GenProg(r, false)
		return c15Settings{kind: "prog", prog: ops, use: use}
	}
	return c15Settings{kind: "default"}
}

func c15PickBufs(r *rand.Rand, n int) ([]int, int, []byte) {
	var bufs []int
	k := r.Intn(4)
	zeros := 0
	for i := 0; i < k; i++ {
		var b int
		switch r.Intn(6) {
		case 0:
			b = verifh.Pick(r, []int{n - 1, n, n + 1})
			if b < 0 {
				b = 0
			}
			if b > 8192 {
				b = 8192
			}
		default:
			b = verifh.Pick(r, c15BufSizes)
		}
		if b == 0 {
			zeros++
			if zeros > 1 {
				b = 1
			}
		}
		bufs = append(bufs, b)
	}
	if n > 4096 && r.Intn(2) == 0 {
		// a first read larger than transform.Reader's 4096-byte source buffer
		bufs = append([]int{8192}, bufs...)
	}
	tail := verifh.Pick(r, c15Tails)
	if n > 1300 && tail < 7 {
		tail = 64
	}
	var dirty []byte
	switch r.Intn(5) {
	case 0:
		dirty = []byte{0}
	case 1:
		dirty = c15StaleMeta
	case 2:
		dirty = []byte(verifh.RandBytes(r, 7, ""))
	default:
		dirty = []byte{0xAA}
	}
	return bufs, tail, dirty
}

func c15PickTerm(r *rand.Rand) (error, bool) {
	term := error(io.EOF)
	if r.Intn(12) == 0 {
		term = errC15Src
	}
	return term, r.Intn(2) == 0
}

// c15GenValid: the mostly-valid stream.
func c15GenValid(r *rand.Rand, count func(string)) *c15Case {
	cs := verifh.Pick(r, c15Charsets)
	var site string
	switch cs.kind {
	case "u16le", "u16be":
		site = verifh.Pick(r, []string{"bom", "bom", "bom", "header", "bom+header-conflict"})
	case "utf8bom":
		site = verifh.Pick(r, []string{"bom", "bom", "metacharset", "header"})
	case "utf8":
		site = verifh.Pick(r, []string{"none", "metacharset", "metahttpequiv", "header", "conflict-header"})
	default:
		site = verifh.Pick(r, []string{"header", "header", "metacharset", "metacharset", "metahttpequiv", "metahttpequiv", "none", "conflict-meta", "conflict-header", "decoy"})
	}
	n := verifh.Pick(r, c15Sizes)
	if r.Intn(25) == 0 {
		n = verifh.Pick(r, c15BigSizes)
	}
	// a class of its own: the FIRST source read is larger than transform.Reader's 4096-byte source
	// buffer and the charset is sniffed from it (the decoder must not keep reading from the caller's
	// buffer, which the caller overwrites after every Read)
	bigFirst := r.Intn(12) == 0
	if bigFirst {
		n = verifh.Pick(r, []int{4097, 4200, 5000, 8193, 12000})
		switch cs.kind {
		case "u16le", "u16be", "utf8bom":
			site = "bom"
		case "utf8":
			site = "metacharset"
		default:
			site = verifh.Pick(r, []string{"metacharset", "metahttpequiv", "conflict-meta"})
		}
	}
	declAt := 0
	switch r.Intn(4) {
	case 0:
		declAt = verifh.Pick(r, []int{440, 470, 480, 490, 500, 505, 950, 990, 1000, 1010})
	case 1:
		declAt = r.Intn(n + 1)
	}
	bodySite := site
	switch site {
	case "header", "bom", "none", "bom+header-conflict":
		bodySite = "none"
	case "conflict-header":
		bodySite = verifh.Pick(r, []string{"metacharset", "metahttpequiv"})
	}
	b := c15MakeBody(r, cs, bodySite, n, declAt)
	c := &c15Case{body: b.body, tag: "valid/" + cs.label + "/" + site}
	c.st = c15PickSettings(r)
	c.global = r.Intn(8) == 0
	if c.global {
		count("settings-via-global-wrappers")
	}
	c.debug = verifh.Pick(r, []int{0, 0, 0, 0, 1, 2})
	count(fmt.Sprintf("debugf:%d", c.debug))
	// content type
	ct := verifh.Pick(r, c15ContentTypes)
	hdrLabel := ""
	switch site {
	case "header":
		hdrLabel = cs.label
	case "conflict-header", "bom+header-conflict":
		hdrLabel = verifh.Pick(r, []string{"big5", "gbk", "windows-1252", "utf-8", "shift_jis", "utf-16be", "x-unknown-charset", "ibm437", "utf8", "UTF-8"})
	}
	if hdrLabel != "" {
		base := verifh.Pick(r, []string{"text/html", "text/plain", "application/json", "application/xml", "image/png"})
		ct = base + verifh.Pick(r, []string{"; charset=", ";charset=", "; CHARSET=", "; foo=bar; charset="}) +
			verifh.Pick(r, []string{hdrLabel, `"` + hdrLabel + `"`, strings.ToUpper(hdrLabel)})
		if r.Intn(30) == 0 {
			ct += "; charset=koi8-r" // duplicate parameter: mime parse error -> sniffing
		}
	}
	c.ct = ct
	if r.Intn(25) == 0 {
		c.ae = verifh.Pick(r, []string{"gzip", "identity", "br"})
	}
	mode := r.Intn(8)
	c.segs = c15Segment(r, b, mode)
	c.term, c.lwt = c15PickTerm(r)
	c.bufs, c.tail, c.dirty = c15PickBufs(r, len(b.body))
	if bigFirst && len(b.body) > 4096 {
		k := 4097 + r.Intn(len(b.body)-4096)
		c.segs = []string{b.body[:k]}
		if k < len(b.body) {
			c.segs = append(c.segs, b.body[k:])
		}
		c.bufs = append([]int{verifh.Pick(r, []int{k, k + 1, 8192, 16384, len(b.body) + 512})}, c.bufs...)
		if c.bufs[0] < k {
			c.bufs[0] = k
		}
		c.ct = verifh.Pick(r, []string{"text/html", "text/html", "application/xhtml+xml", "text/plain"})
		count("first-read>4096-sniffed")
	}
	c.prescan = func(content string) (encoding.Encoding, string) { return c15ExpectedPrescan(b, len(content)) }
	// the only charset a sniff may legitimately apply: the one a scan of the WHOLE body selects (BOM first,
	// else the first complete supported declaration) — split_only_affects_meta_detection
	if bn, e := c15ExpectedBOM(b.body); bn != "" {
		if e != nil {
			c.cands = append(c.cands, e)
		}
	} else if e, _ := c15ExpectedPrescan(b, len(b.body)); e != nil {
		c.cands = append(c.cands, e)
	}
	count("site:" + site)
	count("kind:" + cs.kind)
	count(fmt.Sprintf("segmode:%d", mode))
	return c
}

var c15Frags = []string{"<meta", " charset=", `"gbk"`, "'big5'", "shift_jis", ">", "/>", "<!--", "-->", " http-equiv=", `"Content-Type"`,
	" content=", `"text/html; charset=euc-kr"`, "<title>", "</title>", "<script>", "</script>", "\xff\xfe", "\xfe\xff", "\xef\xbb\xbf",
	" ", "\n", "=", `"`, "<", "x-bogus", "utf-8", "utf-16le", "\x00", "\xc4\xe3\xba\xc3", "windows-1251", "<html>", "<head>", "<body>", "replacement"}

// c15GenMalformed: the malformed / boundary stream (no independent prescan expectation: the
// sniffer's verdict is taken from the real FindEncoding; the candidates for the oracle are
// the verdicts of FindEncoding on every prefix of the body).
func c15GenMalformed(r *rand.Rand, count func(string)) *c15Case {
	c := &c15Case{}
	c.st = c15PickSettings(r)
	c.ct = verifh.Pick(r, c15ContentTypes)
	var body string
	switch r.Intn(3) {
	case 0: // random bytes under a header-declared charset
		n := verifh.Pick(r, []int{0, 1, 2, 3, 4, 5, 17, 64, 255, 511, 512, 513, 600})
		body = verifh.RandBytes(r, n, verifh.Pick(r, []string{"", "", "\xd8\xdc\x00\x41\xff\xfe\xdb\xdf", "ab\x80\x81\xff"}))
		label := verifh.Pick(r, []string{"utf-16le", "utf-16be", "utf-16", "windows-1252", "iso-8859-1", "gbk", "big5", "shift_jis", "euc-kr", "gb18030", "iso-2022-jp", "euc-jp", "replacement", "x-user-defined", "ibm437", "macintosh", "utf-7", "utf-32", "cesu-8", "x-unknown"})
		c.ct = "text/html; charset=" + label
		c.tag = "malformed/random-bytes/" + label
		count("malformed:random-bytes")
	case 1: // a valid body with bytes of its head mutated
		cs := verifh.Pick(r, c15Charsets[:20])
		b := c15MakeBody(r, cs, verifh.Pick(r, []string{"metacharset", "metahttpequiv", "conflict-meta", "decoy"}), verifh.Pick(r, []int{60, 100, 300, 513, 1025}), 0)
		bb := []byte(b.body)
		for i := 0; i < 1+r.Intn(3) && len(bb) > 0; i++ {
			at := r.Intn(min(len(bb), 120))
			switch r.Intn(3) {
			case 0:
				bb[at] = byte(r.Intn(256))
			case 1:
				bb[at] = verifh.Pick(r, []byte{'<', '>', '"', '\'', '=', ' ', '-', '/'})
			default:
				bb = append(bb[:at], bb[at+1:]...)
			}
		}
		body = string(bb)
		c.tag = "malformed/mutated/" + cs.label
		count("malformed:mutated")
	default: // tag soup
		var sb strings.Builder
		for i := 0; i < 2+r.Intn(14); i++ {
			sb.WriteString(verifh.Pick(r, c15Frags))
		}
		body = sb.String()
		c.tag = "malformed/soup"
		count("malformed:soup")
	}
	// entity unescaping of attribute values (x/net/html) is outside the model: no '&'
	body = strings.ReplaceAll(body, "&", "+")
	c.body = body
	fake := c15Body{body: body}
	for i := 1; i < len(body); i++ {
		if body[i] >= 0x80 {
			fake.mbAt = append(fake.mbAt, i)
		}
	}
	c.segs = c15Segment(r, fake, verifh.Pick(r, []int{0, 1, 2, 3, 6, 6}))
	c.term, c.lwt = c15PickTerm(r)
	c.bufs, c.tail, c.dirty = c15PickBufs(r, len(body))
	seen := map[string]bool{}
	for m := 1; m <= len(body); m++ {
		e, name := charsets.FindEncoding([]byte(body[:m]))
		if e != nil && !seen[name] {
			seen[name] = true
			c.cands = append(c.cands, e)
		}
	}
	return c
}

// c15Witnesses: the counter-examples proved in lean/Req/Props/C15.lean against the model of
// the pinned tree, replayed on the implementation (they fail on the pinned tree — that is the
// known finding — and pass once fixes/C15-1 is applied).
func c15Witnesses() []*c15Case {
	direct := c15Settings{kind: "direct"}
	return []*c15Case{
		// legacy_pads: a 4-byte UTF-16LE body read into an 8-byte dirty buffer
		{st: direct, body: "\xff\xfeh\x00", segs: []string{"\xff\xfeh\x00"}, term: io.EOF, bufs: []int{8}, tail: 8, dirty: []byte{0xAA}, tag: "witness/legacy_pads",
			cands: []encoding.Encoding{c15Lookup("utf-16le")}},
		// legacy_splits_character: the same body arriving as 3 + 1 bytes
		{st: direct, body: "\xff\xfeh\x00", segs: []string{"\xff\xfeh", "\x00"}, term: io.EOF, bufs: []int{3}, tail: 8, dirty: []byte{0xAA}, tag: "witness/legacy_splits_character",
			cands: []encoding.Encoding{c15Lookup("utf-16le")}},
		// legacy_sniffs_stale_buffer: plain ASCII read into a buffer that still holds a BOM at offset 0?
		// (the stale bytes must follow the data: a 1-byte body 0xff into a buffer whose 2nd byte is 0xfe)
		{st: direct, body: "\xff", segs: []string{"\xff"}, term: io.EOF, bufs: []int{2}, tail: 8, dirty: []byte{0xFE}, tag: "witness/legacy_sniffs_stale_buffer"},
		// the DESIGN.md section 5 row 8 input: a 68-byte GBK page with <meta charset>, 512-byte buffer
		func() *c15Case {
			e := c15Lookup("gbk")
			body := c15Encode(e, `<html><head><meta charset="gbk"></head><body>我是roc，你好世界</body></html>`)
			return &c15Case{st: c15Settings{kind: "default"}, ct: "text/html", body: body, segs: []string{body}, term: io.EOF, bufs: []int{512}, tail: 512,
				dirty: []byte{0}, tag: "witness/gbk-meta-512", cands: []encoding.Encoding{e},
				prescan: func(content string) (encoding.Encoding, string) {
					if len(content) >= 32 {
						return e, "gbk"
					}
					return nil, ""
				}}
		}(),
	}
}

// TestVerif_C15_read: real autoDecodeResponseBody / autoDecodeReadCloser vs the Lean model.
func TestVerif_C15_read(t *testing.T) {
	s := verifh.New(t, "C15", "read",
		"bodies in 24 charsets (gbk gb2312 gb18030 big5 shift_jis euc-kr euc-jp iso-2022-jp windows-125x iso-8859-x koi8-r utf-16le/be+BOM utf-8 +/-BOM) x declaration site "+
			"(Content-Type header, meta charset, meta http-equiv, BOM, none, conflicting header/meta/BOM, decoys) x body lengths 0..8193 around 512/1024/4096 x declaration offset "+
			"(start, around 512 and 1024, random) x segmentation into source reads (whole, 1/2/3/7-byte, 64..4096, inside multi-byte characters, around the meta tag, random, empty reads, "+
			"data+EOF together or separate, read error at the end) x caller buffers (0,1,2,3,5,..,4096, body length +-1; dirty: 0xAA, zero, stale <meta>, random) x content types x settings "+
			"(default, SetAutoDecodeContentType lists, SetAutoDecodeAllContentType, DisableAutoDecode, Enable after Disable, custom funcs, direct newAutoDecodeReadCloser); plus a malformed stream "+
			"(random bytes under a header charset, mutated meta tags, tag soup). Model: Lean decoders for windows-1252/UTF-16, x/text oracle strings otherwise; the harness states what an HTML prescan "+
			"must find from its own knowledge of the generated declarations. Oracle: output in {original, x/text transcoding of the whole original}. non-trivial = selected, non-empty, a charset applies")
	r := s.Rand()
	n := verifh.N(2400, 30000)
	cnt := map[string]int{}
	count := func(k string) { s.Count(k); cnt[k]++ }
	var all []c15Res
	for _, w := range c15Witnesses() {
		all = append(all, c15Run(w))
		count("witness")
	}
	for i := 0; i < n; i++ {
		var c *c15Case
		if r.Intn(5) == 0 {
			c = c15GenMalformed(r, count)
		} else {
			c = c15GenValid(r, count)
		}
		res := c15Run(c)
		all = append(all, res)
		if c.st.kind == "prog" {
			count("settings-program")
			for _, f := range c15ProgFeatures(c.st.prog, c.st.use) {
				count(f)
				if res.nontriv {
					count(f + ":a-charset-applies")
				}
			}
		}
		parts := strings.Split(res.impl, " ")
		count("impl-kind:" + strings.SplitN(parts[2], ":", 2)[0])
		count("impl-term:" + parts[1])
		if parts[2] == "auto:110" {
			count("sniff:found")
		} else if parts[2] == "auto:100" {
			count("sniff:nothing")
		}
		if !res.ok {
			count("oracle-reject")
		}
		if res.decoder != "" {
			count("decoder:" + res.decoder)
		}
	}
	// classify with the model of the pinned tree
	var fl, ll []string
	for _, a := range all {
		fl = append(fl, a.line)
		ll = append(ll, a.legacyLine)
	}
	if d := os.Getenv("VERIF_C15_DUMP"); d != "" {
		os.WriteFile(d+".final", []byte(strings.Join(fl, "\n")+"\n"), 0o644)
		os.WriteFile(d+".legacy", []byte(strings.Join(ll, "\n")+"\n"), 0o644)
		var hs []string
		for _, a := range all {
			hs = append(hs, a.impl+" | "+a.human)
		}
		os.WriteFile(d+".impl", []byte(strings.Join(hs, "\n")+"\n"), 0o644)
	}
	fa, err1 := verifh.RunModel(fl)
	la, err2 := verifh.RunModel(ll)
	if err1 != nil || err2 != nil {
		t.Fatalf("driver: %v %v", err1, err2)
	}
	for i, a := range all {
		class := ""
		if a.impl != fa[i] && (a.impl == la[i] || (a.stateful && la[i] != fa[i])) {
			class = c15LegacyClass
			count("pinned-tree-behaviour")
		}
		s.Case(a.line, a.impl, a.ok, class, a.nontriv, a.human)
	}
	for _, must := range []string{"site:header", "site:metacharset", "site:metahttpequiv", "site:bom", "site:none", "site:conflict-meta",
		"site:conflict-header", "site:decoy", "kind:mb", "kind:sb", "kind:u16le", "kind:u16be", "kind:utf8", "kind:utf8bom",
		"impl-kind:raw", "impl-kind:hdr", "impl-kind:auto", "sniff:found", "sniff:nothing", "impl-term:eof", "impl-term:err",
		"malformed:random-bytes", "malformed:mutated", "malformed:soup", "segmode:3", "segmode:4",
		"first-read>4096-sniffed", "debugf:1", "debugf:2", "settings-via-global-wrappers", "settings-program", "prog:request-by-a-clone", "prog:cloned-while-switched-off", "prog:cloned-with-filter-set",
		"prog:cloned-off-with-filter-then-switched-on", "prog:several-clones", "decoder:hdr-w1252", "decoder:hdr-u16le", "decoder:hdr-tbl", "decoder:sniff-w1252", "decoder:sniff-u16le", "decoder:sniff-u16be", "decoder:sniff-tbl"} {
		if cnt[must] == 0 {
			t.Errorf("generator never reached bucket %q", must)
		}
	}
	s.Finish()
}
