//go:build verif

package req

// C03 — caller-side processing options that sit between the transport and the caller and
// could swallow a body read error. Every cut lane runs its first request under one of them;
// the oracle is unchanged: truncated ⇒ an error from the call or from reading the body.

import (
	"bytes"
	"math/rand"
	"os"
	"path/filepath"
	"strconv"
	"sync/atomic"
	"time"

	"github.com/imroc/req/v3/internal/verifh"
)

type c03JSON struct {
	V string `json:"v"`
}

// c03Caller: one way of consuming the response.
//
//	auto        auto-read into memory (default client)
//	transformer client has SetResponseBodyTransformer (identity, nil error)
//	output      Request.SetOutput(buffer)
//	outputfile  Request.SetOutputFile(file in a temp dir)
//	callback    SetOutput + SetDownloadCallback
//	result      SetSuccessResult/SetErrorResult (JSON bodies only)
//	dump        client EnableDumpAllTo(buffer)
//	autodecode  charset auto-decoding left on (ASCII text bodies only)
//	retry       SetCommonRetryCount(2) with a condition that never matches
type c03Caller struct {
	mode     string
	pos      string // exchange position of the scripted (cut) response within the call: "" | digest | retried | redirect
	dir      string
	buf      bytes.Buffer
	dumpBuf  bytes.Buffer
	file     string
	okRes    c03JSON
	errRes   c03JSON
	progress int64
}

var c03FileSeq int64

var c03CallerModes = []string{"auto", "auto", "transformer", "transformer", "output", "outputfile", "callback", "dump", "retry"}

func c03PickMode(r *rand.Rand, special string, framing string, bodyLen int) string {
	modes := c03CallerModes
	if special == "json" && (framing == "len" || framing == "chunked") && bodyLen > 0 {
		modes = append(append([]string{}, modes...), "result", "result", "result")
	}
	if special == "ascii" {
		modes = append(append([]string{}, modes...), "autodecode", "autodecode", "autodecode")
	}
	return verifh.Pick(r, modes)
}

// Exchange positions. A call may consist of several exchanges: the scripted (cut / over-long /
// complete) response is then not the answer to the request the caller sent but
//
//	digest    the answer to the AUTHORIZED request of a Digest exchange (client-level
//	          SetCommonDigestAuth; the peer first answers with a 401 challenge),
//	retried   the answer to the LAST attempt of a retried call (retry on status 503; the peer
//	          first answers 503),
//	redirect  the answer to the request http.Client sends after a 302.
//
// By `call_cut_never_success` / C02's `call_final_exchange` the caller must observe exactly what
// a single-exchange call on that response shows, so the model line of the case is unchanged. The
// prelude exchange is complete, body-less and keep-alive: it costs no connection.
var c03Positions = []string{"", "", "", "digest", "digest", "retried", "retried", "redirect"}

// c03PosRand: the round-6 dimensions (exchange position, RST on close-delimited bodies, kind of
// the follow-up request) draw from a stream of their own, so that the case sequences of the older
// dimensions stay what they were for every (VERIF_SEED, tier).
func c03PosRand(lane int64) *rand.Rand {
	return rand.New(rand.NewSource(verifh.Seed()*1000003 + 7919*lane + 6))
}

// c03PickPos: the position for a case. `any` = some byte of the scripted response is delivered
// (with none, the transport itself may replay the request on a fresh connection — a reused
// connection that dies before the first response byte — which is not this lane's subject).
func c03PickPos(r *rand.Rand, mode string, any bool) string {
	pos := verifh.Pick(r, c03Positions)
	if !any || mode == "result" {
		return ""
	}
	if mode == "retry" && pos == "retried" {
		return "digest"
	}
	return pos
}

// c03PreludeH1 is the HTTP/1.1 exchange in front of the scripted one.
func c03PreludeH1(pos string) []byte {
	switch pos {
	case "digest":
		return []byte("HTTP/1.1 401 Unauthorized\r\nWww-Authenticate: Digest realm=\"c03\", nonce=\"5f1c0a77c03\", qop=\"auth\", algorithm=MD5\r\nContent-Length: 0\r\n\r\n")
	case "retried":
		return []byte("HTTP/1.1 503 Service Unavailable\r\nContent-Length: 0\r\n\r\n")
	case "redirect":
		return []byte("HTTP/1.1 302 Found\r\nLocation: /after-redirect\r\nContent-Length: 0\r\n\r\n")
	}
	return nil
}

// c03ApplyPos configures the client for the position.
func c03ApplyPos(c *Client, pos string) {
	switch pos {
	case "digest":
		c.SetCommonDigestAuth("user", "secret")
	case "retried":
		c.SetCommonRetryCount(1).SetCommonRetryFixedInterval(time.Millisecond).SetCommonRetryCondition(func(resp *Response, err error) bool {
			return resp != nil && resp.Response != nil && resp.StatusCode == 503
		})
	}
}

func (cc *c03Caller) position() string {
	if cc == nil {
		return ""
	}
	return cc.pos
}

// prepClient applies the client-level part (stays in force for the second request too).
func (cc *c03Caller) prepClient(c *Client) {
	if cc == nil {
		c.DisableAutoDecode()
		return
	}
	if cc.mode != "autodecode" {
		c.DisableAutoDecode()
	}
	switch cc.mode {
	case "transformer":
		c.SetResponseBodyTransformer(func(raw []byte, _ *Request, _ *Response) ([]byte, error) { return raw, nil })
	case "dump":
		c.EnableDumpAllTo(&cc.dumpBuf)
	case "retry":
		c.SetCommonRetryCount(2).SetCommonRetryCondition(func(*Response, error) bool { return false })
	}
}

// prepRequest applies the request-level part to the FIRST request.
func (cc *c03Caller) prepRequest(rq *Request) {
	if cc == nil {
		return
	}
	switch cc.mode {
	case "output":
		rq.SetOutput(&cc.buf)
	case "outputfile":
		cc.file = filepath.Join(cc.dir, "c03-"+strconv.FormatInt(atomic.AddInt64(&c03FileSeq, 1), 10)+".bin")
		rq.SetOutputFile(cc.file)
	case "callback":
		rq.SetOutput(&cc.buf).SetDownloadCallback(func(info DownloadInfo) { atomic.StoreInt64(&cc.progress, info.DownloadedSize) })
	case "result":
		rq.SetSuccessResult(&cc.okRes).SetErrorResult(&cc.errRes)
	}
}

// savesBody: the body goes to a writer/file instead of Response.Bytes().
func (cc *c03Caller) savesBody() bool {
	return cc != nil && (cc.mode == "output" || cc.mode == "outputfile" || cc.mode == "callback")
}

// saved returns what reached the writer/file.
func (cc *c03Caller) saved() []byte {
	if cc.mode == "outputfile" {
		b, _ := os.ReadFile(cc.file)
		os.Remove(cc.file)
		return b
	}
	return cc.buf.Bytes()
}

// resultNote checks the unmarshalled result of a successful "result" call against the body.
func (cc *c03Caller) resultNote(code int, body []byte) string {
	if cc == nil || cc.mode != "result" {
		return ""
	}
	want := `{"v":"`
	got := cc.okRes.V
	if code >= 400 {
		got = cc.errRes.V
	}
	if code > 299 && code < 400 {
		return ""
	}
	if string(body) != want+got+`"}` {
		return " RESULT-DIFFERS(" + got + ")"
	}
	return ""
}

func (cc *c03Caller) name() string {
	if cc == nil {
		return "auto"
	}
	return cc.mode
}

// c03DoFirst performs the first request of an HTTP/2 / HTTP/3 cut case under the caller mode
// (or as a streaming caller) and renders "ok body=<bytes>" / "fail".
func c03DoFirst(c *Client, url string, stream bool, cc *c03Caller) (first, ferr string) {
	return c03DoFirstM(c, "GET", url, stream, cc)
}

// c03First is what the caller of the first request observed.
type c03First struct {
	ok         bool   // the call and the body read both succeeded
	status     int    // response status when a response head was delivered
	body       []byte // the body (ok) or the bytes delivered before the read error (streaming caller)
	callFailed bool   // the call itself returned an error (no response head)
	err        string
}

// render is the historical "ok body=…" / "fail" form.
func (f c03First) render() (string, string) {
	if f.ok {
		return "ok body=" + string(f.body), ""
	}
	return "fail", f.err
}

// c03DoFirstX performs the first request of an HTTP/2 / HTTP/3 cut case under the caller mode (or
// as a streaming caller, which also reports how many bytes it was handed before a read error).
func c03DoFirstX(c *Client, method, url string, stream bool, cc *c03Caller) (f c03First) {
	rq := c.R()
	if !stream {
		cc.prepRequest(rq)
	}
	var resp *Response
	var err error
	if method == "HEAD" {
		resp, err = rq.Head(url)
	} else {
		resp, err = rq.Get(url)
	}
	if resp != nil && resp.Response != nil {
		f.status = resp.StatusCode
	}
	if err != nil {
		f.callFailed, f.err = true, err.Error()
		return f
	}
	if resp == nil || resp.Response == nil {
		f.callFailed, f.err = true, "nil response without error"
		return f
	}
	if stream {
		var b bytes.Buffer
		_, rerr := b.ReadFrom(resp.Body)
		resp.Body.Close()
		f.body = b.Bytes()
		if rerr != nil {
			f.err = "body read: " + rerr.Error()
			return f
		}
		f.ok = true
		return f
	}
	if resp.Err != nil {
		f.err = resp.Err.Error()
		return f
	}
	f.ok = true
	if cc.savesBody() {
		f.body = cc.saved()
	} else {
		f.body = resp.Bytes()
	}
	return f
}

func c03DoFirstM(c *Client, method, url string, stream bool, cc *c03Caller) (first, ferr string) {
	first = "fail"
	rq := c.R()
	if !stream {
		cc.prepRequest(rq)
	}
	var resp *Response
	var err error
	if method == "HEAD" {
		resp, err = rq.Head(url)
	} else {
		resp, err = rq.Get(url)
	}
	if err != nil {
		return first, err.Error()
	}
	if resp == nil || resp.Response == nil {
		return first, "nil response without error"
	}
	if stream {
		var b bytes.Buffer
		_, rerr := b.ReadFrom(resp.Body)
		resp.Body.Close()
		if rerr != nil {
			return first, "body read: " + rerr.Error()
		}
		return "ok body=" + b.String(), ""
	}
	if resp.Err != nil {
		return first, resp.Err.Error()
	}
	if cc.savesBody() {
		return "ok body=" + string(cc.saved()), ""
	}
	return "ok body=" + string(resp.Bytes()), ""
}
