//go:build verif

package req

import (
	"crypto/tls"
	"fmt"
	"strconv"
	"strings"
	"sync"
	"testing"
	"time"

	"github.com/imroc/req/v3/internal/verifh"
)

// ================================================================= sequences of requests on ONE connection
//
// Every request of a sequence has its own dump configuration and its own writers: none, a
// request-level dumper, a client-level dumper that is kept, replaced (SetCommonDumpOptions),
// re-created (DisableDumpAll + EnableDump) or switched off between two requests. Judged per
// request through the writers: the model's expectedDumpSeq says what each writer must hold after
// the whole sequence (theorem per_request_isolated: a writer only one request uses holds exactly
// that request's selected parts).

type c13SeqStep struct {
	cfg      c13DumpCfg // dumpers in force for this request
	clientOp string     // "keep", "off", "set", "reenable": what happens to the client-level dump before it
	par      bool       // sent concurrently with the next request (HTTP/2, HTTP/3)
	method   string
	path     string
	headers  [][2]string
	body     string
}

func (st c13SeqStep) String() string {
	p := ""
	if st.par {
		p = " ||"
	}
	return fmt.Sprintf("[%s %s client(%s)=%s request=%s%s]", st.method, st.path, st.clientOp, st.cfg.cl.String(), st.cfg.rq.String(), p)
}

var c13SeqNo int

// c13GenSeq draws the dump plan of sequence number c.
func c13GenSeq(s *verifh.Session, c int, allowPar bool) []c13SeqStep {
	r := s.Rand()
	k := 2 + r.Intn(3)
	// the first sequences walk through the basic shapes
	shapes := [][]string{ // per step: client op / request-level yes-no
		{"set-sync", "clone", "set-async"},
		{"set-sync", "clone+rq", "asyncall"},
		{"off+rq", "keep+rq"},
		{"off", "keep+rq"},
		{"off", "set"},
		{"set", "set"},
		{"off+rq", "keep", "keep+rq"},
		{"reenable", "reenable"},
		{"set+rq", "off+rq"},
		{"set", "keep", "off", "keep+rq"},
	}
	var shape []string
	if c < 2*len(shapes) {
		shape = shapes[c%len(shapes)]
		k = len(shape)
	}
	var steps []c13SeqStep
	var cur *c13DumperCfg
	for i := 0; i < k; i++ {
		c13SeqNo++
		st := c13SeqStep{method: "GET", path: fmt.Sprintf("/c13s/%d", c13SeqNo)}
		var op string
		withRq := r.Intn(5) < 3
		if shape != nil {
			op, withRq = strings.TrimSuffix(shape[i], "+rq"), strings.HasSuffix(shape[i], "+rq")
		} else if i == 0 {
			op = verifh.Pick(r, []string{"off", "off", "set", "reenable"})
		} else {
			op = verifh.Pick(r, []string{"keep", "keep", "off", "set", "reenable", "clone", "clone", "asyncall"})
		}
		if op == "asyncall" && cur == nil {
			op = "set" // EnableDumpAllAsync on a client without dump options would dump to stdout
		}
		switch op {
		case "off":
			cur = nil
		case "set", "reenable", "set-sync", "set-async":
			cur = c13GenDumper(s, 10+100*(i+1), r.Intn(16), r.Intn(2) == 0)
			if op == "set-sync" || op == "set-async" {
				cur.async = op == "set-async"
				cur.flags = [4]bool{true, true, true, true}
				op = "set"
			}
			if r.Intn(2) == 0 {
				cur.flags[2] = true // response header: the part a connection-level cache would get wrong
			}
		case "asyncall":
			// EnableDumpAllAsync(): same writers and parts, Async switched on in place
			c2 := *cur
			c2.async = true
			cur = &c2
		case "clone":
			// the following requests are sent from Client.Clone(): same configuration and
			// writers, a dumper (and connection) of its own
		}
		st.clientOp = op
		st.cfg.cl = cur
		if withRq {
			st.cfg.rq = c13GenDumper(s, 20+100*(i+1), r.Intn(16), r.Intn(4) == 0)
			if r.Intn(2) == 0 {
				st.cfg.rq.flags[2] = true
			}
		}
		for j, n := 0, r.Intn(3); j < n; j++ {
			st.headers = append(st.headers, [2]string{"X-Req-" + strconv.Itoa(j), verifh.RandBytes(r, r.Intn(20), "abcdef123") + "."})
		}
		if r.Intn(2) == 0 {
			st.method = verifh.Pick(r, []string{"POST", "PUT"})
			st.body = verifh.RandBytes(r, 1+r.Intn(1200), "abcdefgh{}:\"0123456789")
		}
		steps = append(steps, st)
	}
	if allowPar {
		for i := 0; i+1 < len(steps); i++ {
			// concurrent requests share the client-level writers: only pairs without a
			// client-level dumper run in parallel, each with its own request-level writers
			if steps[i].cfg.cl == nil && steps[i+1].cfg.cl == nil && steps[i+1].clientOp != "set" && steps[i+1].clientOp != "reenable" && steps[i+1].clientOp != "clone" && r.Intn(2) == 0 {
				steps[i].par = true
				i++
			}
		}
	}
	return steps
}

// c13SeqClientOp brings the client-level dump into the state the step asks for and returns the
// client the following requests are sent from. reinit re-applies the lane's protocol setup to a
// clone (Client.Clone does not carry the lanes' h2c dial hook / HTTP/3 test TLS field).
func c13SeqClientOp(cl *Client, st c13SeqStep, log *c13Log, dumpOn bool, reinit func(*Client) *Client) *Client {
	if st.clientOp == "clone" {
		if dumpOn {
			time.Sleep(2 * time.Millisecond)
			c13Flush(cl)
		}
		return reinit(cl.Clone()) // the baseline sequence clones at the same point
	}
	if !dumpOn || st.clientOp == "keep" {
		return cl
	}
	// let the previous exchange finish dumping (write loops dump after they wrote), drain the queue
	time.Sleep(2 * time.Millisecond)
	c13Flush(cl)
	switch st.clientOp {
	case "off":
		if cl.Dump != nil {
			cl.DisableDumpAll()
		}
	case "set":
		cl.SetCommonDumpOptions(st.cfg.cl.options(log))
		cl.EnableDumpAll()
	case "asyncall":
		cl.EnableDumpAllAsync()
	case "reenable":
		if cl.Dump != nil {
			cl.DisableDumpAll()
		}
		cl.EnableDump(st.cfg.cl.options(log))
	}
	return cl
}

func c13SeqSend(cl *Client, st c13SeqStep, base string, log *c13Log, dumpOn bool) c13Result {
	rq := cl.R()
	for _, h := range st.headers {
		rq.SetHeader(h[0], h[1])
	}
	if st.body != "" {
		rq.SetBodyBytes([]byte(st.body))
	}
	if dumpOn && st.cfg.rq != nil {
		rq.SetDumpOptions(st.cfg.rq.options(log)).EnableDump()
	}
	resp, err := rq.Send(st.method, base+st.path)
	return c13ResultOf(resp, err)
}

// c13SeqRun sends the whole sequence from one fresh client.
func c13SeqRun(cl *Client, steps []c13SeqStep, base string, dumpOn bool, reinit func(*Client) *Client, log *c13Log, clients *[]*Client) []c13Result {
	res := make([]c13Result, len(steps))
	for i := 0; i < len(steps); i++ {
		cl = c13SeqClientOp(cl, steps[i], log, dumpOn, reinit)
		if steps[i].clientOp == "clone" {
			*clients = append(*clients, cl)
		}
		if steps[i].par && i+1 < len(steps) {
			var wg sync.WaitGroup
			for _, j := range []int{i, i + 1} {
				wg.Add(1)
				go func(j int) {
					defer wg.Done()
					res[j] = c13SeqSend(cl, steps[j], base, log, dumpOn)
				}(j)
			}
			wg.Wait()
			i++
			continue
		}
		res[i] = c13SeqSend(cl, steps[i], base, log, dumpOn)
	}
	return res
}

// c13SeqGuarded runs a sequence under a harness deadline: a request that never returns (a
// transport loop blocked in DumpTo) must not take the lane down; it is reported.
func c13SeqGuarded(mk func() *Client, steps []c13SeqStep, base string, dumpOn bool, reinit func(*Client) *Client) (res []c13Result, log *c13Log, clients []*Client, hung bool) {
	log = &c13Log{}
	cl := mk().SetTimeout(3 * time.Second)
	all := []*Client{cl}
	ch := make(chan []c13Result, 1)
	go func() { ch <- c13SeqRun(cl, steps, base, dumpOn, reinit, log, &all) }()
	select {
	case res = <-ch:
		return res, log, all, false
	case <-time.After(5 * time.Second):
		res = make([]c13Result, len(steps))
		for i := range res {
			res[i].err = "hung"
		}
		return res, log, nil, true
	}
}

// c13SeqPending builds the model query: per step the dumpers and the four parts (tokens).
func c13SeqPending(id, human string, steps []c13SeqStep, parts [][4]string, log *c13Log, cl *Client) *c13Pending {
	p := &c13Pending{id: id, human: human, log: log, cl: cl, tokens: map[string]string{}, seqOf: map[string]int{}, nontrivial: true}
	var b strings.Builder
	b.WriteString("c13seq")
	for i, st := range steps {
		var tks []string
		for j, content := range parts[i] {
			tk := ""
			if content != "" {
				tk = fmt.Sprintf("%c%c%c", 'A'+i, "hbHB"[j], '.')
				p.tokens[tk] = content
				p.seqOf[tk] = []int{0, 0, 1, 2}[j]
			}
			tks = append(tks, tk)
		}
		b.WriteString(" " + st.cfg.cl.modelArg() + " " + st.cfg.rq.modelArg() + " " + verifh.HexList(tks))
	}
	p.modelLine = b.String()
	return p
}

func c13SeqHuman(steps []c13SeqStep) string {
	var l []string
	for _, st := range steps {
		l = append(l, st.String())
	}
	return strings.Join(l, " ")
}

// TestVerif_C13_seqh1: 2-4 requests over ONE HTTP/1.1 keep-alive connection, each with its own
// dump configuration and writers.
func TestVerif_C13_seqh1(t *testing.T) {
	s := verifh.New(t, "C13", "seqh1",
		"sequences of 2..4 requests from one client over one HTTP/1.1 keep-alive connection (raw TCP capture peer; reuse asserted by the peer's connection id), each request with its own dump configuration and writers: none / request-level dumper / client-level dumper kept, replaced by SetCommonDumpOptions, re-created by DisableDumpAll+EnableDump or switched off between requests (the first 16 sequences walk through fixed shapes such as [request-level, request-level], [none, request-level], [none, client-level]); responses with Content-Length or chunked framing, 0..70 KB, gzip, GBK, 103 interim, long lines, folds; a baseline sequence without dump runs on a second fresh client; oracle per request: wire capture and caller-visible result equal to the baseline, and after the sequence every writer holds exactly what the Lean model's expectedDumpSeq assigns to it (per_request_isolated); non-trivial = sequence ran on one connection")
	r := s.Rand()
	cnt := c13Counter{}
	peer := c13NewPeer(t)
	defer peer.close()
	base := "http://" + peer.addr()
	features := []string{"", "", "", "1xx", "long", "many", "fold", "barelf", "nearly-long"}
	n := verifh.N(120, 3000)
	var pend []*c13Pending
	hangs := 0
	for c := 0; c < n; c++ {
		steps := c13GenSeq(s, c, false)
		scripts := map[string]c13Resp{}
		peer.mu.Lock()
		for _, st := range steps {
			var resp c13Resp
			for {
				resp = c13GenResp(s, 200, verifh.Pick(r, features), verifh.Pick(r, []string{"plain", "plain", "gzip", "gbk", "text"}))
				if !resp.close {
					break
				}
			}
			scripts[st.path] = resp
			peer.scripts[st.path] = []c13Resp{resp}
		}
		peer.mu.Unlock()
		run := func(dumpOn bool) ([]c13Result, *c13Log, map[string]c13Attempt, []*Client, bool) {
			peer.reset()
			res, log, cls, hung := c13SeqGuarded(C, steps, base, dumpOn, func(c *Client) *Client { return c })
			for _, cl := range cls {
				cl.CloseIdleConnections()
			}
			peer.waitIdle()
			by := map[string]c13Attempt{}
			for _, a := range peer.reset() {
				by[a.path] = a
			}
			return res, log, by, cls, hung
		}
		offRes, _, offAtt, _, _ := run(false)
		onRes, log, onAtt, cls, hung := run(true)
		parts := make([][4]string, len(steps))
		var why []string
		if hung {
			why = append(why, "the sequence with dump on never returned (a request hangs)")
			hangs++
		}
		clones := 0
		conns := map[int]bool{}
		for i, st := range steps {
			a, b := offAtt[st.path], onAtt[st.path]
			conns[b.conn] = true
			if st.clientOp == "clone" {
				clones++
			}
			if a.head != b.head || a.wire != b.wire {
				why = append(why, fmt.Sprintf("request %d: bytes sent differ (head %q vs %q, body %d vs %d bytes)", i, c13Clip(a.head, 120), c13Clip(b.head, 120), len(a.wire), len(b.wire)))
			}
			if offRes[i] != onRes[i] {
				why = append(why, fmt.Sprintf("request %d: caller-visible result differs: off {%s} on {%s}", i, c13Clip(offRes[i].String(), 200), c13Clip(onRes[i].String(), 200)))
			}
			if offRes[i].err != "-" {
				why = append(why, fmt.Sprintf("harness: baseline request %d failed: %s", i, offRes[i].String()))
			}
			parts[i] = [4]string{b.head, b.payload, scripts[st.path].head, offRes[i].body}
		}
		p := c13SeqPending(fmt.Sprintf("seqh1 #%d %s", c, c13SeqHuman(steps)), c13SeqHuman(steps), steps, parts, log, nil)
		p.cls = cls
		p.why = why
		p.nontrivial = len(conns) == 1+clones
		if len(conns) == 1+clones { // one keep-alive connection per client (a clone has its own)
			cnt.add(s, "one-connection")
		} else {
			cnt.add(s, "connection-not-reused")
		}
		cnt.add(s, fmt.Sprintf("steps=%d", len(steps)))
		for _, st := range steps {
			cnt.add(s, "client-op="+st.clientOp)
			if st.cfg.rq != nil {
				cnt.add(s, "request-level")
			}
			if st.cfg.rq == nil && st.cfg.cl == nil {
				cnt.add(s, "no-dump-step")
			}
		}
		pend = append(pend, p)
		if len(pend) >= 100 {
			c13Finish(t, s, pend)
			pend = nil
		}
		if hangs >= 2 {
			break // broken delivery: three hung sequences are evidence enough
		}
	}
	c13Finish(t, s, pend)
	for _, must := range []string{"one-connection", "client-op=clone", "client-op=asyncall", "client-op=set", "client-op=reenable", "client-op=off", "client-op=keep", "request-level", "no-dump-step"} {
		if cnt[must] == 0 {
			t.Errorf("generator never reached bucket %q", must)
		}
	}
	if cnt["one-connection"] < 3*cnt["connection-not-reused"] {
		t.Errorf("keep-alive reuse too rare: %d reused, %d not", cnt["one-connection"], cnt["connection-not-reused"])
	}
	s.Finish()
}

// c13SeqG is the HTTP/2 / HTTP/3 variant: one multiplexed connection, some requests concurrent.
func c13SeqG(t *testing.T, s *verifh.Session, scripts *c13GScripts, mk func() *Client, reinit func(*Client) *Client, base string, withTrailers bool, n int, proto string) {
	r := s.Rand()
	cnt := c13Counter{}
	hangs := 0
	features := []string{"", "", "", "1xx", "long", "many", "trailer", "empty-value"}
	var pend []*c13Pending
	for c := 0; c < n; c++ {
		steps := c13GenSeq(s, c, true)
		resps := map[string]c13GResp{}
		scripts.mu.Lock()
		if scripts.scripts == nil {
			scripts.scripts = map[string][]c13GResp{}
		}
		for _, st := range steps {
			resp := c13GenGResp(s, 200, verifh.Pick(r, features), verifh.Pick(r, []string{"plain", "plain", "gzip", "gbk", "text"}), 60000)
			resps[st.path] = resp
			scripts.scripts[st.path] = []c13GResp{resp}
		}
		scripts.mu.Unlock()
		run := func(dumpOn bool) ([]c13Result, *c13Log, map[string]c13GAttempt, []*Client, bool) {
			scripts.reset()
			res, log, cls, hung := c13SeqGuarded(mk, steps, base, dumpOn, reinit)
			for _, cl := range cls {
				cl.CloseIdleConnections()
				if cl.t3 != nil {
					cl.t3.Close()
				}
			}
			by := map[string]c13GAttempt{}
			for _, a := range scripts.reset() {
				for _, f := range a.fields {
					if f.name == ":path" {
						by[f.value] = a
					}
				}
			}
			return res, log, by, cls, hung
		}
		offRes, _, offAtt, _, _ := run(false)
		onRes, log, onAtt, cls, hung := run(true)
		parts := make([][4]string, len(steps))
		var why []string
		if hung {
			why = append(why, "the sequence with dump on never returned (a request hangs)")
			hangs++
		}
		for i, st := range steps {
			a, b := offAtt[st.path], onAtt[st.path]
			if d := c13GAttemptsEqual([]c13GAttempt{a}, []c13GAttempt{b}); d != "" {
				why = append(why, fmt.Sprintf("request %d as received by the peer differs: %s", i, d))
			}
			if offRes[i] != onRes[i] {
				why = append(why, fmt.Sprintf("request %d: caller-visible result differs: off {%s} on {%s}", i, c13Clip(offRes[i].String(), 200), c13Clip(onRes[i].String(), 200)))
			}
			if offRes[i].err != "-" || offRes[i].proto != proto {
				why = append(why, fmt.Sprintf("harness: baseline request %d failed: %s", i, offRes[i].String()))
			}
			reqLines := ""
			if len(b.fields) > 0 {
				reqLines = c13Lines(b.fields)
			}
			parts[i] = [4]string{reqLines, b.payload, resps[st.path].headDump(withTrailers), offRes[i].body}
			cnt.add(s, "client-op="+st.clientOp)
			if st.par {
				cnt.add(s, "concurrent-pair")
			}
			if st.cfg.rq != nil {
				cnt.add(s, "request-level")
			}
		}
		p := c13SeqPending(fmt.Sprintf("%s #%d %s", s2lane(proto), c, c13SeqHuman(steps)), c13SeqHuman(steps), steps, parts, log, nil)
		p.cls = cls
		p.why = why
		pend = append(pend, p)
		if len(pend) >= 100 {
			c13Finish(t, s, pend)
			pend = nil
		}
		if hangs >= 2 {
			break
		}
	}
	c13Finish(t, s, pend)
	for _, must := range []string{"client-op=set", "client-op=clone", "client-op=asyncall", "client-op=reenable", "client-op=off", "client-op=keep", "request-level", "concurrent-pair"} {
		if cnt[must] == 0 {
			t.Errorf("generator never reached bucket %q", must)
		}
	}
}

func s2lane(proto string) string {
	if proto == "HTTP/2.0" {
		return "seqh2"
	}
	return "seqh3"
}

const c13SeqGRule = "sequences of 2..4 requests from one client over one multiplexed connection, pairs of requests without client-level dump sent concurrently, each request with its own dump configuration and writers (as in seqh1); frame-script peer; oracle per request as in seqh1"

func TestVerif_C13_seqh2(t *testing.T) {
	s := verifh.New(t, "C13", "seqh2", "HTTP/2: "+c13SeqGRule)
	peer := c13NewH2Peer(t)
	defer peer.close()
	mk := func() *Client { return C().EnableForceHTTP2().EnableH2C() }
	reinit := func(c *Client) *Client { return c.EnableForceHTTP2().EnableH2C() }
	c13SeqG(t, s, &peer.c13GScripts, mk, reinit, "http://"+peer.ln.Addr().String(), true, verifh.N(60, 1500), "HTTP/2.0")
	s.Finish()
}

func TestVerif_C13_seqh3(t *testing.T) {
	s := verifh.New(t, "C13", "seqh3", "HTTP/3: "+c13SeqGRule)
	peer := c13NewH3Peer(t)
	defer peer.close()
	mk := func() *Client { return c13H3Client(t) }
	reinit := func(c *Client) *Client {
		if c.t3 != nil {
			c.t3.TLSClientConfig = &tls.Config{InsecureSkipVerify: true, NextProtos: []string{"h3"}}
		}
		return c
	}
	c13SeqG(t, s, &peer.c13GScripts, mk, reinit, "https://"+peer.ln.Addr().String(), false, verifh.N(40, 1000), "HTTP/3.0")
	s.Finish()
}
