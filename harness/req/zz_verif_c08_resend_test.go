//go:build verif

package req

import (
	"bufio"
	"bytes"
	"context"
	"fmt"
	"io"
	"net"
	"net/http"
	"strconv"
	"strings"
	"sync"
	"sync/atomic"
	"testing"
	"time"

	"github.com/imroc/req/v3/internal/verifh"
)

// ---------------------------------------------------------------------------------------
// C08 lane resend_h1 (round 7): the TRANSPARENT re-send loop of the HTTP/1 Transport.roundTrip.
// A request with a body is written to a reused keep-alive connection which the server closes
// without answering; the transport decides (shouldRetryRequest) whether it may send the request
// again, rewinds the body (rewindBody: Close on the old one, GetBody for a new one) and goes round
// its loop — whose first statement looks at the context. The class generated here: d = 0..3 warm
// connections that die one after the other under the request x {replayable by method, by
// Idempotency-Key, by X-Idempotency-Key, not replayable (PUT / POST)} x {GetBody set, nil} x the context ending
// {never, before the call, INSIDE the j-th GetBody call (= between the failed attempt and the
// re-send), once the fresh connection's peer has the whole request} x {cancel, deadline}.
// Observed: error class, GetBody calls, bodies handed to the transport that were never closed,
// requests that reached the peer after the context had ended; compared with the Lean model of the
// loop (Req/Pool/CancelResend.lean, driver lane c08resend); the oracle adds promptness, the
// follow-up request and the goroutine census.
// ---------------------------------------------------------------------------------------

type c08RsBody struct {
	io.Reader
	closes atomic.Int32
}

func (b *c08RsBody) Close() error { b.closes.Add(1); return nil }

func c08RsReadRequest(br *bufio.Reader) error {
	cl := 0
	for {
		line, err := br.ReadString('\n')
		if err != nil {
			return err
		}
		line = strings.TrimRight(line, "\r\n")
		if line == "" {
			break
		}
		if k, v, ok := strings.Cut(line, ":"); ok && strings.EqualFold(k, "Content-Length") {
			cl, _ = strconv.Atoi(strings.TrimSpace(v))
		}
	}
	_, err := io.CopyN(io.Discard, br, int64(cl))
	return err
}

type c08RsCase struct {
	deaths   int    // warm keep-alive connections that die under the request, one after the other
	replay   string // replayable: get | key | xkey | putkey; not: put | none (POST)
	getBody  bool
	point    string // none | start | rewound | received
	j        int    // rewound: in the j-th GetBody call (1-based)
	kind     string // canceled | deadline
}

type c08RsObs struct {
	reached  bool
	res      string
	got      int // GetBody calls
	open     int // bodies handed to the transport and never closed
	late     int // requests that reached the peer after the injection
	elapsed  time.Duration
	follow   error
	leak     []string
	infra    string
	err      error
}

func c08RsExec(cs c08RsCase) (o c08RsObs) {
	base := len(c08Census())
	ln, err := net.Listen("tcp", "127.0.0.1:0")
	if err != nil {
		o.infra = err.Error()
		return
	}
	var wg sync.WaitGroup
	release := make(chan struct{})
	var mainPhase, fired atomic.Bool
	var firedAt atomic.Int64
	var late atomic.Int32
	var warmArrived atomic.Int32
	warmAll := make(chan struct{})
	var inject func()
	var injOnce sync.Once
	doInject := func() {
		injOnce.Do(func() {
			firedAt.Store(time.Now().UnixNano())
			fired.Store(true)
			inject()
		})
	}
	var connCount atomic.Int32
	go func() {
		for {
			c, err := ln.Accept()
			if err != nil {
				return
			}
			n := int(connCount.Add(1))
			wg.Add(1)
			go func() {
				defer wg.Done()
				defer c.Close()
				br := bufio.NewReader(c)
				for i := 1; ; i++ {
					if err := c08RsReadRequest(br); err != nil {
						return
					}
					if fired.Load() && mainPhase.Load() {
						late.Add(1)
					}
					warm := n <= cs.deaths
					if warm && i == 1 {
						// warm-up: all d requests are in flight at once, so that they sit on d connections
						if int(warmArrived.Add(1)) == cs.deaths {
							close(warmAll)
						}
						select {
						case <-warmAll:
						case <-release:
							return
						}
					} else if warm && mainPhase.Load() {
						return // the connection dies under the request: read in full, never answered
					} else if mainPhase.Load() && cs.point == "received" && !fired.Load() {
						doInject()
						select {
						case <-release:
						case <-time.After(c08HardLimit):
						}
						return
					}
					if _, err := io.WriteString(c, "HTTP/1.1 200 OK\r\nContent-Length: 2\r\n\r\nok"); err != nil {
						return
					}
				}
			}()
		}
	}()
	defer func() {
		ln.Close()
		wg.Wait()
	}()

	tr := T()
	if cs.deaths > 2 {
		tr.MaxIdleConnsPerHost = cs.deaths // (default 2: the pool would drop the third warm connection)
	}
	url := "http://" + ln.Addr().String() + "/"
	var bodies []*c08RsBody
	var bmu sync.Mutex
	newBody := func() *c08RsBody {
		b := &c08RsBody{Reader: bytes.NewReader([]byte("hello"))}
		bmu.Lock()
		bodies = append(bodies, b)
		bmu.Unlock()
		return b
	}
	send := func(ctx context.Context, body io.ReadCloser, getBody func() (io.ReadCloser, error), replay string) (*http.Response, error) {
		method := http.MethodPost
		switch replay {
		case "put", "putkey":
			method = http.MethodPut
		case "get":
			method = http.MethodGet
		}
		r, err := http.NewRequestWithContext(ctx, method, url, nil)
		if err != nil {
			return nil, err
		}
		r.Body, r.ContentLength, r.GetBody = body, 5, getBody
		switch replay {
		case "key", "putkey":
			r.Header.Set("Idempotency-Key", "k")
		case "xkey":
			r.Header.Set("X-Idempotency-Key", "k")
		}
		return tr.RoundTrip(r)
	}
	drain := func(resp *http.Response) {
		io.Copy(io.Discard, resp.Body)
		resp.Body.Close()
	}

	// warm-up: d keep-alive connections into the pool
	if cs.deaths > 0 {
		errs := make(chan error, cs.deaths)
		for k := 0; k < cs.deaths; k++ {
			go func() {
				resp, err := send(context.Background(), &c08RsBody{Reader: bytes.NewReader([]byte("hello"))}, nil, "put")
				if err == nil {
					drain(resp)
				}
				errs <- err
			}()
		}
		for k := 0; k < cs.deaths; k++ {
			select {
			case err := <-errs:
				if err != nil {
					o.infra = "warm-up: " + err.Error()
				}
			case <-time.After(c08HardLimit):
				o.infra = "warm-up did not finish"
			}
		}
		if o.infra == "" && !c08WaitFor(c08Bound, func() bool { return c08IdleCount(tr) == cs.deaths }) {
			o.infra = fmt.Sprintf("warm-up left %d idle connections, want %d", c08IdleCount(tr), cs.deaths)
		}
		if o.infra != "" {
			close(release)
			tr.CloseIdleConnections()
			return
		}
	}

	var ctx context.Context
	if cs.kind == "deadline" {
		d := newC08DeadlineCtx()
		child, stop := context.WithCancel(d)
		defer stop()
		ctx, inject = child, func() { d.expire(); <-child.Done() }
	} else {
		c, cancel := context.WithCancel(context.Background())
		defer cancel()
		ctx, inject = c, cancel
	}
	var got atomic.Int32
	var getBody func() (io.ReadCloser, error)
	if cs.getBody {
		getBody = func() (io.ReadCloser, error) {
			n := int(got.Add(1))
			b := newBody()
			if cs.point == "rewound" && n == cs.j {
				doInject()
			}
			return b, nil
		}
	}
	mainPhase.Store(true)
	if cs.point == "start" {
		doInject()
	}
	type result struct {
		err  error
		when time.Time
	}
	resc := make(chan result, 1)
	go func() {
		resp, err := send(ctx, newBody(), getBody, cs.replay)
		when := time.Now()
		if err == nil {
			drain(resp)
		}
		resc <- result{err, when}
	}()
	var res result
	select {
	case res = <-resc:
	case <-time.After(c08HardLimit):
		res = result{fmt.Errorf("c08: RoundTrip did not return within %v", c08HardLimit), time.Now()}
		o.infra = "hung"
	}
	o.err = res.err
	o.res = c08Class(res.err)
	o.reached = cs.point == "none" || fired.Load()
	if fired.Load() {
		o.elapsed = res.when.Sub(time.Unix(0, firedAt.Load()))
	}
	o.got = int(got.Load())
	time.Sleep(20 * time.Millisecond) // a request on its way to the peer / a late Close shows up
	mainPhase.Store(false)
	o.late = int(late.Load())
	close(release)
	if o.infra == "hung" {
		return
	}
	bmu.Lock()
	bs := append([]*c08RsBody(nil), bodies...)
	bmu.Unlock()
	c08WaitFor(c08Bound/4, func() bool {
		for _, b := range bs {
			if b.closes.Load() == 0 {
				return false
			}
		}
		return true
	})
	for _, b := range bs {
		if b.closes.Load() == 0 {
			o.open++
		}
	}
	// the transport is still usable
	resp, err := send(context.Background(), &c08RsBody{Reader: bytes.NewReader([]byte("hello"))}, nil, "put")
	if err == nil {
		drain(resp)
	}
	o.follow = err
	tr.CloseIdleConnections()
	if l := c08Settle(base, c08Bound+time.Second); len(l) > 0 {
		if l = c08Settle(base, 2*c08Bound); len(l) > 0 {
			o.leak = l
		}
	}
	return
}

func TestVerif_C08_resend_h1(t *testing.T) {
	c08Mu.Lock()
	defer c08Mu.Unlock()
	s := verifh.New(t, "C08", "resend_h1",
		"the transparent re-send loop of the HTTP/1 Transport.roundTrip on the real transport against a raw peer: a 5-byte upload {GET, POST + Idempotency-Key, POST + X-Idempotency-Key, PUT + Idempotency-Key, plain PUT, plain POST} with / without GetBody written to d = 0..3 warm keep-alive connections that the server closes, one after the other, after reading the request and without answering (rewindBody closes the body and asks GetBody for a new one each time); the context {is never ended, ends before the call, ends INSIDE the j-th GetBody call — between the failed attempt and the re-send —, ends once the peer of the fresh connection has the whole request} by cancel / deadline; observed: error class, GetBody calls, bodies handed to the transport never closed, requests reaching the peer after the context ended — compared with the Lean model of the loop (CancelResend) —, plus return within 2 s, follow-up request, goroutine census; non-trivial = at least one connection died under the request")
	s.OracleIndependent = false
	rnd := s.Rand()
	cnt := map[string]int{}
	count := func(k string) { cnt[k]++; s.Count(k) }
	var cases []c08RsCase
	add := func(c c08RsCase) { cases = append(cases, c) }
	replays := []string{"get", "key", "xkey", "putkey"}
	maxD := verifh.N(2, 3)
	for d := 0; d <= maxD; d++ {
		for _, kind := range []string{"canceled", "deadline"} {
			rp := verifh.Pick(rnd, replays)
			if kind == "canceled" {
				add(c08RsCase{deaths: d, replay: rp, getBody: true, point: "none", kind: kind})
			}
			// every j in the thorough tier; the first, the last (and a seeded one) otherwise
			for j := 1; j <= d; j++ {
				if verifh.Thorough() || j == 1 || j == d || rnd.Intn(2) == 0 {
					add(c08RsCase{deaths: d, replay: verifh.Pick(rnd, replays), getBody: true, point: "rewound", j: j, kind: kind})
				}
			}
			if verifh.Thorough() || d == maxD || rnd.Intn(3) == 0 {
				add(c08RsCase{deaths: d, replay: rp, getBody: true, point: "received", kind: kind})
			}
			if verifh.Thorough() || rnd.Intn(3) == 0 {
				add(c08RsCase{deaths: d, replay: rp, getBody: true, point: "start", kind: kind})
			}
		}
	}
	// the decision not to re-send: not replayable / cannot rewind
	add(c08RsCase{deaths: 1, replay: verifh.Pick(rnd, []string{"none", "put"}), getBody: true, point: "none", kind: "canceled"})
	add(c08RsCase{deaths: 1 + rnd.Intn(2), replay: verifh.Pick(rnd, replays), getBody: false, point: "none", kind: "canceled"})
	if verifh.Thorough() {
		add(c08RsCase{deaths: 2, replay: "none", getBody: false, point: "none", kind: "canceled"})
		add(c08RsCase{deaths: 2, replay: "put", getBody: true, point: "none", kind: "canceled"})
	}
	bit := func(b bool) string {
		if b {
			return "1"
		}
		return "0"
	}
	for _, cs := range cases {
		id := fmt.Sprintf("d=%d %s getBody=%v %s#%d %s", cs.deaths, cs.replay, cs.getBody, cs.point, cs.j, cs.kind)
		o := c08RsExec(cs)
		if o.infra != "" && o.infra != "hung" {
			count("infra")
			o = c08RsExec(cs)
		}
		if o.infra != "" && o.infra != "hung" {
			s.Observe(id, false, "", true, id, "scenario could not be set up: "+o.infra)
			continue
		}
		if !o.reached && o.infra == "" {
			// the loop never got to the point (e.g. no re-send happened): say so, judged as a failure
			s.Observe(id, false, "", true, id, fmt.Sprintf("injection point never reached: res=%s err=%v getBody=%d", o.res, o.err, o.got))
			continue
		}
		var failed []string
		if o.infra == "hung" || o.elapsed > c08Bound {
			failed = append(failed, fmt.Sprintf("not-prompt(%v)", o.elapsed.Round(time.Millisecond)))
		}
		if cs.point != "none" && o.res != cs.kind {
			failed = append(failed, "error-class="+o.res)
		}
		if o.open > 0 {
			failed = append(failed, fmt.Sprintf("request-bodies-not-closed=%d", o.open))
		}
		if o.late > 0 {
			failed = append(failed, fmt.Sprintf("sent-after-context-ended=%d", o.late))
		}
		if o.follow != nil {
			failed = append(failed, "follow-up-failed:"+c08Class(o.follow))
		}
		if len(o.leak) > 0 {
			failed = append(failed, "goroutines-left:"+c08TopFrames(o.leak))
		}
		impl := fmt.Sprintf("res=%s got=%d open=%d late=%d", o.res, o.got, o.open, o.late)
		line := fmt.Sprintf("c08resend %d %s %s %s %s %d %s", cs.deaths, bit(cs.replay == "get"), bit(strings.HasSuffix(cs.replay, "key")), bit(cs.getBody), cs.point, cs.j, cs.kind)
		count("point=" + cs.point)
		count("res=" + o.res)
		count(fmt.Sprintf("resends=%d", o.got))
		human := fmt.Sprintf("h1 re-send: %s -> %s, returned %v after the injection (err=%v)", id, impl, o.elapsed.Round(time.Millisecond), o.err)
		if len(failed) > 0 {
			human += " FAILED: " + strings.Join(failed, ", ")
		}
		s.Case(line, impl, len(failed) == 0, "", cs.deaths > 0, human)
		if o.infra == "hung" {
			break
		}
	}
	for _, want := range []string{"point=none", "point=rewound", "point=received", "res=ok", "res=canceled", "res=deadline", "res=other", "resends=0", "resends=1", "resends=2"} {
		if cnt[want] == 0 {
			t.Errorf("lane resend_h1: bucket %q not reached", want)
		}
	}
	s.Finish()
}
