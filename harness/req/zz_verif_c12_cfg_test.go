//go:build verif

package req

// Lane c12cfg (unit, in-package): which TLS configuration does each protocol stack build for
// a NEW connection after an arbitrary sequence of the client's TLS setters (and Clone)?
//
//   h1: persistConn.addTLS is called directly on an in-memory pipe;
//   h2: http2.Transport's dial seam (DialTLS) receives the config built by newTLSConfig;
//   h3: http3.RoundTripper's dial seam (Dial) receives the config built by RoundTripper.dial.
//
// In all three cases the configuration is then USED for a real crypto/tls handshake against
// an in-process tls.Server that records the ClientHello (SNI, ALPN), presents a certificate
// issued by CA k and requests a client certificate. The observable (sni, alpn, accepted,
// client certificate presented) is compared with the Lean model (Req.Pool.TLS.effective over
// Req.Pool.TLS.run) — which says every stack reads the client's options.

import (
	"context"
	"crypto/tls"
	"crypto/x509"
	"errors"
	"fmt"
	"net"
	"net/http"
	"net/url"
	"os"
	"path/filepath"
	"strings"
	"testing"
	"time"

	"github.com/imroc/req/v3/internal/netutil"
	"github.com/imroc/req/v3/internal/verifh"
	"github.com/quic-go/quic-go"
)

var c12Names = []string{"", c12UnitHost, c12SAN, c12WrongSAN}

func c12NameID(s string) int {
	for i, n := range c12Names {
		if n == s {
			return i
		}
	}
	return 9
}

func c12AlpnChars(l []string) string {
	if len(l) == 0 {
		return "-"
	}
	var b strings.Builder
	for _, p := range l {
		switch p {
		case "h2":
			b.WriteByte('2')
		case "http/1.1":
			b.WriteByte('1')
		case "h3":
			b.WriteByte('3')
		default:
			b.WriteByte('x')
		}
	}
	return b.String()
}

func c12AlpnFromChars(s string) []string {
	var out []string
	for _, c := range s {
		switch c {
		case '2':
			out = append(out, "h2")
		case '1':
			out = append(out, "http/1.1")
		case '3':
			out = append(out, "h3")
		case 'x':
			out = append(out, "spdy/9")
		}
	}
	return out
}

type c12Probe struct {
	sni      string
	alpn     []string
	accepted bool
	cliCert  string
	ran      bool
}

func (p c12Probe) canon() string {
	if !p.ran {
		return "no-handshake"
	}
	cert := "-"
	if p.accepted && strings.HasPrefix(p.cliCert, "client-") {
		cert = strings.TrimPrefix(p.cliCert, "client-")
	}
	acc := 0
	if p.accepted {
		acc = 1
	}
	return fmt.Sprintf("sni=%d alpn=%s accept=%d cert=%s", c12NameID(p.sni), c12AlpnChars(p.alpn), acc, cert)
}

// c12Handshake runs `client` (which must perform a TLS client handshake over the conn it is
// given) against a tls.Server presenting serverBy[k].
func c12Handshake(k int, client func(conn net.Conn) error) c12Probe {
	return c12HandshakeAcc(k, nil, client)
}

// c12HandshakeAcc: as c12Handshake; the server's CertificateRequest names the CAs of the client
// certificates acc (nil = no list: any certificate will do).
func c12HandshakeAcc(k int, acc []int, client func(conn net.Conn) error) c12Probe {
	pki := c12GetPKI()
	var p c12Probe
	p.ran = true
	cc, sc := net.Pipe()
	scfg := &tls.Config{
		Certificates:           []tls.Certificate{pki.serverBy[k]},
		ClientAuth:             tls.RequestClientCert,
		SessionTicketsDisabled: true,
		MinVersion:             tls.VersionTLS12,
		GetConfigForClient: func(chi *tls.ClientHelloInfo) (*tls.Config, error) {
			p.sni = chi.ServerName
			p.alpn = append([]string(nil), chi.SupportedProtos...)
			return nil, nil
		},
	}
	if len(acc) > 0 {
		scfg.ClientCAs = x509.NewCertPool()
		for _, j := range acc {
			scfg.ClientCAs.AddCert(pki.clientCAs[j].cert)
		}
	}
	done := make(chan struct{})
	go func() {
		defer close(done)
		srv := tls.Server(sc, scfg)
		sc.SetDeadline(time.Now().Add(5 * time.Second))
		if err := srv.Handshake(); err == nil {
			st := srv.ConnectionState()
			if len(st.PeerCertificates) > 0 {
				p.cliCert = st.PeerCertificates[0].Subject.CommonName
			}
			// keep reading so that a late client alert / close is consumed
			buf := make([]byte, 64)
			srv.Read(buf)
		}
		sc.Close()
	}()
	cc.SetDeadline(time.Now().Add(5 * time.Second))
	err := client(cc)
	p.accepted = err == nil
	cc.Close()
	<-done
	return p
}

var errC12ProbeDone = errors.New("c12 probe done")

// c12Hist mirrors the session histogram so that a lane can check its must-reach buckets.
var c12Hist = map[*verifh.Session]map[string]int{}

func c12Count(s *verifh.Session, k string) {
	s.Count(k)
	if c12Hist[s] == nil {
		c12Hist[s] = map[string]int{}
	}
	c12Hist[s][k]++
}

type c12Op struct {
	tok   string // model token ("" = not part of the model line)
	apply func(c *Client) *Client
}

func c12PoolOf(ids []int) *x509.CertPool {
	pki := c12GetPKI()
	p := x509.NewCertPool()
	for _, i := range ids {
		p.AddCert(pki.cas[i].cert)
	}
	return p
}

func c12Digits(ids []int) string {
	var b strings.Builder
	for _, i := range ids {
		fmt.Fprintf(&b, "%d", i)
	}
	return b.String()
}

// c12GenOp draws one setter. dir is a temp dir for root files.
func c12GenOp(s *verifh.Session, dir string) c12Op {
	r := s.Rand()
	pki := c12GetPKI()
	subset := func(n int) []int {
		var out []int
		for i := 0; i < n; i++ {
			if r.Intn(2) == 0 {
				out = append(out, i)
			}
		}
		return out
	}
	switch r.Intn(12) {
	case 0, 1:
		k := r.Intn(4)
		if r.Intn(2) == 0 {
			c12Count(s, "op:SetRootCertFromString")
			return c12Op{fmt.Sprintf("root%d", k), func(c *Client) *Client { return c.SetRootCertFromString(pki.cas[k].pem) }}
		}
		c12Count(s, "op:SetRootCertsFromFile")
		f := filepath.Join(dir, fmt.Sprintf("ca-%d.pem", k))
		os.WriteFile(f, []byte(pki.cas[k].pem), 0o600)
		return c12Op{fmt.Sprintf("root%d", k), func(c *Client) *Client { return c.SetRootCertsFromFile(f) }}
	case 2:
		c12Count(s, "op:EnableInsecureSkipVerify")
		return c12Op{"ins1", func(c *Client) *Client { return c.EnableInsecureSkipVerify() }}
	case 3:
		c12Count(s, "op:DisableInsecureSkipVerify")
		return c12Op{"ins0", func(c *Client) *Client { return c.DisableInsecureSkipVerify() }}
	case 4:
		j := r.Intn(4)
		c12Count(s, "op:SetCerts")
		return c12Op{fmt.Sprintf("cert%d", j), func(c *Client) *Client { return c.SetCerts(pki.clients[j]) }}
	case 5:
		n := r.Intn(4)
		c12Count(s, "op:Get.ServerName=")
		return c12Op{fmt.Sprintf("sn%d", n), func(c *Client) *Client { c.GetTLSClientConfig().ServerName = c12Names[n]; return c }}
	case 6:
		if r.Intn(3) == 0 {
			c12Count(s, "op:Get.RootCAs=nil")
			return c12Op{"roots:n", func(c *Client) *Client { c.GetTLSClientConfig().RootCAs = nil; return c }}
		}
		ids := subset(4)
		c12Count(s, "op:Get.RootCAs=pool")
		return c12Op{"roots:r" + c12Digits(ids), func(c *Client) *Client { c.GetTLSClientConfig().RootCAs = c12PoolOf(ids); return c }}
	case 7, 8:
		if r.Intn(4) == 0 {
			c12Count(s, "op:SetTLSClientConfig(nil)")
			return c12Op{"nil", func(c *Client) *Client { return c.SetTLSClientConfig(nil) }}
		}
		c12Count(s, "op:SetTLSClientConfig")
		sn := r.Intn(4)
		ins := r.Intn(4) == 0
		var roots []int
		rootsTok := "n"
		nilRoots := r.Intn(3) == 0
		if !nilRoots {
			roots = subset(4)
			rootsTok = "r" + c12Digits(roots)
		}
		certs := subset(3)
		protos := verifh.Pick(r, []string{"", "21", "12", "1", "2", "x1", "3"})
		insTok := "0"
		if ins {
			insTok = "1"
		}
		tok := fmt.Sprintf("cfg:%d:%s:%s:c%s:p%s", sn, insTok, rootsTok, c12Digits(certs), protos)
		return c12Op{tok, func(c *Client) *Client {
			cfg := &tls.Config{ServerName: c12Names[sn], InsecureSkipVerify: ins, NextProtos: c12AlpnFromChars(protos)}
			if !nilRoots {
				cfg.RootCAs = c12PoolOf(roots)
			}
			for _, j := range certs {
				cfg.Certificates = append(cfg.Certificates, pki.clients[j])
			}
			return c.SetTLSClientConfig(cfg)
		}}
	case 9:
		c12Count(s, "op:Clone")
		return c12Op{"clone", func(c *Client) *Client { return c.Clone() }}
	case 10:
		c12Count(s, "op:EnableHTTP3")
		return c12Op{"", func(c *Client) *Client { return c.EnableHTTP3() }}
	default:
		c12Count(s, "op:Transport.SetTLSClientConfig")
		ids := subset(4)
		tok := fmt.Sprintf("cfg:0:0:r%s:c:p21", c12Digits(ids))
		return c12Op{tok, func(c *Client) *Client {
			c.GetTransport().SetTLSClientConfig(&tls.Config{RootCAs: c12PoolOf(ids), NextProtos: []string{"h2", "http/1.1"}})
			return c
		}}
	}
}

// c12Measure performs the handshake stack `stack` of client c would make for a new connection
// to c12UnitHost.
func c12Measure(c *Client, stack string, onlyH1 bool, k int) (p c12Probe, panicText string) {
	return c12MeasureAcc(c, stack, onlyH1, k, nil)
}

func c12MeasureAcc(c *Client, stack string, onlyH1 bool, k int, acc []int) (p c12Probe, panicText string) {
	t := c.GetTransport()
	ctx, cancel := context.WithTimeout(context.Background(), 5*time.Second)
	defer cancel()
	req, _ := http.NewRequestWithContext(ctx, "GET", "https://"+c12UnitHost+"/", nil)
	txt, panicked := verifh.Safely(func() {
		switch stack {
		case "h1":
			p = c12HandshakeAcc(k, acc, func(conn net.Conn) error {
				pc := &persistConn{t: t, conn: conn, cacheKey: connectMethodKey{scheme: "https", addr: c12UnitHost + ":443", onlyH1: onlyH1}}
				return pc.addTLS(ctx, c12UnitHost, nil, false)
			})
		case "h2":
			t.t2.DialTLS = func(network, addr string, cfg *tls.Config) (net.Conn, error) {
				p = c12HandshakeAcc(k, acc, func(conn net.Conn) error {
					return tls.Client(conn, cfg).HandshakeContext(ctx)
				})
				return nil, errC12ProbeDone
			}
			t.t2.RoundTrip(req)
			t.t2.DialTLS = nil
		case "h3":
			if t.t3 == nil {
				t.EnableHTTP3()
			}
			t.t3.Dial = func(ctx context.Context, addr string, cfg *tls.Config, qc *quic.Config) (quic.EarlyConnection, error) {
				p = c12HandshakeAcc(k, acc, func(conn net.Conn) error {
					return tls.Client(conn, cfg).HandshakeContext(ctx)
				})
				return nil, errC12ProbeDone
			}
			t.t3.RoundTrip(req)
			t.t3.Dial = nil
		}
	})
	if panicked {
		return p, txt
	}
	return p, ""
}

func TestVerif_C12_cfg(t *testing.T) {
	s := verifh.New(t, "C12", "c12cfg",
		"random sequences (0..7) of the client's TLS setters, followed 0..2 times by [connections of the stack(s) to the same host, then 1..4 more setters] (settings changed in place / replaced after first use), — SetRootCertFromString/SetRootCertsFromFile (4 CAs), Enable/DisableInsecureSkipVerify, SetCerts, GetTLSClientConfig() mutation of ServerName/RootCAs, Client/Transport.SetTLSClientConfig (incl. nil, varied NextProtos), Clone, EnableHTTP3 at any point — then, per stack h1 (persistConn.addTLS, onlyH1 on/off) / h2 (newTLSConfig via the DialTLS seam) / h3 (RoundTripper.dial via the Dial seam), a real TLS handshake with the config that stack builds against a tls.Server with a certificate of CA k (SAN origin.test, c12.example) requesting a client certificate; observable = (SNI, offered ALPN, accepted, client cert presented); non-trivial = at least one trust/name/cert setter in the sequence")
	r := s.Rand()
	dir := t.TempDir()
	n := verifh.N(240, 12000)
	for i := 0; i < n; i++ {
		for _, stack := range []string{"h1", "h2", "h3"} {
			c := C()
			nops := r.Intn(8)
			if i%7 == 0 {
				nops = 0
			}
			var toks []string
			nontriv := false
			for j := 0; j < nops; j++ {
				op := c12GenOp(s, dir)
				c = op.apply(c)
				if op.tok != "" {
					toks = append(toks, op.tok)
					if op.tok != "clone" {
						nontriv = true
					}
				}
			}
			// "settings changed after first use": the SAME client first makes 1..2 connections of this
			// stack (and sometimes of the others) to the SAME host, then more setters follow — in place
			// (helpers, accessor mutation) or by replacement — and the connection measured is the next
			// NEW one. Model: the `use` op is a no-op (Props.C12.set_after_use).
			for round := r.Intn(3); round > 0; round-- {
				for _, st := range []string{"h1", "h2", "h3"} {
					if st == stack || r.Intn(4) == 0 {
						c12Measure(c, st, false, r.Intn(4))
					}
				}
				toks = append(toks, "use")
				c12Count(s, "changed-after-use")
				for j := 1 + r.Intn(4); j > 0; j-- {
					op := c12GenOp(s, dir)
					c = op.apply(c)
					if op.tok != "" {
						toks = append(toks, op.tok)
						if op.tok != "clone" {
							nontriv = true
						}
					}
				}
			}
			onlyH1 := stack == "h1" && r.Intn(3) == 0
			k := r.Intn(4)
			p, panicTxt := c12Measure(c, stack, onlyH1, k)
			opsTok := "-"
			if len(toks) > 0 {
				opsTok = strings.Join(toks, ",")
			}
			o := 0
			if onlyH1 {
				o = 1
			}
			line := fmt.Sprintf("c12cfg %s %d 1 %d 12 %s", stack, o, k, opsTok)
			class := ""
			if stack == "h3" && p.canon() == fmt.Sprintf("sni=%d alpn=3 accept=0 cert=-", c12NameID(c12UnitHost)) {
				// exactly what the known shadowing predicts: the HTTP/3 stack dials with an EMPTY
				// tls.Config (host as ServerName, h3 ALPN, system roots, no client certificate)
				class = "h3-tls-shadow"
			}
			human := fmt.Sprintf("C()%s ; new %s connection to %s (server cert by ca-%d, onlyH1=%v)", c12HumanOps(toks), stack, c12UnitHost, k, onlyH1)
			if panicTxt != "" {
				s.Crash(line, human, panicTxt, "")
				continue
			}
			c12Count(s, "stack:" + stack)
			if p.accepted {
				c12Count(s, "accepted")
			} else {
				c12Count(s, "rejected")
			}
			if p.accepted && p.cliCert != "" {
				c12Count(s, "client-cert-presented")
			}
			s.Case(line, p.canon(), true, class, nontriv, human)
		}
	}
	for _, must := range []string{"changed-after-use", "stack:h1", "stack:h2", "stack:h3", "accepted", "rejected", "client-cert-presented", "op:Clone", "op:SetTLSClientConfig", "op:SetTLSClientConfig(nil)", "op:SetRootCertsFromFile", "op:Get.RootCAs=pool", "op:EnableInsecureSkipVerify"} {
		if c12Hist[s][must] == 0 {
			t.Errorf("generator never reached bucket %q", must)
		}
	}
	s.Finish()
}

type c12SetCase struct {
	line, impl string
	ok, dwf    bool
	nontriv    bool
	human      string
}

func c12HumanOps(toks []string) string {
	if len(toks) == 0 {
		return ""
	}
	return "." + strings.Join(toks, ".")
}

// TestVerif_C12_set: the protocol setters (EnableForceHTTP1/2/3, DisableForceHttpVersion,
// EnableHTTP3, DisableHTTP3, EnableH2C, DisableH2C, Clone) in random order on a real client;
// the resulting transport state (read in-package) against Dispatch.applySetting.
func TestVerif_C12_set(t *testing.T) {
	s := verifh.New(t, "C12", "c12set",
		"random sequences (0..9) of EnableForceHTTP1/2/3, DisableForceHttpVersion, EnableHTTP3, DisableHTTP3, EnableH2C, DisableH2C, Clone on C(); observable = (forceHttpVersion, t3 != nil, t2.AllowHTTP, DialTLSContext != nil) read from the real Transport; oracle: a forced HTTP/3 always has its round tripper; non-trivial = sequences of at least 2 setters")
	r := s.Rand()
	toks := []string{"f1", "f2", "f3", "uf", "e3", "d3", "eh", "dh", "cl"}
	var setCases []c12SetCase
	n := verifh.N(3000, 100000)
	for i := 0; i < n; i++ {
		c := C()
		k := r.Intn(10)
		var seq []string
		cloned := false
		disabledWhileForced := false
		for j := 0; j < k; j++ {
			tk := toks[r.Intn(len(toks))]
			seq = append(seq, tk)
			switch tk {
			case "f1":
				c.EnableForceHTTP1()
			case "f2":
				c.EnableForceHTTP2()
			case "f3":
				c.EnableForceHTTP3()
			case "uf":
				c.DisableForceHttpVersion()
			case "e3":
				c.EnableHTTP3()
			case "d3":
				if c.GetTransport().forceHttpVersion == h3 {
					disabledWhileForced = true // the input class of fixes/C12-4
				}
				c.DisableHTTP3()
			case "eh":
				c.EnableH2C()
			case "dh":
				c.DisableH2C()
			case "cl":
				c = c.Clone()
				cloned = true
			}
		}
		tr := c.GetTransport()
		f := map[httpVersion]string{"": "-", h1: "1", h2: "2", h3: "3"}[tr.forceHttpVersion]
		allow := c12B(tr.t2.AllowHTTP)
		if cloned {
			allow = "?"
		}
		impl := fmt.Sprintf("force=%s h3=%s allow=%s dial=%s", f, c12B(tr.t3 != nil), allow, c12B(tr.DialTLSContext != nil))
		ok := !(tr.forceHttpVersion == h3 && tr.t3 == nil)
		class := ""
		if disabledWhileForced {
			class = "forced-h3-after-disable-panics"
		}
		if !ok {
			c12Count(s, "broken:force-h3-without-round-tripper")
		}
		c12Count(s, "force="+f)
		if tr.t3 != nil {
			c12Count(s, "h3-enabled")
		}
		line := "c12set 1 -"
		if len(seq) > 0 {
			line = "c12set 1 " + strings.Join(seq, ",")
		}
		setCases = append(setCases, c12SetCase{line, impl, ok, disabledWhileForced, len(seq) >= 2, "C()." + strings.Join(seq, ".")})
		_ = class
	}
	// a deviation is the KNOWN finding only when it is exactly what the un-patched DisableHTTP3
	// (Dispatch.applySettingUnpatched) predicts
	var ulines []string
	for _, c := range setCases {
		ulines = append(ulines, strings.Replace(c.line, "c12set ", "c12setu ", 1))
	}
	uans, err := verifh.RunModel(ulines)
	if err != nil {
		t.Fatalf("infrastructure: %v", err)
	}
	for i, c := range setCases {
		class := ""
		if c.dwf && c.impl == uans[i] {
			class = "forced-h3-after-disable-panics"
		}
		s.Case(c.line, c.impl, c.ok, class, c.nontriv, c.human)
	}
	for _, must := range []string{"force=-", "force=1", "force=2", "force=3", "h3-enabled"} {
		if c12Hist[s][must] == 0 {
			t.Errorf("never reached bucket %q", must)
		}
	}
	s.Finish()
}

// TestVerif_C12_altkey: the key under which Alt-Svc state (pending entries, jar) is filed must
// separate origins: equal keys only for the same (scheme, host, effective port). A key that
// merges two origins lets an HTTP/3 advertisement of one reroute requests for the other.
func TestVerif_C12_altkey(t *testing.T) {
	s := verifh.New(t, "C12", "c12altkey",
		"pairs of URLs over schemes {http, https} x hosts {127.0.0.1, localhost, example.com, EXAMPLE.com, a.example.com, [::1], [2001:db8::1]} x ports {none, default, 80, 443, 8443, 8444, 1, 65535}; oracle: netutil.AuthorityKey(u1) == AuthorityKey(u2) only if scheme, lower-cased host and effective port agree, and the key never changes when the default port is written explicitly; non-trivial = pairs differing in exactly one component")
	r := s.Rand()
	schemes := []string{"http", "https"}
	hosts := []string{"127.0.0.1", "localhost", "example.com", "EXAMPLE.com", "a.example.com", "[::1]", "[2001:db8::1]"}
	ports := []string{"", "def", "80", "443", "8443", "8444", "1", "65535"}
	type org struct{ scheme, host, port, raw string }
	mk := func() org {
		sc, h, p := verifh.Pick(r, schemes), verifh.Pick(r, hosts), verifh.Pick(r, ports)
		def := map[string]string{"http": "80", "https": "443"}[sc]
		raw := sc + "://" + h
		eff := def
		switch p {
		case "":
		case "def":
			raw += ":" + def
		default:
			raw += ":" + p
			eff = p
		}
		return org{sc, strings.ToLower(h), eff, raw + "/x"}
	}
	n := verifh.N(4000, 100000)
	for i := 0; i < n; i++ {
		a, b := mk(), mk()
		if r.Intn(3) == 0 { // near pairs: change one component only
			b = a
			switch r.Intn(2) {
			case 0:
				for b.port == a.port {
					x := mk()
					b.port = x.port
					b.raw = a.scheme + "://" + a.host + ":" + x.port + "/x"
				}
			case 1:
				b.scheme = map[string]string{"http": "https", "https": "http"}[a.scheme]
				b.raw = b.scheme + "://" + a.host + ":" + a.port + "/x"
			}
		}
		ua, err1 := url.Parse(a.raw)
		ub, err2 := url.Parse(b.raw)
		if err1 != nil || err2 != nil {
			continue
		}
		ka, kb := netutil.AuthorityKey(ua), netutil.AuthorityKey(ub)
		same := a.scheme == b.scheme && a.host == b.host && a.port == b.port
		ok := !(ka == kb && !same)
		if ka == kb {
			c12Count(s, "keys-equal")
		} else {
			c12Count(s, "keys-differ")
		}
		if same {
			c12Count(s, "same-origin")
		}
		s.Observe(a.raw+" | "+b.raw, ok, "", !same, fmt.Sprintf("AuthorityKey(%s) vs AuthorityKey(%s)", a.raw, b.raw),
			fmt.Sprintf("different origins share the Alt-Svc key %q", ka))
	}
	for _, must := range []string{"keys-equal", "keys-differ", "same-origin"} {
		if c12Hist[s][must] == 0 {
			t.Errorf("never reached bucket %q", must)
		}
	}
	s.Finish()
}
