//go:build verif

package req

// C07 round 4 — option life cycle x hostile header.
//
//   - optstate  every sequence (exhaustive up to length 4, random up to 10) of the protocol setters
//               EnableHTTP3 / DisableHTTP3 / EnableForceHTTP1,2,3 / DisableForceHttpVersion / Clone:
//               the nil-ness of altSvcJar, pendingAltSvcs, t3 and the forced version afterwards
//               vs the Lean model (C07.ProtoOpts) — whose invariant theorem says that no reachable
//               state lets an Alt-Svc response or a forced dispatch touch a nil field;
//   - optcycle  sequences of setters that switch a response-processing feature on and off
//               (HTTP/3 + forced versions, auto-decompress, auto-decode and its content-type filter,
//               dump, cookie jar nil / non-nil, redirect policy, retry, digest auth) followed by a
//               response that carries the header each feature reacts to (Alt-Svc, Content-Encoding,
//               Content-Type charset, Set-Cookie, Location, WWW-Authenticate): no panic, the call
//               returns, and the outcome equals that of a FRESH client configured with the net
//               effect of the sequence only (history must not matter); what the Alt-Svc header did
//               (skipped / pending entry written / panic) is compared with the model.

import (
	"context"
	"fmt"
	"io"
	"net/http"
	"net/http/cookiejar"
	"net/url"
	"runtime"
	"strconv"
	"strings"
	"testing"
	"time"

	"github.com/imroc/req/v3/internal/verifh"
)

func c07ApplyProtoOp(c *Client, op byte) *Client {
	switch op {
	case 'E':
		c.EnableHTTP3()
	case 'D':
		c.DisableHTTP3()
	case '1':
		c.EnableForceHTTP1()
	case '2':
		c.EnableForceHTTP2()
	case '3':
		c.EnableForceHTTP3()
	case 'U':
		c.DisableForceHttpVersion()
	case 'C':
		c = c.Clone()
	}
	return c
}

func c07ProtoState(c *Client) string {
	t := c.GetTransport()
	b := func(x bool) string {
		if x {
			return "1"
		}
		return "0"
	}
	f := "-"
	switch t.forceHttpVersion {
	case h1:
		f = "1"
	case h2:
		f = "2"
	case h3:
		f = "3"
	case "":
	default:
		f = "?" + string(t.forceHttpVersion)
	}
	t.pendingAltSvcsMu.Lock()
	pend := t.pendingAltSvcs != nil
	t.pendingAltSvcsMu.Unlock()
	return "jar=" + b(t.altSvcJar != nil) + " pending=" + b(pend) + " t3=" + b(t.t3 != nil) + " force=" + f
}

// c07H3Supported: does EnableHTTP3 do anything on this toolchain (go1.22 / go1.23 only)
func c07H3Supported() bool {
	return C().EnableHTTP3().t3 != nil
}

func TestVerif_C07_optstate(t *testing.T) {
	s := verifh.New(t, "C07", "optstate",
		"sequences of the protocol setters E=EnableHTTP3 D=DisableHTTP3 1/2/3=EnableForceHTTP1/2/3 U=DisableForceHttpVersion C=Clone applied to a new client: every sequence up to length 4 (2801) plus random sequences of length 5..10; answer = nil-ness of Transport.altSvcJar / pendingAltSvcs / t3 and forceHttpVersion; model = C07.ProtoOpts.run; non-trivial = the sequence contains an enable and a later disable or clone")
	sup := "0"
	if c07H3Supported() {
		sup = "1"
	}
	s.Count("http3-supported=" + sup)
	alphabet := "ED123UC"
	var seqs []string
	var rec func(prefix string, depth int)
	rec = func(prefix string, depth int) {
		seqs = append(seqs, prefix)
		if depth == 0 {
			return
		}
		for i := 0; i < len(alphabet); i++ {
			rec(prefix+alphabet[i:i+1], depth-1)
		}
	}
	rec("", 4)
	r := s.Rand()
	for i := verifh.N(1500, 60000); i > 0; i-- {
		seqs = append(seqs, verifh.RandBytes(r, 5+r.Intn(6), alphabet))
	}
	for _, q := range seqs {
		var st string
		ptxt, panicked := verifh.Safely(func() {
			c := C()
			for i := 0; i < len(q); i++ {
				c = c07ApplyProtoOp(c, q[i])
			}
			st = c07ProtoState(c)
		})
		line := "c07opts " + sup + " " + q
		if q == "" {
			line = "c07opts " + sup + " -"
		}
		nontriv := false
		if i := strings.IndexAny(q, "E3"); i >= 0 && strings.ContainsAny(q[i:], "DC") {
			nontriv = true
		}
		if panicked {
			s.Case(line, "panic: "+truncate(ptxt, 1500), false, "", true, "setter sequence "+q)
			continue
		}
		s.Count("len" + strconv.Itoa(min(len(q), 5)))
		s.Case(line, st, true, "", nontriv, "setter sequence "+q+" -> "+st)
	}
	s.Finish()
}

// ---------------------------------------------------------------------------- optcycle

// one setter of a feature group; apply must fully determine the group's state
type c07Setter struct {
	group string
	name  string
	apply func(c *Client)
}

func c07FeatureSetters() []c07Setter {
	return []c07Setter{
		{"decompress", "EnableAutoDecompress", func(c *Client) { c.EnableAutoDecompress() }},
		{"decompress", "DisableAutoDecompress", func(c *Client) { c.DisableAutoDecompress() }},
		{"decode", "EnableAutoDecode", func(c *Client) { c.EnableAutoDecode() }},
		{"decode", "DisableAutoDecode", func(c *Client) { c.DisableAutoDecode() }},
		{"decode-types", "SetAutoDecodeAllContentType", func(c *Client) { c.SetAutoDecodeAllContentType() }},
		{"decode-types", "SetAutoDecodeContentType(html)", func(c *Client) { c.SetAutoDecodeContentType("html") }},
		{"decode-types", "SetAutoDecodeContentType(json,xml)", func(c *Client) { c.SetAutoDecodeContentType("json", "xml") }},
		{"dump", "EnableDumpAllTo(discard)", func(c *Client) { c.EnableDumpAllTo(io.Discard) }},
		{"dump", "DisableDumpAll", func(c *Client) { c.DisableDumpAll() }},
		{"jar", "SetCookieJar(nil)", func(c *Client) { c.SetCookieJar(nil) }},
		{"jar", "SetCookieJar(new)", func(c *Client) { j, _ := cookiejar.New(nil); c.SetCookieJar(j) }},
		{"redirect", "NoRedirectPolicy", func(c *Client) { c.SetRedirectPolicy(NoRedirectPolicy()) }},
		{"redirect", "MaxRedirectPolicy(2)", func(c *Client) { c.SetRedirectPolicy(MaxRedirectPolicy(2)) }},
		{"redirect", "DefaultRedirectPolicy", func(c *Client) { c.SetRedirectPolicy(DefaultRedirectPolicy()) }},
		{"retry", "SetCommonRetryCount(0)", func(c *Client) { c.SetCommonRetryCount(0) }},
		{"retry", "SetCommonRetryCount(1)", func(c *Client) { c.SetCommonRetryCount(1).SetCommonRetryFixedInterval(time.Millisecond) }},
		{"digest", "SetCommonDigestAuth", func(c *Client) { c.SetCommonDigestAuth("u", "p") }},
		{"read", "DisableAutoReadResponse", func(c *Client) { c.DisableAutoReadResponse() }},
		{"read", "EnableAutoReadResponse", func(c *Client) { c.EnableAutoReadResponse() }},
		{"compression", "DisableCompression", func(c *Client) { c.DisableCompression() }},
		{"compression", "EnableCompression", func(c *Client) { c.EnableCompression() }},
	}
}

type c07CycleResp struct {
	name   string
	stream func(self string) []byte
}

func c07CycleResponses() []c07CycleResp {
	gb := "<html><head><meta charset=\"gbk\"></head>\xc4\xe3\xba\xc3</html>"
	gz := string(c07Gzip([]byte("hello hello hello")))
	mk := func(status string, hdrs []string, body string) func(string) []byte {
		return func(self string) []byte {
			var b strings.Builder
			b.WriteString("HTTP/1.1 " + status + "\r\n")
			for _, h := range hdrs {
				b.WriteString(strings.ReplaceAll(h, "{self}", self) + "\r\n")
			}
			b.WriteString("Content-Length: " + strconv.Itoa(len(body)) + "\r\n\r\n" + body)
			return []byte(b.String())
		}
	}
	return []c07CycleResp{
		{"alt-svc h3", mk("200 OK", []string{"Alt-Svc: h3=\":9\"; ma=3600"}, "hello")},
		{"alt-svc two entries", mk("200 OK", []string{"Alt-Svc: h2=\":8\", h3=\"127.0.0.1:9\"; ma=60; persist=1"}, "hello")},
		{"alt-svc clear", mk("200 OK", []string{"Alt-Svc: clear"}, "hello")},
		{"alt-svc broken", mk("200 OK", []string{"Alt-Svc: h3=\"[;ma="}, "hello")},
		{"gzip", mk("200 OK", []string{"Content-Encoding: gzip", "Content-Type: text/plain"}, gz)},
		{"gzip truncated", mk("200 OK", []string{"Content-Encoding: gzip", "Content-Type: text/html"}, gz[:len(gz)/2])},
		{"unknown encoding", mk("200 OK", []string{"Content-Encoding: x-snappy", "Content-Type: text/html; charset=gbk"}, gb)},
		{"charset gbk html", mk("200 OK", []string{"Content-Type: text/html; charset=gbk"}, gb)},
		{"charset unsupported", mk("200 OK", []string{"Content-Type: text/plain; charset=utf-7"}, "+AGkAbg-")},
		{"charset in meta only", mk("200 OK", []string{"Content-Type: text/html"}, gb)},
		{"json charset", mk("200 OK", []string{"Content-Type: application/json; charset=\""}, "{\"a\":1}")},
		{"set-cookie", mk("200 OK", []string{"Set-Cookie: a=b; Path=/", "Set-Cookie: \x00=\x01", "Set-Cookie: c=d; Max-Age=-1"}, "hello")},
		{"redirect", mk("302 Found", []string{"Location: /default", "Set-Cookie: r=1"}, "")},
		{"redirect loop", mk("301 Moved", []string{"Location: {self}"}, "")},
		{"redirect bad", mk("302 Found", []string{"Location: ://"}, "")},
		{"digest challenge", mk("401 Unauthorized", []string{"WWW-Authenticate: Digest realm=\"r\", nonce=\"n\", qop=\"auth\", algorithm=MD5"}, "no")},
		{"digest broken", mk("401 Unauthorized", []string{"WWW-Authenticate: Digest =,=", "Alt-Svc: h3=\":9\""}, "no")},
		{"everything", mk("200 OK", []string{"Alt-Svc: h3=\":9\"", "Content-Encoding: gzip", "Content-Type: text/html; charset=gbk", "Set-Cookie: e=1"}, gz)},
	}
}

func c07Outcome(c *Client, u string, timeout time.Duration) (ans string, panicked bool, ptxt string) {
	ptxt, panicked = verifh.Safely(func() {
		ctx, cancel := context.WithTimeout(context.Background(), timeout)
		defer cancel()
		rp, err := c.R().SetContext(ctx).Get(u)
		switch {
		case rp == nil:
			ans = "nil-response"
		case err != nil:
			ans = "error"
		default:
			body := ""
			if rp.Response != nil && rp.Body != nil {
				b, rerr := io.ReadAll(rp.Body)
				rp.Body.Close()
				if rerr != nil {
					body = "!read-error"
				} else if len(b) > 0 {
					body = string(b)
				} else {
					body = rp.String()
				}
			}
			nc := -1
			if c.httpClient.Jar != nil {
				if pu, e := url.Parse(u); e == nil {
					nc = len(c.httpClient.Jar.Cookies(pu))
				}
			}
			ans = fmt.Sprintf("status=%d ce=%q body=%s cookies=%d", rp.StatusCode, rp.Header.Get("Content-Encoding"), verifh.Hex(body), nc)
		}
	})
	return
}

func TestVerif_C07_optcycle(t *testing.T) {
	s := verifh.New(t, "C07", "optcycle",
		"a new client, then 2..9 random setters drawn from the feature groups (protocol: EnableHTTP3/DisableHTTP3/EnableForceHTTP1,2,3/DisableForceHttpVersion; auto-decompress on/off; auto-decode on/off and its content-type filter; dump on/off; cookie jar nil/new; redirect policy none/max/default; retry 0/1; digest auth; auto-read on/off; compression on/off), biased towards enable-then-disable of the same group, then ONE request (https to an HTTP/1.1 TLS origin, or http) answered with a response carrying the header a feature reacts to (18 kinds: Alt-Svc good/clear/broken, gzip whole/truncated, unknown encoding, charset known/unsupported/meta-only/broken, Set-Cookie incl. control bytes, redirect good/loop/bad, digest challenge good/broken, all at once); oracles: no panic, the call returns; the outcome (status, Content-Encoding, body, cookies stored) equals that of a fresh client given only the LAST setter of each group (protocol group: its normal form); what the Alt-Svc header did to the client (skip / pending entry / panic) vs the Lean model; non-trivial = some group is set at least twice")
	if !c07H3Supported() {
		s.Count("http3-unsupported")
	}
	sup := "0"
	if c07H3Supported() {
		sup = "1"
	}
	peer := newC07Peer(t)
	defer peer.closeAll()
	if peer.tlsLn == nil {
		t.Fatalf("no TLS listener: no tests to run")
	}
	httpsBase := "https://" + peer.tlsLn.Addr().String()
	httpBase := "http://" + peer.ln.Addr().String()
	setters := c07FeatureSetters()
	byGroup := map[string][]int{}
	var groups []string
	for i, st := range setters {
		if len(byGroup[st.group]) == 0 {
			groups = append(groups, st.group)
		}
		byGroup[st.group] = append(byGroup[st.group], i)
	}
	resps := c07CycleResponses()
	r := s.Rand()
	g0 := runtime.NumGoroutine()
	n := verifh.N(260, 8000)
	for i := 0; i < n; i++ {
		// the sequence: protocol ops are letters, feature setters are indices
		type step struct {
			proto byte
			set   int
		}
		var steps []step
		focus := verifh.Pick(r, append([]string{"proto", "proto", "proto"}, groups...))
		for k := 2 + r.Intn(8); k > 0; k-- {
			g := focus
			if r.Intn(3) == 0 {
				g = verifh.Pick(r, append([]string{"proto"}, groups...))
			}
			if g == "proto" {
				steps = append(steps, step{proto: "EEEDDD123UU"[r.Intn(11)]})
			} else {
				steps = append(steps, step{set: verifh.Pick(r, byGroup[g])})
			}
		}
		rs := resps[r.Intn(len(resps))]
		if focus == "proto" && r.Intn(2) == 0 {
			rs = resps[r.Intn(4)]
		}
		https := r.Intn(5) != 0
		base := httpBase
		if https {
			base = httpsBase
		}
		path := "/o" + strconv.Itoa(i)
		peer.set(path, c07Script{data: rs.stream(base + path)})
		var names []string
		protoSeq := ""
		last := map[string]int{}
		multi := false
		toggled := C().SetTimeout(10 * time.Second).SetLogger(nil).EnableInsecureSkipVerify()
		var setupPanic string
		ptxt, panicked := verifh.Safely(func() {
			for _, st := range steps {
				if st.proto != 0 {
					names = append(names, map[byte]string{'E': "EnableHTTP3", 'D': "DisableHTTP3", '1': "EnableForceHTTP1", '2': "EnableForceHTTP2", '3': "EnableForceHTTP3", 'U': "DisableForceHttpVersion"}[st.proto])
					if protoSeq != "" {
						multi = true
					}
					protoSeq += string(st.proto)
					toggled = c07ApplyProtoOp(toggled, st.proto)
				} else {
					names = append(names, setters[st.set].name)
					if _, ok := last[setters[st.set].group]; ok {
						multi = true
					}
					last[setters[st.set].group] = st.set
					setters[st.set].apply(toggled)
				}
			}
		})
		if panicked {
			setupPanic = ptxt
		}
		human := fmt.Sprintf("setters=%v then GET %s answered with %q (%s)", names, map[bool]string{true: "https", false: "http"}[https], truncate(string(rs.stream(base+path)), 200), rs.name)
		id := "optcycle:" + strings.Join(names, ",") + ":" + rs.name + ":" + strconv.FormatBool(https)
		s.Begin(id, human)
		s.Count("focus:" + focus)
		s.Count("resp:" + rs.name)
		if setupPanic != "" {
			s.Crash(id, human, "panic inside a setter: "+setupPanic, "")
			continue
		}
		// model-judged: the protocol state the sequence leaves
		stReal := c07ProtoState(toggled)
		pl := protoSeq
		if pl == "" {
			pl = "-"
		}
		s.Case("c07opts "+sup+" "+pl, stReal, true, "", multi, human+" -> "+stReal)
		forced := toggled.GetTransport().forceHttpVersion
		timeout := 10 * time.Second
		if forced == h3 || forced == h2 {
			// the origin speaks HTTP/1.1 only: a forced HTTP/2 / HTTP/3 request can only fail; do not
			// wait for the QUIC handshake timeout
			timeout = 400 * time.Millisecond
		}
		tr := toggled.GetTransport()
		pendBefore := 0
		tr.pendingAltSvcsMu.Lock()
		pendBefore = len(tr.pendingAltSvcs)
		tr.pendingAltSvcsMu.Unlock()
		done := make(chan struct{})
		var ans, ptxt2 string
		var pan bool
		go func() { ans, pan, ptxt2 = c07Outcome(toggled, base+path, timeout); close(done) }()
		select {
		case <-done:
		case <-time.After(20 * time.Second):
			s.Count("wedged")
			s.Observe(id, false, "", true, human, "call did not return within 20 s (request context "+timeout.String()+")")
			continue
		}
		if pan {
			s.Count("panic")
			s.Crash(id, human, "panic in caller goroutine: "+ptxt2, "")
			// the model still says what should have happened: report the disagreement as well
		}
		// model-judged: what the Alt-Svc header did (only for the responses with a usable h3 entry,
		// on a call that got its response over HTTP/1.1)
		if strings.HasPrefix(rs.name, "alt-svc h3") || strings.HasPrefix(rs.name, "alt-svc two") {
			tr.pendingAltSvcsMu.Lock()
			pendAfter := len(tr.pendingAltSvcs)
			tr.pendingAltSvcsMu.Unlock()
			use := "skip"
			if pan {
				use = "panic"
			} else if pendAfter > pendBefore {
				use = "ok"
			}
			if pan || strings.HasPrefix(ans, "status=") {
				h := "0"
				if https {
					h = "1"
				}
				model := "altsvc=" + use
				s.Count("altsvc-use:" + use)
				s.Case("c07optuse "+sup+" "+pl+" "+h+" 0", model+" forced="+map[bool]string{true: "skip", false: "ok"}[forced == ""], !pan, "", true, human+" -> Alt-Svc "+use)
			}
		}
		if pan {
			continue
		}
		s.Count(strings.SplitN(ans, " ", 2)[0][:min(6, len(ans))])
		if timeout < time.Second {
			// forced HTTP/2 or HTTP/3 against an HTTP/1.1-only origin: the call can only fail (it did
			// return, without a panic); nothing to compare with a fresh client
			s.Observe(id, true, "", multi, human+" -> "+truncate(ans, 120), "")
			toggled.GetTransport().CloseIdleConnections()
			if toggled.t3 != nil {
				toggled.t3.Close()
			}
			continue
		}
		// history independence: a fresh client with the net effect only
		fresh := C().SetTimeout(10 * time.Second).SetLogger(nil).EnableInsecureSkipVerify()
		ft := toggled.GetTransport()
		if ft.t3 != nil {
			fresh.EnableHTTP3()
		}
		switch ft.forceHttpVersion {
		case h1:
			fresh.EnableForceHTTP1()
		case h2:
			fresh.EnableForceHTTP2()
		case h3:
			fresh.EnableForceHTTP3()
		}
		for _, st := range steps {
			if st.proto == 0 && last[setters[st.set].group] == st.set {
				setters[st.set].apply(fresh)
				last[setters[st.set].group] = -1 // once
			}
		}
		peer.set(path, c07Script{data: rs.stream(base + path)})
		fans, fpan, fptxt := c07Outcome(fresh, base+path, timeout)
		if fpan {
			s.Crash(id+":fresh", human+" [fresh client with the net effect]", "panic in caller goroutine: "+fptxt, "")
			continue
		}
		same := ans == fans
		s.Observe(id, same, "", multi, human+" -> "+truncate(ans, 120),
			fmt.Sprintf("history matters: after %v the client answers %q, a fresh client with only the last setter of each group answers %q", names, truncate(ans, 300), truncate(fans, 300)))
		toggled.GetTransport().CloseIdleConnections()
		fresh.GetTransport().CloseIdleConnections()
		if fresh.t3 != nil {
			fresh.t3.Close()
		}
		peer.mu.Lock()
		delete(peer.scripts, path)
		peer.mu.Unlock()
	}
	_ = g0
	_ = http.StatusOK
	s.Finish()
}
