//go:build verif

package req

// Shared infrastructure of the C12 lanes: an in-process PKI (crypto/x509) and loopback
// origins that speak HTTP/1.1, HTTP/2 (ALPN) and HTTP/3 (quic-go) on the SAME port number
// (TCP + UDP), so that one URL reaches every protocol version.

import (
	"context"
	"crypto/ecdsa"
	"crypto/elliptic"
	"crypto/rand"
	"crypto/tls"
	"crypto/x509"
	"crypto/x509/pkix"
	"encoding/pem"
	"errors"
	"fmt"
	"log"
	"math/big"
	"net"
	"net/http"
	"strings"
	"sync"
	"sync/atomic"
	"time"

	"github.com/quic-go/quic-go"
	qhttp3 "github.com/quic-go/quic-go/http3"
	xhttp2 "golang.org/x/net/http2"
)

// ---------------------------------------------------------------------------- PKI

type c12CA struct {
	name string
	cert *x509.Certificate
	key  *ecdsa.PrivateKey
	pem  string
}

func (ca *c12CA) pool() *x509.CertPool {
	p := x509.NewCertPool()
	p.AddCert(ca.cert)
	return p
}

var c12Serial int64 = 1000

func c12NewCA(name string) *c12CA {
	key, err := ecdsa.GenerateKey(elliptic.P256(), rand.Reader)
	if err != nil {
		panic(err)
	}
	tpl := &x509.Certificate{
		SerialNumber:          big.NewInt(atomic.AddInt64(&c12Serial, 1)),
		Subject:               pkix.Name{CommonName: name},
		NotBefore:             time.Now().Add(-time.Hour),
		NotAfter:              time.Now().Add(24 * time.Hour),
		IsCA:                  true,
		BasicConstraintsValid: true,
		KeyUsage:              x509.KeyUsageCertSign | x509.KeyUsageDigitalSignature,
	}
	der, err := x509.CreateCertificate(rand.Reader, tpl, tpl, &key.PublicKey, key)
	if err != nil {
		panic(err)
	}
	cert, _ := x509.ParseCertificate(der)
	return &c12CA{name: name, cert: cert, key: key,
		pem: string(pem.EncodeToMemory(&pem.Block{Type: "CERTIFICATE", Bytes: der}))}
}

// leaf issues a certificate. server=true: ServerAuth with the given SANs; else ClientAuth.
func (ca *c12CA) leaf(cn string, server bool, dns []string, ips []net.IP) tls.Certificate {
	key, err := ecdsa.GenerateKey(elliptic.P256(), rand.Reader)
	if err != nil {
		panic(err)
	}
	tpl := &x509.Certificate{
		SerialNumber: big.NewInt(atomic.AddInt64(&c12Serial, 1)),
		Subject:      pkix.Name{CommonName: cn},
		NotBefore:    time.Now().Add(-time.Hour),
		NotAfter:     time.Now().Add(24 * time.Hour),
		KeyUsage:     x509.KeyUsageDigitalSignature,
		DNSNames:     dns,
		IPAddresses:  ips,
	}
	if server {
		tpl.ExtKeyUsage = []x509.ExtKeyUsage{x509.ExtKeyUsageServerAuth}
	} else {
		tpl.ExtKeyUsage = []x509.ExtKeyUsage{x509.ExtKeyUsageClientAuth}
	}
	der, err := x509.CreateCertificate(rand.Reader, tpl, ca.cert, &key.PublicKey, ca.key)
	if err != nil {
		panic(err)
	}
	leaf, _ := x509.ParseCertificate(der)
	return tls.Certificate{Certificate: [][]byte{der}, PrivateKey: key, Leaf: leaf}
}

type c12PKI struct {
	cas       []*c12CA          // cas[0] = "good" (signs the origins), cas[1] = "wrong", more for the unit lane
	server    tls.Certificate   // signed by cas[0]; SAN: IP 127.0.0.1, DNS c12.example
	serverBy  []tls.Certificate // serverBy[k]: a server leaf signed by cas[k], SAN DNS origin.test + c12.example
	clientOK  tls.Certificate   // client leaf signed by cas[0]
	clientBad tls.Certificate   // client leaf signed by cas[1]
	clients   []tls.Certificate // clients[j]: client leaf CN "client-j" signed by its OWN CA clientCAs[j] (j = 0..9)
	clientCAs []*c12CA          // a server naming clientCAs[j] as acceptable selects exactly clients[j]
}

var (
	c12pkiOnce sync.Once
	c12pki     *c12PKI
)

const (
	c12SAN      = "c12.example" // the DNS SAN of the origin certificate (ServerName override target)
	c12WrongSAN = "wrong.example"
	c12UnitHost = "origin.test"
)

func c12GetPKI() *c12PKI {
	c12pkiOnce.Do(func() {
		p := &c12PKI{}
		for _, n := range []string{"ca-0", "ca-1", "ca-2", "ca-3"} {
			p.cas = append(p.cas, c12NewCA(n))
		}
		p.server = p.cas[0].leaf("origin", true, []string{c12SAN}, []net.IP{net.ParseIP("127.0.0.1")})
		for _, ca := range p.cas {
			p.serverBy = append(p.serverBy, ca.leaf("origin-by-"+ca.name, true, []string{c12UnitHost, c12SAN}, nil))
		}
		p.clientOK = p.cas[0].leaf("client-ok", false, nil, nil)
		p.clientBad = p.cas[1].leaf("client-bad", false, nil, nil)
		for j := 0; j < 10; j++ {
			ca := c12NewCA(fmt.Sprintf("client-ca-%d", j))
			p.clientCAs = append(p.clientCAs, ca)
			p.clients = append(p.clients, ca.leaf(fmt.Sprintf("client-%d", j), false, nil, nil))
		}
		c12pki = p
	})
	return c12pki
}

// ---------------------------------------------------------------------------- origins

// c12Offer says what an origin offers on its port.
type c12Offer struct {
	alpn       []string // ALPN list of the TLS/TCP listener in server preference order; nil = TLS without ALPN
	h3         bool     // an HTTP/3 listener on the same port number (UDP)
	altSvc     bool     // TCP responses advertise Alt-Svc: h3=":<port>"
	clientAuth bool     // client certificate signed by cas[0] required (all listeners)
	plain      bool     // no TLS at all: clear-text listener (HTTP/1.1, or h2c prior knowledge when plainH2)
	plainH2    bool
}

func (o c12Offer) String() string {
	if o.plain {
		if o.plainH2 {
			return "plain-h2c"
		}
		return "plain-h1"
	}
	s := "tcp[" + strings.Join(o.alpn, ",") + "]"
	if o.h3 {
		s += "+h3"
	}
	if o.altSvc {
		s += "+altsvc"
	}
	if o.clientAuth {
		s += "+mtls"
	}
	return s
}

type c12Origin struct {
	offer   c12Offer
	host    string // the loopback address it listens on ("" = 127.0.0.1)
	port    int
	tcpLn   net.Listener
	srv     *http.Server
	h3srv   *qhttp3.Server
	udp     net.PacketConn
	tcpConn atomic.Int64 // TCP connections accepted
	tcpTLS  atomic.Int64 // TLS ClientHellos received on the TCP listener
	quicOK  atomic.Int64 // HTTP/3 requests' distinct connections is hard to see; count requests instead
	reqs    sync.Map     // proto -> *atomic.Int64
	mu      sync.Mutex
	seen    []c12Seen
	hellos  []c12Hello // every ClientHello received (TCP and QUIC listeners), in order
}

// c12Hello is what a ClientHello offered.
type c12Hello struct {
	quic bool
	sni  string
	alpn []string
}

func (o *c12Origin) noteHello(quic bool, chi *tls.ClientHelloInfo) {
	o.mu.Lock()
	o.hellos = append(o.hellos, c12Hello{quic, chi.ServerName, append([]string(nil), chi.SupportedProtos...)})
	o.mu.Unlock()
}

func (o *c12Origin) hellosFrom(n int) []c12Hello {
	o.mu.Lock()
	defer o.mu.Unlock()
	if n > len(o.hellos) {
		n = len(o.hellos)
	}
	return append([]c12Hello(nil), o.hellos[n:]...)
}

// c12Seen is what the origin saw of one request.
type c12Seen struct {
	proto   string // r.Proto
	sni     string
	cliCert string // CN of the presented client certificate ("" = none)
	path    string
}

type c12CountLn struct {
	net.Listener
	o *c12Origin
}

func (l c12CountLn) Accept() (net.Conn, error) {
	c, err := l.Listener.Accept()
	if err == nil {
		l.o.tcpConn.Add(1)
	}
	return c, err
}

func (o *c12Origin) handler() http.Handler {
	return http.HandlerFunc(func(w http.ResponseWriter, r *http.Request) {
		s := c12Seen{proto: r.Proto, path: r.URL.Path}
		if r.TLS != nil {
			s.sni = r.TLS.ServerName
			if len(r.TLS.PeerCertificates) > 0 {
				s.cliCert = r.TLS.PeerCertificates[0].Subject.CommonName
			}
		}
		o.mu.Lock()
		o.seen = append(o.seen, s)
		o.mu.Unlock()
		if o.offer.altSvc && r.ProtoMajor < 3 {
			w.Header().Set("Alt-Svc", fmt.Sprintf(`h3=":%d"; ma=3600`, o.port))
		}
		w.Header().Set("X-Origin-Proto", r.Proto)
		w.Header().Set("X-Origin-Sni", s.sni)
		w.Header().Set("X-Origin-Clicert", s.cliCert)
		w.Header().Set("Content-Type", "text/plain")
		fmt.Fprintf(w, "proto=%s", r.Proto)
	})
}

func (o *c12Origin) lastSeen() (c12Seen, int) {
	o.mu.Lock()
	defer o.mu.Unlock()
	if len(o.seen) == 0 {
		return c12Seen{}, 0
	}
	return o.seen[len(o.seen)-1], len(o.seen)
}

func (o *c12Origin) seenFor(path string) []c12Seen {
	o.mu.Lock()
	defer o.mu.Unlock()
	var out []c12Seen
	for _, s := range o.seen {
		if s.path == path {
			out = append(out, s)
		}
	}
	return out
}

func (o *c12Origin) url(scheme, path string) string {
	host := o.host
	if host == "" {
		host = "127.0.0.1"
	}
	return fmt.Sprintf("%s://%s:%d%s", scheme, host, o.port, path)
}

func (o *c12Origin) close() {
	if o.srv != nil {
		o.srv.Close()
	}
	if o.h3srv != nil {
		o.h3srv.Close()
	}
	if o.udp != nil {
		o.udp.Close()
	}
	if o.tcpLn != nil {
		o.tcpLn.Close()
	}
}

// c12StartOrigin starts an origin. TCP and UDP share one port number; the UDP socket is
// bound even when no HTTP/3 is offered is NOT done: an origin without h3 has no UDP socket.
func c12StartOrigin(offer c12Offer) (*c12Origin, error) {
	return c12StartOriginAt(offer, "127.0.0.1", 0, c12GetPKI().server)
}

// c12StartOriginAt: an origin on a given loopback address / port (0 = any) presenting leaf.
// Round 7: two origins on the SAME port of different loopback addresses (127.0.0.1:P and
// 127.0.0.2:P) whose certificates name both addresses.
func c12StartOriginAt(offer c12Offer, host string, port int, leaf tls.Certificate) (*c12Origin, error) {
	pki := c12GetPKI()
	var lastErr error
	for attempt := 0; attempt < 20; attempt++ {
		o := &c12Origin{offer: offer, host: host}
		ln, err := net.Listen("tcp", fmt.Sprintf("%s:%d", host, port))
		if err != nil {
			return nil, err
		}
		o.port = ln.Addr().(*net.TCPAddr).Port
		if offer.h3 {
			pc, err := net.ListenPacket("udp", fmt.Sprintf("%s:%d", host, o.port))
			if err != nil {
				ln.Close()
				lastErr = err
				continue
			}
			o.udp = pc
		}
		o.tcpLn = c12CountLn{ln, o}
		baseTLS := func() *tls.Config {
			c := &tls.Config{Certificates: []tls.Certificate{leaf}, MinVersion: tls.VersionTLS12}
			if offer.clientAuth {
				c.ClientAuth = tls.RequireAndVerifyClientCert
				c.ClientCAs = pki.cas[0].pool()
			}
			return c
		}
		h := o.handler()
		if offer.h3 {
			qb := baseTLS()
			qb.GetConfigForClient = func(chi *tls.ClientHelloInfo) (*tls.Config, error) {
				o.noteHello(true, chi)
				return nil, nil
			}
			qc := qhttp3.ConfigureTLSConfig(qb)
			o.h3srv = &qhttp3.Server{Handler: h, TLSConfig: qc, QUICConfig: &quic.Config{MaxIdleTimeout: 20 * time.Second}}
			go o.h3srv.Serve(o.udp)
		}
		if offer.plain {
			if offer.plainH2 {
				go c12ServeH2C(o.tcpLn, h)
			} else {
				o.srv = &http.Server{Handler: h}
				go o.srv.Serve(o.tcpLn)
			}
			return o, nil
		}
		tc := baseTLS()
		tc.NextProtos = append([]string(nil), offer.alpn...)
		tc.GetConfigForClient = func(chi *tls.ClientHelloInfo) (*tls.Config, error) {
			o.tcpTLS.Add(1) // a TLS ClientHello arrived on the TCP listener
			o.noteHello(false, chi)
			return nil, nil
		}
		o.srv = &http.Server{Handler: h, TLSConfig: tc, ErrorLog: c12NullLog()}
		hasH2 := false
		for _, p := range offer.alpn {
			if p == "h2" {
				hasH2 = true
			}
		}
		if hasH2 {
			// net/http configures HTTP/2 itself and keeps NextProtos = {h2, http/1.1}
			go o.srv.ServeTLS(o.tcpLn, "", "")
		} else {
			// no automatic HTTP/2; NextProtos exactly as offered (possibly none)
			o.srv.TLSNextProto = map[string]func(*http.Server, *tls.Conn, http.Handler){}
			go o.srv.Serve(tls.NewListener(o.tcpLn, tc))
		}
		return o, nil
	}
	return nil, fmt.Errorf("could not bind tcp+udp on one port: %v", lastErr)
}

// ---------------------------------------------------------------------------- helpers

type c12nullWriter struct{}

func c12NullLog() *log.Logger { return log.New(c12nullWriter{}, "", 0) }

// c12ServeH2C serves HTTP/2 with prior knowledge on a clear-text listener (h2c).
func c12ServeH2C(ln net.Listener, h http.Handler) {
	srv := &xhttp2.Server{}
	for {
		c, err := ln.Accept()
		if err != nil {
			return
		}
		go srv.ServeConn(c, &xhttp2.ServeConnOpts{Handler: h, BaseConfig: &http.Server{ErrorLog: c12NullLog()}})
	}
}

func (c12nullWriter) Write(p []byte) (int, error) { return len(p), nil }

// c12ErrKind canonicalises a client error: "tls" for certificate / handshake-authentication
// failures (typed where the libraries give a type; QUIC wraps TLS alerts as CRYPTO_ERROR),
// "timeout" for a deadline, "other" else. Never compared as text with the model.
func c12ErrKind(err error) string {
	if err == nil {
		return ""
	}
	var ua x509.UnknownAuthorityError
	var hn x509.HostnameError
	var ci x509.CertificateInvalidError
	var cv *tls.CertificateVerificationError
	var al tls.AlertError
	var te *quic.TransportError
	// alert 120 (no_application_protocol) is an ALPN failure, not a certificate rejection
	if strings.Contains(err.Error(), "no application protocol") || (errors.As(err, &te) && te.ErrorCode == 0x100+120) {
		return "other"
	}
	switch {
	case errors.As(err, &ua), errors.As(err, &hn), errors.As(err, &ci), errors.As(err, &cv), errors.As(err, &al):
		return "tls"
	case errors.As(err, &te) && te.ErrorCode.IsCryptoError():
		return "tls"
	case errors.Is(err, context.DeadlineExceeded):
		return "timeout"
	}
	msg := err.Error()
	if strings.Contains(msg, "remote error: tls:") || strings.Contains(msg, "x509:") || strings.Contains(msg, "CRYPTO_ERROR") {
		return "tls"
	}
	var ne net.Error
	if errors.As(err, &ne) && ne.Timeout() {
		return "timeout"
	}
	return "other"
}

func c12ProtoShort(p string) string {
	switch p {
	case "HTTP/1.1":
		return "h1"
	case "HTTP/2.0":
		return "h2"
	case "HTTP/3.0":
		return "h3"
	}
	return "?" + p
}
