//go:build verif

package req

import (
	"context"
	"errors"
	"fmt"
	"io"
	"net"
	"net/http"
	"net/url"
	"strings"
	"testing"
	"time"

	"github.com/imroc/req/v3/internal/common"
	"github.com/imroc/req/v3/internal/verifh"
)

// ---------------------------------------------------------------------------------------
// unit lane 1: persistConn.mapRoundTripError on constructed states vs the model
// ---------------------------------------------------------------------------------------

// c08MapErrCase runs the REAL mapRoundTripError on a persistConn built to be in the given
// decision state and classifies what it returns (never by message text, by identity / type).
func c08MapErrCase(errNil bool, canceled int, reqErr bool, kind int, nothingWritten, broken bool, salt int) (string, error) {
	done := make(chan struct{})
	close(done)
	pc := &persistConn{
		t:             T(),
		closech:       make(chan struct{}),
		writeLoopDone: done,
	}
	causes := []error{nil, context.Canceled, context.DeadlineExceeded}
	pc.canceledErr = causes[canceled]
	if broken {
		pc.closed = errors.New("c08: closed for test")
	}
	start := int64(salt % 5000)
	pc.nwrite = start
	if !nothingWritten {
		pc.nwrite = start + 1 + int64(salt%97)
	}
	treq := &transportRequest{Request: &http.Request{Method: "GET", URL: &url.URL{Scheme: "http", Host: "x"}}}
	reqErrVal := fmt.Errorf("c08: body read error %d", salt)
	if reqErr {
		treq.setError(reqErrVal)
	}
	inner := []error{io.ErrUnexpectedEOF, errors.New("c08: use of closed network connection"), io.EOF, fmt.Errorf("c08: write tcp: broken pipe %d", salt)}[salt%4]
	var in error
	switch {
	case errNil:
		in = nil
	case kind == 0:
		in = errServerClosedIdle
	case kind == 1:
		in = transportReadFromServerError{inner}
	default:
		in = inner
	}
	out := pc.mapRoundTripError(treq, start, in)
	switch {
	case out == nil:
		return "nil", nil
	case pc.canceledErr != nil && out == pc.canceledErr:
		if out == context.Canceled {
			return "canceled", nil
		}
		return "deadline", nil
	case reqErr && out == reqErrVal:
		return "reqErr", nil
	case out == errServerClosedIdle:
		return "serverClosedIdle", nil
	}
	if nwe, ok := out.(nothingWrittenError); ok {
		if nwe.error != in {
			return "", fmt.Errorf("nothingWrittenError wraps %v, want the input error", nwe.error)
		}
		return "nothingWritten", nil
	}
	if out == in {
		return "plain", nil
	}
	if errors.Unwrap(out) == in {
		return "brokenWrapped", nil
	}
	return "", fmt.Errorf("unclassifiable result %T %v", out, out)
}

func TestVerif_C08_maperr(t *testing.T) {
	s := verifh.New(t, "C08", "maperr",
		"exhaustive over the decision state of persistConn.mapRoundTripError: err nil/non-nil x canceledErr {none, context.Canceled, DeadlineExceeded} x req.err set x err kind {errServerClosedIdle, transportReadFromServerError, other} x nothing-written x broken, each with several concrete errors / byte counts drawn from the seed; non-trivial = non-nil err")
	r := s.Rand()
	cnt := map[string]int{}
	count := func(k string) { cnt[k]++; s.Count(k) }
	b := func(v bool) string {
		if v {
			return "1"
		}
		return "0"
	}
	rounds := verifh.N(4, 40)
	for round := 0; round < rounds; round++ {
		for mask := 0; mask < 2*3*2*3*2*2; mask++ {
			m := mask
			errNil := m%2 == 1
			m /= 2
			canceled := m % 3
			m /= 3
			reqErr := m%2 == 1
			m /= 2
			kind := m % 3
			m /= 3
			nw := m%2 == 1
			m /= 2
			broken := m%2 == 1
			salt := r.Intn(1 << 20)
			var got string
			var cerr error
			if txt, p := verifh.Safely(func() { got, cerr = c08MapErrCase(errNil, canceled, reqErr, kind, nw, broken, salt) }); p {
				s.Crash(fmt.Sprintf("maperr/%d/%d", mask, salt), "mapRoundTripError panicked", txt, "")
				continue
			}
			if cerr != nil {
				got = "unclassified:" + cerr.Error()
			}
			// independent oracle: the property clause — a recorded cancellation cause is what
			// the caller gets whenever there is an error at all
			ok := true
			if !errNil && canceled == 1 && got != "canceled" {
				ok = false
			}
			if !errNil && canceled == 2 && got != "deadline" {
				ok = false
			}
			if errNil && got != "nil" {
				ok = false
			}
			count("out=" + strings.SplitN(got, ":", 2)[0])
			line := fmt.Sprintf("c08maperr %s %d %s %d %s %s", b(errNil), canceled, b(reqErr), kind, b(nw), b(broken))
			s.Case(line, got, ok, "", !errNil,
				fmt.Sprintf("errNil=%v canceledErr=%d reqErr=%v kind=%d nothingWritten=%v broken=%v -> %s", errNil, canceled, reqErr, kind, nw, broken, got))
		}
	}
	for _, want := range []string{"out=nil", "out=canceled", "out=deadline", "out=reqErr", "out=serverClosedIdle", "out=nothingWritten", "out=plain", "out=brokenWrapped"} {
		if cnt[want] == 0 {
			t.Errorf("bucket %s not reached", want)
		}
	}
	s.Finish()
}

// ---------------------------------------------------------------------------------------
// unit lane 2: the retry decision of Request.do on scripted attempt results vs `finish`
// ---------------------------------------------------------------------------------------

func TestVerif_C08_retrydecision(t *testing.T) {
	s := verifh.New(t, "C08", "retrydecision",
		"Request.do driven by a scripted round tripper (WrapRoundTrip): MaxRetries -1 (unlimited) and 0..4 x sequences of attempt results {ok, context.Canceled, DeadlineExceeded, other error} (errors wrapped in *url.Error as http.Client does), zero retry interval; compared: number of attempts made and class of the final result; non-trivial = at least one retry or a context error")
	r := s.Rand()
	cnt := map[string]int{}
	count := func(k string) { cnt[k]++; s.Count(k) }
	n := verifh.N(300, 6000)
	for c := 0; c < n; c++ {
		maxRetries := r.Intn(6) - 1 // -1: retry without limit (rare but legal)
		seq := make([]string, maxRetries+2)
		if maxRetries < 0 {
			seq = make([]string, 2+r.Intn(6))
		}
		for i := range seq {
			switch x := r.Intn(10); {
			case x < 5:
				seq[i] = "other"
			case x < 6:
				seq[i] = "ok"
			case x < 8:
				seq[i] = "canceled"
			default:
				seq[i] = "deadline"
			}
		}
		if maxRetries < 0 {
			// the script of an unlimited request must end by itself
			seq[len(seq)-1] = verifh.Pick(r, []string{"ok", "canceled", "canceled"})
		}
		attempts := 0
		cl := C().SetCommonRetryCount(maxRetries).SetCommonRetryFixedInterval(0)
		cl.WrapRoundTripFunc(func(rt RoundTripper) RoundTripFunc {
			return func(rq *Request) (*Response, error) {
				k := "ok" // (beyond the script: an attempt that should never have been made)
				if attempts < len(seq) {
					k = seq[attempts]
				}
				attempts++
				resp := &Response{Request: rq}
				var err error
				switch k {
				case "ok":
					resp.Response = &http.Response{StatusCode: 200, Body: http.NoBody, Header: http.Header{}}
					return resp, nil
				case "canceled":
					err = &url.Error{Op: "Get", URL: "http://x/", Err: context.Canceled}
				case "deadline":
					err = &url.Error{Op: "Get", URL: "http://x/", Err: context.DeadlineExceeded}
				default:
					err = &url.Error{Op: "Get", URL: "http://x/", Err: io.ErrUnexpectedEOF}
				}
				resp.Err = err
				return resp, err
			}
		})
		var ferr error
		if txt, p := verifh.Safely(func() {
			done := make(chan struct{})
			go func() {
				defer close(done)
				defer func() {
					if rec := recover(); rec != nil {
						ferr = fmt.Errorf("panic: %v", rec)
					}
				}()
				_, ferr = cl.R().Get("http://c08.invalid/")
			}()
			select {
			case <-done:
			case <-time.After(20 * time.Second):
				ferr = errors.New("c08: hung")
			}
		}); p {
			s.Crash(fmt.Sprintf("retry/%d", c), "Request.do panicked", txt, "")
			continue
		}
		final := c08Class(ferr)
		got := fmt.Sprintf("attempts=%d final=%s", attempts, final)
		// oracle: never more than MaxRetries+1 attempts; nothing after context.Canceled
		ok := attempts <= maxRetries+1 || (maxRetries < 0 && attempts <= len(seq))
		if maxRetries < 0 {
			count("unlimited-retries")
			if final == "canceled" {
				count("unlimited-retries-stopped-by-cancel")
			}
		}
		for i := 0; i < attempts-1 && i < len(seq); i++ {
			if seq[i] == "canceled" || seq[i] == "ok" {
				ok = false
			}
		}
		count(fmt.Sprintf("attempts=%d", attempts))
		count("final=" + final)
		s.Case(fmt.Sprintf("c08retry %d %s", maxRetries, strings.Join(seq, ",")), got, ok, "",
			attempts > 1 || final == "canceled" || final == "deadline",
			fmt.Sprintf("MaxRetries=%d results=%v -> %s", maxRetries, seq, got))
	}
	for _, want := range []string{"final=ok", "final=canceled", "final=deadline", "final=other", "attempts=1", "attempts=3", "unlimited-retries"} {
		if cnt[want] == 0 {
			t.Errorf("bucket %s not reached", want)
		}
	}
	s.Finish()
}

// ---------------------------------------------------------------------------------------
// unit lane 3: what the REAL cancellation / timeout error values answer to errors.Is / errors.As,
// behind every chain of real wrappers, vs the model's table (Req/Pool/CancelErr.lean)
// ---------------------------------------------------------------------------------------

func c08Rel(err error) string {
	f := func(b bool) string {
		if b {
			return "1"
		}
		return "0"
	}
	var ne net.Error
	to := errors.As(err, &ne) && ne.Timeout()
	return fmt.Sprintf("c=%s d=%s t=%s", f(errors.Is(err, context.Canceled)), f(errors.Is(err, context.DeadlineExceeded)), f(to))
}

func TestVerif_C08_errclass(t *testing.T) {
	s := verifh.New(t, "C08", "errclass",
		"the real error values {context.Canceled, context.DeadlineExceeded, errTimeout (ResponseHeaderTimeout), tlsHandshakeTimeoutError, common.ErrRequestCanceled, errRequestCanceledConn, errServerClosedIdle, an io error} behind every chain (length 0..3) of the real wrappers {*url.Error, nothingWrittenError, transportReadFromServerError, the broken-connection wrapper produced by the real mapRoundTripError}: errors.Is(context.Canceled), errors.Is(context.DeadlineExceeded), net.Error.Timeout() through errors.As — compared with the model's table; plus the same three questions on what the real mapRoundTripError returns for a recorded cancellation cause; non-trivial = a context / timeout source")
	srcs := []struct {
		name string
		err  error
	}{
		{"ctxCanceled", context.Canceled}, {"ctxDeadline", context.DeadlineExceeded}, {"respHeaderTimeout", errTimeout},
		{"tlsHandshakeTimeout", tlsHandshakeTimeoutError{}}, {"reqCanceled", common.ErrRequestCanceled},
		{"reqCanceledConn", errRequestCanceledConn}, {"serverClosedIdle", errServerClosedIdle}, {"io", io.ErrUnexpectedEOF},
	}
	wrap := func(c byte, err error) error {
		switch c {
		case 'u':
			return &url.Error{Op: "Get", URL: "http://x/", Err: err}
		case 'n':
			return nothingWrittenError{err}
		case 'r':
			return transportReadFromServerError{err}
		default:
			// the wrapper only the real mapRoundTripError builds: a broken connection, bytes written
			done := make(chan struct{})
			close(done)
			pc := &persistConn{t: T(), closech: make(chan struct{}), writeLoopDone: done, closed: errors.New("c08: closed"), nwrite: 7}
			treq := &transportRequest{Request: &http.Request{Method: "GET", URL: &url.URL{Scheme: "http", Host: "x"}}}
			return pc.mapRoundTripError(treq, 0, err)
		}
	}
	var chains []string
	chains = append(chains, "-")
	alpha := "unrb"
	for _, a := range alpha {
		chains = append(chains, string(a))
		for _, b := range alpha {
			chains = append(chains, string(a)+string(b))
			if verifh.Thorough() {
				for _, c := range alpha {
					chains = append(chains, string(a)+string(b)+string(c))
				}
			}
		}
	}
	for _, src := range srcs {
		for _, ch := range chains {
			err := src.err
			if ch != "-" {
				for i := 0; i < len(ch); i++ {
					err = wrap(ch[i], err)
				}
			}
			got := c08Rel(err)
			s.Count("rel:" + got)
			s.Case(fmt.Sprintf("c08errclass %s %s", src.name, ch), got, true, "", strings.HasPrefix(src.name, "ctx") || strings.Contains(src.name, "Timeout"),
				fmt.Sprintf("%s behind wrappers %q (%T) -> %s", src.name, ch, err, got))
		}
	}
	// what mapRoundTripError hands out for a recorded cause is the cause itself
	for i, cause := range []error{context.Canceled, context.DeadlineExceeded} {
		done := make(chan struct{})
		close(done)
		pc := &persistConn{t: T(), closech: make(chan struct{}), writeLoopDone: done, closed: errors.New("c08: closed"), nwrite: 3, canceledErr: cause}
		treq := &transportRequest{Request: &http.Request{Method: "GET", URL: &url.URL{Scheme: "http", Host: "x"}}}
		out := pc.mapRoundTripError(treq, 0, errors.New("c08: use of closed network connection"))
		name := []string{"ctxCanceled", "ctxDeadline"}[i]
		s.Case(fmt.Sprintf("c08errclass %s u", name), c08Rel(&url.Error{Op: "Get", URL: "http://x/", Err: out}), true, "", true,
			fmt.Sprintf("mapRoundTripError with canceledErr=%v, wrapped by http.Client -> %s", cause, c08Rel(out)))
	}
	s.Finish()
}
