//go:build verif

package req

import (
	"math/rand"
	"net/http"
	"net/netip"
	"net/url"
	"regexp"
	"strings"
	"testing"

	"github.com/imroc/req/v3/internal/verifh"
)

// ---------------------------------------------------------------- degenerate policy arguments

// c11Degenerate applies 1–3 degenerating edits to a policy list: nil cells at every position, constructors
// called with an empty list, duplicated policies, duplicated list entries (other spelling), non-positive limits.
func c11Degenerate(r *rand.Rand, ps []c11Pol) []c11Pol {
	ps = append([]c11Pol(nil), ps...)
	insert := func(at int, p c11Pol) {
		ps = append(ps, c11Pol{})
		copy(ps[at+1:], ps[at:])
		ps[at] = p
	}
	for k := 1 + r.Intn(3); k > 0; k-- {
		switch r.Intn(8) {
		case 0: // nil cells anywhere
			for j := 1 + r.Intn(3); j > 0; j-- {
				insert(r.Intn(len(ps)+1), c11Pol{kind: "nil"})
			}
		case 1: // nil first (an optional policy left unset in front of the deciding ones)
			insert(0, c11Pol{kind: "nil"})
		case 2: // nil last
			insert(len(ps), c11Pol{kind: "nil"})
		case 3: // a constructor called with no name at all
			insert(r.Intn(len(ps)+1), c11Pol{kind: verifh.Pick(r, []string{"ahost", "adomain", "copy", "copy"})})
		case 4: // the same policy twice
			if len(ps) > 0 {
				insert(r.Intn(len(ps)+1), ps[r.Intn(len(ps))])
			}
		case 5: // an entry listed twice, the second time possibly in another spelling
			for _, i := range r.Perm(len(ps)) {
				if p := ps[i]; len(p.list) > 0 {
					e := p.list[r.Intn(len(p.list))]
					if r.Intn(2) == 0 {
						e = c11FlipCase(r, e)
					}
					l := append([]string(nil), p.list...)
					at := r.Intn(len(l) + 1)
					l = append(l[:at], append([]string{e}, l[at:]...)...)
					ps[i] = c11Pol{kind: p.kind, list: l}
					break
				}
			}
		case 6: // a hop limit that allows nothing
			insert(r.Intn(len(ps)+1), c11Pol{kind: "max", n: verifh.Pick(r, []int{0, -1, -10})})
		case 7: // nothing but nil cells
			if r.Intn(4) == 0 {
				ps = ps[:0]
				for j := 1 + r.Intn(3); j > 0; j-- {
					ps = append(ps, c11Pol{kind: "nil"})
				}
			}
		}
	}
	return ps
}

// c11DegBuckets names the degenerate shapes present in a list.
func c11DegBuckets(ps []c11Pol) []string {
	var out []string
	nonNil := 0
	for i, p := range ps {
		if p.kind != "nil" {
			nonNil++
		}
		switch {
		case p.kind == "nil":
			switch {
			case i == 0:
				out = append(out, "deg:nil-first")
			case i == len(ps)-1:
				out = append(out, "deg:nil-last")
			default:
				out = append(out, "deg:nil-middle")
			}
			for _, q := range ps[i+1:] {
				if q.kind != "nil" {
					out = append(out, "deg:nil-before:"+q.kind)
				}
			}
		case (p.kind == "ahost" || p.kind == "adomain" || p.kind == "copy") && len(p.list) == 0:
			out = append(out, "deg:empty-"+p.kind)
		case p.kind == "max" && p.n <= 0:
			out = append(out, "deg:max<=0")
		}
		seen := map[string]bool{}
		for _, e := range p.list {
			if seen[strings.ToLower(e)] {
				out = append(out, "deg:dup-in-list:"+p.kind)
			}
			seen[strings.ToLower(e)] = true
		}
		for _, q := range ps[:i] {
			if p.kind != "nil" && q.enc() == p.enc() {
				out = append(out, "deg:dup-policy")
			}
		}
	}
	if len(ps) > 0 && nonNil == 0 {
		out = append(out, "deg:only-nil")
	}
	return out
}

// c11Normalize is the Go-side reading of "arguments that must not matter": nil and AlwaysCopy() dropped, exact
// duplicates inside a list dropped (first occurrence kept).
func c11Normalize(ps []c11Pol) []c11Pol {
	var out []c11Pol
	for _, p := range ps {
		if p.kind == "nil" || (p.kind == "copy" && len(p.list) == 0) {
			continue
		}
		q := c11Pol{kind: p.kind, n: p.n}
		seen := map[string]bool{}
		for _, e := range p.list {
			if !seen[e] {
				q.list = append(q.list, e)
			}
			seen[e] = true
		}
		out = append(out, q)
	}
	return out
}

// TestVerif_C11_degen: degenerate arguments × every constructor, through the real SetRedirectPolicy closure.
func TestVerif_C11_degen(t *testing.T) {
	s := c11New(t, "degen",
		"policy lists of lane policy with 1–3 degenerating edits (nil cells first/middle/last/only, AllowedHost()/AllowedDomain()/AlwaysCopy() with no name, a policy passed twice, a list entry twice in another spelling, Max(n<=0)), installed with C().SetRedirectPolicy(prior...).SetRedirectPolicy(args...) (1/8: no argument) and evaluated through httpClient.CheckRedirect on related req/via hosts with random header sets; model: Store.install (the copy) + compose, and the SPEC reading firstRefusal over the non-nil, non-noop, de-duplicated arguments; second real client built from the normalised list must answer the same; oracle: net/url decision oracle; non-trivial = a degenerate shape is present")
	r := s.Rand()
	hdrPool := []string{"Authorization", "Cookie", "X-Custom", "X-Multi", "X-Other", "Www-Authenticate"}
	probes := append([]string{"x-custom"}, hdrPool...)
	n := verifh.N(6000, 120000)
	for i := 0; i < n; i++ {
		a := c11GenAuth(r, false)
		for !a.wf {
			a = c11GenAuth(r, false)
		}
		b := c11Vary(r, a, false)
		for !b.wf {
			b = c11Vary(r, a, false)
		}
		viaLen := 1 + r.Intn(4)
		via := []string{a.render()}
		for len(via) < viaLen {
			via = append(via, c11Vary(r, a, false).render())
		}
		req := b.render()
		prior := c11DefaultPols
		if r.Intn(4) == 0 {
			prior = c11GenPols(r, []c11Auth{a, b}, viaLen, hdrPool)
		}
		ps := c11Degenerate(r, c11GenPols(r, []c11Auth{a, b}, viaLen, hdrPool))
		if r.Intn(8) == 0 {
			ps = nil
			s.Count("deg:no-argument-call")
		}
		mk := func() [][2]string {
			var kv [][2]string
			for _, k := range hdrPool {
				switch r.Intn(4) {
				case 0:
					kv = append(kv, [2]string{k, "v-" + k})
				case 1:
					kv = append(kv, [2]string{k, "v1"}, [2]string{k, "v2"})
				}
			}
			return kv
		}
		rh, vh := mk(), mk()
		toHeader := func(kv [][2]string) http.Header {
			h := http.Header{}
			for _, p := range kv {
				h[p[0]] = append(h[p[0]], p[1])
			}
			return h
		}
		build := func() (*http.Request, []*http.Request) {
			q := &http.Request{Method: "GET", URL: &url.URL{Scheme: "http", Host: req, Path: "/"}, Header: toHeader(rh)}
			var hv []*http.Request
			for j, v := range via {
				x := &http.Request{Method: "GET", URL: &url.URL{Scheme: "http", Host: v, Path: "/"}, Header: http.Header{}}
				if j == 0 {
					x.Header = toHeader(vh)
				}
				hv = append(hv, x)
			}
			return q, hv
		}
		reals := func(l []c11Pol) []RedirectPolicy {
			out := make([]RedirectPolicy, len(l))
			for j, p := range l {
				out[j] = p.real()
			}
			return out
		}
		eval := func(cl *Client) (int, string, bool) {
			q, hv := build()
			var err error
			if p, bad := verifh.Safely(func() { err = cl.httpClient.CheckRedirect(q, hv) }); bad {
				s.Crash("degen", c11ShowPols(ps)+" req="+req, p, "")
				return 0, "", false
			}
			d := 0
			switch {
			case err == http.ErrUseLastResponse:
				d = 2
			case err != nil:
				d = 1
			}
			return d, c11DecisionName[d] + " " + c11ShowProbes(func(k string) []string { return q.Header.Values(k) }, probes), true
		}
		cl := C()
		if len(prior) != 1 || prior[0].kind != "max" || prior[0].n != 10 {
			cl.SetRedirectPolicy(reals(prior)...)
		}
		cl.SetRedirectPolicy(reals(ps)...)
		dec, ans1, ok := eval(cl)
		if !ok {
			continue
		}
		eff := ps
		if len(ps) == 0 {
			eff = prior
		}
		norm := c11Normalize(eff)
		var ans2 string
		if len(norm) == 0 { // every argument is a no-op: nothing is enforced, nothing copied
			q, _ := build()
			ans2 = "allow " + c11ShowProbes(func(k string) []string { return q.Header.Values(k) }, probes)
			s.Count("deg:all-arguments-noop")
		} else {
			_, ans2, ok = eval(C().SetRedirectPolicy(reals(norm)...))
			if !ok {
				continue
			}
		}
		bs := c11DegBuckets(eff)
		for _, b := range bs {
			s.Count(b)
		}
		for _, p := range eff {
			s.Count("pol:" + p.kind)
		}
		s.Count("decision:" + c11DecisionName[dec])
		want := c11Decide(eff, req, via, c11OracleHostOf, c11OracleDomainOf)
		line := "c11degen " + c11EncPols(prior) + " " + c11EncPols(ps) + " " + verifh.Hex(req) + " " + verifh.HexList(via) + " " +
			c11EncHeaders(rh) + " " + c11EncHeaders(vh) + " " + verifh.HexList(probes)
		s.Case(line, ans1+" "+ans2, dec == want && ans1 == ans2, "", len(bs) > 0,
			"prior="+c11ShowPols(prior)+" args="+c11ShowPols(ps)+" req="+req+" via="+strings.Join(via, ",")+" -> "+ans1+" | normalised list -> "+ans2)
	}
	must := []string{"deg:nil-first", "deg:nil-middle", "deg:nil-last", "deg:only-nil", "deg:empty-ahost", "deg:empty-adomain", "deg:empty-copy",
		"deg:dup-policy", "deg:dup-in-list:ahost", "deg:dup-in-list:adomain", "deg:dup-in-list:copy", "deg:max<=0", "deg:no-argument-call",
		"decision:allow", "decision:deny", "decision:uselast"}
	for _, k := range []string{"no", "max", "samehost", "samedomain", "ahost", "adomain", "copy"} {
		must = append(must, "deg:nil-before:"+k)
	}
	s.FinishRequire(must...)
}

// ---------------------------------------------------------------- RFC 6874 zone text

var c11ZonePool = []string{"eth0", "ETH0", "Eth0", "1", "en0", "lo", "br.eth0.100", "br.eth0.200", "xx.eth0.100", "1.2.3.4", "9.2.3.4",
	"www.example.com", "evil.example.com", ".www.example.com", "a.b.c.d", "a.b", "wlan-0_x~y", "e", "eth0.", "a]b", "a:80", "a b", "a%b"}

var c11ZoneTextRE = regexp.MustCompile(`^([A-Za-z0-9._~-]|%[0-9A-Fa-f]{2})+$`)

// c11ZoneText writes a decoded zone as RFC 6874 ZoneID text: unreserved bytes raw or escaped, everything else escaped.
func c11ZoneText(r *rand.Rand, z string) string {
	const hexU, hexL = "0123456789ABCDEF", "0123456789abcdef"
	var sb strings.Builder
	for i := 0; i < len(z); i++ {
		c := z[i]
		unres := c >= 'a' && c <= 'z' || c >= 'A' && c <= 'Z' || c >= '0' && c <= '9' || c == '-' || c == '.' || c == '_' || c == '~'
		if unres && r.Intn(6) != 0 {
			sb.WriteByte(c)
			continue
		}
		h := hexU
		if r.Intn(2) == 0 {
			h = hexL
		}
		sb.WriteByte('%')
		sb.WriteByte(h[c>>4])
		sb.WriteByte(h[c&15])
	}
	return sb.String()
}

type c11Zoned struct {
	addr, ztext string
	port        *string
}

func (z c11Zoned) text() string {
	s := "[" + z.addr + "%25" + z.ztext + "]"
	if z.port != nil {
		s += ":" + *z.port
	}
	return s
}

// TestVerif_C11_zone: zoned IPv6 literals from URL TEXT (RFC 6874) through url.Parse to the host policies.
func TestVerif_C11_zone(t *testing.T) {
	s := c11New(t, "zone",
		"pairs of URL texts http://[IPv6address%25ZoneID]:port/ — address from the grammar (1/2 with an IPv4-style dotted tail, IPv4-mapped), decoded zone from a pool with dotted / name-like / bracket / colon / upper-case zones, written with random percent-escapes; second text = same literal in another escaping or case, or a near miss (first 'label' of the dotted tail or of the zone changed, other zone, hex digit changed); 1/12 malformed zone text; real side: url.Parse -> URL.Host -> getHostname/getDomain and SameHost/SameDomain/AllowedHost/AllowedDomain closures from first to second; model: Authority.pctDecode/isRfc6874 -> render -> getHostname/getDomain + policies; oracle (net/netip): a followed redirect implies equal address and case-insensitively equal zone, equal hostnames imply followed")
	r := s.Rand()
	port := func() *string {
		switch r.Intn(4) {
		case 0:
			return nil
		case 1:
			e := ""
			return &e
		}
		p := verifh.Pick(r, []string{"80", "8080", "443"})
		return &p
	}
	addr := func() string {
		if r.Intn(2) == 0 {
			o := func() string { return verifh.Pick(r, c11Octets) }
			return verifh.Pick(r, []string{"fe80::", "FE80::", "::ffff:", "::FFFF:", "64:ff9b::", "1:2:3:4:5:6:", "fe80::a:"}) + o() + "." + o() + "." + o() + "." + o()
		}
		if r.Intn(2) == 0 {
			return verifh.Pick(r, c11V6)
		}
		return c11RandV6(r)
	}
	chk := func(pols ...RedirectPolicy) func(*http.Request, []*http.Request) error {
		return C().SetRedirectPolicy(pols...).httpClient.CheckRedirect
	}
	sameHost, sameDomain := chk(SameHostRedirectPolicy()), chk(SameDomainRedirectPolicy())
	n := verifh.N(4000, 100000)
	for i := 0; i < n; i++ {
		z1 := verifh.Pick(r, c11ZonePool)
		if r.Intn(5) == 0 {
			z1 = verifh.RandBytes(r, 1+r.Intn(6), "abAB01.-_~")
		}
		t1 := c11Zoned{addr: addr(), ztext: c11ZoneText(r, z1), port: port()}
		t2 := c11Zoned{addr: t1.addr, ztext: c11ZoneText(r, z1), port: port()}
		kind := "same-literal-other-escaping"
		switch r.Intn(8) {
		case 0:
			t2.addr, t2.ztext = c11FlipCase(r, t1.addr), c11ZoneText(r, c11FlipCase(r, z1))
			kind = "same-literal-other-case"
		case 1:
			z2 := verifh.Pick(r, c11ZonePool)
			t2.ztext = c11ZoneText(r, z2)
			kind = "other-zone"
		case 2: // first "label" of a dotted zone changed
			if j := strings.IndexByte(z1, '.'); j > 0 {
				t2.ztext = c11ZoneText(r, "zz"+z1[j:])
				kind = "zone-first-label-changed"
			}
		case 3: // first "label" of the dotted tail (or the whole text before the first dot) changed
			if j := strings.IndexByte(t1.addr, '.'); j > 0 {
				k := strings.LastIndexByte(t1.addr[:j], ':')
				o := verifh.Pick(r, c11Octets)
				if o == t1.addr[k+1:j] {
					o = "77"
				}
				t2.addr = t1.addr[:k+1] + o + t1.addr[j:]
				kind = "dotted-tail-first-octet-changed"
			}
		case 4:
			t2.addr = addr()
			kind = "other-address"
		}
		if r.Intn(12) == 0 {
			t2.ztext = verifh.Pick(r, []string{"", "%", "%4", "%zz", "eth0%", "a%2", "%G0", "a!b", "a/b"})
			kind = "malformed-zone-text"
		}
		u1, e1 := url.Parse("http://" + t1.text() + "/p")
		u2, e2 := url.Parse("http://" + t2.text() + "/q")
		if e1 != nil || e2 != nil {
			s.Count("url.Parse-rejects:" + kind)
			continue
		}
		s.Count(kind)
		rfc := func(z c11Zoned) string {
			a, err := netip.ParseAddr(z.addr)
			if err == nil && a.Is6() && a.Zone() == "" && c11ZoneTextRE.MatchString(z.ztext) {
				return "1"
			}
			return "0"
		}
		side := func(z c11Zoned, u *url.URL) string {
			return rfc(z) + " " + verifh.Hex(u.Host) + " " + verifh.Hex(getHostname(u.Host)) + " " + verifh.Hex(getDomain(u.Host))
		}
		q := &http.Request{Method: "GET", URL: u2, Header: http.Header{}}
		hv := []*http.Request{{Method: "GET", URL: u1, Header: http.Header{}}}
		decs := make([]int, 4)
		crashed := false
		for j, f := range []func(*http.Request, []*http.Request) error{sameHost, sameDomain,
			chk(AllowedHostRedirectPolicy(u1.Host)), chk(AllowedDomainRedirectPolicy(u1.Host))} {
			var err error
			if p, bad := verifh.Safely(func() { err = f(q, hv) }); bad {
				s.Crash("zone", t1.text()+" -> "+t2.text(), p, "")
				crashed = true
				break
			}
			if err != nil {
				decs[j] = 1
			}
		}
		if crashed {
			continue
		}
		// independent identity: address value and zone (case-insensitive) by net/netip
		ident := func(u *url.URL) (netip.Addr, string, bool) {
			h := u.Hostname()
			z := ""
			if j := strings.IndexByte(h, '%'); j >= 0 {
				h, z = h[:j], h[j+1:]
			}
			a, err := netip.ParseAddr(h)
			return a, strings.ToLower(z), err == nil
		}
		a1, zz1, ok1 := ident(u1)
		a2, zz2, ok2 := ident(u2)
		propOK := true
		followed := decs[0] == 0 || decs[1] == 0 || decs[2] == 0 || decs[3] == 0
		if ok1 && ok2 && followed && !(a1 == a2 && zz1 == zz2) {
			propOK = false
		}
		if strings.EqualFold(u1.Hostname(), u2.Hostname()) {
			s.Count("same-identity")
			if decs[0]+decs[1]+decs[2]+decs[3] != 0 {
				propOK = false
			}
		} else {
			s.Count("different-identity")
		}
		if strings.Contains(t1.addr, ".") {
			s.Count("dotted-address")
		}
		if strings.Contains(u1.Host[strings.IndexByte(u1.Host, '%'):], ".") {
			s.Count("dotted-zone")
		}
		if strings.Contains(t1.ztext+t2.ztext, "%") {
			s.Count("zone-text-with-escapes")
		}
		ans := side(t1, u1) + " " + side(t2, u2)
		for _, d := range decs {
			ans += " " + c11DecisionName[d]
		}
		line := "c11zone " + verifh.Hex(t1.addr) + " " + verifh.Hex(t1.ztext) + " " + c11OptHex(t1.port) + " " +
			verifh.Hex(t2.addr) + " " + verifh.Hex(t2.ztext) + " " + c11OptHex(t2.port)
		s.Case(line, ans, propOK, "", true,
			t1.text()+" (Host "+u1.Host+") -> "+t2.text()+" (Host "+u2.Host+"): domain "+getDomain(u1.Host)+" vs "+getDomain(u2.Host)+
				" samehost="+c11DecisionName[decs[0]]+" samedomain="+c11DecisionName[decs[1]]+" ahost="+c11DecisionName[decs[2]]+" adomain="+c11DecisionName[decs[3]])
	}
	s.FinishRequire("same-literal-other-escaping", "same-literal-other-case", "other-zone", "zone-first-label-changed",
		"dotted-tail-first-octet-changed", "other-address", "same-identity", "different-identity", "dotted-address", "dotted-zone",
		"zone-text-with-escapes")
}
