//go:build verif

package req

import (
	"fmt"
	"math/rand"
	"net/url"
	"sort"
	"strings"
	"testing"

	"github.com/imroc/req/v3/internal/verifh"
)

// ---------------------------------------------------------------- shared encoders (C01/C16)

// c01PMap renders a string map as `k:v,k:v` (hex) in sorted key order.
func c01PMap(m map[string]string) string {
	if len(m) == 0 {
		return "-"
	}
	keys := make([]string, 0, len(m))
	for k := range m {
		keys = append(keys, k)
	}
	sort.Strings(keys)
	out := make([]string, len(keys))
	for i, k := range keys {
		out[i] = verifh.Hex(k) + ":" + verifh.Hex(m[k])
	}
	return strings.Join(out, ",")
}

// c01QMap renders a multimap as `k:v1:v2,k2` (hex) in sorted key order.
func c01QMap(m map[string][]string) string {
	if len(m) == 0 {
		return "-"
	}
	keys := make([]string, 0, len(m))
	for k := range m {
		keys = append(keys, k)
	}
	sort.Strings(keys)
	out := make([]string, len(keys))
	for i, k := range keys {
		parts := []string{verifh.Hex(k)}
		for _, v := range m[k] {
			parts = append(parts, verifh.Hex(v))
		}
		out[i] = strings.Join(parts, ":")
	}
	return strings.Join(out, ",")
}

// c01Sess adds bucket bookkeeping to a lane session: a lane declares the buckets it must
// reach (Need) so that it cannot pass vacuously.
type c01Sess struct {
	*verifh.Session
	seen map[string]int
}

func c01New(t testing.TB, prop, lane, rule string) *c01Sess {
	return &c01Sess{Session: verifh.New(t, prop, lane, rule), seen: map[string]int{}}
}

func (s *c01Sess) Count(k string) { s.seen[k]++; s.Session.Count(k) }

func (s *c01Sess) Need(t testing.TB, buckets ...string) {
	for _, b := range buckets {
		if s.seen[b] == 0 {
			t.Errorf("lane did not reach bucket %q (vacuous pass refused)", b)
		}
	}
}

func c01b(b bool) string {
	if b {
		return "1"
	}
	return "0"
}

// c01ShowURL is the canonical rendering of a *url.URL shared with the Lean driver.
func c01ShowURL(u *url.URL) string {
	user := "-"
	if u.User != nil {
		user = verifh.Hex(u.User.Username())
		if p, ok := u.User.Password(); ok {
			user += ":" + verifh.Hex(p)
		}
	}
	return fmt.Sprintf("ok scheme=%s opaque=%s user=%s host=%s path=%s rawpath=%s omit=%s fq=%s rq=%s frag=%s rawfrag=%s ruri=%s",
		verifh.Hex(u.Scheme), verifh.Hex(u.Opaque), user, verifh.Hex(u.Host), verifh.Hex(u.Path), verifh.Hex(u.RawPath),
		c01b(u.OmitHost), c01b(u.ForceQuery), verifh.Hex(u.RawQuery), verifh.Hex(u.Fragment), verifh.Hex(u.RawFragment),
		verifh.Hex(u.RequestURI()))
}

// nasty data values: reserved, structural, non-ASCII, control, percent forms, placeholders.
var c01Values = []string{
	"", "1", "abc", "a b", "a/b", "a?b", "a#b", "a&b=c", "a=b", "a+b", "a%2Fb", "%", "%zz", "100%",
	"..", ".", "../../etc/passwd", "x;y", "x,y", "x:y", "x@y", "{id}", "{", "}", "a{b}c",
	"ü", "日本語", "\xff\xfe", "a\r\nX-Injected: 1", "a\nb", "a\rb", "a\x00b", "a\tb", " ", "  lead", "trail  ",
	"\x7f", "~-_.", "!$'()*", "[x]", "<x>", "\"q\"", "\\", "^`|", "http://evil.example/", "//evil", "?x=1", "#frag",
	"a HTTP/1.1\r\nHost: evil\r\n\r\nGET /x", strings.Repeat("z", 70), strings.Repeat("é/", 40),
}

var c01Keys = []string{"id", "name", "a b", "", "x.y", "ü", "k1", "k2", "ID", "q", "a-b", "a_b", "0"}

func c01RandValue(r *rand.Rand) string {
	switch r.Intn(6) {
	case 0:
		return verifh.RandBytes(r, r.Intn(6), "")
	case 1:
		return verifh.RandBytes(r, r.Intn(8), "ab/?#%&=+ {}:@;,\r\n\x00\xc3\xa9.")
	default:
		return verifh.Pick(r, c01Values)
	}
}

// ---------------------------------------------------------------- lane: escape / unescape

// TestVerif_C01_esc: url.PathEscape / url.QueryEscape / PathUnescape / QueryUnescape vs the model
// (the two escape modes parseRequestURL and Values.Encode use), plus the Go-side oracle:
// PathEscape output has none of `/ ? # { } CR LF SP`, QueryEscape none of `& = # + CR LF SP` except
// `+` standing for a space, and unescaping the escape gives the input back.
func TestVerif_C01_esc(t *testing.T) {
	s := c01New(t, "C01", "esc",
		"strings from the nasty-value pool, random bytes (all 256 values) and random picks from a structural alphabet, length 0..80; modes path-segment and query-component; non-trivial = at least one byte needs escaping")
	r := s.Rand()
	n := verifh.N(6000, 200000)
	for i := 0; i < n; i++ {
		v := c01RandValue(r)
		if r.Intn(10) == 0 {
			v = verifh.RandBytes(r, 20+r.Intn(60), "")
		}
		mode := "seg"
		var esc string
		var un string
		var uerr error
		if r.Intn(2) == 0 {
			esc = url.PathEscape(v)
			un, uerr = url.PathUnescape(v)
		} else {
			mode = "query"
			esc = url.QueryEscape(v)
			un, uerr = url.QueryUnescape(v)
		}
		ans := verifh.Hex(esc) + " "
		if uerr != nil {
			ans += "err"
			s.Count("unescape-err")
		} else {
			ans += "ok:" + verifh.Hex(un)
			s.Count("unescape-ok")
		}
		ok := true
		bad := "/?#{}\r\n "
		if mode == "query" {
			bad = "&=#\r\n /?{}"
		}
		if strings.ContainsAny(esc, bad) {
			ok = false
		}
		var back string
		var berr error
		if mode == "seg" {
			back, berr = url.PathUnescape(esc)
		} else {
			back, berr = url.QueryUnescape(esc)
		}
		if berr != nil || back != v {
			ok = false
		}
		s.Count(mode)
		s.Case("c01esc "+mode+" "+verifh.Hex(v), ans, ok, "", esc != v, fmt.Sprintf("%s %q -> %q", mode, v, esc))
	}
	s.Finish()
}

// ---------------------------------------------------------------- lane: url.Parse / String / RequestURI

var c01URLPieces = struct {
	schemes, hosts, paths, queries, frags []string
}{
	schemes: []string{"", "", "http://", "https://", "HTTP://", "hTTps://", "ftp://", "http:", "localhost:", "//", "///", "1http://", "ht tp://", ":", "a+b-c.d://"},
	hosts: []string{"", "example.com", "example.com:8080", "example.com:", "127.0.0.1", "127.0.0.1:1", "[::1]", "[::1]:80", "[::1]:", "[fe80::1%25en0]", "[fe80::1%25en0]:8", "[::1", "::1]", "EXAMPLE.com",
		"ex ample.com", "exa%6dple.com", "ex%C3%BCmple.com", "münchen.de", "user@example.com", "user:pw@example.com", "u%20s:p%40w@h", "a@b@c", "us er@h", "h:80:90", "h:8a", "h:-1", "host<>\"", "a%zz", "%25", "h%25", "[::1%2541]", "[v1.x]:1"},
	paths:   []string{"", "/", "/a", "/a/b", "/a/b/", "//a", "/a//b", "a", "a/b", "a:b", "a:b/c", "./a:b", "/a%2Fb", "/a%2fb", "/a%zz", "/a%", "/%41", "/a b", "/ü", "/%C3%BC", "/a;b,c", "/a:b@c", "/~-_.!$&'()*+,;=:@", "/a[b]", "/a{b}", "/a|b", "/a\"b", "/a<b>", "/a\\b", "/a^b`", "*", "/*", "/a\x7fb", "/a\tb", "/\xff"},
	queries: []string{"", "", "?", "?a=1", "?a=1&b=2", "?a=b c", "?a=%zz", "?a=ü", "?a=1?b=2", "??", "?a[]=1", "?{x}", "?a=1#", "?a;b", "? ", "?\u00a0", "?\u3000 \u2003\u0085", "?%20", "? a", "?\u2029\u205f\u1680", "?\xc2", "?\xe2\x80"},
	frags:   []string{"", "", "", "#", "#f", "#f g", "#f%20g", "#f%zz", "#ü", "#a#b", "#!()*", "#a\x01b"},
}

func c01RandURL(r *rand.Rand) string {
	p := c01URLPieces
	if r.Intn(12) == 0 {
		return verifh.RandBytes(r, r.Intn(12), "ah:/?#%@[]. 1\x00é")
	}
	return verifh.Pick(r, p.schemes) + verifh.Pick(r, p.hosts) + verifh.Pick(r, p.paths) + verifh.Pick(r, p.queries) + verifh.Pick(r, p.frags)
}

// TestVerif_C01_parse ties the Lean model of net/url.Parse / URL.String / URL.RequestURI (the
// external code parseRequestURL is built on) to the real Go 1.23 implementation.
func TestVerif_C01_parse(t *testing.T) {
	s := c01New(t, "C01", "parse",
		"URLs assembled from pools of schemes (absent, mixed case, invalid), authorities (ports, empty ports, IPv6, zones, userinfo, escapes, invalid bytes), paths (escapes valid/invalid, reserved, non-ASCII, relative, colon in first segment), queries, fragments; plus random short strings over a structural alphabet; non-trivial = parse succeeded")
	r := s.Rand()
	n := verifh.N(10000, 300000)
	for i := 0; i < n; i++ {
		raw := c01RandURL(r)
		u, err := url.Parse(raw)
		ans := "err"
		if err == nil {
			ans = c01ShowURL(u) + " str=" + verifh.Hex(u.String())
			s.Count("ok")
			if u.Opaque != "" {
				s.Count("opaque")
			}
			if u.RawPath != "" {
				s.Count("rawpath")
			}
			if u.User != nil {
				s.Count("user")
			}
		} else {
			s.Count("err")
		}
		s.Case("c01parse "+verifh.Hex(raw), ans, true, "", err == nil, fmt.Sprintf("%q", raw))
	}
	s.Finish()
}

// ---------------------------------------------------------------- lane: parseRequestURL

type c01URLCase struct {
	rawURL       string
	rPath, cPath map[string]string
	scheme, base string
	cQuery       url.Values
	rQuery       url.Values
	// structured cases only: what the property oracle needs
	structured bool
	nSeg       int    // number of '/' in the template path
	tmplQuery  string // raw query of the template ("" = none)
	tmplFrag   string
	segVals    []string // for each path segment: the expected unescaped value, "\x00skip" when not checked
	mayFail    bool     // the call may fail (never: reach the wire differently)
	// how every segment was written (for re-computing segVals after the path maps were edited):
	// segKey[i] = the placeholder's key ("\x00lit" = a literal), segWrap[i] = written as p-{key}-s
	segKey   []string
	segWrap  []bool
	relative bool
}

// c01Resegment recomputes the oracle's expected segment values from the CURRENT path maps.
func c01Resegment(c *c01URLCase) {
	if !c.structured || len(c.segKey) != len(c.segVals) {
		return
	}
	for i, k := range c.segKey {
		if k == "\x00lit" {
			continue
		}
		v, ok := c.rPath[k]
		if !ok {
			v, ok = c.cPath[k]
		}
		switch {
		case !ok:
			c.segVals[i] = "\x00skip"
		case c.segWrap[i]:
			c.segVals[i] = "p-" + v + "-s"
		default:
			c.segVals[i] = v
		}
	}
	if c.relative {
		c.mayFail = c.nSeg > 0 && len(c.segVals) > 0 && c.segVals[0] == ""
	}
}

// c01EditURLCase (round 6): the description of the SAME *Request is changed between two runs of
// parseRequestURL — one field family: request path values, client path values, both, request /
// client query maps, or everything (another template with its own maps). The template and the
// keys stay when only values change, so a stale expansion would go unnoticed by nothing else.
func c01EditURLCase(r *rand.Rand, tc c01URLCase) (c01URLCase, string) {
	e := tc
	e.segVals = append([]string(nil), tc.segVals...)
	newVals := func(m map[string]string) map[string]string {
		if m == nil {
			return nil
		}
		out := map[string]string{}
		for k := range m {
			out[k] = c01RandValue(r)
		}
		return out
	}
	what := verifh.Pick(r, []string{"rpath", "rpath", "cpath", "paths", "rquery", "cquery", "all"})
	if what == "rpath" && len(tc.rPath) == 0 {
		what = "paths"
	}
	switch what {
	case "rpath":
		e.rPath = newVals(tc.rPath)
	case "cpath":
		e.cPath = newVals(tc.cPath)
	case "paths":
		e.rPath, e.cPath = newVals(tc.rPath), newVals(tc.cPath)
		if r.Intn(3) == 0 && len(e.rPath) > 0 {
			// a request-level key is REMOVED: the client-level value (or the bare placeholder) shows
			for k := range e.rPath {
				delete(e.rPath, k)
				break
			}
		}
	case "rquery":
		e.rQuery = c01RandQMap(r, 3)
	case "cquery":
		e.cQuery = c01RandQMap(r, 3)
	default:
		if tc.structured {
			e = c01GenStructured(r)
		} else {
			e = c01GenWild(r)
		}
	}
	c01Resegment(&e)
	return e, what
}

var c01LitSegs = []string{"a", "api", "v1", "users", "x.y", "a%2Fb", "a%20b", "ü", "a;b", "a,b", "a:b", "a@b", "~", "a+b", "a=b", "a&b", "*"}

func c01RandPMap(r *rand.Rand, max int, keys []string) map[string]string {
	n := r.Intn(max + 1)
	if n == 0 {
		if r.Intn(2) == 0 {
			return nil
		}
		return map[string]string{}
	}
	m := map[string]string{}
	for i := 0; i < n; i++ {
		m[verifh.Pick(r, keys)] = c01RandValue(r)
	}
	return m
}

func c01RandQMap(r *rand.Rand, max int) url.Values {
	n := r.Intn(max + 1)
	if n == 0 {
		if r.Intn(2) == 0 {
			return nil
		}
		return url.Values{}
	}
	m := url.Values{}
	qkeys := []string{"a", "b", "c", "q", "a b", "", "ü", "a&b", "a=b", "k[]", "A", "aa", "page", "x#y", "%41"}
	for i := 0; i < n; i++ {
		k := verifh.Pick(r, qkeys)
		nv := r.Intn(4) // 0 = key present with no values
		vs := []string{}
		for j := 0; j < nv; j++ {
			vs = append(vs, c01RandValue(r))
		}
		m[k] = vs
	}
	return m
}

func c01GenStructured(r *rand.Rand) c01URLCase {
	c := c01URLCase{structured: true}
	keys := []string{"id", "name", "a b", "", "x.y", "ü", "k1", "k2", "ID"}
	c.rPath = c01RandPMap(r, 3, keys)
	c.cPath = c01RandPMap(r, 3, keys)
	val := func(k string) (string, bool) {
		if v, ok := c.rPath[k]; ok {
			return v, true
		}
		v, ok := c.cPath[k]
		return v, ok
	}
	// placeholders mostly name a key that has a value; an unfilled one (a literal "{k}" left in
	// the path) is kept rare because it puts the case into the rawpath-dropped class
	var filled []string
	for k := range c.rPath {
		filled = append(filled, k)
	}
	for k := range c.cPath {
		filled = append(filled, k)
	}
	sort.Strings(filled)
	pickKey := func() string {
		if len(filled) > 0 && r.Intn(12) != 0 {
			return verifh.Pick(r, filled)
		}
		if r.Intn(3) == 0 {
			return verifh.Pick(r, keys)
		}
		return "unset"
	}
	nseg := r.Intn(5)
	var path strings.Builder
	for i := 0; i < nseg; i++ {
		path.WriteByte('/')
		switch r.Intn(3) {
		case 0:
			l := verifh.Pick(r, c01LitSegs)
			path.WriteString(l)
			c.segVals = append(c.segVals, "\x00skip")
			c.segKey, c.segWrap = append(c.segKey, "\x00lit"), append(c.segWrap, false)
		case 1:
			k := pickKey()
			if k == "unset" {
				path.WriteString("lit")
				c.segKey, c.segWrap = append(c.segKey, "\x00lit"), append(c.segWrap, false)
			} else {
				path.WriteString("{" + k + "}")
				c.segKey, c.segWrap = append(c.segKey, k), append(c.segWrap, false)
			}
			if v, ok := val(k); ok {
				c.segVals = append(c.segVals, v)
			} else {
				c.segVals = append(c.segVals, "\x00skip")
			}
		default:
			k := pickKey()
			if k == "unset" {
				path.WriteString("p-lit-s")
				c.segKey, c.segWrap = append(c.segKey, "\x00lit"), append(c.segWrap, false)
			} else {
				path.WriteString("p-{" + k + "}-s")
				c.segKey, c.segWrap = append(c.segKey, k), append(c.segWrap, true)
			}
			if v, ok := val(k); ok {
				c.segVals = append(c.segVals, "p-"+v+"-s")
			} else {
				c.segVals = append(c.segVals, "\x00skip")
			}
		}
	}
	c.nSeg = nseg
	if r.Intn(3) == 0 {
		c.tmplQuery = verifh.Pick(r, []string{"x=1", "x=1&y=2", "a=raw", "flag", "a=1&a=2", "x=%20"})
	}
	if r.Intn(5) == 0 {
		c.tmplFrag = verifh.Pick(r, []string{"f", "top", "a%20b"})
	}
	tail := path.String()
	if c.tmplQuery != "" {
		tail += "?" + c.tmplQuery
	}
	if c.tmplFrag != "" {
		tail += "#" + c.tmplFrag
	}
	switch r.Intn(4) {
	case 0: // absolute
		c.rawURL = verifh.Pick(r, []string{"http://", "https://", "HTTP://"}) + verifh.Pick(r, []string{"example.com", "127.0.0.1:8080", "[::1]:9", "h.example:"}) + tail
		c.base = verifh.Pick(r, []string{"", "http://unused.example"})
	case 1: // scheme-less host + client scheme
		c.rawURL = verifh.Pick(r, []string{"example.com", "h.example"}) + tail
		c.scheme = verifh.Pick(r, []string{"http", "https"})
	default: // relative + base URL
		c.rawURL = tail
		c.base = verifh.Pick(r, []string{"http://base.example", "https://b.example:8443", "http://127.0.0.1:9"})
		if tail != "" && tail[0] != '/' {
			// "?q" / "#f": parseRequestURL prefixes "/"
			c.nSeg = 1
			c.segVals = []string{"\x00skip"}
			c.segKey, c.segWrap = []string{"\x00lit"}, []bool{false}
		}
		c.relative = true
		// an empty first segment turns the relative reference into "//authority…": url.Parse may
		// then reject what follows (the call fails; it never reaches the wire)
		c.mayFail = nseg > 0 && len(c.segVals) > 0 && c.segVals[0] == ""
	}
	c.cQuery = c01RandQMap(r, 3)
	c.rQuery = c01RandQMap(r, 3)
	return c
}

func c01GenWild(r *rand.Rand) c01URLCase {
	c := c01URLCase{}
	wildKeys := append([]string{"a{b", "a}b", "{", "}", "a/b", "a?b", "b{id}c"}, c01Keys...)
	c.rPath = c01RandPMap(r, 1, wildKeys)
	c.cPath = c01RandPMap(r, 1, wildKeys)
	raw := c01RandURL(r)
	// sprinkle placeholders anywhere, including authority, query and nested braces
	for i := 0; i < r.Intn(3); i++ {
		pos := r.Intn(len(raw) + 1)
		k := verifh.Pick(r, wildKeys)
		raw = raw[:pos] + "{" + k + "}" + raw[pos:]
	}
	c.rawURL = raw
	c.scheme = verifh.Pick(r, []string{"", "", "http", "https", "ftp", "ht tp", "h:"})
	c.base = verifh.Pick(r, []string{"", "http://base.example", "http://base.example/api", "https://b.example:8443/x?y=1", "base.example", "http://base.example:", "http://[::1]:", "://", "http://u@base.example"})
	c.cQuery = c01RandQMap(r, 2)
	c.rQuery = c01RandQMap(r, 2)
	return c
}

// c01ExpectedQuery is the oracle's reading of the query the caller described: the template's raw
// query pairs first (verbatim), then every key of the merged maps in sorted key order.
func c01ExpectedQuery(c c01URLCase) [][2]string {
	var out [][2]string
	if c.tmplQuery != "" {
		for _, p := range strings.Split(c.tmplQuery, "&") {
			k, v, _ := strings.Cut(p, "=")
			ku, _ := url.QueryUnescape(k)
			vu, _ := url.QueryUnescape(v)
			out = append(out, [2]string{ku, vu})
		}
	}
	merged := map[string][]string{}
	for k, vs := range c.cQuery {
		merged[k] = vs
	}
	for k, vs := range c.rQuery {
		merged[k] = vs
	}
	keys := make([]string, 0, len(merged))
	for k := range merged {
		keys = append(keys, k)
	}
	sort.Strings(keys)
	for _, k := range keys {
		for _, v := range merged[k] {
			out = append(out, [2]string{k, v})
		}
	}
	return out
}

// c01ParseQueryOrdered splits a raw query into ordered (key, value) pairs like an origin would.
func c01ParseQueryOrdered(raw string) ([][2]string, bool) {
	var out [][2]string
	if raw == "" {
		return nil, true
	}
	for _, p := range strings.Split(raw, "&") {
		k, v, _ := strings.Cut(p, "=")
		ku, err1 := url.QueryUnescape(k)
		vu, err2 := url.QueryUnescape(v)
		if err1 != nil || err2 != nil {
			return nil, false
		}
		out = append(out, [2]string{ku, vu})
	}
	return out, true
}

func c01Dropped(u *url.URL) bool { return u != nil && u.RawPath != "" && u.EscapedPath() != u.RawPath }

// c01RawPathDropped: the first parse stages (template with parameters substituted; request map
// first, then client map — the generators keep the result independent of map order) or the
// final URL carry a RawPath that URL.EscapedPath ignores.
func c01RawPathDropped(tc c01URLCase, req *Request, err error) bool {
	temp := tc.rawURL
	for _, m := range []map[string]string{tc.rPath, tc.cPath} {
		keys := make([]string, 0, len(m))
		for k := range m {
			keys = append(keys, k)
		}
		sort.Strings(keys)
		for _, k := range keys {
			temp = strings.Replace(temp, "{"+k+"}", url.PathEscape(m[k]), -1)
		}
	}
	if u0, e := url.Parse(temp); e == nil && c01Dropped(u0) {
		return true
	}
	if tc.scheme != "" {
		if u1, e := url.Parse(tc.scheme + "://" + temp); e == nil && c01Dropped(u1) {
			return true
		}
	}
	return err == nil && c01Dropped(req.URL)
}

// TestVerif_C01_url: the real parseRequestURL vs the Lean model on generated client/request
// settings, plus an independent structure oracle on the well-formed stream.
func TestVerif_C01_url(t *testing.T) {
	s := c01New(t, "C01", "url",
		"structured stream: templates of 0..4 path segments (literal / {key} / pre{key}post) over absolute, scheme-less(+client scheme) and relative(+base URL) forms, request- and client-level path maps with overlapping keys (0..3 each), values from the nasty pool (reserved, CR/LF/NUL, non-ASCII, placeholders, percent forms) and random bytes, client/request query maps (0..3 keys, 0..3 values, overlapping, empty and reserved keys), optional raw query and fragment; wild stream: pool/random URLs with placeholders injected anywhere (authority, query, nested braces), odd schemes and base URLs; non-trivial = URL produced and at least one parameter or query key applied")
	r := s.Rand()
	n := verifh.N(12000, 300000)
	c := C()
	// judge runs the real parseRequestURL on the Request as it stands NOW and compares with the
	// model / the structure oracle of the description `tc` — a function of the current fields only
	judge := func(tc c01URLCase, req *Request, step string) {
		c.PathParams = tc.cPath
		c.QueryParams = tc.cQuery
		c.BaseURL = tc.base
		c.scheme = tc.scheme
		req.RawURL = tc.rawURL
		req.PathParams = tc.rPath
		req.QueryParams = tc.rQuery
		var err error
		if p, bad := verifh.Safely(func() { err = parseRequestURL(c, req) }); bad {
			s.Crash(fmt.Sprintf("%q", tc.rawURL), "parseRequestURL panicked", p, "")
			return
		}
		ans := "err"
		ok := true
		if err == nil {
			ans = c01ShowURL(req.URL)
			s.Count("ok")
		} else {
			s.Count("err")
		}
		if tc.structured {
			if err != nil {
				// every structured template is a valid URL whatever the data values are
				if tc.mayFail {
					s.Count("err-empty-first-segment")
				} else {
					ok = false
				}
			} else {
				u := req.URL
				ep := u.EscapedPath()
				pathChecked := true
				if tc.mayFail && (ep == "" || ep == "/") {
					// "//" alone (every segment empty) is an empty authority with an empty path:
					// url.URL.String() renders it as "" and the empty segments vanish
					s.Count("empty-segments-collapsed")
					pathChecked = false
				} else if strings.Count(ep, "/") != tc.nSeg && !(tc.nSeg == 0 && ep == "") {
					ok = false
				}
				if ok && pathChecked && tc.nSeg > 0 {
					segs := strings.Split(ep, "/")[1:]
					for j, want := range tc.segVals {
						if want == "\x00skip" || j >= len(segs) {
							continue
						}
						got, e := url.PathUnescape(segs[j])
						if e != nil || got != want {
							ok = false
						}
					}
				}
				if u.Fragment != func() string { f, _ := url.PathUnescape(tc.tmplFrag); return f }() {
					ok = false
				}
				got, pok := c01ParseQueryOrdered(u.RawQuery)
				want := c01ExpectedQuery(tc)
				if !pok || len(got) != len(want) {
					ok = false
				} else {
					for j := range got {
						if got[j] != want[j] {
							ok = false
						}
					}
				}
				if strings.ContainsAny(u.RequestURI(), " \r\n\x00") {
					ok = false
				}
			}
		}
		// Known finding C01-1 (fixes/C01-1-rawpath.patch): net/url discards RawPath when the path
		// also holds a byte that needs escaping, so "%2F" of a parameter value turns into "/".
		// Input class: some parse stage has a RawPath that EscapedPath does not honour.
		class := ""
		if c01RawPathDropped(tc, req, err) {
			class = "rawpath-dropped"
			s.Count("class:rawpath-dropped")
		}
		line := "c01url " + verifh.Hex(tc.rawURL) + " " + c01PMap(tc.rPath) + " " + c01PMap(tc.cPath) + " " +
			verifh.Hex(tc.scheme) + " " + verifh.Hex(tc.base) + " " + c01QMap(tc.cQuery) + " " + c01QMap(tc.rQuery)
		nontriv := err == nil && (len(tc.rPath)+len(tc.cPath)+len(tc.cQuery)+len(tc.rQuery) > 0)
		s.Case(line, ans, ok, class, nontriv,
			step+fmt.Sprintf("url=%q rpath=%q cpath=%q scheme=%q base=%q cq=%q rq=%q", tc.rawURL, tc.rPath, tc.cPath, tc.scheme, tc.base, tc.cQuery, tc.rQuery))
	}
	for i := 0; i < n; i++ {
		var tc c01URLCase
		if r.Intn(3) == 0 {
			tc = c01GenWild(r)
			s.Count("wild")
		} else {
			tc = c01GenStructured(r)
			s.Count("structured")
		}
		req := c.R()
		judge(tc, req, "")
		// round 6 — the SAME *Request goes through parseRequestURL again (a retry attempt, a second
		// Send) after its description was changed: 1..3 further steps, each judged on its own
		if r.Intn(3) == 0 {
			for k, m := 0, 1+r.Intn(3); k < m; k++ {
				var what string
				tc, what = c01EditURLCase(r, tc)
				s.Count("resend")
				s.Count("resend-edit:" + what)
				judge(tc, req, fmt.Sprintf("[same *Request, run %d, after edit of %s] ", k+2, what))
			}
		}
	}
	s.Need(t, "wild", "structured", "ok", "err", "resend", "resend-edit:rpath", "resend-edit:cpath", "resend-edit:paths", "resend-edit:rquery", "resend-edit:cquery", "resend-edit:all")
	s.Finish()
}
